/-
  GM.Proof.CMFrag20Inl — stage 20: the inline phase on a paragraph of rich lines with `_em_` / `__strong__` atoms.
  The development of CMFrag11Inl redone for the delimiter byte 95 and the flanking rule of `_`; the lines are handled as
  `EAtom` lists (`toE20`) spelled with underscores (`elineSrc20`).
-/
import GM.Proof.CMFrag20Defs
import GM.Proof.CMFrag11Inl

namespace GM.Proof.CMFrag
open GM GM.Text GM.Inl

def eatomSrc20 : EAtom → Bytes
  | .txt bs => bs
  | .code bs => [96] ++ bs ++ [96]
  | .em bs => [95] ++ bs ++ [95]
  | .strong bs => [95, 95] ++ bs ++ [95, 95]

def elineSrc20 (as : List EAtom) : Bytes := as.flatMap eatomSrc20

/-! ### the child list after the line loop, and what `processDelimiters` makes of it -/

/-- what the line loop leaves for one atom -/
inductive RItem20 where
  | text (seg : Segment) (soft : Bool)
  | code (seg : Segment)
  | emph (oid cid : Nat) (so sc content : Segment) (two oc cc : Bool)

def elen20 (two : Bool) : Nat := if two then 2 else 1

def mkDelim20 (seg : Segment) (two canOpen canClose : Bool) : Delim :=
  { seg := seg, canOpen := canOpen, canClose := canClose, length := (elen20 two : Nat), origLength := (elen20 two : Nat),
    char := 95 }

def RItem20.raw : RItem20 → List Inl.Node
  | .text seg soft => [.text seg soft false false]
  | .code seg => [.codeSpan [.text seg false false true]]
  | .emph oid cid so sc content two oc cc =>
    [.delim oid (mkDelim20 so two true oc), .text content false false false, .delim cid (mkDelim20 sc two cc true)]

def RItem20.fin : RItem20 → List Inl.Node
  | .text seg soft => [.text seg soft false false]
  | .code seg => [.codeSpan [.text seg false false true]]
  | .emph _ _ _ _ content two _ _ => [.emphasis (elen20 two : Nat) [.text content false false false]]

def raw20 (its : List RItem20) : List Inl.Node := its.flatMap RItem20.raw
def fin20 (its : List RItem20) : List Inl.Node := its.flatMap RItem20.fin

theorem raw20_append (a b : List RItem20) : raw20 (a ++ b) = raw20 a ++ raw20 b := by simp [raw20]
theorem fin20_append (a b : List RItem20) : fin20 (a ++ b) = fin20 a ++ fin20 b := by simp [fin20]

def runC20 : CStep → Except Panic (List Inl.Node)
  | .done k => .ok k
  | .bad => .error .pre
  | .next p i d po => closerLoop .nil p i d po

theorem closerLoop_run20 (pre : List Inl.Node) (cid : Nat) (cd : Delim) (post : List Inl.Node) :
    closerLoop .nil pre cid cd post = runC20 (closerStep .nil pre cid cd post) := by
  cases h : closerStep .nil pre cid cd post with
  | done k => exact GM.Proof.InlinesDelims.closerLoop_done h
  | bad => exact GM.Proof.InlinesDelims.closerLoop_bad h
  | next p i d po => exact GM.Proof.InlinesDelims.closerLoop_next h

theorem splitFirstDelim_noDelim20 : ∀ (l : List Inl.Node), (∀ n ∈ l, n.isDelim = false) → splitFirstDelim l = none
  | [], _ => rfl
  | n :: rest, h => by
    have ih := splitFirstDelim_noDelim20 rest (fun x hx => h x (by simp [hx]))
    have hn := h n (by simp)
    cases n <;> simp [Node.isDelim] at hn <;> simp [splitFirstDelim, ih]

theorem advanceCloser_cons20 (pre post : List Inl.Node) (n : Inl.Node) (hn : n.isDelim = false) :
    advanceCloser pre (n :: post) = advanceCloser (pre ++ [n]) post := by
  unfold advanceCloser
  cases n <;> simp [Node.isDelim] at hn <;> simp only [splitFirstDelim] <;>
    cases splitFirstDelim post <;> simp

theorem findOpener_noDelim20 (cd : Delim) : ∀ (l mid : List Inl.Node) (m : Bool), (∀ n ∈ l, n.isDelim = false) →
    findOpener .nil cd l mid m = (none, m)
  | [], _, _, _ => rfl
  | n :: rest, mid, m, h => by
    have ih := findOpener_noDelim20 cd rest (n :: mid) m (fun x hx => h x (by simp [hx]))
    have hn := h n (by simp)
    cases n <;> simp [Node.isDelim] at hn <;> simp [findOpener, ih]

theorem runC_items20 : ∀ (its : List RItem20) (pre : List Inl.Node), (∀ n ∈ pre, n.isDelim = false) →
    runC20 (advanceCloser pre (raw20 its)) = .ok (pre ++ fin20 its)
  | [], pre, _ => by simp [raw20, fin20, advanceCloser, splitFirstDelim, runC20]
  | .text seg soft :: rest, pre, hp => by
    have ih := runC_items20 rest (pre ++ [.text seg soft false false]) (by
      intro n hn; simp at hn; rcases hn with hn | rfl
      · exact hp n hn
      · rfl)
    have e : raw20 (.text seg soft :: rest) = .text seg soft false false :: raw20 rest := by simp [raw20, RItem20.raw]
    rw [e, advanceCloser_cons20 _ _ _ rfl, ih]
    simp [fin20, RItem20.fin]
  | .code seg :: rest, pre, hp => by
    have ih := runC_items20 rest (pre ++ [.codeSpan [.text seg false false true]]) (by
      intro n hn; simp at hn; rcases hn with hn | rfl
      · exact hp n hn
      · rfl)
    have e : raw20 (.code seg :: rest) = .codeSpan [.text seg false false true] :: raw20 rest := by
      simp [raw20, RItem20.raw]
    rw [e, advanceCloser_cons20 _ _ _ rfl, ih]
    simp [fin20, RItem20.fin]
  | .emph oid cid so sc content two oc cc :: rest, pre, hp => by
    have ih := runC_items20 rest (pre ++ [.emphasis (elen20 two : Nat) [.text content false false false]]) (by
      intro n hn; simp at hn; rcases hn with hn | rfl
      · exact hp n hn
      · rfl)
    have e : raw20 (.emph oid cid so sc content two oc cc :: rest) =
        .delim oid (mkDelim20 so two true oc) :: .text content false false false ::
          .delim cid (mkDelim20 sc two cc true) :: raw20 rest := by
      simp [raw20, RItem20.raw]
    have hpr : ∀ n ∈ pre.reverse, n.isDelim = false := fun n hn => hp n (by simpa using hn)
    -- the opening run as a closer: nothing in front of it
    have s1 : closerStep .nil pre oid (mkDelim20 so two true oc)
        (.text content false false false :: .delim cid (mkDelim20 sc two cc true) :: raw20 rest) =
        .next (pre ++ [.delim oid (mkDelim20 so two true oc), .text content false false false]) cid
          (mkDelim20 sc two cc true) (raw20 rest) := by
      unfold closerStep
      have hl : ¬ ((mkDelim20 so two true oc).length < 1) := by cases two <;> simp [mkDelim20, elen20]
      rw [if_neg hl, findOpener_noDelim20 _ _ _ _ hpr]
      cases oc <;> simp [mkDelim20, advanceCloser, splitFirstDelim]
    -- the closing run finds it
    have s2 : closerStep .nil (pre ++ [.delim oid (mkDelim20 so two true oc), .text content false false false]) cid
          (mkDelim20 sc two cc true) (raw20 rest) =
        advanceCloser (pre ++ [.emphasis (elen20 two : Nat) [.text content false false false]]) (raw20 rest) := by
      unfold closerStep
      have hl : ¬ ((mkDelim20 sc two cc true).length < 1) := by cases two <;> simp [mkDelim20, elen20]
      rw [if_neg hl]
      have hrev : (pre ++ [Node.delim oid (mkDelim20 so two true oc), Node.text content false false false]).reverse =
          Node.text content false false false :: Node.delim oid (mkDelim20 so two true oc) :: pre.reverse := by simp
      rw [hrev]
      cases two <;> cases oc <;> cases cc <;>
        simp [mkDelim20, elen20, findOpener, Delim.calcConsumption, Delim.consume, clearInner, Int.tmod]
    rw [e]
    show runC20 (advanceCloser pre (.delim oid (mkDelim20 so two true oc) :: _)) = _
    have e0 : advanceCloser pre (.delim oid (mkDelim20 so two true oc) :: .text content false false false ::
          .delim cid (mkDelim20 sc two cc true) :: raw20 rest) =
        .next pre oid (mkDelim20 so two true oc)
          (.text content false false false :: .delim cid (mkDelim20 sc two cc true) :: raw20 rest) := by
      simp [advanceCloser, splitFirstDelim]
    rw [e0]
    simp only [runC20]
    rw [closerLoop_run20, s1]
    simp only [runC20]
    rw [closerLoop_run20, s2, ih]
    simp [fin20, RItem20.fin]


theorem splitAt_of_first20 : ∀ (l pre post : List Inl.Node) (id : Nat) (d : Delim),
    splitFirstDelim l = some (pre, id, d, post) → splitAtDelim id l = some (pre, d, post)
  | [], _, _, _, _, h => by simp [splitFirstDelim] at h
  | n :: rest, pre, post, id, d, h => by
    cases n with
    | delim i dd =>
      simp [splitFirstDelim] at h
      obtain ⟨rfl, rfl, rfl, rfl⟩ := h
      simp [splitAtDelim]
    | _ =>
      simp only [splitFirstDelim] at h
      split at h
      · rename_i p i dd po heq
        simp at h; obtain ⟨rfl, rfl, rfl, rfl⟩ := h
        simp [splitAtDelim, splitAt_of_first20 rest _ _ _ _ heq]
      · simp at h

theorem fin_noDelim20 (its : List RItem20) : ∀ n ∈ fin20 its, n.isDelim = false := by
  intro n hn
  simp only [fin20, List.mem_flatMap] at hn
  obtain ⟨it, _, hn⟩ := hn
  cases it <;> simp [RItem20.fin] at hn <;> subst hn <;> rfl

theorem splitLastDelim_noDelim20 (l : List Inl.Node) (h : ∀ n ∈ l, n.isDelim = false) : splitLastDelim l = none := by
  unfold splitLastDelim
  rw [splitFirstDelim_noDelim20 _ (fun n hn => h n (by simpa using hn))]

theorem processDelimiters_raw20 (its : List RItem20) : processDelimiters .nil (raw20 its) = .ok (fin20 its) := by
  have hA := runC_items20 its [] (by simp)
  simp only [List.nil_append] at hA
  have hfin : clearDelimiters .nil (fin20 its) = fin20 its := by
    unfold clearDelimiters
    rw [splitLastDelim_noDelim20 _ (fin_noDelim20 its)]
  cases hf : splitFirstDelim (raw20 its) with
  | none =>
    have hnd := GM.Proof.Inlines.splitFirstDelim_none hf
    simp only [advanceCloser, hf, runC20, List.nil_append] at hA
    unfold processDelimiters
    rw [splitLastDelim_noDelim20 _ hnd]
    exact hA
  | some x =>
    obtain ⟨pre, id, d, post⟩ := x
    simp only [advanceCloser, hf, runC20, List.nil_append] at hA
    unfold processDelimiters
    cases hl : splitLastDelim (raw20 its) with
    | none =>
      have hnd := GM.Proof.InlinesDelims.splitLastDelim_none hl
      have := GM.Proof.Inlines.splitFirstDelim_eq hf
      have := hnd (.delim id d) (by rw [this]; simp)
      simp [Node.isDelim] at this
    | some y =>
      obtain ⟨preL, lastId, dl, postL⟩ := y
      simp only [hf, Option.map_some, splitAt_of_first20 _ _ _ _ _ hf, hA, hfin]

/-! ### the emphasis parser on a run of `*` -/

theorem forall_uint8_20 (P : UInt8 → Prop) (h : ∀ n < 256, P (UInt8.ofNat n)) : ∀ c, P c := fun c => by
  have := h c.toNat (UInt8.toNat_lt c)
  simpa using this

set_option maxRecDepth 1000000 in
theorem alnum_facts20 : ∀ c : UInt8, GM.Spec.CM.isAlnumC c = true →
    (c < 0x80) ∧ isCont c = false ∧ isPunct c = false ∧ c.toNat < 128 ∧ (c == 95) = false ∧
    (c.toNat == 9 || c.toNat == 10 || c.toNat == 11 || c.toNat == 12 || c.toNat == 13 || c.toNat == 32) = false := by
  apply forall_uint8_20
  decide

theorem rune_alnum20 (env : Env) (c : UInt8) (h : GM.Spec.CM.isAlnumC c = true) :
    isSpaceRune env c.toNat = false ∧ isPunctRune env c.toNat = false := by
  obtain ⟨_, _, hp, hlt, _, hsp⟩ := alnum_facts20 c h
  constructor
  · unfold isSpaceRune; rw [if_pos hlt]; exact hsp
  · unfold isPunctRune; rw [if_pos hlt]; simpa using hp

/-- the rune at an ASCII letter or digit -/
theorem toRune_alnum20 (line : Bytes) (k : Nat) (c : UInt8) (tl : Bytes) (hd : line.drop k = c :: tl)
    (h : GM.Spec.CM.isAlnumC c = true) : toRune line k = c.toNat := by
  obtain ⟨hlt, hc, _⟩ := alnum_facts20 c h
  have hk : line[k]? = some c := by
    have := congrArg (fun l => l[0]?) hd
    simpa using this
  unfold toRune
  simp [runeStartBack, hk, runeStart, hc, hd, decodeRune, hlt]

def isLeft20 (env : Env) (b a : Nat) : Bool :=
  !isSpaceRune env a && (!isPunctRune env a || isSpaceRune env b || isPunctRune env b)
def isRight20 (env : Env) (b a : Nat) : Bool :=
  !isSpaceRune env b && (!isPunctRune env b || isSpaceRune env a || isPunctRune env a)
/-- can open / can close for a run of `_` (delimiter.go:139-146) -/
def left20 (env : Env) (b a : Nat) : Bool := isLeft20 env b a && (!isRight20 env b a || isPunctRune env b)
def right20 (env : Env) (b a : Nat) : Bool := isRight20 env b a && (!isLeft20 env b a || isPunctRune env a)

theorem takeWhile_stars20 (tail : Bytes) (ht : tail.head? ≠ some 95) : ∀ m : Nat,
    (List.replicate m (95 : UInt8) ++ tail).takeWhile (· == 95) = List.replicate m 95
  | 0 => by
    cases tail with
    | nil => rfl
    | cons c r =>
      have : (c == 95) = false := by
        cases hc : (c == 95) with
        | false => rfl
        | true => exact absurd (by simp at hc; simp [hc]) ht
      simp [List.takeWhile_cons, this]
  | m + 1 => by
    simp [List.replicate_succ, List.takeWhile_cons, takeWhile_stars20 tail ht m]

theorem parseEmphasis_run20 (env : Env) (src : Bytes) (segs : List Segment) (L j hd : Int) (q n : Nat) (tail : Bytes)
    (e : Int) (id b : Nat) (hn : 1 ≤ n) (he : e = (q : Int) + n + tail.length) (hj : j < segs.length)
    (hlen : q + n + tail.length ≤ src.length) (hL : e ≤ L)
    (hsub : sub src q (q + (n + tail.length)) = List.replicate n 95 ++ tail)
    (htail : tail ≠ []) (ht42 : tail.head? ≠ some 95)
    (hb : (rdAt src segs L j { start := q, stop := e } hd).precendingCharacter = .ok b) :
    parseEmphasis env id (rdAt src segs L j { start := q, stop := e } hd) =
      .ok (some (.delim id { seg := { start := q, stop := (q : Int) + n },
                             canOpen := left20 env b (toRune (List.replicate n 95 ++ tail) n),
                             canClose := right20 env b (toRune (List.replicate n 95 ++ tail) n),
                             length := (n : Nat), origLength := (n : Nat), char := 95 }),
        rdAt src segs L j { start := (q : Int) + n, stop := e } hd) := by
  have htl : 0 < tail.length := List.length_pos_iff.mpr htail
  obtain ⟨m, rfl⟩ : ∃ m, n = m + 1 := ⟨n - 1, by omega⟩
  have hp := peekLine_at8 src segs L j q e hd hj (by omega) (by omega) (by omega) (by omega)
  have t1 : ((q : Int)).toNat = q := by omega
  have t2 : e.toNat = q + (m + 1 + tail.length) := by omega
  rw [t1, t2, hsub] at hp
  unfold parseEmphasis
  simp only [hb, hp, bind, Except.bind, Option.getD_some]
  have hline : List.replicate (m + 1) (95 : UInt8) ++ tail = 95 :: (List.replicate m 95 ++ tail) := by
    simp [List.replicate_succ]
  have hj' : ((List.replicate m (95 : UInt8) ++ tail).takeWhile (· == 95)).length + 1 = m + 1 := by
    rw [takeWhile_stars20 tail ht42 m]; simp
  have hne : ¬ (m + 1 = (95 :: (List.replicate m (95 : UInt8) ++ tail)).length) := by simp; omega
  rw [hline]
  simp only [scanDelimiter, hj']
  simp only [show ((95 : UInt8) == 42 || (95 : UInt8) == 95) = true by decide, Bool.not_true, Bool.false_eq_true,
    if_false, beq_iff_eq, hne, show ((95 : UInt8) == 95) = true by decide, if_true]
  simp only [Bool.or_true, Bool.not_true, Bool.false_eq_true, if_false]
  rw [advance_fast _ _ _ _ _ _ _ _ (by omega)]
  simp [Segment.withStop, left20, right20, isLeft20, isRight20, pure, Except.pure]

theorem prec_total20 (src : Bytes) (segs : List Segment) (L j hd q e : Int) (s0 : Segment) (h0 : segs[0]? = some s0) :
    ∃ b, (rdAt src segs L j { start := q, stop := e } hd).precendingCharacter = .ok b := by
  have hl : ¬ (segs.length < 1) := by
    have := (List.getElem?_eq_some_iff.mp h0).1; omega
  have hs : segAt segs 0 = .ok s0 := by simp [segAt, h0]
  unfold BlockReader.precendingCharacter
  simp only [rdAt, bind, Except.bind, pure, Except.pure, bne_self_eq_false, Bool.false_eq_true, if_false, hl, hs]
  by_cases c1 : (j == 0) = true ∧ q ≤ s0.start
  · exact ⟨10, by simp only [c1]; simp⟩
  · by_cases c2 : ¬(q - 1 < (src.length : Int) ∧ q - 1 ≥ 0)
    · exact ⟨10, by simp only [c1, c2]; simp⟩
    · cases hr : runeStartBack src q.toNat with
      | none => exact ⟨10, by simp only [c1, c2, hr]; simp⟩
      | some i => exact ⟨(decodeRune (List.drop i src)).fst, by simp only [c1, c2, hr]; simp⟩

theorem prec_alnum20 (src : Bytes) (segs : List Segment) (L j hd e : Int) (k : Nat) (c : UInt8) (s0 : Segment)
    (h0 : segs[0]? = some s0) (hfirst : j = 0 → s0.start ≤ k) (hk : src[k]? = some c)
    (hc : GM.Spec.CM.isAlnumC c = true) :
    (rdAt src segs L j { start := (k : Int) + 1, stop := e } hd).precendingCharacter = .ok c.toNat := by
  have hl : ¬ (segs.length < 1) := by
    have := (List.getElem?_eq_some_iff.mp h0).1; omega
  have hs : segAt segs 0 = .ok s0 := by simp [segAt, h0]
  have hklt : k < src.length := (List.getElem?_eq_some_iff.mp hk).1
  obtain ⟨hlt, hcont, _⟩ := alnum_facts20 c hc
  have hdrop : src.drop k = c :: src.drop (k + 1) := by
    rw [List.drop_eq_getElem_cons hklt]
    congr 1
    have := List.getElem?_eq_getElem hklt
    rw [this] at hk; exact Option.some.inj hk
  unfold BlockReader.precendingCharacter
  simp only [rdAt, bind, Except.bind, pure, Except.pure, bne_self_eq_false, Bool.false_eq_true, if_false, hl, hs]
  have h1 : ¬ ((j == 0) = true ∧ (k : Int) + 1 ≤ s0.start) := by
    intro ⟨ha, hb⟩
    have := hfirst (by simpa using ha)
    omega
  have h2 : ¬ ¬ ((k : Int) + 1 - 1 < (src.length : Int) ∧ (k : Int) + 1 - 1 ≥ 0) := by
    intro h; apply h; constructor <;> omega
  have t : ((k : Int) + 1).toNat = k + 1 := by omega
  simp only [h1, h2, if_false, t]
  simp [runeStartBack, hk, runeStart, hcont, hdrop, decodeRune, hlt]

theorem prec_ascii20 (src : Bytes) (segs : List Segment) (L j hd e : Int) (k : Nat) (c : UInt8) (s0 : Segment)
    (h0 : segs[0]? = some s0) (hfirst : j = 0 → s0.start ≤ k) (hk : src[k]? = some c)
    (hlt : c < 0x80) (hcont : isCont c = false) :
    (rdAt src segs L j { start := (k : Int) + 1, stop := e } hd).precendingCharacter = .ok c.toNat := by
  have hl : ¬ (segs.length < 1) := by
    have := (List.getElem?_eq_some_iff.mp h0).1; omega
  have hs : segAt segs 0 = .ok s0 := by simp [segAt, h0]
  have hklt : k < src.length := (List.getElem?_eq_some_iff.mp hk).1
  have hdrop : src.drop k = c :: src.drop (k + 1) := by
    rw [List.drop_eq_getElem_cons hklt]
    congr 1
    have := List.getElem?_eq_getElem hklt
    rw [this] at hk; exact Option.some.inj hk
  unfold BlockReader.precendingCharacter
  simp only [rdAt, bind, Except.bind, pure, Except.pure, bne_self_eq_false, Bool.false_eq_true, if_false, hl, hs]
  have h1 : ¬ ((j == 0) = true ∧ (k : Int) + 1 ≤ s0.start) := by
    intro ⟨ha, hb⟩
    have := hfirst (by simpa using ha)
    omega
  have h2 : ¬ ¬ ((k : Int) + 1 - 1 < (src.length : Int) ∧ (k : Int) + 1 - 1 ≥ 0) := by
    intro h; apply h; constructor <;> omega
  have t : ((k : Int) + 1).toNat = k + 1 := by omega
  simp only [h1, h2, if_false, t]
  simp [runeStartBack, hk, runeStart, hcont, hdrop, decodeRune, hlt]

theorem toRune_ascii20 (line : Bytes) (k : Nat) (c : UInt8) (tl : Bytes) (hd : line.drop k = c :: tl)
    (hlt : c < 0x80) (hc : isCont c = false) : toRune line k = c.toNat := by
  have hk : line[k]? = some c := by
    have := congrArg (fun l => l[0]?) hd
    simpa using this
  unfold toRune
  simp [runeStartBack, hk, runeStart, hc, hd, decodeRune, hlt]

set_option maxRecDepth 1000000 in
theorem nb_facts20 : ∀ c : UInt8, unNbOK c = true →
    (c < 0x80) ∧ isCont c = false ∧ c.toNat < 128 ∧
    ((c.toNat == 9 || c.toNat == 10 || c.toNat == 11 || c.toNat == 12 || c.toNat == 13 || c.toNat == 32) ||
      isPunct c) = true := by
  apply forall_uint8_20
  decide

theorem rune_nb20 (env : Env) (c : UInt8) (h : unNbOK c = true) :
    (isSpaceRune env c.toNat || isPunctRune env c.toNat) = true := by
  obtain ⟨_, _, hlt, hsp⟩ := nb_facts20 c h
  unfold isSpaceRune isPunctRune
  rw [if_pos hlt, if_pos hlt]
  simpa using hsp

/-! ### one pass of the line loop: text, then a run of `*` -/

theorem noMerge_delim20 (ks : List Inl.Node) (id : Nat) (d : Delim) : NoMerge8 (ks ++ [.delim id d]) := by
  intro seg h r; simp

theorem scan_star20 (env : Env) (henv : env.escapedSpace = false) (src : Bytes) (segs : List Segment) (L j hd : Int)
    (q n : Nat) (bs tail : Bytes) (e : Int) (ks : List Inl.Node) (nid b : Nat) (bts : List Bottom)
    (hn : 1 ≤ n) (he : e = (q : Int) + bs.length + n + tail.length)
    (hj : j < segs.length) (hlen : q + bs.length + n + tail.length ≤ src.length) (hL : e ≤ L)
    (hsub : sub src q (q + (bs.length + n + tail.length)) = bs ++ (List.replicate n 95 ++ tail))
    (hbs : bs ≠ []) (hq : quiet bs 0 false = true) (hesc : escAfter bs false = false)
    (htail : tail ≠ []) (ht42 : tail.head? ≠ some 95) (hnm : NoMerge8 ks)
    (hb : (rdAt src segs L j { start := (q : Int) + bs.length, stop := e } hd).precendingCharacter = .ok b) :
    scan env (bs ++ (List.replicate n 95 ++ tail)) 0
      { st := { rd := rdAt src segs L j { start := q, stop := e } hd, kids := ks, nextId := nid, bottoms := bts },
        n := 0, sp := { start := q, stop := e }, escaped := false } =
    .ok (.hit { rd := rdAt src segs L j { start := (q : Int) + bs.length + n, stop := e } hd,
                kids := ks ++ [.text { start := q, stop := (q : Int) + bs.length } false false false,
                  .delim nid { seg := { start := (q : Int) + bs.length, stop := (q : Int) + bs.length + n },
                               canOpen := left20 env b (toRune (List.replicate n 95 ++ tail) n),
                               canClose := right20 env b (toRune (List.replicate n 95 ++ tail) n),
                               length := (n : Nat), origLength := (n : Nat), char := 95 }],
                nextId := nid + 1, bottoms := bts } false) := by
  have hbl : 0 < bs.length := List.length_pos_iff.mpr hbs
  have htl : 0 < tail.length := List.length_pos_iff.mpr htail
  obtain ⟨m, rfl⟩ : ∃ m, n = m + 1 := ⟨n - 1, by omega⟩
  rw [scan_pre8 env henv bs _ 0 _ hq]
  simp only [hesc, Nat.zero_add, Int.zero_add]
  have hT : isTrigger env 95 bs.length false = true := by
    simp [isTrigger]; left; left; decide
  have hP : parserChar 95 bs.length = 95 := by
    have h1 : isSpace 95 = false := by decide
    have h2 : isPunct 95 = true := by decide
    simp [parserChar, h1, h2]
  have hF : parsersFor 95 = [.emphasis] := by decide
  have hline : List.replicate (m + 1) (95 : UInt8) ++ tail = 95 :: (List.replicate m 95 ++ tail) := by
    simp [List.replicate_succ]
  rw [hline, scan]
  simp only [show ((95 : UInt8) == 10) = false by decide, Bool.false_eq_true, if_false, hT, hP, hF]
  simp only [List.isEmpty_cons, Bool.not_false, Bool.and_self, if_true]
  unfold trigger
  simp only [bind, Except.bind]
  rw [advance_fast _ _ _ _ _ _ _ _ (by omega)]
  have hne0 : (bs.length != 0) = true := by simp; omega
  have hsub2 : sub src (q + bs.length) (q + bs.length + (m + 1 + tail.length)) =
      List.replicate (m + 1) 95 ++ tail := by
    have := sub_sub8 src q (bs.length + (m + 1) + tail.length) bs.length
      (bs.length + (m + 1 + tail.length)) (by omega)
    rw [hsub] at this
    rw [show q + bs.length + (m + 1 + tail.length) = q + (bs.length + (m + 1 + tail.length)) by omega,
      this, List.drop_left]
    apply List.take_of_length_le
    simp <;> omega
  have hparse := parseEmphasis_run20 env src segs L j hd (q + bs.length) (m + 1) tail e nid b hn
    (by push_cast; omega) hj (by omega) hL hsub2 htail ht42 (by rw [Int.natCast_add]; exact hb)
  rw [Int.natCast_add] at hparse
  simp only [hne0, if_true, BlockReader.position, Segment.between,
    Except.map, mergeOrAppend_nomerge8 ks _ hnm, tryParsers, Ip.parse, liftR, bind, Except.bind]
  simp only [show (rdAt src segs L j { start := (q : Int) + bs.length, stop := e } hd).pos =
    { start := (q : Int) + bs.length, stop := e } from rfl, bne_self_eq_false, Bool.false_eq_true, if_false]
  rw [← hline]
  simp only [hparse, pure, Except.pure, textOf]
  simp

/-- the rest of a line ends so that `classify` keeps all of it (whatever stands in front) -/
def EndOK20 (rest : Bytes) : Prop := ∀ x : Bytes, (classify (x ++ rest)).1 = (x ++ rest).length

theorem endOK_lf20 (l0 : Bytes) (c : UInt8) (hs : isSpace c = false) (hb : c ≠ 92) : EndOK20 (l0 ++ [c] ++ [10]) := by
  intro x
  rw [show x ++ (l0 ++ [c] ++ [10]) = (x ++ l0) ++ [c] ++ [10] by simp, classify_lf _ c hs hb]
  simp <;> omega

theorem endOK_nolf20 (l0 : Bytes) (c : UInt8) (hs : isSpace c = false) : EndOK20 (l0 ++ [c]) := by
  intro x
  have hc10 : c ≠ 10 := by intro h; subst h; simp [isSpace] at hs
  rw [show x ++ (l0 ++ [c]) = (x ++ l0) ++ [c] by simp, classify_nolf _ c hc10]
  simp <;> omega

theorem endOK_app20 (y rest : Bytes) (h : EndOK20 rest) : EndOK20 (y ++ rest) := by
  intro x
  have := h (x ++ y)
  simpa using this

theorem star_step20 (env : Env) (henv : env.escapedSpace = false) (src : Bytes) (segs : List Segment) (L j hd : Int)
    (q n : Nat) (bs tail : Bytes) (e : Int) (ks : List Inl.Node) (nid b : Nat) (bts : List Bottom) (fuel : Nat)
    (hn : 1 ≤ n) (he : e = (q : Int) + bs.length + n + tail.length)
    (hj : j < segs.length) (hlen : q + bs.length + n + tail.length ≤ src.length) (hL : e ≤ L)
    (hsub : sub src q (q + (bs.length + n + tail.length)) = bs ++ (List.replicate n 95 ++ tail))
    (hend : EndOK20 tail)
    (hbs : bs ≠ []) (hq : quiet bs 0 false = true) (hesc : escAfter bs false = false)
    (htail : tail ≠ []) (ht42 : tail.head? ≠ some 95) (hnm : NoMerge8 ks)
    (hb : (rdAt src segs L j { start := (q : Int) + bs.length, stop := e } hd).precendingCharacter = .ok b) :
    lineLoop env (fuel + 1) false
      { rd := rdAt src segs L j { start := q, stop := e } hd, kids := ks, nextId := nid, bottoms := bts } =
    lineLoop env fuel false
      { rd := rdAt src segs L j { start := (q : Int) + bs.length + n, stop := e } hd,
        kids := ks ++ [.text { start := q, stop := (q : Int) + bs.length } false false false,
          .delim nid { seg := { start := (q : Int) + bs.length, stop := (q : Int) + bs.length + n },
                       canOpen := left20 env b (toRune (List.replicate n 95 ++ tail) n),
                       canClose := right20 env b (toRune (List.replicate n 95 ++ tail) n),
                       length := (n : Nat), origLength := (n : Nat), char := 95 }],
        nextId := nid + 1, bottoms := bts } := by
  have hbl : 0 < bs.length := List.length_pos_iff.mpr hbs
  have hp := peekLine_at8 src segs L j q e hd hj (by omega) (by omega) (by omega) (by omega)
  have t1 : ((q : Int)).toNat = q := by omega
  have t2 : e.toNat = q + (bs.length + n + tail.length) := by omega
  rw [t1, t2, hsub] at hp
  refine lineLoop_hit8 env fuel false false _ _ _ _ hp ?_ ?_
  · cases bs with
    | nil => exact absurd rfl hbs
    | cons _ _ => rfl
  · have hcl := hend (bs ++ List.replicate n 95)
    rw [List.append_assoc] at hcl
    rw [hcl, List.take_length]
    exact scan_star20 env henv src segs L j hd q n bs tail e ks nid b bts hn he hj hlen hL hsub hbs hq hesc htail ht42
      hnm hb

set_option maxRecDepth 1000000 in
theorem alnum_facts2_20 : ∀ c : UInt8, GM.Spec.CM.isAlnumC c = true →
    (c != 10) = true ∧ (c == 92) = false ∧ isPunct c = false ∧ isSpace c = false := by
  apply forall_uint8_20
  decide

theorem alnum_quiet20 : ∀ (cs : Bytes) (i : Nat), (∀ c ∈ cs, GM.Spec.CM.isAlnumC c = true) →
    quiet cs i false = true ∧ escAfter cs false = false
  | [], _, _ => by simp [quiet, escAfter]
  | c :: cs, i, h => by
    obtain ⟨h10, h92, hp, hs⟩ := alnum_facts2_20 c (h c (by simp))
    obtain ⟨ih1, ih2⟩ := alnum_quiet20 cs (i + 1) (fun x hx => h x (by simp [hx]))
    have hF : parsersFor 32 = [] := by decide
    constructor
    · simp only [quiet, h10, h92, Bool.and_false, ih1, Bool.and_true, Bool.true_and]
      by_cases hi : i = 0
      · subst hi; simp [parserChar, hp, hs, hF]
      · simp [isTrigger, hp, hs, hi]
    · simp only [escAfter, h92, Bool.and_false, ih2]

/-! ### text, opening run, content, closing run: two passes -/

theorem em_step20 (env : Env) (henv : env.escapedSpace = false) (src : Bytes) (segs : List Segment) (L : Int) (j : Nat)
    (hd : Int) (s0 : Segment) (h0 : segs[0]? = some s0) (hs0 : (j : Int) = 0 → s0.start ≤ hd)
    (q : Nat) (two : Bool) (bs cs rest : Bytes) (e : Int) (ks : List Inl.Node) (nid : Nat) (bts : List Bottom)
    (fuel : Nat)
    (he : e = (q : Int) + bs.length + elen20 two + cs.length + elen20 two + rest.length)
    (hj : (j : Int) < segs.length)
    (hlen : q + bs.length + elen20 two + cs.length + elen20 two + rest.length ≤ src.length) (hL : e ≤ L)
    (hq0 : hd ≤ q)
    (hsub : sub src q (q + (bs.length + elen20 two + cs.length + elen20 two + rest.length)) =
      bs ++ (List.replicate (elen20 two) 95 ++ (cs ++ (List.replicate (elen20 two) 95 ++ rest))))
    (hend : EndOK20 rest)
    (hbs : bs ≠ []) (hq : quiet bs 0 false = true) (hesc : escAfter bs false = false)
    (hcs : cs ≠ []) (hal : ∀ c ∈ cs, GM.Spec.CM.isAlnumC c = true) (hrest : rest ≠ [])
    (hr42 : rest.head? ≠ some 95) (hnm : NoMerge8 ks)
    (hnb1 : ∀ c, bs.getLast? = some c → unNbOK c = true) (hnb2 : ∀ c, rest.head? = some c → unNbOK c = true) :
    ∃ oc cc, lineLoop env (fuel + 2) false
      { rd := rdAt src segs L j { start := q, stop := e } hd, kids := ks, nextId := nid, bottoms := bts } =
    lineLoop env fuel false
      { rd := rdAt src segs L j { start := (q : Int) + bs.length + elen20 two + cs.length + elen20 two, stop := e } hd,
        kids := ks ++ ([.text { start := q, stop := (q : Int) + bs.length } false false false] ++
          RItem20.raw (.emph nid (nid + 1)
            { start := (q : Int) + bs.length, stop := (q : Int) + bs.length + elen20 two }
            { start := (q : Int) + bs.length + elen20 two + cs.length,
              stop := (q : Int) + bs.length + elen20 two + cs.length + elen20 two }
            { start := (q : Int) + bs.length + elen20 two, stop := (q : Int) + bs.length + elen20 two + cs.length }
            two oc cc)),
        nextId := nid + 2, bottoms := bts } := by
  have hn : 1 ≤ elen20 two := by cases two <;> simp [elen20]
  have hcl : 0 < cs.length := List.length_pos_iff.mpr hcs
  have hrl : 0 < rest.length := List.length_pos_iff.mpr hrest
  obtain ⟨c0, cs', hcs0⟩ : ∃ c0 cs', cs = c0 :: cs' := by
    cases cs with
    | nil => exact absurd rfl hcs
    | cons c0 cs' => exact ⟨c0, cs', rfl⟩
  have hc0 : GM.Spec.CM.isAlnumC c0 = true := hal c0 (by simp [hcs0])
  obtain ⟨⟨hqc, hescc⟩⟩ : Nonempty (quiet cs 0 false = true ∧ escAfter cs false = false) := ⟨alnum_quiet20 cs 0 hal⟩
  -- first pass
  have hbl : 0 < bs.length := List.length_pos_iff.mpr hbs
  obtain ⟨cb, hcb⟩ : ∃ c, bs[bs.length - 1]? = some c := ⟨bs[bs.length - 1], by rw [List.getElem?_eq_getElem]⟩
  have hcbn : unNbOK cb = true := hnb1 cb (by rw [List.getLast?_eq_getElem?]; exact hcb)
  have hsubb : sub src q (q + bs.length) = bs := by
    have := sub_sub8 src q (bs.length + elen20 two + cs.length + elen20 two + rest.length) 0 bs.length (by omega)
    rw [hsub] at this
    simpa using this
  have hkb : src[q + (bs.length - 1)]? = some cb := by
    rw [sub_get8 src q bs.length (bs.length - 1) (by omega), hsubb, hcb]
  have hb1 := prec_ascii20 src segs L j hd e (q + (bs.length - 1)) cb s0 h0
    (by intro hj0; have := hs0 hj0; omega) hkb (nb_facts20 cb hcbn).1 (nb_facts20 cb hcbn).2.1
  rw [show ((q + (bs.length - 1) : Nat) : Int) + 1 = (q : Int) + bs.length by push_cast; omega] at hb1
  obtain ⟨b1, hb1e⟩ : ∃ b1, b1 = cb.toNat := ⟨_, rfl⟩
  rw [← hb1e] at hb1
  have hlen1 : (cs ++ (List.replicate (elen20 two) 95 ++ rest)).length = cs.length + elen20 two + rest.length := by
    simp; omega
  have step1 := star_step20 env henv src segs L j hd q (elen20 two) bs (cs ++ (List.replicate (elen20 two) 95 ++ rest))
    e ks nid b1 bts (fuel + 1) hn (by rw [hlen1]; push_cast; omega) hj (by rw [hlen1]; omega) hL
    (by rw [hlen1, show q + (bs.length + elen20 two + (cs.length + elen20 two + rest.length)) =
      q + (bs.length + elen20 two + cs.length + elen20 two + rest.length) by omega]; exact hsub)
    (endOK_app20 _ _ (endOK_app20 _ _ hend)) hbs hq hesc (by simp [hcs])
    (by rw [hcs0]; simp; intro h; have := (alnum_facts20 c0 hc0).2.2.2.2.1; simp [h] at this) hnm hb1
  have hopen : left20 env b1 (toRune (List.replicate (elen20 two) 95 ++ (cs ++ (List.replicate (elen20 two) 95 ++ rest)))
      (elen20 two)) = true := by
    rw [toRune_alnum20 _ (elen20 two) c0 (cs' ++ (List.replicate (elen20 two) 95 ++ rest))
      (by rw [List.drop_left' (by simp), hcs0]; rfl) hc0]
    have hr := rune_nb20 env cb hcbn
    rw [hb1e]
    cases h1 : isSpaceRune env cb.toNat <;> cases h2 : isPunctRune env cb.toNat <;>
      simp [left20, isLeft20, isRight20, (rune_alnum20 env c0 hc0).1, (rune_alnum20 env c0 hc0).2, h1, h2] at hr ⊢
  -- second pass
  obtain ⟨c1, hc1⟩ : ∃ c, cs[cs.length - 1]? = some c := ⟨cs[cs.length - 1], by rw [List.getElem?_eq_getElem]⟩
  have hc1a : GM.Spec.CM.isAlnumC c1 = true := hal c1 (List.mem_of_getElem? hc1)
  have hsubc : sub src (q + bs.length + elen20 two) (q + bs.length + elen20 two + cs.length) = cs := by
    have := sub_mid8 src q (bs ++ List.replicate (elen20 two) 95) cs (List.replicate (elen20 two) 95 ++ rest)
      (by
        have e1 : (bs ++ List.replicate (elen20 two) 95 ++ cs ++ (List.replicate (elen20 two) 95 ++ rest)).length =
          bs.length + elen20 two + cs.length + elen20 two + rest.length := by simp; omega
        rw [e1, hsub]; simp)
    simpa [Nat.add_assoc] using this
  have hk : src[q + bs.length + elen20 two + (cs.length - 1)]? = some c1 := by
    rw [sub_get8 src (q + bs.length + elen20 two) cs.length (cs.length - 1) (by omega), hsubc, hc1]
  have hb2 := prec_alnum20 src segs L j hd e (q + bs.length + elen20 two + (cs.length - 1)) c1 s0 h0
    (by intro hj0; have := hs0 hj0; omega) hk hc1a
  have e2 : ((q + bs.length + elen20 two + (cs.length - 1) : Nat) : Int) + 1 =
      ((q + bs.length + elen20 two : Nat) : Int) + cs.length := by push_cast; omega
  rw [e2] at hb2
  have step2 := star_step20 env henv src segs L j hd (q + bs.length + elen20 two) (elen20 two) cs rest e
    (ks ++ [.text { start := q, stop := (q : Int) + bs.length } false false false,
          .delim nid { seg := { start := (q : Int) + bs.length, stop := (q : Int) + bs.length + elen20 two },
                       canOpen := left20 env b1 (toRune (List.replicate (elen20 two) 95 ++
                         (cs ++ (List.replicate (elen20 two) 95 ++ rest))) (elen20 two)),
                       canClose := right20 env b1 (toRune (List.replicate (elen20 two) 95 ++
                         (cs ++ (List.replicate (elen20 two) 95 ++ rest))) (elen20 two)),
                       length := (elen20 two : Nat), origLength := (elen20 two : Nat), char := 95 }])
    (nid + 1) c1.toNat bts fuel hn (by push_cast; omega) hj (by omega) hL
    (by
      have := sub_sub8 src q (bs.length + elen20 two + cs.length + elen20 two + rest.length) (bs.length + elen20 two)
        (bs.length + elen20 two + cs.length + elen20 two + rest.length) (Nat.le_refl _)
      rw [hsub] at this
      rw [show q + bs.length + elen20 two + (cs.length + elen20 two + rest.length) =
        q + (bs.length + elen20 two + cs.length + elen20 two + rest.length) by omega,
        show q + bs.length + elen20 two = q + (bs.length + elen20 two) by omega, this]
      rw [← List.append_assoc bs, List.drop_left' (by simp)]
      apply List.take_of_length_le
      simp <;> omega)
    hend hcs hqc hescc hrest hr42
    (by rw [show ∀ (a b : Inl.Node), ks ++ [a, b] = (ks ++ [a]) ++ [b] by simp]; exact noMerge_delim20 _ _ _)
    hb2
  have hclose : right20 env c1.toNat (toRune (List.replicate (elen20 two) 95 ++ rest) (elen20 two)) = true := by
    obtain ⟨r0, rest', hr0⟩ : ∃ r0 rest', rest = r0 :: rest' := by
      cases rest with
      | nil => exact absurd rfl hrest
      | cons r0 rest' => exact ⟨r0, rest', rfl⟩
    have hr0n : unNbOK r0 = true := hnb2 r0 (by simp [hr0])
    rw [toRune_ascii20 _ (elen20 two) r0 rest' (by rw [List.drop_left' (by simp), hr0])
      (nb_facts20 r0 hr0n).1 (nb_facts20 r0 hr0n).2.1]
    have hr := rune_nb20 env r0 hr0n
    cases h1 : isSpaceRune env r0.toNat <;> cases h2 : isPunctRune env r0.toNat <;>
      simp [right20, isLeft20, isRight20, (rune_alnum20 env c1 hc1a).1, (rune_alnum20 env c1 hc1a).2, h1, h2] at hr ⊢
  have e3 : ((q + bs.length + elen20 two : Nat) : Int) = (q : Int) + bs.length + elen20 two := by push_cast; rfl
  rw [e3] at step2
  rw [hopen] at step1 step2
  rw [hclose] at step2
  refine ⟨right20 env b1 (toRune (List.replicate (elen20 two) 95 ++
      (cs ++ (List.replicate (elen20 two) 95 ++ rest))) (elen20 two)),
    left20 env c1.toNat (toRune (List.replicate (elen20 two) 95 ++ rest) (elen20 two)), ?_⟩
  rw [show fuel + 2 = fuel + 1 + 1 from rfl, step1, step2]
  simp [RItem20.raw, mkDelim20]

/-! ### the children of a paragraph of rich lines with emphasis -/

def atomKids20 (soft : Bool) : Int → List EAtom → List Inl.Node
  | _, [] => []
  | q, [.txt bs] => [.text { start := q, stop := q + bs.length } soft false false]
  | q, .txt bs :: rest => .text { start := q, stop := q + bs.length } false false false :: atomKids20 soft (q + bs.length) rest
  | q, .code cs :: rest =>
    .codeSpan [.text { start := q + 1, stop := q + 1 + cs.length } false false true] :: atomKids20 soft (q + cs.length + 2) rest
  | q, .em cs :: rest =>
    .emphasis 1 [.text { start := q + 1, stop := q + 1 + cs.length } false false false] ::
      atomKids20 soft (q + 1 + cs.length + 1) rest
  | q, .strong cs :: rest =>
    .emphasis 2 [.text { start := q + 2, stop := q + 2 + cs.length } false false false] ::
      atomKids20 soft (q + 2 + cs.length + 2) rest

/-- the inline children `parseBlock` gives a paragraph of rich lines (with emphasis) that starts at byte `p` -/
def richKidsE20 : Nat → List (List EAtom) → List Inl.Node
  | _, [] => []
  | p, [l] => atomKids20 false p l
  | p, l :: l' :: rest => atomKids20 true p l ++ richKidsE20 (p + (elineSrc20 l).length + 1) (l' :: rest)

def emAtom20 : Bool → Bytes → EAtom
  | true, cs => .strong cs
  | false, cs => .em cs

/-- passes through `retry:` in front of the last text atom -/
def pre20 : List EAtom → Nat
  | [] => 0
  | .txt _ :: rest => pre20 rest
  | .code _ :: rest => pre20 rest + 1
  | .em _ :: rest => pre20 rest + 2
  | .strong _ :: rest => pre20 rest + 2

def ids20 : List EAtom → Nat
  | [] => 0
  | .txt _ :: rest => ids20 rest
  | .code _ :: rest => ids20 rest
  | .em _ :: rest => ids20 rest + 2
  | .strong _ :: rest => ids20 rest + 2

inductive ET20 : List EAtom → Prop
  | last (bs l0 : Bytes) (c : UInt8) : bs = l0 ++ [c] → isSpace c = false → c ≠ 92 → quiet bs 0 false = true →
      ET20 [.txt bs]
  | code (bs cs : Bytes) (rest : List EAtom) : bs ≠ [] → quiet bs 0 false = true → escAfter bs false = false →
      cs ≠ [] → (∀ c ∈ cs, GM.Spec.CM.isAlnumC c = true) → ET20 rest → ET20 (.txt bs :: .code cs :: rest)
  | emph (two : Bool) (bs cs : Bytes) (rest : List EAtom) : bs ≠ [] → quiet bs 0 false = true →
      escAfter bs false = false → cs ≠ [] → (∀ c ∈ cs, GM.Spec.CM.isAlnumC c = true) →
      (∀ c, bs.getLast? = some c → unNbOK c = true) → (∀ c, (elineSrc20 rest).head? = some c → unNbOK c = true) →
      ET20 rest → ET20 (.txt bs :: emAtom20 two cs :: rest)

theorem elineSrc_single20 (bs : Bytes) : elineSrc20 [.txt bs] = bs := by simp [elineSrc20, eatomSrc20]

theorem elineSrc_code20 (bs cs : Bytes) (rest : List EAtom) :
    elineSrc20 (.txt bs :: .code cs :: rest) = bs ++ 96 :: (cs ++ 96 :: elineSrc20 rest) := by
  simp [elineSrc20, eatomSrc20]

theorem elineSrc_emph20 (two : Bool) (bs cs : Bytes) (rest : List EAtom) :
    elineSrc20 (.txt bs :: emAtom20 two cs :: rest) =
      bs ++ (List.replicate (elen20 two) 95 ++ (cs ++ (List.replicate (elen20 two) 95 ++ elineSrc20 rest))) := by
  cases two <;> simp [elineSrc20, eatomSrc20, emAtom20, elen20, List.replicate]

theorem quiet_head42_20 (c : UInt8) (cs : Bytes) (h : quiet (c :: cs) 0 false = true) : c ≠ 95 := by
  intro hc
  subst hc
  have h1 : isSpace 95 = false := by decide
  have h2 : isPunct 95 = true := by decide
  have hF : parsersFor 95 = [.emphasis] := by decide
  simp [quiet, isTrigger, parserChar, h1, h2, hF] at h

theorem et_head20 {as : List EAtom} (h : ET20 as) :
    elineSrc20 as ≠ [] ∧ (elineSrc20 as).head? ≠ some 96 ∧ (elineSrc20 as).head? ≠ some 95 := by
  have key : ∀ (bs : Bytes) (t : Bytes), bs ≠ [] → quiet bs 0 false = true →
      bs ++ t ≠ [] ∧ (bs ++ t).head? ≠ some 96 ∧ (bs ++ t).head? ≠ some 95 := by
    intro bs t hne hq
    cases bs with
    | nil => exact absurd rfl hne
    | cons x xs => exact ⟨by simp, by simpa using quiet_head8 _ _ hq, by simpa using quiet_head42_20 _ _ hq⟩
  cases h with
  | last bs l0 c hl hs hb hq =>
    rw [elineSrc_single20]
    have := key bs [] (by subst hl; simp) hq
    simpa using this
  | code bs cs rest hbs hq _ _ _ _ => rw [elineSrc_code20]; exact key bs _ hbs hq
  | emph two bs cs rest hbs hq _ _ _ _ _ _ => rw [elineSrc_emph20]; exact key bs _ hbs hq

theorem et_concat20 {as : List EAtom} (h : ET20 as) :
    ∃ l0 c, elineSrc20 as = l0 ++ [c] ∧ isSpace c = false ∧ c ≠ 92 := by
  induction h with
  | last bs l0 c hl hs hb hq => exact ⟨l0, c, by rw [elineSrc_single20, hl], hs, hb⟩
  | code bs cs rest _ _ _ _ _ _ ih =>
    obtain ⟨l0, c, hl, hs, hb⟩ := ih
    exact ⟨bs ++ 96 :: (cs ++ 96 :: l0), c, by rw [elineSrc_code20, hl]; simp, hs, hb⟩
  | emph two bs cs rest _ _ _ _ _ _ _ _ ih =>
    obtain ⟨l0, c, hl, hs, hb⟩ := ih
    exact ⟨bs ++ (List.replicate (elen20 two) 95 ++ (cs ++ (List.replicate (elen20 two) 95 ++ l0))), c,
      by rw [elineSrc_emph20, hl]; simp, hs, hb⟩

theorem atomKids_code20 (soft : Bool) (q : Int) (bs cs : Bytes) (rest : List EAtom) :
    atomKids20 soft q (.txt bs :: .code cs :: rest) =
      [.text { start := q, stop := q + bs.length } false false false,
        .codeSpan [.text { start := q + bs.length + 1, stop := q + bs.length + 1 + cs.length } false false true]] ++
      atomKids20 soft (q + bs.length + cs.length + 2) rest := by
  simp [atomKids20]

theorem atomKids_emph20 (soft : Bool) (q : Int) (two : Bool) (bs cs : Bytes) (rest : List EAtom) (n : Int)
    (hn : n = ((elen20 two : Nat) : Int)) :
    atomKids20 soft q (.txt bs :: emAtom20 two cs :: rest) =
      [Inl.Node.text ⟨q, q + bs.length, 0, false⟩ false false false,
        Inl.Node.emphasis n [Inl.Node.text ⟨q + bs.length + n, q + bs.length + n + cs.length, 0, false⟩ false false false]] ++
      atomKids20 soft (q + bs.length + n + cs.length + n) rest := by
  subst hn
  cases two <;> simp [atomKids20, emAtom20, elen20]

/-! ### one line, up to its last text atom; the last step is a parameter -/

theorem atoms20 (env : Env) (henv : env.escapedSpace = false) (src : Bytes) (segs : List Segment) (L : Int) (j : Nat)
    (hd : Int) (s0 : Segment) (h0 : segs[0]? = some s0) (hs0 : (j : Int) = 0 → s0.start ≤ hd)
    (hj : (j : Int) < segs.length) (bts : List Bottom) (tl : Bytes) (e : Int) (hL : e ≤ L) (soft : Bool) (F : Nat)
    (K : List Inl.Node → Nat → Except Panic St)
    (hendtl : ∀ l0 c, isSpace c = false → c ≠ 92 → EndOK20 (l0 ++ [c] ++ tl))
    (hfin : ∀ (q : Nat) (bs l0 : Bytes) (c : UInt8) (ks : List Inl.Node) (nid : Nat), bs = l0 ++ [c] →
      isSpace c = false → c ≠ 92 → quiet bs 0 false = true → e = (q : Int) + bs.length + tl.length →
      sub src q (q + (bs.length + tl.length)) = bs ++ tl → q + bs.length + tl.length ≤ src.length →
      lineLoop env F false
        { rd := rdAt src segs L j { start := q, stop := e } hd, kids := ks, nextId := nid, bottoms := bts } =
      K (ks ++ [.text { start := q, stop := (q : Int) + bs.length } soft false false]) nid) :
    ∀ (as : List EAtom), ET20 as → ∀ (q : Nat) (ks : List Inl.Node) (nid : Nat),
      e = (q : Int) + (elineSrc20 as).length + tl.length → NoMerge8 ks →
      sub src q (q + ((elineSrc20 as).length + tl.length)) = elineSrc20 as ++ tl →
      q + (elineSrc20 as).length + tl.length ≤ src.length → hd ≤ q →
      ∃ its, fin20 its = atomKids20 soft q as ∧
        lineLoop env (F + pre20 as) false
          { rd := rdAt src segs L j { start := q, stop := e } hd, kids := ks, nextId := nid, bottoms := bts } =
        K (ks ++ raw20 its) (nid + ids20 as) ∧ ∃ its0 seg, its = its0 ++ [RItem20.text seg soft] := by
  intro as h
  induction h with
  | last bs l0 c hl hs hb hq =>
    intro q ks nid he hnm hsub hlen hq0
    rw [elineSrc_single20] at he hsub hlen
    refine ⟨[.text { start := q, stop := (q : Int) + bs.length } soft], by simp [fin20, RItem20.fin, atomKids20], ?_⟩
    have := hfin q bs l0 c ks nid hl hs hb hq he hsub hlen
    exact ⟨by simpa [pre20, ids20, raw20, RItem20.raw] using this, [], _, rfl⟩
  | code bs cs rest hbs hq hesc hcs hal hrt ih =>
    intro q ks nid he hnm hsub hlen hq0
    obtain ⟨hrne, hr96, _⟩ := et_head20 hrt
    obtain ⟨l0, c, hl0, hs, hb⟩ := et_concat20 hrt
    rw [elineSrc_code20] at he hsub hlen
    have hlenE : (bs ++ 96 :: (cs ++ 96 :: elineSrc20 rest)).length =
        bs.length + cs.length + 2 + (elineSrc20 rest).length := by simp; omega
    rw [hlenE] at he hsub hlen
    have hR : (elineSrc20 rest ++ tl).length = (elineSrc20 rest).length + tl.length := by simp
    have hend : EndOK20 (elineSrc20 rest ++ tl) := by rw [hl0]; exact hendtl l0 c hs hb
    have hcl := hend (bs ++ 96 :: (cs ++ [96]))
    rw [show bs ++ 96 :: (cs ++ [96]) ++ (elineSrc20 rest ++ tl) = bs ++ 96 :: (cs ++ 96 :: (elineSrc20 rest ++ tl)) by simp]
      at hcl
    have hstep := code_step8 env henv src segs L j hd q bs cs (elineSrc20 rest ++ tl) e ks nid bts (F + pre20 rest)
      (by rw [hR]; push_cast; omega) hj (by rw [hR]; omega) hL
      (by rw [hR, show q + (bs.length + cs.length + 2 + ((elineSrc20 rest).length + tl.length)) =
            q + (bs.length + cs.length + 2 + (elineSrc20 rest).length + tl.length) by omega, hsub]; simp)
      hcl hbs hq hesc hcs hal (by simp [hrne])
      (by cases hx : elineSrc20 rest with
          | nil => exact absurd hx hrne
          | cons x xs => rw [hx] at hr96; simpa using hr96) hnm
    have hq' : ((q + bs.length + cs.length + 2 : Nat) : Int) = (q : Int) + bs.length + cs.length + 2 := by
      push_cast; rfl
    obtain ⟨its, hfin', hih, its0, sg, hits⟩ := ih (q + bs.length + cs.length + 2)
      (ks ++ [.text { start := q, stop := (q : Int) + bs.length } false false false,
          .codeSpan [.text { start := (q : Int) + bs.length + 1, stop := (q : Int) + bs.length + 1 + cs.length }
            false false true]]) nid (by omega)
      (by rw [show ∀ (a b : Inl.Node), ks ++ [a, b] = (ks ++ [a]) ++ [b] by simp]; exact noMerge_code8 _ _)
      (by
        have := sub_sub8 src q (bs.length + cs.length + 2 + (elineSrc20 rest).length + tl.length)
          (bs.length + cs.length + 2) (bs.length + cs.length + 2 + (elineSrc20 rest).length + tl.length) (Nat.le_refl _)
        rw [hsub] at this
        rw [show q + bs.length + cs.length + 2 + ((elineSrc20 rest).length + tl.length) =
          q + (bs.length + cs.length + 2 + (elineSrc20 rest).length + tl.length) by omega,
          show q + bs.length + cs.length + 2 = q + (bs.length + cs.length + 2) by omega, this]
        have e1 : bs ++ 96 :: (cs ++ 96 :: elineSrc20 rest) ++ tl = (bs ++ 96 :: (cs ++ [96])) ++ (elineSrc20 rest ++ tl) := by
          simp
        rw [e1, List.drop_left' (by simp; omega)]
        apply List.take_of_length_le
        simp <;> omega)
      (by omega) (by omega)
    rw [hq'] at hih hfin'
    refine ⟨.text { start := q, stop := (q : Int) + bs.length } false ::
      .code { start := (q : Int) + bs.length + 1, stop := (q : Int) + bs.length + 1 + cs.length } :: its, ?_, ?_⟩
    · rw [atomKids_code20, ← hfin']
      simp [fin20, RItem20.fin]
    · rw [show F + pre20 (.txt bs :: .code cs :: rest) = F + pre20 rest + 1 by simp only [pre20]; omega, hstep, hih]
      exact ⟨by simp [raw20, RItem20.raw, ids20], _ :: _ :: its0, sg, by rw [hits]; rfl⟩
  | emph two bs cs rest hbs hq hesc hcs hal hn1 hn2 hrt ih =>
    intro q ks nid he hnm hsub hlen hq0
    obtain ⟨hrne, _, hr42⟩ := et_head20 hrt
    obtain ⟨l0, c, hl0, hs, hb⟩ := et_concat20 hrt
    rw [elineSrc_emph20] at he hsub hlen
    have hlenE : (bs ++ (List.replicate (elen20 two) 95 ++ (cs ++ (List.replicate (elen20 two) 95 ++ elineSrc20 rest)))).length =
        bs.length + elen20 two + cs.length + elen20 two + (elineSrc20 rest).length := by simp; omega
    rw [hlenE] at he hsub hlen
    have hR : (elineSrc20 rest ++ tl).length = (elineSrc20 rest).length + tl.length := by simp
    have hend : EndOK20 (elineSrc20 rest ++ tl) := by rw [hl0]; exact hendtl l0 c hs hb
    obtain ⟨oc, cc, hstep⟩ := em_step20 env henv src segs L j hd s0 h0 hs0 q two bs cs (elineSrc20 rest ++ tl) e ks nid bts
      (F + pre20 rest)
      (by rw [hR]; push_cast; omega) hj (by rw [hR]; omega) hL hq0
      (by rw [hR, show q + (bs.length + elen20 two + cs.length + elen20 two + ((elineSrc20 rest).length + tl.length)) =
            q + (bs.length + elen20 two + cs.length + elen20 two + (elineSrc20 rest).length + tl.length) by omega, hsub]
          simp)
      hend hbs hq hesc hcs hal (by simp [hrne])
      (by cases hx : elineSrc20 rest with
          | nil => exact absurd hx hrne
          | cons x xs => rw [hx] at hr42; simpa using hr42) hnm hn1
      (by
        intro c hc
        apply hn2 c
        cases hx : elineSrc20 rest with
        | nil => exact absurd hx hrne
        | cons x xs => rw [hx] at hc; simpa using hc)
    have hq' : ((q + bs.length + elen20 two + cs.length + elen20 two : Nat) : Int) =
        (q : Int) + bs.length + elen20 two + cs.length + elen20 two := by
      push_cast; rfl
    obtain ⟨its, hfin', hih, its0, sg, hits⟩ := ih (q + bs.length + elen20 two + cs.length + elen20 two)
      (ks ++ ([.text { start := q, stop := (q : Int) + bs.length } false false false] ++
          RItem20.raw (.emph nid (nid + 1)
            { start := (q : Int) + bs.length, stop := (q : Int) + bs.length + elen20 two }
            { start := (q : Int) + bs.length + elen20 two + cs.length,
              stop := (q : Int) + bs.length + elen20 two + cs.length + elen20 two }
            { start := (q : Int) + bs.length + elen20 two, stop := (q : Int) + bs.length + elen20 two + cs.length }
            two oc cc))) (nid + 2) (by omega)
      (by
        simp only [RItem20.raw]
        rw [show ∀ (a b c d : Inl.Node), ks ++ ([a] ++ [b, c, d]) = (ks ++ [a, b, c]) ++ [d] by simp]
        exact noMerge_delim20 _ _ _)
      (by
        have := sub_sub8 src q (bs.length + elen20 two + cs.length + elen20 two + (elineSrc20 rest).length + tl.length)
          (bs.length + elen20 two + cs.length + elen20 two)
          (bs.length + elen20 two + cs.length + elen20 two + (elineSrc20 rest).length + tl.length) (Nat.le_refl _)
        rw [hsub] at this
        rw [show q + bs.length + elen20 two + cs.length + elen20 two + ((elineSrc20 rest).length + tl.length) =
          q + (bs.length + elen20 two + cs.length + elen20 two + (elineSrc20 rest).length + tl.length) by omega,
          show q + bs.length + elen20 two + cs.length + elen20 two = q + (bs.length + elen20 two + cs.length + elen20 two)
            by omega, this]
        have e1 : bs ++ (List.replicate (elen20 two) 95 ++ (cs ++ (List.replicate (elen20 two) 95 ++ elineSrc20 rest))) ++ tl =
            (bs ++ (List.replicate (elen20 two) 95 ++ (cs ++ List.replicate (elen20 two) 95))) ++ (elineSrc20 rest ++ tl) := by
          simp
        rw [e1, List.drop_left' (by simp; omega)]
        apply List.take_of_length_le
        simp <;> omega)
      (by omega) (by omega)
    rw [hq'] at hih hfin'
    refine ⟨.text { start := q, stop := (q : Int) + bs.length } false ::
      .emph nid (nid + 1)
            { start := (q : Int) + bs.length, stop := (q : Int) + bs.length + elen20 two }
            { start := (q : Int) + bs.length + elen20 two + cs.length,
              stop := (q : Int) + bs.length + elen20 two + cs.length + elen20 two }
            { start := (q : Int) + bs.length + elen20 two, stop := (q : Int) + bs.length + elen20 two + cs.length }
            two oc cc :: its, ?_, ?_⟩
    · rw [atomKids_emph20 soft q two bs cs rest _ rfl, ← hfin']
      simp [fin20, RItem20.fin]
    · have hp : F + pre20 (.txt bs :: emAtom20 two cs :: rest) = F + pre20 rest + 2 := by
        cases two <;> simp only [pre20, emAtom20] <;> omega
      have hi : nid + ids20 (.txt bs :: emAtom20 two cs :: rest) = nid + 2 + ids20 rest := by
        cases two <;> simp only [ids20, emAtom20] <;> omega
      rw [hp, hi, hstep, hih]
      exact ⟨by simp [raw20, RItem20.raw], _ :: _ :: its0, sg, by rw [hits]; rfl⟩

/-! ### the whole paragraph -/

def need20 : List (List EAtom) → Nat
  | [] => 1
  | l :: rest => pre20 l + 1 + need20 rest

theorem loop_rich20 (env : Env) (henv : env.escapedSpace = false) (src : Bytes) (segs : List Segment) (L : Int)
    (bts : List Bottom) (s0 : Segment) (h0 : segs[0]? = some s0) :
    ∀ (ls : List (List EAtom)) (p : Nat) (done : List Segment) (ks : List Inl.Node) (f nid : Nat), ls ≠ [] →
      (∀ l ∈ ls, ET20 l) → LinesAtE src p (ls.map elineSrc20) → segs = done ++ paraSegs p (ls.map elineSrc20) →
      L = (paraEnd p (ls.map elineSrc20) : Nat) → NoMerge8 ks →
      ∃ its rd' nid', fin20 its = richKidsE20 p ls ∧ lineLoop env (f + need20 ls) false
        { rd := rdAt src segs L done.length ((paraSegs p (ls.map elineSrc20)).headD default) p, kids := ks,
          nextId := nid, bottoms := bts } =
        .ok { rd := rd', kids := ks ++ raw20 its, nextId := nid', bottoms := bts }
  | [], _, _, _, _, _, h, _, _, _, _, _ => absurd rfl h
  | [l], p, done, ks, f, nid, _, hg, hla, hsegs, hL, hnm => by
    obtain ⟨hsub, hlen⟩ := hla
    have hL' : L = (p : Int) + (elineSrc20 l).length := by simp [hL, paraEnd]
    have hjl : done.length + 1 = segs.length := by simp [hsegs, paraSegs]
    have hs0 : ((done.length : Nat) : Int) = 0 → s0.start ≤ (p : Int) := by
      intro hz
      have hd0 : done = [] := List.eq_nil_of_length_eq_zero (by omega)
      subst hd0
      rw [hsegs] at h0
      simp [paraSegs] at h0
      rw [← h0]; simp
    have := atoms20 env henv src segs L done.length p s0 h0 hs0 (by omega) bts [] L (Int.le_refl _) false (f + 2)
      (fun kids n => .ok (St.mk (rdAt src segs L (done.length + 1) { start := L, stop := L } L) kids n bts))
      (by intro l0 c hs hb; simpa using endOK_nolf20 l0 c hs)
      (by
        intro q bs l0 c ks nid hl hs hb hq he hsub hlen
        have he' : L = (q : Int) + bs.length := by simpa using he
        subst he'
        have := last_step8 env henv src segs p done.length q bs l0 c ks nid bts f hl hs hb hq (by simpa using hsub)
          (by simpa using hlen) hjl
        exact this)
      l (hg l (by simp)) p ks nid (by simpa using hL') hnm (by simpa using hsub) (by simpa using hlen) (Int.le_refl _)
    obtain ⟨its, hfin, hrun, _⟩ := this
    refine ⟨its, rdAt src segs L (done.length + 1) { start := L, stop := L } L, nid + ids20 l,
      by simpa [richKidsE20] using hfin, ?_⟩
    have e1 : (paraSegs p ([l].map elineSrc20)).headD default = { start := (p : Int), stop := L } := by
      rw [hL']; rfl
    rw [e1]
    have e2 : f + need20 [l] = f + 2 + pre20 l := by simp [need20]; omega
    rw [e2, hrun]
  | l :: l' :: rest, p, done, ks, f, nid, _, hg, hla, hsegs, hL, hnm => by
    obtain ⟨hsub, hlen, hla'⟩ := hla
    have hrt := hg l (by simp)
    have hpL : (p : Int) + (elineSrc20 l).length + 1 ≤ L := by
      have := paraEnd_ge ((l' :: rest).map elineSrc20) (p + (elineSrc20 l).length + 1)
      simp only [List.map_cons, paraEnd] at hL this
      omega
    have hsegs' : segs = (done ++ [{ start := (p : Int), stop := (p : Int) + (elineSrc20 l).length + 1 }]) ++
        paraSegs (p + (elineSrc20 l).length + 1) ((l' :: rest).map elineSrc20) := by
      rw [hsegs]; simp [paraSegs]
    have hnext : segs[done.length + 1]? =
        some ((paraSegs (p + (elineSrc20 l).length + 1) ((l' :: rest).map elineSrc20)).headD default) := by
      rw [hsegs']
      rw [List.getElem?_append_right (by simp)]
      simp only [List.length_append, List.length_cons, List.length_nil, Nat.zero_add, Nat.sub_self]
      cases rest <;> rfl
    have hjlt : done.length + 1 < segs.length := (List.getElem?_eq_some_iff.mp hnext).1
    have hs0 : ((done.length : Nat) : Int) = 0 → s0.start ≤ (p : Int) := by
      intro hz
      have hd0 : done = [] := List.eq_nil_of_length_eq_zero (by omega)
      subst hd0
      rw [hsegs] at h0
      simp [paraSegs] at h0
      rw [← h0]; simp
    have := atoms20 env henv src segs L done.length p s0 h0 hs0 (by omega) bts [10]
      ((p : Int) + (elineSrc20 l).length + 1) hpL true (f + need20 (l' :: rest) + 1)
      (fun kids n => lineLoop env (f + need20 (l' :: rest)) false (St.mk (rdAt src segs L (done.length + 1) _ _) kids n bts))
      (fun l0 c hs hb => endOK_lf20 l0 c hs hb)
      (by
        intro q bs l0 c ks nid hl hs hb hq he hsub hlen
        have he' : (p : Int) + (elineSrc20 l).length + 1 = (q : Int) + bs.length + 1 := by simpa using he
        rw [he']
        exact line_step8 env henv src segs L p done.length q bs l0 c _ ks nid bts _ hl hs hb hq
          (by simpa [Nat.add_assoc] using hsub) (by simpa [Nat.add_assoc] using hlen) (by omega) hnext)
      l hrt p ks nid (by simp) hnm (by simpa [Nat.add_assoc] using hsub) (by simpa [Nat.add_assoc] using hlen)
      (Int.le_refl _)
    obtain ⟨its1, hfin1, hrun1, its0, sg, hits⟩ := this
    obtain ⟨its2, rd', nid', hfin2, ih⟩ := loop_rich20 env henv src segs L bts s0 h0 (l' :: rest)
      (p + (elineSrc20 l).length + 1)
      (done ++ [{ start := (p : Int), stop := (p : Int) + (elineSrc20 l).length + 1 }])
      (ks ++ raw20 its1) f (nid + ids20 l) (by simp)
      (fun x hx => hg x (by simp at hx ⊢; right; exact hx)) hla' hsegs' (by rw [hL]; rfl)
      (by rw [hits, raw20_append, ← List.append_assoc]; exact noMerge_soft8 _ _ _ _)
    refine ⟨its1 ++ its2, rd', nid', by rw [fin20_append, hfin1, hfin2]; rfl, ?_⟩
    have e1 : (paraSegs p ((l :: l' :: rest).map elineSrc20)).headD default =
        { start := (p : Int), stop := (p : Int) + (elineSrc20 l).length + 1 } := rfl
    have e0 : f + need20 (l :: l' :: rest) = f + need20 (l' :: rest) + 1 + pre20 l := by
      simp only [need20]; omega
    rw [e1, e0, hrun1]
    have e2 : ((done ++ [({ start := (p : Int), stop := (p : Int) + (elineSrc20 l).length + 1 } : Segment)]).length : Int) =
        (done.length : Int) + 1 := by
      simp
    rw [e2] at ih
    have e3 : ((paraSegs (p + (elineSrc20 l).length + 1) ((l' :: rest).map elineSrc20)).headD default).start =
        ((p + (elineSrc20 l).length + 1 : Nat) : Int) := by
      cases rest <;> rfl
    rw [e3, ih, raw20_append, List.append_assoc]


/-! ### after the loop; fuel; the theorem -/

theorem closeLabelsL_fin20 : ∀ (its : List RItem20), closeLabelsL (fin20 its) = fin20 its
  | [] => by simp [fin20, closeLabelsL]
  | it :: rest => by
    have ih := closeLabelsL_fin20 rest
    have e : fin20 (it :: rest) = it.fin ++ fin20 rest := by simp [fin20]
    rw [e]
    cases it <;> simp [RItem20.fin, closeLabelsL, closeLabels, ih]

theorem pre_le20 {as : List EAtom} (h : ET20 as) : pre20 as + 1 ≤ (elineSrc20 as).length := by
  induction h with
  | last bs l0 c hl _ _ _ => rw [elineSrc_single20, hl]; simp [pre20]
  | code bs cs rest _ _ _ _ _ _ ih => rw [elineSrc_code20]; simp [pre20]; omega
  | emph two bs cs rest _ _ _ _ _ _ _ _ ih =>
    rw [elineSrc_emph20]
    cases two <;> simp [pre20, emAtom20, elen20] <;> omega

theorem need_le20 (src : Bytes) : ∀ (ls : List (List EAtom)) (p : Nat), ls ≠ [] → (∀ l ∈ ls, ET20 l) →
    LinesAtE src p (ls.map elineSrc20) → p + need20 ls ≤ src.length + 1
  | [], _, h, _, _ => absurd rfl h
  | [l], p, _, hg, hla => by
    have := pre_le20 (hg l (by simp))
    obtain ⟨_, hlen⟩ := hla
    simp only [need20]; omega
  | l :: l' :: rest, p, _, hg, hla => by
    have := pre_le20 (hg l (by simp))
    obtain ⟨_, _, hla'⟩ := hla
    have ih := need_le20 src (l' :: rest) _ (by simp) (fun x hx => hg x (by simp at hx ⊢; right; exact hx)) hla'
    simp only [need20] at ih ⊢; omega

/-- the inline phase on a paragraph of rich lines with emphasis -/
theorem parseBlock_richE20 (env : GM.Inl.Env) (henv : env.escapedSpace = false) (src : Bytes) (p : Nat)
    (ls : List (List EAtom)) (hne : ls ≠ []) (hrt : ∀ l ∈ ls, ET20 l) (h : LinesAtE src p (ls.map elineSrc20)) :
    GM.Inl.parseBlock env src (paraSegs p (ls.map elineSrc20)) = .ok (richKidsE20 p ls) := by
  have hne' : ls.map elineSrc20 ≠ [] := by simpa using hne
  have hfuel : need20 ls ≤ blockFuel src (paraSegs p (ls.map elineSrc20)) := by
    have := need_le20 src ls p hne hrt h
    unfold blockFuel
    omega
  obtain ⟨f, hf⟩ : ∃ f, blockFuel src (paraSegs p (ls.map elineSrc20)) = f + need20 ls :=
    ⟨_, (Nat.sub_add_cancel hfuel).symm⟩
  obtain ⟨hh0, _⟩ := paraSegs_head (ls.map elineSrc20) p hne'
  obtain ⟨its, rd', nid', hfin, h⟩ := loop_rich20 env henv src (paraSegs p (ls.map elineSrc20))
    (paraEnd p (ls.map elineSrc20) : Nat) [] _ hh0 ls p [] [] f 0 hne hrt h rfl rfl noMerge_nil8
  unfold parseBlock
  simp only [bind, Except.bind, new_para _ (ls.map elineSrc20) p hne']
  have h' : lineLoop env (blockFuel src (paraSegs p (ls.map elineSrc20))) false
      { rd := rdAt src (paraSegs p (ls.map elineSrc20)) (paraEnd p (ls.map elineSrc20) : Nat) 0
          ((paraSegs p (ls.map elineSrc20)).headD default) p } =
      .ok { rd := rd', kids := raw20 its, nextId := nid', bottoms := [] } := by
    rw [hf]
    simpa using h
  rw [h']
  simp only [processDelimiters_raw20, pure, Except.pure]
  rw [closeLabelsL_fin20, hfin]

/-! ### the renderer's nodes -/

theorem atomTrees20 (src : Bytes) (soft : Bool) : ∀ (as : List EAtom) (q : Nat),
    sub src q (q + (elineSrc20 as).length) = elineSrc20 as → q + (elineSrc20 as).length ≤ src.length →
    GM.Convert.inlineTrees src (atomKids20 soft q as) = .ok (eatomNodes soft as)
  | [], _, _, _ => by simp [atomKids20, eatomNodes, GM.Convert.inlineTrees, pure, Except.pure]
  | [.txt bs], q, h, hlen => by
    rw [elineSrc_single20] at h hlen
    simp [atomKids20, eatomNodes, GM.Convert.inlineTrees, GM.Convert.inlineTree, bind, Except.bind, pure, Except.pure,
      value_at8 src q bs h hlen _ _ rfl rfl]
  | .txt bs :: b :: rest, q, h, hlen => by
    have hs : elineSrc20 (.txt bs :: b :: rest) = [] ++ bs ++ elineSrc20 (b :: rest) := by simp [elineSrc20, eatomSrc20]
    have hs' : elineSrc20 (.txt bs :: b :: rest) = bs ++ elineSrc20 (b :: rest) ++ [] := by simp [elineSrc20, eatomSrc20]
    have h1 := sub_mid8 src q [] bs (elineSrc20 (b :: rest)) (by rw [← hs]; exact h)
    have h2 := sub_mid8 src q bs (elineSrc20 (b :: rest)) [] (by rw [← hs']; exact h)
    have hl : (elineSrc20 (.txt bs :: b :: rest)).length = bs.length + (elineSrc20 (b :: rest)).length := by
      rw [hs]; simp
    have ih := atomTrees20 src soft (b :: rest) (q + bs.length) h2 (by omega)
    rw [Int.natCast_add] at ih
    simp only [List.length_nil, Nat.add_zero] at h1
    simp only [atomKids20, eatomNodes, GM.Convert.inlineTrees, GM.Convert.inlineTree, bind, Except.bind, pure, Except.pure,
      value_at8 src q bs h1 (by omega) _ _ rfl rfl, ih]
  | .code cs :: rest, q, h, hlen => by
    have hs : elineSrc20 (.code cs :: rest) = [96] ++ cs ++ (96 :: elineSrc20 rest) := by simp [elineSrc20, eatomSrc20]
    have hs' : elineSrc20 (.code cs :: rest) = (96 :: (cs ++ [96])) ++ elineSrc20 rest ++ [] := by simp [elineSrc20, eatomSrc20]
    have h1 := sub_mid8 src q [96] cs (96 :: elineSrc20 rest) (by rw [← hs]; exact h)
    have h2 := sub_mid8 src q (96 :: (cs ++ [96])) (elineSrc20 rest) [] (by rw [← hs']; exact h)
    have hl : (elineSrc20 (.code cs :: rest)).length = cs.length + 2 + (elineSrc20 rest).length := by
      rw [hs]; simp; omega
    have e1 : q + (96 :: (cs ++ [96])).length = q + cs.length + 2 := by simp; omega
    rw [e1] at h2
    have ih := atomTrees20 src soft rest (q + cs.length + 2) h2 (by omega)
    have e2 : ((q + cs.length + 2 : Nat) : Int) = (q : Int) + cs.length + 2 := by push_cast; rfl
    rw [e2] at ih
    simp only [List.length_cons, List.length_nil, Nat.zero_add] at h1
    simp only [atomKids20, eatomNodes, GM.Convert.inlineTrees, GM.Convert.inlineTree, bind, Except.bind, pure, Except.pure,
      value_at8 src (q + 1) cs h1 (by omega) _ _ (by push_cast; rfl) (by push_cast; rfl), ih]
  | .em cs :: rest, q, h, hlen => by
    have hs : elineSrc20 (.em cs :: rest) = [95] ++ cs ++ (95 :: elineSrc20 rest) := by simp [elineSrc20, eatomSrc20]
    have hs' : elineSrc20 (.em cs :: rest) = (95 :: (cs ++ [95])) ++ elineSrc20 rest ++ [] := by simp [elineSrc20, eatomSrc20]
    have h1 := sub_mid8 src q [95] cs (95 :: elineSrc20 rest) (by rw [← hs]; exact h)
    have h2 := sub_mid8 src q (95 :: (cs ++ [95])) (elineSrc20 rest) [] (by rw [← hs']; exact h)
    have hl : (elineSrc20 (.em cs :: rest)).length = cs.length + 2 + (elineSrc20 rest).length := by
      rw [hs]; simp; omega
    have e1 : q + (95 :: (cs ++ [95])).length = q + 1 + cs.length + 1 := by simp; omega
    rw [e1] at h2
    have ih := atomTrees20 src soft rest (q + 1 + cs.length + 1) h2 (by omega)
    have e2 : ((q + 1 + cs.length + 1 : Nat) : Int) = (q : Int) + 1 + cs.length + 1 := by push_cast; rfl
    rw [e2] at ih
    simp only [List.length_cons, List.length_nil, Nat.zero_add] at h1
    simp only [atomKids20, eatomNodes, GM.Convert.inlineTrees, GM.Convert.inlineTree, bind, Except.bind, pure, Except.pure,
      value_at8 src (q + 1) cs h1 (by omega) _ _ (by push_cast; rfl) (by push_cast; rfl), ih]
    rfl
  | .strong cs :: rest, q, h, hlen => by
    have hs : elineSrc20 (.strong cs :: rest) = [95, 95] ++ cs ++ (95 :: 95 :: elineSrc20 rest) := by
      simp [elineSrc20, eatomSrc20]
    have hs' : elineSrc20 (.strong cs :: rest) = (95 :: 95 :: (cs ++ [95, 95])) ++ elineSrc20 rest ++ [] := by
      simp [elineSrc20, eatomSrc20]
    have h1 := sub_mid8 src q [95, 95] cs (95 :: 95 :: elineSrc20 rest) (by rw [← hs]; exact h)
    have h2 := sub_mid8 src q (95 :: 95 :: (cs ++ [95, 95])) (elineSrc20 rest) [] (by rw [← hs']; exact h)
    have hl : (elineSrc20 (.strong cs :: rest)).length = cs.length + 4 + (elineSrc20 rest).length := by
      rw [hs]; simp; omega
    have e1 : q + (95 :: 95 :: (cs ++ [95, 95])).length = q + 2 + cs.length + 2 := by simp; omega
    rw [e1] at h2
    have ih := atomTrees20 src soft rest (q + 2 + cs.length + 2) h2 (by omega)
    have e2 : ((q + 2 + cs.length + 2 : Nat) : Int) = (q : Int) + 2 + cs.length + 2 := by push_cast; rfl
    rw [e2] at ih
    simp only [List.length_cons, List.length_nil, Nat.zero_add] at h1
    simp only [atomKids20, eatomNodes, GM.Convert.inlineTrees, GM.Convert.inlineTree, bind, Except.bind, pure, Except.pure,
      value_at8 src (q + 2) cs (by simpa using h1) (by omega) ((q : Int) + 2) ((q : Int) + 2 + cs.length) (by omega) (by omega), ih]
    rfl

theorem inlineTrees_richE20 (src : Bytes) : ∀ (p : Nat) (ls : List (List EAtom)),
    LinesAtE src p (ls.map elineSrc20) → GM.Convert.inlineTrees src (richKidsE20 p ls) = .ok (erichNodes ls)
  | _, [], _ => by simp [richKidsE20, erichNodes, GM.Convert.inlineTrees, pure, Except.pure]
  | p, [l], h => by
    obtain ⟨hsub, hlen⟩ := h
    exact atomTrees20 src false l p hsub hlen
  | p, l :: l' :: rest, h => by
    obtain ⟨hsub, hlen, h'⟩ := h
    have hsub' := sub_prefix src p (elineSrc20 l).length (elineSrc20 l) 10 rfl hsub
    exact inlineTrees_append8 src _ _ _ _ (atomTrees20 src true l p hsub' (by omega))
      (inlineTrees_richE20 src _ (l' :: rest) h')


/-! ### from `UnAtom` lines to the `EAtom` development -/

def toE20 : UnAtom → EAtom
  | .txt bs => .txt bs
  | .em bs => .em bs
  | .strong bs => .strong bs

theorem unlineSrc_toE20 (l : List UnAtom) : elineSrc20 (l.map toE20) = unlineSrc l := by
  induction l with
  | nil => rfl
  | cons a rest ih =>
    have : elineSrc20 ((a :: rest).map toE20) = eatomSrc20 (toE20 a) ++ elineSrc20 (rest.map toE20) := by
      simp [elineSrc20]
    rw [this, ih]
    cases a <;> simp [unlineSrc, unatomSrc, eatomSrc20, toE20]

theorem unlines_toE20 (ls : List (List UnAtom)) : (ls.map (·.map toE20)).map elineSrc20 = ls.map unlineSrc := by
  rw [List.map_map]
  apply List.map_congr_left
  intro l _
  exact unlineSrc_toE20 l

theorem unatomNodes_toE20 (soft : Bool) : ∀ (l : List UnAtom), eatomNodes soft (l.map toE20) = unatomNodes soft l
  | [] => rfl
  | [.txt bs] => rfl
  | .txt bs :: b :: rest => by
    have ih := unatomNodes_toE20 soft (b :: rest)
    simp only [List.map_cons, toE20] at ih ⊢
    simp only [eatomNodes, unatomNodes, ih]
  | .em bs :: rest => by
    have ih := unatomNodes_toE20 soft rest
    simp only [List.map_cons, toE20, eatomNodes, unatomNodes, ih]
  | .strong bs :: rest => by
    have ih := unatomNodes_toE20 soft rest
    simp only [List.map_cons, toE20, eatomNodes, unatomNodes, ih]

theorem unrichNodes_toE20 : ∀ (ls : List (List UnAtom)), erichNodes (ls.map (·.map toE20)) = unrichNodes ls
  | [] => rfl
  | [l] => unatomNodes_toE20 false l
  | l :: l' :: rest => by
    have ih := unrichNodes_toE20 (l' :: rest)
    simp only [List.map_cons] at ih ⊢
    simp only [erichNodes, unrichNodes, ih, unatomNodes_toE20]

theorem et_of_unrich_aux20 : ∀ (as : List UnAtom), unalternating as = true → (∃ bs rest, as = .txt bs :: rest) →
    (∃ bs, as.getLast? = some (.txt bs) ∧ ∀ c, bs.getLast? = some c → isSpace c = false ∧ c ≠ 92) →
    (∀ a ∈ as, UnAtomOK a) →
    (∀ init a x b rest, as = init ++ [.txt a, x, .txt b] ++ rest → x.isTxt = false →
      (∀ c, a.getLast? = some c → unNbOK c = true) ∧ (∀ c, b.head? = some c → unNbOK c = true)) →
    ET20 (as.map toE20)
  | [], _, hf, _, _, _ => by obtain ⟨_, _, h⟩ := hf; simp at h
  | .em _ :: _, _, hf, _, _, _ => by obtain ⟨_, _, h⟩ := hf; simp at h
  | .strong _ :: _, _, hf, _, _, _ => by obtain ⟨_, _, h⟩ := hf; simp at h
  | [.txt bs], _, _, hl, hok, _ => by
    obtain ⟨bs', hb', hc⟩ := hl
    simp at hb'; subst hb'
    obtain ⟨hne, hq, _⟩ := hok (.txt bs) (by simp)
    rcases List.eq_nil_or_concat bs with h0 | ⟨l0, c, hl⟩
    · exact absurd h0 hne
    · have hl' : bs = l0 ++ [c] := by simpa using hl
      have := hc c (by simp [hl'])
      exact .last bs l0 c hl' this.1 this.2 (hq 0)
  | .txt _ :: .txt _ :: _, ha, _, _, _, _ => by simp [unalternating, UnAtom.isTxt] at ha
  | [.txt _, .em _], _, _, hl, _, _ => by obtain ⟨_, h, _⟩ := hl; simp at h
  | [.txt _, .strong _], _, _, hl, _, _ => by obtain ⟨_, h, _⟩ := hl; simp at h
  | .txt bs :: .em cs :: b :: rest, ha, _, hl, hok, hnb => by
    obtain ⟨hne, hq, he⟩ := hok (.txt bs) (by simp)
    obtain ⟨hcne, hal⟩ := hok (.em cs) (by simp)
    have ha' : unalternating (b :: rest) = true ∧ b.isTxt = true := by
      cases b <;> simp [unalternating, UnAtom.isTxt] at ha ⊢ <;> exact ha
    obtain ⟨b', hb'⟩ : ∃ b', b = .txt b' := by cases b <;> simp [UnAtom.isTxt] at ha' <;> exact ⟨_, rfl⟩
    subst hb'
    obtain ⟨hb'ne, _, _⟩ := hok (.txt b') (by simp)
    obtain ⟨n1, n2⟩ := hnb [] bs (.em cs) b' rest (by simp) rfl
    have hrec := et_of_unrich_aux20 (.txt b' :: rest) ha'.1 ⟨b', rest, rfl⟩
      (by obtain ⟨x, hx, hc⟩ := hl; exact ⟨x, by simpa [List.getLast?_cons_cons] using hx, hc⟩)
      (fun a h => hok a (by simp at h ⊢; right; right; exact h))
      (fun init a x b rest' h hx => hnb (.txt bs :: .em cs :: init) a x b rest' (by rw [h]; simp) hx)
    refine ET20.emph false bs cs _ hne (hq 0) he hcne hal n1 ?_ hrec
    intro c hc
    apply n2 c
    cases b' with
    | nil => exact absurd rfl hb'ne
    | cons y ys => simpa [elineSrc20, eatomSrc20, toE20] using hc
  | .txt bs :: .strong cs :: b :: rest, ha, _, hl, hok, hnb => by
    obtain ⟨hne, hq, he⟩ := hok (.txt bs) (by simp)
    obtain ⟨hcne, hal⟩ := hok (.strong cs) (by simp)
    have ha' : unalternating (b :: rest) = true ∧ b.isTxt = true := by
      cases b <;> simp [unalternating, UnAtom.isTxt] at ha ⊢ <;> exact ha
    obtain ⟨b', hb'⟩ : ∃ b', b = .txt b' := by cases b <;> simp [UnAtom.isTxt] at ha' <;> exact ⟨_, rfl⟩
    subst hb'
    obtain ⟨hb'ne, _, _⟩ := hok (.txt b') (by simp)
    obtain ⟨n1, n2⟩ := hnb [] bs (.strong cs) b' rest (by simp) rfl
    have hrec := et_of_unrich_aux20 (.txt b' :: rest) ha'.1 ⟨b', rest, rfl⟩
      (by obtain ⟨x, hx, hc⟩ := hl; exact ⟨x, by simpa [List.getLast?_cons_cons] using hx, hc⟩)
      (fun a h => hok a (by simp at h ⊢; right; right; exact h))
      (fun init a x b rest' h hx => hnb (.txt bs :: .strong cs :: init) a x b rest' (by rw [h]; simp) hx)
    refine ET20.emph true bs cs _ hne (hq 0) he hcne hal n1 ?_ hrec
    intro c hc
    apply n2 c
    cases b' with
    | nil => exact absurd rfl hb'ne
    | cons y ys => simpa [elineSrc20, eatomSrc20, toE20] using hc

theorem et_of_unrich20 {as : List UnAtom} (h : UnRichLine as) : ET20 (as.map toE20) := by
  refine et_of_unrich_aux20 as h.alt (by obtain ⟨bs, rest, he, _⟩ := h.first; exact ⟨bs, rest, he⟩) ?_ h.ok h.nb
  obtain ⟨init, bs, he, hc⟩ := h.last
  exact ⟨bs, by rw [he]; simp, hc⟩

/-- the inline children `parseBlock` gives a paragraph of rich lines (underscore emphasis) that starts at byte `p` -/
def richKids20 (p : Nat) (ls : List (List UnAtom)) : List GM.Inl.Node := richKidsE20 p (ls.map (·.map toE20))

/-- the inline phase on a paragraph of rich lines with underscore emphasis -/
theorem parseBlock_rich20 (env : GM.Inl.Env) (henv : env.escapedSpace = false) (src : Bytes) (p : Nat)
    (ls : List (List UnAtom)) (hne : ls ≠ []) (hg : ∀ l ∈ ls, UnRichLine l) (h : LinesAtE src p (ls.map unlineSrc)) :
    GM.Inl.parseBlock env src (paraSegs p (ls.map unlineSrc)) = .ok (richKids20 p ls) := by
  have := parseBlock_richE20 env henv src p (ls.map (·.map toE20)) (by simpa using hne)
    (by
      intro l hl
      obtain ⟨l0, hl0, rfl⟩ := List.mem_map.mp hl
      exact et_of_unrich20 (hg l0 hl0))
    (by rw [unlines_toE20]; exact h)
  rw [unlines_toE20] at this
  exact this

theorem inlineTrees_rich20 (src : Bytes) (p : Nat) (ls : List (List UnAtom)) (_hg : ∀ l ∈ ls, UnRichLine l)
    (h : LinesAtE src p (ls.map unlineSrc)) :
    GM.Convert.inlineTrees src (richKids20 p ls) = .ok (unrichNodes ls) := by
  have := inlineTrees_richE20 src p (ls.map (·.map toE20)) (by rw [unlines_toE20]; exact h)
  rw [unrichNodes_toE20] at this
  exact this

end GM.Proof.CMFrag
