/-
  GM.Proof.BlocksTNO1 — the line-order / non-blank invariant of package wf0 (GM.Proof.BlocksOrdInv) for the block driver
  WITH paragraph transformers (GM.Model.Blocks.DriverT), part 1.

  * `InvT src B s` = wf0's `Inv` WITHOUT "every Paragraph has a line" (false once a transformer has emptied a paragraph:
    the GONE case of `PTPost`) and WITH "no open block belongs to the setext heading parser" (on sources without a setext
    underline `setextOpen` always declines; `setextClose` is the one `Close` that needs the dropped clause).
  * every `Close` but setext's keeps `InvT` (`paragraphClose` also on a paragraph without lines: `RemoveChild`).
  * G1 `InvT.ptpost`: one transformer call (`PTPost`) keeps `InvT`; G2 `InvT.linesOKB`: at call time the guard of `guardE`
    passes (`linesOKB`, hence `TLinesOK`).
  * the two-run calculus `EQV Q x y s` ("`x` and `y` answer the same from `s`, and a normal end satisfies `Q`") and the
    transformer-calling core: `closeLoopT_eqv`, `closeBlocksT_eqv` for two transformer lists that agree on paragraphs
    whose lines pass the guard (`Agree`).
-/
import GM.Proof.BlocksOrdRun
import GM.Proof.BlocksTNP12
import GM.Proof.LinkRefTot2

namespace GM.Blocks.TO
open GM GM.Text GM.Spec GM.Proof.Reader
open GM.Proof.BlocksWF0 (isRaw)

/-- wf0's `NodeB` as of the revision these files were written against (vendored: the later revision adds an order clause
    for raw nodes, which the walk with transformers does not carry): a block that is not raw has increasing lines that
    end at or before `B` -/
def NodeB (B : Int) (n : Node) : Prop :=
  isRaw n.kind = false → OrdFrom 0 n.lines ∧ Below B n.lines ∧ ∀ t ∈ n.lines, t.start < t.stop ∧ t.forceNewline = false

theorem NodeB.mono {B B' : Int} (h : B ≤ B') {n : Node} (hn : NodeB B n) : NodeB B' n :=
  fun hr => ⟨(hn hr).1, (hn hr).2.1.mono h, (hn hr).2.2⟩

structure InvT (src : Bytes) (B : Int) (s : St) : Prop where
  nrb : ∀ i, NodeB B (nd s i)
  nsx : ∀ b ∈ s.pc.opened, b.bp ≠ .setext
  pnb : ∀ i, (nd s i).kind = .paragraph → ∀ t ∈ (nd s i).lines, NonBlankSeg src t
  tmpk : ∀ t, s.pc.tmpPara = some t → (nd s t).kind = .paragraph
  kinds : ∀ b ∈ s.pc.opened, (nd s b.node).kind = b.bp.kind ∧ b.node < s.nodes.length
  nodes : NodesOK src s

theorem InvT.mono {src : Bytes} {B B' : Int} {s : St} (h : B ≤ B') (hi : InvT src B s) : InvT src B' s :=
  ⟨fun i => (hi.nrb i).mono h, hi.nsx, hi.pnb, hi.tmpk, hi.kinds, hi.nodes⟩

/-- the reader does not matter -/
theorem InvT.congr_r {src : Bytes} {B : Int} {s : St} (hi : InvT src B s) (r' : Reader) : InvT src B { s with r := r' } :=
  ⟨hi.nrb, hi.nsx, hi.pnb, hi.tmpk, hi.kinds, hi.nodes⟩

/-- of the context only `tmpPara` and `opened` matter -/
theorem InvT.congr_pc {src : Bytes} {B : Int} {s : St} (hi : InvT src B s) (pc' : Ctx) (ht : pc'.tmpPara = s.pc.tmpPara)
    (ho : ∀ b ∈ pc'.opened, b ∈ s.pc.opened) : InvT src B { s with pc := pc' } :=
  ⟨hi.nrb, fun b hb => hi.nsx b (ho b hb), hi.pnb, fun t h => hi.tmpk t (by rw [← ht]; exact h),
    fun b hb => hi.kinds b (ho b hb), hi.nodes⟩

/-- a step that keeps lines, nil flags and kinds of all nodes, the reader and the context -/
theorem InvT.lk {src : Bytes} {B : Int} {s s' : St} (hi : InvT src B s) (h : LK s s') : InvT src B s' := by
  refine ⟨fun i hr => ?_, fun b hb => ?_, fun i hk => ?_, fun t ht => ?_, fun b hb => ?_, fun n hn => ?_⟩
  · rw [(h.same i).2.2] at hr; rw [(h.same i).1]; exact hi.nrb i hr
  · rw [h.pc] at hb; exact hi.nsx b hb
  · rw [(h.same i).2.2] at hk; rw [(h.same i).1]; exact hi.pnb i hk
  · rw [h.pc] at ht; rw [(h.same t).2.2]; exact hi.tmpk t ht
  · rw [h.pc] at hb; rw [(h.same _).2.2, h.len]; exact hi.kinds b hb
  · obtain ⟨i, _, rfl⟩ := mem_nodes_nd hn
    have := nodeOK_nd hi.nodes i
    exact ⟨by rw [(h.same i).1]; exact this.lines, by rw [(h.same i).1, (h.same i).2.1]; exact this.nil⟩

theorem InvT.linesAt {src : Bytes} {B : Int} {s s' : St} {X : Nat} {ls : List Segment} (hi : InvT src B s)
    (h : LinesAt X ls s s')
    (hb : isRaw (nd s X).kind = false → OrdFrom 0 ls ∧ Below B ls ∧ ∀ t ∈ ls, t.start < t.stop ∧ t.forceNewline = false)
    (hp : (nd s X).kind = .paragraph → ∀ t ∈ ls, NonBlankSeg src t) (hok : LinesOK src ls) : InvT src B s' := by
  refine ⟨fun i hr => ?_, fun b hbm => ?_, fun i hk => ?_, fun t ht => ?_, fun b hbm => ?_, fun n hn => ?_⟩
  · rw [h.kind i] at hr
    by_cases hx : i = X
    · subst hx; rw [h.lines]; exact hb hr
    · rw [(h.other i hx).1]; exact hi.nrb i hr
  · rw [h.opened] at hbm; exact hi.nsx b hbm
  · rw [h.kind i] at hk
    by_cases hx : i = X
    · subst hx; rw [h.lines]; exact hp hk
    · rw [(h.other i hx).1]; exact hi.pnb i hk
  · rw [h.kind t]; exact hi.tmpk t (h.tmp t ht)
  · rw [h.opened] at hbm; rw [h.kind, h.len]; exact hi.kinds b hbm
  · obtain ⟨i, _, rfl⟩ := mem_nodes_nd hn
    by_cases hx : i = X
    · subst hx; exact ⟨by rw [h.lines]; exact hok, fun hn => by rw [h.lines]; exact h.nil hn⟩
    · have := nodeOK_nd hi.nodes i
      exact ⟨by rw [(h.other i hx).1]; exact this.lines, by rw [(h.other i hx).1, (h.other i hx).2]; exact this.nil⟩

/-! ### the `Close` functions keep `InvT` -/

theorem paragraphClose_invT {src : Bytes} {B : Int} {s s' : St} {node : Nat} (hi : InvT src B s) (hsrc : s.r.source = src)
    (hk : (nd s node).kind = .paragraph) (hlt : node < s.nodes.length)
    (e : paragraphClose node s = .ok ((), s')) : InvT src B s' ∧ s'.r = s.r ∧ s'.pc = s.pc ∧ KG s s' := by
  by_cases hne : (nd s node).lines = []
  · -- a paragraph a transformer has emptied: `node.Parent().RemoveChild(node.Parent(), node)`
    have hne' : (s.nodes.getD node default).lines = [] := hne
    unfold paragraphClose at e
    obtain ⟨n, s1, h1, k1⟩ := obind_ok e
    obtain ⟨rfl, hs1⟩ := ogetNode_ok h1
    subst s1
    obtain ⟨src', s2, h2, k2⟩ := obind_ok k1
    have hs2 : s2 = s := by cases h2; rfl
    subst s2
    dsimp only at k2
    have k3 : (do
        let n ← getNode node
        if (n.lines.length == 0) = true then
            match n.parent with
            | none => throw Panic.nil
            | some p => removeChild p node
          else pure () : M Unit) s = .ok ((), s') := by
      split at k2
      · next hc => rw [hne'] at hc; simp at hc
      · exact k2
    obtain ⟨n4, s4, h4, k4⟩ := obind_ok k3
    obtain ⟨rfl, hs4⟩ := ogetNode_ok h4
    subst s4
    split at k4
    · cases hp : (s.nodes.getD node default).parent with
      | none => rw [hp] at k4; cases k4
      | some p =>
        rw [hp] at k4
        have hlk := removeChild_lk k4
        exact ⟨hi.lk hlk, hlk.r, hlk.pc, hlk.kg⟩
    · next hc => rw [hne'] at hc; simp at hc
  · have hl : LinesOK src (nd s node).lines := (nodeOK_nd hi.nodes node).lines
    obtain ⟨hr, hpc, ls, hok, hsh, hpf, hnbl, hn⟩ := (paragraphClose_lines node hsrc hl hne).of_ok e
    have hall := hnbl (hi.pnb node hk)
    have hnb := hi.nrb node (by rw [hk]; rfl)
    have hs' : s' = { s with nodes := s.nodes.set node { (nd s node) with lines := ls } } := by
      cases s'; simp only at hr hpc hn; subst hr hpc hn; rfl
    have hla := linesAt_upd s node ls hlt (fun hn0 => absurd ((nodeOK_nd hi.nodes node).nil hn0) hne)
    rw [← hs'] at hla
    exact ⟨hi.linesAt hla (fun _ => ⟨OrdFrom.shrinks hsh hnb.1, Below.shrinks hsh hnb.2.1,
        fun t ht => ⟨(hall t ht).2, (hpf t ht).2⟩⟩) (fun _ => fun t ht => (hall t ht).1) hok, hr, hpc, hla.kg⟩

theorem codeClose_invT {src : Bytes} {B : Int} {s s' : St} {node : Nat} (hi : InvT src B s)
    (hk : (nd s node).kind = .codeBlock) (hlt : node < s.nodes.length)
    (e : codeClose node s = .ok ((), s')) : InvT src B s' ∧ s'.r = s.r ∧ s'.pc = s.pc ∧ KG s s' := by
  unfold codeClose at e
  obtain ⟨n, s1, h1, k1⟩ := obind_ok e
  obtain ⟨rfl, hs1⟩ := ogetNode_ok h1
  subst s1
  obtain ⟨src', s2, h2, k2⟩ := obind_ok k1
  have hs2 : s2 = s := by cases h2; rfl
  subst s2
  obtain ⟨len, s3, h3, k3⟩ := obind_ok k2
  obtain ⟨_, hs3⟩ := oliftE_ok h3
  subst s3
  dsimp only at k3
  split at k3
  · obtain ⟨_, _, ht, _⟩ := obind_ok k3; cases ht
  have e4 := omodNode_ok k3
  have hs' : s' = { s with nodes := s.nodes.set node { (nd s node) with lines := (nd s node).lines.take (len + 1).toNat } } := e4
  have hok := (nodeOK_nd hi.nodes node)
  have hla := linesAt_upd s node ((nd s node).lines.take (len + 1).toNat) hlt (fun hn0 => by rw [hok.nil hn0]; simp)
  rw [← hs'] at hla
  exact ⟨hi.linesAt hla (fun hr => by rw [hk] at hr; cases hr) (fun hp => by rw [hk] at hp; cases hp)
    (fun t ht => hok.lines t (List.mem_of_mem_take ht)), by rw [hs'], by rw [hs'], hla.kg⟩

theorem fencedClose_invT {src : Bytes} {B : Int} {s s' : St} {node : Nat} (hi : InvT src B s)
    (e : fencedClose node s = .ok ((), s')) : InvT src B s' ∧ s'.r = s.r ∧ s'.pc.opened = s.pc.opened ∧ KG s s' := by
  unfold fencedClose at e
  obtain ⟨pc, s1, h1, k1⟩ := obind_ok e
  obtain ⟨rfl, hs1⟩ := ogetPc_ok h1
  subst s1
  cases hf : s.pc.fence with
  | none => rw [hf] at k1; cases k1
  | some f =>
    rw [hf] at k1
    dsimp only at k1
    split at k1
    · have := omodPc_ok k1
      subst this
      exact ⟨hi.congr_pc _ rfl (fun b hb => hb), rfl, rfl, KG.refl _⟩
    · obtain ⟨_, hs⟩ := opure_ok k1
      subst s'
      exact ⟨hi, rfl, rfl, KG.refl _⟩

theorem listClose_invT {src : Bytes} {B : Int} {s s' : St} {node : Nat} (hi : InvT src B s)
    (e : listClose node s = .ok ((), s')) : InvT src B s' ∧ s'.r = s.r ∧ s'.pc = s.pc ∧ KG s s' := by
  have hc := listClose_copies e
  refine ⟨⟨fun i hr => ?_, fun b hb => ?_, fun i hk => ?_, fun t ht => ?_, fun b hb => ?_, fun n hn => ?_⟩, hc.r, hc.pc, hc.kg⟩
  · rcases Nat.lt_or_ge i s.nodes.length with h | h
    · obtain ⟨x1, _, x3⟩ := hc.old i h
      rw [x3] at hr; rw [x1]; exact hi.nrb i hr
    · rcases Nat.lt_or_ge i s'.nodes.length with h' | h'
      · obtain ⟨_, j, hj, hjk, hl, _⟩ := hc.new i h h'
        rw [hl]; exact hi.nrb j (by rw [hjk]; rfl)
      · rw [nd_default_of_ge s' h']; exact ⟨trivial, Below.nil B, fun t ht => by cases ht⟩
  · rw [hc.pc] at hb; exact hi.nsx b hb
  · rcases Nat.lt_or_ge i s.nodes.length with h | h
    · obtain ⟨x1, _, x3⟩ := hc.old i h
      rw [x3] at hk; rw [x1]; exact hi.pnb i hk
    · rcases Nat.lt_or_ge i s'.nodes.length with h' | h'
      · obtain ⟨k, _⟩ := hc.new i h h'
        rw [k] at hk; cases hk
      · rw [nd_default_of_ge s' h'] at hk; cases hk
  · rw [hc.pc] at ht
    have hk := hi.tmpk t ht
    have htl : t < s.nodes.length := by
      rcases Nat.lt_or_ge t s.nodes.length with h | h
      · exact h
      · rw [nd_default_of_ge s h] at hk; cases hk
    rw [(hc.old t htl).2.2]; exact hk
  · rw [hc.pc] at hb
    obtain ⟨k1, k2⟩ := hi.kinds b hb
    exact ⟨by rw [(hc.old _ k2).2.2]; exact k1, Nat.lt_of_lt_of_le k2 hc.len⟩
  · obtain ⟨i, hil, rfl⟩ := mem_nodes_nd hn
    rcases Nat.lt_or_ge i s.nodes.length with h | h
    · obtain ⟨x1, x2, _⟩ := hc.old i h
      have := nodeOK_nd hi.nodes i
      exact ⟨by rw [x1]; exact this.lines, by rw [x1, x2]; exact this.nil⟩
    · obtain ⟨_, j, _, _, hl, hln⟩ := hc.new i h hil
      have := nodeOK_nd hi.nodes j
      exact ⟨by rw [hl]; exact this.lines, by rw [hl, hln]; exact this.nil⟩

/-- **every `Close` but the setext heading parser's keeps the invariant** -/
theorem bpClose_invT {src : Bytes} {B : Int} {s s' : St} (bp : BP) (node : Nat) (hi : InvT src B s) (hsrc : s.r.source = src)
    (hk : (nd s node).kind = bp.kind) (hlt : node < s.nodes.length) (hsx : bp ≠ .setext)
    (e : bpClose bp node s = .ok ((), s')) : InvT src B s' ∧ s'.r = s.r ∧ s'.pc.opened = s.pc.opened ∧ KG s s' := by
  cases bp <;> unfold bpClose at e
  · exact absurd rfl hsx
  · obtain ⟨_, hs⟩ := opure_ok e; subst s'; exact ⟨hi, rfl, rfl, KG.refl _⟩
  · obtain ⟨a, b, c, d⟩ := listClose_invT hi e; exact ⟨a, b, by rw [c], d⟩
  · obtain ⟨_, hs⟩ := opure_ok e; subst s'; exact ⟨hi, rfl, rfl, KG.refl _⟩
  · obtain ⟨a, b, c, d⟩ := codeClose_invT hi hk hlt e; exact ⟨a, b, by rw [c], d⟩
  · obtain ⟨_, hs⟩ := opure_ok e; subst s'; exact ⟨hi, rfl, rfl, KG.refl _⟩
  · exact fencedClose_invT hi e
  · obtain ⟨_, hs⟩ := opure_ok e; subst s'; exact ⟨hi, rfl, rfl, KG.refl _⟩
  · obtain ⟨_, hs⟩ := opure_ok e; subst s'; exact ⟨hi, rfl, rfl, KG.refl _⟩
  · obtain ⟨a, b, c, d⟩ := paragraphClose_invT hi hsrc hk hlt e; exact ⟨a, b, by rw [c], d⟩

/-! ### G2: at call time the guard passes -/

theorem wfSegsFromB_complete (src : Bytes) : ∀ (ls : List Segment) (lo : Int), OrdFrom lo ls →
    (∀ t ∈ ls, t.start < t.stop ∧ t.stop ≤ src.length ∧ 0 ≤ t.padding ∧ t.forceNewline = false) →
    GM.LinkRef.wfSegsFromB src lo ls = true
  | [], _, _, _ => rfl
  | a :: rest, lo, ⟨h1, h2⟩, hall => by
    obtain ⟨a1, a2, a3, a4⟩ := hall a (List.mem_cons_self ..)
    have ih := wfSegsFromB_complete src rest a.stop h2 (fun t ht => hall t (List.mem_cons_of_mem _ ht))
    simp only [GM.LinkRef.wfSegsFromB, h1, a1, a2, a3, a4, ih, decide_true, Bool.and_self, Bool.not_false]

/-- **G2**: the lines of a Paragraph node pass the run-time check of `guardE` -/
theorem InvT.linesOKB {src : Bytes} {B : Int} {s : St} (hi : InvT src B s) {node : Nat}
    (hk : (nd s node).kind = .paragraph) : GM.LinkRef.linesOKB src (nd s node).lines = true := by
  unfold GM.LinkRef.linesOKB
  cases hl : (nd s node).lines with
  | nil => rfl
  | cons a rest =>
    have hnb := hi.nrb node (by rw [hk]; rfl)
    have hok := (nodeOK_nd hi.nodes node).lines
    have hpn := hi.pnb node hk
    rw [hl] at hnb hok hpn
    have h1 : GM.LinkRef.wfSegsFromB src 0 (a :: rest) = true :=
      wfSegsFromB_complete src _ 0 hnb.1 (fun t ht => ⟨(hnb.2.2 t ht).1, (hok t ht).2.2.1, (hok t ht).2.2.2, (hnb.2.2 t ht).2⟩)
    have h2 : GM.LinkRef.noBlankB src (a :: rest) = true := by
      unfold GM.LinkRef.noBlankB
      rw [List.all_eq_true]
      intro t ht
      have := hpn t ht
      unfold NonBlankSeg at this
      rw [this]; rfl
    simp only [GM.LinkRef.wfSegsB, h1, h2, List.isEmpty_cons, Bool.not_false, Bool.and_self, Bool.or_true]

theorem InvT.tlinesOK {src : Bytes} {B : Int} {s : St} (hi : InvT src B s) {node : Nat}
    (hk : (nd s node).kind = .paragraph) : GM.Proof.LinkRefTot2.TLinesOK src (nd s node).lines :=
  GM.Proof.LinkRefTot2.linesOKB_sound (hi.linesOKB hk)

/-! ### G1: one transformer call keeps the invariant -/

theorem OrdFrom.drop' : ∀ (k : Nat) {lo : Int} {ls : List Segment}, OrdFrom lo ls → (∀ t ∈ ls, t.start < t.stop) →
    OrdFrom lo (ls.drop k)
  | 0, _, _, h, _ => by simpa using h
  | _ + 1, _, [], _, _ => by simp [OrdFrom]
  | k + 1, _, a :: rest, ⟨h1, h2⟩, hall => by
    have := hall a (List.mem_cons_self ..)
    simp only [List.drop_succ_cons]
    exact OrdFrom.drop' k (OrdFrom.mono (by omega) h2) (fun t ht => hall t (List.mem_cons_of_mem _ ht))

/-- after a transformer call every node's lines are a final segment of what they were (new nodes have none) -/
theorem ptpost_lines {node : Nat} {s s' : St} (hlt : node < s.nodes.length) (h : PTPost node s s') :
    ∀ i, ∃ k, (nd s' i).lines = (nd s i).lines.drop k := by
  rcases h.res with ⟨refs, k, _, e⟩ | ⟨refs, p, hp, e⟩
  · have hnodes : s'.nodes = s.nodes.set node { (nd s node) with lines := (nd s node).lines.drop k } := by rw [e]
    intro i
    by_cases hi : i = node
    · subst hi; exact ⟨k, by rw [nd_of_set_self hnodes hlt]⟩
    · exact ⟨0, by rw [nd_of_set_ne hnodes hi]; simp⟩
  · have hEn : (ptEmptied s node refs).nodes = s.nodes.set node { (nd s node) with lines := [] } := rfl
    have hElt : node < (ptEmptied s node refs).nodes.length := by rw [hEn, List.length_set]; exact hlt
    have hElen : (ptEmptied s node refs).nodes.length = s.nodes.length := by rw [hEn, List.length_set]
    have hEp : (nd (ptEmptied s node refs) node).parent = some p := by rw [nd_of_set_self hEn hlt]; exact hp
    obtain ⟨s2, e2, hf, _⟩ := T.ptReplace_eq node p (nd s node).blankPrev (ptEmptied s node refs) hElt hEp
    rw [e2] at e
    cases e
    intro i
    rw [(hf.same i).2.1]
    have hnA : ({ (ptEmptied s node refs) with nodes := (ptEmptied s node refs).nodes ++
        [{ kind := .textBlock, blankPrev := (nd s node).blankPrev }] } : St).nodes =
        (ptEmptied s node refs).nodes ++ [{ kind := .textBlock, blankPrev := (nd s node).blankPrev }] := rfl
    rw [nd_snoc hnA i, hElen]
    by_cases h1 : i < s.nodes.length
    · rw [if_pos h1]
      by_cases hi : i = node
      · subst hi; exact ⟨(nd s i).lines.length, by rw [nd_of_set_self hEn hlt]; simp⟩
      · exact ⟨0, by rw [nd_of_set_ne hEn hi]; simp⟩
    · rw [if_neg h1, nd_default_of_ge s (Nat.le_of_not_lt h1)]
      refine ⟨0, ?_⟩
      split <;> rfl

/-- **G1**: a transformer call that ends as `PTPost` says keeps `InvT`; the reader, the stack of open blocks and the
    kinds of the existing nodes are what they were -/
theorem InvT.ptpost {src : Bytes} {B : Int} {s s' : St} {node : Nat} (hi : InvT src B s) (hlt : node < s.nodes.length)
    (h : PTPost node s s') : InvT src B s' ∧ s'.r = s.r ∧ s'.pc.opened = s.pc.opened ∧ KG s s' := by
  obtain ⟨g, ht⟩ := T.tstep_of_post hi.nodes hlt h
  have hl := ptpost_lines hlt h
  have hkind : ∀ i, (nd s' i).kind = (nd s i).kind ∨ (nd s i).lines = [] := fun i => by
    rcases Nat.lt_or_ge i s.nodes.length with h1 | h1
    · exact .inl (ht.kind i h1)
    · right; rw [nd_default_of_ge s h1]; rfl
  refine ⟨⟨fun i hr => ?_, fun b hb => ?_, fun i hk => ?_, fun t htt => ?_, fun b hb => ?_, ht.nodes⟩, ht.r, ht.opened,
    ht.len, ht.kind⟩
  · obtain ⟨k, ek⟩ := hl i
    rw [ek]
    rcases hkind i with h1 | h1
    · rw [h1] at hr
      obtain ⟨a1, a2, a3⟩ := hi.nrb i hr
      exact ⟨OrdFrom.drop' k a1 (fun t ht' => (a3 t ht').1), fun t ht' => a2 t (List.mem_of_mem_drop ht'),
        fun t ht' => a3 t (List.mem_of_mem_drop ht')⟩
    · rw [h1]; simp only [List.drop_nil]
      exact ⟨trivial, Below.nil B, fun t ht' => by cases ht'⟩
  · rw [ht.opened] at hb; exact hi.nsx b hb
  · obtain ⟨k, ek⟩ := hl i
    rw [ek]
    rcases hkind i with h1 | h1
    · rw [h1] at hk
      exact fun t ht' => hi.pnb i hk t (List.mem_of_mem_drop ht')
    · rw [h1]; simp
  · rw [ht.tmp] at htt
    have hk := hi.tmpk t htt
    rw [ht.kind t (tmp_lt hk)]; exact hk
  · rw [ht.opened] at hb
    obtain ⟨k1, k2⟩ := hi.kinds b hb
    exact ⟨by rw [ht.kind _ k2]; exact k1, Nat.lt_of_lt_of_le k2 ht.len⟩

/-! ### two runs side by side -/

/-- `x` and `y` answer the same from `s` (the same error, or the same value and state), and a normal end satisfies `Q` -/
def EQV {α : Type} (Q : α → St → Prop) (x y : M α) (s : St) : Prop :=
  x s = y s ∧ ∀ a s', x s = .ok (a, s') → Q a s'

theorem EQV.refl {α} {Q : α → St → Prop} {x : M α} {s : St} (h : ∀ a s', x s = .ok (a, s') → Q a s') : EQV Q x x s :=
  ⟨rfl, h⟩

theorem EQV.pure {α} {Q : α → St → Prop} {a : α} {s : St} (h : Q a s) : EQV Q (pure a) (pure a) s :=
  ⟨rfl, fun _ _ e => by obtain ⟨rfl, rfl⟩ := opure_ok e; exact h⟩

theorem EQV.mono {α} {P Q : α → St → Prop} {x y : M α} {s : St} (h : EQV P x y s) (hpq : ∀ a s', P a s' → Q a s') :
    EQV Q x y s := ⟨h.1, fun a s' e => hpq a s' (h.2 a s' e)⟩

theorem EQV.bind {α β} {P : α → St → Prop} {Q : β → St → Prop} {x y : M α} {f g : α → M β} {s : St}
    (h : EQV P x y s) (hk : ∀ a s1, x s = .ok (a, s1) → P a s1 → EQV Q (f a) (g a) s1) :
    EQV Q (x >>= f) (y >>= g) s := by
  obtain ⟨h1, h2⟩ := h
  show EQV Q (StateT.bind x f) (StateT.bind y g) s
  unfold EQV StateT.bind
  rw [← h1]
  cases hx : x s with
  | error e => exact ⟨rfl, fun a s' e' => by cases e'⟩
  | ok v =>
    obtain ⟨a, s1⟩ := v
    exact hk a s1 hx (h2 a s1 hx)

theorem EQV.bind_same {α β} {Q : β → St → Prop} {x : M α} {f g : α → M β} {s : St}
    (hk : ∀ a s1, x s = .ok (a, s1) → EQV Q (f a) (g a) s1) : EQV Q (x >>= f) (x >>= g) s :=
  EQV.bind (P := fun a s1 => x s = .ok (a, s1)) (EQV.refl fun _ _ e => e) (fun a s1 _ e => hk a s1 e)

theorem EQV.ite {α} {Q : α → St → Prop} {c : Prop} [Decidable c] {a1 a2 b1 b2 : M α} {s : St}
    (ht : c → EQV Q a1 a2 s) (hf : ¬ c → EQV Q b1 b2 s) : EQV Q (if c then a1 else b1) (if c then a2 else b2) s := by
  by_cases h : c
  · rw [if_pos h, if_pos h]; exact ht h
  · rw [if_neg h, if_neg h]; exact hf h

theorem EQV.throw {α} {Q : α → St → Prop} {e : Panic} {s : St} : EQV Q (throw e : M α) (throw e) s :=
  ⟨rfl, fun _ _ h => by cases h⟩

/-- two transformer lists that do the same — and what `PTPost` says — on a Paragraph that has a parent and whose lines
    pass the run-time check -/
def Agree (src : Bytes) (pts1 pts2 : List PT) : Prop :=
  ∀ (node : Nat) (s : St), s.r.source = src → node < s.nodes.length → (nd s node).kind = .paragraph →
    (nd s node).parent.isSome = true → NodesOK src s → GM.LinkRef.linesOKB src (nd s node).lines = true →
    EQV (fun _ s' => PTPost node s s') (transformParagraph pts1 node) (transformParagraph pts2 node) s

section walk
variable {src : Bytes} {pts1 pts2 : List PT} (hag : Agree src pts1 pts2)
include hag

theorem closeLoopT_eqv {B : Int} (blocks : List Block) (to : Int) : ∀ (k : Nat) (s : St),
    InvT src B s → s.r.source = src → (∀ b ∈ blocks, b ∈ s.pc.opened) →
    EQV (fun _ s' => InvT src B s' ∧ s'.r = s.r ∧ s'.pc.opened = s.pc.opened ∧ KG s s')
      (closeLoopT pts1 blocks to k) (closeLoopT pts2 blocks to k) s := by
  intro k
  induction k with
  | zero =>
    intro s hi _ _
    unfold closeLoopT
    exact EQV.pure ⟨hi, rfl, rfl, KG.refl _⟩
  | succ k ih =>
    intro s hi hsrc hsub
    unfold closeLoopT
    refine EQV.bind_same (fun b s1 h1 => ?_)
    obtain ⟨hb, hs1⟩ := oliftE_ok h1
    subst s1
    have hbm := hsub b (blockAt_mem hb)
    obtain ⟨hkb, hltb⟩ := hi.kinds b hbm
    have hsx := hi.nsx b hbm
    refine EQV.bind_same (fun n s2 h2 => ?_)
    obtain ⟨hn, hs2⟩ := ogetNode_ok h2
    subst s2
    -- behind the transformer step
    have jp : ∀ s3 : St, InvT src B s3 ∧ s3.r = s.r ∧ s3.pc.opened = s.pc.opened ∧ KG s s3 →
        EQV (fun _ s' => InvT src B s' ∧ s'.r = s.r ∧ s'.pc.opened = s.pc.opened ∧ KG s s')
          (do
            let __do_lift ← getNode b.node
            if __do_lift.parent.isSome = true then do
                let __r ← bpClose b.bp b.node
                closeLoopT pts1 blocks to k
              else closeLoopT pts1 blocks to k)
          (do
            let __do_lift ← getNode b.node
            if __do_lift.parent.isSome = true then do
                let __r ← bpClose b.bp b.node
                closeLoopT pts2 blocks to k
              else closeLoopT pts2 blocks to k) s3 := by
      intro s3 ⟨a1, a2, a3, a4⟩
      have hsrc3 : s3.r.source = src := by rw [a2]; exact hsrc
      have hsub3 : ∀ b ∈ blocks, b ∈ s3.pc.opened := fun b hb => by rw [a3]; exact hsub b hb
      refine EQV.bind_same (fun n4 s4 h4 => ?_)
      obtain ⟨_, hs4⟩ := ogetNode_ok h4
      subst s4
      refine EQV.ite (fun _ => ?_) (fun _ => ?_)
      · refine EQV.bind_same (fun _ s5 h5 => ?_)
        obtain ⟨hkb3, hltb3⟩ := nk_kg a4 hkb hltb
        obtain ⟨c1, c2, c3, c4⟩ := bpClose_invT b.bp b.node a1 hsrc3 hkb3 hltb3 hsx h5
        refine (ih s5 c1 (by rw [c2]; exact hsrc3) (fun b hb => by rw [c3]; exact hsub3 b hb)).mono ?_
        intro _ s' ⟨d1, d2, d3, d4⟩
        exact ⟨d1, by rw [d2, c2, a2], by rw [d3, c3, a3], (a4.trans c4).trans d4⟩
      · refine (ih s3 a1 hsrc3 hsub3).mono ?_
        intro _ s' ⟨d1, d2, d3, d4⟩
        exact ⟨d1, by rw [d2, a2], by rw [d3, a3], a4.trans d4⟩
    dsimp only
    refine EQV.ite (fun hc => ?_) (fun _ => jp s ⟨hi, rfl, rfl, KG.refl _⟩)
    simp only [Bool.and_eq_true, beq_iff_eq] at hc
    have hkp : (nd s b.node).kind = .paragraph := by rw [← hc.1, hn]
    have hpar : (nd s b.node).parent.isSome = true := by rw [← hc.2, hn]
    refine EQV.bind (hag b.node s hsrc hltb hkp hpar hi.nodes (hi.linesOKB hkp)) (fun g s3 _ hp => ?_)
    exact jp s3 (hi.ptpost hltb hp)

/-- **closeBlocksT keeps the invariant and runs the same with both transformer lists** -/
theorem closeBlocksT_eqv {B : Int} {s : St} (frm to : Int) (hi : InvT src B s) (hsrc : s.r.source = src) :
    EQV (fun _ s' => InvT src B s' ∧ s'.r = s.r ∧ (∀ b ∈ s'.pc.opened, b ∈ s.pc.opened) ∧ KG s s')
      (closeBlocksT pts1 frm to) (closeBlocksT pts2 frm to) s := by
  unfold closeBlocksT
  refine EQV.bind_same (fun pc s1 h1 => ?_)
  obtain ⟨rfl, hs1⟩ := ogetPc_ok h1
  subst s1
  refine EQV.bind (closeLoopT_eqv hag s.pc.opened to _ s hi hsrc (fun b hb => hb)) (fun _ s2 _ h2 => ?_)
  obtain ⟨a1, a2, a3, a4⟩ := h2
  refine EQV.refl (fun _ s' k2 => ?_)
  dsimp only at k2
  have fin : ∀ (bl : List Block), (∀ x ∈ bl, x ∈ s.pc.opened) →
      (modPc fun pc => { pc with opened := bl }) s2 = .ok ((), s') →
      InvT src B s' ∧ s'.r = s.r ∧ (∀ b ∈ s'.pc.opened, b ∈ s.pc.opened) ∧ KG s s' := by
    intro bl hbl k3
    have := omodPc_ok k3
    subst this
    exact ⟨a1.congr_pc _ rfl (fun b hb => by rw [a3]; exact hbl b hb), a2, fun b hb => hbl b hb, a4⟩
  split at k2
  · obtain ⟨bl, s3, h3, k3⟩ := obind_ok k2
    obtain ⟨hb, hs3⟩ := oliftE_ok h3
    subst s3
    exact fin bl (closeSlice_sub hb) k3
  · obtain ⟨a, s4, h4, k4⟩ := obind_ok k2
    obtain ⟨ha, hs4⟩ := oliftE_ok h4
    subst s4
    obtain ⟨b, s5, h5, k5⟩ := obind_ok k4
    obtain ⟨hb, hs5⟩ := oliftE_ok h5
    subst s5
    obtain ⟨bl, s6, h6, k6⟩ := obind_ok k5
    obtain ⟨hbl, hs6⟩ := opure_ok h6
    subst s6
    subst bl
    refine fin (a ++ b) (fun x hx => ?_) k6
    rcases List.mem_append.1 hx with h | h
    · exact closeSlice_sub ha x h
    · exact closeSlice_sub hb x h

end walk

end GM.Blocks.TO
