/-
  GM.Proof.QuoteSimStatsG — the general versions of the invariants of GM.Proof.QuoteSimStats, without the clauses
  "level-0 entries are not blank" (`NB0`), which only hold for sources without blank lines:
      `CURG` (inside the per-line loop), `LStG` (at a line start),
      `curG_query` (for any flag `bl`), `curG_start`, `lstG_next`, `lstG_nil`,
      `lstG_reset` (run A, nothing open, skipped blank lines: its list becomes `blankStats lineNum lines 0 = []`, run B
      appended one Blockquote entry for the line),
      `curG_of_cur`, `lstG_of_lst`.
-/
import GM.Proof.QuoteSimStats

namespace GM.Blocks
open GM GM.Text

/-- the invariant while both runs are in the per-line loop at line `k`, run A at index `i` (general sources) -/
def CURG (k i : Int) (stA stB : List LineStat) : Prop :=
  ∃ oA oB cA, stA = oA ++ cA ∧ stB = oB ++ bqE k :: cA.map shSt ∧ cA.length = i.toNat ∧ (∀ e ∈ cA, e.lineNum = k) ∧
    SRelOld k oA oB ∧ BelowL k oA ∧ BelowL k oB

/-- the invariant at the start of line `k` (general sources) -/
structure LStG (k : Int) (stA stB : List LineStat) : Prop where
  rel : SRelOld k stA stB
  bA : BelowL k stA
  bB : BelowL k stB

/-- with nothing open, the statistics after skipped blank lines are empty (parser.go:1062-1069) -/
theorem blankStats_zero (lineNum lines : Int) : blankStats lineNum lines 0 = [] := rfl

/-- the flags the two runs compute below an opened container agree, and the invariant goes on -/
theorem curG_query {k i : Int} (hi : 0 ≤ i) {stA stB : List LineStat} (h : CURG k i stA stB) (bl : Bool) :
    isBlankLine (k - 1) (i + 1) (stB ++ [{ lineNum := k, level := i + 1, isBlank := bl }]) =
      isBlankLine (k - 1) i (stA ++ [{ lineNum := k, level := i, isBlank := bl }]) ∧
    CURG k (i + 1) (stA ++ [{ lineNum := k, level := i, isBlank := bl }])
      (stB ++ [{ lineNum := k, level := i + 1, isBlank := bl }]) := by
  obtain ⟨oA, oB, cA, hA, hB, hlen, hk, hrel, hbA, hbB⟩ := h
  have eA : stA ++ [({ lineNum := k, level := i, isBlank := bl } : LineStat)] =
      oA ++ (cA ++ [{ lineNum := k, level := i, isBlank := bl }]) := by rw [hA, List.append_assoc]
  have eB : stB ++ [({ lineNum := k, level := i + 1, isBlank := bl } : LineStat)] =
      oB ++ (bqE k :: (cA ++ [({ lineNum := k, level := i, isBlank := bl } : LineStat)]).map shSt) := by
    rw [hB]; simp [shSt]
  refine ⟨?_, oA, oB, cA ++ [{ lineNum := k, level := i, isBlank := bl }], eA, eB, ?_, ?_, hrel, hbA, hbB⟩
  · rw [eA, eB]
    rw [isBlankLine_cur k i hi oA _ (by simp [hlen]) (fun e he => by
      rcases List.mem_append.mp he with h | h
      · exact hk e h
      · simp only [List.mem_singleton] at h; rw [h])]
    rw [isBlankLine_cur k (i + 1) (by omega) oB _ (by simp [hlen]; omega) (fun e he => by
      rcases List.mem_cons.mp he with h | h
      · rw [h]; rfl
      · obtain ⟨x, hx, rfl⟩ := List.mem_map.mp h
        rcases List.mem_append.mp hx with h' | h'
        · exact hk x h'
        · simp only [List.mem_singleton] at h'; rw [h']; rfl)]
    exact hrel i hi
  · simp [hlen]; omega
  · intro e he
    rcases List.mem_append.mp he with h | h
    · exact hk e h
    · simp only [List.mem_singleton] at h; rw [h]

theorem lstG_nil (k : Int) : LStG k [] [] :=
  ⟨(fun _ _ => rfl), (fun _ h => by cases h), (fun _ h => by cases h)⟩

/-- entering the per-line loop at line `k`: B has visited its Blockquote -/
theorem curG_start {k : Int} {stA stB : List LineStat} (h : LStG k stA stB) : CURG k 0 stA (stB ++ [bqE k]) :=
  ⟨stA, stB, [], (by simp), (by simp), rfl, (fun _ he => by cases he), h.rel, h.bA, h.bB⟩

/-- after the pass (or after a line that A handled in its outer loop: `cA = []`): the invariant for line `k + 1` -/
theorem lstG_next {k i : Int} {stA stB : List LineStat} (h : CURG k i stA stB) : LStG (k + 1) stA stB := by
  obtain ⟨oA, oB, cA, hA, hB, _, hk, _, hbA, hbB⟩ := h
  subst hA hB
  refine ⟨fun j hj => ?_, ?_, ?_⟩
  · have e1 : k + 1 - 1 = k := by omega
    rw [e1]
    rw [List.reverse_append, List.reverse_append, List.reverse_cons, ← List.map_reverse, List.append_assoc]
    refine isBlankLoop_shift k j cA.reverse oA.reverse _ ?_
    rw [isBlankLoop_below k j oA.reverse (belowL_reverse hbA)]
    simp only [List.singleton_append]
    rw [isBlankLoop_skip' k (j + 1) (bqE k) oB.reverse rfl (by simp only [bqE]; omega) (by simp only [bqE]; omega)]
    exact isBlankLoop_below k (j + 1) oB.reverse (belowL_reverse hbB)
  · intro e he
    rcases List.mem_append.mp he with h | h
    · have := hbA e h; omega
    · have := hk e h; omega
  · intro e he
    rcases List.mem_append.mp he with h | h
    · have := hbB e h; omega
    · rcases List.mem_cons.mp h with h | h
      · rw [h]; simp only [bqE]; omega
      · obtain ⟨x, hx, rfl⟩ := List.mem_map.mp h
        have := hk x hx
        show x.lineNum < k + 1
        omega

/-- the blank-line reset: run A (nothing open) skipped blank lines before line `k + 1` and its list is replaced by
    `blankStats _ _ 0 = []`; run B appended its Blockquote entry for line `k`. A question about line `k` at level
    `j + 1` skips that entry and finds only older lines. -/
theorem lstG_reset {k : Int} {stB : List LineStat} (hbB : BelowL k stB) : LStG (k + 1) [] (stB ++ [bqE k]) := by
  refine ⟨fun j hj => ?_, (fun _ h => by cases h), ?_⟩
  · have e1 : k + 1 - 1 = k := by omega
    rw [e1, List.reverse_append]
    simp only [List.reverse_cons, List.reverse_nil, List.nil_append, List.singleton_append]
    rw [isBlankLoop_skip' k (j + 1) (bqE k) stB.reverse rfl (by simp only [bqE]; omega) (by simp only [bqE]; omega)]
    rw [isBlankLoop_below k (j + 1) stB.reverse (belowL_reverse hbB)]
    rfl
  · intro e he
    rcases List.mem_append.mp he with h | h
    · have := hbB e h; omega
    · simp only [List.mem_singleton] at h; rw [h]; simp only [bqE]; omega

/-- the same with A's list written as in `blocksLoop` -/
theorem lstG_reset' {k : Int} {stB : List LineStat} (lineNum lines : Int) (hbB : BelowL k stB) :
    LStG (k + 1) (blankStats lineNum lines 0) (stB ++ [bqE k]) := lstG_reset hbB

theorem curG_of_cur {k i : Int} {a b : List LineStat} (h : CUR k i a b) : CURG k i a b := by
  obtain ⟨oA, oB, cA, hA, hB, hlen, hk, hrel, hbA, hbB, _⟩ := h
  exact ⟨oA, oB, cA, hA, hB, hlen, hk, hrel, hbA, hbB⟩

theorem lstG_of_lst {k : Int} {a b : List LineStat} (h : LSt k a b) : LStG k a b := ⟨h.rel, h.bA, h.bB⟩

theorem curG_ne {k j : Int} {stA stB : List LineStat} (h : CURG k j stA stB) (hj : 1 ≤ j) : stA ≠ [] := by
  obtain ⟨oA, oB, cA, hA, _, hlen, _⟩ := h
  intro e
  rw [e] at hA
  have : cA = [] := (List.append_eq_nil_iff.mp hA.symm).2
  rw [this] at hlen
  simp only [List.length_nil] at hlen
  omega

end GM.Blocks
