/-
  GM.Proof.QuoteSimInvLI — the bridge from the unary facts about one run in the middle of a pass of the per-line loop
  (`Sh.MidA`, GM.Proof.ShiftSimLinesL, from the no-panic development GM.Proof.BlocksDriverL) to the precondition
  `ListItemContPre` of `listItemContinue_sim'` (GM.Proof.QuoteSimList).

  The reader hypotheses are the ones of `R3` (field `r` of `SR`): the source has no tab (`R3.tf`), the position `p` is
  in line `k` which starts at `ls` (`R3.inl`), the reader stands there WITHOUT left-over padding (`R3.a`). The cursor of
  `R3` never has padding, and in a source without tabs `indentWidthI` does not depend on the current column, so that
  `loVal src c` (which is `p - ls`, not `0`) does not matter. The line must not be blank (`NBV src ls p`): for a blank
  line `ListItemContPre` can be false (offset 6, a line of five spaces), and `listItemContinue_sim'` does not use it there.
-/
import GM.Proof.ShiftSimLinesL
import GM.Proof.QuoteSimList

namespace GM.Blocks
open GM GM.Text GM.Spec GM.Proof.Reader GM.Blocks.L

/-- the two readings of `lastOffset`'s value agree -/
theorem lastOffsetVal_eq_li_lastOff (s : St) (q : Nat) : lastOffsetVal s.nodes q = li_lastOff s q := rfl

/-- `li_ListContinued` for a cursor without padding in a source without tabs, in the vocabulary of `ListItemContPre` -/
theorem listItemContPre_of_listContinued {src : Bytes} {s : St} {k ls p node q : Nat}
    (tf : ∀ c ∈ src, c ≠ 9) (hi : InL src k ls p)
    (hnb : isBlank ((viewA src ls p).getD []) = false)
    (hoff : 0 ≤ li_lastOff s q) (hlist : li_ListContinued src s ⟨k, p, 0⟩ node q) :
    0 ≤ lastOffsetVal s.nodes q ∧
    ((indentWidthI ((viewA src ls p).getD []) 0).1 < lastOffsetVal s.nodes q →
      (indentWidthI ((viewA src ls p).getD []) 0).1 < 4 ∧
      ((matchesListItem ((viewA src ls p).getD []) true).2 ≠ ListTyp.notList ∨
        ((s.nodes.getD node default).children.length == 0 && s.pc.emptyItemBlank) = false)) := by
  unfold li_ListContinued at hlist
  simp only at hlist
  rw [view_A hi, indentWidthI_tf _ (viewA_tf tf ls p) _ 0] at hlist
  obtain ⟨h1, h2⟩ := hlist hnb
  rw [lastOffsetVal_eq_li_lastOff]
  refine ⟨hoff, fun hlt => ?_⟩
  have h4 : (indentWidthI ((viewA src ls p).getD []) 0).1 < 4 := by
    apply Classical.byContradiction
    intro hn
    exact h1 ⟨hlt, by omega⟩
  refine ⟨h4, ?_⟩
  by_cases ht : (matchesListItem ((viewA src ls p).getD []) true).2 = ListTyp.notList
  · right
    cases he : ((s.nodes.getD node default).children.length == 0 && s.pc.emptyItemBlank) with
    | false => rfl
    | true => exact absurd ⟨he, hlt, h4, ht⟩ h2
  · exact .inl ht

/-- THE BRIDGE: in the middle of a pass (`Sh.MidA`), with a list item `be` next and the reader at position `p` of the
    non-blank rest of line `k`, the precondition of `listItemContinue_sim'` holds. -/
theorem listItemContPre_of_mid {src : Bytes} {ob pre rest : List Block} {be : Block} {i : Int} {s : St} {k ls p : Nat}
    (hm : Sh.MidA src ob pre (be :: rest) i s) (hbi : be.bp = .listItem)
    (tf : ∀ c ∈ src, c ≠ 9) (hi : InL src k ls p) (hr : RI src s.r ⟨k, p, 0⟩) (hp : p < src.length)
    (hnb : isBlank ((viewA src ls p).getD []) = false) :
    ListItemContPre src ls p be.node s := by
  obtain ⟨c, q, hri, _, _, hpar, _, _, hoff, hlist⟩ := Sh.lL_liPre hm ⟨_, hr, hp⟩ hbi
  have hc := Sh.ri_unique hri hr
  subst hc
  intro q' hq'
  have e : (nd s be.node).parent = some q' := hq'
  rw [hpar] at e
  cases e
  exact listItemContPre_of_listContinued tf hi hnb hoff hlist

/-- the same from the relation `SR` (its reader part is exactly the hypotheses above) -/
theorem listItemContPre_of_mid_sr {src : Bytes} {ob pre rest : List Block} {be : Block} {i : Int} {sA sB : St}
    {k ls p : Nat} (h : SR src k ls p sA sB)
    (hm : Sh.MidA src ob pre (be :: rest) i sA) (hbi : be.bp = .listItem) (hp : p < src.length)
    (hnb : isBlank ((viewA src ls p).getD []) = false) :
    ListItemContPre src ls p be.node sA :=
  listItemContPre_of_mid hm hbi h.r.tf h.r.inl h.r.a hp hnb

/-- the parent of the list item is not the Document, and it is a List (for the `node ≠ 0` cases of the simulation) -/
theorem listItem_parent_of_mid {src : Bytes} {ob pre rest : List Block} {be : Block} {i : Int} {s : St} {c : RCur}
    (hm : Sh.MidA src ob pre (be :: rest) i s) (hbi : be.bp = .listItem) (hr : RI src s.r c) (hp : c.p < src.length) :
    ∃ q, (s.nodes.getD be.node default).parent = some q ∧ (s.nodes.getD q default).kind = .list ∧ q ≠ 0 := by
  obtain ⟨c, q, hri, _, _, hpar, hk, _, _, _⟩ := Sh.lL_liPre hm ⟨_, hr, hp⟩ hbi
  refine ⟨q, hpar, hk, fun h0 => ?_⟩
  subst h0
  have hk' : (nd s 0).kind = .list := hk
  rw [hm.st.ls.rootKind] at hk'
  cases hk'

/-- `lL_step` re-exported: after a `Continue` that answers "Continue" (with children — for a container always,
    `Sh.lL_cont`) the invariant holds for the next open block -/
theorem mid_step {src : Bytes} {ob pre rest : List Block} {be : Block} {i : Int} {s s' : St} {st : PState} {c : RCur}
    (hm : Sh.MidA src ob pre (be :: rest) i s) (hr : RI src s.r c) (hp : c.p < src.length)
    (e : bpContinue be.bp be.node s = .ok (st, s')) (hc : st.cont = true) (hch : st.hasChildren = true) :
    Sh.MidA src ob (pre ++ [be]) rest (i + 1) s' :=
  (Sh.lL_step hm ⟨c, hr, hp⟩ e).2.2 hc hch

/-- the same for a container parser, where "Continue" always comes with children -/
theorem mid_step_container {src : Bytes} {ob pre rest : List Block} {be : Block} {i : Int} {s s' : St} {st : PState}
    {c : RCur} (hm : Sh.MidA src ob pre (be :: rest) i s) (hr : RI src s.r c) (hp : c.p < src.length)
    (hcn : be.bp.isContainer = true)
    (e : bpContinue be.bp be.node s = .ok (st, s')) (hc : st.cont = true) :
    Sh.MidA src ob (pre ++ [be]) rest (i + 1) s' :=
  mid_step hm hr hp e hc (Sh.lL_cont be.bp hcn be.node s s' st e hc)

/-- what `lL_step` says in every case: the opened blocks are the same and the state is stable -/
theorem mid_step_opened {src : Bytes} {ob pre rest : List Block} {be : Block} {i : Int} {s s' : St} {st : PState}
    {c : RCur} (hm : Sh.MidA src ob pre (be :: rest) i s) (hr : RI src s.r c) (hp : c.p < src.length)
    (e : bpContinue be.bp be.node s = .ok (st, s')) :
    StableL src 0 s' ∧ s'.pc.opened = ob :=
  ⟨(Sh.lL_step hm ⟨c, hr, hp⟩ e).1, (Sh.lL_step hm ⟨c, hr, hp⟩ e).2.1⟩

end GM.Blocks
