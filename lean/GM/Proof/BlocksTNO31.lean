/-
  GM.Proof.BlocksTNO31 — X-port of GM.Proof.BlocksTNO6, part 2: `PTPostX` (what `transformParagraph` with the link
  reference transformer followed by the table transformer ends in), `InvGFX.ptpostX`, the two-list agreement `Agree`
  and `closeLoopT_eqg` / `closeBlocksT_eqg` (the blocks whose closing has begun are collected in `D`).
-/
import GM.Proof.BlocksTNO30

namespace GM.Blocks.TX
open GM GM.Text GM.Spec GM.Proof.Reader GM.Blocks.TO GM.TableX
open GM.Proof.BlocksWF0 (isRaw)

variable {F : Prop} {D : List Block}

/-- the outcome of `transformParagraph`: `PTPost` (link reference definitions), possibly followed by a table-making call -/
def PTPostX (src : Bytes) (node : Nat) (s s' : St) : Prop :=
  PTPost node s s' ∨ ∃ s1 t, PTPost node s s1 ∧
    (GM.Table.transform src ((nd s1 node).lines.map toSeg)).table = some t ∧
    TableData (RecD src t) node ((GM.Table.transform src ((nd s1 node).lines.map toSeg)).para.map ofSeg) s1 s'

theorem InvGFX.dmono {D' : List Block} {src : Bytes} {B : Int} {s : St} (hi : InvGFX D F src B s) (h : ∀ b, b ∈ D → b ∈ D') :
    InvGFX D' F src B s :=
  ⟨hi.nrb, hi.ord, hi.pnb, hi.tmpk, hi.kinds, hi.nodes, hi.tl, hi.raw, hi.pnl, fun b hb hd => hi.pol b hb (fun hh => hd (h b hh))⟩

theorem InvGFX.node_inj {src : Bytes} {B : Int} {s : St} (hi : InvGFX D F src B s) {b b' : Block} (hb : b ∈ s.pc.opened)
    (hb' : b' ∈ s.pc.opened) (h : b'.node = b.node) : b' = b := by
  obtain ⟨i, hi1, he1⟩ := List.getElem_of_mem hb
  obtain ⟨i', hi2, he2⟩ := List.getElem_of_mem hb'
  have hp := List.pairwise_iff_getElem.1 hi.ord
  rcases Nat.lt_trichotomy i i' with hlt | heq | hgt
  · have := hp i i' hi1 hi2 hlt; rw [he1, he2] at this; omega
  · subst heq; rw [← he1, ← he2]
  · have := hp i' i hi2 hi1 hgt; rw [he1, he2] at this; omega

theorem InvGFX.nodup {src : Bytes} {B : Int} {s : St} (hi : InvGFX D F src B s) : s.pc.opened.Nodup :=
  hi.ord.imp (fun h e => by rw [e] at h; exact Nat.lt_irrefl _ h)

/-- the stack shrinks to blocks none of which is in `D`: `pol` for all of them -/
theorem InvGFX.congr_pcD {src : Bytes} {B : Int} {s : St} (hi : InvGFX D F src B s) (pc' : Ctx) (ht : pc'.tmpPara = s.pc.tmpPara)
    (ho : pc'.opened.Sublist s.pc.opened) (hd : ∀ b ∈ pc'.opened, b ∉ D) : InvGFX [] F src B { s with pc := pc' } := by
  have h1 := hi.congr_pc pc' ht ho
  exact ⟨h1.nrb, h1.ord, h1.pnb, h1.tmpk, h1.kinds, h1.nodes, h1.tl, h1.raw, h1.pnl, fun b hb _ => h1.pol b hb (hd b hb)⟩

/-- **G1 for the wide outcome** -/
theorem InvGFX.ptpostX {src : Bytes} {B : Int} {s s' : St} {node : Nat} (hi : InvGFX D F src B s)
    (hlt : node < s.nodes.length)
    (hnt : ∀ t, s.pc.tmpPara = some t → (F ∨ ∃ b ∈ s.pc.opened, b.bp = .setext) → t ≠ node)
    (hkp : (nd s node).kind = .paragraph) (hD : ∀ b ∈ s.pc.opened, b.node = node → b ∈ D) (h : PTPostX src node s s') :
    InvGFX D F src B s' ∧ s'.r = s.r ∧ s'.pc.opened = s.pc.opened ∧ KG s s' ∧ s'.pc.tmpPara = s.pc.tmpPara ∧ LO node s s' := by
  rcases h with h | ⟨s1, t, h1, htb, hT⟩
  · exact hi.ptpost hlt hnt hkp h
  · obtain ⟨a1, a2, a3, a4, a5, a6⟩ := hi.ptpost hlt hnt hkp h1
    obtain ⟨b1, b2, b3, b4, b5, b6⟩ := a1.tabledata (Nat.lt_of_lt_of_le hlt a4.1)
      (fun x hx hm => hnt x (by rw [← a5]; exact hx) (by rw [a3] at hm; exact hm)) (by rw [a4.2 node hlt]; exact hkp)
      (fun b hb hx => hD b (by rw [← a3]; exact hb) hx) htb hT
    exact ⟨b1, b2.trans a2, b3.trans a3, a4.trans b4, b5.trans a5,
      fun i hi' hx => (b6 i (Nat.lt_of_lt_of_le hi' a4.1) hx).trans (a6 i hi' hx)⟩

/-- two transformer lists that do the same — and what `PTPostX` says — on a Paragraph that has a parent and whose lines
    pass the run-time checks -/
def Agree (src : Bytes) (pts1 pts2 : List PT) : Prop :=
  ∀ (node : Nat) (s : St), s.r.source = src → node < s.nodes.length → (nd s node).kind = .paragraph →
    (nd s node).parent.isSome = true → NodesOK src s → GM.LinkRef.linesOKB src (nd s node).lines = true →
    EQV (fun _ s' => PTPostX src node s s') (transformParagraph pts1 node) (transformParagraph pts2 node) s

/-! ### the blocks that survive `closeBlocksT` are not among the closed ones -/

theorem nodup_getElem_inj {l : List Block} (hnd : l.Nodup) {i j : Nat} (hi : i < l.length) (hj : j < l.length)
    (h : l[i] = l[j]) : i = j := by
  have hp := List.pairwise_iff_getElem.1 hnd
  rcases Nat.lt_trichotomy i j with hlt | heq | hgt
  · exact absurd h (hp i j hi hj hlt)
  · exact heq
  · exact absurd h.symm (hp j i hj hi hgt)

theorem blockAt_getElem {l : List Block} {i : Int} {b : Block} (h : blockAt l i = .ok b) :
    0 ≤ i ∧ ∃ hi : i.toNat < l.length, l[i.toNat] = b := by
  unfold blockAt at h
  split at h
  · cases h
  · next h0 =>
    cases hh : l[i.toNat]? with
    | none => rw [hh] at h; cases h
    | some x =>
      rw [hh] at h
      cases h
      obtain ⟨hlt, he⟩ := List.getElem?_eq_some_iff.1 hh
      exact ⟨by omega, hlt, he⟩

theorem slice_lo {l : List Block} (hnd : l.Nodup) {to : Int} {a : List Block} (ha : closeBlocks.slice' l 0 to = .ok a)
    {b : Block} (hb : b ∈ a) (j : Nat) (hj : blockAt l (to + j) = .ok b) : False := by
  unfold closeBlocks.slice' at ha
  split at ha
  · next hc =>
    cases ha
    simp only [Int.toNat_zero, List.drop_zero, Int.sub_zero] at hb
    obtain ⟨i, hi, he⟩ := List.getElem_of_mem hb
    rw [List.length_take] at hi
    rw [List.getElem_take] at he
    obtain ⟨h0, hlt, he2⟩ := blockAt_getElem hj
    have := nodup_getElem_inj hnd (by omega) hlt (he.trans he2.symm)
    omega
  · cases ha

theorem slice_hi {l : List Block} (hnd : l.Nodup) {to frm : Int} {c : List Block}
    (hc : closeBlocks.slice' l (frm + 1) (l.length : Int) = .ok c)
    {b : Block} (hb : b ∈ c) (j : Nat) (hjk : (j : Int) < frm - to + 1) (hj : blockAt l (to + j) = .ok b) : False := by
  unfold closeBlocks.slice' at hc
  split at hc
  · next hcc =>
    cases hc
    obtain ⟨i, hi, he⟩ := List.getElem_of_mem hb
    rw [List.length_take, List.length_drop] at hi
    rw [List.getElem_take, List.getElem_drop] at he
    obtain ⟨h0, hlt, he2⟩ := blockAt_getElem hj
    have := nodup_getElem_inj hnd (by omega) hlt (he.trans he2.symm)
    omega
  · cases hc

section walkG
variable {src : Bytes} {pts1 pts2 : List PT} (hag : Agree src pts1 pts2)
include hag

theorem closeLoopT_eqg {B : Int} (blocks : List Block) (to : Int) : ∀ (k : Nat) (s : St) (D : List Block),
    InvGFX D F src B s → s.r.source = src → (∀ b ∈ blocks, b ∈ s.pc.opened) →
    EQV (fun _ s' => (∃ D', InvGFX D' F src B s' ∧ ∀ b ∈ D', b ∈ D ∨ ∃ j : Nat, j < k ∧ blockAt blocks (to + j) = .ok b) ∧
        s'.r = s.r ∧ s'.pc.opened = s.pc.opened ∧ KG s s' ∧
        (∀ t, s'.pc.tmpPara = some t → s.pc.tmpPara = some t) ∧
        (∀ i, i < s.nodes.length → (∀ b ∈ blocks, b.node ≠ i) → (nd s' i).lines = (nd s i).lines))
      (closeLoopT pts1 blocks to k) (closeLoopT pts2 blocks to k) s := by
  intro k
  induction k with
  | zero =>
    intro s D hi _ _
    unfold closeLoopT
    exact EQV.pure ⟨⟨D, hi, fun b hb => .inl hb⟩, rfl, rfl, KG.refl _, fun _ h => h, fun _ _ _ => rfl⟩
  | succ k ih =>
    intro s D hi0 hsrc hsub
    unfold closeLoopT
    refine EQV.bind_same (fun b s1 h1 => ?_)
    obtain ⟨hb, hs1⟩ := oliftE_ok h1
    subst s1
    have hbm := hsub b (blockAt_mem hb)
    have hi : InvGFX (b :: D) F src B s := hi0.dmono (fun x hx => List.mem_cons_of_mem _ hx)
    obtain ⟨hkb, hltb⟩ := hi.kinds b hbm
    refine EQV.bind_same (fun n s2 h2 => ?_)
    obtain ⟨hn, hs2⟩ := ogetNode_ok h2
    subst s2
    -- behind the transformer step
    have jp : ∀ s3 : St, InvGFX (b :: D) F src B s3 ∧ s3.r = s.r ∧ s3.pc.opened = s.pc.opened ∧ KG s s3 ∧ s3.pc.tmpPara = s.pc.tmpPara ∧
          LO b.node s s3 →
        EQV (fun _ s' => (∃ D', InvGFX D' F src B s' ∧ ∀ b ∈ D', b ∈ D ∨ ∃ j : Nat, j < k + 1 ∧ blockAt blocks (to + j) = .ok b) ∧
            s'.r = s.r ∧ s'.pc.opened = s.pc.opened ∧ KG s s' ∧
            (∀ t, s'.pc.tmpPara = some t → s.pc.tmpPara = some t) ∧
            (∀ i, i < s.nodes.length → (∀ b ∈ blocks, b.node ≠ i) → (nd s' i).lines = (nd s i).lines))
          (do
            let __do_lift ← getNode b.node
            if __do_lift.parent.isSome = true then do
                let __r ← bpClose b.bp b.node
                closeLoopT pts1 blocks to k
              else closeLoopT pts1 blocks to k)
          (do
            let __do_lift ← getNode b.node
            if __do_lift.parent.isSome = true then do
                let __r ← bpClose b.bp b.node
                closeLoopT pts2 blocks to k
              else closeLoopT pts2 blocks to k) s3 := by
      intro s3 ⟨a1, a2, a3, a4, a5, a6⟩
      have hbl : b ∈ blocks := blockAt_mem hb
      have hsrc3 : s3.r.source = src := by rw [a2]; exact hsrc
      have hsub3 : ∀ b ∈ blocks, b ∈ s3.pc.opened := fun b hb => by rw [a3]; exact hsub b hb
      have hfin : ∀ D' : List Block, (∀ x ∈ D', x ∈ b :: D ∨ ∃ j : Nat, j < k ∧ blockAt blocks (to + j) = .ok x) →
          ∀ x ∈ D', x ∈ D ∨ ∃ j : Nat, j < k + 1 ∧ blockAt blocks (to + j) = .ok x := by
        intro D' hD' x hx
        rcases hD' x hx with h | ⟨j, hj, he⟩
        · simp only [List.mem_cons] at h
          rcases h with h | h
          · subst h; exact .inr ⟨k, Nat.lt_succ_self _, hb⟩
          · exact .inl h
        · exact .inr ⟨j, Nat.lt_succ_of_lt hj, he⟩
      refine EQV.bind_same (fun n4 s4 h4 => ?_)
      obtain ⟨_, hs4⟩ := ogetNode_ok h4
      subst s4
      refine EQV.ite (fun _ => ?_) (fun _ => ?_)
      · refine EQV.bind_same (fun _ s5 h5 => ?_)
        obtain ⟨hkb3, hltb3⟩ := nk_kg a4 hkb hltb
        obtain ⟨c1, c2, c3, c4, c5, c6⟩ := bpClose_invG b.bp b.node a1 hsrc3 hkb3 hltb3
          (fun hs => ⟨b, by rw [a3]; exact hbm, hs⟩)
          (fun _ b' hb' hx => by
            rw [a1.node_inj (by rw [a3]; exact hbm) hb' hx]; exact List.mem_cons_self ..) h5
        refine (ih s5 (b :: D) c1 (by rw [c2]; exact hsrc3) (fun b hb => by rw [c3]; exact hsub3 b hb)).mono ?_
        intro _ s' ⟨⟨D', d1, dD⟩, d2, d3, d4, d5, d6⟩
        exact ⟨⟨D', d1, hfin D' dD⟩, by rw [d2, c2, a2], by rw [d3, c3, a3], (a4.trans c4).trans d4,
          fun t ht => (by rw [← a5]; exact c5 t (d5 t ht)), fun i hi' hx => by
            have hne : i ≠ b.node := fun e0 => hx b hbl e0.symm
            rw [d6 i (Nat.lt_of_lt_of_le hi' (a4.trans c4).1) hx, c6 i (Nat.lt_of_lt_of_le hi' a4.1) hne, a6 i hi' hne]⟩
      · refine (ih s3 (b :: D) a1 hsrc3 hsub3).mono ?_
        intro _ s' ⟨⟨D', d1, dD⟩, d2, d3, d4, d5, d6⟩
        exact ⟨⟨D', d1, hfin D' dD⟩, by rw [d2, a2], by rw [d3, a3], a4.trans d4, fun t ht => (by rw [← a5]; exact d5 t ht),
          fun i hi' hx => by
            have hne : i ≠ b.node := fun e0 => hx b hbl e0.symm
            rw [d6 i (Nat.lt_of_lt_of_le hi' a4.1) hx, a6 i hi' hne]⟩
    dsimp only
    refine EQV.ite (fun hc => ?_) (fun _ => jp s ⟨hi, rfl, rfl, KG.refl _, rfl, LO.refl _ _⟩)
    simp only [Bool.and_eq_true, beq_iff_eq] at hc
    have hkp : (nd s b.node).kind = .paragraph := by rw [← hc.1, hn]
    have hpar : (nd s b.node).parent.isSome = true := by rw [← hc.2, hn]
    refine EQV.bind (hag b.node s hsrc hltb hkp hpar hi.nodes (hi.linesOKB hkp)) (fun g s3 _ hp => ?_)
    exact jp s3 (hi.ptpostX hltb (fun t ht hm => fun h0 => (hi.tl t ht hm).2 b hbm h0.symm) hkp
      (fun b' hb' hx => by rw [hi.node_inj hbm hb' hx]; exact List.mem_cons_self ..) hp)

/-- **closeBlocksT keeps the invariant and runs the same with both transformer lists**; the stack shrinks to a sublist -/
theorem closeBlocksT_eqg {B : Int} {s : St} (frm to : Int) (hle : to ≤ frm + 1) (hi : InvGF F src B s)
    (hsrc : s.r.source = src) :
    EQV (fun _ s' => InvGF F src B s' ∧ s'.r = s.r ∧ s'.pc.opened.Sublist s.pc.opened ∧ KG s s' ∧
        (∀ t, s'.pc.tmpPara = some t → s.pc.tmpPara = some t) ∧
        (∀ i, i < s.nodes.length → (∀ b ∈ s.pc.opened, b.node ≠ i) → (nd s' i).lines = (nd s i).lines))
      (closeBlocksT pts1 frm to) (closeBlocksT pts2 frm to) s := by
  unfold closeBlocksT
  refine EQV.bind_same (fun pc s1 h1 => ?_)
  obtain ⟨rfl, hs1⟩ := ogetPc_ok h1
  subst s1
  refine EQV.bind (closeLoopT_eqg hag s.pc.opened to _ s [] hi hsrc (fun b hb => hb)) (fun _ s2 _ h2 => ?_)
  obtain ⟨⟨D', a1, aD⟩, a2, a3, a4, a5, a6⟩ := h2
  have hnd : s.pc.opened.Nodup := hi.nodup
  refine EQV.refl (fun _ s' k2 => ?_)
  dsimp only at k2
  have fin : ∀ (bl : List Block), bl.Sublist s.pc.opened → (∀ b ∈ bl, b ∉ D') →
      (modPc fun pc => { pc with opened := bl }) s2 = .ok ((), s') →
      InvGF F src B s' ∧ s'.r = s.r ∧ s'.pc.opened.Sublist s.pc.opened ∧ KG s s' ∧
        (∀ t, s'.pc.tmpPara = some t → s.pc.tmpPara = some t) ∧
        (∀ i, i < s.nodes.length → (∀ b ∈ s.pc.opened, b.node ≠ i) → (nd s' i).lines = (nd s i).lines) := by
    intro bl hbl hfr k3
    have := omodPc_ok k3
    subst this
    exact ⟨a1.congr_pcD _ rfl (by rw [a3]; exact hbl) hfr, a2, hbl, a4, a5, a6⟩
  have hDj : ∀ b ∈ D', ∃ j : Nat, (j : Int) < frm - to + 1 ∧ blockAt s.pc.opened (to + j) = .ok b := by
    intro b hb
    rcases aD b hb with h | ⟨j, hj, he⟩
    · cases h
    · exact ⟨j, by omega, he⟩
  split at k2
  · obtain ⟨bl, s3, h3, k3⟩ := obind_ok k2
    obtain ⟨hb, hs3⟩ := oliftE_ok h3
    subst s3
    exact fin bl (closeSlice_sublist hb) (fun b hbb hd => by
      obtain ⟨j, _, he⟩ := hDj b hd
      exact slice_lo hnd hb hbb j he) k3
  · obtain ⟨a, s4, h4, k4⟩ := obind_ok k2
    obtain ⟨ha, hs4⟩ := oliftE_ok h4
    subst s4
    obtain ⟨b, s5, h5, k5⟩ := obind_ok k4
    obtain ⟨hb, hs5⟩ := oliftE_ok h5
    subst s5
    obtain ⟨bl, s6, h6, k6⟩ := obind_ok k5
    obtain ⟨hbl, hs6⟩ := opure_ok h6
    subst s6
    subst bl
    exact fin (a ++ b) (closeSlice_two hle ha hb) (fun x hx hd => by
      obtain ⟨j, hj, he⟩ := hDj x hd
      rcases List.mem_append.1 hx with hx | hx
      · exact slice_lo hnd ha hx j he
      · exact slice_hi hnd hb hx j hj he) k6

/-- `closeBlocksT_eqg` for all bounds at once -/
theorem closeBlocksT_eqg_all {s : St} (frm to : Int) (hle : to ≤ frm + 1) (hex : ∃ B, InvGF F src B s) (hsrc : s.r.source = src) :
    EQV (fun _ s' => (∀ B, InvGF F src B s → InvGF F src B s') ∧ s'.r = s.r ∧ s'.pc.opened.Sublist s.pc.opened ∧ KG s s' ∧
        (∀ t, s'.pc.tmpPara = some t → s.pc.tmpPara = some t) ∧
        (∀ i, i < s.nodes.length → (∀ b ∈ s.pc.opened, b.node ≠ i) → (nd s' i).lines = (nd s i).lines))
      (closeBlocksT pts1 frm to) (closeBlocksT pts2 frm to) s := by
  obtain ⟨B0, hB0⟩ := hex
  have h0 := closeBlocksT_eqg hag frm to hle hB0 hsrc
  refine ⟨h0.1, fun a s' e => ?_⟩
  obtain ⟨_, a2, a3, a4, a5, a6⟩ := h0.2 a s' e
  exact ⟨fun B hB => ((closeBlocksT_eqg hag frm to hle hB hsrc).2 a s' e).1, a2, a3, a4, a5, a6⟩

end walkG

end GM.Blocks.TX
