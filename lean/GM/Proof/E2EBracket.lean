/-
  GM.Proof.E2EBracket — the link reference definition transformer (parser/link_ref.go, GM.Model.LinkRef) on a source
  WITHOUT the byte `[`:

    * every line the transformer's block reader hands out consists of bytes of the source, spaces (virtual padding)
      and a newline (ForceNewline), so `line[pos] != '['` (link_ref.go:73) always holds: `defHead` never answers an
      opening bracket, `parseLinkReferenceDefinition` answers `-1, -1`, the first loop of `Transform` removes nothing
      and the reference map is untouched (`transformScan_noBracket`);
    * so on a Paragraph that HAS lines `Transform` (guarded or not) returns the state UNCHANGED or ends in an error
      outcome (`transform_silent`, `guardedTransform_silent`), for every state over such a source;
    * but NOT on a Paragraph without lines: there `Transform` replaces the paragraph by a fresh TextBlock
      (link_ref.go:41-47) although no definition was read — a kernel-evaluated witness (`transform_not_silent_witness`).
      This is why "the transformer declines on sources without `[`" is not a state-independent fact, and why the
      monotonicity argument of GM.Proof.ConvertXRel (a transformer that is silent on EVERY state) does not carry
      `run`-theorems over to `blockPhase`: one needs "a Paragraph handed to `transformParagraph` has lines" at the two
      call sites (parser.go:904-907, 985-997), an invariant of the driver WITH transformers.
-/
import GM.Model.Convert
import GM.Proof.LinkRefPad

namespace GM.E2E
open GM GM.Text GM.Blocks GM.LinkRef

/-- the source does not contain `[` -/
def NoBracket (src : Bytes) : Prop := ∀ b ∈ src, b ≠ 91

instance (src : Bytes) : Decidable (NoBracket src) := by unfold NoBracket; exact inferInstance

/-! ### the bytes of a line -/

theorem sub_mem {src : Bytes} {a b : Nat} {x : UInt8} (h : x ∈ sub src a b) : x ∈ src :=
  List.mem_of_mem_drop (List.mem_of_mem_take h)

theorem sliceB_mem {src : Bytes} {a b : Int} {v : Bytes} (h : sliceB src a b = .ok v) {x : UInt8} (hx : x ∈ v) : x ∈ src := by
  unfold sliceB at h
  split at h
  · cases h; exact sub_mem hx
  · cases h

/-- `Segment.Value`: source bytes, padding spaces, possibly a final newline -/
theorem value_mem {t : Segment} {src v : Bytes} (h : t.value src = .ok v) {x : UInt8} (hx : x ∈ v) :
    x ∈ src ∨ x = 32 ∨ x = 10 := by
  have app : ∀ (r w : Bytes), (∀ y ∈ r, y ∈ src ∨ y = 32 ∨ y = 10) →
      (if needsNewline t r then (pure (r ++ [10]) : Except Panic Bytes) else pure r) = .ok w →
      ∀ y ∈ w, y ∈ src ∨ y = 32 ∨ y = 10 := by
    intro r w hr hw y hy
    split at hw
    · cases hw
      rcases List.mem_append.1 hy with h1 | h1
      · exact hr y h1
      · simp only [List.mem_singleton] at h1; exact .inr (.inr h1)
    · cases hw; exact hr y hy
  unfold Segment.value at h
  split at h
  · cases hs : sliceB src t.start t.stop with
    | error e => rw [hs] at h; cases h
    | ok r =>
      rw [hs] at h
      exact app r v (fun y hy => .inl (sliceB_mem hs hy)) h x hx
  · by_cases c1 : t.padding + t.stop - t.start + 1 < 0
    · rw [if_pos c1] at h; cases h
    · rw [if_neg c1] at h
      by_cases c2 : t.padding < 0
      · rw [if_pos c2] at h; cases h
      · rw [if_neg c2] at h
        cases hs : sliceB src t.start t.stop with
        | error e => rw [hs] at h; cases h
        | ok r =>
          rw [hs] at h
          refine app (spaces t.padding.toNat ++ r) v (fun y hy => ?_) h x hx
          rcases List.mem_append.1 hy with h1 | h1
          · exact .inr (.inl (List.eq_of_mem_replicate h1))
          · exact .inl (sliceB_mem hs h1)

theorem idx_mem {l : Bytes} {i : Int} {b : UInt8} (h : idx l i = .ok b) : b ∈ l := by
  unfold idx getByte at h
  split at h
  · cases h
  · split at h
    · rename_i hb
      cases h
      exact List.mem_of_getElem? hb
    · cases h

/-! ### the block reader keeps its source -/

theorem setPosition_source {line : Int} {pos : Segment} {r r' : BlockReader} (h : r.setPosition line pos = .ok r') :
    r'.source = r.source := by
  unfold BlockReader.setPosition at h
  simp only at h
  split at h
  · split at h
    · simp only [bind, Except.bind] at h
      cases hs : segAt r.segments line with
      | error e => rw [hs] at h; cases h
      | ok s => rw [hs] at h; cases h; rfl
    · cases h; rfl
  · split at h
    · simp only [bind, Except.bind] at h
      cases hs : segAt r.segments line with
      | error e => rw [hs] at h; cases h
      | ok s => rw [hs] at h; cases h; rfl
    · cases h; rfl

theorem advanceLine_source {r r' : BlockReader} (h : r.advanceLine = .ok r') : r'.source = r.source := by
  unfold BlockReader.advanceLine at h
  simp only [bind, Except.bind] at h
  cases hs : BlockReader.setPosition (r.line + 1) { start := -1, stop := -1 } r with
  | error e => rw [hs] at h; cases h
  | ok r1 =>
    rw [hs] at h; cases h
    show r1.source = r.source
    exact setPosition_source hs

theorem advanceLoop_source : ∀ (n : Nat) {r r' : BlockReader}, r.advanceLoop n = .ok r' → r'.source = r.source
  | 0, r, r', h => by unfold BlockReader.advanceLoop at h; cases h; rfl
  | n + 1, r, r', h => by
    unfold BlockReader.advanceLoop at h
    split at h
    · have := advanceLoop_source n h; exact this
    · split at h
      · simp only [bind, Except.bind] at h
        cases hs : r.advanceLine with
        | error e => rw [hs] at h; cases h
        | ok r1 =>
          rw [hs] at h
          exact (advanceLoop_source n h).trans (advanceLine_source hs)
      · have := advanceLoop_source n h; exact this

theorem advance_source {n : Int} {r r' : BlockReader} (h : r.advance n = .ok r') : r'.source = r.source := by
  unfold BlockReader.advance at h
  simp only at h
  split at h
  · cases h; rfl
  · have := advanceLoop_source _ h; exact this

theorem peekLine_source {r r' : BlockReader} {x : Option Bytes × Segment} (h : r.peekLine = .ok (x, r')) : r' = r := by
  unfold BlockReader.peekLine at h
  split at h
  · simp only [bind, Except.bind] at h
    cases hv : r.pos.value r.source with
    | error e => rw [hv] at h; cases h
    | ok v => rw [hv] at h; cases h; rfl
  · cases h; rfl

theorem peekLine_mem {r r' : BlockReader} {l : Bytes} {sg : Segment} (h : r.peekLine = .ok ((some l, sg), r')) {x : UInt8}
    (hx : x ∈ l) : x ∈ r.source ∨ x = 32 ∨ x = 10 := by
  unfold BlockReader.peekLine at h
  split at h
  · simp only [bind, Except.bind] at h
    cases hv : r.pos.value r.source with
    | error e => rw [hv] at h; cases h
    | ok v => rw [hv] at h; cases h; exact value_mem hv hx
  · cases h

theorem skipSpaces_source {fuel : Nat} {chars : Int} {r r' : BlockReader} {x : Segment × Int × Bool}
    (h : skipSpaces blockOps fuel chars r = .ok (x, r')) : r'.source = r.source :=
  GM.Proof.LinkRefPad.skipSpaces_inv blockOps (fun q => q.source = r.source)
    (fun _ _ _ hj ha => (advance_source ha).trans hj)
    (fun _ _ _ hj hp => by rw [peekLine_source hp]; exact hj) fuel chars r x r' rfl h

theorem new_source {src : Bytes} {segs : List Segment} {r : BlockReader} (h : BlockReader.new src segs = .ok r) :
    r.source = src := by
  unfold BlockReader.new BlockReader.resetPosition at h
  simp only [bind, Except.bind, pure, Except.pure] at h
  split at h
  · cases hq : segAt segs ((segs.length : Int) - 1) with
    | error e => rw [hq] at h; cases h
    | ok l => rw [hq] at h; have := advanceLine_source h; exact this
  · have := advanceLine_source h; exact this

/-! ### no opening bracket, no definition -/

theorem defHead_noBracket {src : Bytes} (hb : NoBracket src) {rd rd' : BlockReader} {x : Option (Int × Int)}
    (hs : rd.source = src) (h : defHead rd = .ok (x, rd')) : x = none := by
  unfold defHead at h
  simp only [bind, Except.bind] at h
  cases h1 : skipSpaces blockOps (GM.Inl.rdFuel rd) 0 rd with
  | error e => rw [h1] at h; cases h
  | ok p1 =>
    obtain ⟨y, rd1⟩ := p1
    rw [h1] at h
    simp only at h
    have hs1 : rd1.source = src := (skipSpaces_source h1).trans hs
    cases h2 : rd1.peekLine with
    | error e => rw [h2] at h; cases h
    | ok p2 =>
      obtain ⟨⟨line, sg⟩, rd2⟩ := p2
      rw [h2] at h
      simp only at h
      cases line with
      | none => cases h; rfl
      | some l =>
        simp only at h
        split at h
        · cases h; rfl
        · cases h3 : idx l (if (indentWidthI l 0).1 != 0 then (indentWidthI l 0).2 + 1 else (indentWidthI l 0).2) with
          | error e => rw [h3] at h; cases h
          | ok b =>
            rw [h3] at h
            simp only at h
            split at h
            · cases h; rfl
            · rename_i hne
              exfalso
              have hb91 : b = 91 := by simpa using hne
              have hm := peekLine_mem h2 (idx_mem h3)
              rw [hs1, hb91] at hm
              rcases hm with hm | hm | hm
              · exact hb 91 hm rfl
              · exact absurd hm (by decide)
              · exact absurd hm (by decide)

theorem parseLRD_noBracket {src : Bytes} (hb : NoBracket src) {rd rd' : BlockReader} {refs refs' : RefMap} {se : Int × Int}
    (hs : rd.source = src) (h : parseLinkReferenceDefinition rd refs = .ok (se, rd', refs')) :
    se = (-1, -1) ∧ refs' = refs := by
  unfold parseLinkReferenceDefinition at h
  simp only [bind, Except.bind] at h
  cases h1 : defHead rd with
  | error e => rw [h1] at h; cases h
  | ok p =>
    obtain ⟨x, rd1⟩ := p
    rw [h1] at h
    have hx := defHead_noBracket hb hs h1
    subst hx
    simp only [noDef] at h
    cases h
    exact ⟨rfl, rfl⟩

theorem transformLoop_noBracket {src : Bytes} (hb : NoBracket src) : ∀ (fuel : Nat) {rd : BlockReader} {refs refs' : RefMap}
    {removes rm : List (Int × Int)}, rd.source = src → transformLoop fuel rd refs removes = .ok (rm, refs') →
    rm = removes ∧ refs' = refs
  | 0, _, _, _, _, _, _, h => by unfold transformLoop at h; cases h
  | fuel + 1, rd, refs, refs', removes, rm, hs, h => by
    unfold transformLoop at h
    simp only [bind, Except.bind] at h
    cases h1 : parseLinkReferenceDefinition rd refs with
    | error e => rw [h1] at h; cases h
    | ok p =>
      obtain ⟨⟨s, e⟩, rd1, refs1⟩ := p
      rw [h1] at h
      obtain ⟨hse, hr⟩ := parseLRD_noBracket hb hs h1
      cases hse
      subst hr
      simp only at h
      rw [if_neg (by decide)] at h
      cases h
      exact ⟨rfl, rfl⟩

/-- **the first loop of `Transform` on a source without `[`** removes nothing and registers nothing -/
theorem transformScan_noBracket {src : Bytes} (hb : NoBracket src) {lines : List Segment} {refs refs' : RefMap}
    {rm : List (Int × Int)} (h : transformScan src lines refs = .ok (rm, refs')) : rm = [] ∧ refs' = refs := by
  unfold transformScan at h
  simp only [bind, Except.bind] at h
  cases h1 : BlockReader.new src lines with
  | error e => rw [h1] at h; cases h
  | ok block =>
    rw [h1] at h
    exact transformLoop_noBracket hb _ (new_source h1) h

/-! ### `Transform` is silent on a paragraph with lines -/

theorem set_getD_self {α} (l : List α) (i : Nat) (d : α) : l.set i (l.getD i d) = l := by
  by_cases h : i < l.length
  · simp [List.getD, h]
  · exact List.set_eq_of_length_le (Nat.le_of_not_lt h)

theorem transformFinish_nil (node : Nat) (s : St) (hl : (s.nodes.getD node default).lines ≠ []) :
    transformFinish node (s.nodes.getD node default) [] s.pc.refs s = .ok ((), s) := by
  unfold transformFinish
  have hf : finishLines [] (s.nodes.getD node default).lines = .ok (s.nodes.getD node default).lines := by
    unfold finishLines
    simp [adjacentB, lastEndOf, removeLoop, pure, Except.pure]
  have hlen : ((s.nodes.getD node default).lines.length == 0) = false := by
    cases hq : (s.nodes.getD node default).lines with
    | nil => exact absurd hq hl
    | cons a b => rfl
  simp only [bind, StateT.bind, modPc, liftE, hf, Except.map, modNode, pure, StateT.pure, Except.pure, Except.bind, hlen,
    Bool.false_eq_true, ↓reduceIte]
  have e : (s.nodes.set node { (s.nodes.getD node default) with lines := (s.nodes.getD node default).lines }) = s.nodes :=
    set_getD_self s.nodes node default
  simp only [List.getD_eq_getElem?_getD] at e ⊢
  rw [e]

/-- **`Transform` on a source without `[`**: unchanged state or an error outcome, on every Paragraph that has a line -/
theorem transform_silent (node : Nat) (s : St) (hb : NoBracket s.r.source)
    (hl : (s.nodes.getD node default).lines ≠ []) :
    transform node s = .ok ((), s) ∨ ∃ e, transform node s = .error e := by
  unfold transform
  simp only [bind, StateT.bind, getNode, source, getPc, pure, StateT.pure, Except.pure, Except.bind, liftE]
  cases h1 : transformScan s.r.source (s.nodes.getD node default).lines s.pc.refs with
  | error e => exact .inr ⟨e, rfl⟩
  | ok p =>
    obtain ⟨rm, refs'⟩ := p
    obtain ⟨hrm, hr⟩ := transformScan_noBracket hb h1
    subst hrm hr
    simp only [Except.map]
    exact .inl (transformFinish_nil node s hl)

theorem guardedTransform_silent (node : Nat) (s : St) (hb : NoBracket s.r.source)
    (hl : (s.nodes.getD node default).lines ≠ []) :
    guardedTransform node s = .ok ((), s) ∨ ∃ e, guardedTransform node s = .error e := by
  unfold guardedTransform
  simp only [bind, StateT.bind, getNode, source, pure, StateT.pure, Except.pure, Except.bind]
  split
  · exact .inr ⟨.pre, rfl⟩
  · exact transform_silent node s hb hl

/-- the paragraph transformers of `blockPhase guard` -/
theorem paragraphTransformer_silent (guard : Bool) (node : Nat) (s : St) (hb : NoBracket s.r.source)
    (hl : (s.nodes.getD node default).lines ≠ []) :
    ∀ pt ∈ GM.Convert.paragraphTransformers guard, pt node s = .ok ((), s) ∨ ∃ e, pt node s = .error e := by
  intro pt hpt
  simp only [GM.Convert.paragraphTransformers, List.mem_singleton] at hpt
  subst hpt
  split
  · exact guardedTransform_silent node s hb hl
  · exact transform_silent node s hb hl

/-! ### … and NOT silent on a paragraph without lines -/

/-- a store over the empty source (no `[`): the Document with one child, a Paragraph WITHOUT lines -/
def witnessSt : St :=
  { (initSt []) with
    nodes := [{ kind := .document, children := [1] }, { kind := .paragraph, parent := some 0 }] }

def witnessCheck : Bool :=
  match guardedTransform 1 witnessSt with
  | .ok (_, s') => s'.nodes.length == 3 && (s'.nodes.getD 0 default).children == [2] &&
      (s'.nodes.getD 2 default).kind == .textBlock && (s'.nodes.getD 1 default).parent == none
  | .error _ => false

/-- **the obstruction, evaluated by the kernel**: on `witnessSt` (source `""`, no `[` anywhere) the guarded transformer
    succeeds and CHANGES the tree — the store grows by a TextBlock that takes the paragraph's place — although no link
    reference definition was read. So "silent on sources without `[`" needs "the paragraph has a line". -/
theorem transform_not_silent_witness :
    NoBracket witnessSt.r.source ∧
    ∃ s', guardedTransform 1 witnessSt = .ok ((), s') ∧ s'.nodes.length = 3 ∧
      (s'.nodes.getD 0 default).children = [2] ∧ (s'.nodes.getD 2 default).kind = .textBlock ∧
      (s'.nodes.getD 1 default).parent = none ∧ s' ≠ witnessSt := by
  refine ⟨by decide +kernel, ?_⟩
  have h : witnessCheck = true := by decide +kernel
  unfold witnessCheck at h
  cases hg : guardedTransform 1 witnessSt with
  | error e => rw [hg] at h; cases h
  | ok p =>
    obtain ⟨⟨⟩, s'⟩ := p
    rw [hg] at h
    simp only [Bool.and_eq_true, beq_iff_eq] at h
    obtain ⟨⟨⟨h1, h2⟩, h3⟩, h4⟩ := h
    refine ⟨s', rfl, h1, h2, h3, h4, fun e => ?_⟩
    rw [e] at h1
    exact absurd h1 (by decide)

end GM.E2E
