/-
  GM.Proof.ConvertXE2ESpec — the contract `GM.Blocks.PTPost` of package tnopanic's driver theorem
  (`block_phase_with_transformers_total`: any transformer list with `PTsSpec src e`) does NOT admit the table paragraph
  transformer: `PTPost` lets a transformer add AT MOST ONE node to the store (the TextBlock of the link-reference
  transformer's GONE case); whenever `buildTable` runs it adds at least two (the Table node and its TableHeader). So block-phase
  totality with Table needs a third alternative in `PTPost` (a kept PREFIX of the lines, a fresh subtree inserted behind the
  paragraph, or the paragraph removed) and the driver proof re-run for it.
-/
import GM.Proof.BlocksTNPSpec
import GM.Proof.ConvertXMon
import GM.Model.ExtTableX

namespace GM.Proof.ConvertXE2ESpec
open GM GM.Text GM.Blocks GM.Proof.ConvertXMon

/-- the length of the node store after `m`, related to the length before by a reflexive, transitive `R` -/
structure LR (R : Nat → Nat → Prop) {α : Type} (m : M α) : Prop where
  h : ∀ s a s', m s = .ok (a, s') → R s.nodes.length s'.nodes.length

section lrcalc
variable {R : Nat → Nat → Prop} (hr : ∀ a, R a a) (ht : ∀ a b c, R a b → R b c → R a c)
include hr ht

theorem LR.pure {α} (a : α) : LR R (pure a : M α) :=
  ⟨fun s a' s' h => by
    simp only [Pure.pure, StateT.pure, Except.pure, Except.ok.injEq, Prod.mk.injEq] at h
    obtain ⟨_, rfl⟩ := h; exact hr _⟩

theorem LR.bind {α β} {m : M α} {f : α → M β} (hm : LR R m) (hf : ∀ a, LR R (f a)) : LR R (m >>= f) := by
  constructor
  intro s b s'' h
  obtain ⟨a, s', h1, h2⟩ := mbind_ok h
  exact ht _ _ _ (hm.h s a s' h1) ((hf a).h s' b s'' h2)

theorem LR.ite {α} {c : Prop} [Decidable c] {a b : M α} (ha : LR R a) (hb : LR R b) : LR R (if c then a else b) := by
  split <;> assumption

theorem LR.throw {α} (e : Panic) : LR R (throw e : M α) := ⟨fun _ _ _ h => by cases h⟩

theorem getNode_lr (id : Nat) : LR R (getNode id) :=
  ⟨fun s a s' h => by
    simp only [getNode, Pure.pure, Except.pure, Except.ok.injEq, Prod.mk.injEq] at h
    obtain ⟨_, rfl⟩ := h; exact hr _⟩

theorem modNode_lr (id : Nat) (f : Blocks.Node → Blocks.Node) : LR R (modNode id f) :=
  ⟨fun s a s' h => by
    simp only [modNode, Pure.pure, Except.pure, Except.ok.injEq, Prod.mk.injEq] at h
    obtain ⟨_, rfl⟩ := h
    simp only [List.length_set]; exact hr _⟩

theorem removeChild_lr (p c : Nat) : LR R (removeChild p c) := by
  unfold removeChild
  refine LR.bind hr ht (getNode_lr hr ht _) (fun cn => ?_)
  refine LR.ite hr ht (LR.pure hr ht _) ?_
  exact LR.bind hr ht (modNode_lr hr ht _ _) (fun _ => modNode_lr hr ht _ _)

theorem ensureIsolated_lr (c : Nat) : LR R (ensureIsolated c) := by
  unfold ensureIsolated
  refine LR.bind hr ht (getNode_lr hr ht _) (fun cn => ?_)
  split
  · exact removeChild_lr hr ht _ _
  · exact LR.pure hr ht _

theorem appendChild_lr (p c : Nat) : LR R (appendChild p c) := by
  unfold appendChild
  refine LR.bind hr ht (ensureIsolated_lr hr ht _) (fun _ => ?_)
  exact LR.bind hr ht (modNode_lr hr ht _ _) (fun _ => modNode_lr hr ht _ _)

theorem insertBefore_lr (p : Nat) (v1 : Option Nat) (ins : Nat) : LR R (insertBefore p v1 ins) := by
  unfold insertBefore
  split
  · exact appendChild_lr hr ht _ _
  · refine LR.bind hr ht (getNode_lr hr ht _) (fun vn => ?_)
    refine LR.ite hr ht (appendChild_lr hr ht _ _) ?_
    refine LR.bind hr ht (ensureIsolated_lr hr ht _) (fun _ => ?_)
    exact LR.bind hr ht (modNode_lr hr ht _ _) (fun _ => modNode_lr hr ht _ _)

theorem replaceChild_lr (p v1 ins : Nat) : LR R (replaceChild p v1 ins) := by
  unfold replaceChild
  exact LR.bind hr ht (insertBefore_lr hr ht _ _ _) (fun _ => removeChild_lr hr ht _ _)

end lrcalc

theorem eq_refl' : ∀ a : Nat, a = a := fun _ => rfl
theorem eq_trans' : ∀ a b c : Nat, a = b → b = c → a = c := fun _ _ _ h1 h2 => h1.trans h2
theorem le_refl' : ∀ a : Nat, a ≤ a := Nat.le_refl
theorem le_trans' : ∀ a b c : Nat, a ≤ b → b ≤ c → a ≤ c := fun _ _ _ => Nat.le_trans

theorem newNode_len (n : Blocks.Node) (s : St) (a : Nat) (s' : St) (h : newNode n s = .ok (a, s')) :
    s'.nodes.length = s.nodes.length + 1 := by
  simp only [newNode, Pure.pure, Except.pure, Except.ok.injEq, Prod.mk.injEq] at h
  obtain ⟨_, rfl⟩ := h
  simp

theorem newNode_le (n : Blocks.Node) : LR (· ≤ ·) (newNode n) :=
  ⟨fun s a s' h => by rw [newNode_len n s a s' h]; omega⟩

/-- **`PTPost` lets a transformer add at most one node** -/
theorem ptPost_adds_at_most_one {node : Nat} {s s' : St} (h : PTPost node s s') : s'.nodes.length ≤ s.nodes.length + 1 := by
  rcases h.res with ⟨refs, k, _, rfl⟩ | ⟨refs, p, _, hrep⟩
  · simp
  · unfold ptReplace at hrep
    obtain ⟨t, s1, h1, h2⟩ := mbind_ok hrep
    have e1 := newNode_len _ _ _ _ h1
    have e2 := (replaceChild_lr (R := (· = ·)) eq_refl' eq_trans' p node t).h _ _ _ h2
    have e0 : (ptEmptied s node refs).nodes.length = s.nodes.length := by simp [ptEmptied]
    omega

open GM.TableX in
theorem addCells_le (src : Bytes) (row : Nat) : ∀ cells, LR (· ≤ ·) (addCells src row cells)
  | [] => by unfold addCells; exact LR.pure le_refl' le_trans' _
  | c :: rest => by
    unfold addCells
    refine LR.bind le_refl' le_trans' (newNode_le _) (fun id => ?_)
    exact LR.bind le_refl' le_trans' (appendChild_lr le_refl' le_trans' _ _) (fun _ => addCells_le src row rest)

open GM.TableX in
theorem addRows_le (src : Bytes) (table : Nat) : ∀ rows, LR (· ≤ ·) (addRows src table rows)
  | [] => by unfold addRows; exact LR.pure le_refl' le_trans' _
  | r :: rest => by
    unfold addRows addRow
    refine LR.bind le_refl' le_trans' ?_ (fun _ => addRows_le src table rest)
    refine LR.bind le_refl' le_trans' (newNode_le _) (fun id => ?_)
    exact LR.bind le_refl' le_trans' (addCells_le src id r) (fun _ => appendChild_lr le_refl' le_trans' _ _)

open GM.TableX in
/-- **whenever `buildTable` runs it adds at least two nodes** (the Table node, the TableHeader) -/
theorem buildTable_adds_two (src : Bytes) (node : Nat) (parent : Option Nat) (para : List GM.Table.Seg) (t : GM.Table.Table)
    (s s' : St) (h : buildTable src node parent para t s = .ok ((), s')) : s.nodes.length + 2 ≤ s'.nodes.length := by
  unfold buildTable at h
  obtain ⟨table, s1, h1, h⟩ := mbind_ok h
  have e1 := newNode_len _ _ _ _ h1
  obtain ⟨u, s2, h2, h⟩ := mbind_ok h
  unfold addRow at h2
  obtain ⟨hid, s2a, h2a, h2⟩ := mbind_ok h2
  have e2 := newNode_len _ _ _ _ h2a
  have e2b := (LR.bind le_refl' le_trans' (addCells_le src hid t.header)
    (fun _ => appendChild_lr (R := (· ≤ ·)) le_refl' le_trans' table hid)).h _ _ _ h2
  obtain ⟨u3, s3, h3, h⟩ := mbind_ok h
  have e3 := (addRows_le src table t.rows).h _ _ _ h3
  obtain ⟨u4, s4, h4, h⟩ := mbind_ok h
  have e4 := (modNode_lr (R := (· ≤ ·)) le_refl' le_trans' _ _).h _ _ _ h4
  have e5 : s4.nodes.length ≤ s'.nodes.length := by
    cases parent with
    | none => cases h
    | some p =>
      refine (LR.bind (R := (· ≤ ·)) le_refl' le_trans' (getNode_lr le_refl' le_trans' p) (fun pn => ?_)).h _ _ _ h
      refine LR.bind le_refl' le_trans' (insertBefore_lr le_refl' le_trans' _ _ _) (fun _ => ?_)
      exact LR.ite le_refl' le_trans' (removeChild_lr le_refl' le_trans' _ _) (LR.pure le_refl' le_trans' _)
  omega

open GM.TableX in
/-- **the table paragraph transformer is outside tnopanic's contract whenever it builds a table**: its final state is not
    `PTPost` of its initial state -/
theorem transformPT_not_ptPost (src : Bytes) (node : Nat) (s s' : St) (t : GM.Table.Table)
    (ht : (GM.Table.transform src ((nd s node).lines.map toSeg)).table = some t)
    (h : transformPT src node s = .ok ((), s')) : ¬ PTPost node s s' := by
  intro hp
  have hle := ptPost_adds_at_most_one hp
  unfold transformPT at h
  simp only [bind, StateT.bind, getNode, source, pure, Except.pure, Except.bind, StateT.pure] at h
  split at h
  · cases h
  · have ht' : (GM.Table.transform src (List.map toSeg (s.nodes.getD node default).lines)).table = some t := ht
    rw [ht'] at h
    have := buildTable_adds_two src node _ _ t s s' h
    omega

end GM.Proof.ConvertXE2ESpec
