import GM.Spec.Forest
namespace GM.Proof.ForestLists
open GM.Spec GM.Spec.Forest

/-! ## general -/

@[simp] theorem nextIn_nil (x : Nat) : nextIn [] x = none := rfl
theorem nextIn_cons (a : Nat) (t : List Nat) (x : Nat) :
    nextIn (a :: t) x = if a = x then t.head? else nextIn t x := rfl
@[simp] theorem prevIn_nil (x : Nat) : prevIn [] x = none := rfl
@[simp] theorem prevIn_single (a x : Nat) : prevIn [a] x = none := rfl
theorem prevIn_cons_cons (a b : Nat) (t : List Nat) (x : Nat) :
    prevIn (a :: b :: t) x = if b = x then some a else prevIn (b :: t) x := rfl

theorem nextIn_mem {l : List Nat} {x y : Nat} (h : nextIn l x = some y) : x ∈ l ∧ y ∈ l := by
  induction l with
  | nil => simp at h
  | cons a t ih =>
    rw [nextIn_cons] at h
    split at h
    · subst_vars
      cases t with
      | nil => simp at h
      | cons b t => simp at h; simp [h]
    · have := ih h; simp [this]

theorem prevIn_mem {l : List Nat} {x y : Nat} (h : prevIn l x = some y) : x ∈ l ∧ y ∈ l := by
  induction l with
  | nil => simp at h
  | cons a t ih =>
    cases t with
    | nil => simp at h
    | cons b t =>
      rw [prevIn_cons_cons] at h
      split at h
      · simp at h; subst_vars; simp
      · have := ih h
        exact ⟨List.mem_cons_of_mem _ this.1, List.mem_cons_of_mem _ this.2⟩

theorem nextIn_not_mem {l : List Nat} {x : Nat} (h : x ∉ l) : nextIn l x = none := by
  cases hn : nextIn l x with
  | none => rfl
  | some y => exact absurd (nextIn_mem hn).1 h

theorem prevIn_not_mem {l : List Nat} {x : Nat} (h : x ∉ l) : prevIn l x = none := by
  cases hn : prevIn l x with
  | none => rfl
  | some y => exact absurd (prevIn_mem hn).1 h

theorem next_prev {l : List Nat} (nd : l.Nodup) {x y : Nat} :
    nextIn l x = some y ↔ prevIn l y = some x := by
  induction l with
  | nil => simp
  | cons a t ih =>
    cases t with
    | nil => simp [nextIn_cons]
    | cons b t =>
      have nd' : (b :: t).Nodup := (List.nodup_cons.mp nd).2
      have ha : a ∉ b :: t := (List.nodup_cons.mp nd).1
      have hb : b ∉ t := (List.nodup_cons.mp nd').1
      rw [nextIn_cons, prevIn_cons_cons]
      by_cases hax : a = x
      · subst hax
        simp only [if_true, List.head?_cons, Option.some.injEq]
        by_cases hby : b = y
        · simp [hby]
        · simp only [hby, if_false, false_iff]
          intro hp
          exact ha (prevIn_mem hp).2
      · simp only [hax, if_false]
        by_cases hby : b = y
        · subst hby
          simp only [if_true, Option.some.injEq]
          constructor
          · intro hn
            rw [nextIn_cons] at hn
            split at hn
            · subst_vars
              exfalso
              cases t with
              | nil => simp at hn
              | cons c t => simp at hn; simp [hn] at hb
            · exact absurd (nextIn_mem hn).2 hb
          · intro h; exact absurd h hax
        · simp only [hby, if_false]
          exact ih nd'

theorem nextIn_ne_self {l : List Nat} (nd : l.Nodup) (x : Nat) : nextIn l x ≠ some x := by
  induction l with
  | nil => simp
  | cons a t ih =>
    have nd' : t.Nodup := (List.nodup_cons.mp nd).2
    have ha : a ∉ t := (List.nodup_cons.mp nd).1
    rw [nextIn_cons]
    split
    · subst_vars
      intro h
      exact ha (List.mem_of_mem_head? h)
    · exact ih nd'

theorem prevIn_ne_self {l : List Nat} (nd : l.Nodup) (x : Nat) : prevIn l x ≠ some x := by
  intro h
  exact nextIn_ne_self nd x ((next_prev nd).mpr h)

theorem nextIn_none_iff {l : List Nat} (nd : l.Nodup) {x : Nat} (hx : x ∈ l) :
    nextIn l x = none ↔ l.getLast? = some x := by
  induction l with
  | nil => simp at hx
  | cons a t ih =>
    have nd' : t.Nodup := (List.nodup_cons.mp nd).2
    have ha : a ∉ t := (List.nodup_cons.mp nd).1
    rw [nextIn_cons]
    cases t with
    | nil => simp at hx; simp [hx]
    | cons b t =>
      rw [List.getLast?_cons_cons]
      by_cases hax : a = x
      · subst hax
        simp only [if_true, List.head?_cons]
        constructor
        · intro h; simp at h
        · intro h; exact absurd (List.mem_of_getLast? h) ha
      · simp only [hax, if_false]
        have hx' : x ∈ b :: t := by
          rcases List.mem_cons.mp hx with h | h
          · exact absurd h.symm hax
          · exact h
        exact ih nd' hx'

theorem prevIn_none_iff {l : List Nat} (nd : l.Nodup) {x : Nat} (hx : x ∈ l) :
    prevIn l x = none ↔ l.head? = some x := by
  induction l with
  | nil => simp at hx
  | cons a t ih =>
    have nd' : t.Nodup := (List.nodup_cons.mp nd).2
    have ha : a ∉ t := (List.nodup_cons.mp nd).1
    cases t with
    | nil => simp at hx; simp [hx]
    | cons b t =>
      rw [prevIn_cons_cons]
      simp only [List.head?_cons, Option.some.injEq]
      by_cases hbx : b = x
      · subst hbx
        simp only [if_true]
        constructor
        · intro h; simp at h
        · intro h; subst h; simp at ha
      · simp only [hbx, if_false]
        by_cases hax : a = x
        · subst hax
          simp [prevIn_not_mem ha]
        · have hx' : x ∈ b :: t := by
            rcases List.mem_cons.mp hx with h | h
            · exact absurd h.symm hax
            · exact h
          have := ih nd' hx'
          simp only [List.head?_cons, Option.some.injEq] at this
          simp [this, hbx, hax]

/-! ## erase (removing a child) -/

theorem head?_erase' (l : List Nat) (c : Nat) :
    (l.erase c).head? = if l.head? = some c then nextIn l c else l.head? := by
  cases l with
  | nil => simp
  | cons a t =>
    by_cases h : a = c
    · subst h; simp [nextIn_cons]
    · simp [h]

theorem getLast?_erase' {l : List Nat} (nd : l.Nodup) (c : Nat) :
    (l.erase c).getLast? = if l.getLast? = some c then prevIn l c else l.getLast? := by
  induction l with
  | nil => simp
  | cons a t ih =>
    cases t with
    | nil => grind [prevIn_single]
    | cons b t =>
      cases t with
      | nil => grind [prevIn_single, prevIn_cons_cons]
      | cons d t =>
        grind [prevIn_single, prevIn_cons_cons, List.getLast?_cons_cons, List.mem_of_getLast?]

set_option linter.unusedVariables false in
theorem head?_erase {l : List Nat} (nd : l.Nodup) {c : Nat} (hc : c ∈ l) :
    (l.erase c).head? = if l.head? = some c then nextIn l c else l.head? := head?_erase' l c

set_option linter.unusedVariables false in
theorem getLast?_erase {l : List Nat} (nd : l.Nodup) {c : Nat} (hc : c ∈ l) :
    (l.erase c).getLast? = if l.getLast? = some c then prevIn l c else l.getLast? :=
  getLast?_erase' nd c

theorem prevIn_head {b : Nat} {t : List Nat} (nd : (b :: t).Nodup) : prevIn (b :: t) b = none :=
  (prevIn_none_iff nd (List.mem_cons_self)).mpr rfl

theorem nextIn_erase {l : List Nat} (nd : l.Nodup) {c x : Nat} (hx : x ≠ c) :
    nextIn (l.erase c) x = if nextIn l x = some c then nextIn l c else nextIn l x := by
  induction l with
  | nil => simp
  | cons a t ih =>
    have nd' : t.Nodup := (List.nodup_cons.mp nd).2
    have ha : a ∉ t := (List.nodup_cons.mp nd).1
    have ih := ih nd'
    by_cases hac : a = c
    · subst hac
      have : nextIn t x ≠ some a := fun h => ha (nextIn_mem h).2
      simp [nextIn_cons, Ne.symm hx, this]
    · have hh := head?_erase' t c
      grind [nextIn_cons]

theorem prevIn_erase {l : List Nat} (nd : l.Nodup) {c x : Nat} (hx : x ≠ c) :
    prevIn (l.erase c) x = if prevIn l x = some c then prevIn l c else prevIn l x := by
  induction l with
  | nil => simp
  | cons a t ih =>
    have nd' : t.Nodup := (List.nodup_cons.mp nd).2
    have ha : a ∉ t := (List.nodup_cons.mp nd).1
    have ih := ih nd'
    cases t with
    | nil => grind [prevIn_single, prevIn_nil]
    | cons b t =>
      have hb : b ∉ t := (List.nodup_cons.mp nd').1
      by_cases hac : a = c
      · subst hac
        have h1 : prevIn (b :: t) x ≠ some a := fun h => ha (prevIn_mem h).2
        have h2 := prevIn_head nd'
        have h3 := prevIn_not_mem ha
        grind [prevIn_cons_cons]
      · by_cases hbc : b = c
        · subst hbc
          cases t with
          | nil => grind [prevIn_single, prevIn_cons_cons]
          | cons d t =>
            have h1 : prevIn (d :: t) x ≠ some b := fun h => hb (prevIn_mem h).2
            grind [prevIn_cons_cons]
        · grind [prevIn_cons_cons]
/-! ## append (c not yet in the list) -/

theorem nextIn_append_single {l : List Nat} (nd : l.Nodup) {c : Nat} (hc : c ∉ l) (x : Nat) :
    nextIn (l ++ [c]) x = if l.getLast? = some x then some c else nextIn l x := by
  induction l with
  | nil => simp [nextIn_cons]
  | cons a t ih =>
    have nd' : t.Nodup := (List.nodup_cons.mp nd).2
    have ha : a ∉ t := (List.nodup_cons.mp nd).1
    have hc' : c ∉ t := fun h => hc (List.mem_cons_of_mem _ h)
    have ih := ih nd' hc'
    cases t with
    | nil => grind [nextIn_cons, nextIn_nil]
    | cons b t =>
      grind [nextIn_cons, List.getLast?_cons_cons, List.mem_of_getLast?]

theorem prevIn_append_single {l : List Nat} {c : Nat} (hc : c ∉ l) (x : Nat) :
    prevIn (l ++ [c]) x = if x = c then l.getLast? else prevIn l x := by
  induction l with
  | nil => simp
  | cons a t ih =>
    have hc' : c ∉ t := fun h => hc (List.mem_cons_of_mem _ h)
    have ih := ih hc'
    cases t with
    | nil => grind [prevIn_cons_cons, prevIn_single]
    | cons b t =>
      grind [prevIn_cons_cons, List.getLast?_cons_cons]

/-! ## insBefore -/

@[simp] theorem insBefore_nil (c v : Nat) : insBefore c v [] = [c] := rfl
theorem insBefore_cons (c v a : Nat) (t : List Nat) :
    insBefore c v (a :: t) = if a = v then c :: a :: t else a :: insBefore c v t := rfl

theorem insBefore_not_mem {l : List Nat} {c v : Nat} (hv : v ∉ l) : insBefore c v l = l ++ [c] := by
  induction l with
  | nil => rfl
  | cons a t ih => grind [insBefore_cons]

theorem length_insBefore (c v : Nat) (l : List Nat) : (insBefore c v l).length = l.length + 1 := by
  induction l with
  | nil => rfl
  | cons a t ih => grind [insBefore_cons]

theorem mem_insBefore {c v x : Nat} {l : List Nat} : x ∈ insBefore c v l ↔ x = c ∨ x ∈ l := by
  induction l with
  | nil => simp
  | cons a t ih => grind [insBefore_cons]

theorem nodup_insBefore {l : List Nat} (nd : l.Nodup) {c : Nat} (hc : c ∉ l) (v : Nat) :
    (insBefore c v l).Nodup := by
  induction l with
  | nil => simp
  | cons a t ih =>
    have := @mem_insBefore c v a t
    grind [insBefore_cons]

theorem head?_insBefore {l : List Nat} {c v : Nat} (hv : v ∈ l) :
    (insBefore c v l).head? = if l.head? = some v then some c else l.head? := by
  cases l with
  | nil => simp at hv
  | cons a t => grind [insBefore_cons]

theorem getLast?_insBefore {l : List Nat} {c v : Nat} (hv : v ∈ l) :
    (insBefore c v l).getLast? = l.getLast? := by
  induction l with
  | nil => simp at hv
  | cons a t ih =>
    cases t with
    | nil => grind [insBefore_cons, List.getLast?_cons_cons]
    | cons b t => grind [insBefore_cons, List.getLast?_cons_cons]

theorem nextIn_insBefore {l : List Nat} (nd : l.Nodup) {c v : Nat} (hv : v ∈ l) (hc : c ∉ l) (x : Nat) :
    nextIn (insBefore c v l) x =
      if x = c then some v else if nextIn l x = some v then some c else nextIn l x := by
  induction l with
  | nil => simp at hv
  | cons a t ih =>
    have nd' : t.Nodup := (List.nodup_cons.mp nd).2
    have ha : a ∉ t := (List.nodup_cons.mp nd).1
    by_cases hav : a = v
    · subst hav
      have h1 : nextIn (a :: t) x ≠ some a := by
        intro h
        rw [nextIn_cons] at h
        split at h
        · exact ha (List.mem_of_mem_head? h)
        · exact ha (nextIn_mem h).2
      grind [insBefore_cons, nextIn_cons]
    · have hv' : v ∈ t := by grind
      have hh := @head?_insBefore t c v hv'
      grind [insBefore_cons, nextIn_cons]

theorem prevIn_insBefore {l : List Nat} (nd : l.Nodup) {c v : Nat} (hv : v ∈ l) (hc : c ∉ l) (x : Nat) :
    prevIn (insBefore c v l) x =
      if x = v then some c else if x = c then prevIn l v else prevIn l x := by
  induction l with
  | nil => simp at hv
  | cons a t ih =>
    have nd' : t.Nodup := (List.nodup_cons.mp nd).2
    have ha : a ∉ t := (List.nodup_cons.mp nd).1
    by_cases hav : a = v
    · subst hav
      have h1 := prevIn_head nd
      have h2 := prevIn_not_mem hc
      grind [insBefore_cons, prevIn_cons_cons]
    · have hv' : v ∈ t := by grind
      cases t with
      | nil => simp at hv'
      | cons b t =>
        grind [insBefore_cons, prevIn_cons_cons]

/-! ## insAfter / replaceIn in terms of insBefore -/

@[simp] theorem insAfter_nil (c v : Nat) : insAfter c v [] = [c] := rfl
theorem insAfter_cons (c v a : Nat) (t : List Nat) :
    insAfter c v (a :: t) = if a = v then a :: c :: t else a :: insAfter c v t := rfl
@[simp] theorem replaceIn_nil (c v : Nat) : replaceIn c v [] = [c] := rfl
theorem replaceIn_cons (c v a : Nat) (t : List Nat) :
    replaceIn c v (a :: t) = if a = v then c :: t else a :: replaceIn c v t := rfl

theorem insAfter_not_mem {l : List Nat} {c v : Nat} (hv : v ∉ l) : insAfter c v l = l ++ [c] := by
  induction l with
  | nil => rfl
  | cons a t ih => grind [insAfter_cons]

theorem insAfter_eq {l : List Nat} (nd : l.Nodup) {c v : Nat} (hv : v ∈ l) :
    insAfter c v l = match nextIn l v with | some w => insBefore c w l | none => l ++ [c] := by
  induction l with
  | nil => simp at hv
  | cons a t ih =>
    have nd' : t.Nodup := (List.nodup_cons.mp nd).2
    have ha : a ∉ t := (List.nodup_cons.mp nd).1
    by_cases hav : a = v
    · subst hav
      cases t with
      | nil => simp [insAfter_cons, nextIn_cons]
      | cons b t =>
        have hab : a ≠ b := by intro h; subst h; simp at ha
        simp [insAfter_cons, nextIn_cons, insBefore_cons, hab]
    · have hv' : v ∈ t := by grind
      have ih := ih nd' hv'
      rw [insAfter_cons, nextIn_cons, if_neg hav, if_neg hav, ih]
      cases hn : nextIn t v with
      | none => simp
      | some w =>
        have haw : a ≠ w := by intro h; subst h; exact ha (nextIn_mem hn).2
        simp [insBefore_cons, haw]

theorem replaceIn_not_mem {l : List Nat} {c v : Nat} (hv : v ∉ l) : replaceIn c v l = l ++ [c] := by
  induction l with
  | nil => rfl
  | cons a t ih => grind [replaceIn_cons]

set_option linter.unusedVariables false in
theorem insBefore_erase {l : List Nat} (nd : l.Nodup) {c v : Nat} (hv : v ∈ l) (hc : c ∉ l) (hne : v ≠ c) :
    (insBefore c v l).erase v = replaceIn c v l := by
  induction l with
  | nil => simp at hv
  | cons a t ih => grind [insBefore_cons, replaceIn_cons]

/-! ## pigeonhole -/

theorem length_le_of_nodup_lt {l : List Nat} (nd : l.Nodup) {n : Nat} (h : ∀ x ∈ l, x < n) :
    l.length ≤ n := by
  induction n generalizing l with
  | zero =>
    cases l with
    | nil => simp
    | cons a t => exact absurd (h a List.mem_cons_self) (Nat.not_lt_zero _)
  | succ n ih =>
    have nd' : (l.erase n).Nodup := nd.erase n
    have h' : ∀ x ∈ l.erase n, x < n := by
      intro x hx
      have h1 := (nd.mem_erase_iff).mp hx
      have := h x h1.2
      omega
    have := ih nd' h'
    have hl : l.length ≤ (l.erase n).length + 1 := by
      rw [List.length_erase]; split <;> omega
    omega

/-! ## sortIns / sortList -/

@[simp] theorem sortIns_nil (cmp : Nat → Nat → Int) (x : Nat) : sortIns cmp x [] = [x] := rfl
theorem sortIns_cons (cmp : Nat → Nat → Int) (x a : Nat) (t : List Nat) :
    sortIns cmp x (a :: t) = if cmp a x < 0 then a :: sortIns cmp x t else x :: a :: t := rfl

theorem perm_sortIns (cmp : Nat → Nat → Int) (x : Nat) (l : List Nat) :
    (sortIns cmp x l).Perm (x :: l) := by
  induction l with
  | nil => exact List.Perm.refl _
  | cons a t ih =>
    rw [sortIns_cons]
    split
    · exact ((List.Perm.cons a ih).trans (List.Perm.swap x a t))
    · exact List.Perm.refl _

theorem length_sortIns (cmp : Nat → Nat → Int) (x : Nat) (l : List Nat) :
    (sortIns cmp x l).length = l.length + 1 := by
  simpa using (perm_sortIns cmp x l).length_eq

theorem mem_sortIns {cmp : Nat → Nat → Int} {x y : Nat} {l : List Nat} :
    y ∈ sortIns cmp x l ↔ y = x ∨ y ∈ l := by
  simpa using (perm_sortIns cmp x l).mem_iff (a := y)

theorem nodup_sortIns {cmp : Nat → Nat → Int} {x : Nat} {l : List Nat} (nd : l.Nodup) (hx : x ∉ l) :
    (sortIns cmp x l).Nodup :=
  (perm_sortIns cmp x l).nodup_iff.mpr (List.nodup_cons.mpr ⟨hx, nd⟩)

theorem perm_foldl_sortIns (cmp : Nat → Nat → Int) (l acc : List Nat) :
    (l.foldl (fun acc x => sortIns cmp x acc) acc).Perm (acc ++ l) := by
  induction l generalizing acc with
  | nil => simp
  | cons x t ih =>
    rw [List.foldl_cons]
    refine (ih (sortIns cmp x acc)).trans ?_
    refine ((perm_sortIns cmp x acc).append_right t).trans ?_
    exact (List.perm_middle (a := x) (l₁ := acc) (l₂ := t)).symm

theorem perm_sortList (cmp : Nat → Nat → Int) (l : List Nat) : (sortList cmp l).Perm l := by
  simpa [sortList] using perm_foldl_sortIns cmp l []

theorem sorted_sortIns {cmp : Nat → Nat → Int} (tot : ∀ a b, cmp a b < 0 ∨ cmp b a ≤ 0)
    (trans : ∀ a b c, cmp a b ≤ 0 → cmp b c ≤ 0 → cmp a c ≤ 0) (x : Nat) {l : List Nat}
    (hl : l.Pairwise (fun a b => cmp a b ≤ 0)) :
    (sortIns cmp x l).Pairwise (fun a b => cmp a b ≤ 0) := by
  induction l with
  | nil => simp
  | cons a t ih =>
    rw [List.pairwise_cons] at hl
    rw [sortIns_cons]
    split
    · rename_i hlt
      rw [List.pairwise_cons]
      refine ⟨?_, ih hl.2⟩
      intro b hb
      rcases mem_sortIns.mp hb with h | h
      · subst h; omega
      · exact hl.1 b h
    · rename_i hnlt
      have hxa : cmp x a ≤ 0 := by
        rcases tot a x with h | h
        · exact absurd h hnlt
        · exact h
      rw [List.pairwise_cons]
      refine ⟨?_, List.pairwise_cons.mpr hl⟩
      intro b hb
      rcases List.mem_cons.mp hb with h | h
      · subst h; exact hxa
      · exact trans x a b hxa (hl.1 b h)

theorem sorted_sortList {cmp : Nat → Nat → Int} (tot : ∀ a b, cmp a b < 0 ∨ cmp b a ≤ 0)
    (trans : ∀ a b c, cmp a b ≤ 0 → cmp b c ≤ 0 → cmp a c ≤ 0) (l : List Nat) :
    (sortList cmp l).Pairwise (fun a b => cmp a b ≤ 0) := by
  unfold sortList
  suffices h : ∀ acc : List Nat, acc.Pairwise (fun a b => cmp a b ≤ 0) →
      (l.foldl (fun acc x => sortIns cmp x acc) acc).Pairwise (fun a b => cmp a b ≤ 0) from
    h [] List.Pairwise.nil
  induction l with
  | nil => intro acc h; exact h
  | cons x t ih =>
    intro acc h
    rw [List.foldl_cons]
    exact ih _ (sorted_sortIns tot trans x h)

end GM.Proof.ForestLists
