/-
  GM.Proof.E2EAst — the parsed document of `GM.Convert` as a position dump (`GM.Spec.PNode`, the format of the harness
  dumper `DumpPositions`), and the identity-free clauses of C05 (`SemNode`, GM.Proof.E2EAstLabel) for it.

  * `ATree` / `annot` / `parseAst`: the block tree with the inline children `parseBlock` appends to each block — exactly the
    tree `docTree` resolves to the renderer's `GM.Node` (`docTree_ok_annot`: whenever `docTree` answers, so does `annot`),
    but with the SEGMENTS still in place (the renderer's tree holds bytes).
  * `shapeB` / `shapeI`: the per-node fields the dumper prints: `Kind().String()`, node type (document / block / inline),
    Text segment / RawHTML segments / `Lines()` of a block, `isLines`, FencedCodeBlock info + HTMLBlock closure as
    `xsegs`, Heading / Emphasis level. `dumpAst = relabel 0 (-1) ∘ shapeB` numbers the nodes in preorder (the dumper numbers a
    node's children before it descends; `wfAst` only needs the ids to be distinct and the links to agree with the nesting).
  * `AOK`: what the clauses need of the annotated tree — per node (heading level, lines / info / closure in range, lines
    increasing, Document and List have no lines), per parent/child pair (ListItem ⇔ below a List; the root is the Document),
    per block's inline children (well-shaped, segments in range, inside the block's lines and in order).
-/
import GM.Proof.E2EAstLabel
import GM.Proof.E2EValue

namespace GM.E2E
open GM GM.Text GM.Convert GM.Spec GM.Inl GM.Proof.Inlines GM.Proof.InlinesTotal

/-! ### the annotated tree -/

inductive ATree
  | node (n : GM.Blocks.Node) (blocks : List ATree) (inl : List Inl.Node)

mutual
/-- `docTree` without the resolution of segments to bytes -/
def annot (guard : Bool) (env : Env) (src : Bytes) : GM.Blocks.Tree → Except Err ATree
  | .node n cs => do
    let bs ← annots guard env src cs
    let kids ← inlinePhase guard env src n
    pure (.node n bs kids)
def annots (guard : Bool) (env : Env) (src : Bytes) : List GM.Blocks.Tree → Except Err (List ATree)
  | [] => pure []
  | t :: rest => do
    let x ← annot guard env src t
    let xs ← annots guard env src rest
    pure (x :: xs)
end

/-- parser.Parse with the segments in place: what `parseDoc` resolves for the renderer -/
def parseAst (guard : Bool) (uc : List (Nat × (Bool × Bool))) (src : Bytes) : Except Err ATree := do
  let st ← liftErr .blocks (blockPhase guard src)
  let env : Env := { refs := st.pc.refs, uc := uc }
  annot guard env src (GM.Blocks.treeOf st.nodes st.nodes.length 0)

mutual
theorem docTree_ok_annot (guard : Bool) (env : Env) (src : Bytes) : ∀ (t : GM.Blocks.Tree) (x : GM.Node),
    docTree guard env src t = .ok x → ∃ a, annot guard env src t = .ok a
  | .node n cs, x, h => by
    unfold docTree at h
    obtain ⟨bs, hbs, h⟩ := exc_bind_ok h
    obtain ⟨kids, hkids, _⟩ := exc_bind_ok h
    obtain ⟨as, has⟩ := docTrees_ok_annots guard env src cs bs hbs
    exact ⟨.node n as kids, by unfold annot; rw [has, hkids]; rfl⟩
theorem docTrees_ok_annots (guard : Bool) (env : Env) (src : Bytes) : ∀ (ts : List GM.Blocks.Tree) (xs : List GM.Node),
    docTrees guard env src ts = .ok xs → ∃ as, annots guard env src ts = .ok as
  | [], _, _ => ⟨[], by unfold annots; rfl⟩
  | t :: rest, xs, h => by
    unfold docTrees at h
    obtain ⟨x, hx, h⟩ := exc_bind_ok h
    obtain ⟨xs', hxs, _⟩ := exc_bind_ok h
    obtain ⟨a, ha⟩ := docTree_ok_annot guard env src t x hx
    obtain ⟨as, has⟩ := docTrees_ok_annots guard env src rest xs' hxs
    exact ⟨a :: as, by unfold annots; rw [ha, has]; rfl⟩
end

/-- whenever `parseDoc` answers a tree for the renderer, `parseAst` answers the same tree with its segments -/
theorem parseDoc_ok_parseAst {guard : Bool} {uc : List (Nat × (Bool × Bool))} {src : Bytes} {t : GM.Node}
    (h : parseDoc guard uc src = .ok t) : ∃ a, parseAst guard uc src = .ok a := by
  unfold parseDoc at h
  obtain ⟨st, hst, h⟩ := exc_bind_ok h
  obtain ⟨a, ha⟩ := docTree_ok_annot guard _ src _ t h
  exact ⟨a, by unfold parseAst; rw [hst]; exact ha⟩

/-! ### the dump -/

def segOf (s : Segment) : Seg := ⟨s.start, s.stop, s.padding⟩

/-- the identity-free fields of an inline node -/
def inlInfo (kind : String) (segs : List Seg) (level : Int) : PInfo :=
  { kind := kind, ntype := .inline, id := 0, parent := -1, count := 0, hasChildren := false, fwd := [], bwd := [],
    segs := segs, isLines := false, xsegs := [], level := level }

mutual
def shapeI : Inl.Node → PNode
  | .text seg _ _ _ => .mk (inlInfo "Text" [segOf seg] 0) []
  | .codeSpan ks => .mk (inlInfo "CodeSpan" [] 0) (shapeIs ks)
  | .emphasis lv ks => .mk (inlInfo "Emphasis" [] lv) (shapeIs ks)
  | .link im _ _ ks => .mk (inlInfo (if im then "Image" else "Link") [] 0) (shapeIs ks)
  | .autoLink _ _ => .mk (inlInfo "AutoLink" [] 0) []
  | .rawHTML segs => .mk (inlInfo "RawHTML" (segs.map segOf) 0) []
  | .delim _ _ => .mk (inlInfo "Delimiter" [] 0) []
  | .label _ _ _ => .mk (inlInfo "LinkLabelState" [] 0) []
def shapeIs : List Inl.Node → List PNode
  | [] => []
  | n :: rest => shapeI n :: shapeIs rest
end

def ntypeOf : GM.Blocks.Kind → NType
  | .document => .document
  | _ => .block

/-- FencedCodeBlock.Info / HTMLBlock.ClosureLine (when `HasClosure()`) -/
def xsegsOf (n : GM.Blocks.Node) : List Seg :=
  match n.kind with
  | .fencedCodeBlock => match n.info with | some s => [segOf s] | none => []
  | .htmlBlock => if n.closure.start ≥ 0 then [segOf n.closure] else []
  | _ => []

/-- the identity-free fields of a block node -/
def blockInfo (n : GM.Blocks.Node) : PInfo :=
  { kind := n.kind.name, ntype := ntypeOf n.kind, id := 0, parent := -1, count := 0, hasChildren := false, fwd := [],
    bwd := [], segs := n.lines.map segOf, isLines := true, xsegs := xsegsOf n,
    level := if n.kind = .heading then n.level else 0 }

mutual
def shapeB : ATree → PNode
  | .node n bs kids => .mk (blockInfo n) (shapeBs bs ++ shapeIs kids)
def shapeBs : List ATree → List PNode
  | [] => []
  | a :: rest => shapeB a :: shapeBs rest
end

/-- the position dump of the parsed document -/
def dumpAst (a : ATree) : PNode := relabel 0 (-1) (shapeB a)

/-! ### inline nodes -/

/-! the Text / RawHTML segments below inline nodes, in document order (what `Spec.inlineSegs` collects), are among the
    segments the inline phase records -/
mutual
theorem inlineSegs_shapeI_sub : ∀ (n : Inl.Node), (inlineSegs (shapeI n)).Sublist ((segsOf n).map segOf)
  | .text seg a b c => by simp [shapeI, inlineSegs, inlInfo, segsOf]
  | .codeSpan ks => by simpa [shapeI, inlineSegs, inlInfo, segsOf] using inlineSegsL_shapeIs_sub ks
  | .emphasis lv ks => by simpa [shapeI, inlineSegs, inlInfo, segsOf] using inlineSegsL_shapeIs_sub ks
  | .link im d t ks => by
    cases im <;> simpa [shapeI, inlineSegs, inlInfo, segsOf] using inlineSegsL_shapeIs_sub ks
  | .autoLink e s => by simp [shapeI, inlineSegs, inlInfo, segsOf, inlineSegsL]
  | .rawHTML segs => by simp [shapeI, inlineSegs, inlInfo, segsOf]
  | .delim id d => by simp [shapeI, inlineSegs, inlInfo, segsOf, inlineSegsL]
  | .label id s im => by simp [shapeI, inlineSegs, inlInfo, segsOf, inlineSegsL]
theorem inlineSegsL_shapeIs_sub : ∀ (ks : List Inl.Node), (inlineSegsL (shapeIs ks)).Sublist ((segsOfL ks).map segOf)
  | [] => by simp [shapeIs, inlineSegsL, segsOfL]
  | n :: rest => by
    simp only [shapeIs, inlineSegsL, segsOfL, List.map_append]
    exact List.Sublist.append (inlineSegs_shapeI_sub n) (inlineSegsL_shapeIs_sub rest)
end

theorem segOK_of_inRange {src : Bytes} {s : Segment} (h : segInRange src s) : segOK src.length (segOf s) = true := by
  obtain ⟨h0, h1, h2, h3⟩ := h
  simp [segOK, segOf, h0, h1, h2, h3]

/-- `SemNode` of an inline node below a block or inline node that is neither the Document nor a List -/
theorem semNode_inline (len : Nat) (pk : String × NType) (inLink : Bool) (k : String) (segs : List Seg) (lv : Int)
    (cs : List PNode) (hpub : publicKinds.contains k = true) (hk1 : (k == "ListItem") = false)
    (hk2 : (k == "Heading") = false) (hnd : pk.2 ≠ .document) (hnl : pk.1 ≠ "List")
    (hcs : pk.1 = "CodeSpan" → k = "Text") (hem : k = "Emphasis" → 1 ≤ lv ∧ lv ≤ 2)
    (hl : k = "Link" → inLink = false) (hs : segs.all (segOK len) = true) :
    SemNode len (some pk) inLink (inlInfo k segs lv) cs where
  pub := hpub
  root := fun h => by cases h
  blockBelowInline := fun p _ => by simp [inlInfo]
  inlineBelowDoc := fun p hp => by
    cases hp
    have : (pk.2 == NType.document) = false := by simpa using hnd
    simp [inlInfo, this]
  itemOutside := by simp [inlInfo, hk1]
  listChild := fun p hp => by
    cases hp
    have : (pk.1 == "List") = false := by simpa using hnl
    simp [this]
  codeSpan := fun p hp => by
    cases hp
    by_cases h : pk.1 = "CodeSpan"
    · simp [inlInfo, hcs h]
    · have : (pk.1 == "CodeSpan") = false := by simpa using h
      simp [this]
  heading := by simp [inlInfo, hk2]
  emphasis := by
    by_cases h : k = "Emphasis"
    · have := hem h
      simp [inlInfo, this.1, this.2]
    · have : (k == "Emphasis") = false := by simpa using h
      simp [inlInfo, this]
  link := by
    by_cases h : k = "Link"
    · simp [inlInfo, hl h]
    · have : (k == "Link") = false := by simpa using h
      simp [inlInfo, this]
  segs := by simp [inlInfo, hs]
  lines := by simp [inlInfo]
  inl := fun h => by simp [inlInfo] at h

theorem all_isText_head {k : Inl.Node} {rest : List Inl.Node} (h : (k :: rest).all isText = true) :
    isText k = true ∧ rest.all isText = true := by
  simpa using h

mutual
theorem shapeI_sem (len : Nat) : ∀ (n : Inl.Node) (pk : String × NType) (inLink : Bool),
    wf false n = true → (∀ s ∈ segsOf n, segOK len (segOf s) = true) → pk.2 ≠ .document → pk.1 ≠ "List" →
    (pk.1 = "CodeSpan" → isText n = true) → (inLink = true → containsLink n = false) →
    semWf len (some pk) inLink (shapeI n)
  | .text seg a b c, pk, inLink, _, hs, hnd, hnl, _, _ => by
    simp only [shapeI, semWf, semWfL, and_true]
    exact semNode_inline len pk inLink "Text" _ 0 [] (by decide) (by decide) (by decide) hnd hnl (fun _ => rfl)
      (fun h => absurd h (by decide)) (fun h => absurd h (by decide)) (by simp [hs seg (by simp [segsOf])])
  | .codeSpan ks, pk, inLink, hw, hs, hnd, hnl, hcs, hil => by
    simp only [wf] at hw
    simp only [shapeI, semWf]
    refine ⟨semNode_inline len pk inLink "CodeSpan" [] 0 _ (by decide) (by decide) (by decide) hnd hnl
      (fun h => by have := hcs h; simp [isText] at this) (fun h => absurd h (by decide)) (fun h => absurd h (by decide))
      (by simp), ?_⟩
    refine shapeIs_sem len ks ("CodeSpan", .inline) _ ?_ (fun s h => hs s (by simpa [segsOf] using h)) (by decide)
      (by decide) (fun _ => hw) ?_
    · exact GM.Proof.Inlines.wfL_iff.mpr (fun n hn => by
        have : isText n = true := (List.all_eq_true.mp hw) n hn
        cases n <;> simp [isText] at this
        simp [wf])
    · intro h
      have h' : inLink = true := by simpa [inlInfo] using h
      have := hil h'
      simpa [containsLink] using this
  | .emphasis lv ks, pk, inLink, hw, hs, hnd, hnl, hcs, hil => by
    simp only [wf, Bool.and_eq_true, Bool.or_eq_true, beq_iff_eq] at hw
    simp only [shapeI, semWf]
    refine ⟨semNode_inline len pk inLink "Emphasis" [] lv _ (by decide) (by decide) (by decide) hnd hnl
      (fun h => by have := hcs h; simp [isText] at this) (fun _ => by rcases hw.1 with h | h <;> omega)
      (fun h => absurd h (by decide)) (by simp), ?_⟩
    refine shapeIs_sem len ks ("Emphasis", .inline) _ hw.2 (fun s h => hs s (by simpa [segsOf] using h)) (by decide)
      (by decide) (fun h => absurd h (by decide)) ?_
    intro h
    have h' : inLink = true := by simpa [inlInfo] using h
    have := hil h'
    simpa [containsLink] using this
  | .link im d t ks, pk, inLink, hw, hs, hnd, hnl, hcs, hil => by
    simp only [wf, Bool.and_eq_true, Bool.or_eq_true, Bool.not_eq_true'] at hw
    cases im with
    | true =>
      simp only [shapeI, semWf, if_true]
      refine ⟨semNode_inline len pk inLink "Image" [] 0 _ (by decide) (by decide) (by decide) hnd hnl
        (fun h => by have := hcs h; simp [isText] at this) (fun h => absurd h (by decide))
        (fun h => absurd h (by decide)) (by simp), ?_⟩
      refine shapeIs_sem len ks ("Image", .inline) _ hw.1 (fun s h => hs s (by simpa [segsOf] using h)) (by decide)
        (by decide) (fun h => absurd h (by decide)) ?_
      intro h
      have h' : inLink = true := by simpa [inlInfo] using h
      have := hil h'
      simpa [containsLink] using this
    | false =>
      have hno : containsLinkL ks = false := by
        rcases hw.2 with h | h
        · cases h
        · exact h
      simp only [shapeI, semWf, Bool.false_eq_true, if_false]
      refine ⟨semNode_inline len pk inLink "Link" [] 0 _ (by decide) (by decide) (by decide) hnd hnl
        (fun h => by have := hcs h; simp [isText] at this) (fun h => absurd h (by decide)) ?_ (by simp), ?_⟩
      · intro _
        cases hi : inLink with
        | false => rfl
        | true => have := hil hi; simp [containsLink] at this
      · exact shapeIs_sem len ks ("Link", .inline) _ hw.1 (fun s h => hs s (by simpa [segsOf] using h)) (by decide)
          (by decide) (fun h => absurd h (by decide)) (fun _ => hno)
  | .autoLink e s, pk, inLink, _, _, hnd, hnl, hcs, _ => by
    simp only [shapeI, semWf, semWfL, and_true]
    exact semNode_inline len pk inLink "AutoLink" [] 0 [] (by decide) (by decide) (by decide) hnd hnl
      (fun h => by have := hcs h; simp [isText] at this) (fun h => absurd h (by decide))
      (fun h => absurd h (by decide)) (by simp)
  | .rawHTML segs, pk, inLink, _, hs, hnd, hnl, hcs, _ => by
    simp only [shapeI, semWf, semWfL, and_true]
    exact semNode_inline len pk inLink "RawHTML" _ 0 [] (by decide) (by decide) (by decide) hnd hnl
      (fun h => by have := hcs h; simp [isText] at this) (fun h => absurd h (by decide))
      (fun h => absurd h (by decide)) (by
        rw [List.all_eq_true]
        intro x hx
        obtain ⟨s, hs', rfl⟩ := List.mem_map.mp hx
        exact hs s (by simpa [segsOf] using hs'))
  | .delim id dd, _, _, hw, _, _, _, _, _ => by simp [wf] at hw
  | .label id s im, _, _, hw, _, _, _, _, _ => by simp [wf] at hw
theorem shapeIs_sem (len : Nat) : ∀ (ks : List Inl.Node) (pk : String × NType) (inLink : Bool),
    wfL false ks = true → (∀ s ∈ segsOfL ks, segOK len (segOf s) = true) → pk.2 ≠ .document → pk.1 ≠ "List" →
    (pk.1 = "CodeSpan" → ks.all isText = true) → (inLink = true → containsLinkL ks = false) →
    semWfL len pk inLink (shapeIs ks)
  | [], _, _, _, _, _, _, _, _ => by simp [shapeIs, semWfL]
  | k :: rest, pk, inLink, hw, hs, hnd, hnl, hcs, hil => by
    simp only [wfL, Bool.and_eq_true] at hw
    simp only [shapeIs, semWfL]
    refine ⟨shapeI_sem len k pk inLink hw.1 (fun s h => hs s (by simp [segsOfL, h])) hnd hnl
      (fun h => (all_isText_head (hcs h)).1) (fun h => ?_),
      shapeIs_sem len rest pk inLink hw.2 (fun s h => hs s (by simp [segsOfL, h])) hnd hnl
      (fun h => (all_isText_head (hcs h)).2) (fun h => ?_)⟩
    · have := hil h; simp only [containsLinkL, Bool.or_eq_false_iff] at this; exact this.1
    · have := hil h; simp only [containsLinkL, Bool.or_eq_false_iff] at this; exact this.2
end

/-! ### block nodes -/

open GM.Blocks in
theorem name_listItem (k : GM.Blocks.Kind) : (k.name == "ListItem") = decide (k = .listItem) := by cases k <;> decide
open GM.Blocks in
theorem name_list (k : GM.Blocks.Kind) : (k.name == "List") = decide (k = .list) := by cases k <;> decide
theorem name_heading (k : GM.Blocks.Kind) : (k.name == "Heading") = decide (k = .heading) := by cases k <;> decide
theorem name_document (k : GM.Blocks.Kind) : (k.name == "Document") = decide (k = .document) := by cases k <;> decide
theorem name_codeSpan (k : GM.Blocks.Kind) : (k.name == "CodeSpan") = false := by cases k <;> decide
theorem name_emphasis (k : GM.Blocks.Kind) : (k.name == "Emphasis") = false := by cases k <;> decide
theorem name_link (k : GM.Blocks.Kind) : (k.name == "Link") = false := by cases k <;> decide
theorem name_public (k : GM.Blocks.Kind) : publicKinds.contains k.name = true := by cases k <;> decide
theorem name_raw (k : GM.Blocks.Kind) : rawBlockKinds.contains k.name = isRawKind k := by cases k <;> decide
theorem ntypeOf_ne_inline (k : GM.Blocks.Kind) : (ntypeOf k == NType.inline) = false := by cases k <;> decide
theorem ntypeOf_doc (k : GM.Blocks.Kind) : ntypeOf k = .document ↔ k = .document := by cases k <;> simp [ntypeOf]

/-- a block's lines increase: each starts at or behind the end of the one before (the shape of `GM.Blocks.OrdFrom`) -/
def ordFrom : Int → List Segment → Prop
  | _, [] => True
  | lo, s :: rest => lo ≤ s.start ∧ ordFrom s.stop rest

theorem linesIncreasing_of_ordFrom : ∀ (l : List Segment) (p : Int), ordFrom p l → linesIncreasing p (l.map segOf) = true
  | [], _, _ => rfl
  | s :: rest, p, h => by
    simp only [ordFrom] at h
    simp only [List.map, linesIncreasing, Bool.and_eq_true, decide_eq_true_eq]
    exact ⟨h.1, linesIncreasing_of_ordFrom rest _ h.2⟩

theorem linesIncreasing_of_chain {hi : Int} : ∀ (l : List Segment) (lo p : Int), chain lo hi l → p ≤ lo →
    linesIncreasing p (l.map segOf) = true
  | [], _, _, _, _ => rfl
  | s :: rest, lo, p, h, hp => by
    simp only [chain] at h
    simp only [List.map, linesIncreasing, Bool.and_eq_true, decide_eq_true_eq]
    exact ⟨by have := h.1; simp only [segOf]; omega, linesIncreasing_of_chain rest s.stop _ h.2.2 (Int.le_refl _)⟩

theorem chain_sublist {hi : Int} : ∀ {l' l : List Segment}, l'.Sublist l → ∀ lo, chain lo hi l → chain lo hi l' := by
  intro l' l hs
  induction hs with
  | slnil => intro lo h; exact h
  | cons a _ ih =>
    intro lo h
    simp only [chain] at h
    exact ih lo (chain_mono (by have := h.1; have := h.2.1; omega) (Int.le_refl _) h.2.2)
  | cons_cons a _ ih =>
    intro lo h
    simp only [chain] at h ⊢
    exact ⟨h.1, h.2.1, ih _ h.2.2⟩

/-- the first line's start / the last line's stop (0 without lines), as `Spec.nodeClause` reads them -/
def loOf (ls : List Segment) : Int := (ls.head?.map (·.start)).getD 0
def hiOf (ls : List Segment) : Int := (ls.getLast?.map (·.stop)).getD 0

/-- what the clauses need of one block node -/
structure BlockP (src : Bytes) (n : GM.Blocks.Node) : Prop where
  head : HeadP n
  lines : ∀ t ∈ n.lines, segInRange src t
  info : n.kind = .fencedCodeBlock → ∀ s, n.info = some s → segInRange src s
  closure : n.kind = .htmlBlock → n.closure.start ≥ 0 → segInRange src n.closure
  ord : ordFrom 0 n.lines
  noLines : (n.kind = .document ∨ n.kind = .list) → n.lines = []

/-- what the clauses need of the inline children of one block -/
structure KidsP (src : Bytes) (n : GM.Blocks.Node) (kids : List Inl.Node) : Prop where
  wf : wfL false kids = true
  range : ∀ s ∈ segsOfL kids, segInRange src s
  inside : segsOfL kids ≠ [] → chain (loOf n.lines) (hiOf n.lines) (segsOfL kids)
  lines : kids ≠ [] → n.lines ≠ []

/-- a ListItem exactly below a List; the root is the Document -/
def ListRel (pk : Option GM.Blocks.Kind) (k : GM.Blocks.Kind) : Prop :=
  match pk with
  | none => k = .document
  | some p => (k = .listItem ↔ p = .list)

mutual
def AOK (src : Bytes) (pk : Option GM.Blocks.Kind) : ATree → Prop
  | .node n bs kids => BlockP src n ∧ KidsP src n kids ∧ ListRel pk n.kind ∧ AOKs src n.kind bs
def AOKs (src : Bytes) (pk : GM.Blocks.Kind) : List ATree → Prop
  | [] => True
  | a :: r => AOK src (some pk) a ∧ AOKs src pk r
end

theorem semWfL_append (len : Nat) (pk : String × NType) (inLink : Bool) : ∀ (a b : List PNode),
    semWfL len pk inLink a → semWfL len pk inLink b → semWfL len pk inLink (a ++ b)
  | [], _, _, hb => hb
  | x :: a, b, ha, hb => by
    simp only [List.cons_append, semWfL] at ha ⊢
    exact ⟨ha.1, semWfL_append len pk inLink a b ha.2 hb⟩

mutual
theorem inlineSegs_shapeB : ∀ a, inlineSegs (shapeB a) = []
  | .node n bs kids => by
    have h1 : (n.kind.name == "Text" || n.kind.name == "RawHTML") = false := by cases n.kind <;> decide
    simp [shapeB, inlineSegs, blockInfo, h1, ntypeOf_ne_inline]
theorem inlineSegsL_shapeBs : ∀ bs, inlineSegsL (shapeBs bs) = []
  | [] => by simp [shapeBs, inlineSegsL]
  | a :: r => by simp [shapeBs, inlineSegsL, inlineSegs_shapeB a, inlineSegsL_shapeBs r]
end

theorem inlineSegsL_append : ∀ (a b : List PNode), inlineSegsL (a ++ b) = inlineSegsL a ++ inlineSegsL b
  | [], _ => by simp [inlineSegsL]
  | x :: a, b => by simp [inlineSegsL, inlineSegsL_append a b]

theorem xsegsOf_ok {src : Bytes} {n : GM.Blocks.Node} (h : BlockP src n) : (xsegsOf n).all (segOK src.length) = true := by
  unfold xsegsOf
  split
  · rename_i hk
    split
    · rename_i s hs
      simp [segOK_of_inRange (h.info hk s hs)]
    · simp
  · rename_i hk
    split
    · rename_i hc
      simp [segOK_of_inRange (h.closure hk hc)]
    · simp
  · simp

theorem head_map_segOf (ls : List Segment) :
    (((ls.map segOf).head?.map (fun (s : Seg) => s.start)).getD 0) = loOf ls := by
  cases ls <;> simp [loOf, segOf]

theorem last_map_segOf (ls : List Segment) :
    (((ls.map segOf).getLast?.map (fun (s : Seg) => s.stop)).getD 0) = hiOf ls := by
  unfold hiOf
  rw [List.getLast?_map]
  cases ls.getLast? <;> simp [segOf]

/-- `SemNode` of a block node -/
theorem semNode_block (src : Bytes) (pk : Option GM.Blocks.Kind) (n : GM.Blocks.Node) (bs : List ATree)
    (kids : List Inl.Node) (hb : BlockP src n) (hk : KidsP src n kids) (hr : ListRel pk n.kind) :
    SemNode src.length (pk.map fun k => (k.name, ntypeOf k)) false (blockInfo n) (shapeBs bs ++ shapeIs kids) where
  pub := name_public _
  root := fun h => by
    cases pk with
    | none => simp only [ListRel] at hr; simp [blockInfo, hr, GM.Blocks.Kind.name]
    | some p => cases h
  blockBelowInline := fun p hp => by
    cases pk with
    | none => cases hp
    | some q => cases hp; simp [ntypeOf_ne_inline]
  inlineBelowDoc := fun p _ => by simp [blockInfo, ntypeOf_ne_inline]
  itemOutside := by
    cases pk with
    | none =>
      simp only [ListRel] at hr
      simp [blockInfo, hr, GM.Blocks.Kind.name]
    | some q =>
      simp only [ListRel] at hr
      simp only [Option.map, blockInfo, name_listItem, bne, name_list]
      by_cases h1 : n.kind = .listItem
      · simp [h1, hr.mp h1]
      · simp [h1]
  listChild := fun p hp => by
    cases pk with
    | none => cases hp
    | some q =>
      cases hp
      simp only [ListRel] at hr
      simp only [blockInfo, name_listItem, bne, name_list]
      by_cases h1 : q = .list
      · simp [h1, hr.mpr h1]
      · simp [h1]
  codeSpan := fun p hp => by
    cases pk with
    | none => cases hp
    | some q => cases hp; simp [name_codeSpan]
  heading := by
    simp only [blockInfo, name_heading]
    by_cases h1 : n.kind = .heading
    · have := hb.head h1
      simp [h1, this.1, this.2]
    · simp [h1]
  emphasis := by simp [blockInfo, name_emphasis]
  link := by simp [blockInfo]
  segs := by
    have h1 : (n.lines.map segOf).all (segOK src.length) = true := by
      rw [List.all_eq_true]
      intro x hx
      obtain ⟨t, ht, rfl⟩ := List.mem_map.mp hx
      exact segOK_of_inRange (hb.lines t ht)
    simp [blockInfo, h1, xsegsOf_ok hb]
  lines := by simp [blockInfo, linesIncreasing_of_ordFrom _ _ hb.ord]
  inl := fun _ => by
    simp only [blockInfo, inlineSegsL_append, inlineSegsL_shapeBs, List.nil_append, head_map_segOf, last_map_segOf]
    have hsub0 := inlineSegsL_shapeIs_sub kids
    by_cases hkn : segsOfL kids = []
    · rw [hkn] at hsub0
      simp only [List.map_nil, List.sublist_nil] at hsub0
      simp [hsub0, linesIncreasing]
    · have hc := hk.inside hkn
      have hsub : ((inlineSegsL (shapeIs kids)).filter (segOK src.length)).Sublist ((segsOfL kids).map segOf) :=
        List.Sublist.trans List.filter_sublist (inlineSegsL_shapeIs_sub kids)
      obtain ⟨l', hl', e⟩ := List.sublist_map_iff.mp hsub
      have hc' := chain_sublist hl' _ hc
      rw [e]
      have hlo : 0 ≤ loOf n.lines := by
        unfold loOf
        cases hl : n.lines with
        | nil => simp
        | cons t r => simp; exact (hb.lines t (by rw [hl]; simp)).1
      refine ⟨?_, linesIncreasing_of_chain l' _ 0 hc' hlo⟩
      rw [List.all_eq_true]
      intro x hx
      obtain ⟨t, ht, rfl⟩ := List.mem_map.mp hx
      have := GM.E2E.chain_mem hc' t ht
      simp [segOf, this.1, this.2.2]

mutual
theorem shapeB_sem (src : Bytes) : ∀ (a : ATree) (pk : Option GM.Blocks.Kind), AOK src pk a →
    semWf src.length (pk.map fun k => (k.name, ntypeOf k)) false (shapeB a)
  | .node n bs kids, pk, h => by
    simp only [AOK] at h
    obtain ⟨hb, hk, hr, hbs⟩ := h
    simp only [shapeB, semWf]
    refine ⟨semNode_block src pk n bs kids hb hk hr, ?_⟩
    have hl : (false || (blockInfo n).kind == "Link") = false := by simp [blockInfo, name_link]
    rw [hl]
    refine semWfL_append _ _ _ _ _ (shapeBs_sem src bs n.kind hbs) ?_
    by_cases hkn : kids = []
    · subst hkn; simp [shapeIs, semWfL]
    · have hne := hk.lines hkn
      refine shapeIs_sem src.length kids _ false hk.wf (fun s hs => segOK_of_inRange (hk.range s hs)) ?_ ?_ ?_
        (fun h => by cases h)
      · intro h
        have : n.kind = .document := (ntypeOf_doc _).mp h
        exact hne (hb.noLines (.inl this))
      · intro h
        have h' : (n.kind.name == "List") = true := by simpa [blockInfo] using h
        rw [name_list] at h'
        exact hne (hb.noLines (.inr (by simpa using h')))
      · intro h
        have h' : ((blockInfo n).kind == "CodeSpan") = true := by simpa using h
        simp [blockInfo, name_codeSpan] at h'
theorem shapeBs_sem (src : Bytes) : ∀ (bs : List ATree) (pk : GM.Blocks.Kind), AOKs src pk bs →
    semWfL src.length (pk.name, ntypeOf pk) false (shapeBs bs)
  | [], _, _ => by simp [shapeBs, semWfL]
  | a :: r, pk, h => by
    simp only [AOKs] at h
    simp only [shapeBs, semWfL]
    exact ⟨shapeB_sem src a (some pk) h.1, shapeBs_sem src r pk h.2⟩
end

/-- **C05 for the dump of an annotated tree with `AOK`** -/
theorem wfAst_dumpAst (src : Bytes) (a : ATree) (h : AOK src none a) : wfAst src.length (dumpAst a) = none :=
  wfAst_relabel src.length (shapeB a) (shapeB_sem src a none h)

end GM.E2E
