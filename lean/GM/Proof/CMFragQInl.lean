/-
  GM.Proof.CMFragQInl — the inline phase on a paragraph of "good" lines that do NOT follow each other contiguously in
  the source (inside a block quote every line is preceded by its marker): line `j` starts at byte `ps[j]`
  (`LinesAtG`). `parseBlock_linesG`, `wf0B_linesG`, `inlineTrees_linesG`. Core Lean only.
-/
import GM.Proof.CMFrag7Main

namespace GM.Proof.CMFrag
open GM GM.Text GM.Inl

/-- the lines `ls` lie in `src`, line `j` at byte `ps[j]`: every line but the last followed by its line feed -/
def LinesAtG (src : Bytes) : List Nat → List Bytes → Prop
  | [], [] => True
  | [p], [l] => sub src p (p + l.length) = l ∧ p + l.length ≤ src.length
  | p :: p' :: ps, l :: l' :: rest =>
    sub src p (p + l.length + 1) = l ++ [10] ∧ p + l.length + 1 ≤ p' ∧ LinesAtG src (p' :: ps) (l' :: rest)
  | _, _ => False

/-- like `paraSegs`: every line with its line feed, the last one without -/
def paraSegsG : List Nat → List Bytes → List Segment
  | [p], [l] => [{ start := p, stop := p + l.length }]
  | p :: ps, l :: ls => { start := p, stop := p + l.length + 1 } :: paraSegsG ps ls
  | _, _ => []

/-- like `paraKids`: one Text per line, soft line break on all but the last -/
def paraKidsG : List Nat → List Bytes → List GM.Inl.Node
  | [p], [l] => [.text { start := p, stop := p + l.length } false false false]
  | p :: ps, l :: ls => .text { start := p, stop := p + l.length } true false false :: paraKidsG ps ls
  | _, _ => []

/-- where the paragraph's last segment stops -/
def paraEndG : List Nat → List Bytes → Nat
  | [p], [l] => p + l.length
  | _ :: p' :: ps, _ :: l' :: ls => paraEndG (p' :: ps) (l' :: ls)
  | _, _ => 0

/-- the contiguous positions of `paraSegs` -/
def contigG : Nat → List Bytes → List Nat
  | _, [] => []
  | p, l :: rest => p :: contigG (p + l.length + 1) rest

example (p p' : Nat) (ps : List Nat) (l l' : Bytes) (rest : List Bytes) : paraSegsG (p :: p' :: ps) (l :: l' :: rest) =
  { start := (p:Int), stop := (p:Int) + (l.length:Int) + 1 } :: paraSegsG (p' :: ps) (l' :: rest) := rfl
example (p : Nat) (l : Bytes) : paraSegsG [p] [l] = [{ start := (p:Int), stop := (p:Int) + (l.length:Int) }] := rfl

theorem paraSegsG_contigG : ∀ (ls : List Bytes) (p : Nat), paraSegsG (contigG p ls) ls = paraSegs p ls
  | [], _ => rfl
  | [_], _ => rfl
  | l :: l' :: rest, p => by
    have ih := paraSegsG_contigG (l' :: rest) (p + l.length + 1)
    simp only [contigG] at ih
    simp only [contigG, paraSegsG, paraSegs, ih]

theorem paraKidsG_contigG : ∀ (ls : List Bytes) (p : Nat), paraKidsG (contigG p ls) ls = paraKids p ls
  | [], _ => rfl
  | [_], _ => rfl
  | l :: l' :: rest, p => by
    have ih := paraKidsG_contigG (l' :: rest) (p + l.length + 1)
    simp only [contigG] at ih
    simp only [contigG, paraKidsG, paraKids, ih]

theorem linesAtG_contigG {src : Bytes} : ∀ (ls : List Bytes) (p : Nat), LinesAtE src p ls → LinesAtG src (contigG p ls) ls
  | [], _, _ => trivial
  | [_], _, h => h
  | l :: l' :: rest, p, h => ⟨h.1, Nat.le_refl _, linesAtG_contigG (l' :: rest) (p + l.length + 1) h.2.2⟩

/-! ### bounds -/

theorem paraEndG_boundsG {src : Bytes} : ∀ (ls : List Bytes) (ps : List Nat) (p : Nat) (l : Bytes),
    LinesAtG src (p :: ps) (l :: ls) →
    p + l.length ≤ paraEndG (p :: ps) (l :: ls) ∧ paraEndG (p :: ps) (l :: ls) ≤ src.length
  | [], [], p, l, h => ⟨Nat.le_refl _, h.2⟩
  | l' :: ls, p' :: ps, p, l, h => by
    have ih := paraEndG_boundsG ls ps p' l' h.2.2
    have h1 := h.2.1
    simp only [paraEndG]
    omega
  | [], _ :: _, _, _, h => h.elim
  | _ :: _, [], _, _, h => h.elim

theorem paraSegsG_lengthG {src : Bytes} : ∀ (ls : List Bytes) (ps : List Nat), LinesAtG src ps ls →
    (paraSegsG ps ls).length = ls.length
  | [], [], _ => rfl
  | [_], [_], _ => rfl
  | l :: l' :: rest, p :: p' :: ps, h => by
    have ih := paraSegsG_lengthG (l' :: rest) (p' :: ps) h.2.2
    simp only [paraSegsG, List.length_cons] at ih ⊢
    omega
  | [], [_], h => h.elim
  | [], _ :: _ :: _, h => h.elim
  | [_], [], h => h.elim
  | _ :: _ :: _, [], h => h.elim
  | [_], _ :: _ :: _, h => h.elim
  | _ :: _ :: _, [_], h => h.elim

/-! ### the loop -/

theorem loop_quietG (env : Env) (henv : env.escapedSpace = false) (src : Bytes) (segs : List Segment) (L : Int)
    (nid : Nat) (bs : List Bottom) :
    ∀ (ls : List Bytes) (ps : List Nat) (done : List Segment) (ks : List Inl.Node) (fuel : Nat), ls ≠ [] →
      (∀ l ∈ ls, GoodLine l) → LinesAtG src ps ls → segs = done ++ paraSegsG ps ls → L = (paraEndG ps ls : Nat) →
      ls.length + 1 ≤ fuel →
      ∃ rd', lineLoop env fuel false
        { rd := rdAt src segs L done.length ((paraSegsG ps ls).headD default) ((paraSegsG ps ls).headD default).start,
          kids := ks, nextId := nid, bottoms := bs } =
        .ok { rd := rd', kids := ks ++ paraKidsG ps ls, nextId := nid, bottoms := bs }
  | [], _, _, _, _, h, _, _, _, _, _ => absurd rfl h
  | [l], [p], done, ks, fuel, _, hg, hla, hsegs, hL, hf => by
    obtain ⟨l0, c, hl, hs, hb⟩ := good_concat (hg l (by simp))
    obtain ⟨hsub', hlen⟩ := hla
    obtain ⟨f, rfl⟩ : ∃ f, fuel = f + 2 := ⟨fuel - 2, by simp at hf; omega⟩
    have hL' : L = (p : Int) + l.length := by simp [hL, paraEndG]
    subst hL'
    have := last_step env henv src segs done.length p l l0 c ks nid bs f hl hs hb (hg l (by simp)).quiet hsub'
      hlen (by simp [hsegs, paraSegsG])
    exact ⟨_, this⟩
  | l :: l' :: rest, p :: p' :: ps, done, ks, fuel, _, hg, hla, hsegs, hL, hf => by
    obtain ⟨l0, c, hl, hs, hb⟩ := good_concat (hg l (by simp))
    have hbd := paraEndG_boundsG (l' :: rest) (p' :: ps) p l hla
    obtain ⟨hsub, hpp, hla'⟩ := hla
    have hbd' := paraEndG_boundsG rest ps p' l' hla'
    obtain ⟨f, rfl⟩ : ∃ f, fuel = f + 1 := ⟨fuel - 1, by simp at hf; omega⟩
    have hL2 : L = (paraEndG (p' :: ps) (l' :: rest) : Nat) := by rw [hL]; rfl
    have hpL : (p : Int) < L := by omega
    have hlen : p + l.length + 1 ≤ src.length := by omega
    have hsegs' : segs = (done ++ [{ start := (p : Int), stop := (p : Int) + l.length + 1 }]) ++
        paraSegsG (p' :: ps) (l' :: rest) := by
      rw [hsegs]; simp [paraSegsG]
    have hnext : segs[done.length + 1]? = some ((paraSegsG (p' :: ps) (l' :: rest)).headD default) := by
      rw [hsegs']
      rw [List.getElem?_append_right (by simp)]
      simp only [List.length_append, List.length_cons, List.length_nil, Nat.zero_add, Nat.sub_self]
      cases rest <;> cases ps <;> rfl
    have hstep := line_step env henv src segs L done.length p l l0 c _ ks nid bs f hl hs hb (hg l (by simp)).quiet
      hsub hlen hpL hnext
    obtain ⟨rd', ih⟩ := loop_quietG env henv src segs L nid bs (l' :: rest) (p' :: ps)
      (done ++ [{ start := (p : Int), stop := (p : Int) + l.length + 1 }])
      (ks ++ [.text { start := p, stop := (p : Int) + l.length } true false false]) f (by simp)
      (fun x hx => hg x (by simp at hx ⊢; right; exact hx)) hla' hsegs' hL2 (by simp at hf ⊢; omega)
    refine ⟨rd', ?_⟩
    have e1 : (paraSegsG (p :: p' :: ps) (l :: l' :: rest)).headD default =
        { start := (p : Int), stop := (p : Int) + l.length + 1 } := rfl
    rw [e1]
    show lineLoop env (f + 1) false
      { rd := rdAt src segs L done.length { start := (p : Int), stop := (p : Int) + l.length + 1 } p, kids := ks,
        nextId := nid, bottoms := bs } = _
    rw [hstep]
    have e2 : ((done ++ [({ start := (p : Int), stop := (p : Int) + l.length + 1 } : Segment)]).length : Int) = (done.length : Int) + 1 := by
      simp
    rw [e2] at ih
    rw [ih]
    simp [paraKidsG]
  | [_], [], _, _, _, _, _, h, _, _, _ => h.elim
  | [_], _ :: _ :: _, _, _, _, _, _, h, _, _, _ => h.elim
  | _ :: _ :: _, [], _, _, _, _, _, h, _, _, _ => h.elim
  | _ :: _ :: _, [_], _, _, _, _, _, h, _, _, _ => h.elim

theorem paraSegsG_lastG {src : Bytes} : ∀ (ls : List Bytes) (ps : List Nat), ls ≠ [] → LinesAtG src ps ls →
    ∃ s, (paraSegsG ps ls)[(paraSegsG ps ls).length - 1]? = some s ∧ s.stop = (paraEndG ps ls : Nat)
  | [], _, h, _ => absurd rfl h
  | [l], [p], _, _ => ⟨_, rfl, by simp [paraEndG]⟩
  | l :: l' :: rest, p :: p' :: ps, _, h => by
    obtain ⟨s, h1, h2⟩ := paraSegsG_lastG (l' :: rest) (p' :: ps) (by simp) h.2.2
    refine ⟨s, ?_, by rw [h2]; rfl⟩
    have hlen := paraSegsG_lengthG (l' :: rest) (p' :: ps) h.2.2
    have hlen2 := paraSegsG_lengthG (l :: l' :: rest) (p :: p' :: ps) h
    rw [hlen] at h1
    rw [hlen2]
    simp only [paraSegsG]
    simpa using h1
  | [_], [], _, h => h.elim
  | [_], _ :: _ :: _, _, h => h.elim
  | _ :: _ :: _, [], _, h => h.elim
  | _ :: _ :: _, [_], _, h => h.elim

theorem paraSegsG_headG {src : Bytes} (ls : List Bytes) (ps : List Nat) (h : ls ≠ []) (hla : LinesAtG src ps ls) :
    (paraSegsG ps ls)[0]? = some ((paraSegsG ps ls).headD default) := by
  match ls, ps, h, hla with
  | [l], [p], _, _ => rfl
  | l :: l' :: rest, p :: p' :: ps, _, _ => rfl
  | [_], [], _, h => exact h.elim
  | [_], _ :: _ :: _, _, h => exact h.elim
  | _ :: _ :: _, [], _, h => exact h.elim
  | _ :: _ :: _, [_], _, h => exact h.elim

theorem new_paraG {src : Bytes} (ls : List Bytes) (ps : List Nat) (h : ls ≠ []) (hla : LinesAtG src ps ls) :
    BlockReader.new src (paraSegsG ps ls) =
      .ok (rdAt src (paraSegsG ps ls) (paraEndG ps ls : Nat) 0 ((paraSegsG ps ls).headD default)
        ((paraSegsG ps ls).headD default).start) := by
  obtain ⟨s, h1, h2⟩ := paraSegsG_lastG ls ps h hla
  have h3 := paraSegsG_headG ls ps h hla
  rw [new_eq src _ _ s h3 h1, h2]

theorem paraKidsG_textG : ∀ (ls : List Bytes) (ps : List Nat), allText (paraKidsG ps ls)
  | [], [] => trivial
  | [], [_] => trivial
  | [], _ :: _ :: _ => trivial
  | _ :: _, [] => trivial
  | [_], [_] => trivial
  | [_], [_, _] => trivial
  | [_], _ :: _ :: _ :: _ => trivial
  | l :: l' :: rest, p :: ps => by
    have ih := paraKidsG_textG (l' :: rest) ps
    cases ps with
    | nil => exact ih
    | cons p' ps => exact ih

/-- the inline phase on good lines, line `j` at byte `ps[j]` -/
theorem parseBlock_linesG (env : GM.Inl.Env) (henv : env.escapedSpace = false) (src : Bytes) (ps : List Nat)
    (ls : List Bytes) (hne : ls ≠ []) (hg : ∀ l ∈ ls, GoodLine l) (h : LinesAtG src ps ls) :
    GM.Inl.parseBlock env src (paraSegsG ps ls) = .ok (paraKidsG ps ls) := by
  have hfuel : ls.length + 1 ≤ blockFuel src (paraSegsG ps ls) := by
    unfold blockFuel
    rw [paraSegsG_lengthG ls ps h]
    omega
  obtain ⟨rd', h2⟩ := loop_quietG env henv src (paraSegsG ps ls)
    (paraEndG ps ls : Nat) 0 [] ls ps [] [] _ hne hg h rfl rfl hfuel
  unfold parseBlock
  simp only [bind, Except.bind, new_paraG ls ps hne h]
  have h' : lineLoop env (blockFuel src (paraSegsG ps ls)) false
      { rd := rdAt src (paraSegsG ps ls) (paraEndG ps ls : Nat) 0 ((paraSegsG ps ls).headD default)
          ((paraSegsG ps ls).headD default).start } =
      .ok { rd := rd', kids := paraKidsG ps ls, nextId := 0, bottoms := [] } := by
    simpa using h2
  rw [h']
  simp only [processDelimiters_text _ (paraKidsG_textG ls ps), closeLabelsL_text _ (paraKidsG_textG ls ps),
    pure, Except.pure]

/-! ### the reference scan's precondition and the renderer's view -/

theorem wfFrom_linesG {src : Bytes} : ∀ (ls : List Bytes) (ps : List Nat) (lo : Int),
    (∀ p, ps.head? = some p → lo ≤ p) → LinesAtG src ps ls →
    (∀ l ∈ ls, l ≠ []) → GM.LinkRef.wfSegsFromB src lo (paraSegsG ps ls) = true
  | [], [], _, _, _, _ => rfl
  | [l], [p], lo, hlo, h, hne => by
    have hle := h.2
    have hlo := hlo p rfl
    have hl : 0 < l.length := List.length_pos_iff.mpr (hne l (by simp))
    simp only [paraSegsG, GM.LinkRef.wfSegsFromB, Bool.and_eq_true, decide_eq_true_eq, Bool.not_eq_true', Bool.and_true]
    refine ⟨⟨⟨⟨hlo, by omega⟩, by omega⟩, by omega⟩, ?_⟩
    first | trivial | rfl
  | l :: l' :: rest, p :: p' :: ps, lo, hlo, h, hne => by
    have hbd := paraEndG_boundsG rest ps p' l' h.2.2
    have hpp := h.2.1
    have hlo := hlo p rfl
    have ih := wfFrom_linesG (l' :: rest) (p' :: ps) ((p : Int) + (l.length : Int) + 1)
      (by intro q hq; simp at hq; subst hq; omega) h.2.2
      (fun x hx => hne x (by simp [hx]))
    simp only [paraSegsG, GM.LinkRef.wfSegsFromB, Bool.and_eq_true, decide_eq_true_eq, Bool.not_eq_true'] at ih ⊢
    refine ⟨⟨⟨⟨⟨hlo, by omega⟩, by omega⟩, by omega⟩, ?_⟩, ih⟩
    first | trivial | rfl
  | [], [_], _, _, h, _ => h.elim
  | [], _ :: _ :: _, _, _, h, _ => h.elim
  | [_], [], _, _, h, _ => h.elim
  | [_], _ :: _ :: _, _, _, h, _ => h.elim
  | _ :: _ :: _, [], _, _, h, _ => h.elim
  | _ :: _ :: _, [_], _, _, h, _ => h.elim

theorem pad0_paraG : ∀ (ls : List Bytes) (ps : List Nat), GM.LinkRef.pad0B (paraSegsG ps ls) = true
  | [], [] => rfl
  | [], [_] => rfl
  | [], _ :: _ :: _ => rfl
  | _ :: _, [] => rfl
  | [_], [_] => by simp [GM.LinkRef.pad0B, paraSegsG]
  | [_], _ :: _ :: _ => by simp [GM.LinkRef.pad0B, paraSegsG]
  | l :: l' :: rest, p :: ps => by
    have ih := pad0_paraG (l' :: rest) ps
    simp only [GM.LinkRef.pad0B] at ih ⊢
    cases ps with
    | nil => simp [paraSegsG]
    | cons p' ps => simp only [paraSegsG, List.all_cons, ih]; simp

theorem wf0B_linesG {src : Bytes} (ps : List Nat) (ls : List Bytes) (hne : ls ≠ []) (h : LinesAtG src ps ls)
    (hnel : ∀ l ∈ ls, l ≠ []) : GM.LinkRef.wf0B src (paraSegsG ps ls) = true := by
  have h1 := wfFrom_linesG ls ps 0 (by intro p _; omega) h hnel
  have h2 := pad0_paraG ls ps
  have h3 : (paraSegsG ps ls).isEmpty = false := by
    have := paraSegsG_lengthG ls ps h
    cases hs : paraSegsG ps ls with
    | nil =>
      rw [hs] at this
      cases ls with
      | nil => exact absurd rfl hne
      | cons _ _ => simp at this
    | cons _ _ => rfl
  simp [GM.LinkRef.wf0B, GM.LinkRef.wfSegsB, h1, h2, h3]

theorem inlineTrees_linesG {src : Bytes} : ∀ (ps : List Nat) (ls : List Bytes), LinesAtG src ps ls →
    GM.Convert.inlineTrees src (paraKidsG ps ls) = .ok (textNodes ls)
  | [], [], _ => rfl
  | [p], [l], h => by
    simp only [paraKidsG, GM.Convert.inlineTrees, GM.Convert.inlineTree, text_valueE h.1 h.2, bind, Except.bind, pure,
      Except.pure, textNodes]
  | p :: p' :: ps, l :: l' :: rest, h => by
    have ih := inlineTrees_linesG (p' :: ps) (l' :: rest) h.2.2
    have hbd := paraEndG_boundsG rest ps p' l' h.2.2
    have hpp := h.2.1
    have hv := text_valueE (src := src) (p := p) (l := l) (sub_prefix src p l.length l 10 rfl h.1) (by omega)
    simp only [paraKidsG, GM.Convert.inlineTrees, GM.Convert.inlineTree, hv, bind, Except.bind, pure,
      Except.pure, textNodes] at ih ⊢
    rw [ih]
  | [_], [], h => h.elim
  | _ :: _ :: _, [], h => h.elim
  | [], _ :: _, h => h.elim
  | [_], _ :: _ :: _, h => h.elim
  | _ :: _ :: _, [_], h => h.elim

example : GM.Inl.parseBlock {} [62, 32, 97, 98, 10, 62, 32, 99, 100, 10] (paraSegsG [2, 7] [[97, 98], [99, 100]]) =
    .ok [.text { start := 2, stop := 4 } true false false, .text { start := 7, stop := 9 } false false false] := by
  have hg : ∀ l ∈ [[97, 98], [99, 100]], GoodLine l := by
    intro l hl
    simp only [List.mem_cons, List.not_mem_nil, or_false] at hl
    rcases hl with rfl | rfl
    · exact ⟨by simp, by intro c h; simp at h; subst h; decide, by decide, by intro c h; simp at h; subst h; decide,
        by intro c h; simp at h; subst h; decide⟩
    · exact ⟨by simp, by intro c h; simp at h; subst h; decide, by decide, by intro c h; simp at h; subst h; decide,
        by intro c h; simp at h; subst h; decide⟩
  exact parseBlock_linesG {} rfl _ [2, 7] [[97, 98], [99, 100]] (by simp) hg ⟨by decide, by decide, by decide, by decide⟩

end GM.Proof.CMFrag
