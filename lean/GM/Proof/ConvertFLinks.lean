/-
  GM.Proof.ConvertFLinks — every FootnoteLink representation among the inline children that the inline phase with the
  footnote parser returns points at a definition of the list: `linksBelowL refs.length kids` for
  `parseBlockX env (inlineTblF true refs) src lines = .ok kids`. (The inline monitor of `GM.ConvertF.inlineTreeF`, `pre` for a
  FootnoteLink to no definition, is never answered.)

  Proof: the per-node property "every emphasis level that encodes a FootnoteLink position encodes one below `n`" holds of the
  node `parseFootnote` returns (`resolve_sound`), of every leaf, is inherited by wrappers from their children, and the only
  emphasis nodes the default parsers create have level 1 or 2 (`closerStep`: `consume ≥ 1`). It is carried through every
  default inline parser, the byte loop over the trigger table, the final ProcessDelimiters and CloseBlock. The lemmas about
  ProcessDelimiters are those of GM.Proof.InlinesDelims (`NodeInv`, part (b)) with the Emphasis clause restricted to
  levels ≥ 1.
-/
import GM.Proof.InlinesDelims
import GM.Proof.ConvertFShape
import GM.Proof.ConvertFMain

namespace GM.Inl.FLinks
open GM GM.Text GM.Inl GM.Proof.Inlines GM.Proof.InlinesTotal GM.Proof.InlinesDelims GM.ConvertF

/-- a property of nodes that ProcessDelimiters cannot break (GM.Proof.InlinesDelims.NodeInv; an Emphasis node it builds has
    level `consume ≥ 1`) -/
structure NodeInv1 (Q : Node → Prop) : Prop where
  text : ∀ s a b c, Q (.text s a b c)
  emph : ∀ c ks, 1 ≤ c → (∀ k ∈ ks, Q k) → Q (.emphasis c ks)
  cons : ∀ id d n, Q (.delim id d) → Q (.delim id (d.consume n))

variable {Q : Node → Prop}

theorem mergeOrAppend_allQ1 (I : NodeInv1 Q) {l : List Node} {s : Segment} (h : allQ Q l) : allQ Q (mergeOrAppend l s) := by
  unfold mergeOrAppend
  split
  · split
    · exact allQ_append.mpr ⟨allQ_dropLast h, allQ_single.mpr (I.text _ _ _ _)⟩
    · exact allQ_append.mpr ⟨h, allQ_single.mpr (I.text _ _ _ _)⟩
  · exact allQ_append.mpr ⟨h, allQ_single.mpr (I.text _ _ _ _)⟩

theorem removeDelim_allQ1 (I : NodeInv1 Q) {l : List Node} {d : Delim} (h : allQ Q l) : allQ Q (removeDelim l d) := by
  unfold removeDelim; split
  · exact mergeOrAppend_allQ1 I h
  · exact h

theorem clearInner_allQ1 (I : NodeInv1 Q) {acc mid : List Node} (ha : allQ Q acc) (hm : allQ Q mid) :
    allQ Q (clearInner acc mid) := by
  induction mid generalizing acc with
  | nil => simpa [clearInner] using ha
  | cons n rest ih =>
    have hh := allQ_cons.mp hm
    cases n with
    | delim id d => simp only [clearInner]; exact ih (removeDelim_allQ1 I ha) hh.2
    | _ => simp only [clearInner]; exact ih (allQ_append.mpr ⟨ha, allQ_single.mpr hh.1⟩) hh.2

theorem clearRev_allQ1 (I : NodeInv1 Q) (b : Bottom) {l : List Node} (h : allQ Q l) : allQ Q (clearRev b l) := by
  induction l with
  | nil => simpa [clearRev] using h
  | cons n rest ih =>
    have hh := allQ_cons.mp h
    have ihr := ih hh.2
    cases n with
    | delim id d =>
      simp only [clearRev]
      split
      · exact h
      · split
        · split
          · split
            · rename_i heq _
              rw [heq] at ihr
              exact allQ_cons.mpr ⟨I.text _ _ _ _, (allQ_cons.mp ihr).2⟩
            · exact allQ_cons.mpr ⟨I.text _ _ _ _, ihr⟩
          · exact allQ_cons.mpr ⟨I.text _ _ _ _, ihr⟩
        · exact ihr
    | _ => simp only [clearRev]; exact allQ_cons.mpr ⟨hh.1, ihr⟩

theorem clearDelimiters_allQ1 (I : NodeInv1 Q) (b : Bottom) {kids : List Node} (h : allQ Q kids) :
    allQ Q (clearDelimiters b kids) := by
  unfold clearDelimiters
  split
  · exact h
  · rename_i pre id d post heq
    rw [splitLastDelim_eq heq] at h
    have h1 := allQ_append.mp h
    have h2 := allQ_cons.mp h1.2
    refine allQ_append.mpr ⟨allQ_reverse.mpr (clearRev_allQ1 I b ?_), h2.2⟩
    exact allQ_cons.mpr ⟨h2.1, allQ_reverse.mpr h1.1⟩

theorem advanceCloser_allQ1 {pre post : List Node} (hp : allQ Q pre) (hq : allQ Q post) :
    allQ Q (wholeOf (advanceCloser pre post)) := by
  rw [advanceCloser_whole]; exact allQ_append.mpr ⟨hp, hq⟩

theorem closerStep_allQ1 (I : NodeInv1 Q) {b : Bottom} {pre post : List Node} {cid : Nat} {cd : Delim}
    (hp : allQ Q pre) (hcd : Q (.delim cid cd)) (hq : allQ Q post) :
    allQ Q (wholeOf (closerStep b pre cid cd post)) := by
  have hc1 : allQ Q (pre ++ [.delim cid cd]) := allQ_append.mpr ⟨hp, allQ_single.mpr hcd⟩
  unfold closerStep
  split
  · exact allQ_nil
  · split
    · exact advanceCloser_allQ1 hc1 hq
    · split
      · apply advanceCloser_allQ1 _ hq
        split
        · exact removeDelim_allQ1 I hp
        · exact hc1
      · rename_i p1 oid od mid consume m hf
        have e := findOpener_eq b cd _ _ _ hf
        simp only [List.reverse_reverse, List.append_nil] at e
        rw [e] at hp
        have f1 := (allQ_append.mp hp).1
        have f2 := allQ_cons.mp (allQ_append.mp hp).2
        split
        · exact allQ_nil
        · simp only
          have hpre' : allQ Q ((if ((od.consume consume).length == 0) = true then p1
              else p1 ++ [Node.delim oid (od.consume consume)]) ++ [Node.emphasis consume (clearInner [] mid)]) := by
            refine allQ_append.mpr ⟨?_, allQ_single.mpr (I.emph _ _ (by omega) (clearInner_allQ1 I allQ_nil f2.2))⟩
            split
            · exact f1
            · exact allQ_append.mpr ⟨f1, allQ_single.mpr (I.cons _ _ _ f2.1)⟩
          split
          · exact advanceCloser_allQ1 hpre' hq
          · simp only [wholeOf]
            exact allQ_append.mpr ⟨hpre', allQ_cons.mpr ⟨I.cons _ _ _ hcd, hq⟩⟩

theorem closerLoop_allQ1 (I : NodeInv1 Q) (b : Bottom) (pre : List Node) (cid : Nat) (cd : Delim) (post : List Node) :
    ∀ {res : List Node}, closerLoop b pre cid cd post = .ok res → allQ Q pre → Q (.delim cid cd) → allQ Q post →
    allQ Q res := by
  fun_induction closerLoop b pre cid cd post with
  | case1 pre cid cd post kids hs =>
    intro res h hp hcd hq
    simp at h; subst h
    have := closerStep_allQ1 I (b := b) hp hcd hq
    rw [hs] at this
    exact this
  | case2 => intro res h; simp at h
  | case3 pre cid cd post pre' cid' cd' post' hs ih =>
    intro res h hp hcd hq
    have := closerStep_allQ1 I (b := b) hp hcd hq
    rw [hs] at this
    simp only [wholeOf] at this
    have h1 := allQ_append.mp this
    have h2 := allQ_cons.mp h1.2
    exact ih h h1.1 h2.1 h2.2

theorem processDelimiters_allQ1 (I : NodeInv1 Q) {b : Bottom} {kids res : List Node}
    (h : processDelimiters b kids = .ok res) (hk : allQ Q kids) : allQ Q res := by
  unfold processDelimiters at h
  split at h
  · simp at h; subst h; exact hk
  · simp only at h
    split at h
    · simp at h; subst h; exact clearDelimiters_allQ1 I b hk
    · split at h
      · simp at h
      · rename_i pre cd post hs
        split at h
        · rename_i kids' hl
          simp at h; subst h
          have e := splitAtDelim_eq hs
          rw [e] at hk
          have h1 := allQ_append.mp hk
          have h2 := allQ_cons.mp h1.2
          exact clearDelimiters_allQ1 I b (closerLoop_allQ1 I _ _ _ _ _ hl h1.1 h2.1 h2.2)
        · simp at h

/-! ### (c) a bottom that is not there: every delimiter is cleared -/

/-! ### the property -/

/-- every emphasis level of the subtree that encodes a FootnoteLink position encodes one below `n` -/
def LB (n : Nat) (x : Node) : Prop := linksBelow n x = true

theorem linksBelowL_iff (n : Nat) : ∀ l : List Node, linksBelowL n l = true ↔ allQ (LB n) l
  | [] => by simp [linksBelowL, allQ]
  | x :: rest => by
    simp only [linksBelowL, Bool.and_eq_true, linksBelowL_iff n rest]
    exact (allQ_cons (Q := LB n)).symm

theorem lb_text (n : Nat) (s : Segment) (a b c : Bool) : LB n (.text s a b c) := by simp [LB, linksBelow]
theorem lb_delim (n : Nat) (id : Nat) (d : Delim) : LB n (.delim id d) := by simp [LB, linksBelow]
theorem lb_label (n : Nat) (id : Nat) (s : Segment) (im : Bool) : LB n (.label id s im) := by simp [LB, linksBelow]
theorem lb_autoLink (n : Nat) (e : Bool) (s : Segment) : LB n (.autoLink e s) := by simp [LB, linksBelow]
theorem lb_rawHTML (n : Nat) (s : List Segment) : LB n (.rawHTML s) := by simp [LB, linksBelow]
theorem lb_codeSpan (n : Nat) {ks : List Node} (h : allQ (LB n) ks) : LB n (.codeSpan ks) := by
  simp only [LB, linksBelow]; exact (linksBelowL_iff n ks).2 h
theorem lb_link (n : Nat) (im : Bool) (d : Bytes) (t : Option Bytes) {ks : List Node} (h : allQ (LB n) ks) :
    LB n (.link im d t ks) := by
  simp only [LB, linksBelow]; exact (linksBelowL_iff n ks).2 h
theorem lb_emph (n : Nat) (c : Int) {ks : List Node} (hc : 1 ≤ c) (h : allQ (LB n) ks) : LB n (.emphasis c ks) := by
  have : fnLinkPos? c = none := by unfold fnLinkPos?; rw [if_neg (by omega)]
  simp only [LB, linksBelow, this, Bool.true_and]; exact (linksBelowL_iff n ks).2 h

theorem lb_inv (n : Nat) : NodeInv1 (LB n) where
  text := lb_text n
  emph := fun c ks hc h => lb_emph n c hc h
  cons := fun id d _ _ => lb_delim n id _

/-- the node `parseFootnote` answers -/
theorem lb_fnLink (n k : Nat) (h : k < n) : LB n (fnLinkNode k) := by
  have : fnLinkPos? (-(3 + (k : Int))) = some k := by
    unfold fnLinkPos?
    rw [if_pos (by omega)]
    congr 1
    omega
  simp [LB, fnLinkNode, linksBelow, this, linksBelowL, h]

open GM.Proof.ConvertX in
mutual
theorem lvOK_lb (n : Nat) : ∀ x : Node, lvOK x = true → LB n x
  | .text .., _ => lb_text n ..
  | .codeSpan ks, h => by simp only [lvOK] at h; exact lb_codeSpan n (lvOKL_lb n ks h)
  | .emphasis lv ks, h => by
    simp only [lvOK, Bool.and_eq_true, decide_eq_true_eq] at h
    exact lb_emph n lv h.1 (lvOKL_lb n ks h.2)
  | .link _ _ _ ks, h => by simp only [lvOK] at h; exact lb_link n _ _ _ (lvOKL_lb n ks h)
  | .autoLink .., _ => lb_autoLink n ..
  | .rawHTML .., _ => lb_rawHTML n ..
  | .delim .., _ => lb_delim n ..
  | .label .., _ => lb_label n ..
theorem lvOKL_lb (n : Nat) : ∀ l : List Node, lvOKL l = true → allQ (LB n) l
  | [], _ => allQ_nil
  | x :: rest, h => by
    simp only [lvOKL, Bool.and_eq_true] at h
    exact allQ_cons.mpr ⟨lvOK_lb n x h.1, lvOKL_lb n rest h.2⟩
end

/-- a node the default parsers may append -/
theorem top_lb (n : Nat) {x : Node} (h : top x = true) : LB n x := by
  unfold top at h
  cases x with
  | delim id d => exact lb_delim n id d
  | _ => exact lvOK_lb n _ (GM.Proof.ConvertX.wf_lvOK true _ (by simpa [Node.isDelim] using h))

/-! ### the link parser -/

variable {n : Nat}

theorem processLinkLabel_lb {st st' : St} {post : List Node} (h : processLinkLabel st = .ok (post, st'))
    (hk : allQ (LB n) st.kids) : allQ (LB n) st'.kids ∧ allQ (LB n) post := by
  unfold processLinkLabel at h
  simp only [popBottom_kids] at h
  split at h
  · contradiction
  · split at h
    · contradiction
    · split at h
      · contradiction
      · rename_i kids hp
        have hk' := processDelimiters_allQ1 (lb_inv n) hp hk
        split at h
        · contradiction
        · rename_i pre lid lseg im po hs
          split at h
          · contradiction
          · simp at h; obtain ⟨rfl, rfl⟩ := h
            have e := splitLastLabel_eq hs
            rw [e] at hk'
            have h1 := allQ_append.mp hk'
            have h2 := allQ_cons.mp h1.2
            exact ⟨allQ_append.mpr ⟨h1.1, allQ_single.mpr (lb_label n _ _ _)⟩, h2.2⟩

/-- what a link parse hands back -/
def LinkResL (n : Nat) (res : Option LinkInfo) (st' : St) : Prop :=
  allQ (LB n) st'.kids ∧ ∀ info, res = some info → allQ (LB n) info.kids

theorem linkResL_fail {st' : St} (hk : allQ (LB n) st'.kids) : LinkResL n none st' :=
  ⟨hk, by intro info hi; simp at hi⟩

theorem linkResL_ok {st st' : St} {post : List Node} {d : Bytes} {t : Option Bytes}
    (h : processLinkLabel st = .ok (post, st')) (hk : allQ (LB n) st.kids) :
    LinkResL n (some { dest := d, title := t, kids := post }) st' := by
  obtain ⟨a1, a2⟩ := processLinkLabel_lb h hk
  refine ⟨a1, ?_⟩
  intro info hi
  simp at hi; subst hi
  exact a2

theorem parseLinkInline_lb {st st' : St} {res : Option LinkInfo}
    (h : parseLinkInline st = .ok (res, st')) (hk : allQ (LB n) st.kids) : LinkResL n res st' := by
  unfold parseLinkInline at h
  mpaths h
  all_goals first
    | (obtain ⟨rfl, rfl⟩ := h; exact linkResL_fail hk)
    | (rename_i v heq
       obtain ⟨rfl, rfl⟩ := h
       exact linkResL_ok (st := { st with rd := _ }) heq hk)

theorem parseReferenceLink_lb {env : Env} {st st' : St} {lseg : Segment} {res : Option LinkInfo} {hv : Bool}
    (h : parseReferenceLink env st lseg = .ok ((res, hv), st')) (hk : allQ (LB n) st.kids) : LinkResL n res st' := by
  unfold parseReferenceLink at h
  mpaths h
  all_goals first
    | (obtain ⟨⟨rfl, _⟩, rfl⟩ := h; exact linkResL_fail hk)
    | (rename_i v heq
       obtain ⟨⟨rfl, _⟩, rfl⟩ := h
       exact linkResL_ok (st := { st with rd := _ }) heq hk)

/-- the invariant a parser call keeps -/
def POK (n : Nat) (r : Option Node × St) : Prop := allQ (LB n) r.2.kids ∧ ∀ x, r.1 = some x → LB n x

theorem linkFail_lb {pre post : List Node} {lseg : Segment} {st : St} {r : Option Node × St}
    (h : linkFail pre lseg post st = .ok r) (q1 : allQ (LB n) pre) (q3 : allQ (LB n) post) : POK n r := by
  unfold linkFail at h
  simp at h; subst h
  exact ⟨allQ_append.mpr ⟨mergeOrAppend_allQ1 (lb_inv n) q1, q3⟩, by simp⟩

theorem linkDone_lb {isImage : Bool} {info : LinkInfo} {st : St} {r : Option Node × St}
    (h : linkDone isImage info st = .ok r) (hk : allQ (LB n) st.kids) (hi : allQ (LB n) info.kids) : POK n r := by
  unfold linkDone at h
  simp at h; subst h
  exact ⟨allQ_dropLast hk, by intro x hx; simp at hx; subst hx; exact lb_link n _ _ _ hi⟩

theorem linkShortcut_lb {env : Env} {st : St} {lseg segment pos : Segment} {l : Int} {isImage : Bool}
    {pre post : List Node} {r : Option Node × St}
    (h : linkShortcut env st lseg segment l pos isImage pre post = .ok r)
    (hk : allQ (LB n) st.kids) (q1 : allQ (LB n) pre) (q3 : allQ (LB n) post) : POK n r := by
  unfold linkShortcut at h
  simp only [bind, Except.bind, pure, Except.pure] at h
  split at h
  · contradiction
  · split at h
    · contradiction
    · split at h
      · exact linkFail_lb h q1 q3
      · split at h
        · exact linkFail_lb h q1 q3
        · split at h
          · contradiction
          · rename_i v hv
            obtain ⟨a1, a2⟩ := processLinkLabel_lb (st := { st with rd := _ }) hv hk
            exact linkDone_lb h a1 a2

theorem linkTry_lb {env : Env} {st st' : St} {lseg : Segment} {c : UInt8} {link : Option LinkInfo}
    {hv : Bool} (h : linkTry env st lseg c = .ok (link, hv, st')) (hk : allQ (LB n) st.kids) :
    LinkResL n link st' := by
  unfold linkTry at h
  split at h
  · split at h
    · rename_i l s hl
      simp at h; obtain ⟨rfl, _, rfl⟩ := h
      exact parseLinkInline_lb hl hk
    · contradiction
  · split at h
    · split at h
      · rename_i l v s hl
        simp at h; obtain ⟨rfl, _, rfl⟩ := h
        exact parseReferenceLink_lb hl hk
      · contradiction
    · simp at h; obtain ⟨rfl, _, rfl⟩ := h
      exact linkResL_fail hk

theorem parseLinkClose_lb {env : Env} {st : St} {segment : Segment} {r : Option Node × St}
    (h : parseLinkClose env st segment = .ok r) (hk : allQ (LB n) st.kids) : POK n r := by
  unfold parseLinkClose at h
  split at h
  · simp at h; subst h; exact ⟨hk, by simp⟩
  · rename_i pre lid lseg isImage post hs
    have e := splitLastLabel_eq hs
    have hk0 := hk
    rw [e] at hk
    have q1 := (allQ_append.mp hk).1
    have q3 := (allQ_cons.mp (allQ_append.mp hk).2).2
    simp only [bind, Except.bind, pure, Except.pure] at h
    split at h
    · contradiction
    · rename_i rd hadv
      split at h
      · exact linkFail_lb h q1 q3
      · split at h
        · exact linkFail_lb h q1 q3
        · split at h
          · contradiction
          · split at h
            · contradiction
            · rename_i v hv
              obtain ⟨t1, t3⟩ := linkTry_lb (n := n) (st := { st with rd := rd }) (link := v.1) (hv := v.2.1) (st' := v.2.2) hv
                (by simpa using hk0)
              split at h
              · rename_i info hi
                exact linkDone_lb h t1 (t3 info hi)
              · split at h
                · exact linkFail_lb h q1 q3
                · exact linkShortcut_lb h t1 q1 q3

theorem labelOpen_lb {st : St} {pos : Int} {im : Bool} {r : Option Node × St}
    (h : labelOpen st pos im = .ok r) (hk : allQ (LB n) st.kids) : POK n r := by
  unfold labelOpen at h
  mpaths h
  all_goals (subst h; exact ⟨hk, by intro x hx; simp at hx; subst hx; exact lb_label n _ _ _⟩)

theorem parseLink_lb {env : Env} {st : St} {r : Option Node × St}
    (h : parseLink env st = .ok r) (hk : allQ (LB n) st.kids) : POK n r := by
  unfold parseLink at h
  simp only [bind, Except.bind, pure, Except.pure, throw, throwThe, MonadExceptOf.throw] at h
  split at h
  · contradiction
  · split at h
    · contradiction
    · split at h
      · split at h
        · split at h
          · contradiction
          · exact labelOpen_lb (st := pushBottom _) h (by rw [pushBottom_kids]; exact hk)
        · simp at h; subst h; exact ⟨hk, by simp⟩
      · split at h
        · exact labelOpen_lb (st := pushBottom _) h (by rw [pushBottom_kids]; exact hk)
        · exact parseLinkClose_lb (st := { st with rd := _ }) h hk

/-! ### the loop over the trigger table with the footnote parser -/

theorem liftR_lb {st : St} {x : RRes} {r : Option Node × St} (h : liftR st x = .ok r)
    (hk : allQ (LB n) st.kids) (hn : ∀ y rd, x = .ok (some y, rd) → top y = true) : POK n r := by
  unfold liftR at h
  split at h
  · rename_i y rd
    simp at h; subst h
    exact ⟨hk, by intro m hm; simp at hm; subst hm; exact top_lb n (hn _ _ rfl)⟩
  · contradiction

theorem ipParse_lb {env : Env} {ip : Ip} {st : St} {r : Option Node × St}
    (h : ip.parse env st = .ok r) (hk : allQ (LB n) st.kids) : POK n r := by
  cases ip with
  | codeSpan => exact liftR_lb h hk (fun _ _ e => parseCodeSpan_top e)
  | link => exact parseLink_lb h hk
  | autoLink => exact liftR_lb h hk (fun _ _ e => parseAutoLink_top e)
  | rawHTML => exact liftR_lb h hk (fun _ _ e => parseRawHTML_top e)
  | emphasis => exact liftR_lb (st := { st with nextId := _ }) h hk (fun _ _ e => parseEmphasis_top e)

theorem resolve_lt (rs : List Bytes) (v : Bytes) (k : Nat) (h : resolve rs v 0 = some k) : k < rs.length := by
  obtain ⟨j, hj, hg, _⟩ := resolve_sound rs v 0 k h
  have : j < rs.length := by
    cases hlt : decide (j < rs.length) with
    | true => simpa using hlt
    | false =>
      have : rs.length ≤ j := by simpa using hlt
      rw [List.getElem?_eq_none this] at hg
      cases hg
  omega

/-- the footnote parser: the node it answers points at a definition of `refs`; it appends at most a Text -/
theorem parseFootnote_lb (refs : Option (List Bytes)) (env : Env) (st : St) (r : Option Node × St)
    (hr : parseFootnote refs env st = .ok r) (hk : allQ (LB (refs.getD []).length) st.kids) :
    POK (refs.getD []).length r := by
  unfold parseFootnote at hr
  simp only [bind, Except.bind, pure, Except.pure] at hr
  cases hpl : st.rd.peekLine with
  | error e => rw [hpl] at hr; cases hr
  | ok pl =>
    obtain ⟨⟨line, segment⟩, rd⟩ := pl
    rw [hpl] at hr
    simp only [] at hr
    repeat' split at hr
    all_goals first
      | (cases hr; refine ⟨hk, ?_⟩; intro x hx; cases hx; done)
      | (cases hr
         refine ⟨?_, ?_⟩
         · first
             | exact hk
             | exact allQ_append.mpr ⟨hk, allQ_single.mpr (lb_text _ _ _ _ _)⟩
             | (dsimp only; split
                · exact allQ_append.mpr ⟨hk, allQ_single.mpr (lb_text _ _ _ _ _)⟩
                · exact hk)
         · intro x hx
           simp only [Option.some.injEq] at hx
           subst hx
           exact lb_fnLink _ _ (resolve_lt _ _ _ (by assumption)))
      | cases hr

/-- every parser of the table keeps the invariant -/
def TblOK (n : Nat) (env : Env) (ips : List XIp) : Prop :=
  ∀ ip ∈ ips, ∀ (st : St) (r : Option Node × St), ip.parse env st = .ok r → allQ (LB n) st.kids → POK n r

theorem tblOK_inlineTblF (on : Bool) (refs : Option (List Bytes)) (env : Env) (b : UInt8) :
    TblOK (refs.getD []).length env (inlineTblF on refs b) := by
  have hb : TblOK (refs.getD []).length env (baseTbl b) := by
    intro ip hip st r h hk
    unfold baseTbl at hip
    obtain ⟨ip0, _, rfl⟩ := List.mem_map.1 hip
    exact ipParse_lb (ip := ip0) h hk
  unfold inlineTblF
  split
  · intro ip hip st r h hk
    rcases List.mem_cons.1 hip with rfl | hip
    · exact parseFootnote_lb refs env st r h hk
    · exact hb ip hip st r h hk
  · exact hb

theorem tryParsersX_lb {env : Env} {sl : Int} {sp : Segment} :
    ∀ (ips : List XIp) {st : St} {r : Option Node × St}, TblOK n env ips →
    tryParsersX env sl sp ips st = .ok r → allQ (LB n) st.kids → POK n r := by
  intro ips
  induction ips with
  | nil => intro st r _ h hk; simp [tryParsersX, pure, Except.pure] at h; subst h; exact ⟨hk, by simp⟩
  | cons ip rest ih =>
    intro st r ht h hk
    simp only [tryParsersX, bind, Except.bind, pure, Except.pure] at h
    split at h
    · contradiction
    · rename_i v hv
      have := ht ip (List.mem_cons_self ..) st v hv hk
      split at h
      · rename_i y hy
        simp at h; subst h
        exact ⟨this.1, by intro m hm; simp at hm; subst hm; exact this.2 _ hy⟩
      · split at h
        · contradiction
        · exact ih (st := { v.2 with rd := _ }) (fun q hq => ht q (List.mem_cons_of_mem _ hq)) h this.1

theorem triggerX_lb {env : Env} {ips : List XIp} {i : Nat} {s : Inl.Scan} {r : Sum St Inl.Scan} (ht : TblOK n env ips)
    (h : triggerX env ips i s = .ok r) (hk : allQ (LB n) s.st.kids) :
    (match r with | .inl st => allQ (LB n) st.kids | .inr s' => allQ (LB n) s'.st.kids) := by
  unfold triggerX at h
  obtain ⟨rd, _, h⟩ := bind_ok h
  obtain ⟨ks, hks, h⟩ := bind_ok h
  obtain ⟨w, hw, h⟩ := bind_ok h
  have hkids : allQ (LB n) ks.1 := by
    split at hks
    · cases hb : s.sp.between rd.position.2 with
      | error e => rw [hb] at hks; simp [Except.map] at hks
      | ok seg => rw [hb] at hks; simp [Except.map] at hks; subst hks; exact mergeOrAppend_allQ1 (lb_inv n) hk
    · simp [pure, Except.pure] at hks; subst hks; exact hk
  have := tryParsersX_lb _ (st := { s.st with rd := _, kids := _ }) ht hw hkids
  split at h
  · rename_i nd hnd
    simp [pure, Except.pure] at h; subst h
    exact allQ_append.mpr ⟨this.1, allQ_single.mpr (this.2 _ hnd)⟩
  · simp [pure, Except.pure] at h; subst h; exact this.1

theorem scanX_lb {env : Env} {tbl : UInt8 → List XIp} (ht : ∀ b, TblOK n env (tbl b)) :
    ∀ (bs : Bytes) (i : Nat) (s : Inl.Scan) {res : ScanRes}, scanX env tbl bs i s = .ok res → allQ (LB n) s.st.kids →
    (match res with | .hit st _ => allQ (LB n) st.kids | .eol s' => allQ (LB n) s'.st.kids) := by
  intro bs
  induction bs with
  | nil => intro i s res h hk; simp [scanX, pure, Except.pure] at h; subst h; exact hk
  | cons c cs ih =>
    intro i s res h hk
    simp only [scanX] at h
    split at h
    · simp [pure, Except.pure] at h; subst h; exact hk
    · split at h
      · split at h
        · rename_i st hts
          simp [pure, Except.pure] at h; subst h
          exact triggerX_lb (ht _) hts hk
        · rename_i s' hts
          exact ih _ _ h (by rw [bump_st]; exact triggerX_lb (ht _) hts hk)
        · contradiction
      · exact ih _ _ h (by rw [bump_st]; exact hk)

theorem eolText_lb {src : Bytes} {flags : Nat} {diff : Segment} {kids : List Node} {r : Segment × List Node}
    (h : eolText src flags diff kids = .ok r) (hk : allQ (LB n) kids) : allQ (LB n) r.2 := by
  unfold eolText at h
  split at h
  · simp [pure, Except.pure] at h; subst h; exact hk
  · obtain ⟨seg, _, h⟩ := bind_ok h
    split at h
    · split at h
      · split at h
        · obtain ⟨t', _, h⟩ := bind_ok h
          simp [pure, Except.pure] at h; subst h
          exact allQ_append.mpr ⟨allQ_dropLast hk, allQ_single.mpr (lb_text n _ _ _ _)⟩
        · simp [pure, Except.pure] at h; subst h; exact hk
      · simp [pure, Except.pure] at h; subst h; exact hk
    · simp [pure, Except.pure] at h; subst h; exact hk

theorem endOfLine_lb {flags : Nat} {l : Int} {s : Inl.Scan} {st' : St} (h : endOfLine flags l s = .ok st')
    (hk : allQ (LB n) s.st.kids) : allQ (LB n) st'.kids := by
  unfold endOfLine at h
  obtain ⟨rd, _, h⟩ := bind_ok h
  dsimp only at h
  split at h
  · simp [pure, Except.pure] at h; subst h; exact hk
  · obtain ⟨diff, _, h⟩ := bind_ok h
    obtain ⟨tk, htk, h⟩ := bind_ok h
    obtain ⟨rd', _, h⟩ := bind_ok h
    simp [pure, Except.pure] at h; subst h
    exact allQ_append.mpr ⟨eolText_lb htk hk, allQ_single.mpr (lb_text n _ _ _ _)⟩

theorem lineLoopX_lb {env : Env} {tbl : UInt8 → List XIp} (ht : ∀ b, TblOK n env (tbl b)) :
    ∀ (fuel : Nat) (esc : Bool) (st : St) {st' : St}, lineLoopX env tbl fuel esc st = .ok st' → allQ (LB n) st.kids →
    allQ (LB n) st'.kids := by
  intro fuel
  induction fuel with
  | zero => intro esc st st' h; simp [lineLoopX] at h
  | succ f ih =>
    intro esc st st' h hk
    simp only [lineLoopX] at h
    obtain ⟨pl, _, h⟩ := bind_ok h
    split at h
    · simp [pure, Except.pure] at h; subst h; exact hk
    · split at h
      · simp [throw, throwThe, MonadExceptOf.throw] at h
      · obtain ⟨r, hr, h⟩ := bind_ok h
        have hs := scanX_lb ht _ _ _ hr (by exact hk)
        split at h
        · exact ih _ _ h hs
        · obtain ⟨st2, h2, h⟩ := bind_ok h
          exact ih _ _ h (endOfLine_lb h2 hs)

mutual
theorem closeLabels_lb (n : Nat) : ∀ x : Node, LB n x → LB n (closeLabels x)
  | .text .., h => by simpa [closeLabels] using h
  | .codeSpan ks, h => by
    simp only [closeLabels]
    exact lb_codeSpan n (closeLabelsL_lb n ks ((linksBelowL_iff n ks).1 (by simpa [LB, linksBelow] using h)))
  | .emphasis lv ks, h => by
    simp only [LB, linksBelow, Bool.and_eq_true] at h
    simp only [closeLabels, LB, linksBelow, Bool.and_eq_true]
    exact ⟨h.1, (linksBelowL_iff n _).2 (closeLabelsL_lb n ks ((linksBelowL_iff n ks).1 h.2))⟩
  | .link _ _ _ ks, h => by
    simp only [closeLabels]
    exact lb_link n _ _ _ (closeLabelsL_lb n ks ((linksBelowL_iff n ks).1 (by simpa [LB, linksBelow] using h)))
  | .autoLink .., h => by simpa [closeLabels] using h
  | .rawHTML .., h => by simpa [closeLabels] using h
  | .delim .., h => by simpa [closeLabels] using h
  | .label .., _ => by simp only [closeLabels]; exact lb_text n ..
theorem closeLabelsL_lb (n : Nat) : ∀ l : List Node, allQ (LB n) l → allQ (LB n) (closeLabelsL l)
  | [], _ => by simpa [closeLabelsL] using (allQ_nil (Q := LB n))
  | x :: rest, h => by
    simp only [closeLabelsL]
    exact allQ_cons.mpr ⟨closeLabels_lb n x (allQ_cons.mp h).1, closeLabelsL_lb n rest (allQ_cons.mp h).2⟩
end

/-- **every FootnoteLink representation the inline phase returns points at a definition of the list** -/
theorem parseBlockX_linksBelow (env : Env) (src : Bytes) (refs : Option (List Bytes)) (lines : List Segment) (kids : List Node)
    (h : parseBlockX env (inlineTblF true refs) src lines = .ok kids) : linksBelowL (refs.getD []).length kids = true := by
  unfold parseBlockX at h
  obtain ⟨rd, _, h⟩ := bind_ok h
  obtain ⟨st, hst, h⟩ := bind_ok h
  obtain ⟨ks, hks, h⟩ := bind_ok h
  simp [pure, Except.pure] at h; subst h
  have h1 := lineLoopX_lb (n := (refs.getD []).length) (fun b => tblOK_inlineTblF true refs env b) _ _ _ hst
    (by intro x hx; cases hx)
  exact (linksBelowL_iff _ _).2 (closeLabelsL_lb _ _ (processDelimiters_allQ1 (lb_inv _) hks h1))

end GM.Inl.FLinks
