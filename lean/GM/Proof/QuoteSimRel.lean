/-
  GM.Proof.QuoteSimRel — the simulation relation `SR` between the state of run A (on `src`) and of run B (on
  `quotePrefix src`) while both work inside line `k`, and the model's primitives related under it.

  * readers: `R3` (GM.Proof.QuoteSimCalc);
  * node stores: B has one node more — its Document `0`; A's node `i` is B's node `i+1` (A's Document is B's
    Blockquote `1`), ids inside nodes are shifted by one, every segment is moved by the markers in front of its
    line (`SegRel`, which is `shiftSeg`); `HasBlankPreviousLines` is NOT related (see GM.Props.C08);
  * contexts: the same keys (node ids shifted), B's `openedBlocks` is A's with the Blockquote block in front.
-/
import GM.Proof.QuoteSimCalc

namespace GM.Blocks
open GM GM.Text GM.Spec GM.Proof.Reader

/-! ### segments, nodes, stores -/

/-- `t` is `s` moved by the markers of the line `k` that `s` lies in. (For a non-empty `s` this is
    `shiftSeg src s`: `segRel_shiftSeg`. An EMPTY segment standing exactly behind the `\n` of line `k` also
    satisfies the bounds; it is moved like line `k`, whereas `shiftSeg` would move it like line `k+1`.) -/
def SegRel (src : Bytes) (s t : Segment) : Prop :=
  ∃ k ls, LineAt src k ls ∧ (ls : Int) ≤ s.start ∧ s.start ≤ s.stop ∧ s.stop ≤ lineEnd src ls ∧ t = shK k s

def SegsRel (src : Bytes) : List Segment → List Segment → Prop
  | [], [] => True
  | a :: as, b :: bs => SegRel src a b ∧ SegsRel src as bs
  | _, _ => False

def InfoRel (src : Bytes) : Option Segment → Option Segment → Prop
  | none, none => True
  | some a, some b => SegRel src a b
  | _, _ => False

def ClosRel (src : Bytes) (a b : Segment) : Prop := (a.start < 0 ∧ b = a) ∨ SegRel src a b

theorem SegsRel.append {src} : ∀ {as bs : List Segment} {a b : Segment}, SegsRel src as bs → SegRel src a b →
    SegsRel src (as ++ [a]) (bs ++ [b])
  | [], [], _, _, _, h => ⟨h, trivial⟩
  | _ :: _, _ :: _, _, _, ⟨h1, h2⟩, h => ⟨h1, SegsRel.append h2 h⟩
  | [], _ :: _, _, _, h, _ => h.elim
  | _ :: _, [], _, _, h, _ => h.elim

theorem SegsRel.length {src} : ∀ {as bs : List Segment}, SegsRel src as bs → bs.length = as.length
  | [], [], _ => rfl
  | _ :: _, _ :: _, ⟨_, h2⟩ => by simp [SegsRel.length h2]
  | [], _ :: _, h => h.elim
  | _ :: _, [], h => h.elim

/-- the sources for which the relation also relates `HasBlankPreviousLines` (of every node but A's Document / B's
    Blockquote): no line of the source is blank. Then every call of `openBlocks` gets the same flag in both runs: the
    calls below an opened container ask `isBlankLine` one level deeper in the prefixed run and the statistics are
    shifted accordingly, and the calls for children of the Document (where the levels are NOT shifted) answer `false`
    in both runs because the line before is not blank. (With blank lines the flags of the Document's children differ.) -/
def FL (src : Bytes) : Prop := ∀ k ls, LineAt src k ls → isBlank (sub src ls (lineEnd src ls)) = false

/-- the raw block kinds (`IsRaw()`: CodeBlock, FencedCodeBlock, HTMLBlock) — `GM.Proof.BlocksWF0.isRaw` -/
def rawK : Kind → Bool
  | .codeBlock | .fencedCodeBlock | .htmlBlock => true
  | _ => false

/-- node `a` of store A and the node `b` of store B that stands for it; `root`: `a` is A's Document, `b` is
    B's Blockquote. The last three fields are unary facts about `a`: a RAW block has no empty line segment (for the
    other kinds GM.Props.Wf0.inline_segments_nonempty says so about every run), an info / closure segment is not empty. -/
structure NodeRel (src : Bytes) (root : Bool) (a b : Node) : Prop where
  kind : if root then b.kind = .blockquote ∧ a.kind = .document else b.kind = a.kind
  parent : if root then b.parent = some 0 ∧ a.parent = none else b.parent = a.parent.map (· + 1)
  children : b.children = a.children.map (· + 1)
  lines : SegsRel src a.lines b.lines
  linesNil : b.linesNil = a.linesNil
  level : b.level = a.level
  marker : b.marker = a.marker
  start : b.start = a.start
  tight : b.tight = a.tight
  offset : b.offset = a.offset
  htmlType : b.htmlType = a.htmlType
  info : InfoRel src a.info b.info
  closure : ClosRel src a.closure b.closure
  rawNE : rawK a.kind = true → ∀ l ∈ a.lines, l.start < l.stop
  infoNE : ∀ i, a.info = some i → i.start < i.stop
  closNE : 0 ≤ a.closure.start → a.closure.start < a.closure.stop
  blank : FL src → root = false → b.blankPrev = a.blankPrev

theorem nodeRel_default (src : Bytes) : NodeRel src false (default : Node) (default : Node) := by
  refine ⟨rfl, rfl, rfl, trivial, rfl, rfl, rfl, rfl, rfl, rfl, rfl, trivial, .inl ⟨by decide, rfl⟩,
    (fun _ l hl => by cases hl), (fun i hi => by cases hi), (fun h => absurd h (by decide)), (fun _ _ => rfl)⟩

/-- a freshly built node without lines -/
theorem nodeRel_new (src : Bytes) (n : Node) (h1 : n.parent = none) (h2 : n.children = []) (h3 : n.lines = [])
    (h4 : n.info = none) (h5 : n.closure.start < 0) : NodeRel src false n n := by
  refine ⟨rfl, by simp [h1], by simp [h2], by rw [h3]; trivial, rfl, rfl, rfl, rfl, rfl, rfl, rfl, by rw [h4]; trivial,
    .inl ⟨h5, rfl⟩, (fun _ l hl => by rw [h3] at hl; cases hl), (fun i hi => by rw [h4] at hi; cases hi),
    (fun h => by omega), (fun _ _ => rfl)⟩

structure StoreRel (src : Bytes) (nA nB : List Node) : Prop where
  len : nB.length = nA.length + 1
  pos : 0 < nA.length
  doc : (nB.getD 0 default).kind = .document ∧ (nB.getD 0 default).children = [1]
  node : ∀ i, NodeRel src (i == 0) (nA.getD i default) (nB.getD (i + 1) default)
  /-- B's Document is never touched again after the Blockquote was appended to it -/
  doc0 : nB.getD 0 default = { kind := .document, children := [1] }

/-! ### contexts -/

def shB (b : Block) : Block := { b with node := b.node + 1 }
def bqBlock : Block := { node := 1, bp := .blockquote }
def shF (f : FenceData) : FenceData := { f with node := f.node + 1 }

structure CtxRel (a b : Ctx) : Prop where
  blockOffset : b.blockOffset = a.blockOffset
  blockIndent : b.blockIndent = a.blockIndent
  opened : b.opened = bqBlock :: a.opened.map shB
  tmpPara : b.tmpPara = a.tmpPara.map (· + 1)
  fence : b.fence = a.fence.map shF
  skipList : b.skipList = a.skipList
  emptyItemBlank : b.emptyItemBlank = a.emptyItemBlank

/-- the last opened block of A and of B -/
def LastRel (a b : Option Block) : Prop :=
  (a = none ∧ b = some bqBlock) ∨ ∃ x, a = some x ∧ b = some (shB x)

theorem CtxRel.last {a b : Ctx} (h : CtxRel a b) : LastRel a.opened.getLast? b.opened.getLast? := by
  rw [h.opened]
  cases ho : a.opened.getLast? with
  | none =>
    have : a.opened = [] := List.getLast?_eq_none_iff.mp ho
    rw [this]; exact .inl ⟨rfl, rfl⟩
  | some x =>
    refine .inr ⟨x, rfl, ?_⟩
    rw [List.getLast?_cons, List.getLast?_map, ho]; rfl

/-! ### the state relation inside line `k` -/

structure SR (src : Bytes) (k ls p : Nat) (sA sB : St) : Prop where
  r : R3 src k ls p sA.r sB.r
  n : StoreRel src sA.nodes sB.nodes
  c : CtxRel sA.pc sB.pc

/-! ### reader primitives -/

theorem peekLine_s2 {src k ls p} {sA sB : St} (h : SR src k ls p sA sB) :
    S2 (fun a b sA' sB' => a = (viewA src ls p, segA src ls p) ∧ b = (viewA src ls p, shK k (segA src ls p)) ∧
        SR src k ls p sA' sB') (peekLine sA) (peekLine sB) := by
  obtain ⟨rA, h1, h2⟩ := ri_peekLine h.r.a
  obtain ⟨rB, h3, h4⟩ := ri_peekLine h.r.b
  unfold GM.Blocks.peekLine
  rw [h1, h3, view_A h.r.inl, view_B h.r.inl, seg_A h.r.inl, seg_B h.r.inl]
  exact S2.ok ⟨rfl, rfl, ⟨⟨h.r.tf, h.r.inl, h2, h4⟩, h.n, h.c⟩⟩

theorem lineOffset_s2 {src k ls p} {sA sB : St} (h : SR src k ls p sA sB) :
    S2 (fun a b sA' sB' => (p < src.length → a = (p : Int) - ls ∧ b = (p : Int) - ls + 2) ∧
        SR src k ls p sA' sB') (lineOffset sA) (lineOffset sB) := by
  obtain ⟨vA, rA, h1, h2, h2'⟩ := ri_lineOffset h.r.a
  obtain ⟨vB, rB, h3, h4, h4'⟩ := ri_lineOffset h.r.b
  unfold GM.Blocks.lineOffset
  rw [h1, h3]
  refine S2.ok ⟨fun hp => ?_, ⟨⟨h.r.tf, h.r.inl, h2, h4⟩, h.n, h.c⟩⟩
  have hq : p + 2 * (k + 1) < (quotePrefix src).length := by
    have := qp_length_ge h.r.inl.line
    have := h.r.inl.lt_iff.mp hp
    omega
  rw [h2' hp, h4' hq, loVal_A h.r.tf h.r.inl hp, loVal_B h.r.tf h.r.inl hp]
  exact ⟨rfl, rfl⟩

theorem advance_s2 {src k ls p} {sA sB : St} (h : SR src k ls p sA sB) {n m : Int} (hm : m = n) (hn : 0 ≤ n)
    (h' : InL src k ls (p + n.toNat)) :
    S2 (fun _ _ sA' sB' => SR src k ls (p + n.toNat) sA' sB') (advance n sA) (advance m sB) := by
  subst hm
  obtain ⟨rA, h1, h2⟩ := ri_advance h.r.a hn
  obtain ⟨rB, h3, h4⟩ := ri_advance h.r.b hn
  unfold GM.Blocks.advance
  rw [h1, h3]
  rw [advN_inl h.r.inl _ h'] at h2
  rw [advN_inl_q h.r.inl _ h'] at h4
  exact S2.ok ⟨⟨h.r.tf, h', h2, h4⟩, h.n, h.c⟩

theorem advPadCur_zero (src : Bytes) (n pd : Int) (c : RCur) (hpd : pd ≤ 0) :
    advPadCur src n pd c = RCur.advN src n.toNat c := by
  unfold advPadCur
  simp only
  rw [if_neg (by omega)]

theorem advanceAndSetPadding_s2 {src k ls p} {sA sB : St} (h : SR src k ls p sA sB) {n m pd pd' : Int} (hm : m = n)
    (hpd' : pd' = pd) (hn : 0 ≤ n) (hpd : pd ≤ 0) (h' : InL src k ls (p + n.toNat)) :
    S2 (fun _ _ sA' sB' => SR src k ls (p + n.toNat) sA' sB')
      (advanceAndSetPadding n pd sA) (advanceAndSetPadding m pd' sB) := by
  rw [hm, hpd']
  obtain ⟨rA, h1, h2⟩ := ri_advanceAndSetPadding h.r.a hn pd
  obtain ⟨rB, h3, h4⟩ := ri_advanceAndSetPadding h.r.b hn pd
  unfold GM.Blocks.advanceAndSetPadding
  rw [h1, h3]
  rw [advPadCur_zero _ _ _ _ hpd, advN_inl h.r.inl _ h'] at h2
  rw [advPadCur_zero _ _ _ _ hpd, advN_inl_q h.r.inl _ h'] at h4
  exact S2.ok ⟨⟨h.r.tf, h', h2, h4⟩, h.n, h.c⟩

theorem position_s2 {src k ls p} {sA sB : St} (h : SR src k ls p sA sB) :
    S2 (fun a b sA' sB' => a = ((k : Int), segA src ls p) ∧ b = ((k : Int), shK k (segA src ls p)) ∧
        SR src k ls p sA' sB') (position sA) (position sB) := by
  unfold GM.Blocks.position Reader.position
  have e1 := h.r.a.pos
  have e2 := h.r.b.pos
  have l1 := h.r.a.abs.line
  have l2 := h.r.b.abs.line
  simp only [clearLo] at l1 l2
  have s1 := seg_A h.r.inl
  have s2 := seg_B h.r.inl
  simp only [RCur.seg] at s1 s2
  refine S2.ok ⟨?_, ?_, h⟩
  · rw [e1, l1]; simp only [Prod.mk.injEq, true_and]; rw [← s1]
  · rw [e2, l2]; simp only [Prod.mk.injEq, true_and]; rw [← s2]

theorem source_s2 {src k ls p} {sA sB : St} (h : SR src k ls p sA sB) :
    S2 (fun a b sA' sB' => a = src ∧ b = quotePrefix src ∧ SR src k ls p sA' sB') (source sA) (source sB) := by
  unfold GM.Blocks.source
  exact S2.ok ⟨h.r.a.source, h.r.b.source, h⟩

/-! ### node store and context primitives -/

theorem getNode_s2 {src k ls p} {sA sB : St} (h : SR src k ls p sA sB) (id : Nat) :
    S2 (fun a b sA' sB' => NodeRel src (id == 0) a b ∧ SR src k ls p sA' sB') (getNode id sA) (getNode (id + 1) sB) := by
  unfold getNode
  exact S2.ok ⟨h.n.node id, h⟩

theorem getD_set_ne {α} (l : List α) (i j : Nat) (a d : α) (h : i ≠ j) : (l.set i a).getD j d = l.getD j d := by
  simp [List.getD_eq_getElem?_getD, List.getElem?_set, h]

theorem getD_set_eq {α} (l : List α) (i : Nat) (a d : α) (h : i < l.length) : (l.set i a).getD i d = a := by
  simp [List.getD_eq_getElem?_getD, List.getElem?_set, h]

theorem set_ge {α} (l : List α) (i : Nat) (a : α) (h : l.length ≤ i) : l.set i a = l := by
  apply List.ext_getElem?
  intro j
  rw [List.getElem?_set]
  split
  · next e => subst e; rw [if_neg (by omega)]; simp [List.getElem?_eq_none h]
  · rfl

theorem StoreRel.set {src} {nA nB : List Node} (h : StoreRel src nA nB) (id : Nat) {a b : Node}
    (hab : NodeRel src (id == 0) a b) : StoreRel src (nA.set id a) (nB.set (id + 1) b) := by
  refine ⟨by simp [h.len], by simp [h.pos], ?_, fun i => ?_, ?_⟩
  rotate_left 2
  · rw [getD_set_ne _ _ _ _ _ (by omega)]; exact h.doc0
  · rw [getD_set_ne _ _ _ _ _ (by omega)]; exact h.doc
  · by_cases hi : i = id
    · subst hi
      by_cases hlt : i < nA.length
      · rw [getD_set_eq _ _ _ _ hlt, getD_set_eq _ _ _ _ (by rw [h.len]; omega)]; exact hab
      · rw [set_ge _ _ _ (by omega), set_ge _ _ _ (by rw [h.len]; omega)]; exact h.node i
    · rw [getD_set_ne _ _ _ _ _ (Ne.symm hi), getD_set_ne _ _ _ _ _ (by omega)]; exact h.node i

theorem modNode_s2 {src k ls p} {sA sB : St} (h : SR src k ls p sA sB) (id : Nat) (fA fB : Node → Node)
    (hf : ∀ a b, NodeRel src (id == 0) a b → NodeRel src (id == 0) (fA a) (fB b)) :
    S2 (fun _ _ sA' sB' => SR src k ls p sA' sB') (modNode id fA sA) (modNode (id + 1) fB sB) := by
  unfold modNode
  exact S2.ok ⟨h.r, h.n.set id (hf _ _ (h.n.node id)), h.c⟩

/-- `modNode` where the functions need to be related only on the two nodes they are applied to -/
theorem modNode_s2' {src k ls p} {sA sB : St} (h : SR src k ls p sA sB) (id : Nat) (fA fB : Node → Node)
    (hf : NodeRel src (id == 0) (sA.nodes.getD id default) (sB.nodes.getD (id + 1) default) →
      NodeRel src (id == 0) (fA (sA.nodes.getD id default)) (fB (sB.nodes.getD (id + 1) default))) :
    S2 (fun _ _ sA' sB' => SR src k ls p sA' sB') (modNode id fA sA) (modNode (id + 1) fB sB) := by
  unfold modNode
  exact S2.ok ⟨h.r, h.n.set id (hf (h.n.node id)), h.c⟩

theorem getD_append_lt {α} (l : List α) (x d : α) (i : Nat) (h : i ≠ l.length) : (l ++ [x]).getD i d = l.getD i d := by
  simp only [List.getD_eq_getElem?_getD]
  rcases Nat.lt_or_ge i l.length with h1 | h1
  · rw [List.getElem?_append_left h1]
  · rw [List.getElem?_eq_none (by simp; omega), List.getElem?_eq_none h1]

theorem getD_append_eq {α} (l : List α) (x d : α) : (l ++ [x]).getD l.length d = x := by
  simp [List.getD_eq_getElem?_getD]

theorem newNode_s2 {src k ls p} {sA sB : St} (h : SR src k ls p sA sB) (nA nB : Node) (hn : NodeRel src false nA nB) :
    S2 (fun a b sA' sB' => a = sA.nodes.length ∧ b = a + 1 ∧ a ≠ 0 ∧ SR src k ls p sA' sB')
      (newNode nA sA) (newNode nB sB) := by
  unfold newNode
  have hpos := h.n.pos
  refine S2.ok ⟨rfl, h.n.len, by omega, h.r, ⟨by simp [h.n.len], by simp, ?_, fun i => ?_, ?_⟩, h.c⟩
  rotate_left 2
  · rw [getD_append_lt _ _ _ _ (by rw [h.n.len]; omega)]; exact h.n.doc0
  · rw [getD_append_lt _ _ _ _ (by rw [h.n.len]; omega)]; exact h.n.doc
  · by_cases hi : i = sA.nodes.length
    · subst hi
      have e : sA.nodes.length + 1 = sB.nodes.length := h.n.len.symm
      rw [getD_append_eq, e, getD_append_eq]
      have : (sA.nodes.length == 0) = false := beq_eq_false_iff_ne.mpr (by omega)
      rw [this]; exact hn
    · rw [getD_append_lt _ _ _ _ hi, getD_append_lt _ _ _ _ (by rw [h.n.len]; omega)]; exact h.n.node i

/-- `newNode_s2`, with the fact that A's new node is the given one -/
theorem newNode_s2k {src k ls p} {sA sB : St} (h : SR src k ls p sA sB) (nA nB : Node) (hn : NodeRel src false nA nB) :
    S2 (fun a b sA' sB' => a = sA.nodes.length ∧ b = a + 1 ∧ a ≠ 0 ∧ SR src k ls p sA' sB' ∧
        sA'.nodes.getD a default = nA)
      (newNode nA sA) (newNode nB sB) := by
  intro a sA' e
  obtain ⟨b, sB', e2, h1, h2, h3, h4⟩ := newNode_s2 h nA nB hn a sA' e
  refine ⟨b, sB', e2, h1, h2, h3, h4, ?_⟩
  unfold newNode at e
  cases e
  exact getD_append_eq _ _ _

theorem getPc_s2 {src k ls p} {sA sB : St} (h : SR src k ls p sA sB) :
    S2 (fun a b sA' sB' => a = sA.pc ∧ b = sB.pc ∧ CtxRel a b ∧ sA' = sA ∧ sB' = sB) (getPc sA) (getPc sB) := by
  unfold getPc
  exact S2.ok ⟨rfl, rfl, h.c, rfl, rfl⟩

theorem modPc_s2 {src k ls p} {sA sB : St} (h : SR src k ls p sA sB) (fA fB : Ctx → Ctx)
    (hf : ∀ a b, CtxRel a b → CtxRel (fA a) (fB b)) :
    S2 (fun _ _ sA' sB' => SR src k ls p sA' sB') (modPc fA sA) (modPc fB sB) := by
  unfold modPc
  exact S2.ok ⟨h.r, h.n, hf _ _ h.c⟩

theorem lastOpenedBlock_s2 {src k ls p} {sA sB : St} (h : SR src k ls p sA sB) :
    S2 (fun a b sA' sB' => LastRel a b ∧ a = sA.pc.opened.getLast? ∧ sA' = sA ∧ sB' = sB)
      (lastOpenedBlock sA) (lastOpenedBlock sB) := by
  unfold lastOpenedBlock
  refine S2.bind (getPc_s2 h) (fun a b sA' sB' hq => ?_)
  obtain ⟨ha, hb, hc, h1, h2⟩ := hq
  subst ha hb h1 h2
  exact S2.pure ⟨hc.last, rfl, rfl, rfl⟩

end GM.Blocks
