/-
  GM.Proof.BlocksNoPanic — the contracts of the eight list-free block parsers put together: for every source in
  which no byte triggers the list parsers (no `-`, `*`, `+`, no digit) the block phase ends normally.
-/
import GM.Proof.BlocksDriver
import GM.Proof.BlocksSpecCode
import GM.Proof.BlocksSpecFenced
import GM.Proof.BlocksSpecHtml

namespace GM.Blocks
open GM GM.Text GM.Spec GM.Proof.Reader

/-- the parsers other than list and list item -/
def NotList (bp : BP) : Prop := bp ≠ .list ∧ bp ≠ .listItem

/-- no byte of the source triggers `listParser` / `listItemParser` -/
def ListFree (src : Bytes) : Prop := ∀ b ∈ src, b ≠ 45 ∧ b ≠ 42 ∧ b ≠ 43 ∧ isNumeric b = false

instance (src : Bytes) : Decidable (ListFree src) := by unfold ListFree; infer_instance

theorem specs_notList (src : Bytes) : Specs src NotList where
  opn := by
    intro bp h
    cases bp
    · exact setextOpen_spec src
    · exact thematicOpen_spec src
    · exact absurd rfl h.1
    · exact absurd rfl h.2
    · exact codeOpen_spec src
    · exact atxOpen_spec src
    · exact fencedOpen_spec src
    · exact blockquoteOpen_spec src
    · exact htmlOpen_spec src
    · exact paragraphOpen_spec src
  cont := by
    intro bp h
    cases bp
    · exact setextContinue_spec src
    · exact thematicContinue_spec src
    · exact absurd rfl h.1
    · exact absurd rfl h.2
    · exact codeContinue_spec src
    · exact atxContinue_spec src
    · exact fencedContinue_spec src
    · exact blockquoteContinue_spec src
    · exact htmlContinue_spec src
    · exact paragraphContinue_spec src
  close := by
    intro bp h
    cases bp
    · exact setextClose_spec src
    · exact thematicClose_spec src
    · exact absurd rfl h.1
    · exact absurd rfl h.2
    · exact codeClose_spec src
    · exact atxClose_spec src
    · exact fencedClose_spec src
    · exact blockquoteClose_spec src
    · exact htmlClose_spec src
    · exact paragraphClose_spec src
  paraCont := fun _ node s c h hpad hn hk hb => paragraphContinue_spec' src node s c h hpad hn hk hb

theorem triggered_notList (src : Bytes) (hsrc : ListFree src) :
    ∀ ch ∈ src, ∀ bps, triggered ch = some bps → ∀ bp ∈ bps, NotList bp := by
  intro ch hch bps htr bp hbp
  obtain ⟨h1, h2, h3, h4⟩ := hsrc ch hch
  unfold triggered at htr
  have e1 : (ch == 45) = false := by simpa using h1
  have e2 : (ch == 42) = false := by simpa using h2
  have e3 : (ch == 43) = false := by simpa using h3
  simp only [e1, e2, e3, h4, Bool.false_eq_true, if_false, Bool.or_self] at htr
  unfold NotList
  repeat' split at htr
  all_goals first
    | (cases htr; simp [freeParsers] at hbp; rcases hbp with h | h | h <;> subst h <;> decide)
    | (cases htr; simp [freeParsers] at hbp; rcases hbp with h | h <;> subst h <;> decide)
    | cases htr

theorem free_notList : ∀ bp ∈ freeParsers, NotList bp := by
  intro bp hbp
  simp [freeParsers] at hbp
  rcases hbp with h | h <;> subst h <;> unfold NotList <;> decide

/-- no panic, no contract-monitor failure, and every line segment of every node inside the source, for list-free sources -/
theorem run_ok_listFree (src : Bytes) (hsrc : ListFree src) : ∃ s, run src = .ok s ∧ NodesOK src s := by
  rcases run_okl (specs_notList src) (triggered_notList src hsrc) free_notList with h | h
  · exact h
  · exact absurd h (run_noLoop src)

end GM.Blocks
