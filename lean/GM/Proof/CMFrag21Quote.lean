/-
  GM.Proof.CMFrag21Quote — stage 21 inside `k` nested block quotes (over `SimOK`: any class of quotesim2), and the same
  for stage 13 and stage 6 with the wider class `C08ClassG`.
-/
import GM.Proof.CMFrag21Main

namespace GM.Proof.CMFrag
open GM GM.Text GM.Blocks GM.Spec

theorem repDT_f (H : F21InlG) (env : GM.Inl.Env) (henv : env.escapedSpace = false) (b : FBlock21) (h : FGood b) :
    RepDT env (fraw b) (fNode b) := by
  cases b with
  | para ls =>
    exact repDT_para env (ls.map flineSrc21) (by simpa using h.1) (flines_blk21 ls h.2.1) (fNodes ls)
      (H env henv ls h.1 h.2.1 h.2.2)
  | atx level l =>
    have hok : FLinesOK [⟨l, false⟩] := ⟨by simpa using h.2.2.1, by simp⟩
    have hin := f21InlG_paraDTG H env henv [⟨l, false⟩] (by simp) hok h.2.2.2.2
    have e1 : [(⟨l, false⟩ : FLine21)].map flineSrc21 = [flineSrc l] := by simp [flineSrc21]
    rw [e1] at hin
    exact repDT_atx env level (flineSrc l) (frichLine_blk h.2.2.1) _ hin
  | hr x => exact repDT_hr env x
  | fence fc n info ls => exact repDT_fence env fc n info ls
  | icode ls => exact fun _ _ h _ => h.elim

theorem repL_f (H : F21InlG) (env : GM.Inl.Env) (henv : env.escapedSpace = false) :
    ∀ (bs : List FBlock21), (∀ b ∈ bs, FGood b) → RelL (RepDT env) (bs.map fraw) (bs.map fNode)
  | [], _ => trivial
  | b :: rest, h => ⟨repDT_f H env henv b (h b (by simp)), repL_f H env henv rest (fun x hx => h x (by simp [hx]))⟩

/-- stage 21 inside `k` nested block quotes -/
theorem convert_nest21 (HB : BPFree) (H : F21InlG) (uc : List (Nat × (Bool × Bool))) (items : List (Nat × FBlock21))
    (trail : Nat) (hgood : ∀ it ∈ items, FGood it.2) (hseps : SepsOK6 none (items.map fun it => (it.1, fraw it.2)))
    (hnoic : ∀ it ∈ items, it.2.isIc = false)
    (hsim : ∀ k, SimOK (qpN k (rawDoc6 (items.map fun it => (it.1, fraw it.2)) trail)))
    (hnb : ∀ b ∈ rawDoc6 (items.map fun it => (it.1, fraw it.2)) trail, b ≠ 91) (k : Nat) (html : Bytes)
    (hr : GM.Convert.renderDoc cmOpts (nestNodeN k (items.map fun it => fNode it.2)) = .ok html) :
    GM.Convert.convertCore uc cmOpts (qpN k (rawDoc6 (items.map fun it => (it.1, fraw it.2)) trail)) = .ok html := by
  refine convert_nest_genS HB uc _ trail ?_ hseps (fitems_noic items hnoic) ?_ hsim hnb k _ html ?_ hr
  · intro x hx
    obtain ⟨it, hit, rfl⟩ := List.mem_map.mp hx
    exact good5_fraw it.2 (hgood it hit)
  · intro x hx
    obtain ⟨it, hit, rfl⟩ := List.mem_map.mp hx
    exact fraw_noNl it.2 (hgood it hit)
  · intro env henv
    have := repL_f H env henv (items.map (·.2)) (fun b hb => by
      obtain ⟨it, hit, rfl⟩ := List.mem_map.mp hb
      exact hgood it hit)
    simpa [List.map_map, Function.comp_def] using this

/-- stage 13 inside `k` nested block quotes, over `SimOK` -/
theorem convert_nest13S (HB : BPFree) (H : U13InlG) (uc : List (Nat × (Bool × Bool))) (items : List (Nat × UBlock))
    (trail : Nat) (hgood : ∀ it ∈ items, UGood it.2) (hseps : SepsOK6 none (items.map fun it => (it.1, uraw it.2)))
    (hnoic : ∀ it ∈ items, it.2.isIc = false)
    (hsim : ∀ k, SimOK (qpN k (rawDoc6 (items.map fun it => (it.1, uraw it.2)) trail)))
    (hnb : ∀ b ∈ rawDoc6 (items.map fun it => (it.1, uraw it.2)) trail, b ≠ 91) (k : Nat) (html : Bytes)
    (hr : GM.Convert.renderDoc cmOpts (nestNodeN k (items.map fun it => uNode it.2)) = .ok html) :
    GM.Convert.convertCore uc cmOpts (qpN k (rawDoc6 (items.map fun it => (it.1, uraw it.2)) trail)) = .ok html := by
  refine convert_nest_genS HB uc _ trail ?_ hseps (uitems_noic items hnoic) ?_ hsim hnb k _ html ?_ hr
  · intro x hx
    obtain ⟨it, hit, rfl⟩ := List.mem_map.mp hx
    exact good5_uraw it.2 (hgood it hit)
  · intro x hx
    obtain ⟨it, hit, rfl⟩ := List.mem_map.mp hx
    exact uraw_noNl it.2 (hgood it hit)
  · intro env henv
    have := repL_u H env henv (items.map (·.2)) (fun b hb => by
      obtain ⟨it, hit, rfl⟩ := List.mem_map.mp hb
      exact hgood it hit)
    simpa [List.map_map, Function.comp_def] using this

end GM.Proof.CMFrag
