/-
  GM.Proof.BlocksSpecList — the list parser (list.go): the pure recognisers `parseListItem` / `matchesListItem` /
  `calcListOffset` / `matchesSetextHeadingBar` with the bounds every list lemma needs, then `listOpen`, `listContinue`
  (total, with what list_item.go relies on) and `listClose_spec : CloseSpec src .list`.
-/
import GM.Proof.BlocksSpecCode
namespace GM.Blocks
open GM GM.Text GM.Spec GM.Proof.Reader

/-! ### list helpers -/

theorem drop_eq_cons_getElem? {α} {l : List α} {k : Nat} {c : α} {cs : List α} (h : l.drop k = c :: cs) :
    l[k]? = some c ∧ k < l.length := by
  have h1 : (l.drop k)[0]? = some c := by rw [h]; rfl
  rw [List.getElem?_drop] at h1
  have h2 : l[k]? = some c := by simpa using h1
  refine ⟨h2, ?_⟩
  rcases Nat.lt_or_ge k l.length with hh | hh
  · exact hh
  · rw [List.getElem?_eq_none hh] at h2; cases h2

theorem takeWhile_getElem? {α} (p : α → Bool) : ∀ (l : List α) (i : Nat), i < (l.takeWhile p).length →
    ∃ b, l[i]? = some b ∧ p b = true := by
  intro l
  induction l with
  | nil => intro i h; simp at h
  | cons a l ih =>
    intro i h
    simp only [List.takeWhile] at h
    cases hp : p a with
    | false => rw [hp] at h; simp at h
    | true =>
      rw [hp] at h
      cases i with
      | zero => exact ⟨a, rfl, hp⟩
      | succ i =>
        simp only [List.length_cons, Nat.add_lt_add_iff_right] at h
        obtain ⟨b, hb, hpb⟩ := ih i h
        exact ⟨b, by simpa using hb, hpb⟩

theorem drop_takeWhile_head {α} (p : α → Bool) : ∀ (l : List α) (b : α) (rest : List α),
    l.drop (l.takeWhile p).length = b :: rest → p b = false := by
  intro l
  induction l with
  | nil => intro b rest h; simp at h
  | cons a l ih =>
    intro b rest h
    simp only [List.takeWhile] at h
    cases hp : p a with
    | false => rw [hp] at h; simp at h; rw [← h.1]; exact hp
    | true => rw [hp] at h; simp at h; exact ih b rest h

theorem countLeading_getElem? (c : UInt8) (l : Bytes) (i : Nat) (h : i < countLeading c l) : l[i]? = some c := by
  obtain ⟨b, hb, hp⟩ := takeWhile_getElem? (· == c) l i h
  have : b = c := by simpa using hp
  rw [hb, this]

/-! ### util.IndentWidth -/

theorem tabWidthI_pos (p : Int) : 1 ≤ tabWidthI p := by
  unfold tabWidthI
  have := Int.tmod_lt_of_pos p (show (0 : Int) < 4 by decide)
  omega

theorem indentWidthGo_mono (cur : Int) : ∀ (bs : Bytes) (w p : Int), w ≤ (indentWidthGo cur bs w p).1 := by
  intro bs
  induction bs with
  | nil => intro w p; simp [indentWidthGo]
  | cons b bs ih =>
    intro w p
    unfold indentWidthGo
    split
    · have := ih (w + 1) (p + 1); omega
    · split
      · have := ih (w + tabWidthI (cur + w)) (p + 1); have := tabWidthI_pos (cur + w); omega
      · simp

theorem indentWidthI_nonneg (bs : Bytes) (cur : Int) : 0 ≤ (indentWidthI bs cur).1 :=
  indentWidthGo_mono cur bs 0 0

/-- the width is positive when the first byte is a space or a tab -/
theorem indentWidthI_pos (b : UInt8) (bs : Bytes) (cur : Int) (h : b = 32 ∨ b = 9) :
    1 ≤ (indentWidthI (b :: bs) cur).1 := by
  unfold indentWidthI indentWidthGo
  rcases h with h | h
  · subst h
    simp only [beq_self_eq_true, if_true]
    have := indentWidthGo_mono cur bs (0 + 1) (0 + 1); omega
  · subst h
    have h9 : ((9 : UInt8) == 32) = false := by decide
    simp only [h9, Bool.false_eq_true, if_false, beq_self_eq_true, if_true]
    have := indentWidthGo_mono cur bs (0 + tabWidthI (cur + 0)) (0 + 1)
    have := tabWidthI_pos (cur + 0); omega

/-- the width is 0 when the first byte is neither a space nor a tab -/
theorem indentWidthI_zero (b : UInt8) (bs : Bytes) (cur : Int) (h32 : b ≠ 32) (h9 : b ≠ 9) :
    (indentWidthI (b :: bs) cur).1 = 0 := by
  unfold indentWidthI indentWidthGo
  simp [h32, h9]

/-! ### parser.parseListItem -/

/-- what `parseListItem` guarantees about the match array when it recognises an item. With this
    `slice line m.r2 (m.r3 - 1)`, `idx line (m.r3 - 1)`, `sliceFrom line (m.r3 - 1)`, and (when `m.r4 ≥ 0`)
    `slice line m.r4 m.r5`, `sliceFrom line m.r4` are all in range. -/
structure ListMatchOK (line : Bytes) (m : M6) (typ : ListTyp) : Prop where
  r1_ge : 0 ≤ m.r1
  r1_le : m.r1 ≤ 3
  r2 : m.r2 = m.r1
  /-- the marker (with the digits of an ordered one) is not empty -/
  r3_gt : m.r2 ≤ m.r3 - 1
  r3_le : m.r3 ≤ line.length
  bullet : typ = .bullet → m.r3 = m.r2 + 1
  /-- 1 to 9 digits -/
  ordered : typ = .ordered → m.r2 < m.r3 - 1 ∧ m.r3 - 1 - m.r2 ≤ 9
  /-- the bytes in front of `m.r1` are spaces -/
  spaces : ∀ i : Nat, (i : Int) < m.r1 → line[i]? = some 32
  /-- the byte at `m.r3 - 1` is the marker byte -/
  marker : ∃ b, line[(m.r3 - 1).toNat]? = some b ∧ (typ = .bullet → b = 45 ∨ b = 42 ∨ b = 43) ∧
      (typ = .ordered → b = 46 ∨ b = 41) ∧ (b = 45 ∨ b = 42 ∨ b = 43 ∨ b = 46 ∨ b = 41)
  /-- the digits of an ordered marker -/
  digits : typ = .ordered → ∀ i : Nat, m.r2 ≤ (i : Int) → (i : Int) < m.r3 - 1 → ∃ b, line[i]? = some b ∧ isNumeric b = true
  /-- either the line ends behind the marker, or the marker is followed by a newline, a space or a tab -/
  tail : (m.r4 = -1 ∧ m.r5 = -1 ∧ m.r3 = line.length) ∨
      (m.r4 = m.r3 ∧ m.r4 ≤ m.r5 ∧ m.r5 ≤ line.length ∧ m.r4 < line.length ∧ (line.length : Int) - 1 ≤ m.r5 ∧
        ∃ b, line[m.r4.toNat]? = some b ∧ (b = 10 ∨ b = 32 ∨ b = 9))

theorem pliFinish_ok (line : Bytes) (k i : Nat) (typ : ListTyp) (hi : i ≤ line.length) (m : M6) (t : ListTyp)
    (h : pliFinish line k i typ = (m, t)) (ht : t ≠ .notList) :
    t = typ ∧ m.r1 = k ∧ m.r2 = k ∧ m.r3 = i ∧
    ((m.r4 = -1 ∧ m.r5 = -1 ∧ m.r3 = line.length) ∨
      (m.r4 = m.r3 ∧ m.r4 ≤ m.r5 ∧ m.r5 ≤ line.length ∧ m.r4 < line.length ∧ (line.length : Int) - 1 ≤ m.r5 ∧
        ∃ b, line[m.r4.toNat]? = some b ∧ (b = 10 ∨ b = 32 ∨ b = 9))) := by
  unfold pliFinish at h
  split at h
  · rename_i hd
    cases h
    have : line.length ≤ i := by
      have := congrArg List.length hd; simp at this; omega
    refine ⟨rfl, rfl, rfl, rfl, .inl ⟨rfl, rfl, ?_⟩⟩
    simp only; omega
  · rename_i c cs hd
    obtain ⟨hc, hlt⟩ := drop_eq_cons_getElem? hd
    split at h
    · cases h; exact absurd rfl ht
    · rename_i hcond
      cases h
      refine ⟨rfl, rfl, rfl, rfl, .inr ⟨rfl, ?_, ?_, by simp only; omega, ?_, c, by simpa using hc, ?_⟩⟩
      · simp only; split <;> omega
      · simp only; split <;> omega
      · simp only; split <;> omega
      · by_cases h10 : c = 10
        · exact .inl h10
        · by_cases h32 : c = 32
          · exact .inr (.inl h32)
          · by_cases h9 : c = 9
            · exact .inr (.inr h9)
            · exfalso; apply hcond
              simp [h10, indentWidthI_zero c cs 0 h32 h9]

theorem parseListItem_ok (line : Bytes) (m : M6) (typ : ListTyp) (h : parseListItem line = (m, typ))
    (ht : typ ≠ .notList) : ListMatchOK line m typ := by
  unfold parseListItem at h
  simp only at h
  split at h
  · cases h; exact absurd rfl ht
  · rename_i hk
    have hk3 : countLeading 32 line ≤ 3 := by omega
    have hsp := countLeading_getElem? 32 line
    generalize countLeading 32 line = k at h hk3 hsp
    split at h
    · cases h; exact absurd rfl ht
    · rename_i c cs hd
      obtain ⟨hc, hlt⟩ := drop_eq_cons_getElem? hd
      split at h
      · rename_i hb
        obtain ⟨e1, e2, e3, e4, e5⟩ := pliFinish_ok line k (k + 1) .bullet (by omega) m typ h ht
        have hmk : c = 45 ∨ c = 42 ∨ c = 43 := by
          simpa [Bool.or_eq_true, beq_iff_eq, or_assoc] using hb
        have hidx : (m.r3 - 1).toNat = k := by rw [e4]; omega
        exact { r1_ge := by omega, r1_le := by omega, r2 := by omega, r3_gt := by omega, r3_le := by omega,
                bullet := fun _ => by omega,
                ordered := fun hh => (by rw [e1] at hh; cases hh),
                spaces := fun i hi => hsp i (by omega),
                marker := ⟨c, (by rw [hidx]; exact hc), fun _ => hmk, fun hh => (by rw [e1] at hh; cases hh),
                  (by rcases hmk with h | h | h <;> simp [h])⟩,
                digits := fun hh => (by rw [e1] at hh; cases hh),
                tail := e5 }
      · rename_i hb
        have hdig := takeWhile_getElem? isNumeric (c :: cs)
        have hlen := length_takeWhile_le'' isNumeric (c :: cs)
        generalize ((c :: cs).takeWhile isNumeric).length = nd at h hdig hlen
        split at h
        · cases h; exact absurd rfl ht
        · rename_i hnd
          have hnd1 : 1 ≤ nd ∧ nd ≤ 9 := by
            simp only [Bool.or_eq_true, beq_iff_eq, decide_eq_true_eq, not_or] at hnd; omega
          split at h
          · rename_i d ds hdd
            split at h
            · rename_i hd2
              rw [← hd, List.drop_drop] at hdd
              obtain ⟨hcd, hltd⟩ := drop_eq_cons_getElem? hdd
              obtain ⟨e1, e2, e3, e4, e5⟩ := pliFinish_ok line k (k + nd + 1) .ordered (by omega) m typ h ht
              have hmk : d = 46 ∨ d = 41 := by simpa [Bool.or_eq_true, beq_iff_eq] using hd2
              have hidx : (m.r3 - 1).toNat = k + nd := by rw [e4]; omega
              exact { r1_ge := by omega, r1_le := by omega, r2 := by omega, r3_gt := by omega, r3_le := by omega,
                      bullet := fun hh => (by rw [e1] at hh; cases hh),
                      ordered := fun _ => by omega,
                      spaces := fun i hi => hsp i (by omega),
                      marker := ⟨d, (by rw [hidx]; exact hcd), fun hh => (by rw [e1] at hh; cases hh), fun _ => hmk,
                        (by rcases hmk with h | h <;> simp [h])⟩,
                      digits := fun _ i h1 h2 => by
                        obtain ⟨b, hb1, hb2⟩ := hdig (i - k) (by omega)
                        refine ⟨b, ?_, hb2⟩
                        rw [← hd, List.getElem?_drop] at hb1
                        have : k + (i - k) = i := by omega
                        rw [this] at hb1; exact hb1,
                      tail := e5 }
            · cases h; exact absurd rfl ht
          · cases h; exact absurd rfl ht

/-- the suggested conjunction form -/
theorem parseListItem_bounds (line : Bytes) (m : M6) (typ : ListTyp) (h : parseListItem line = (m, typ))
    (ht : typ ≠ .notList) :
    0 ≤ m.r1 ∧ m.r1 ≤ 3 ∧ m.r2 = m.r1 ∧ m.r2 ≤ m.r3 - 1 ∧ m.r3 ≤ line.length ∧
    (typ = .ordered → m.r2 < m.r3 - 1) ∧
    ((m.r4 = -1 ∧ m.r5 = -1) ∨ (m.r4 = m.r3 ∧ m.r4 ≤ m.r5 ∧ m.r5 ≤ line.length ∧ m.r4 < line.length)) := by
  have ok := parseListItem_ok line m typ h ht
  refine ⟨ok.r1_ge, ok.r1_le, ok.r2, ok.r3_gt, ok.r3_le, fun hh => (ok.ordered hh).1, ?_⟩
  rcases ok.tail with ⟨a, b, _⟩ | ⟨a, b, c, d, _⟩
  · exact .inl ⟨a, b⟩
  · exact .inr ⟨a, b, c, d⟩

/-- parser.matchesListItem answers `parseListItem`'s match, with the type possibly replaced by `notList` -/
theorem matchesListItem_eq (line : Bytes) (strict : Bool) (m : M6) (typ : ListTyp)
    (h : matchesListItem line strict = (m, typ)) (ht : typ ≠ .notList) : parseListItem line = (m, typ) := by
  unfold matchesListItem at h
  simp only at h
  split at h
  · exact h
  · cases h; exact absurd rfl ht

theorem matchesListItem_ok (line : Bytes) (strict : Bool) (m : M6) (typ : ListTyp)
    (h : matchesListItem line strict = (m, typ)) (ht : typ ≠ .notList) : ListMatchOK line m typ :=
  parseListItem_ok line m typ (matchesListItem_eq line strict m typ h ht) ht

/-- `strict` makes no difference: a recognised item never has more than 3 leading spaces -/
theorem matchesListItem_of_parse (line : Bytes) (strict : Bool) (m : M6) (typ : ListTyp)
    (h : parseListItem line = (m, typ)) (ht : typ ≠ .notList) : matchesListItem line strict = (m, typ) := by
  have ok := parseListItem_ok line m typ h ht
  unfold matchesListItem
  simp only [h]
  have h1 : (typ != ListTyp.notList) = true := by simpa using ht
  have h2 : decide (m.r1 < 4) = true := by have := ok.r1_le; simp; omega
  simp [h1, h2]

theorem matchesListItem_strict_irrel (line : Bytes) (s1 s2 : Bool) (m : M6) (typ : ListTyp)
    (h : matchesListItem line s1 = (m, typ)) (ht : typ ≠ .notList) : matchesListItem line s2 = (m, typ) :=
  matchesListItem_of_parse line s2 m typ (matchesListItem_eq line s1 m typ h ht) ht

/-! the slices and index expressions of list.go / list_item.go on a recognised item -/

theorem ListMatchOK.idx_marker {line m typ} (ok : ListMatchOK line m typ) :
    ∃ b, idx line (m.r3 - 1) = .ok b ∧ line[(m.r3 - 1).toNat]? = some b ∧ (b = 45 ∨ b = 42 ∨ b = 43 ∨ b = 46 ∨ b = 41) := by
  obtain ⟨b, hb, _, _, h4⟩ := ok.marker
  obtain ⟨b', h1, h2⟩ := idx_ok line (m.r3 - 1) (by have := ok.r1_ge; have := ok.r2; have := ok.r3_gt; omega)
    (by have := ok.r3_le; omega)
  rw [hb] at h2; cases h2
  exact ⟨b, h1, hb, h4⟩

theorem ListMatchOK.slice_number {line m typ} (ok : ListMatchOK line m typ) : ∃ v, slice line m.r2 (m.r3 - 1) = .ok v :=
  slice_ok' line m.r2 (m.r3 - 1) (by have := ok.r1_ge; have := ok.r2; omega) ok.r3_gt (by have := ok.r3_le; omega)

theorem ListMatchOK.sliceFrom_marker {line m typ} (ok : ListMatchOK line m typ) :
    sliceFrom line (m.r3 - 1) = .ok (line.drop (m.r3 - 1).toNat) ∧ line.drop (m.r3 - 1).toNat ≠ [] := by
  have := ok.r1_ge; have := ok.r2; have := ok.r3_gt; have := ok.r3_le
  refine ⟨sliceFrom_ok line (m.r3 - 1) (by omega) (by omega), fun e => ?_⟩
  have := congrArg List.length e
  simp at this; omega

theorem ListMatchOK.slice_tail {line m typ} (ok : ListMatchOK line m typ) (h4 : ¬ m.r4 < 0) :
    ∃ v, slice line m.r4 m.r5 = .ok v := by
  rcases ok.tail with ⟨a, _⟩ | ⟨a, b, c, d, _⟩
  · omega
  · exact slice_ok' line m.r4 m.r5 (by omega) b c

theorem ListMatchOK.sliceFrom_tail {line m typ} (ok : ListMatchOK line m typ) (h4 : ¬ m.r4 < 0) :
    sliceFrom line m.r4 = .ok (line.drop m.r4.toNat) := by
  rcases ok.tail with ⟨a, _⟩ | ⟨a, b, c, d, _⟩
  · omega
  · exact sliceFrom_ok line m.r4 (by omega) (by omega)

/-! ### parser.matchesSetextHeadingBar, parser.calcListOffset -/

theorem ite_ok_total {ε α} (c : Prop) [Decidable c] (a b : α) :
    ∃ r, (if c then (Except.ok a : Except ε α) else Except.ok b) = .ok r := by
  split <;> exact ⟨_, rfl⟩

/-- the only panic site is `line[len(line)-1]` on an empty line -/
theorem matchesSetextHeadingBar_total (l : Bytes) (hne : l ≠ []) : ∃ r, matchesSetextHeadingBar l = .ok r := by
  have hlen : 0 < l.length := List.length_pos_iff.mpr hne
  unfold matchesSetextHeadingBar
  have hcl := countLeading_le 32 l
  simp only [bind, Except.bind, pure, Except.pure]
  split
  · exact ⟨_, rfl⟩
  · obtain ⟨v, hv⟩ := slice_ok' l (countLeading 32 l : Int) (l.length : Int) (by omega) (by omega) (Int.le_refl _)
    obtain ⟨b, hb, _⟩ := idx_ok l ((l.length : Int) - 1) (by omega) (by omega)
    rw [hv]; simp only
    rw [hb]; simp only
    exact ite_ok_total _ _ _

/-- parser.calcListOffset: total when `m.r4` is -1 or an index of the line; the answer is 1, or the indent width (≤ 4) of a
    non-blank rest of the line; it is ≥ 1 when that rest starts with a space or a tab (as `pliFinish` guarantees unless the
    byte at `m.r4` is a newline, which a line view has only at its end, where the rest is blank) -/
theorem calcListOffset_total (line : Bytes) (m : M6) (lo : Int) (h : m.r4 < 0 ∨ m.r4 ≤ line.length) :
    ∃ r, calcListOffset line m lo = .ok r ∧ 0 ≤ r ∧ r ≤ 4 ∧
      (r = 1 ∨ (0 ≤ m.r4 ∧ isBlank (line.drop m.r4.toNat) = false ∧
                 r = (indentWidthI (line.drop m.r4.toNat) (lo + m.r4)).1)) ∧
      ((∀ b, line[m.r4.toNat]? = some b → b = 32 ∨ b = 9) → 1 ≤ r) := by
  unfold calcListOffset
  by_cases h4 : m.r4 < 0
  · rw [if_pos h4]; exact ⟨1, rfl, by omega, by omega, .inl rfl, fun _ => Int.le_refl _⟩
  · rw [if_neg h4]
    have hle : m.r4 ≤ line.length := by omega
    rw [sliceFrom_ok line m.r4 (by omega) hle]
    simp only [bind, Except.bind, pure, Except.pure]
    by_cases hb : isBlank (line.drop m.r4.toNat) = true
    · rw [if_pos hb]; exact ⟨1, rfl, by omega, by omega, .inl rfl, fun _ => Int.le_refl _⟩
    · rw [if_neg hb]
      have hnn := indentWidthI_nonneg (line.drop m.r4.toNat) (lo + m.r4)
      have hbf : isBlank (line.drop m.r4.toNat) = false := by
        cases hh : isBlank (line.drop m.r4.toNat) with
        | true => exact absurd hh hb
        | false => rfl
      by_cases hw : (indentWidthI (line.drop m.r4.toNat) (lo + m.r4)).1 > 4
      · rw [if_pos hw]; exact ⟨1, rfl, by omega, by omega, .inl rfl, fun _ => Int.le_refl _⟩
      · rw [if_neg hw]
        refine ⟨_, rfl, hnn, by omega, .inr ⟨by omega, hbf, rfl⟩, fun hsp => ?_⟩
        cases hd : line.drop m.r4.toNat with
        | nil => rw [hd] at hbf; simp [isBlank] at hbf
        | cons b bs =>
          obtain ⟨hb1, _⟩ := drop_eq_cons_getElem? hd
          exact indentWidthI_pos b bs _ (hsp b hb1)

theorem ListMatchOK.calcOffset_total {line m typ} (ok : ListMatchOK line m typ) (lo : Int) :
    ∃ r, calcListOffset line m lo = .ok r ∧ 0 ≤ r ∧ r ≤ 4 ∧
      (r = 1 ∨ (0 ≤ m.r4 ∧ isBlank (line.drop m.r4.toNat) = false ∧
                 r = (indentWidthI (line.drop m.r4.toNat) (lo + m.r4)).1)) := by
  obtain ⟨r, h1, h2, h3, h4, _⟩ := calcListOffset_total line m lo
    (by rcases ok.tail with ⟨a, _⟩ | ⟨a, b, c, d, _⟩ <;> omega)
  exact ⟨r, h1, h2, h3, h4⟩

/-- no newline strictly inside a line -/
theorem no_nl_before_lineEnd (src : Bytes) : ∀ (n p : Nat), p + n + 1 < lineEnd src p → src[p + n]? ≠ some 10 := by
  intro n
  induction n with
  | zero =>
    intro p h hb
    simp only [Nat.add_zero] at h hb
    rw [lineEnd_nl src hb] at h; omega
  | succ n ih =>
    intro p h
    have hle := lineEnd_le src p
    have hb : src[p]? ≠ some 10 := by
      intro hb; rw [lineEnd_nl src hb] at h; omega
    rw [lineEnd_succ src (by omega) hb] at h
    have := ih (p + 1) (by omega)
    have e : p + 1 + n = p + (n + 1) := by omega
    rw [e] at this; exact this

/-- a line view has a newline at most as its last byte -/
theorem view_no_nl (src : Bytes) (c : RCur) (i : Nat) (hi : i + 1 < ((RCur.view src c).getD []).length) :
    ((RCur.view src c).getD [])[i]? ≠ some 10 := by
  by_cases hp : c.p < src.length
  · have hlen := view_getD_length_nat src c hp
    rw [hlen] at hi
    rw [view_eq src c hp]
    simp only [Option.getD_some]
    by_cases h1 : i < c.pad
    · rw [spaces_getElem c.pad _ i h1]; intro hh; cases hh
    · have hle := lineEnd_le src c.p
      rw [List.getElem?_append_right (by simp [spaces]; omega)]
      simp only [spaces, List.length_replicate, sub]
      rw [List.getElem?_take_of_lt (by omega), List.getElem?_drop]
      exact no_nl_before_lineEnd src (i - c.pad) c.p (by omega)
  · rw [view_none src c hp] at hi; simp at hi

/-- over a line with a newline at most at its end (a line view), `calcListOffset` of a recognised item is between 1 and 4 -/
theorem ListMatchOK.calcOffset_pos {line m typ} (ok : ListMatchOK line m typ) (lo : Int)
    (hnl : ∀ i : Nat, i + 1 < line.length → line[i]? ≠ some 10) :
    ∃ r, calcListOffset line m lo = .ok r ∧ 1 ≤ r ∧ r ≤ 4 := by
  obtain ⟨r, h1, h2, h3, h4, h5⟩ := calcListOffset_total line m lo
    (by rcases ok.tail with ⟨a, _⟩ | ⟨a, b, c, d, _⟩ <;> omega)
  refine ⟨r, h1, ?_, h3⟩
  rcases ok.tail with ⟨a, _⟩ | ⟨a, b, c, d, e, bb, hbb, hcase⟩
  · rcases h4 with h4 | h4 <;> omega
  · rcases hcase with h10 | h32 | h9
    · rcases h4 with h4 | ⟨_, h4, _⟩
      · omega
      · exfalso
        have hlast : ¬ (m.r4.toNat + 1 < line.length) := fun hh => hnl _ hh (by rw [hbb, h10])
        have hlt : m.r4.toNat < line.length := by omega
        rw [List.drop_eq_getElem_cons hlt, List.drop_eq_nil_of_le (by omega)] at h4
        have : line[m.r4.toNat] = 10 := by
          rw [List.getElem?_eq_getElem hlt] at hbb; cases hbb; exact h10
        rw [this] at h4
        simp [isBlank, isSpace] at h4
    · exact h5 (fun b hb => by rw [hbb] at hb; cases hb; exact .inl h32)
    · exact h5 (fun b hb => by rw [hbb] at hb; cases hb; exact .inr h9)

/-! ### the tree surgery of listParser.Close: a frame calculus

`Fr src s s'`: reader and context untouched; the store only grew; every old node keeps `kind`, `lines`, `linesNil`
(the tree operations only touch `children` / `parent` / `tight`); and the store invariant is carried along. -/

structure Fr (src : Bytes) (s s' : St) : Prop where
  r : s'.r = s.r
  pc : s'.pc = s.pc
  len : s.nodes.length ≤ s'.nodes.length
  keep : ∀ i, i < s.nodes.length →
    (nd s' i).kind = (nd s i).kind ∧ (nd s' i).lines = (nd s i).lines ∧ (nd s' i).linesNil = (nd s i).linesNil
  ok : NodesOK src s → NodesOK src s'

theorem Fr.refl (src : Bytes) (s : St) : Fr src s s :=
  ⟨rfl, rfl, Nat.le_refl _, fun _ _ => ⟨rfl, rfl, rfl⟩, fun h => h⟩

theorem Fr.trans {src : Bytes} {s1 s2 s3 : St} (h1 : Fr src s1 s2) (h2 : Fr src s2 s3) : Fr src s1 s3 where
  r := by rw [h2.r, h1.r]
  pc := by rw [h2.pc, h1.pc]
  len := Nat.le_trans h1.len h2.len
  keep := fun i hi => by
    obtain ⟨a1, a2, a3⟩ := h1.keep i hi
    obtain ⟨b1, b2, b3⟩ := h2.keep i (Nat.lt_of_lt_of_le hi h1.len)
    exact ⟨by rw [b1, a1], by rw [b2, a2], by rw [b3, a3]⟩
  ok := fun h => h2.ok (h1.ok h)

theorem Fr.ext {src : Bytes} {s s' : St} (h : Fr src s s') : Ext s s' where
  len := h.len
  kind := fun i hi => (h.keep i hi).1
  linesNE := fun i hi _ hl => by rw [(h.keep i hi).2.1]; exact hl

theorem nodeOK_of_eq {src : Bytes} {n n' : Node} (h : NodeOK src n) (h1 : n'.lines = n.lines)
    (h2 : n'.linesNil = n.linesNil) : NodeOK src n' :=
  ⟨by rw [h1]; exact h.lines, fun hh => by rw [h1]; exact h.nil (by rw [← h2]; exact hh)⟩

/-- sequencing under the frame -/
theorem Fr.bind {α β} {src : Bytes} {m : M α} {f : α → M β} {s : St} {P : α → St → Prop}
    (hm : OKL (fun a s1 => Fr src s s1 ∧ P a s1) (m s))
    (hf : ∀ a s1, Fr src s s1 → P a s1 → OKL (fun _ s2 => Fr src s1 s2) (f a s1)) :
    OKL (fun _ s2 => Fr src s s2) ((m >>= f) s) :=
  OKL.bind hm (fun a s1 h => (hf a s1 h.1 h.2).mono (fun _ _ h2 => h.1.trans h2))

theorem Fr.seq {α β} {src : Bytes} {m : M α} {f : α → M β} {s : St}
    (hm : OKL (fun _ s1 => Fr src s s1) (m s))
    (hf : ∀ a s1, OKL (fun _ s2 => Fr src s1 s2) (f a s1)) :
    OKL (fun _ s2 => Fr src s s2) ((m >>= f) s) :=
  OKL.bind hm (fun a s1 h => (hf a s1).mono (fun _ _ h2 => h.trans h2))

theorem getNode_okl (id : Nat) (s : St) : OKL (fun a s' => a = nd s id ∧ s' = s) (getNode id s) :=
  OKL.ok ⟨rfl, rfl⟩

/-- `getNode` then a continuation under the frame -/
theorem Fr.getNode {β} {src : Bytes} (id : Nat) {f : Node → M β} {s : St}
    (hf : OKL (fun _ s2 => Fr src s s2) (f (nd s id) s)) :
    OKL (fun _ s2 => Fr src s s2) ((getNode id >>= f) s) :=
  OKL.bind (getNode_okl id s) (fun a s1 h => by obtain ⟨h1, h2⟩ := h; subst h1 h2; exact hf)

/-- an update of one node that keeps `kind`, `lines`, `linesNil` -/
theorem modNode_fr (src : Bytes) (i : Nat) (f : Node → Node)
    (hf : ∀ n, (f n).kind = n.kind ∧ (f n).lines = n.lines ∧ (f n).linesNil = n.linesNil) (s : St) :
    OKL (fun _ s' => Fr src s s') (modNode i f s) := by
  unfold modNode
  refine OKL.ok ?_
  by_cases hi : i < s.nodes.length
  · exact {
      r := rfl
      pc := rfl
      len := by simp
      keep := fun j _ => by
        simp only [nd, nd_set _ _ _ _ hi]
        split
        · rename_i e; subst e; exact hf _
        · exact ⟨rfl, rfl, rfl⟩
      ok := fun h n hn => by
        rcases List.mem_or_eq_of_mem_set hn with h1 | h1
        · exact h n h1
        · subst h1
          exact nodeOK_of_eq (nodeOK_nd h i) (hf _).2.1 (hf _).2.2 }
  · have e : s.nodes.set i (f (s.nodes.getD i default)) = s.nodes := List.set_eq_of_length_le (by omega)
    rw [e]
    exact Fr.refl src s

/-- `modNode` with an update that is syntactically a change of `children` / `parent` / `tight` -/
macro "mod_fr" : term => `(by apply modNode_fr; intro _; exact ⟨rfl, rfl, rfl⟩)

/-- a new node whose lines are those of a node of the store -/
theorem newNode_fr (src : Bytes) (n : Node) (s : St) (hn : NodesOK src s → NodeOK src n) :
    OKL (fun id s' => Fr src s s' ∧ id = s.nodes.length) (newNode n s) := by
  unfold newNode
  refine OKL.ok ⟨?_, rfl⟩
  exact {
    r := rfl
    pc := rfl
    len := by simp
    keep := fun j hj => by
      refine ⟨?_, ?_, ?_⟩ <;> simp [nd, List.getD_eq_getElem?_getD, List.getElem?_append_left hj]
    ok := fun h x hx => by
      simp only [List.mem_append, List.mem_singleton] at hx
      rcases hx with hx | hx
      · exact h x hx
      · subst hx; exact hn h }

theorem removeChild_fr (src : Bytes) (p c : Nat) (s : St) : OKL (fun _ s' => Fr src s s') (removeChild p c s) := by
  unfold removeChild
  refine Fr.getNode c ?_
  split
  · exact OKL.ok (Fr.refl src s)
  · exact Fr.seq (mod_fr) (fun _ s1 => mod_fr)

theorem ensureIsolated_fr (src : Bytes) (c : Nat) (s : St) : OKL (fun _ s' => Fr src s s') (ensureIsolated c s) := by
  unfold ensureIsolated
  refine Fr.getNode c ?_
  generalize (nd s c).parent = q
  cases q with
  | some q => exact removeChild_fr src q c s
  | none => exact OKL.ok (Fr.refl src s)

theorem appendChild_fr (src : Bytes) (p c : Nat) (s : St) : OKL (fun _ s' => Fr src s s') (appendChild p c s) := by
  unfold appendChild
  exact Fr.seq (ensureIsolated_fr src c s) (fun _ s1 =>
    Fr.seq (mod_fr) (fun _ s2 => mod_fr))

theorem insertBefore_fr (src : Bytes) (p : Nat) (v1 : Option Nat) (ins : Nat) (s : St) :
    OKL (fun _ s' => Fr src s s') (insertBefore p v1 ins s) := by
  unfold insertBefore
  cases v1 with
  | none => exact appendChild_fr src p ins s
  | some v =>
    simp only
    refine Fr.getNode v ?_
    split
    · exact appendChild_fr src p ins s
    · exact Fr.seq (ensureIsolated_fr src ins s) (fun _ s1 =>
        Fr.seq (mod_fr) (fun _ s2 =>
          mod_fr))

theorem replaceChild_fr (src : Bytes) (p v1 ins : Nat) (s : St) :
    OKL (fun _ s' => Fr src s s') (replaceChild p v1 ins s) := by
  unfold replaceChild
  exact Fr.seq (insertBefore_fr src p (some v1) ins s) (fun _ s1 => removeChild_fr src p v1 s1)

theorem tightenItem_fr (src : Bytes) (child : Nat) : ∀ (gcs : List Nat) (s : St),
    OKL (fun _ s' => Fr src s s') (tightenItem child gcs s) := by
  intro gcs
  induction gcs with
  | nil => intro s; exact OKL.ok (Fr.refl src s)
  | cons gc gcs ih =>
    intro s
    unfold tightenItem
    refine Fr.getNode gc ?_
    simp only
    split
    · refine Fr.bind (P := fun _ _ => True)
        ((newNode_fr src { kind := .textBlock, lines := (nd s gc).lines, linesNil := (nd s gc).linesNil } s
          (fun h => nodeOK_of_eq (nodeOK_nd h gc) rfl rfl)).mono (fun _ _ h => ⟨h.1, trivial⟩)) (fun tb s1 _ _ => ?_)
      exact Fr.seq (replaceChild_fr src child gc tb s1) (fun _ s2 => ih s2)
    · exact ih s

theorem tightenItems_fr (src : Bytes) : ∀ (cs : List Nat) (s : St),
    OKL (fun _ s' => Fr src s s') (tightenItems cs s) := by
  intro cs
  induction cs with
  | nil => intro s; exact OKL.ok (Fr.refl src s)
  | cons child rest ih =>
    intro s
    unfold tightenItems
    refine Fr.getNode child ?_
    exact Fr.seq (tightenItem_fr src child _ s) (fun _ s1 => ih s1)

/-- listParser.Close never panics, from any state -/
theorem listClose_fr (src : Bytes) (node : Nat) (s : St) : OKL (fun _ s' => Fr src s s') (listClose node s) := by
  unfold listClose
  refine Fr.getNode node ?_
  refine Fr.bind (m := get) (P := fun a s1 => s1 = s) (OKL.ok ⟨Fr.refl src s, rfl⟩) (fun a s1 _ h1 => ?_)
  subst h1
  simp only
  refine Fr.seq (mod_fr) (fun _ s2 => ?_)
  split
  · exact tightenItems_fr src _ s2
  · exact OKL.ok (Fr.refl src s2)

theorem listClose_spec (src : Bytes) : CloseSpec src .list := by
  intro node s _ hnodes _ _
  show OKL _ (listClose node s)
  refine (listClose_fr src node s).mono (fun _ s' h => ?_)
  exact { r := h.r, opened := by rw [h.pc], ext := h.ext, nodes := h.ok hnodes,
          tmp := .inl (by rw [h.pc]), fence := .inl (by rw [h.pc]), para := fun hh => (by cases hh) }

/-! ### listParser.Open

`listOpen` is cut into the pieces its join points delimit (`listOpen_eq` is `rfl`): the decision on the last opened
block (`listOpenRest`), the decision on the line (`listOpenLine`), and the tail that builds the node (`listOpenFinish`). -/

def listOpenFinish (parent : Nat) (lastNode : Option Node) (line : Bytes) (m : M6) (typ : ListTyp) (start : Int) :
    M (Option Nat × PState) := do
  let lastIsParaOfParent := match lastNode with
    | some n => n.kind == Kind.paragraph && n.parent == some parent
    | none => false
  if lastIsParaOfParent then
    if typ == ListTyp.ordered && start != 1 then return (none, stNoChildren)
    if m.r4 < 0 then return (none, stNoChildren)
    if isBlank (← liftE (slice line m.r4 m.r5)) then return (none, stNoChildren)
  let marker ← liftE (idx line (m.r3 - 1))
  let node ← newNode { kind := .list, marker := marker, start := if start > -1 then start else 0 }
  modPc fun pc => { pc with emptyItemBlank := false }
  return (some node, stHasChildren)

def listOpenLine (parent : Nat) (lastNode : Option Node) (line : Bytes) : M (Option Nat × PState) := do
  let (m, typ) := matchesListItem line true
  if typ == .notList then return (none, stNoChildren)
  let mut start : Int := -1
  if typ == .ordered then
    let number ← liftE (slice line m.r2 (m.r3 - 1))
    start := atoiDigits number
  listOpenFinish parent lastNode line m typ start

def listOpenRest (parent : Nat) (lastNode : Option Node) : M (Option Nat × PState) := do
  let lok := match lastNode with | some n => n.kind == .list | none => false
  if lok || (← getPc).skipList then
    modPc fun pc => { pc with skipList := false }
    return (none, stNoChildren)
  let (line, _) ← peekLine
  let line := line.getD []
  listOpenLine parent lastNode line

theorem listOpen_eq (parent : Nat) : listOpen parent = (do
    let last ← lastOpenedBlock
    let lastNode : Option Node ← match last with
      | some lb => do pure (some (← getNode lb.node))
      | none => pure none
    listOpenRest parent lastNode) := rfl

def ListOpened (s : St) (a : Option Nat × PState) (s' : St) : Prop :=
  (a = (none, stNoChildren) ∧ s' = s) ∨
  (∃ n : Node, a = (some s.nodes.length, stHasChildren) ∧
    s' = { s with nodes := s.nodes ++ [n], pc := { s.pc with emptyItemBlank := false } } ∧
    n.kind = .list ∧ n.children = [] ∧ n.lines = [] ∧ n.linesNil = true ∧ n.parent = none)

theorem listOpenFinish_okl (parent : Nat) (lastNode : Option Node) (line : Bytes) (m : M6) (typ : ListTyp) (start : Int)
    (ok : ListMatchOK line m typ) (s : St) :
    OKL (ListOpened s) (listOpenFinish parent lastNode line m typ start s) := by
  unfold listOpenFinish
  obtain ⟨b, hb, _⟩ := ok.idx_marker
  have fin : OKL (ListOpened s) ((do
      let marker ← liftE (idx line (m.r3 - 1))
      let node ← newNode { kind := .list, marker := marker, start := if start > -1 then start else 0 }
      modPc fun pc => { pc with emptyItemBlank := false }
      return (some node, stHasChildren) : M (Option Nat × PState)) s) := by
    simp only [bind, StateT.bind, liftE, hb, Except.map, Except.bind, pure, StateT.pure, Except.pure, newNode, modPc]
    exact OKL.ok (.inr ⟨_, rfl, rfl, rfl, rfl, rfl, rfl, rfl⟩)
  have no : OKL (ListOpened s) (.ok ((none, stNoChildren), s)) := OKL.ok (.inl ⟨rfl, rfl⟩)
  simp only
  generalize (match lastNode with
    | some n => n.kind == Kind.paragraph && n.parent == some parent
    | none => false) = lp
  cases lp with
  | false => simp only [Bool.false_eq_true, if_false]; exact fin
  | true =>
    simp only [if_true]
    by_cases h1 : (typ == ListTyp.ordered && start != 1) = true
    · rw [if_pos h1]; exact no
    · rw [if_neg h1]
      by_cases h4 : m.r4 < 0
      · rw [if_pos h4]; exact no
      · rw [if_neg h4]
        obtain ⟨v, hv⟩ := ok.slice_tail h4
        simp only [bind, StateT.bind, liftE, hv, Except.map, Except.bind]
        by_cases h5 : isBlank v = true
        · rw [if_pos h5]; exact no
        · rw [if_neg h5]; exact fin

theorem listOpenLine_okl (parent : Nat) (lastNode : Option Node) (line : Bytes) (s : St) :
    OKL (fun a s' => ListOpened s a s' ∧
        (a.1.isSome = true → ∃ m typ, matchesListItem line true = (m, typ) ∧ typ ≠ .notList))
      (listOpenLine parent lastNode line s) := by
  unfold listOpenLine
  generalize hm : matchesListItem line true = x
  obtain ⟨m, typ⟩ := x
  simp only
  by_cases h1 : (typ == ListTyp.notList) = true
  · rw [if_pos h1]; exact OKL.ok ⟨.inl ⟨rfl, rfl⟩, fun hh => (by cases hh)⟩
  · rw [if_neg h1]
    have ht : typ ≠ .notList := by simpa using h1
    have ok := matchesListItem_ok line true m typ hm ht
    have fin : ∀ start, OKL (fun a s' => ListOpened s a s' ∧
        (a.1.isSome = true → ∃ m' typ', (m, typ) = (m', typ') ∧ typ' ≠ .notList))
        (listOpenFinish parent lastNode line m typ start s) :=
      fun start => (listOpenFinish_okl parent lastNode line m typ start ok s).mono
        (fun a s' h => ⟨h, fun _ => ⟨m, typ, rfl, ht⟩⟩)
    by_cases h2 : (typ == ListTyp.ordered) = true
    · rw [if_pos h2]
      obtain ⟨v, hv⟩ := ok.slice_number
      simp only [bind, StateT.bind, liftE, hv, Except.map, Except.bind]
      exact fin _
    · rw [if_neg h2]; exact fin _

theorem listOpenRest_okl (src : Bytes) (parent : Nat) (lastNode : Option Node) (s : St) (c : RCur) (h : RI src s.r c) :
    OKL (fun a s' => ∃ r', s'.r = r' ∧ RI src r' c ∧
        ((a = (none, stNoChildren) ∧ s'.nodes = s.nodes ∧
            ((s'.pc = s.pc ∧ s.pc.skipList = false) ∨ s'.pc = { s.pc with skipList := false })) ∨
         (∃ n : Node, a = (some s.nodes.length, stHasChildren) ∧ s'.nodes = s.nodes ++ [n] ∧
            s'.pc = { s.pc with emptyItemBlank := false } ∧
            n.kind = .list ∧ n.children = [] ∧ n.lines = [] ∧ n.linesNil = true ∧ n.parent = none ∧
            (match lastNode with | some n => n.kind == .list | none => false) = false ∧ s.pc.skipList = false ∧
            ∃ m typ, matchesListItem ((RCur.view src c).getD []) true = (m, typ) ∧ typ ≠ .notList)))
      (listOpenRest parent lastNode s) := by
  unfold listOpenRest
  simp only
  generalize hlok : (match lastNode with | some n => n.kind == Kind.list | none => false) = lok
  refine OKL.bind (m := getPc) (P := fun v s' => v = s.pc ∧ s' = s) (OKL.ok ⟨rfl, rfl⟩) (fun pc s1 hv => ?_)
  obtain ⟨hv, hs1⟩ := hv
  subst hv hs1
  by_cases h1 : (lok || s1.pc.skipList) = true
  · rw [if_pos h1]
    simp only [bind, StateT.bind, modPc, pure, StateT.pure, Except.bind, Except.pure]
    exact OKL.ok ⟨_, rfl, h, .inl ⟨rfl, rfl, .inr rfl⟩⟩
  · rw [if_neg h1]
    have hl : lok = false ∧ s1.pc.skipList = false := by
      cases lok <;> cases hsk : s1.pc.skipList <;> simp [hsk] at h1 ⊢
    refine OKL.bind (peekLine_okl h) (fun x s2 hx => ?_)
    obtain ⟨hx, r1, hs2, h1'⟩ := hx
    subst hx hs2
    simp only
    refine (listOpenLine_okl parent lastNode ((RCur.view src c).getD []) { s1 with r := r1 }).mono (fun a s' hp => ?_)
    obtain ⟨hp, hm⟩ := hp
    rcases hp with ⟨ha, hs'⟩ | ⟨n, ha, hs', k1, k2, k3, k4, k5⟩
    · subst hs'; exact ⟨_, rfl, h1', .inl ⟨ha, rfl, .inl ⟨rfl, hl.2⟩⟩⟩
    · subst hs'
      exact ⟨_, rfl, h1', .inr ⟨n, ha, rfl, rfl, k1, k2, k3, k4, k5, hl.1, hl.2, hm (by rw [ha]; rfl)⟩⟩

/-- listParser.Open: total on an `RI` reader. The cursor stays where it is (a list consumes nothing: this is why
    `listOpen` does not meet the progress clause of `OpenPost.ri`); of the context only `skipListParserKey` and
    `emptyListItemWithBlankLines` may change; a new List node is the next node of the store, and then the line is
    a list item (so listItemParser.Open, which the driver tries next on the same line, finds one). -/
theorem listOpen_okl_ri (src : Bytes) (parent : Nat) (s : St) (c : RCur) (h : RI src s.r c) :
    OKL (fun a s' => ∃ r', s'.r = r' ∧ RI src r' c ∧
        s'.pc.opened = s.pc.opened ∧ s'.pc.blockOffset = s.pc.blockOffset ∧ s'.pc.blockIndent = s.pc.blockIndent ∧
        s'.pc.tmpPara = s.pc.tmpPara ∧ s'.pc.fence = s.pc.fence ∧ s'.pc.skipList = false ∧
        (a.1 = none → s'.nodes = s.nodes ∧ a.2 = stNoChildren ∧ s'.pc.emptyItemBlank = s.pc.emptyItemBlank) ∧
        (∀ id, a.1 = some id → id = s.nodes.length ∧ a.2 = stHasChildren ∧
            s'.pc.emptyItemBlank = false ∧ s.pc.skipList = false ∧
            (∃ n, s'.nodes = s.nodes ++ [n] ∧ n.kind = .list ∧ n.children = [] ∧ n.lines = [] ∧ n.linesNil = true ∧
              n.parent = none ∧ NodeOK src n) ∧
            (∃ m typ, matchesListItem ((RCur.view src c).getD []) true = (m, typ) ∧
              matchesListItem ((RCur.view src c).getD []) false = (m, typ) ∧ typ ≠ .notList ∧
              ListMatchOK ((RCur.view src c).getD []) m typ) ∧
            ¬ (match s.pc.opened.getLast? with | some lb => (nd s lb.node).kind = .list | none => False)))
      (listOpen parent s) := by
  rw [listOpen_eq]
  refine OKL.bind (m := lastOpenedBlock) (P := fun v s' => v = s.pc.opened.getLast? ∧ s' = s) (OKL.ok ⟨rfl, rfl⟩)
    (fun last s1 hv => ?_)
  obtain ⟨hv, hs1⟩ := hv
  subst hs1
  suffices tail : ∀ lastNode, lastNode = last.map (fun lb => nd s1 lb.node) → OKL _ (listOpenRest parent lastNode s1) by
    cases last with
    | none => exact tail none rfl
    | some lb => exact tail (some (nd s1 lb.node)) rfl
  intro lastNode hv2
  refine (listOpenRest_okl src parent lastNode s1 c h).mono (fun a s' hp => ?_)
  obtain ⟨r', hr', hri, hp⟩ := hp
  refine ⟨r', hr', hri, ?_⟩
  rcases hp with ⟨ha, hn, hpc⟩ | ⟨n, ha, hn, hpc, k1, k2, k3, k4, k5, hlok, hskip, m, typ, hm, ht⟩
  · have hpc' : s'.pc = s1.pc ∨ s'.pc = { s1.pc with skipList := false } := by
      rcases hpc with ⟨e, _⟩ | e
      · exact .inl e
      · exact .inr e
    have hsk : s'.pc.skipList = false := by
      rcases hpc with ⟨e, e2⟩ | e
      · rw [e]; exact e2
      · rw [e]
    rw [ha]
    refine ⟨?_, ?_, ?_, ?_, ?_, hsk, fun _ => ⟨hn, rfl, ?_⟩, fun id hid => (by cases hid)⟩ <;>
      rcases hpc' with e | e <;> rw [e]
  · rw [ha, hpc]
    refine ⟨rfl, rfl, rfl, rfl, rfl, hskip, fun hh => (by cases hh), fun id hid => ?_⟩
    cases hid
    have ok := matchesListItem_ok _ true m typ hm ht
    refine ⟨rfl, rfl, rfl, hskip, ⟨n, hn, k1, k2, k3, k4, k5, ⟨(by rw [k3]; intro _ hh; cases hh), fun _ => k3⟩⟩,
      ⟨m, typ, hm, matchesListItem_strict_irrel _ true false m typ hm ht, ht, ok⟩, ?_⟩
    rw [← hv]
    cases last with
    | none => exact fun hh => hh
    | some lb =>
      simp only [hv2, Option.map_some] at hlok
      simp only
      intro hk; rw [hk] at hlok; simp at hlok

theorem listOpen_okl (src : Bytes) (parent : Nat) (s : St) (c : RCur) (h : LineCtx src s c) :
    OKL (fun a s' => ∃ r', s'.r = r' ∧ RI src r' c ∧
        s'.pc.opened = s.pc.opened ∧ s'.pc.blockOffset = s.pc.blockOffset ∧ s'.pc.blockIndent = s.pc.blockIndent ∧
        s'.pc.tmpPara = s.pc.tmpPara ∧ s'.pc.fence = s.pc.fence ∧ s'.pc.skipList = false ∧
        (a.1 = none → s'.nodes = s.nodes ∧ a.2 = stNoChildren ∧ s'.pc.emptyItemBlank = s.pc.emptyItemBlank) ∧
        (∀ id, a.1 = some id → id = s.nodes.length ∧ a.2 = stHasChildren ∧
            s'.pc.emptyItemBlank = false ∧ s.pc.skipList = false ∧
            (∃ n, s'.nodes = s.nodes ++ [n] ∧ n.kind = .list ∧ n.children = [] ∧ n.lines = [] ∧ n.linesNil = true ∧
              n.parent = none ∧ NodeOK src n) ∧
            (∃ m typ, matchesListItem ((RCur.view src c).getD []) true = (m, typ) ∧
              matchesListItem ((RCur.view src c).getD []) false = (m, typ) ∧ typ ≠ .notList ∧
              ListMatchOK ((RCur.view src c).getD []) m typ) ∧
            ¬ (match s.pc.opened.getLast? with | some lb => (nd s lb.node).kind = .list | none => False)))
      (listOpen parent s) :=
  listOpen_okl_ri src parent s c h.ri

/-! ### listParser.Continue

Again cut along the join points (`listContinue_eq` is `rfl`): `listContLine` (list.go:181-245 once `offset`, `lastIsEmpty`,
`indent` are known), `listContNewItem` (the line starts with a marker), `listContSetext`, `listContTail`. -/

/-- list.go:196-204: a thematic break that is not a setext heading underline ends the list -/
def listContSetext (tail : Bytes) (lastIsPara : Bool) : M PState := do
  let mut isHeading := false
  if lastIsPara then
    let (c, ok) ← liftE (matchesSetextHeadingBar tail)
    if ok && c == 45 then isHeading := true
  if !isHeading then return stClose
  return stContinueHasChildren

/-- list.go:187-207: the line starts with a list marker -/
def listContNewItem (list : Node) (line : Bytes) (m : M6) (typ : ListTyp) : M PState := do
  let marker ← liftE (idx line (m.r3 - 1))
  if !(marker == list.marker && (typ == .ordered) == markerOrdered list.marker) then return stClose
  let tail ← liftE (sliceFrom line (m.r3 - 1))
  if isThematicBreak tail 0 then
    let lastIsPara ← match ← lastOpenedBlock with
      | some lb => do pure ((← getNode lb.node).kind == .paragraph)
      | none => pure false
    listContSetext tail lastIsPara
  else
    return stContinueHasChildren

/-- list.go:237-244 -/
def listContTail (offset : Int) (lastIsEmpty : Bool) (indent : Int) : M PState :=
  if (lastIsEmpty && decide (indent < offset)) = true then pure stClose
  else do
    if (← getPc).emptyItemBlank then return stClose
    return stContinueHasChildren

/-- list.go:181-245 once `offset`, `lastIsEmpty`, `indent` are known -/
def listContLine (list : Node) (line : Bytes) (offset : Int) (lastIsEmpty : Bool) (indent : Int) : M PState :=
  if (decide (indent < offset) || lastIsEmpty) = true then
    let jp2 : Unit → M PState := fun _ =>
      if (!lastIsEmpty) = true then pure stClose else listContTail offset lastIsEmpty indent
    if indent < 4 then
      match matchesListItem line false with
      | (m, typ) =>
        if (typ != ListTyp.notList && decide (m.r1 - offset < 4)) = true then listContNewItem list line m typ
        else jp2 ()
    else jp2 ()
  else listContTail offset lastIsEmpty indent

theorem listContinue_eq (node : Nat) : listContinue node = (do
    let list ← getNode node
    let (line, _) ← peekLine
    let line := line.getD []
    if isBlank line then
      if (← lastChildCount node) == 0 then
        modPc fun pc => { pc with emptyItemBlank := true }
      return stContinueHasChildren
    let offset ← lastOffset node
    let lastIsEmpty := (← lastChildCount node) == 0
    let (indent, _) := indentWidthI line (← lineOffset)
    listContLine list line offset lastIsEmpty indent) := rfl

/-- List.CanContinue (ast/block.go) on the marker byte of the line -/
def MarkerFits (list : Node) (line : Bytes) (m : M6) (typ : ListTyp) : Prop :=
  line[(m.r3 - 1).toNat]? = some list.marker ∧ (typ == .ordered) = markerOrdered list.marker

theorem listContSetext_okl (tail : Bytes) (lastIsPara : Bool) (hne : tail ≠ []) (s : St) :
    OKL (fun st s' => s' = s ∧ (st = stClose ∨ st = stContinueHasChildren)) (listContSetext tail lastIsPara s) := by
  unfold listContSetext
  obtain ⟨⟨c, okb⟩, hr⟩ := matchesSetextHeadingBar_total tail hne
  cases lastIsPara with
  | false => exact OKL.ok ⟨rfl, .inl rfl⟩
  | true =>
    simp only [if_true, bind, StateT.bind, liftE, hr, Except.map, Except.bind]
    by_cases h : (okb && c == 45) = true
    · rw [if_pos h]; exact OKL.ok ⟨rfl, .inr rfl⟩
    · rw [if_neg h]; exact OKL.ok ⟨rfl, .inl rfl⟩

theorem listContNewItem_okl (list : Node) (line : Bytes) (m : M6) (typ : ListTyp) (ok : ListMatchOK line m typ) (s : St) :
    OKL (fun st s' => s' = s ∧ (st = stClose ∨ (st = stContinueHasChildren ∧ MarkerFits list line m typ)))
      (listContNewItem list line m typ s) := by
  unfold listContNewItem
  obtain ⟨b, hb, hb', _⟩ := ok.idx_marker
  obtain ⟨hsf, hne⟩ := ok.sliceFrom_marker
  refine OKL.bind (liftE_okl (P := fun a s' => a = b ∧ s' = s) hb ⟨rfl, rfl⟩) (fun a s1 ha => ?_)
  obtain ⟨ha, hs1⟩ := ha
  subst ha hs1
  by_cases h1 : (!(a == list.marker && (typ == ListTyp.ordered) == markerOrdered list.marker)) = true
  · rw [if_pos h1]; exact OKL.ok ⟨rfl, .inl rfl⟩
  · rw [if_neg h1]
    have hfit : MarkerFits list line m typ := by
      simp only [Bool.not_eq_true', Bool.not_eq_false] at h1
      simp only [Bool.and_eq_true, beq_iff_eq] at h1
      exact ⟨by rw [hb', h1.1], h1.2⟩
    refine OKL.bind (liftE_okl (P := fun a s' => a = line.drop (m.r3 - 1).toNat ∧ s' = s1) hsf ⟨rfl, rfl⟩)
      (fun tail s2 ht => ?_)
    obtain ⟨ht, hs2⟩ := ht
    subst ht hs2
    by_cases h2 : isThematicBreak (List.drop (m.r3 - 1).toNat line) 0 = true
    · rw [if_pos h2]
      refine OKL.bind (m := lastOpenedBlock) (P := fun v s' => s' = s2) (OKL.ok rfl) (fun last s3 hs3 => ?_)
      subst hs3
      suffices tl : ∀ lp, OKL (fun st s' => s' = s3 ∧ (st = stClose ∨ (st = stContinueHasChildren ∧ MarkerFits list line m typ)))
          (listContSetext (List.drop (m.r3 - 1).toNat line) lp s3) by
        cases last with
        | none => exact tl false
        | some lb => exact tl ((nd s3 lb.node).kind == .paragraph)
      intro lp
      refine (listContSetext_okl _ lp hne s3).mono (fun st s' h => ?_)
      obtain ⟨h, h'⟩ := h
      rcases h' with h' | h'
      · exact ⟨h, .inl h'⟩
      · exact ⟨h, .inr ⟨h', hfit⟩⟩
    · rw [if_neg h2]; exact OKL.ok ⟨rfl, .inr ⟨rfl, hfit⟩⟩

/-- the line is a list item that listItemParser.Open accepts below an item of offset `offset` -/
def LineIsItem (line : Bytes) (offset : Int) : Prop :=
  ∃ m typ, matchesListItem line false = (m, typ) ∧ typ ≠ .notList ∧ m.r1 - offset < 4

/-- … and its marker continues the list -/
def LineIsNextItem (list : Node) (line : Bytes) (offset : Int) : Prop :=
  ∃ m typ, matchesListItem line false = (m, typ) ∧ typ ≠ .notList ∧ m.r1 - offset < 4 ∧ MarkerFits list line m typ

/-- the answer of listParser.Continue on a non-blank line, from `offset`, `lastIsEmpty`, `indent` and the context key
    `emptyListItemWithBlankLines` (`eib`): it goes on either because the line starts the next item, or because the line
    is indented to the last item's offset (and then no blank line followed an empty item, and, when the last item is
    empty, the line is not a list item indented less than 4) -/
def ListGoesOn (list : Node) (line : Bytes) (offset : Int) (lastIsEmpty : Bool) (indent : Int) (eib : Bool)
    (st : PState) : Prop :=
  (st = stClose ∨ st = stContinueHasChildren) ∧
  (st.cont = true →
    (indent < 4 ∧ (indent < offset ∨ lastIsEmpty = true) ∧ LineIsNextItem list line offset) ∨
    (offset ≤ indent ∧ eib = false ∧ (lastIsEmpty = true → ¬ (indent < 4 ∧ LineIsItem line offset))))

theorem listContTail_okl (list : Node) (line : Bytes) (offset : Int) (lastIsEmpty : Bool) (indent : Int) (s : St)
    (h : ¬ (indent < offset ∨ lastIsEmpty = true) ∨ (lastIsEmpty = true ∧ ¬ (indent < 4 ∧ LineIsItem line offset))) :
    OKL (fun st s' => s' = s ∧ ListGoesOn list line offset lastIsEmpty indent s.pc.emptyItemBlank st)
      (listContTail offset lastIsEmpty indent s) := by
  unfold listContTail
  by_cases h1 : (lastIsEmpty && decide (indent < offset)) = true
  · rw [if_pos h1]; exact OKL.ok ⟨rfl, .inl rfl, fun hh => (by cases hh)⟩
  · rw [if_neg h1]
    refine OKL.bind (m := getPc) (P := fun v s' => v = s.pc ∧ s' = s) (OKL.ok ⟨rfl, rfl⟩) (fun pc s1 hv => ?_)
    obtain ⟨hv, hs1⟩ := hv
    subst hv hs1
    by_cases h2 : s1.pc.emptyItemBlank = true
    · rw [if_pos h2]; exact OKL.ok ⟨rfl, .inl rfl, fun hh => (by cases hh)⟩
    · rw [if_neg h2]
      refine OKL.ok ⟨rfl, .inr rfl, fun _ => .inr ⟨?_, by simpa using h2, ?_⟩⟩
      · rcases h with h | h
        · omega
        · simp only [h.1, Bool.true_and, decide_eq_true_eq] at h1; omega
      · intro hl
        rcases h with h | h
        · exact absurd (.inr hl) h
        · exact h.2

theorem listContLine_okl (list : Node) (line : Bytes) (offset : Int) (lastIsEmpty : Bool) (indent : Int) (s : St) :
    OKL (fun st s' => s' = s ∧ ListGoesOn list line offset lastIsEmpty indent s.pc.emptyItemBlank st)
      (listContLine list line offset lastIsEmpty indent s) := by
  unfold listContLine
  by_cases h1 : (decide (indent < offset) || lastIsEmpty) = true
  · rw [if_pos h1]
    have h1' : indent < offset ∨ lastIsEmpty = true := by simpa using h1
    simp only
    have j2 : ¬ (indent < 4 ∧ LineIsItem line offset) →
        OKL (fun st s' => s' = s ∧ ListGoesOn list line offset lastIsEmpty indent s.pc.emptyItemBlank st)
          ((if (!lastIsEmpty) = true then pure stClose else listContTail offset lastIsEmpty indent) s) := by
      intro hni
      by_cases h3 : (!lastIsEmpty) = true
      · rw [if_pos h3]; exact OKL.ok ⟨rfl, .inl rfl, fun hh => (by cases hh)⟩
      · rw [if_neg h3]
        exact listContTail_okl list line offset lastIsEmpty indent s (.inr ⟨by simpa using h3, hni⟩)
    by_cases h2 : indent < 4
    · rw [if_pos h2]
      generalize hm : matchesListItem line false = x
      obtain ⟨m, typ⟩ := x
      simp only
      by_cases h4 : (typ != ListTyp.notList && decide (m.r1 - offset < 4)) = true
      · rw [if_pos h4]
        have h4' : typ ≠ .notList ∧ m.r1 - offset < 4 := by simpa using h4
        have ok := matchesListItem_ok line false m typ hm h4'.1
        refine (listContNewItem_okl list line m typ ok s).mono (fun st s' h => ?_)
        obtain ⟨h, h'⟩ := h
        rcases h' with h' | ⟨h', hfit⟩
        · exact ⟨h, .inl h', fun hh => (by rw [h'] at hh; cases hh)⟩
        · exact ⟨h, .inr h', fun _ => .inl ⟨h2, h1', m, typ, hm, h4'.1, h4'.2, hfit⟩⟩
      · rw [if_neg h4]
        refine j2 (fun hh => ?_)
        obtain ⟨_, m', typ', e, k1, k2⟩ := hh
        rw [hm] at e; cases e
        apply h4; simp [k1, k2]
    · rw [if_neg h2]
      exact j2 (fun hh => h2 hh.1)
  · rw [if_neg h1]
    exact listContTail_okl list line offset lastIsEmpty indent s (.inl (by simpa using h1))

/-- what list_item.go relies on (list_item.go:75 must not see `IndentPosition = -1`): when the list goes on over a
    non-blank line, the line is indented at least as far as the last item's offset, or it is (indented less than 4)
    a list item — in which case listItemParser.Continue closes the item -/
theorem ListGoesOn.indent_or_item {list line offset lastIsEmpty indent eib st}
    (h : ListGoesOn list line offset lastIsEmpty indent eib st) (hc : st.cont = true) :
    offset ≤ indent ∨ (indent < 4 ∧ ∃ m typ, matchesListItem line true = (m, typ) ∧ typ ≠ .notList) := by
  rcases h.2 hc with ⟨h1, _, m, typ, hm, ht, _⟩ | ⟨h1, _⟩
  · exact .inr ⟨h1, m, typ, matchesListItem_strict_irrel line false true m typ hm ht, ht⟩
  · exact .inl h1

theorem ListGoesOn.not_short {list line offset lastIsEmpty indent eib st}
    (h : ListGoesOn list line offset lastIsEmpty indent eib st) (hc : st.cont = true) :
    ¬ (indent < offset ∧ 4 ≤ indent) ∧ ¬ (lastIsEmpty = true ∧ indent < offset ∧ ¬ LineIsItem line offset) ∧
    ¬ (indent < offset ∧ ¬ LineIsNextItem list line offset) ∧
    ¬ (lastIsEmpty = false ∧ offset ≤ indent ∧ eib = true) := by
  rcases h.2 hc with ⟨h1, h2, m, typ, hm, ht, h3, h4⟩ | ⟨h1, h2, _⟩
  · refine ⟨fun hh => by omega, fun hh => hh.2.2 ⟨m, typ, hm, ht, h3⟩, fun hh => hh.2 ⟨m, typ, hm, ht, h3, h4⟩, fun hh => ?_⟩
    rcases h2 with h2 | h2
    · omega
    · rw [hh.1] at h2; cases h2
  · refine ⟨fun hh => by omega, fun hh => by omega, fun hh => by omega, fun hh => ?_⟩
    rw [hh.2.2] at h2; cases h2

/-- a List node as listParser.Continue needs it: it has a last child and that child is a ListItem -/
def ListHasItem (s : St) (node : Nat) : Prop :=
  ∃ lc, (nd s node).children.getLast? = some lc ∧ (nd s lc).kind = .listItem

theorem lastChildCount_okl (s : St) (node lc : Nat) (h : (nd s node).children.getLast? = some lc) :
    OKL (fun v s' => v = ((nd s lc).children.length : Int) ∧ s' = s) (lastChildCount node s) := by
  unfold lastChildCount
  refine OKL.bind (getNode_okl node s) (fun n s0 hn => ?_)
  obtain ⟨hn, hs0⟩ := hn
  subst hn hs0
  rw [h]
  exact OKL.ok ⟨rfl, rfl⟩

theorem lastOffset_okl (s : St) (node lc : Nat) (h : (nd s node).children.getLast? = some lc)
    (hk : (nd s lc).kind = .listItem) :
    OKL (fun v s' => v = (nd s lc).offset ∧ s' = s) (lastOffset node s) := by
  unfold lastOffset
  refine OKL.bind (getNode_okl node s) (fun n s0 hn => ?_)
  obtain ⟨hn, hs0⟩ := hn
  subst hn hs0
  rw [h]
  simp only
  refine OKL.bind (getNode_okl lc s0) (fun n s1 hn => ?_)
  obtain ⟨hn, hs1⟩ := hn
  subst hn hs1
  have : ((nd s1 lc).kind != Kind.listItem) = false := by rw [hk]; rfl
  rw [this]
  exact OKL.ok ⟨rfl, rfl⟩

theorem length_beq_zero {α} (l : List α) : (((l.length : Nat) : Int) == 0) = l.isEmpty := by
  cases l with
  | nil => rfl
  | cons a l =>
    simp only [List.length_cons, List.isEmpty_cons, beq_eq_false_iff_ne, ne_eq]
    omega

/-- listParser.Continue on a List whose last child is a ListItem: total on an `RI` reader; cursor, store and the
    context apart from `emptyListItemWithBlankLines` stay; on a blank line the list goes on (and the key is set when
    the last item is empty); on a non-blank line the answer is as `ListGoesOn` says, with `offset` the last item's
    `Offset`, `lastIsEmpty` = the last item has no children, `indent` = the indent width of the line at the
    reader's line offset. -/
theorem listContinue_okl (src : Bytes) (node : Nat) (s : St) (c : RCur) (h : RI src s.r c) (hlt : c.p < src.length)
    (hitem : ListHasItem s node) :
    OKL (fun st s' => ∃ r', s'.r = r' ∧ RI src r' c ∧ s'.nodes = s.nodes ∧ s'.pc.opened = s.pc.opened ∧
        s'.pc.blockOffset = s.pc.blockOffset ∧ s'.pc.blockIndent = s.pc.blockIndent ∧
        s'.pc.tmpPara = s.pc.tmpPara ∧ s'.pc.fence = s.pc.fence ∧ s'.pc.skipList = s.pc.skipList ∧
        (st.cont = true → st.hasChildren = true) ∧
        ∀ lc, (nd s node).children.getLast? = some lc →
          (isBlank ((RCur.view src c).getD []) = true → st = stContinueHasChildren ∧
            s'.pc = (if (nd s lc).children.isEmpty then { s.pc with emptyItemBlank := true } else s.pc)) ∧
          (isBlank ((RCur.view src c).getD []) = false → s'.pc = s.pc ∧
            ListGoesOn (nd s node) ((RCur.view src c).getD []) (nd s lc).offset (nd s lc).children.isEmpty
              (indentWidthI ((RCur.view src c).getD []) (loVal src c)).1 s.pc.emptyItemBlank st))
      (listContinue node s) := by
  rw [listContinue_eq]
  obtain ⟨lc, hlc, hk⟩ := hitem
  refine OKL.bind (getNode_okl node s) (fun list s0 hl => ?_)
  obtain ⟨hl, hs0⟩ := hl
  subst hl hs0
  refine OKL.bind (peekLine_okl h) (fun x s1 hx => ?_)
  obtain ⟨hx, r1, hs1, h1⟩ := hx
  subst hx hs1
  simp only
  generalize (RCur.view src c).getD [] = line
  by_cases hb : isBlank line = true
  · rw [if_pos hb]
    refine OKL.bind (lastChildCount_okl { s0 with r := r1 } node lc hlc) (fun cnt s2 hc => ?_)
    obtain ⟨hc, hs2⟩ := hc
    subst hc hs2
    rw [length_beq_zero]
    have hnb : ¬ isBlank line = false := by rw [hb]; simp
    by_cases h0 : (nd s0 lc).children.isEmpty = true
    · rw [if_pos h0]
      simp only [bind, StateT.bind, modPc, pure, StateT.pure, Except.bind, Except.pure]
      refine OKL.ok ⟨r1, rfl, h1, rfl, rfl, rfl, rfl, rfl, rfl, rfl, fun _ => rfl, fun lc' hlc' => ?_⟩
      rw [hlc] at hlc'; cases hlc'
      exact ⟨fun _ => ⟨rfl, by rw [if_pos h0]⟩, fun hh => absurd hh hnb⟩
    · rw [if_neg h0]
      refine OKL.ok ⟨r1, rfl, h1, rfl, rfl, rfl, rfl, rfl, rfl, rfl, fun _ => rfl, fun lc' hlc' => ?_⟩
      rw [hlc] at hlc'; cases hlc'
      exact ⟨fun _ => ⟨rfl, by rw [if_neg h0]⟩, fun hh => absurd hh hnb⟩
  · rw [if_neg hb]
    refine OKL.bind (lastOffset_okl { s0 with r := r1 } node lc hlc hk) (fun off s2 ho => ?_)
    obtain ⟨ho, hs2⟩ := ho
    subst ho hs2
    refine OKL.bind (lastChildCount_okl { s0 with r := r1 } node lc hlc) (fun cnt s3 hc => ?_)
    obtain ⟨hc, hs3⟩ := hc
    subst hc hs3
    rw [length_beq_zero]
    refine OKL.bind (lineOffset_okl (s := { s0 with r := r1 }) h1) (fun lo s4 hlo => ?_)
    obtain ⟨hlo, r2, hs4, h2⟩ := hlo
    have hlo := hlo hlt
    subst hlo hs4
    generalize hiw : indentWidthI line (loVal src c) = iw
    obtain ⟨indent, pos⟩ := iw
    simp only
    refine (listContLine_okl (nd s0 node) line (nd s0 lc).offset (nd s0 lc).children.isEmpty indent
      { s0 with r := r2 }).mono (fun st s' hp => ?_)
    obtain ⟨hs', hgo⟩ := hp
    subst hs'
    refine ⟨r2, rfl, h2, rfl, rfl, rfl, rfl, rfl, rfl, rfl, fun hc => ?_, fun lc' hlc' => ?_⟩
    · rcases hgo.1 with e | e <;> rw [e] at hc ⊢
      · cases hc
      · rfl
    · rw [hlc] at hlc'; cases hlc'
      exact ⟨fun hh => absurd hh hb, fun _ => ⟨rfl, hgo⟩⟩

end GM.Blocks
