/-
  GM.Proof.ShiftSimContW — the `Continue` contracts of the shift simulation WITHOUT the assumption that the source ends
  with a line feed (`ContinueSimW` of GM.Proof.ShiftSimWDefs) for every parser but the two list parsers, and the
  package `psimW_notList`. Only fencedCodeBlockParser.Continue can end in the limbo relation (its last
  `AdvanceAndSetPadding` may get -1 on a last line without `\n`); it then answers "Continue, no children".
-/
import GM.Proof.ShiftSimWDefs
import GM.Proof.ShiftSimLeafA
import GM.Proof.ShiftSimCode
import GM.Proof.ShiftSimFenced
import GM.Proof.ShiftSimQuoteHtml
import GM.Proof.ShiftSimEof
import GM.Proof.BlocksNoPanicAll

namespace GM.Blocks.Sh
open GM GM.Text GM.Spec GM.Proof.Reader GM.Blocks

/-- the full relation afterwards is more than `ContinueSimW` asks for -/
theorem cw_of_post {F : Frame} {b : Bytes} {m n : Except Panic (PState × St)}
    (h : P2 (fun x y sA' sB' => y = x ∧ SR F b sA' sB') m n) :
    P2 (fun x y sA' sB' => y = x ∧ SRLim F b sA' sB' ∧ ((x.cont = true ∧ x.hasChildren = false) ∨ SR F b sA' sB')) m n :=
  h.mono fun _ _ _ _ ⟨e, h1⟩ => ⟨e, h1.limbo, .inr h1⟩

/-! ### the parsers whose `Continue` is `return Close` -/

theorem setextContinue_simW (F : Frame) (b : Bytes) : ContinueSimW F b .setext := by
  intro node sA sB h _
  exact P2.pure ⟨rfl, h.limbo, .inr h⟩

theorem thematicContinue_simW (F : Frame) (b : Bytes) : ContinueSimW F b .thematic := by
  intro node sA sB h _
  exact P2.pure ⟨rfl, h.limbo, .inr h⟩

theorem atxContinue_simW (F : Frame) (b : Bytes) : ContinueSimW F b .atx := by
  intro node sA sB h _
  exact P2.pure ⟨rfl, h.limbo, .inr h⟩

/-! ### paragraph.go (the proof of `paragraphContinue_sim`, which does not use `NL`) -/

theorem cw_paragraphContinue (F : Frame) (b : Bytes) : ∀ node sA sB, SR F b sA sB → HasLine b sA →
    P2 (fun x y sA' sB' => y = x ∧ SR F b sA' sB') (bpContinue .paragraph node sA) (bpContinue .paragraph (F.ι node) sB) := by
  intro node sA sB h _
  show P2 _ (paragraphContinue node sA) (paragraphContinue (F.ι node) sB)
  unfold paragraphContinue
  refine P2.bind (peekLine_p2 h) (fun x y sA1 sB1 ⟨⟨c, hc, hx⟩, hy, h1⟩ => ?_)
  subst hx hy
  simp only
  by_cases hb : isBlank ((RCur.view b c).getD []) = true
  · rw [if_pos hb, if_pos hb]; exact P2.pure ⟨rfl, h1⟩
  · rw [if_neg hb, if_neg hb]
    refine P2.bind (appendLine_p2 h1 node rfl) (fun _ _ sA2 sB2 h2 => ?_)
    have hn : 0 ≤ (RCur.seg b c).len - 1 := by
      by_cases hp : c.p < b.length
      · obtain ⟨l, _, h3, h4, _⟩ := view_some_facts hp
        omega
      · rw [view_none b c hp] at hb
        exact absurd isBlank_nil hb
    refine P2.bind (advance_p2 h2 (by rw [moveSeg_len]) hn) (fun _ _ sA3 sB3 h3 => ?_)
    exact P2.pure ⟨rfl, h3⟩

theorem paragraphContinue_simW (F : Frame) (b : Bytes) : ContinueSimW F b .paragraph :=
  fun node sA sB h hl => cw_of_post (cw_paragraphContinue F b node sA sB h hl)

/-! ### code_block.go -/

theorem cw_codeContinue (F : Frame) (hF : F.OK) (b : Bytes) : ∀ node sA sB, SR F b sA sB → HasLine b sA →
    P2 (fun x y sA' sB' => y = x ∧ SR F b sA' sB') (bpContinue .code node sA) (bpContinue .code (F.ι node) sB) := by
  intro node sA sB h _
  show P2 _ (codeContinue node sA) (codeContinue (F.ι node) sB)
  unfold codeContinue
  refine P2.bind (peekLine_p2 h) (fun x y sA1 sB1 ⟨⟨c, hc, hx⟩, hy, h1⟩ => ?_)
  subst hx hy
  simp only
  by_cases hbl : isBlank ((RCur.view b c).getD []) = true
  · rw [if_pos hbl, if_pos hbl]
    refine P2.bind (source_p2 h1) (fun a a' sA2 sB2 ⟨ha, hb, e1, e2⟩ => ?_)
    subst e1 e2
    rw [ha, hb]
    refine P2.bind (P := fun s t sA' sB' => t = moveSeg F.d s ∧ sA2 = sA' ∧ sB2 = sB')
      (P2.liftE (fun s t e1 e2 => ?_)) (fun s t sA3 sB3 ⟨ht, e1, e2⟩ => ?_)
    · rw [trimLeftSpaceWidth_sh F _ 4 e1] at e2; cases e2; exact ⟨rfl, rfl, rfl⟩
    subst ht e1 e2
    refine P2.bind (appendLine_p2 h1 node rfl) (fun _ _ sA4 sB4 h4 => ?_)
    exact P2.pure ⟨rfl, h4⟩
  · rw [if_neg hbl, if_neg hbl]
    have hp : c.p < b.length := by
      by_cases hp : c.p < b.length
      · exact hp
      · rw [view_none b c hp] at hbl
        exact absurd isBlank_nil hbl
    refine P2.bind (code_lineOffset_p2c h1 hc) (fun lo lo' sA2 sB2 ⟨e, hc2, h2⟩ => ?_)
    subst e
    have hvl := view_getD_length_nat b c hp
    generalize (RCur.view b c).getD [] = line at hvl hbl ⊢
    have hbd := indentPosition_bounds line lo'
    generalize indentPosition line lo' 4 = pp at hbd ⊢
    obtain ⟨pos, pd⟩ := pp
    simp only at hbd ⊢
    by_cases hneg : pos < 0
    · rw [if_pos hneg, if_pos hneg]
      exact P2.pure ⟨rfl, h2⟩
    · rw [if_neg hneg, if_neg hneg]
      have hnb : isBlank line = false := by
        cases hh : isBlank line with
        | true => exact absurd hh hbl
        | false => rfl
      obtain ⟨_, _, hb3, _⟩ := hbd (by omega)
      have hlt := hb3 hnb
      refine P2.bind (codeTakeLine_p2 hF h2 hc2 node (by omega) pd) (fun _ _ sA4 sB4 ⟨_, h4⟩ => ?_)
      exact P2.pure ⟨rfl, h4 ⟨hp, by omega⟩⟩

theorem codeContinue_simW (F : Frame) (hF : F.OK) (b : Bytes) : ContinueSimW F b .code :=
  fun node sA sB h hl => cw_of_post (cw_codeContinue F hF b node sA sB h hl)

/-! ### blockquote.go -/

theorem cw_blockquoteContinue (F : Frame) (b : Bytes) : ∀ node sA sB, SR F b sA sB → HasLine b sA →
    P2 (fun x y sA' sB' => y = x ∧ SR F b sA' sB') (bpContinue .blockquote node sA) (bpContinue .blockquote (F.ι node) sB) := by
  intro node sA sB h _
  show P2 _ (blockquoteContinue node sA) (blockquoteContinue (F.ι node) sB)
  unfold blockquoteContinue
  refine P2.bind (blockquoteProcess_p2 h) (fun x y sA1 sB1 ⟨hy, h1⟩ => ?_)
  subst hy
  by_cases hx : y = true
  · rw [if_pos hx]; exact P2.pure ⟨rfl, h1⟩
  · rw [if_neg hx]; exact P2.pure ⟨rfl, h1⟩

theorem blockquoteContinue_simW (F : Frame) (b : Bytes) : ContinueSimW F b .blockquote :=
  fun node sA sB h hl => cw_of_post (cw_blockquoteContinue F b node sA sB h hl)

/-! ### html_block.go -/

theorem cw_htmlContinue (F : Frame) (b : Bytes) : ∀ node sA sB, SR F b sA sB → HasLine b sA →
    P2 (fun x y sA' sB' => y = x ∧ SR F b sA' sB') (bpContinue .html node sA) (bpContinue .html (F.ι node) sB) := by
  intro node sA sB h _
  show P2 _ (htmlContinue node sA) (htmlContinue (F.ι node) sB)
  unfold htmlContinue
  refine P2.bind (getNode_p2 h node) (fun n m sA0 sB0 ⟨_, hm, e1, e2⟩ => ?_)
  subst hm e1 e2
  refine P2.bind (peekLine_p2 h) (fun x y sA1 sB1 ⟨⟨c, hc, hx⟩, hy, h1⟩ => ?_)
  subst hx hy
  simp only
  have hty : (shN F (node == 0) n).htmlType = n.htmlType := rfl
  rw [hty, shN_lines, List.length_map]
  have hn := qh_html_adv_nonneg hc
  have hs0 : ¬ (RCur.seg b c).start < 0 := by simp [RCur.seg]
  generalize (RCur.view b c).getD [] = line at hn ⊢
  generalize RCur.seg b c = segment at hn hs0 ⊢
  have hcl : ∀ v, (if (n.htmlType == 1) = true then type1Close v
      else if (n.htmlType == 2) = true then containsSub (strBytes "-->") v
      else if (n.htmlType == 3) = true then containsSub (strBytes "?>") v
      else if (n.htmlType == 4) = true then containsSub (strBytes ">") v
      else containsSub (strBytes "]]>") v) = qh_htmlCloses n.htmlType v := fun v => rfl
  simp only [hcl]
  have fin : ∀ sA2 sB2, SR F b sA2 sB2 → P2 (fun x y sA' sB' => y = x ∧ SR F b sA' sB')
      ((do appendLine node segment
           advance (segment.len - trimRightSpaceLength line)
           pure stContinueNoChildren : M PState) sA2)
      ((do appendLine (F.ι node) (moveSeg F.d segment)
           advance ((moveSeg F.d segment).len - trimRightSpaceLength line)
           pure stContinueNoChildren : M PState) sB2) := by
    intro sA2 sB2 h2
    refine P2.bind (appendLine_p2 h2 node rfl) (fun _ _ sA3 sB3 h3 => ?_)
    refine P2.bind (advance_p2 h3 (by rw [moveSeg_len]) hn) (fun _ _ sA4 sB4 h4 => ?_)
    exact P2.pure ⟨rfl, h4⟩
  have mid : ∀ sA2 sB2, SR F b sA2 sB2 → P2 (fun x y sA' sB' => y = x ∧ SR F b sA' sB')
      ((if qh_htmlCloses n.htmlType line = true then do
            modNode node fun n => { n with closure := segment }
            advance (segment.len - trimRightSpaceLength line)
            pure stClose
          else do
            appendLine node segment
            advance (segment.len - trimRightSpaceLength line)
            pure stContinueNoChildren : M PState) sA2)
      ((if qh_htmlCloses n.htmlType line = true then do
            modNode (F.ι node) fun n => { n with closure := moveSeg F.d segment }
            advance ((moveSeg F.d segment).len - trimRightSpaceLength line)
            pure stClose
          else do
            appendLine (F.ι node) (moveSeg F.d segment)
            advance ((moveSeg F.d segment).len - trimRightSpaceLength line)
            pure stContinueNoChildren : M PState) sB2) := by
    intro sA2 sB2 h2
    by_cases hc1 : qh_htmlCloses n.htmlType line = true
    · rw [if_pos hc1, if_pos hc1]
      refine P2.bind (modNode_p2 h2 node _ _ (fun a => by simp [shN, shClosure, hs0]) (fun _ => rfl))
        (fun _ _ sA3 sB3 h3 => ?_)
      refine P2.bind (advance_p2 h3 (by rw [moveSeg_len]) hn) (fun _ _ sA4 sB4 h4 => ?_)
      exact P2.pure ⟨rfl, h4⟩
    · rw [if_neg hc1, if_neg hc1]; exact fin _ _ h2
  by_cases hc0 : (decide (1 ≤ n.htmlType) && decide (n.htmlType ≤ 5)) = true
  · rw [if_pos hc0, if_pos hc0]
    by_cases hc1 : (n.lines.length == 1) = true
    · rw [if_pos hc1, if_pos hc1]
      refine P2.bind (P := fun s t sA' sB' => t = moveSeg F.d s ∧ sA' = sA1 ∧ sB' = sB1)
        (P2.liftE (fun s t e1 e2 => ?_)) (fun l1 l1' sA3 sB3 ⟨ht, e1, e2⟩ => ?_)
      · rw [lineAt_sh F.d e1] at e2; cases e2; exact ⟨rfl, rfl, rfl⟩
      subst ht e1 e2
      refine P2.bind (source_p2 h1) (fun a a' sA2 sB2 ⟨ha, hb, e1, e2⟩ => ?_)
      subst e1 e2
      rw [ha, hb]
      refine P2.bind (P := fun s t sA' sB' => t = s ∧ sA' = sA2 ∧ sB' = sB2)
        (P2.liftE (fun s t e1 e2 => ?_)) (fun v v' sA3 sB3 ⟨ht, e1, e2⟩ => ?_)
      · rw [value_ok_shift F b e1] at e2; cases e2; exact ⟨rfl, rfl, rfl⟩
      subst ht e1 e2
      by_cases hc2 : qh_htmlCloses n.htmlType v' = true
      · rw [if_pos hc2, if_pos hc2]; exact P2.pure ⟨rfl, h1⟩
      · rw [if_neg hc2, if_neg hc2]; exact mid _ _ h1
    · rw [if_neg hc1, if_neg hc1]; exact mid _ _ h1
  · rw [if_neg hc0, if_neg hc0]
    by_cases hc1 : (n.htmlType == 6 || n.htmlType == 7) = true
    · rw [if_pos hc1, if_pos hc1]
      by_cases hc2 : isBlank line = true
      · rw [if_pos hc2, if_pos hc2]; exact P2.pure ⟨rfl, h1⟩
      · rw [if_neg hc2, if_neg hc2]; exact fin _ _ h1
    · rw [if_neg hc1, if_neg hc1]; exact fin _ _ h1

theorem htmlContinue_simW (F : Frame) (b : Bytes) : ContinueSimW F b .html :=
  fun node sA sB h hl => cw_of_post (cw_htmlContinue F b node sA sB h hl)

/-! ### fcode_block.go -/

/-- the content branch (fcode_block.go:88-106): the answer is "Continue, no children"; the last
    `AdvanceAndSetPadding` may go backwards, so only the limbo relation is claimed -/
theorem cw_fencedTail_p2 {F : Frame} {b : Bytes} {sA sB : St} (hF : F.OK) (h : SR F b sA sB) (line : Bytes)
    (seg : Segment) (node : Nat) (lo : Int) (fd : FenceData) :
    P2 (fun x y sA' sB' => y = x ∧ SRLim F b sA' sB' ∧ ((x.cont = true ∧ x.hasChildren = false) ∨ SR F b sA' sB'))
      (fencedTail node line seg lo fd sA)
      (fencedTail (F.ι node) line (moveSeg F.d seg) lo (shF F fd) sB) := by
  unfold fencedTail
  have e1 : fencedPP line (moveSeg F.d seg) lo (shF F fd).indent = fencedPP line seg lo fd.indent := rfl
  have e2 : (shF F fd).indent = fd.indent := rfl
  rw [e1, e2]
  generalize fencedPP line seg lo fd.indent = pp
  unfold fencedStore
  simp only
  have hseg : ({ start := (moveSeg F.d seg).start + pp.1, stop := (moveSeg F.d seg).stop, padding := pp.2 } : Segment) =
      moveSeg F.d { start := seg.start + pp.1, stop := seg.stop, padding := pp.2 } := by
    simp only [moveSeg, Segment.mk.injEq, and_true]; omega
  rw [hseg]
  have hadv : (moveSeg F.d seg).stop - (moveSeg F.d seg).start - pp.1 - 1 = seg.stop - seg.start - pp.1 - 1 := by
    simp only [moveSeg]; omega
  rw [hadv]
  have rest : ∀ (sg : Segment) (sA1 sB1 : St), SR F b sA1 sB1 →
      P2 (fun x y sA' sB' => y = x ∧ SRLim F b sA' sB' ∧ ((x.cont = true ∧ x.hasChildren = false) ∨ SR F b sA' sB'))
      ((appendLine node { sg with forceNewline := true } >>= fun _ =>
        advanceAndSetPadding (seg.stop - seg.start - pp.1 - 1) pp.2 >>= fun _ => pure stContinueNoChildren) sA1)
      ((appendLine (F.ι node) { moveSeg F.d sg with forceNewline := true } >>= fun _ =>
        advanceAndSetPadding (seg.stop - seg.start - pp.1 - 1) pp.2 >>= fun _ =>
          pure stContinueNoChildren) sB1) := by
    intro sg sA1 sB1 h1
    refine P2.bind (appendLine_p2 h1 node rfl) (fun _ _ sA2 sB2 h2 => ?_)
    refine P2.bind (eof_advanceAndSetPadding_limbo h2 _ _) (fun _ _ sA3 sB3 h3 => ?_)
    exact P2.pure ⟨rfl, h3, .inl ⟨rfl, rfl⟩⟩
  by_cases hc : (pp.2 != 0) = true
  · rw [if_pos hc, if_pos hc]
    refine P2.bind (fc_preserveLeadingTab_p2 hF h _ _) (fun sg sg' sA1 sB1 ⟨e, h1⟩ => ?_)
    subst e
    exact rest sg sA1 sB1 h1
  · rw [if_neg hc, if_neg hc]
    refine P2.bind (P := fun x y sA' sB' => y = moveSeg F.d x ∧ SR F b sA' sB') (P2.pure ⟨rfl, h⟩)
      (fun sg sg' sA1 sB1 ⟨e, h1⟩ => ?_)
    subst e
    exact rest sg sA1 sB1 h1

theorem fencedContinue_simW (F : Frame) (hF : F.OK) (b : Bytes) : ContinueSimW F b .fenced := by
  intro node sA sB h hl
  show P2 _ (fencedContinue' node sA) (fencedContinue' (F.ι node) sB)
  unfold fencedContinue'
  obtain ⟨c, hc, hp⟩ := hl
  have hpk : P2 (fun x y sA' sB' => x = (RCur.view b c, RCur.seg b c) ∧ y = (x.1, moveSeg F.d x.2) ∧ SR F b sA' sB')
      (peekLine sA) (peekLine sB) := by
    obtain ⟨r', e1, e2⟩ := ri_peekLine hc
    have hB : sB.r.peekLine = .ok ((RCur.view b c, moveSeg F.d (RCur.seg b c)), shR F r') := by
      rw [h.r, peekLine_sh F _ (RI.start_nonneg hc), e1]; rfl
    unfold GM.Blocks.peekLine
    rw [e1, hB]
    exact P2.ok ⟨rfl, rfl, h.withR e2⟩
  refine P2.bind hpk (fun x y sA1 sB1 ⟨hx, hy, h1⟩ => ?_)
  subst hy hx
  simp only
  refine P2.bind (getPc_p2 h1) (fun x y sA2 sB2 ⟨hx, hy, hxy, e1, e2⟩ => ?_)
  subst e1 e2
  rw [hxy.fence]
  cases x.fence with
  | none => exact P2.bind (P := fun _ _ _ _ => False) P2.throwL (fun _ _ _ _ hh => hh.elim)
  | some f =>
    simp only [Option.map]
    refine P2.bind (P := fun s t sA' sB' => s = f ∧ t = shF F f ∧ sA' = sA2 ∧ sB' = sB2) (P2.pure ⟨rfl, rfl, rfl, rfl⟩)
      (fun fd fd' sA3 sB3 ⟨e0, e0', e1, e2⟩ => ?_)
    subst e0 e0' e1 e2
    refine P2.bind (lineOffset_p2 h1) (fun lo lo' sA3 sB3 ⟨hlo, _, h3⟩ => ?_)
    subst hlo
    have tail := cw_fencedTail_p2 hF h3 ((RCur.view b c).getD []) (RCur.seg b c) node lo' fd
    have ec : (shF F fd).char = fd.char := rfl
    have el : (shF F fd).length = fd.length := rfl
    rw [ec, el]
    obtain ⟨l, hv, hlen, hlpos, hss, hpad⟩ := view_some_facts (b := b) (c := c) hp
    generalize hline : (RCur.view b c).getD [] = line at tail ⊢
    have hll : (line.length : Int) = (RCur.seg b c).len := by rw [← hline, hv]; exact hlen
    generalize (indentWidthI line lo').2 = pos
    generalize (indentWidthI line lo').1 = w
    generalize scanWhileEq line fd.char pos = i
    by_cases hc1 : w < 4
    · rw [if_pos hc1, if_pos hc1]
      by_cases hc2 : i - pos ≥ fd.length
      · rw [if_pos hc2, if_pos hc2]
        refine P2.bind (P := fun s t sA' sB' => t = s ∧ sA' = sA3 ∧ sB' = sB3)
          (P2.liftE_same (fun a _ => ⟨rfl, rfl, rfl⟩)) (fun rest0 rest sA4 sB4 ⟨ht, e1, e2⟩ => ?_)
        subst ht e1 e2
        by_cases hc3 : isBlank rest = true
        · rw [if_pos hc3, if_pos hc3]
          refine P2.bind (P := fun s t sA' sB' => t = s ∧ sA' = sA4 ∧ sB' = sB4)
            (P2.liftE_same (fun a _ => ⟨rfl, rfl, rfl⟩)) (fun last0 last sA5 sB5 ⟨ht, e1, e2⟩ => ?_)
          subst ht e1 e2
          refine P2.bind (advance_p2 h3 (by simp only [moveSeg]; omega) ?_) (fun _ _ sA6 sB6 h5 => ?_)
          · simp only [Segment.len] at hll
            split <;> omega
          exact P2.pure ⟨rfl, h5.limbo, .inr h5⟩
        · rw [if_neg hc3, if_neg hc3]; exact tail
      · rw [if_neg hc2, if_neg hc2]; exact tail
    · rw [if_neg hc1, if_neg hc1]; exact tail

/-! ### the covered parser set: everything but the list parsers -/

theorem psimW_notList (F : Frame) (hF : F.OK) (b : Bytes) : PSimW F b NotList where
  op := by
    intro bp h
    cases bp with
    | setext => exact setextOpen_sim F b
    | thematic => exact thematicOpen_sim F b
    | list => exact absurd rfl h.1
    | listItem => exact absurd rfl h.2
    | code => exact codeOpen_sim F hF b
    | atx => exact atxOpen_sim F b
    | fenced => exact fencedOpen_sim F b
    | blockquote => exact blockquoteOpen_sim F b
    | html => exact htmlOpen_sim F b
    | paragraph => exact paragraphOpen_sim F b
  co := by
    intro bp h
    cases bp with
    | setext => exact setextContinue_simW F b
    | thematic => exact thematicContinue_simW F b
    | list => exact absurd rfl h.1
    | listItem => exact absurd rfl h.2
    | code => exact codeContinue_simW F hF b
    | atx => exact atxContinue_simW F b
    | fenced => exact fencedContinue_simW F hF b
    | blockquote => exact blockquoteContinue_simW F b
    | html => exact htmlContinue_simW F b
    | paragraph => exact paragraphContinue_simW F b
  coEof := by
    intro bp h
    cases bp with
    | setext => exact eof_setextContinue F b
    | thematic => exact eof_thematicContinue F b
    | list => exact absurd rfl h.1
    | listItem => exact absurd rfl h.2
    | code => exact eof_codeContinue F b
    | atx => exact eof_atxContinue F b
    | fenced => exact eof_fencedContinue F hF b
    | blockquote => exact eof_blockquoteContinue F b
    | html => exact eof_htmlContinue F b
    | paragraph => exact eof_paragraphContinue F b
  cl := by
    intro bp h
    cases bp with
    | setext => exact setextClose_sim F hF b
    | thematic => exact thematicClose_sim F b
    | list => exact absurd rfl h.1
    | listItem => exact listItemClose_sim F b
    | code => exact codeClose_sim F b
    | atx => exact atxClose_sim F b
    | fenced => exact fencedClose_sim F b
    | blockquote => exact blockquoteClose_sim F b
    | html => exact htmlClose_sim F b
    | paragraph => exact paragraphClose_sim F hF b

end GM.Blocks.Sh
