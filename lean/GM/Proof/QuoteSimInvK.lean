/-
  GM.Proof.QuoteSimInvK — kinds never change (unary facts about ONE run, for the original run of the C08 simulation).
  * `KGn n n'`: the store did not shrink and every existing node kept its kind. Kept by `Open` / `Continue` / `Close`
    of the eight block parsers that are not list parsers and by the tree operations (`Keeps` calculus, tactic `kgk`:
    every `modNode` of the model keeps the kind, `newNode` appends).
  * `PKL l nodes`: every block of `l` whose parser is the paragraph or the setext parser has a node that is not raw
    (not CodeBlock / FencedCodeBlock / HTMLBlock). The driver carries it for `pc.openedBlocks` (`AInv.pk`): it is what
    `paragraphParser.Close` (which trims lines) and `setextHeadingParser.Close` (which replaces lines) need, because the
    relation keeps "no empty line segment" for raw nodes only (`NodeRel.rawNE`).
  * `paragraphOpen_nr`, `setextOpen_nr`: the node these two `Open`s return is the fresh node, a Paragraph / Heading.
-/
import GM.Proof.QuoteSimInv
import GM.Proof.QuoteSimRel
import GM.Proof.BlocksInv

namespace GM.Blocks
open GM GM.Text

def KGn (n n' : List Node) : Prop :=
  n.length ≤ n'.length ∧ ∀ i, i < n.length → (n'.getD i default).kind = (n.getD i default).kind

theorem KGn.refl (n : List Node) : KGn n n := ⟨Nat.le_refl _, fun _ _ => rfl⟩

theorem KGn.trans {a b c : List Node} (h1 : KGn a b) (h2 : KGn b c) : KGn a c :=
  ⟨Nat.le_trans h1.1 h2.1, fun i hi => (h2.2 i (Nat.lt_of_lt_of_le hi h1.1)).trans (h1.2 i hi)⟩

theorem KGn.of_eq {a b : List Node} (h : b = a) : KGn a b := by rw [h]; exact KGn.refl a

/-- parser/kind consistency: every block of the list has a node of the store, of the kind its parser builds -/
def PKL (l : List Block) (nodes : List Node) : Prop :=
  ∀ b ∈ l, b.node < nodes.length ∧ (nodes.getD b.node default).kind = b.bp.kind

theorem PKL.kg {l : List Block} {n n' : List Node} (h : PKL l n) (hk : KGn n n') : PKL l n' :=
  fun b hb => ⟨Nat.lt_of_lt_of_le (h b hb).1 hk.1, by rw [hk.2 _ (h b hb).1]; exact (h b hb).2⟩

/-- blocks opened by the paragraph / setext parser have nodes that are not raw -/
theorem PKL.nr {l : List Block} {n : List Node} (h : PKL l n) {b : Block} (hb : b ∈ l)
    (hbp : b.bp = .paragraph ∨ b.bp = .setext) : rawK (n.getD b.node default).kind = false := by
  rw [(h b hb).2]
  rcases hbp with e | e <;> rw [e] <;> rfl

theorem PKL.sub {l l' : List Block} {n : List Node} (h : PKL l n) (hs : ∀ b ∈ l', b ∈ l) : PKL l' n :=
  fun b hb => h b (hs b hb)

theorem PKL.nil (n : List Node) : PKL [] n := fun _ hb => by cases hb

/-- the invariant "the store grew from `n0`, kinds kept" as a state predicate -/
def KGI (n0 : List Node) : St → Prop := fun s => KGn n0 s.nodes

theorem kgi_noR (n0 : List Node) : NoR (KGI n0) := ⟨fun _ _ hs => hs⟩

theorem kgi_modPc (n0 : List Node) (f : Ctx → Ctx) : Keeps (KGI n0) (modPc f) := by
  intro s a s' hs h; cases h; exact hs

theorem kgn_set (n : List Node) (id : Nat) (x : Node) (hx : x.kind = (n.getD id default).kind) : KGn n (n.set id x) := by
  refine ⟨by simp, fun i _ => ?_⟩
  simp only [List.getD_eq_getElem?_getD, List.getElem?_set]
  by_cases hi : id = i
  · subst hi
    by_cases hl : id < n.length
    · simp only [hl, if_true, Option.getD_some]
      rw [hx]; simp [List.getD_eq_getElem?_getD]
    · simp [hl]
  · simp [hi]

theorem kgi_modNode (n0 : List Node) (id : Nat) (f : Node → Node) (hf : ∀ n, (f n).kind = n.kind) :
    Keeps (KGI n0) (modNode id f) := by
  intro s a s' hs h
  cases h
  exact KGn.trans hs (kgn_set _ _ _ (hf _))

theorem kgn_append (n : List Node) (x : Node) : KGn n (n ++ [x]) := by
  refine ⟨by simp, fun i hi => ?_⟩
  simp only [List.getD_eq_getElem?_getD]
  rw [List.getElem?_append_left hi]

theorem kgi_newNode (n0 : List Node) (n : Node) : Keeps (KGI n0) (newNode n) := by
  intro s a s' hs h
  cases h
  exact KGn.trans hs (kgn_append _ _)

macro "kgk_step" : tactic =>
  `(tactic| first
    | with_reducible apply Keeps.pure
    | with_reducible apply Keeps.bind
    | with_reducible apply Keeps.ite
    | with_reducible apply Keeps.throw
    | with_reducible apply getNode_keeps
    | with_reducible apply getPc_keeps
    | with_reducible apply source_keeps
    | with_reducible apply position_keeps
    | with_reducible apply get_keeps
    | with_reducible apply liftE_keeps
    | with_reducible apply lastOpenedBlock_keeps
    | (with_reducible apply peekLine_keeps; exact kgi_noR _)
    | (with_reducible apply lineOffset_keeps; exact kgi_noR _)
    | (with_reducible apply advance_keeps; exact kgi_noR _)
    | (with_reducible apply advanceAndSetPadding_keeps; exact kgi_noR _)
    | (with_reducible apply advanceLine_keeps; exact kgi_noR _)
    | (with_reducible apply setPosition_keeps; exact kgi_noR _)
    | (with_reducible apply skipBlankLinesR_keeps; exact kgi_noR _)
    | with_reducible apply kgi_modPc
    | ((with_reducible apply kgi_modNode); intro n; rfl)
    | with_reducible apply kgi_newNode
    | apply_hyp
    | intro_pi
    | split)

macro "kgk" : tactic => `(tactic| repeat' kgk_step)

section
variable (n0 : List Node)

theorem kg_appendLine (id : Nat) (seg : Segment) : Keeps (KGI n0) (appendLine id seg) := by unfold appendLine; kgk
theorem kg_removeChild (p c : Nat) : Keeps (KGI n0) (removeChild p c) := by unfold removeChild; kgk
theorem kg_ensureIsolated (c : Nat) : Keeps (KGI n0) (ensureIsolated c) := by
  have := kg_removeChild n0; unfold ensureIsolated; kgk
theorem kg_appendChild (p c : Nat) : Keeps (KGI n0) (appendChild p c) := by
  have := kg_ensureIsolated n0; unfold appendChild; kgk
theorem kg_insertBefore (p : Nat) (v1 : Option Nat) (ins : Nat) : Keeps (KGI n0) (insertBefore p v1 ins) := by
  have := kg_ensureIsolated n0; have := kg_appendChild n0; unfold insertBefore; kgk
theorem kg_nextSibling (c : Nat) : Keeps (KGI n0) (nextSibling c) := by unfold nextSibling; kgk
theorem kg_insertAfter (p : Nat) (v1 : Option Nat) (ins : Nat) : Keeps (KGI n0) (insertAfter p v1 ins) := by
  have := kg_appendChild n0; have := kg_nextSibling n0; have := kg_insertBefore n0; unfold insertAfter; kgk
theorem kg_preserveLeadingTab (seg : Segment) (ind : Int) : Keeps (KGI n0) (preserveLeadingTab seg ind) := by
  unfold preserveLeadingTab; kgk
theorem kg_paragraphOpen (p : Nat) : Keeps (KGI n0) (paragraphOpen p) := by
  have := kg_appendLine n0; unfold paragraphOpen; kgk
theorem kg_paragraphContinue (n : Nat) : Keeps (KGI n0) (paragraphContinue n) := by
  have := kg_appendLine n0; unfold paragraphContinue; kgk
theorem kg_paragraphClose (n : Nat) : Keeps (KGI n0) (paragraphClose n) := by
  have := kg_removeChild n0; unfold paragraphClose; kgk
theorem kg_thematicOpen (p : Nat) : Keeps (KGI n0) (thematicOpen p) := by unfold thematicOpen; kgk
theorem kg_atxOpen (p : Nat) : Keeps (KGI n0) (atxOpen p) := by
  have := kg_appendLine n0; unfold atxOpen; kgk
theorem kg_setextOpen (p : Nat) : Keeps (KGI n0) (setextOpen p) := by
  have := kg_appendLine n0; unfold setextOpen; kgk
theorem kg_setextClose (n : Nat) : Keeps (KGI n0) (setextClose n) := by
  have := kg_appendLine n0; have := kg_removeChild n0; have := kg_insertAfter n0; have := kg_nextSibling n0
  unfold setextClose; kgk
theorem kg_codeTakeLine (n : Nat) (pos padding : Int) : Keeps (KGI n0) (codeTakeLine n pos padding) := by
  have := kg_appendLine n0; have := kg_preserveLeadingTab n0; unfold codeTakeLine; kgk
theorem kg_codeOpen (p : Nat) : Keeps (KGI n0) (codeOpen p) := by
  have := kg_codeTakeLine n0; unfold codeOpen; kgk
theorem kg_codeContinue (n : Nat) : Keeps (KGI n0) (codeContinue n) := by
  have := kg_appendLine n0; have := kg_codeTakeLine n0; unfold codeContinue; kgk
theorem kg_codeClose (n : Nat) : Keeps (KGI n0) (codeClose n) := by unfold codeClose; kgk
theorem kg_fencedOpen (p : Nat) : Keeps (KGI n0) (fencedOpen p) := by unfold fencedOpen; kgk
theorem kg_fencedContinue (n : Nat) : Keeps (KGI n0) (fencedContinue n) := by
  have := kg_appendLine n0; have := kg_preserveLeadingTab n0; unfold fencedContinue; kgk
theorem kg_fencedClose (n : Nat) : Keeps (KGI n0) (fencedClose n) := by unfold fencedClose; kgk
theorem kg_blockquoteProcess : Keeps (KGI n0) blockquoteProcess := by unfold blockquoteProcess; kgk
theorem kg_blockquoteOpen (p : Nat) : Keeps (KGI n0) (blockquoteOpen p) := by
  have := kg_blockquoteProcess n0; unfold blockquoteOpen; kgk
theorem kg_blockquoteContinue (n : Nat) : Keeps (KGI n0) (blockquoteContinue n) := by
  have := kg_blockquoteProcess n0; unfold blockquoteContinue; kgk
theorem kg_htmlOpen (p : Nat) : Keeps (KGI n0) (htmlOpen p) := by
  have := kg_appendLine n0; unfold htmlOpen; kgk
theorem kg_htmlContinue (n : Nat) : Keeps (KGI n0) (htmlContinue n) := by
  have := kg_appendLine n0; unfold htmlContinue; kgk

theorem kg_bpOpen (bp : BP) (h : bp.notList = true) (p : Nat) : Keeps (KGI n0) (bpOpen bp p) := by
  cases bp <;> unfold bpOpen
  · exact kg_setextOpen n0 p
  · exact kg_thematicOpen n0 p
  · cases h
  · cases h
  · exact kg_codeOpen n0 p
  · exact kg_atxOpen n0 p
  · exact kg_fencedOpen n0 p
  · exact kg_blockquoteOpen n0 p
  · exact kg_htmlOpen n0 p
  · exact kg_paragraphOpen n0 p

theorem kg_bpContinue (bp : BP) (h : bp.notList = true) (n : Nat) : Keeps (KGI n0) (bpContinue bp n) := by
  cases bp <;> unfold bpContinue
  · exact Keeps.pure _
  · exact Keeps.pure _
  · cases h
  · cases h
  · exact kg_codeContinue n0 n
  · exact Keeps.pure _
  · exact kg_fencedContinue n0 n
  · exact kg_blockquoteContinue n0 n
  · exact kg_htmlContinue n0 n
  · exact kg_paragraphContinue n0 n

theorem kg_bpClose (bp : BP) (h : bp.notList = true) (n : Nat) : Keeps (KGI n0) (bpClose bp n) := by
  cases bp <;> unfold bpClose
  · exact kg_setextClose n0 n
  · exact Keeps.pure _
  · cases h
  · cases h
  · exact kg_codeClose n0 n
  · exact Keeps.pure _
  · exact kg_fencedClose n0 n
  · exact Keeps.pure _
  · exact Keeps.pure _
  · exact kg_paragraphClose n0 n

end

/-- from the invariant form to the relation between the two states -/
theorem kgn_of_keeps {α} {m : M α} (h : ∀ n0, Keeps (KGI n0) m) {s s' : St} {a : α} (e : m s = .ok (a, s')) :
    KGn s.nodes s'.nodes := h s.nodes s a s' (KGn.refl _) e

theorem nr_of_kg {n : Nat} {n4 n' : List Node} (h1 : n < n4.length) (h2 : rawK (n4.getD n default).kind = false)
    (hk : KGn n4 n') : n < n'.length ∧ rawK (n'.getD n default).kind = false :=
  ⟨Nat.lt_of_lt_of_le h1 hk.1, by rw [hk.2 n h1]; exact h2⟩

/-- the node of a block about to be pushed is not raw when its parser is the paragraph / setext parser -/
def NRn (bp : BP) (node : Nat) (nodes : List Node) : Prop :=
  node < nodes.length ∧ (nodes.getD node default).kind = bp.kind

theorem NRn.kg {bp : BP} {node : Nat} {n n' : List Node} (h : NRn bp node n) (hk : KGn n n') : NRn bp node n' :=
  ⟨Nat.lt_of_lt_of_le h.1 hk.1, by rw [hk.2 _ h.1]; exact h.2⟩

theorem PKL.push {l : List Block} {n : List Node} (h : PKL l n) {bp : BP} {node : Nat} (hn : NRn bp node n) :
    PKL (l ++ [{ node := node, bp := bp }]) n := by
  intro b hb
  rcases List.mem_append.mp hb with hb | hb
  · exact h b hb
  · simp only [List.mem_singleton] at hb; subst hb; exact hn

/-- the node `newNode lit` returns, in the state it leaves -/
theorem newNode_fresh {lit : Node} {s s4 : St} {n : Nat} (e : newNode lit s = .ok (n, s4)) :
    n < s4.nodes.length ∧ (s4.nodes.getD n default).kind = lit.kind := by
  unfold newNode at e
  cases e
  refine ⟨by simp, ?_⟩
  simp [List.getD_eq_getElem?_getD]

/-! ### the node an `Open` returns is the fresh node, of the kind the parser builds -/

/-- whatever node id `m` returns is a node of the final store, of kind `k` -/
structure OPK (k : Kind) (m : M (Option Nat × PState)) : Prop where
  h : ∀ s a s', m s = .ok (a, s') → ∀ id, a.1 = some id → id < s'.nodes.length ∧ (s'.nodes.getD id default).kind = k

theorem OPK.pure_none {k : Kind} (st : PState) : OPK k (pure (none, st)) :=
  ⟨fun _ _ _ h id hid => by cases h; cases hid⟩

theorem OPK.bind {k : Kind} {α} {m0 : M α} {f : α → M (Option Nat × PState)} (hf : ∀ x, OPK k (f x)) : OPK k (m0 >>= f) := by
  constructor
  intro s a s' h
  obtain ⟨x, s1, _, e⟩ := bind_inv_u h
  exact (hf x).h s1 a s' e

theorem OPK.ite {k : Kind} {c : Prop} [Decidable c] {a b : M (Option Nat × PState)} (ha : OPK k a) (hb : OPK k b) :
    OPK k (if c then a else b) := by split <;> assumption

theorem OPK.throw {k : Kind} (e : Panic) : OPK k (throw e) := ⟨fun _ _ _ h => by cases h⟩

/-- `newNode lit >>= g` where `g id` keeps all kinds and returns `some id` -/
theorem OPK.newNode {k : Kind} (lit : Node) (g : Nat → M (Option Nat × PState)) (hk : lit.kind = k)
    (hg : ∀ id, (∀ n0, Keeps (KGI n0) (g id)) ∧ Ret (g id) (fun a => a.1 = some id)) : OPK k (newNode lit >>= g) := by
  constructor
  intro s a s' h id hid
  obtain ⟨n, s4, e4, e⟩ := bind_inv_u h
  obtain ⟨hlt, hkn⟩ := newNode_fresh e4
  have hkg := (hg n).1 s4.nodes s4 a s' (KGn.refl _) e
  have hr := (hg n).2.h s4 a s' e
  rw [hr] at hid
  cases hid
  exact ⟨Nat.lt_of_lt_of_le hlt hkg.1, by rw [hkg.2 _ hlt, hkn, hk]⟩

macro "opk_step" : tactic =>
  `(tactic| first
    | with_reducible apply OPK.pure_none
    | ((with_reducible apply OPK.newNode) <;> (first | rfl | (intro id; exact ⟨fun n0 => by kgk, by ret⟩)))
    | with_reducible apply OPK.bind
    | with_reducible apply OPK.ite
    | with_reducible apply OPK.throw
    | intro_pi
    | split)

macro "opk" : tactic => `(tactic| repeat' opk_step)

theorem opk_paragraphOpen (p : Nat) : OPK .paragraph (paragraphOpen p) := by
  have := kg_appendLine; unfold paragraphOpen; opk
theorem opk_thematicOpen (p : Nat) : OPK .thematicBreak (thematicOpen p) := by unfold thematicOpen; opk
theorem opk_atxOpen (p : Nat) : OPK .heading (atxOpen p) := by
  have := kg_appendLine; unfold atxOpen; opk
theorem opk_setextOpen (p : Nat) : OPK .heading (setextOpen p) := by
  have := kg_appendLine; unfold setextOpen; opk
theorem opk_codeOpen (p : Nat) : OPK .codeBlock (codeOpen p) := by
  have := kg_codeTakeLine; unfold codeOpen; opk
theorem opk_fencedOpen (p : Nat) : OPK .fencedCodeBlock (fencedOpen p) := by unfold fencedOpen; opk
theorem opk_blockquoteOpen (p : Nat) : OPK .blockquote (blockquoteOpen p) := by unfold blockquoteOpen; opk
theorem opk_htmlOpen (p : Nat) : OPK .htmlBlock (htmlOpen p) := by
  have := kg_appendLine; unfold htmlOpen; opk

/-- `Open` of the eight parsers that are not list parsers: the node it returns is a node of the store of the kind the
    parser builds (`BP.kind`) -/
theorem bpOpen_kind (bp : BP) (h : bp.notList = true) (p : Nat) {s s' : St} {a : Option Nat × PState}
    (e : bpOpen bp p s = .ok (a, s')) (id : Nat) (hid : a.1 = some id) : NRn bp id s'.nodes := by
  cases bp <;> unfold bpOpen at e
  · exact (opk_setextOpen p).h s a s' e id hid
  · exact (opk_thematicOpen p).h s a s' e id hid
  · cases h
  · cases h
  · exact (opk_codeOpen p).h s a s' e id hid
  · exact (opk_atxOpen p).h s a s' e id hid
  · exact (opk_fencedOpen p).h s a s' e id hid
  · exact (opk_blockquoteOpen p).h s a s' e id hid
  · exact (opk_htmlOpen p).h s a s' e id hid
  · exact (opk_paragraphOpen p).h s a s' e id hid

end GM.Blocks
