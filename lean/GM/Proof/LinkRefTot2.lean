/-
  GM.Proof.LinkRefTot2 — `linkReferenceParagraphTransformer.Transform` (link_ref.go:16-54, GM.LinkRef.transform) is TOTAL on
  the paragraphs it really gets: lines well-formed WITH ANY paddings (`WFSegs`), none of them blank — or no lines at all —
  and a parent to hand the replacement to. No Go panic (scan, `Sliced` / `SetSliced`, `Parent().ReplaceChild`), no fuel
  exhaustion, none of the monitors of the model fires (progress monitor, the stale-elements check of `removeLoop`, contract
  monitor (3) of `finishLines`). The result is the contract `PTPost` of GM.Proof.BlocksTNPSpec: the paragraph loses an
  initial segment of its lines, or — all lines gone — is replaced in its parent by an empty TextBlock.

  `guardE e`: Transform behind the run-time check of exactly that hypothesis, with the check's outcome `e` as a PARAMETER
  (so that theorems of the form "the run ends normally or with `e`", for EVERY `e`, say that the check is the only source of
  an abnormal end). `GM.LinkRef.guardedTransform` (the check of the composition GM.Model.Convert: `WFSegs` only, outcome `pre`)
  agrees with `guardE .pre` whenever no line of the paragraph is blank.
-/
import GM.Proof.LinkRefAdj3
import GM.Proof.LinkRefFacts
import GM.Proof.BlocksTNPSpec
import GM.Proof.LinkRefPres

namespace GM.LinkRef
open GM GM.Text GM.Blocks

/-- no line is blank (the bytes of the line; virtual padding is white space anyway) -/
def noBlankB (src : Bytes) (segs : List Segment) : Bool :=
  segs.all fun s => !isBlank (sub src s.start.toNat s.stop.toNat)

/-- the lines a paragraph may hand to the transformer: none, or well-formed (any paddings) and none of them blank -/
def linesOKB (src : Bytes) (segs : List Segment) : Bool :=
  segs.length == 0 || (wfSegsB src segs && noBlankB src segs)

/-- `Transform` behind the run-time check `linesOKB`; the check answers `e` -/
def guardE (e : Panic) (node : Nat) : M Unit := do
  let n ← getNode node
  let src ← source
  if !linesOKB src n.lines then throw e
  transform node

end GM.LinkRef

namespace GM.Proof.LinkRefTot2
open GM GM.Text GM.Spec GM.Inl GM.LinkRef GM.Blocks GM.Proof.Reader GM.Proof.InlinesReader
open GM.Proof.LinkRefPad GM.Proof.LinkRefAdj GM.Proof.LinkRefFacts GM.Proof.LinkRefTotal

theorem noBlankB_sound {src : Bytes} {segs : List Segment} (h : noBlankB src segs = true) : NoBlank src segs := by
  intro j h0 h1
  have hg := segOf_get segs j h0 h1
  have hm := List.mem_of_getElem? hg
  simp only [noBlankB, List.all_eq_true, Bool.not_eq_true'] at h
  exact h _ hm

/-- the lines are fit for the transformer -/
def TLinesOK (src : Bytes) (lines : List Segment) : Prop := lines = [] ∨ (WFSegs src lines ∧ NoBlank src lines)

theorem linesOKB_sound {src : Bytes} {l : List Segment} (h : linesOKB src l = true) : TLinesOK src l := by
  simp only [linesOKB, Bool.or_eq_true, beq_iff_eq, Bool.and_eq_true] at h
  rcases h with h | ⟨h1, h2⟩
  · exact .inl (List.eq_nil_of_length_eq_zero h)
  · exact .inr ⟨wfSegsB_sound h1, noBlankB_sound h2⟩

/-- **the scan** on lines fit for the transformer -/
theorem transformScan_linesOK {src : Bytes} {lines : List Segment} (h : TLinesOK src lines) (refs : RefMap) :
    ∃ rm refs', transformScan src lines refs = .ok (rm, refs') ∧ adjacentB 0 rm = true ∧ lastEndOf 0 rm ≤ lines.length := by
  rcases h with h | ⟨W, hnb⟩
  · subst h
    exact ⟨[], refs, transformScan_nil src refs, rfl, by simp [lastEndOf]⟩
  · obtain ⟨rm, refs', e, h⟩ := transformScan_ok (NB := True) W (fun _ => hnb) refs
    exact ⟨rm, refs', e, (h trivial).1, (h trivial).2⟩

/-- **the second loop behind contract monitor (3)**: the monitor does not fire, no `slice` panic, no stale-elements
    `pre`; the result is the lines without their first `lastEnd` ones -/
theorem finishLines_ok {rm : List (Int × Int)} {lines : List Segment} (ha : adjacentB 0 rm = true)
    (hl : lastEndOf 0 rm ≤ lines.length) :
    finishLines rm lines = .ok (lines.drop (lastEnd 0 rm).toNat) := by
  unfold finishLines
  have hd : decide (lastEndOf 0 rm ≤ (lines.length : Int)) = true := decide_eq_true hl
  simp only [ha, hd, Bool.and_self, Bool.not_true, Bool.false_eq_true, if_false]
  have := removeLoop_front rm 0 lines (adjacentB_sound rm 0 ha) (by rw [← lastEndOf_eq]; omega)
  simpa using this

/-! ### the tree surgery never panics -/

theorem removeChild_tot (p c : Nat) (s : GM.Blocks.St) : ∃ s', removeChild p c s = .ok ((), s') ∧ s'.r = s.r ∧ s'.pc = s.pc := by
  unfold removeChild
  simp only [bind, StateT.bind, getNode, modNode, pure, StateT.pure, Except.pure, Except.bind]
  split <;> exact ⟨_, rfl, rfl, rfl⟩

theorem ensureIsolated_tot (c : Nat) (s : GM.Blocks.St) : ∃ s', ensureIsolated c s = .ok ((), s') ∧ s'.r = s.r ∧ s'.pc = s.pc := by
  unfold ensureIsolated
  simp only [bind, StateT.bind, getNode, pure, StateT.pure, Except.pure, Except.bind]
  cases hq : (s.nodes.getD c default).parent with
  | some q => exact removeChild_tot _ _ _
  | none => exact ⟨_, rfl, rfl, rfl⟩

theorem appendChild_tot (p c : Nat) (s : GM.Blocks.St) : ∃ s', appendChild p c s = .ok ((), s') ∧ s'.r = s.r ∧ s'.pc = s.pc := by
  unfold appendChild
  obtain ⟨s1, h1, h2, h3⟩ := ensureIsolated_tot c s
  simp only [bind, StateT.bind, h1, modNode, pure, StateT.pure, Except.pure, Except.bind]
  exact ⟨_, rfl, h2, h3⟩

theorem insertBefore_tot (p : Nat) (v : Option Nat) (ins : Nat) (s : GM.Blocks.St) :
    ∃ s', insertBefore p v ins s = .ok ((), s') ∧ s'.r = s.r ∧ s'.pc = s.pc := by
  unfold insertBefore
  cases v with
  | none => exact appendChild_tot _ _ _
  | some v =>
    simp only [bind, StateT.bind, getNode, pure, StateT.pure, Except.pure, Except.bind]
    by_cases hc : ((s.nodes.getD v default).parent != some p) = true
    · simp only [hc, if_true]; exact appendChild_tot _ _ _
    · simp only [hc, Bool.false_eq_true, if_false]
      obtain ⟨s1, h1, h2, h3⟩ := ensureIsolated_tot ins s
      simp only [bind, StateT.bind, h1, Except.bind, modNode, pure, StateT.pure, Except.pure]
      exact ⟨_, rfl, h2, h3⟩

theorem replaceChild_tot (p v ins : Nat) (s : GM.Blocks.St) : ∃ s', replaceChild p v ins s = .ok ((), s') ∧ s'.r = s.r ∧ s'.pc = s.pc := by
  unfold replaceChild
  obtain ⟨s1, h1, a1, b1⟩ := insertBefore_tot p (some v) ins s
  obtain ⟨s2, h2, a2, b2⟩ := removeChild_tot p v s1
  simp only [bind, StateT.bind, h1, Except.bind, h2]
  exact ⟨_, rfl, by rw [a2, a1], by rw [b2, b1]⟩

theorem ptReplace_tot (node p : Nat) (bp : Bool) (s : GM.Blocks.St) :
    ∃ s', ptReplace node p bp s = .ok ((), s') ∧ s'.r = s.r ∧ s'.pc = s.pc := by
  unfold ptReplace
  simp only [bind, StateT.bind, newNode, pure, StateT.pure, Except.pure, Except.bind]
  exact replaceChild_tot _ _ _ _

/-! ### Transform -/

/-- **Transform is total** on a paragraph whose lines are fit for it and that has a parent; what it does is `PTPost` -/
theorem transform_total (node : Nat) (s : GM.Blocks.St) (hl : TLinesOK s.r.source (nd s node).lines)
    (hp : (nd s node).parent.isSome = true) :
    ∃ s', transform node s = .ok ((), s') ∧ PTPost node s s' := by
  obtain ⟨rm, refs', e1, a1, a2⟩ := transformScan_linesOK hl s.pc.refs
  have e2 := finishLines_ok a1 a2
  obtain ⟨p, hpar⟩ := Option.isSome_iff_exists.1 hp
  unfold transform transformFinish
  simp only [bind, StateT.bind, getNode, source, getPc, pure, StateT.pure, Except.pure, Except.bind, liftE, Except.map, modPc,
    modNode]
  have hnd : s.nodes.getD node default = nd s node := rfl
  simp only [hnd, e1, e2]
  by_cases hlen : (((nd s node).lines.drop (lastEnd 0 rm).toNat).length == 0) = true
  · -- all lines gone: the TextBlock takes the paragraph's place
    simp only [hlen, if_true, hpar]
    have hnil : (nd s node).lines.drop (lastEnd 0 rm).toNat = [] :=
      List.eq_nil_of_length_eq_zero (by simpa using hlen)
    obtain ⟨s', hs', hr', _⟩ := ptReplace_tot node p (nd s node).blankPrev (ptEmptied s node refs')
    refine ⟨s', ?_, ?_⟩
    · have := hs'
      simp only [ptReplace, ptEmptied, bind, StateT.bind, newNode, pure, StateT.pure, Except.pure, Except.bind, hpar] at this
      simp only [newNode, hnil]
      exact this
    · exact ⟨by rw [hr']; rfl, .inr ⟨refs', p, hpar, hs'⟩⟩
  · simp only [hlen, Bool.false_eq_true, if_false]
    refine ⟨_, rfl, rfl, .inl ⟨refs', (lastEnd 0 rm).toNat, ?_, rfl⟩⟩
    have : ((nd s node).lines.drop (lastEnd 0 rm).toNat).length ≠ 0 := by simpa using hlen
    omega

/-! ### without "no line is blank": everything but contract monitor (3) -/

/-- **the scan is total on well-formed lines with any paddings** (or none) — blank lines allowed: no Go panic, no fuel
    exhaustion, the progress monitor does not fire -/
theorem transformScan_total_wf {src : Bytes} {lines : List Segment} (h : lines = [] ∨ WFSegs src lines) (refs : RefMap) :
    ∃ res, transformScan src lines refs = .ok res := by
  rcases h with h | W
  · subst h; exact ⟨_, transformScan_nil src refs⟩
  · obtain ⟨rm, refs', e, _⟩ := transformScan_ok (NB := False) W (fun hN => absurd hN id) refs
    exact ⟨_, e⟩

/-- the second stage answers a line list or the monitor's `pre` — never a `slice` panic -/
theorem finishLines_ok_or_pre (rm : List (Int × Int)) (lines : List Segment) :
    finishLines rm lines = .ok (lines.drop (lastEnd 0 rm).toNat) ∨ finishLines rm lines = .error .pre := by
  by_cases hc : (adjacentB 0 rm && decide (lastEndOf 0 rm ≤ (lines.length : Int))) = true
  · simp only [Bool.and_eq_true, decide_eq_true_eq] at hc
    exact .inl (finishLines_ok hc.1 hc.2)
  · right
    unfold finishLines
    simp only [hc, Bool.not_false, if_true]

/-- **Transform on a paragraph with well-formed lines (any paddings; blank lines allowed) and a parent: `PTPost`, or contract
    monitor (3) answered `pre` — never a Go panic, never the fuel error** -/
theorem transform_total_wf (node : Nat) (s : GM.Blocks.St)
    (hl : (nd s node).lines = [] ∨ WFSegs s.r.source (nd s node).lines) (hp : (nd s node).parent.isSome = true) :
    (∃ s', transform node s = .ok ((), s') ∧ PTPost node s s') ∨ transform node s = .error .pre := by
  obtain ⟨⟨rm, refs'⟩, e1⟩ := transformScan_total_wf hl s.pc.refs
  obtain ⟨p, hpar⟩ := Option.isSome_iff_exists.1 hp
  have hnd : s.nodes.getD node default = nd s node := rfl
  rcases finishLines_ok_or_pre rm (nd s node).lines with e2 | e2
  · left
    unfold transform transformFinish
    simp only [bind, StateT.bind, getNode, source, getPc, pure, StateT.pure, Except.pure, Except.bind, liftE, Except.map, modPc,
      modNode]
    simp only [hnd, e1, e2]
    by_cases hlen : (((nd s node).lines.drop (lastEnd 0 rm).toNat).length == 0) = true
    · simp only [hlen, if_true, hpar]
      have hnil : (nd s node).lines.drop (lastEnd 0 rm).toNat = [] :=
        List.eq_nil_of_length_eq_zero (by simpa using hlen)
      obtain ⟨s', hs', hr', _⟩ := ptReplace_tot node p (nd s node).blankPrev (ptEmptied s node refs')
      refine ⟨s', ?_, ?_⟩
      · have := hs'
        simp only [ptReplace, ptEmptied, bind, StateT.bind, newNode, pure, StateT.pure, Except.pure, Except.bind, hpar] at this
        simp only [newNode, hnil]
        exact this
      · exact ⟨by rw [hr']; rfl, .inr ⟨refs', p, hpar, hs'⟩⟩
    · simp only [hlen, Bool.false_eq_true, if_false]
      refine ⟨_, rfl, rfl, .inl ⟨refs', (lastEnd 0 rm).toNat, ?_, rfl⟩⟩
      have : ((nd s node).lines.drop (lastEnd 0 rm).toNat).length ≠ 0 := by simpa using hlen
      omega
  · right
    unfold transform transformFinish
    simp only [bind, StateT.bind, getNode, source, getPc, pure, StateT.pure, Except.pure, Except.bind, liftE, Except.map, modPc]
    simp only [hnd, e1, e2]

/-- **the contract of `GM.LinkRef.guardedTransform`** (the transformer of `GM.Convert.blockPhase true`: Transform behind the
    run-time check `WFSegs`): on a Paragraph node that has a parent, from any state, it ends as `PTPost` says or answers
    `pre` (its check, or contract monitor (3)) — never a Go panic, never the fuel error -/
theorem guardedTransform_spec (src : Bytes) : PTSpec src .pre guardedTransform := by
  intro node s _ _ _ hp _
  by_cases hg : ((s.nodes.getD node default).lines.length != 0 && !wfSegsB s.r.source (s.nodes.getD node default).lines) = true
  · right
    unfold guardedTransform
    simp only [bind, StateT.bind, getNode, source, pure, Except.pure, Except.bind, hg, if_true]
    rfl
  · have e2 : guardedTransform node s = transform node s := by
      unfold guardedTransform
      simp only [bind, StateT.bind, getNode, source, pure, Except.pure, Except.bind, hg, Bool.false_eq_true, if_false]
    rw [e2]
    have hl : (nd s node).lines = [] ∨ WFSegs s.r.source (nd s node).lines := by
      by_cases he : (s.nodes.getD node default).lines = []
      · exact Or.inl he
      · refine Or.inr (wfSegsB_sound ?_)
        cases hw : wfSegsB s.r.source (s.nodes.getD node default).lines with
        | true => rfl
        | false =>
          exfalso; apply hg
          have : (s.nodes.getD node default).lines.length ≠ 0 := by
            intro h0; exact he (List.length_eq_zero_iff.1 h0)
          rw [hw]; simpa using this
    exact transform_total_wf node s hl hp

theorem paragraphTransformers_spec (src : Bytes) : PTsSpec src .pre (GM.Convert.paragraphTransformers true) := by
  intro pt hpt
  simp only [GM.Convert.paragraphTransformers, if_true, List.mem_singleton] at hpt
  subst hpt
  exact guardedTransform_spec src

/-! ### the guarded transformer -/

theorem guardE_passes (e : Panic) (node : Nat) (s : GM.Blocks.St) (h : linesOKB s.r.source (nd s node).lines = true) :
    guardE e node s = transform node s := by
  have h' : linesOKB s.r.source (s.nodes.getD node default).lines = true := h
  unfold guardE
  simp only [bind, StateT.bind, getNode, source, pure, Except.pure, Except.bind, h', Bool.not_true, Bool.false_eq_true, if_false]

theorem guardE_fires (e : Panic) (node : Nat) (s : GM.Blocks.St) (h : linesOKB s.r.source (nd s node).lines = false) :
    guardE e node s = .error e := by
  have h' : linesOKB s.r.source (s.nodes.getD node default).lines = false := h
  unfold guardE
  simp only [bind, StateT.bind, getNode, source, pure, Except.pure, Except.bind, h', Bool.not_false, if_true]
  rfl

/-- **the contract of the guarded transformer**: on a paragraph that has a parent it ends as `PTPost` says, or its guard
    answered `e` — nothing else -/
theorem guardE_spec (src : Bytes) (e : Panic) : PTSpec src e (guardE e) := by
  intro node s _ _ _ hp _
  cases hg : linesOKB s.r.source (nd s node).lines with
  | true =>
    rw [guardE_passes e node s hg]
    exact .inl (transform_total node s (linesOKB_sound hg) hp)
  | false => exact .inr (guardE_fires e node s hg)

theorem guardE_ptsSpec (src : Bytes) (e : Panic) : PTsSpec src e [guardE e] := by
  intro pt hpt
  simp only [List.mem_singleton] at hpt
  subst hpt
  exact guardE_spec src e

/-- the guarded transformer keeps every reader-only invariant and never exhausts fuel (for the termination proof of the
    driver, GM.Proof.BlocksT) — provided its own outcome is not the fuel outcome -/
theorem guardE_ptok (e : Panic) (he : e ≠ .loop) : PTOK (guardE e) := by
  intro I hI node
  constructor
  intro s hs
  cases hg : linesOKB s.r.source (nd s node).lines with
  | false => rw [guardE_fires e node s hg]; exact he
  | true =>
    rw [guardE_passes e node s hg]
    have hl : (s.nodes.getD node default).lines = [] ∨ WFSegs s.r.source (s.nodes.getD node default).lines := by
      rcases linesOKB_sound hg with h | ⟨h, _⟩
      · exact .inl h
      · exact .inr h
    obtain ⟨t1, t2⟩ := GM.Proof.LinkRefPres.transform_ok hI node s hs hl
    cases ht : transform node s with
    | error e' => show e' ≠ Panic.loop; intro he'; exact t2 (he' ▸ ht)
    | ok p => exact t1 p.1 p.2 ht

theorem guardE_ptsOK (e : Panic) (he : e ≠ .loop) : PTsOK [guardE e] := by
  intro pt hpt
  simp only [List.mem_singleton] at hpt
  subst hpt
  exact guardE_ptok e he

end GM.Proof.LinkRefTot2
