/-
  GM.Proof.BlocksClosedDrv — the close discipline through one successful attempt of the candidate loop
  (parser.go:985-1013): the RequireParagraph `Close` + pop, `SetBlankPreviousLines`, `AppendChild`, push.
-/
import GM.Proof.BlocksClosedOpen

namespace GM.Blocks
open GM GM.Text GM.Spec GM.Proof.Reader
open GM.Proof.BlocksWF0 (isRaw)

/-- every node created since `n0` that has a parent hangs below `tp` or below another new node; that parent is an
    existing node that is not a Paragraph -/
def NewPar (n0 tp : Nat) (s : St) : Prop :=
  ∀ x, n0 ≤ x → ∀ q, (nd s x).parent = some q → (q = tp ∨ n0 ≤ q) ∧ (nd s q).kind ≠ .paragraph ∧ q < s.nodes.length

/-- what is known about the node `Open` has just built, while the tail of the attempt runs -/
structure TailPre (src : Bytes) (n0 tp parent node : Nat) (bp : BP) (s : St) : Prop where
  cx : CInvX (fun i => i = node) src s s.pc.opened
  lt : node < s.nodes.length
  par : (nd s node).parent = none
  kind : (nd s node).kind = bp.kind
  fresh : ∀ b ∈ s.pc.opened, b.node < node
  plt : parent < node
  pk : (nd s parent).kind ≠ .paragraph
  ptp : parent = tp ∨ n0 ≤ parent
  n0le : n0 ≤ node
  np : NewPar n0 tp s
  closedNew : bp ≠ .setext → isRaw (nd s node).kind = false → Closed (nd s node)
  src : s.r.source = src

section tl
variable {src : Bytes}

/-- `AppendChild`, push, answer -/
theorem tryTailB_cl (n0 tp parent node : Nat) (bp : BP) (hc : Bool) (lb' : Option Block) (s3 s' : St)
    (x : TryOutcome × OpenResult × Option Block) (hp : TailPre src n0 tp parent node bp s3)
    (e : (do
        appendChild parent node
        modPc fun pc => { pc with opened := pc.opened ++ [{ node := node, bp := bp }] }
        if hc = true then pure (TryOutcome.retry node, OpenResult.newBlocksOpened, lb')
          else pure (TryOutcome.done, OpenResult.newBlocksOpened, lb') : M _) s3 = .ok (x, s')) :
    CInv src s' s'.pc.opened ∧ NewPar n0 tp s' ∧ s'.nodes.length = s3.nodes.length ∧
      s'.pc.tmpPara = s3.pc.tmpPara ∧ s'.pc.opened = s3.pc.opened ++ [{ node := node, bp := bp }] ∧
      (∀ i, (nd s' i).kind = (nd s3 i).kind) := by
  obtain ⟨_, s4, h4, k4⟩ := obind_ok e
  have hlk := appendChild_lk h4
  obtain ⟨t4, l4, f4, p4⟩ := appendChild_tree hp.cx.tree hp.plt hp.lt h4
  obtain ⟨_, s5, h5, k5⟩ := obind_ok k4
  have e5 := omodPc_ok h5
  subst s5
  have hs' : s' = { s4 with pc := { s4.pc with opened := s4.pc.opened ++ [{ node := node, bp := bp }] } } := by
    split at k5
    · exact (opure_ok k5).2
    · exact (opure_ok k5).2
  subst s'
  obtain ⟨B, hB⟩ := hp.cx.inv
  have hk4 : (nd s4 node).kind = bp.kind := by rw [(hlk.same node).2.2]; exact hp.kind
  have hlt4 : node < s4.nodes.length := by rw [hlk.len]; exact hp.lt
  have hop4 : s4.pc.opened = s3.pc.opened := by rw [hlk.pc]
  have hnd : ∀ i, nd ({ s4 with pc := { s4.pc with opened := s4.pc.opened ++ [{ node := node, bp := bp }] } } : St) i =
      nd s4 i := fun _ => rfl
  refine ⟨⟨⟨B, (hB.lk hlk).push node bp hk4 hlt4⟩, t4.of_links (fun i => ⟨rfl, rfl⟩), fun i hr => ?_, fun g hg => ?_,
    fun a ha b hb e0 => ?_, fun g hg => hg⟩, fun x hx q hq => ?_, l4, by show s4.pc.tmpPara = _; rw [hlk.pc],
    by show s4.pc.opened ++ _ = _; rw [hop4], fun i => (hlk.same i).2.2⟩
  · -- pad
    rw [hnd] at hr ⊢
    rw [(hlk.same i).2.2] at hr
    rcases hp.cx.pad i hr with hc' | ⟨b, hb, hn, hps⟩ | hx
    · left; rw [Closed, (hlk.same i).1]; exact hc'
    · exact .inr ⟨b, by show b ∈ s4.pc.opened ++ _; rw [hop4]; exact List.mem_append_left _ hb, hn, hps⟩
    · subst hx
      by_cases hbs : bp = .setext
      · exact .inr ⟨⟨i, bp⟩, by show _ ∈ s4.pc.opened ++ _; simp, rfl, .inr hbs⟩
      · left; rw [Closed, (hlk.same i).1]; exact hp.closedNew hbs hr
  · -- att
    rw [hnd]
    have hg' : g ∈ s3.pc.opened ++ [{ node := node, bp := bp }] := by rw [← hop4]; exact hg
    rcases List.mem_append.1 hg' with hg' | hg'
    · have hne : g.node ≠ node := Nat.ne_of_lt (hp.fresh g hg')
      rw [f4 g.node hne]; exact hp.cx.att g hg'
    · simp only [List.mem_singleton] at hg'; rw [hg']; show (nd s4 node).parent.isSome = true; rw [p4]; rfl
  · -- inj
    have ha' : a ∈ s3.pc.opened ++ [{ node := node, bp := bp }] := by rw [← hop4]; exact ha
    have hb' : b ∈ s3.pc.opened ++ [{ node := node, bp := bp }] := by rw [← hop4]; exact hb
    rcases List.mem_append.1 ha' with ha' | ha' <;> rcases List.mem_append.1 hb' with hb' | hb'
    · exact hp.cx.inj a ha' b hb' e0
    · simp only [List.mem_singleton] at hb'; rw [hb'] at e0
      exact absurd e0 (Nat.ne_of_lt (hp.fresh a ha'))
    · simp only [List.mem_singleton] at ha'; rw [ha'] at e0
      exact absurd e0.symm (Nat.ne_of_lt (hp.fresh b hb'))
    · simp only [List.mem_singleton] at ha' hb'; rw [ha', hb']
  · -- NewPar
    rw [hnd] at hq
    rw [hnd]
    by_cases hxn : x = node
    · subst hxn
      rw [p4] at hq; cases hq
      exact ⟨hp.ptp, by rw [(hlk.same _).2.2]; exact hp.pk, by rw [hlk.len]; have := hp.plt; have := hp.lt; omega⟩
    · rw [f4 x hxn] at hq
      obtain ⟨a1, a2, a3⟩ := hp.np x hx q hq
      exact ⟨a1, by rw [(hlk.same _).2.2]; exact a2, by rw [hlk.len]; exact a3⟩

/-- a step of the tail that keeps lines, kinds and links -/
theorem TailPre.same {n0 tp parent node : Nat} {bp : BP} {s s' : St} (hp : TailPre src n0 tp parent node bp s)
    (hlk : LK s s') (hl : ∀ i, (nd s' i).parent = (nd s i).parent ∧ (nd s' i).children = (nd s i).children) :
    TailPre src n0 tp parent node bp s' :=
  ⟨by rw [hlk.pc]; exact hp.cx.same hlk hl, by rw [hlk.len]; exact hp.lt, by rw [(hl node).1]; exact hp.par,
    by rw [(hlk.same node).2.2]; exact hp.kind, by rw [hlk.pc]; exact hp.fresh, hp.plt,
    by rw [(hlk.same parent).2.2]; exact hp.pk, hp.ptp, hp.n0le,
    fun x hx q hq => by
      rw [(hl x).1] at hq
      obtain ⟨a1, a2, a3⟩ := hp.np x hx q hq
      exact ⟨a1, by rw [(hlk.same q).2.2]; exact a2, by rw [hlk.len]; exact a3⟩,
    fun hb hr => by
      rw [(hlk.same node).2.2] at hr
      rw [Closed, (hlk.same node).1]; exact hp.closedNew hb hr,
    by rw [hlk.r]; exact hp.src⟩

/-- one successful attempt behind `Open` (the term of `tryTail_ord`) under the close discipline -/
theorem tryTail_cl (n0 tp parent node : Nat) (bp : BP) (blank : Bool) (state : PState) (lb' : Option Block) (s2 s' : St)
    (x : TryOutcome × OpenResult × Option Block) (hp : TailPre src n0 tp parent node bp s2)
    (hlb : lb' = s2.pc.opened.getLast?)
    (hreq : state.requirePara = true → ∀ lb, lb' = some lb → (nd s2 lb.node).kind = .paragraph)
    (e : (do
        if state.requirePara then
          if lb'.map (·.node) == (← getNode parent).children.getLast? then
            match lb' with
            | none => throw .nil
            | some lb =>
              bpClose lb.bp lb.node
              let blocks := (← getPc).opened
              if blocks.length == 0 then throw .slice
              modPc fun pc => { pc with opened := blocks.dropLast }
              if (← getNode lb.node).kind != .paragraph then throw .assert
        modNode node fun n => { n with blankPrev := blank }
        match lb'.map (·.node) with
        | some l =>
          if (← getNode l).parent.isNone then
            let lastPos : Int := ((← getPc).opened.length : Int) - 1
            closeBlocks lastPos lastPos
        | none => pure ()
        appendChild parent node
        modPc fun pc => { pc with opened := pc.opened ++ [{ node := node, bp := bp }] }
        if state.hasChildren then return (TryOutcome.retry node, OpenResult.newBlocksOpened, lb')
        return (TryOutcome.done, OpenResult.newBlocksOpened, lb') : M _) s2 = .ok (x, s')) :
    CInv src s' s'.pc.opened ∧ NewPar n0 tp s' ∧ s'.nodes.length = s2.nodes.length ∧
      s'.pc.tmpPara = s2.pc.tmpPara ∧
      (s'.pc.opened = s2.pc.opened ++ [{ node := node, bp := bp }] ∨
        s'.pc.opened = s2.pc.opened.dropLast ++ [{ node := node, bp := bp }]) ∧
      (∀ i, (nd s' i).kind = (nd s2 i).kind) := by
  -- the part behind the RequireParagraph block
  have part2 : ∀ (s3 : St), TailPre src n0 tp parent node bp s3 →
      (∀ l, lb'.map (·.node) = some l → (nd s3 l).parent.isSome = true) →
      (do
        modNode node fun n => { n with blankPrev := blank }
        match lb'.map (·.node) with
        | some l =>
          if (← getNode l).parent.isNone then
            let lastPos : Int := ((← getPc).opened.length : Int) - 1
            closeBlocks lastPos lastPos
        | none => pure ()
        appendChild parent node
        modPc fun pc => { pc with opened := pc.opened ++ [{ node := node, bp := bp }] }
        if state.hasChildren then return (TryOutcome.retry node, OpenResult.newBlocksOpened, lb')
        return (TryOutcome.done, OpenResult.newBlocksOpened, lb') : M _) s3 = .ok (x, s') →
      CInv src s' s'.pc.opened ∧ NewPar n0 tp s' ∧ s'.nodes.length = s3.nodes.length ∧
        s'.pc.tmpPara = s3.pc.tmpPara ∧ s'.pc.opened = s3.pc.opened ++ [{ node := node, bp := bp }] ∧
        (∀ i, (nd s' i).kind = (nd s3 i).kind) := by
    intro s3 hp3 hlpar e3
    obtain ⟨_, s4, h4, k4⟩ := obind_ok e3
    have hlk := modNode_lk h4 (fun _ => ⟨rfl, rfl, rfl⟩)
    have hl4 := modNode_links h4 (fun _ => ⟨rfl, rfl⟩)
    have hp4 := hp3.same hlk hl4
    extract_lets jp at k4
    have hjp : ∀ (r : Unit), jp r s4 = .ok (x, s') →
        CInv src s' s'.pc.opened ∧ NewPar n0 tp s' ∧ s'.nodes.length = s4.nodes.length ∧
          s'.pc.tmpPara = s4.pc.tmpPara ∧ s'.pc.opened = s4.pc.opened ++ [{ node := node, bp := bp }] ∧
          (∀ i, (nd s' i).kind = (nd s4 i).kind) :=
      fun r h => tryTailB_cl n0 tp parent node bp state.hasChildren lb' s4 s' x hp4 h
    have fin : ∀ (r : Unit), jp r s4 = .ok (x, s') →
        CInv src s' s'.pc.opened ∧ NewPar n0 tp s' ∧ s'.nodes.length = s3.nodes.length ∧
          s'.pc.tmpPara = s3.pc.tmpPara ∧ s'.pc.opened = s3.pc.opened ++ [{ node := node, bp := bp }] ∧
          (∀ i, (nd s' i).kind = (nd s3 i).kind) := by
      intro r h
      obtain ⟨a1, a2, a3, a4, a5, a6⟩ := hjp r h
      exact ⟨a1, a2, a3.trans hlk.len, by rw [a4, hlk.pc], by rw [a5, hlk.pc], fun i => (a6 i).trans (hlk.same i).2.2⟩
    cases hl : lb'.map (·.node) with
    | none =>
      rw [hl] at k4
      exact fin () k4
    | some l =>
      rw [hl] at k4
      dsimp only at k4
      obtain ⟨ln, s6, h6, k6⟩ := obind_ok k4
      obtain ⟨hln, hs6⟩ := ogetNode_ok h6
      subst s6
      subst ln
      split at k6
      · next hnone =>
        exfalso
        have := hlpar l hl
        have e' : (nd s4 l).parent = (nd s3 l).parent := (hl4 l).1
        have hn' : (nd s4 l).parent.isNone = true := hnone
        rw [e'] at hn'
        cases hq : (nd s3 l).parent with
        | none => rw [hq] at this; cases this
        | some q => rw [hq] at hn'; cases hn'
      · exact fin () k6
  extract_lets jpB jp1 at e
  have hjp1 : ∀ (r : Unit) (s3 : St), TailPre src n0 tp parent node bp s3 →
      (∀ l, lb'.map (·.node) = some l → (nd s3 l).parent.isSome = true) → jp1 r s3 = .ok (x, s') →
      CInv src s' s'.pc.opened ∧ NewPar n0 tp s' ∧ s'.nodes.length = s3.nodes.length ∧
        s'.pc.tmpPara = s3.pc.tmpPara ∧ s'.pc.opened = s3.pc.opened ++ [{ node := node, bp := bp }] ∧
        (∀ i, (nd s' i).kind = (nd s3 i).kind) :=
    fun r s3 a b h => part2 s3 a b h
  -- the last opened block is attached
  have hlpar2 : ∀ l, lb'.map (·.node) = some l → (nd s2 l).parent.isSome = true := by
    intro l hl
    cases hlb' : lb' with
    | none => rw [hlb'] at hl; cases hl
    | some lb =>
      rw [hlb'] at hl
      simp only [Option.map_some, Option.some.injEq] at hl
      subst hl
      exact hp.cx.att lb (List.mem_of_getLast? (by rw [← hlb, hlb']))
  have direct : jp1 () s2 = .ok (x, s') →
      CInv src s' s'.pc.opened ∧ NewPar n0 tp s' ∧ s'.nodes.length = s2.nodes.length ∧
        s'.pc.tmpPara = s2.pc.tmpPara ∧
        (s'.pc.opened = s2.pc.opened ++ [{ node := node, bp := bp }] ∨
          s'.pc.opened = s2.pc.opened.dropLast ++ [{ node := node, bp := bp }]) ∧
        (∀ i, (nd s' i).kind = (nd s2 i).kind) := by
    intro h
    obtain ⟨a1, a2, a3, a4, a5, a6⟩ := hjp1 () s2 hp hlpar2 h
    exact ⟨a1, a2, a3, a4, .inl a5, a6⟩
  split at e
  · next hrq =>
    obtain ⟨pn, s4, h4, k4⟩ := obind_ok e
    obtain ⟨_, hs4⟩ := ogetNode_ok h4
    subst s4
    split at k4
    · cases hlb' : lb' with
      | none =>
        rw [hlb'] at k4
        obtain ⟨_, _, ht, _⟩ := obind_ok k4
        cases ht
      | some lb =>
        rw [hlb'] at k4
        dsimp only at k4
        obtain ⟨_, s5, h5, k5⟩ := obind_ok k4
        have hlast : s2.pc.opened.getLast? = some lb := by rw [← hlb, hlb']
        have hmem : lb ∈ s2.pc.opened := List.mem_of_getLast? hlast
        obtain ⟨hkb, hltb⟩ := hp.cx.kinds hmem
        have hkp : (nd s2 lb.node).kind = .paragraph := hreq hrq lb hlb'
        have hbp : lb.bp = .paragraph := kind_paragraph (by rw [← hkb]; exact hkp)
        -- `Close` of the paragraph: its lines are trimmed
        obtain ⟨B, hB⟩ := hp.cx.inv
        have e5 : paragraphClose lb.node s2 = .ok ((), s5) := by rw [hbp] at h5; exact h5
        have hne := hB.pne lb.node hkp
        have hl : LinesOK src (nd s2 lb.node).lines := (nodeOK_nd hB.nodes lb.node).lines
        obtain ⟨hr5, hpc5, ls, _, _, hpf, _, hn5⟩ := (paragraphClose_lines lb.node hp.src hl hne).of_ok e5
        obtain ⟨hinv5, _, _, _⟩ := paragraphClose_inv hB hp.src hkp hltb e5
        have hs5 : s5 = { s2 with nodes := s2.nodes.set lb.node { (nd s2 lb.node) with lines := ls } } := by
          cases s5; simp only at hr5 hpc5 hn5; subst hr5 hpc5 hn5; rfl
        have hsplit : s2.pc.opened = s2.pc.opened.dropLast ++ [lb] := eq_dropLast_append_of_getLast? _ _ hlast
        have hcx : CInvX (fun i => i = node) src s2 (lb :: s2.pc.opened.dropLast) :=
          hp.cx.congr (fun b => by
            constructor
            · intro hb
              rcases List.mem_cons.1 hb with hb | hb
              · rw [hb]; exact hmem
              · exact List.dropLast_subset _ hb
            · intro hb
              rw [hsplit] at hb
              rcases List.mem_append.1 hb with hb | hb
              · exact List.mem_cons_of_mem _ hb
              · simp only [List.mem_singleton] at hb; rw [hb]; exact List.mem_cons_self ..)
        have hcx5 : CInvX (fun i => i = node) src s5 s2.pc.opened.dropLast := by
          have := CInvX.setLines (b := lb) hcx B (by rw [← hs5]; exact hinv5) (fun _ t ht => (hpf t ht).1)
          rw [← hs5] at this; exact this
        -- facts about the store after the trim
        have hnd5 : ∀ i, nd s5 i = if lb.node = i ∧ lb.node < s2.nodes.length then { (nd s2 lb.node) with lines := ls }
            else nd s2 i := by rw [hs5]; exact setLines_nd s2 lb.node ls
        have hl5 : ∀ i, (nd s5 i).parent = (nd s2 i).parent ∧ (nd s5 i).children = (nd s2 i).children := by
          rw [hs5]; exact setLines_links s2 lb.node ls
        have hk5 : ∀ i, (nd s5 i).kind = (nd s2 i).kind := by
          intro i; rw [hnd5]; split
          · next hc => rw [hc.1]
          · rfl
        have hlen5 : s5.nodes.length = s2.nodes.length := by rw [hs5]; simp
        have hlbn : lb.node ≠ node := Nat.ne_of_lt (hp.fresh lb hmem)
        clear hs5
        -- the state after the pop
        have hp8 : TailPre src n0 tp parent node bp ({ s5 with pc := { s5.pc with opened := s2.pc.opened.dropLast } } : St) := by
          obtain ⟨B5, hB5⟩ := hcx5.inv
          refine ⟨⟨⟨B5, hB5.congr_pc _ rfl (fun b hb => by rw [hpc5]; exact List.dropLast_subset _ hb)⟩,
            hcx5.tree.of_links (fun i => ⟨rfl, rfl⟩), hcx5.pad, hcx5.att, hcx5.inj, fun g hg => hg⟩,
            by show node < s5.nodes.length; rw [hlen5]; exact hp.lt, ?_, ?_,
            fun b hb => hp.fresh b (List.dropLast_subset _ hb), hp.plt, ?_, hp.ptp, hp.n0le, ?_, ?_,
            by show s5.r.source = src; rw [hr5]; exact hp.src⟩
          · show (nd s5 node).parent = none
            rw [(hl5 node).1]; exact hp.par
          · show (nd s5 node).kind = _
            rw [hk5]; exact hp.kind
          · show (nd s5 parent).kind ≠ _
            rw [hk5]; exact hp.pk
          · intro x hx q hq
            have hq' : (nd s5 x).parent = some q := hq
            rw [(hl5 x).1] at hq'
            obtain ⟨a1, a2, a3⟩ := hp.np x hx q hq'
            exact ⟨a1, by show (nd s5 q).kind ≠ _; rw [hk5]; exact a2, by show q < s5.nodes.length; rw [hlen5]; exact a3⟩
          · intro hb hr
            have e0 : nd ({ s5 with pc := { s5.pc with opened := s2.pc.opened.dropLast } } : St) node = nd s2 node := by
              show nd s5 node = _
              rw [hnd5, if_neg (fun hh => hlbn hh.1)]
            rw [e0] at hr ⊢
            exact hp.closedNew hb hr
        have hlpar8 : ∀ l, (some lb).map (·.node) = some l →
            (nd ({ s5 with pc := { s5.pc with opened := s2.pc.opened.dropLast } } : St) l).parent.isSome = true := by
          intro l hl
          simp only [Option.map_some, Option.some.injEq] at hl
          subst hl
          show (nd s5 lb.node).parent.isSome = true
          rw [(hl5 lb.node).1]; exact hp.cx.att lb hmem
        -- the remaining statements of the RequireParagraph block
        obtain ⟨pc, s6, h6, k6⟩ := obind_ok k5
        obtain ⟨hpc6, hs6⟩ := ogetPc_ok h6
        subst s6
        subst pc
        rw [hpc5] at k6
        have hpop : (do
              modPc fun pc => { pc with opened := s2.pc.opened.dropLast }
              if (← getNode lb.node).kind != .paragraph then do
                let __r ← throw Panic.assert
                jp1 __r
              else jp1 () : M _) s5 = .ok (x, s') →
            CInv src s' s'.pc.opened ∧ NewPar n0 tp s' ∧ s'.nodes.length = s2.nodes.length ∧
              s'.pc.tmpPara = s2.pc.tmpPara ∧
              (s'.pc.opened = s2.pc.opened ++ [{ node := node, bp := bp }] ∨
                s'.pc.opened = s2.pc.opened.dropLast ++ [{ node := node, bp := bp }]) ∧
              (∀ i, (nd s' i).kind = (nd s2 i).kind) := by
          intro k7
          obtain ⟨_, s8, h8, k8⟩ := obind_ok k7
          have e8 := omodPc_ok h8
          subst s8
          obtain ⟨ln, s9, h9, k9⟩ := obind_ok k8
          obtain ⟨_, hs9⟩ := ogetNode_ok h9
          subst s9
          split at k9
          · obtain ⟨_, _, ht, _⟩ := obind_ok k9
            cases ht
          · have hlb'' : lb' = some lb := hlb'
            obtain ⟨a1, a2, a3, a4, a5, a6⟩ := hjp1 () _ hp8 (by rw [hlb'']; exact hlpar8) k9
            exact ⟨a1, a2, by rw [a3]; exact hlen5, by rw [a4]; show s5.pc.tmpPara = _; rw [hpc5], .inr a5,
              fun i => (a6 i).trans (hk5 i)⟩
        split at k6
        · obtain ⟨_, _, ht, _⟩ := obind_ok k6
          cases ht
        · exact hpop k6
    · exact direct k4
  · exact direct e

end tl

end GM.Blocks
