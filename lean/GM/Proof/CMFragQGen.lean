/-
  GM.Proof.CMFragQGen — the block-quote composition ABSTRACT in the inline content (as CMFragGen is for documents that are
  not quoted): per block, the node `docTree` reads from the node of the prefixed run that is related to the block's closed
  node (`BlockDTQ`), and the renderer's output on Document[Blockquote[these nodes]].
-/
import GM.Proof.CMFragQMain

namespace GM.Proof.CMFrag
open GM GM.Text GM.Blocks GM.Spec

/-- `docTree` reads the node of the prefixed run that is related to the closed node of block `b` as `n` -/
def BlockDTQ (env : GM.Inl.Env) (b : Raw5) (n : GM.Node) : Prop :=
  ∀ (S : Bytes) (p : Nat) (bk : Bool) (m' : Blocks.Node), ParaAt S p (lines5 b) → p ≤ S.length →
    NodeRel S false (node5 p b bk) m' →
    GM.Convert.docTree true env (quotePrefix S) (.node m' []) = .ok n

theorem blockDTQ_good (env : GM.Inl.Env) (henv : env.escapedSpace = false) (b : Raw5) (hg : Good5' b)
    (hnic : isIcB b = false) : BlockDTQ env b (rawNode5 b) :=
  fun _ p bk m' hpa hp hr => docTree_blockQ env henv b p bk hg hnic hpa hp m' hr

/-- the children of the Blockquote -/
theorem docTrees_quoteN {S : Bytes} (env : GM.Inl.Env) :
    ∀ (items : List (Nat × Raw5)) (ns : List GM.Node) (trail q : Nat) (bs : List Bool) (kidsB : List Blocks.Node),
      DocAt6 S q items trail → AllBlk (BlockDTQ env) items ns → bs.length = items.length →
      RelL (NodeRel S false) (mkNodes5 (closedOf6 q items) (items.map (·.2)) bs) kidsB →
      GM.Convert.docTrees true env (quotePrefix S) (kidsB.map (fun n => Tree.node n [])) = .ok ns
  | [], [], _, _, _, kidsB, _, _, _, hr => by
    cases kidsB with
    | nil => simp [GM.Convert.docTrees, pure, Except.pure]
    | cons _ _ => simp [mkNodes5, closedOf6, RelL] at hr
  | [], _ :: _, _, _, _, _, _, h, _, _ => h.elim
  | _ :: _, [], _, _, _, _, _, h, _, _ => h.elim
  | _ :: _, _ :: _, _, _, [], _, _, _, h, _ => by simp at h
  | (s, b) :: rest, n :: ns, trail, q, bk :: bs, kidsB, hd, hb, hl, hr => by
    obtain ⟨_, hpa, hdr⟩ := hd
    have hle := docAt6_le rest trail _ hdr
    cases kidsB with
    | nil => simp [mkNodes5, closedOf6, RelL] at hr
    | cons m' kidsB' =>
      simp only [closedOf6, List.map_cons, mkNodes5, RelL] at hr
      have ih := docTrees_quoteN env rest ns trail _ bs kidsB' hdr hb.2 (by simpa using hl) hr.2
      simp only [List.map_cons, GM.Convert.docTrees, hb.1 S (q + s) bk m' hpa (by omega) hr.1, ih, bind,
        Except.bind, pure, Except.pure]

/-- the model of `goldmark.Convert` on a stage-6 document of blocks good for the block phase put into a block quote,
    given what `docTree` reads from every related node and what the renderer writes -/
theorem convert_quote_gen6 (H : BPFree) (uc : List (Nat × (Bool × Bool))) (items : List (Nat × Raw5)) (trail : Nat)
    (hgood : ∀ it ∈ items, Good5 it.2) (hseps : SepsOK6 none items) (hnoic : ∀ it ∈ items, isIcB it.2 = false)
    (hno : ∀ it ∈ items, ∀ l ∈ lines5 it.2, ∀ c ∈ l, c ≠ 10)
    (hclass : C08ClassL (rawDoc6 items trail)) (hnb : ∀ b ∈ rawDoc6 items trail, b ≠ 91)
    (ns : List GM.Node) (html : Bytes)
    (hblk : ∀ env : GM.Inl.Env, env.escapedSpace = false → AllBlk (BlockDTQ env) items ns)
    (hr : GM.Convert.renderDoc cmOpts (.mk .document none [.mk .blockquote none ns]) = .ok html) :
    GM.Convert.convertCore uc cmOpts (quotePrefix (rawDoc6 items trail)) = .ok html := by
  obtain ⟨s', bs, h1, h2, h3, h4⟩ := runT_doc6 items trail hgood hseps (icOK6_of_none _ false hnoic) hno
  have hrunT : GM.Convert.blockPhase true (rawDoc6 items trail) = .ok s' := h1
  have hA : GM.Blocks.run (rawDoc6 items trail) = .ok s' := by rw [← H _ hnb]; exact hrunT
  obtain ⟨sB, hB, hrel, _⟩ := run_sim hclass hA
  have hBP : GM.Convert.blockPhase true (quotePrefix (rawDoc6 items trail)) = .ok sB := by
    rw [H _ (noBracket_quotePrefix _ hnb)]; exact hB
  have hd := docAt6_raw items trail [] hno
  simp only [List.nil_append, List.length_nil] at hd
  have hlen : (closedOf6 0 items).length = items.length := closedOf6_length items 0
  have hml := mkNodes5_length (closedOf6 0 items) (items.map (·.2)) bs (by simp [hlen]) (by rw [hlen]; exact h2)
  rw [h3] at hrel
  obtain ⟨bq, kidsB, htree, hbk, hbl, hkids⟩ := treeOf_quoteQ (addKids { kind := .document } 0 items.length)
    (mkNodes5 (closedOf6 0 items) (items.map (·.2)) bs) sB.nodes items.length (by simp [addKids]) rfl
    (by rw [hml, hlen]) (mkNodes5_children _ _ _) hrel
  have hdt := docTrees_quoteN (S := rawDoc6 items trail) { refs := sB.pc.refs, uc := uc } items ns trail 0 bs kidsB hd
    (hblk _ rfl) h2 hkids
  unfold GM.Convert.convertCore GM.Convert.convertWith GM.Convert.parseDoc
  simp only [hBP, GM.Convert.liftErr, bind, Except.bind, htree, GM.Convert.docTree, GM.Convert.docTrees, hdt,
    GM.Convert.inlinePhase, hbk, hbl, GM.Convert.isRawKind, GM.Convert.blockKind, List.isEmpty_nil, pure, Except.pure]
  have hit0 : GM.Convert.inlineTrees (quotePrefix (rawDoc6 items trail)) [] = .ok [] := rfl
  simpa [hit0] using hr

end GM.Proof.CMFrag
