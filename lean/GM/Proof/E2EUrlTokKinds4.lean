/-
  GM.Proof.E2EUrlTokKinds4 — copy of GM.Proof.RenderWF.Kinds4 for the grammar `WFHtmlU` (harmless `href` / `src` values as a side
  condition of every start tag); see GM.Proof.E2EUrlTokGrammar. Only `wf_el` / `wf_void` differ (they ask for `UrlAttrs`).
-/
import GM.Proof.E2EUrlTokKinds3
import GM.Proof.RenderWF.Kinds4

namespace GM.Proof.RenderWFU
open GM GM.Spec GM.Proof.RenderWF

variable {x : Bool} {rc : RCfg}

theorem wf_footnoteLink (hc : CfgOK x rc) (hh : rc.exts.foot = true) (pih next attrs cs) (index refCount refIndex : Nat)
    {body : Bytes} (hb : WFHtmlU x body) :
    WFHtmlU x (enter rc pih next (.footnoteLink index refCount refIndex) attrs cs ++ body ++
      leave rc pih next (.footnoteLink index refCount refIndex) cs) := by
  unfold_elx hh
  refine .append3 ?_ hb .nil
  have hhref : inertBytes ([35] ++ (footIdPrefix rc ++ strBytes "fn:" ++ decBytes index)) = true :=
    inertBytes_append _ _ (by decide) (fnId_inert hc index)
  have hsup : StartOK [115, 117, 112] [([105, 100], fnrefId rc index refIndex)] :=
    sok_fixed tag_sup (hfix_cons (by decide +kernel) (by decide +kernel) (fnrefId_inert hc _ _) hfix_nil) (by simp)
  by_cases ht : rc.footc.linkTitle.length > 0
  · simp only [ht, ↓reduceIte]
    have sa : StartOK [97] [([104, 114, 101, 102], [35] ++ (footIdPrefix rc ++ strBytes "fn:" ++ decBytes index)),
        ([99, 108, 97, 115, 115], applyFootnoteTemplate rc.footc.linkClass index refCount),
        ([116, 105, 116, 108, 101], escapeHTML (applyFootnoteTemplate rc.footc.linkTitle index refCount)),
        ([114, 111, 108, 101], [100, 111, 99, 45, 110, 111, 116, 101, 114, 101, 102])] :=
      sok_fixed tag_a
        (hfix_cons (by decide +kernel) (by decide +kernel) hhref
          (hfix_cons (by decide +kernel) (by decide +kernel) (hc.footc.linkClass _ _)
            (hfix_cons (by decide +kernel) (by decide +kernel) (escapeHTML_inert _)
              (hfix_cons (by decide +kernel) (by decide +kernel) (by decide) hfix_nil))))
        (by simp only [List.map]; decide)
    have inner := wf_el (x := x) tag_a sa (pre := decBytes index) (post := []) (body := [])
      (opn := [60, 97] ++ serAttrs [([104, 114, 101, 102], [35] ++ (footIdPrefix rc ++ strBytes "fn:" ++ decBytes index)),
        ([99, 108, 97, 115, 115], applyFootnoteTemplate rc.footc.linkClass index refCount),
        ([116, 105, 116, 108, 101], escapeHTML (applyFootnoteTemplate rc.footc.linkTitle index refCount)),
        ([114, 111, 108, 101], [100, 111, 99, 45, 110, 111, 116, 101, 114, 101, 102])] ++ [62] ++ decBytes index)
      (cls := [60, 47, 97, 62]) (by bnorm) (by bnorm) (decBytes_inert _) rfl .nil
    have outer := wf_el (x := x) tag_sup hsup (pre := []) (post := [])
      (opn := [60, 115, 117, 112] ++ serAttrs [([105, 100], fnrefId rc index refIndex)] ++ [62])
      (cls := [60, 47, 115, 117, 112, 62]) (by bnorm) (by bnorm) rfl rfl inner
    exact outer.of_eq (by bnorm)
  · simp only [ht, ↓reduceIte]
    have sa : StartOK [97] [([104, 114, 101, 102], [35] ++ (footIdPrefix rc ++ strBytes "fn:" ++ decBytes index)),
        ([99, 108, 97, 115, 115], applyFootnoteTemplate rc.footc.linkClass index refCount),
        ([114, 111, 108, 101], [100, 111, 99, 45, 110, 111, 116, 101, 114, 101, 102])] :=
      sok_fixed tag_a
        (hfix_cons (by decide +kernel) (by decide +kernel) hhref
          (hfix_cons (by decide +kernel) (by decide +kernel) (hc.footc.linkClass _ _)
            (hfix_cons (by decide +kernel) (by decide +kernel) (by decide) hfix_nil)))
        (by simp only [List.map]; decide)
    have inner := wf_el (x := x) tag_a sa (pre := decBytes index) (post := []) (body := [])
      (opn := [60, 97] ++ serAttrs [([104, 114, 101, 102], [35] ++ (footIdPrefix rc ++ strBytes "fn:" ++ decBytes index)),
        ([99, 108, 97, 115, 115], applyFootnoteTemplate rc.footc.linkClass index refCount),
        ([114, 111, 108, 101], [100, 111, 99, 45, 110, 111, 116, 101, 114, 101, 102])] ++ [62] ++ decBytes index)
      (cls := [60, 47, 97, 62]) (by bnorm) (by bnorm) (decBytes_inert _) rfl .nil
    have outer := wf_el (x := x) tag_sup hsup (pre := []) (post := [])
      (opn := [60, 115, 117, 112] ++ serAttrs [([105, 100], fnrefId rc index refIndex)] ++ [62])
      (cls := [60, 47, 115, 117, 112, 62]) (by bnorm) (by bnorm) rfl rfl inner
    exact outer.of_eq (by bnorm)

theorem wf_footnoteBacklink (hc : CfgOK x rc) (hh : rc.exts.foot = true) (pih next attrs cs)
    (index refCount refIndex : Nat) {body : Bytes} (hb : WFHtmlU x body) :
    WFHtmlU x (enter rc pih next (.footnoteBacklink index refCount refIndex) attrs cs ++ body ++
      leave rc pih next (.footnoteBacklink index refCount refIndex) cs) := by
  unfold_elx hh
  refine .append3 ?_ hb .nil
  have hhref : inertBytes ([35] ++ fnrefId rc index refIndex) = true :=
    inertBytes_append _ _ (by decide) (fnrefId_inert hc _ _)
  have hnbsp : WFHtmlU x [38, 35, 49, 54, 48, 59] := .txt (by decide +kernel)
  by_cases ht : rc.footc.backlinkTitle.length > 0
  · simp only [ht, ↓reduceIte]
    have sa : StartOK [97] [([104, 114, 101, 102], [35] ++ fnrefId rc index refIndex),
        ([99, 108, 97, 115, 115], applyFootnoteTemplate rc.footc.backlinkClass index refCount),
        ([116, 105, 116, 108, 101], escapeHTML (applyFootnoteTemplate rc.footc.backlinkTitle index refCount)),
        ([114, 111, 108, 101], [100, 111, 99, 45, 98, 97, 99, 107, 108, 105, 110, 107])] :=
      sok_fixed tag_a
        (hfix_cons (by decide +kernel) (by decide +kernel) hhref
          (hfix_cons (by decide +kernel) (by decide +kernel) (hc.footc.backlinkClass _ _)
            (hfix_cons (by decide +kernel) (by decide +kernel) (escapeHTML_inert _)
              (hfix_cons (by decide +kernel) (by decide +kernel) (by decide) hfix_nil))))
        (by simp only [List.map]; decide)
    have inner := wf_el (x := x) tag_a sa (pre := applyFootnoteTemplate rc.footc.backlinkHTML index refCount)
      (post := []) (body := [])
      (opn := [60, 97] ++ serAttrs [([104, 114, 101, 102], [35] ++ fnrefId rc index refIndex),
        ([99, 108, 97, 115, 115], applyFootnoteTemplate rc.footc.backlinkClass index refCount),
        ([116, 105, 116, 108, 101], escapeHTML (applyFootnoteTemplate rc.footc.backlinkTitle index refCount)),
        ([114, 111, 108, 101], [100, 111, 99, 45, 98, 97, 99, 107, 108, 105, 110, 107])] ++ [62] ++
        applyFootnoteTemplate rc.footc.backlinkHTML index refCount)
      (cls := [60, 47, 97, 62]) (by bnorm) (by bnorm) (hc.footc.backlinkHTML _ _) rfl .nil
    exact (WFHtmlU.append _ _ hnbsp inner).of_eq (by bnorm)
  · simp only [ht, ↓reduceIte]
    have sa : StartOK [97] [([104, 114, 101, 102], [35] ++ fnrefId rc index refIndex),
        ([99, 108, 97, 115, 115], applyFootnoteTemplate rc.footc.backlinkClass index refCount),
        ([114, 111, 108, 101], [100, 111, 99, 45, 98, 97, 99, 107, 108, 105, 110, 107])] :=
      sok_fixed tag_a
        (hfix_cons (by decide +kernel) (by decide +kernel) hhref
          (hfix_cons (by decide +kernel) (by decide +kernel) (hc.footc.backlinkClass _ _)
            (hfix_cons (by decide +kernel) (by decide +kernel) (by decide) hfix_nil)))
        (by simp only [List.map]; decide)
    have inner := wf_el (x := x) tag_a sa (pre := applyFootnoteTemplate rc.footc.backlinkHTML index refCount)
      (post := []) (body := [])
      (opn := [60, 97] ++ serAttrs [([104, 114, 101, 102], [35] ++ fnrefId rc index refIndex),
        ([99, 108, 97, 115, 115], applyFootnoteTemplate rc.footc.backlinkClass index refCount),
        ([114, 111, 108, 101], [100, 111, 99, 45, 98, 97, 99, 107, 108, 105, 110, 107])] ++ [62] ++
        applyFootnoteTemplate rc.footc.backlinkHTML index refCount)
      (cls := [60, 47, 97, 62]) (by bnorm) (by bnorm) (hc.footc.backlinkHTML _ _) rfl .nil
    exact (WFHtmlU.append _ _ hnbsp inner).of_eq (by bnorm)

theorem wf_footnote (hc : CfgOK x rc) (hh : rc.exts.foot = true) (pih next attrs cs) (index : Nat)
    {body : Bytes} (hb : WFHtmlU x body) (hinv : attrsInv attrs = true)
    (hcl : noClash (.footnote index) attrs = true) :
    WFHtmlU x (enter rc pih next (.footnote index) attrs cs ++ body ++ leave rc pih next (.footnote index) cs) := by
  unfold_elx hh
  have hcl' := absent_of (n := [105, 100]) hcl (by simp only [fixedAttrNames]; bnorm; simp)
  have sok : StartOK [108, 105] ([([105, 100], footIdPrefix rc ++ strBytes "fn:" ++ decBytes index)] ++
      userAttrsO Gen.ListItemAttributeFilter attrs) :=
    startOK_intro tag_li.name tag_li.allowed (sub_append _ _)
      (hfix_cons (by decide +kernel) (by decide +kernel) (fnId_inert hc index) hfix_nil) (by simp) hinv
      (hc_absent hcl' hc_nil)
  exact wf_el tag_li sok (pre := [10]) (post := [10])
    (by rw [renderAttrs_eq]; bnorm) (by bnorm) (by decide) (by decide) hb

theorem wf_footnoteList (hc : CfgOK x rc) (hh : rc.exts.foot = true) (pih next attrs cs)
    {body : Bytes} (hb : WFHtmlU x body) (hinv : attrsInv attrs = true)
    (hcl : noClash .footnoteList attrs = true) :
    WFHtmlU x (enter rc pih next .footnoteList attrs cs ++ body ++ leave rc pih next .footnoteList cs) := by
  unfold_elx hh
  rw [hc.foot]
  have hc1 := absent_of (n := [99, 108, 97, 115, 115]) hcl (by simp only [fixedAttrNames]; bnorm; simp)
  have hc2 := absent_of (n := [114, 111, 108, 101]) hcl (by simp only [fixedAttrNames]; bnorm; simp)
  have sok : StartOK [100, 105, 118] ([([99, 108, 97, 115, 115], [102, 111, 111, 116, 110, 111, 116, 101, 115]),
      ([114, 111, 108, 101], [100, 111, 99, 45, 101, 110, 100, 110, 111, 116, 101, 115])] ++
      userAttrsO Gen.GlobalAttributeFilter attrs) :=
    startOK_intro tag_div.name tag_div.allowed (sub_append _ _)
      (hfix_cons (by decide +kernel) (by decide +kernel) (by decide)
        (hfix_cons (by decide +kernel) (by decide +kernel) (by decide) hfix_nil)) (by simp only [List.map]; decide) hinv
      (hc_absent hc1 (hc_absent hc2 hc_nil))
  have ol := wf_el (x := x) tag_ol (sok_fixed tag_ol (fixed := []) rfl (by simp))
    (pre := [10]) (post := [10]) (opn := [60, 111, 108, 62, 10]) (cls := [60, 47, 111, 108, 62, 10])
    (by bnorm) (by bnorm) (by decide) (by decide) hb
  have hr := wf_void (x := x) tag_hr (sok_fixed tag_hr (fixed := []) rfl (by simp)) (post := [10])
    (opn := if x then [60, 104, 114, 32, 47, 62, 10] else [60, 104, 114, 62, 10]) (by cases x <;> bnorm) (by decide)
  have mid := WFHtmlU.append _ _ hr ol
  have outer := wf_el (x := x) tag_div sok (pre := [10]) (post := [10])
    (opn := strBytes "<div class=\"footnotes\" role=\"doc-endnotes\"" ++
      renderAttrs Gen.GlobalAttributeFilter attrs ++ [62, 10])
    (cls := [60, 47, 100, 105, 118, 62, 10])
    (by rw [renderAttrs_eq]; bnorm) (by bnorm) (by decide) (by decide) mid
  exact outer.of_eq (by cases x <;> bnorm)

theorem wf_other (pih next attrs cs) {body : Bytes} (hb : WFHtmlU x body) :
    WFHtmlU x (enter rc pih next .other attrs cs ++ body ++ leave rc pih next .other cs) := by
  simp only [enter, leave, handled]
  exact hb.of_eq (by simp)

theorem wf_unhandled (k : Kind) (hh : handled rc.exts k = false) (pih next attrs cs) {body : Bytes}
    (hb : WFHtmlU x body) : WFHtmlU x (enter rc pih next k attrs cs ++ body ++ leave rc pih next k cs) := by
  simp only [enter, leave, hh]
  exact hb.of_eq (by simp)

end GM.Proof.RenderWFU

