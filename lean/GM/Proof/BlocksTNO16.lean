/-
  GM.Proof.BlocksTNO16 — THE CLOSE DISCIPLINE FOR WHOLE RUNS of the block phase WITH paragraph transformers
  (GM.Proof.BlocksClosedEnd for `runT`): at every line boundary `CInvG src s s.pc.opened` holds, the run ends with an empty
  stack, and in the final store every non-raw node has padding 0 on all its lines — EXCEPT a parentless Heading node: the
  node setextHeadingParser.Open built on an underline whose paragraph was then transformed away (link reference
  definitions only) stays in the store, unattached, with its raw bar line. (So wf0's `run_closed`, ∀ n ∈ s.nodes, is FALSE
  for `runT [transform]`: `> [a]: /u⏎>⇥===⏎`, example at the end.) Every node that is attached — every entry of a child
  list — has padding 0.
-/
import GM.Proof.BlocksTNO15

namespace GM.Blocks.TO
open GM GM.Text GM.Spec GM.Proof.Reader GM.LinkRef GM.Blocks.L GM.Blocks.T
open GM.Proof.BlocksWF0 (isRaw)

section run
variable {src : Bytes} {pts : List PT} (hag : AgreeP src pts pts) (lsp : LSp src) {e : Panic} (hsp : PTsSpec src e pts)
include hag lsp hsp

/-- the loop over lines (parser.go:1074-1126) under the close discipline -/
theorem linesLoopT_clG {root : Nat} (parent : Nat) (hroot : parent = root) :
    ∀ (fuel : Nat) (bl : List LineStat) (s : St) (c : RCur) (x : Bool × List LineStat) (s' : St),
      RI src s.r c → PadOK c → GM.Blocks.L.G.StableG src root s → InvG src (c.p : Int) s → c.pad = 0 →
      CInvG False src s s.pc.opened →
      linesLoopT pts parent fuel bl s = .ok (x, s') →
      CInvG False src s' s'.pc.opened ∧ (x.1 = true → s'.pc.opened = []) := by
  intro fuel
  induction fuel with
  | zero => intro bl s c x s' _ _ _ _ _ _ h; unfold linesLoopT at h; cases h
  | succ fuel ih =>
    intro bl s c x s' hri hpad hst hinv hp0 hci h
    unfold linesLoopT at h
    obtain ⟨pc, s0, h0, k0⟩ := obind_ok h
    obtain ⟨hpc, hs0⟩ := ogetPc_ok h0
    subst s0
    subst pc
    dsimp only at k0
    split at k0
    · next hl =>
      obtain ⟨hx, hs⟩ := opure_ok k0
      subst s'
      subst x
      exact ⟨hci, fun h => by cases h⟩
    · obtain ⟨y, s1, h1, k1⟩ := obind_ok k0
      have hll := oke_of_ok (GM.Blocks.L.G.lineLoopL lsp hsp parent hroot s.pc.opened ((s.pc.opened.length : Int) - 1) rfl
        s.pc.opened [] 0 bl s c (by simp) (by simp) rfl hri hpad hst (fun Lk h => by simp at h)) h1
      obtain ⟨c1, hria1, hst1⟩ := hll
      have hd1 := (lineLoopT_eqg lsp hag parent hroot s.pc.opened ((s.pc.opened.length : Int) - 1) rfl (c.p : Int)
        s.pc.opened [] 0 bl s c (by simp) (by simp) rfl hri hpad hst (fun Lk h => by simp at h) hinv (Int.le_refl _)
        (fun hne => absurd hp0 hne)).2 y s1 h1
      have hq1 := lineLoopT_clG hag lsp hsp parent hroot s.pc.opened ((s.pc.opened.length : Int) - 1) rfl (c.p : Int)
        s.pc.opened [] 0 bl s c y s1 (by simp) (by simp) rfl hri hpad hst (fun Lk h => by simp at h) hinv (Int.le_refl _)
        (fun hne => absurd hp0 hne) hci h1
      obtain ⟨outcome, bl1⟩ := y
      cases outcome with
      | eof =>
        dsimp only at k1
        obtain ⟨hx, hs⟩ := opure_ok k1
        subst s'
        subst x
        exact ⟨hq1.1, fun _ => hq1.2 rfl⟩
      | next =>
        dsimp only at k1
        obtain ⟨_, s2, h2, k2⟩ := obind_ok k1
        have e2 : s2 = { s1 with r := s1.r.advanceLine } := by cases h2; rfl
        subst s2
        exact ih bl1 _ _ x s' (advanceLine_ria hria1) (padOK_advanceLine c1) (hst1.congr_r _) (dirty_nextG hd1 hria1) rfl
          (hq1.1.of_same rfl rfl rfl) k2

/-- the outer loop of parseBlocksT (parser.go:1055-1127) under the close discipline: it ends with an empty stack -/
theorem blocksLoopT_clG {root : Nat} (parent : Nat) (hroot : parent = root) :
    ∀ (fuel : Nat) (bl : List LineStat) (s : St) (c : RCur) (s' : St), RI src s.r c → PadOK c →
      GM.Blocks.L.G.StableG src root s → s.pc.opened = [] → InvG src (c.p : Int) s → c.pad = 0 →
      CInvG False src s s.pc.opened →
      blocksLoopT pts parent fuel bl s = .ok ((), s') →
      CInvG False src s' s'.pc.opened ∧ s'.pc.opened = [] := by
  intro fuel
  induction fuel with
  | zero => intro _ _ _ _ _ _ _ _ _ _ _ h; unfold blocksLoopT at h; cases h
  | succ fuel ih =>
    intro bl s c s' hri hpad hst hemp hinv hp0 hci h
    unfold blocksLoopT at h
    obtain ⟨y, s1, h1, k1⟩ := obind_ok h
    have hskip : ∃ r1 c1, s1 = { s with r := r1 } ∧ RI src r1 c1 ∧ PadOK c1 ∧ c.p ≤ c1.p ∧ c1.pad = 0 := by
      unfold skipBlankLinesR at h1
      cases hsk : skipBlankLines readerOps (loopFuel s.r.source) 0 s.r with
      | error e => rw [hsk] at h1; simp [bind, Except.bind] at h1
      | ok p =>
        rw [hsk] at h1
        simp only [bind, Except.bind, pure, Except.pure] at h1
        cases h1
        obtain ⟨c1, a1, a2, a3⟩ := GM.Blocks.L.skipBlankLines_mono (src := src) _ _ _ c p.1 p.2 hri hpad hsk
        exact ⟨p.2, c1, rfl, a1, a2, a3.1, a3.2 hp0⟩
    obtain ⟨r1, c1, hs1, hri1, hpad1, hle1, hp1⟩ := hskip
    subst s1
    obtain ⟨seg, lines, ok⟩ := y
    have hst1 := hst.congr_r r1
    have hinv1 : InvG src (c1.p : Int) { s with r := r1 } := (hinv.mono (by omega)).congr_r r1
    have hci1 : CInvG False src { s with r := r1 } s.pc.opened := hci.of_same rfl rfl rfl
    dsimp only at k1
    split at k1
    · obtain ⟨_, hs⟩ := opure_ok k1
      subst s'
      exact ⟨hci1, hemp⟩
    · obtain ⟨pos, s2, h2, k2⟩ := obind_ok k1
      have e2 : s2 = { s with r := r1 } := by cases h2; rfl
      subst s2
      obtain ⟨pc, s3, h3, k3⟩ := obind_ok k2
      obtain ⟨hpc, e3⟩ := ogetPc_ok h3
      subst s3
      subst pc
      dsimp only at k3
      obtain ⟨res, s4, h4, k4⟩ := obind_ok k3
      have hcl : Call ({ s with r := r1 } : St).pc.opened [] := ⟨⟨s.pc.opened, by simp, fun h b hb => by
        rw [show ({ s with r := r1 } : St).pc.opened = s.pc.opened from rfl, hemp] at hb; cases hb⟩⟩
      have hkroot : (nd ({ s with r := r1 } : St) parent).kind ≠ .list := by
        rw [hroot, hst1.ls.rootKind]; decide
      have hob := oke_of_ok (GM.Blocks.L.G.openBlocksL (e := e) (pts := pts) lsp hsp [] parent _ { s with r := r1 } c1 hri1 hpad1
        hst1 hcl (by rw [hroot]; rfl) (fun hk => absurd hk hkroot)) h4
      obtain ⟨c2, new2, hria2, _, hw2, hleafy2, _, _, hend2, _, htl2, _, hlk2, _⟩ := hob
      have hop2 : s4.pc.opened = new2 := by
        rcases hw2.shape with e | ⟨h, _⟩
        · rw [e]; show s.pc.opened ++ new2 = new2; rw [hemp]; rfl
        · exact absurd hemp h
      have hst2 : GM.Blocks.L.G.StableG src root s4 :=
        ⟨hw2.nodes, hw2.keys, hw2.blocks, by rw [hop2]; exact hleafy2, hw2.ls, by rw [hop2]; simpa using hw2.chain,
          by rw [hop2]; simpa using hend2, htl2, hw2.tree,
          fun lb hlb hl => ⟨_, hlk2 lb (by rw [← hop2]; exact hlb) hl⟩,
          fun t ht => Nat.lt_of_lt_of_le (hw2.tmplt t ht) hw2.ext.len⟩
      have hd4 := (openBlocksT_eqg hag (c1.p : Int) parent _ { s with r := r1 } c1
        ⟨hinv1, hri1, hpad1, Int.le_refl _, fun hne => absurd hp1 hne⟩
        (ent_of_stable hst1)).2 res s4 h4
      obtain ⟨how, hsame⟩ := openBlocksT_clG hag (c1.p : Int) parent _ { s with r := r1 } c1 res s4
        ⟨hinv1, hri1, hpad1, Int.le_refl _, fun hne => absurd hp1 hne⟩ (ent_of_stable hst1) hci1 (by rw [hroot]; exact hst1.ls.rootLt)
        (by rw [hroot, hst1.ls.rootKind]; decide) h4
      split at k4
      · next hres =>
        obtain ⟨_, hs⟩ := opure_ok k4
        subst s'
        have hne : res ≠ .newBlocksOpened := by simpa using hres
        refine ⟨how.ci, ?_⟩
        have := hsame hne
        rw [show ({ s with r := r1 } : St).pc.opened = s.pc.opened from rfl, hemp] at this
        exact List.eq_nil_of_sublist_nil this
      · obtain ⟨_, s5, h5, k5⟩ := obind_ok k4
        have e5 : s5 = { s4 with r := s4.r.advanceLine } := by cases h5; rfl
        subst s5
        obtain ⟨z, s6, h6, k6⟩ := obind_ok k5
        have hri5 := advanceLine_ria hria2
        have hpad5 := padOK_advanceLine (src := src) c2
        have hst5 := hst2.congr_r s4.r.advanceLine
        have hinv5 := dirty_nextG hd4 hria2
        obtain ⟨q1, q2⟩ := (linesLoopT_eqg lsp hag hsp parent hroot fuel _ _ _ hri5 hpad5 hst5 hinv5 rfl).2 z s6 h6
        obtain ⟨p1, p2⟩ := linesLoopT_clG hag lsp hsp parent hroot fuel _ _ _ z s6 hri5 hpad5 hst5 hinv5 rfl
          (how.ci.of_same rfl rfl rfl) h6
        obtain ⟨ret, bl3⟩ := z
        dsimp only at k6
        split at k6
        · next hret =>
          obtain ⟨_, hs⟩ := opure_ok k6
          subst s'
          exact ⟨p1, p2 hret⟩
        · next hret =>
          obtain ⟨c3, hri3, hpad3, hst3, hemp3, hinv3, hp3⟩ := q2 (by simpa using hret)
          exact ih bl3 s6 c3 s' hri3 hpad3 hst3 hemp3 hinv3 hp3 p1 k6

end run

section fin
variable {src : Bytes} {pts : List PT} {e : Panic}

/-- the whole block phase with transformers: the close discipline holds of the final store, with an empty stack -/
theorem runT_closed_aux (hag : AgreeP src pts pts) (hsp : PTsSpec src e pts) (s : St) (h : runT pts src = .ok s) :
    CInvG False src s [] ∧ s.pc.opened = [] := by
  have hnd0 : ∀ i, nd ({ (initSt src) with pc := { (initSt src).pc with opened := [] } } : St) i =
      if i = 0 then { kind := .document } else default := by
    intro i
    cases i with
    | zero => rfl
    | succ n => rfl
  have hnodes0 : NodesOK src { (initSt src) with pc := { (initSt src).pc with opened := [] } } := by
    intro n hn
    simp only [initSt, List.mem_singleton] at hn
    subst hn
    exact ⟨by intro t ht; simp at ht, fun _ => rfl⟩
  have hinit : GM.Blocks.L.G.StableG src 0 { (initSt src) with pc := { (initSt src).pc with opened := [] } } := by
    refine ⟨hnodes0, ⟨?_⟩, ?_, ?_, ⟨⟨?_, ?_, ?_⟩, ?_, ?_, ?_, ?_, ?_⟩, ?_, ?_, (fun ⟨b, hb, _⟩ => by simp at hb), ?tree,
      (fun lb hlb _ => by simp at hlb), (fun t h => by simp [initSt] at h)⟩
    case tree =>
      refine ⟨fun i p hp => ?_, fun p i hi => ?_, fun p => ?_⟩
      · rw [hnd0] at hp; split at hp <;> cases hp
      · rw [hnd0] at hi; split at hi <;> cases hi
      · rw [hnd0]; split <;> exact List.nodup_nil
    · intro f h; simp [initSt] at h
    · intro b hb; simp at hb
    · intro b hb; simp at hb
    · intro i lc hk; rw [hnd0] at hk; split at hk <;> cases hk
    · intro i hk; rw [hnd0] at hk; split at hk <;> cases hk
    · intro i p hp; rw [hnd0] at hp; split at hp <;> cases hp
    · intro i p hp; rw [hnd0] at hp; split at hp <;> cases hp
    · rw [hnd0]; rfl
    · simp [initSt]
    · intro b hb; simp at hb
    · simp
    · trivial
    · show (nd _ (lastNode 0 [])).kind ≠ .list
      rw [lastNode_nil, hnd0]; decide
  have hinv0 : InvG src ((RCur.init).p : Int) { (initSt src) with pc := { (initSt src).pc with opened := [] } } := by
    refine ⟨fun i _ => ?_, List.Pairwise.nil, fun i hk => ?_, fun t ht => ?_, fun b hb => ?_, hnodes0, fun t ht => ?_,
      fun i _ => ?_⟩
    · rw [hnd0]; split
      · exact ⟨trivial, fun _ => Below.nil _, fun t ht => by cases ht⟩
      · exact ⟨trivial, fun _ => Below.nil _, fun t ht => by cases ht⟩
    · rw [hnd0] at hk; split at hk <;> cases hk
    · simp [initSt] at ht
    · simp at hb
    · simp [initSt] at ht
    · rw [hnd0]; split
      · exact ⟨trivial, Below.nil _⟩
      · exact ⟨trivial, Below.nil _⟩
  have hci0 : CInvG False src { (initSt src) with pc := { (initSt src).pc with opened := [] } } [] := by
    refine ⟨⟨_, hinv0⟩, ⟨fun i p hp => ?_, fun x c hc => ?_, fun x => ?_⟩, fun i _ => .inl (fun t ht => ?_),
      (fun b hb => by cases hb), List.nodup_nil, (fun b hb => by cases hb), fun i _ => by rw [hnd0]; split <;> rfl⟩
    · rw [hnd0] at hp; split at hp <;> cases hp
    · rw [hnd0] at hc; split at hc <;> cases hc
    · rw [hnd0]; split <;> exact List.nodup_nil
    · rw [hnd0] at ht; split at ht <;> cases ht
  have hp : parseBlocksT pts 0 (initSt src) = blocksLoopT pts 0 (linesFuel src) []
      { (initSt src) with pc := { (initSt src).pc with opened := [] } } := rfl
  unfold runT at h
  rw [hp] at h
  cases hx : blocksLoopT pts 0 (linesFuel src) [] { (initSt src) with pc := { (initSt src).pc with opened := [] } } with
  | error e' => rw [hx] at h; cases h
  | ok p =>
    obtain ⟨u, s1⟩ := p
    rw [hx] at h
    have : s1 = s := by simpa [Except.map] using h
    subst this
    obtain ⟨a1, a2⟩ := blocksLoopT_clG hag (lsp_all src) hsp 0 rfl (linesFuel src) []
      { (initSt src) with pc := { (initSt src).pc with opened := [] } } RCur.init s1 (ri_init src)
      (fun h => absurd rfl h) hinit rfl hinv0 rfl hci0 hx
    rw [a2] at a1
    exact ⟨a1, a2⟩

end fin

theorem agreeP_self_guardE (src : Bytes) (e : Panic) : AgreeP src [guardE e] [guardE e] :=
  fun node s a b c d f => ⟨rfl, (agreeP_guardE src e node s a b c d f).2⟩

/-- the close discipline of the final store of the run with the bare transformer -/
theorem runT_transform_cinv (src : Bytes) (s : St) (h : runT [transform] src = .ok s) :
    CInvG False src s [] ∧ s.pc.opened = [] := by
  rw [← guard_never_fires src .nil] at h
  exact runT_closed_aux (agreeP_self_guardE src .nil) (GM.Proof.LinkRefTot2.guardE_ptsSpec src .nil) s h

/-- **padding 0 at the end, with the transformer, every source**: every non-raw node of the final store has padding 0
    on all its lines, or is a parentless Heading (the abandoned node of setextHeadingParser.Open) -/
theorem runT_transform_closed (src : Bytes) (s : St) (h : runT [transform] src = .ok s) :
    ∀ i, isRaw (nd s i).kind = false → Closed (nd s i) ∨ ((nd s i).kind = .heading ∧ (nd s i).parent = none) := by
  obtain ⟨hc, _⟩ := runT_transform_cinv src s h
  intro i hr
  rcases hc.pad i hr with hcl | ⟨b, hb, _⟩ | hab
  · exact .inl hcl
  · cases hb
  · exact .inr hab

/-- every attached non-raw node has padding 0 on all its lines -/
theorem runT_transform_attached_closed (src : Bytes) (s : St) (h : runT [transform] src = .ok s) (i : Nat)
    (hr : isRaw (nd s i).kind = false) (hp : (nd s i).parent.isSome = true) : ∀ t ∈ (nd s i).lines, t.padding = 0 := by
  rcases runT_transform_closed src s h i hr with hc | hab
  · exact hc
  · rw [hab.2] at hp; cases hp

/-- **Document, Blockquote, List, ListItem and ThematicBreak nodes carry no lines** in the final store of the run with the
    transformer (the analogue of wf0's `run_no_lines`) -/
theorem runT_transform_no_lines (src : Bytes) (s : St) (h : runT [transform] src = .ok s) :
    ∀ i, noLinesKind (nd s i).kind = true → (nd s i).lines = [] :=
  (runT_transform_cinv src s h).1.nl

/-- the tree links of the final store are consistent (wf0's `TreeOK`: parents are older; every entry of a child list
    points back; child lists have no duplicates) -/
theorem runT_transform_tree (src : Bytes) (s : St) (h : runT [transform] src = .ok s) : TreeOK s :=
  (runT_transform_cinv src s h).1.tree

/-- the tree-walk form: every entry of a child list has that parent, and (when not raw) padding 0 on all its lines -/
theorem runT_transform_child_closed (src : Bytes) (s : St) (h : runT [transform] src = .ok s) (p c : Nat)
    (hc : c ∈ (nd s p).children) :
    (nd s c).parent = some p ∧ (isRaw (nd s c).kind = false → ∀ t ∈ (nd s c).lines, t.padding = 0) := by
  have hk := (runT_transform_tree src s h).kid p c hc
  exact ⟨hk, fun hr => runT_transform_attached_closed src s h c hr (by rw [hk]; rfl)⟩

/-- **the open-block stack is empty when the block phase with the transformer ends** -/
theorem runT_transform_opened_nil (src : Bytes) (s : St) (h : runT [transform] src = .ok s) : s.pc.opened = [] :=
  (runT_transform_cinv src s h).2

/-- node 0 of the final store is the Document (from the no-panic walk's invariant at the end of the run) -/
theorem runT_transform_root (src : Bytes) (s : St) (h : runT [transform] src = .ok s) :
    (nd s 0).kind = .document ∧ 0 < s.nodes.length := by
  rw [← guard_never_fires src .nil] at h
  have hnd0 : ∀ i, nd ({ (initSt src) with pc := { (initSt src).pc with opened := [] } } : St) i =
      if i = 0 then { kind := .document } else default := by
    intro i
    cases i with
    | zero => rfl
    | succ n => rfl
  have hinit : GM.Blocks.L.G.StableG src 0 { (initSt src) with pc := { (initSt src).pc with opened := [] } } := by
    refine ⟨?_, ⟨?_⟩, ?_, ?_, ⟨⟨?_, ?_, ?_⟩, ?_, ?_, ?_, ?_, ?_⟩, ?_, ?_, (fun ⟨b, hb, _⟩ => by simp at hb), ?tree,
      (fun lb hlb _ => by simp at hlb), (fun t h => by simp [initSt] at h)⟩
    case tree =>
      refine ⟨fun i p hp => ?_, fun p i hi => ?_, fun p => ?_⟩
      · rw [hnd0] at hp; split at hp <;> cases hp
      · rw [hnd0] at hi; split at hi <;> cases hi
      · rw [hnd0]; split <;> exact List.nodup_nil
    · intro n hn
      simp only [initSt, List.mem_singleton] at hn
      subst hn
      exact ⟨by intro t ht; simp at ht, fun _ => rfl⟩
    · intro f h; simp [initSt] at h
    · intro b hb; simp at hb
    · intro b hb; simp at hb
    · intro i lc hk; rw [hnd0] at hk; split at hk <;> cases hk
    · intro i hk; rw [hnd0] at hk; split at hk <;> cases hk
    · intro i p hp; rw [hnd0] at hp; split at hp <;> cases hp
    · intro i p hp; rw [hnd0] at hp; split at hp <;> cases hp
    · rw [hnd0]; rfl
    · simp [initSt]
    · intro b hb; simp at hb
    · simp
    · trivial
    · show (nd _ (lastNode 0 [])).kind ≠ .list
      rw [lastNode_nil, hnd0]; decide
  have hp : parseBlocksT [guardE .nil] 0 (initSt src) = blocksLoopT [guardE .nil] 0 (linesFuel src) []
      { (initSt src) with pc := { (initSt src).pc with opened := [] } } := rfl
  unfold runT at h
  rw [hp] at h
  cases hx : blocksLoopT [guardE .nil] 0 (linesFuel src) []
      { (initSt src) with pc := { (initSt src).pc with opened := [] } } with
  | error e' => rw [hx] at h; cases h
  | ok p =>
    obtain ⟨u, s1⟩ := p
    rw [hx] at h
    have : s1 = s := by simpa [Except.map] using h
    subst this
    have hst := oke_of_ok (GM.Blocks.L.G.blocksLoopL (lsp_all src) (GM.Proof.LinkRefTot2.guardE_ptsSpec src .nil) 0 rfl
      (linesFuel src) [] { (initSt src) with pc := { (initSt src).pc with opened := [] } } RCur.init (ri_init src)
      (fun h => absurd rfl h) hinit rfl) hx
    exact ⟨hst.ls.rootKind, hst.ls.rootLt⟩

/-! ### the same for `GM.Convert.blockPhase true` -/

theorem blockPhase_runT (src : Bytes) (s : St) (h : GM.Convert.blockPhase true src = .ok s) :
    runT [transform] src = .ok s := by
  rw [blockPhase_guard_irrelevant src] at h
  simpa [GM.Convert.blockPhase, GM.Convert.paragraphTransformers] using h

theorem blockPhase_closed (src : Bytes) (s : St) (h : GM.Convert.blockPhase true src = .ok s) :
    ∀ i, isRaw (nd s i).kind = false → Closed (nd s i) ∨ ((nd s i).kind = .heading ∧ (nd s i).parent = none) :=
  runT_transform_closed src s (blockPhase_runT src s h)

theorem blockPhase_attached_closed (src : Bytes) (s : St) (h : GM.Convert.blockPhase true src = .ok s) (i : Nat)
    (hr : isRaw (nd s i).kind = false) (hp : (nd s i).parent.isSome = true) : ∀ t ∈ (nd s i).lines, t.padding = 0 :=
  runT_transform_attached_closed src s (blockPhase_runT src s h) i hr hp

theorem blockPhase_tree (src : Bytes) (s : St) (h : GM.Convert.blockPhase true src = .ok s) : TreeOK s :=
  runT_transform_tree src s (blockPhase_runT src s h)

theorem blockPhase_child_closed (src : Bytes) (s : St) (h : GM.Convert.blockPhase true src = .ok s) (p c : Nat)
    (hc : c ∈ (nd s p).children) :
    (nd s c).parent = some p ∧ (isRaw (nd s c).kind = false → ∀ t ∈ (nd s c).lines, t.padding = 0) :=
  runT_transform_child_closed src s (blockPhase_runT src s h) p c hc

theorem blockPhase_root (src : Bytes) (s : St) (h : GM.Convert.blockPhase true src = .ok s) :
    (nd s 0).kind = .document ∧ 0 < s.nodes.length :=
  runT_transform_root src s (blockPhase_runT src s h)

theorem blockPhase_no_lines (src : Bytes) (s : St) (h : GM.Convert.blockPhase true src = .ok s) :
    ∀ i, noLinesKind (nd s i).kind = true → (nd s i).lines = [] :=
  runT_transform_no_lines src s (blockPhase_runT src s h)

theorem blockPhase_opened_nil (src : Bytes) (s : St) (h : GM.Convert.blockPhase true src = .ok s) : s.pc.opened = [] :=
  runT_transform_opened_nil src s (blockPhase_runT src s h)

/-! ### the counterexample to "every node of the store" -/

/-- `> [a]: /u⏎>⇥===⏎`: the paragraph inside the block quote is a link reference definition only; the setext heading
    parser has built a Heading on the underline `>⇥===` (padding 2 behind the tab) when the transformer empties the
    paragraph — the Heading node (3) is abandoned, parentless, with its raw bar line -/
def exAbandoned : Bytes := [62, 32, 91, 97, 93, 58, 32, 47, 117, 10, 62, 9, 61, 61, 61, 10]

example : (runT [transform] exAbandoned).toOption.map (fun s =>
    decide ((nd s 3).kind = .heading) && (nd s 3).parent.isNone &&
      (nd s 3).lines.map (fun t => (t.start, t.stop, t.padding)) == [(12, 16, 2)]) = some true := by decide +kernel

end GM.Blocks.TO
