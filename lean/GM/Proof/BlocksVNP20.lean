-- GENERATED from BlocksTNP20.lean by tools/port_blocks_v.py (package headingids): the same proofs for the monitored driver runV. Do not edit.
/-
  GM.Proof.BlocksTNP20 — tree-shape invariants of the block phase over the tree surgery of the Close functions and of the
  paragraph transformers (towards the general `runV_total`: the ELSE branch of `if last == parent.LastChild()`,
  parser.go:986, is dead).

  * `TreeOK s`  — parent pointers and children lists agree in both directions, children lists have no duplicates;
  * `LK s x q`  — `x` is the LAST child of its parent `q` and occurs in no other children list.
  Both are instances of one calculus `TInv I GC GP` ("`I` is kept by `RemoveChild` of a good child and by attaching a good
  child to a good parent"), from which the frames of `appendChild`, `insertBefore`, `replaceChild`, `tightenItem(s)`,
  `listClose`, `setextClose` follow once (template: GM.Proof.BlocksPlt).
-/
import GM.Proof.BlocksVNP3

namespace GM.Blocks.TRV
open GM GM.Text GM.Spec GM.Proof.Reader GM.Blocks.TV

/-! ### list facts -/

theorem mem_insertBeforeIn (v c : Nat) : ∀ (l : List Nat) (y : Nat), y ∈ insertBeforeIn v c l ↔ (y ∈ l ∨ y = c)
  | [], y => by simp [insertBeforeIn]
  | a :: rest, y => by
    unfold insertBeforeIn
    split
    · simp only [List.mem_cons]; constructor
      · rintro (h | h | h)
        · exact .inr h
        · exact .inl (.inl h)
        · exact .inl (.inr h)
      · rintro ((h | h) | h)
        · exact .inr (.inl h)
        · exact .inr (.inr h)
        · exact .inl h
    · simp only [List.mem_cons, mem_insertBeforeIn v c rest y]
      constructor
      · rintro (h | h | h)
        · exact .inl (.inl h)
        · exact .inl (.inr h)
        · exact .inr h
      · rintro ((h | h) | h)
        · exact .inl h
        · exact .inr (.inl h)
        · exact .inr (.inr h)

theorem nodup_insertBeforeIn (v c : Nat) : ∀ (l : List Nat), l.Nodup → c ∉ l → (insertBeforeIn v c l).Nodup
  | [], _, _ => by simp [insertBeforeIn]
  | a :: rest, hn, hc => by
    unfold insertBeforeIn
    split
    · exact List.nodup_cons.2 ⟨hc, hn⟩
    · have hn' := List.nodup_cons.1 hn
      refine List.nodup_cons.2 ⟨?_, nodup_insertBeforeIn v c rest hn'.2 (fun h => hc (List.mem_cons_of_mem _ h))⟩
      intro h
      rcases (mem_insertBeforeIn v c rest a).1 h with h | h
      · exact hn'.1 h
      · exact hc (by rw [h]; exact List.mem_cons_self ..)

theorem getLast?_erase_of_ne (x c : Nat) : ∀ (l : List Nat), l.getLast? = some x → c ≠ x → (l.erase c).getLast? = some x
  | [], h, _ => by cases h
  | [a], h, hne => by
    simp at h; subst h
    have : ([a] : List Nat).erase c = [a] := by simp [List.erase_cons, hne.symm]
    rw [this]; rfl
  | a :: b :: rest, h, hne => by
    have h' : (b :: rest).getLast? = some x := by simpa [List.getLast?_cons_cons] using h
    by_cases e : a = c
    · subst e; simpa using h'
    · have : (a :: b :: rest).erase c = a :: (b :: rest).erase c := by simp [List.erase_cons, e]
      rw [this]
      have ih := getLast?_erase_of_ne x c (b :: rest) h' hne
      cases hr : (b :: rest).erase c with
      | nil => rw [hr] at ih; cases ih
      | cons d ds => rw [hr] at ih; rw [List.getLast?_cons_cons]; exact ih

/-! ### the two `modNode`s of `RemoveChild` / of attaching a child -/

theorem upd2_parent (s : St) (p c : Nat) (g : List Nat → List Nat) (par : Option Nat) (j : Nat) :
    (nd (upd (upd s p fun n => { n with children := g n.children }) c fun n => { n with parent := par }) j).parent =
      if j = c ∧ c < s.nodes.length then par else (nd s j).parent := by
  rw [nd_upd]
  have hl : (upd s p fun n => { n with children := g n.children }).nodes.length = s.nodes.length := by simp [upd]
  rw [hl]
  by_cases e : c = j ∧ c < s.nodes.length
  · obtain ⟨rfl, hc⟩ := e; simp [hc]
  · have e' : ¬ (j = c ∧ c < s.nodes.length) := fun h => e ⟨h.1.symm, h.2⟩
    rw [if_neg e, if_neg e']
    exact parent_upd_children s p g j

theorem upd2_children (s : St) (p c : Nat) (g : List Nat → List Nat) (par : Option Nat) (j : Nat) :
    (nd (upd (upd s p fun n => { n with children := g n.children }) c fun n => { n with parent := par }) j).children =
      if j = p ∧ p < s.nodes.length then g (nd s p).children else (nd s j).children := by
  have h1 : ∀ j, (nd (upd s p fun n => { n with children := g n.children }) j).children =
      if j = p ∧ p < s.nodes.length then g (nd s p).children else (nd s j).children := by
    intro j
    rw [nd_upd]
    by_cases e : p = j ∧ p < s.nodes.length
    · obtain ⟨rfl, hp⟩ := e; simp [hp]
    · have e' : ¬ (j = p ∧ p < s.nodes.length) := fun h => e ⟨h.1.symm, h.2⟩
      rw [if_neg e, if_neg e']
  rw [nd_upd]
  split
  · rename_i h; obtain ⟨rfl, _⟩ := h; exact h1 _
  · exact h1 j

theorem lt_of_mem_children (s : St) (p i : Nat) (h : i ∈ (nd s p).children) : p < s.nodes.length := by
  rcases Nat.lt_or_ge p s.nodes.length with hp | hp
  · exact hp
  · rw [nd_default_of_ge s hp] at h; cases h

/-! ### the calculus -/

/-- `I` is a property of the tree links that `RemoveChild` of a `GC` child and attaching a `GC` child to a `GP` parent keep -/
structure TInv (I : St → Prop) (GC GP : Nat → Prop) : Prop where
  ts : ∀ {s s' : St}, TreeSame s s' → I s → I s'
  app : ∀ {s : St} (n : Node) (r : Reader) (pc : Ctx), n.parent = none → n.children = [] → I s →
    I { r := r, nodes := s.nodes ++ [n], pc := pc }
  rm : ∀ {s : St} (p c : Nat), GC c → (nd s c).parent = some p → I s →
    I (upd (upd s p fun n => { n with children := n.children.erase c }) c fun n => { n with parent := none })
  link : ∀ {s : St} (g : List Nat → List Nat) (p c : Nat), GC c → GP p → p < s.nodes.length → c < s.nodes.length →
    (∀ l y, y ∈ g l ↔ (y ∈ l ∨ y = c)) → (∀ l, l.Nodup → c ∉ l → (g l).Nodup) → (nd s c).parent = none → I s →
    I (upd (upd s p fun n => { n with children := g n.children }) c fun n => { n with parent := some p })
  kids : ∀ {s : St} (p : Nat), I s → GP p → ∀ y ∈ (nd s p).children, GC y
  fresh : ∀ {s : St}, I s → GC s.nodes.length

section calculus
variable {I : St → Prop} {GC GP : Nat → Prop} (T : TInv I GC GP)
include T

theorem inv_removeChild (p c : Nat) (s s' : St) (hc : GC c) (hi : I s) (h : removeChild p c s = .ok ((), s')) :
    I s' ∧ s'.nodes.length = s.nodes.length ∧ (nd s' c).parent ≠ some p := by
  by_cases hpar : (nd s c).parent = some p
  · rw [removeChild_eq p c s hpar] at h
    cases h
    refine ⟨T.rm p c hc hpar hi, by simp [upd], ?_⟩
    by_cases hlt : c < s.nodes.length
    · rw [upd2_parent s p c (fun l => l.erase c) none c]; simp [hlt]
    · have : nd s c = default := nd_default_of_ge s (Nat.le_of_not_lt hlt)
      rw [this] at hpar; cases hpar
  · have hpar' : ((s.nodes.getD c default).parent != some p) = true := by
      have : ¬ (s.nodes.getD c default).parent = some p := hpar
      simpa using this
    unfold removeChild at h
    simp only [bind, StateT.bind, getNode, Except.bind, pure, StateT.pure, Except.pure, hpar', if_true] at h
    cases h
    exact ⟨hi, rfl, hpar⟩

theorem inv_ensureIsolated (c : Nat) (s s' : St) (hc : GC c) (hi : I s) (h : ensureIsolated c s = .ok ((), s')) :
    I s' ∧ s'.nodes.length = s.nodes.length ∧ (nd s' c).parent = none := by
  unfold ensureIsolated at h
  obtain ⟨cn, s1, h1, h⟩ := fr_bind_ok h
  cases h1
  cases hq : (s.nodes.getD c default).parent with
  | some q =>
    simp only [hq] at h
    have hq' : (nd s c).parent = some q := hq
    rw [removeChild_eq q c s hq'] at h
    cases h
    refine ⟨T.rm q c hc hq' hi, by simp [upd], ?_⟩
    have hlt : c < s.nodes.length := fr_lt_of_parent s c q hq'
    rw [upd2_parent s q c (fun l => l.erase c) none c]; simp [hlt]
  | none => simp only [hq] at h; cases h; exact ⟨hi, rfl, hq⟩

/-- the common part of `AppendChild` / `InsertBefore` -/
theorem inv_attach (g : List Nat → List Nat) (p c : Nat) (s s' : St) (hc : GC c) (hp : GP p)
    (hpl : p < s.nodes.length) (hcl : c < s.nodes.length)
    (hg : ∀ l y, y ∈ g l ↔ (y ∈ l ∨ y = c)) (hgn : ∀ l, l.Nodup → c ∉ l → (g l).Nodup) (hi : I s)
    (h : (do
      ensureIsolated c
      modNode p fun n => { n with children := g n.children }
      modNode c fun n => { n with parent := some p } : M Unit) s = .ok ((), s')) :
    I s' ∧ s'.nodes.length = s.nodes.length := by
  obtain ⟨_, s0, h0, h2⟩ := fr_bind_ok h
  obtain ⟨i0, l0, hpar0⟩ := inv_ensureIsolated T c s s0 hc hi h0
  have e : s' = upd (upd s0 p fun n => { n with children := g n.children }) c fun n => { n with parent := some p } := by
    cases h2; rfl
  rw [e]
  exact ⟨T.link g p c hc hp (by rw [l0]; exact hpl) (by rw [l0]; exact hcl) hg hgn hpar0 i0, by simp [upd, l0]⟩

theorem inv_appendChild (p c : Nat) (s s' : St) (hc : GC c) (hp : GP p) (hpl : p < s.nodes.length)
    (hcl : c < s.nodes.length) (hi : I s) (h : appendChild p c s = .ok ((), s')) :
    I s' ∧ s'.nodes.length = s.nodes.length := by
  unfold appendChild at h
  exact inv_attach T (fun l => l ++ [c]) p c s s' hc hp hpl hcl (fun l y => by simp)
    (fun l hn hc' => by
      rw [List.nodup_append]
      exact ⟨hn, by simp, fun a ha b hb => by simp at hb; subst hb; intro e; exact hc' (e ▸ ha)⟩) hi h

theorem inv_insertBefore (p v ins : Nat) (s s' : St) (hc : GC ins) (hp : GP p) (hpl : p < s.nodes.length)
    (hcl : ins < s.nodes.length) (hi : I s) (h : insertBefore p (some v) ins s = .ok ((), s')) :
    I s' ∧ s'.nodes.length = s.nodes.length := by
  unfold insertBefore at h
  simp only at h
  obtain ⟨vn, s1, h1, h⟩ := fr_bind_ok h
  cases h1
  split at h
  · exact inv_appendChild T p ins s s' hc hp hpl hcl hi h
  · exact inv_attach T (fun l => insertBeforeIn v ins l) p ins s s' hc hp hpl hcl
      (fun l y => mem_insertBeforeIn v ins l y) (fun l hn hc' => nodup_insertBeforeIn v ins l hn hc') hi h

theorem inv_replaceChild (p v ins : Nat) (s s' : St) (hv : GC v) (hc : GC ins) (hp : GP p) (hpl : p < s.nodes.length)
    (hcl : ins < s.nodes.length) (hi : I s) (h : replaceChild p v ins s = .ok ((), s')) :
    I s' ∧ s'.nodes.length = s.nodes.length := by
  unfold replaceChild at h
  obtain ⟨_, s1, h1, h⟩ := fr_bind_ok h
  obtain ⟨i1, l1⟩ := inv_insertBefore T p v ins s s1 hc hp hpl hcl hi h1
  obtain ⟨i2, l2, _⟩ := inv_removeChild T p v s1 s' hv i1 h
  exact ⟨i2, by rw [l2, l1]⟩

theorem inv_tightenItem (child : Nat) (hp : GP child) : ∀ (gcs : List Nat) (s s' : St), child < s.nodes.length →
    (∀ gc ∈ gcs, GC gc) → I s → tightenItem child gcs s = .ok ((), s') → I s' ∧ s.nodes.length ≤ s'.nodes.length := by
  intro gcs
  induction gcs with
  | nil => intro s s' _ _ hi h; unfold tightenItem at h; cases h; exact ⟨hi, Nat.le_refl _⟩
  | cons gc gcs ih =>
    intro s s' hc hg hi h
    unfold tightenItem at h
    obtain ⟨g, s0, h0, h1⟩ := fr_bind_ok h
    cases h0
    simp only at h1
    split at h1
    · obtain ⟨tb, s1, h2, h3⟩ := fr_bind_ok h1
      have e1 : tb = s.nodes.length ∧ s1 = { s with nodes := s.nodes ++
          [{ kind := .textBlock, lines := (s.nodes.getD gc default).lines, linesNil := (s.nodes.getD gc default).linesNil }] } := by
        cases h2; exact ⟨rfl, rfl⟩
      obtain ⟨etb, es1⟩ := e1
      have i1 : I s1 := by rw [es1]; exact T.app _ _ _ rfl rfl hi
      have l1 : s1.nodes.length = s.nodes.length + 1 := by rw [es1]; simp
      obtain ⟨_, s2, h4, h5⟩ := fr_bind_ok h3
      obtain ⟨i2, l2⟩ := inv_replaceChild T child gc tb s1 s2 (hg gc (by simp)) (by rw [etb]; exact T.fresh hi) hp
        (by omega) (by omega) i1 h4
      obtain ⟨i3, l3⟩ := ih s2 s' (by omega) (fun x hx => hg x (by simp [hx])) i2 h5
      exact ⟨i3, by omega⟩
    · exact ih s s' hc (fun x hx => hg x (by simp [hx])) hi h1

theorem inv_tightenItems : ∀ (cs : List Nat) (s s' : St), (∀ c ∈ cs, c < s.nodes.length ∧ GP c) → I s →
    tightenItems cs s = .ok ((), s') → I s' ∧ s.nodes.length ≤ s'.nodes.length := by
  intro cs
  induction cs with
  | nil => intro s s' _ hi h; unfold tightenItems at h; cases h; exact ⟨hi, Nat.le_refl _⟩
  | cons child rest ih =>
    intro s s' hc hi h
    unfold tightenItems at h
    obtain ⟨cn, s0, h0, h1⟩ := fr_bind_ok h
    cases h0
    obtain ⟨_, s1, h2, h3⟩ := fr_bind_ok h1
    have hch := hc child (by simp)
    obtain ⟨i1, l1⟩ := inv_tightenItem T child hch.2 _ s s1 hch.1 (fun gc hg => T.kids child hi hch.2 gc hg) hi h2
    obtain ⟨i2, l2⟩ := ih s1 s' (fun c hm => ⟨Nat.lt_of_lt_of_le (hc c (by simp [hm])).1 l1, (hc c (by simp [hm])).2⟩) i1 h3
    exact ⟨i2, Nat.le_trans l1 l2⟩

/-- closing a List -/
theorem inv_listClose (node : Nat) (s s' : St) (hkids : KidsOK s) (hkind : (nd s node).kind = .list)
    (hgp : ∀ c ∈ (nd s node).children, GP c) (hi : I s) (h : listClose node s = .ok ((), s')) : I s' := by
  unfold listClose at h
  obtain ⟨list, s0, h0, h1⟩ := fr_bind_ok h
  cases h0
  obtain ⟨st, s0, h0, h2⟩ := fr_bind_ok h1
  cases h0
  simp only at h2
  obtain ⟨_, s1, h3, h4⟩ := fr_bind_ok h2
  have t1 : TreeSame s s1 := fr_modNode_treeSame h3 (fun _ => ⟨rfl, rfl, rfl, rfl⟩)
  have i1 : I s1 := T.ts t1 hi
  split at h4
  · exact (inv_tightenItems T _ s1 s' (fun c hc => ⟨by rw [t1.len]; exact (hkids.kids node c hkind hc).1, hgp c hc⟩) i1 h4).1
  · cases h4; exact i1

/-- closing a setext heading whose temporary paragraph `t` still has lines -/
theorem inv_setextClose (node : Nat) (s s' : St) (hb : BlockOK s ⟨node, .setext⟩)
    (ht : ∀ t, s.pc.tmpPara = some t → (nd s t).kind = .paragraph ∧ (nd s t).lines ≠ [] ∧ GC t) (hi : I s)
    (h : setextClose node s = .ok ((), s')) : I s' := by
  unfold setextClose at h
  obtain ⟨_, htmp⟩ := hb.setext rfl
  have hkind : (nd s node).kind = .heading := hb.kind
  obtain ⟨t, htt⟩ := Option.isSome_iff_exists.mp htmp
  obtain ⟨htkind, htlines, hgt⟩ := ht t htt
  have hne : node ≠ t := by
    intro e; rw [e, htkind] at hkind; cases hkind
  obtain ⟨hn, s0, h0, h1⟩ := fr_bind_ok h
  cases h0
  obtain ⟨seg, s0, h0, h2⟩ := fr_bind_ok h1
  obtain ⟨_, e0⟩ := fr_liftE_ok h0
  rw [e0] at h2
  obtain ⟨_, s1, h3, h4⟩ := fr_bind_ok h2
  have e1 := fr_modNode_ok h3
  have t1 : TreeSame s s1 := fr_modNode_treeSame h3 (fun _ => ⟨rfl, rfl, rfl, rfl⟩)
  have epc : s1.pc.tmpPara = some t := by rw [e1]; exact htt
  obtain ⟨pc, s2, h5, h6⟩ := fr_bind_ok h4
  cases h5
  simp only [epc] at h6
  obtain ⟨tmp, s2, h7, h8⟩ := fr_bind_ok h6
  cases h7
  clear h6
  have h6 := h8
  obtain ⟨_, s2, h9, h10⟩ := fr_bind_ok h6
  have e2 : s2.nodes = s1.nodes := by cases h9; rfl
  obtain ⟨tn, s3, h11, h12⟩ := fr_bind_ok h10
  cases h11
  have etn : s2.nodes.getD t default = s.nodes.getD t default := by
    simp only [e2, e1]
    exact SpecHtml.getD_set_ne _ _ _ _ _ hne
  rw [etn] at h12
  have t2 : TreeSame s s2 := t1.trans (TreeSame.of_nodes_eq e2)
  split at h12
  · rename_i hc
    exfalso
    cases hh : (nd s t).lines with
    | nil => exact htlines hh
    | cons a b => rw [hh] at hc; simp at hc
  · obtain ⟨_, s3, h13, h14⟩ := fr_bind_ok h12
    have t3 : TreeSame s2 s3 := fr_modNode_treeSame h13 (fun _ => ⟨rfl, rfl, rfl, rfl⟩)
    have t4 : TreeSame s s3 := t2.trans t3
    have i4 : I s3 := T.ts t4 hi
    cases htp : (s.nodes.getD t default).parent with
    | none => simp only [htp] at h14; cases h14; exact i4
    | some tp =>
      simp only [htp] at h14
      exact (inv_removeChild T tp t s3 s' hgt i4 h14).1

end calculus

/-! ### instance 1: parent pointers and children lists agree -/

structure TreeOK (s : St) : Prop where
  pc : ∀ i p, (nd s i).parent = some p → i ∈ (nd s p).children
  cp : ∀ p i, i ∈ (nd s p).children → (nd s i).parent = some p
  nodup : ∀ p, (nd s p).children.Nodup

theorem treeOK_tinv : TInv TreeOK (fun _ => True) (fun _ => True) where
  ts := fun {s s'} t h =>
    ⟨fun i p hp => by rw [(t.same i).2.1] at hp; rw [(t.same p).2.2.1]; exact h.pc i p hp,
      fun p i hi => by rw [(t.same p).2.2.1] at hi; rw [(t.same i).2.1]; exact h.cp p i hi,
      fun p => by rw [(t.same p).2.2.1]; exact h.nodup p⟩
  app := fun {s} n r pc hn hc h => by
    have key := fr_nd_append s n r pc
    have old : ∀ j, j < s.nodes.length → nd ({ r := r, nodes := s.nodes ++ [n], pc := pc } : St) j = nd s j :=
      fun j hj => by rw [key, if_pos hj]
    have kids0 : ∀ j, s.nodes.length ≤ j → (nd ({ r := r, nodes := s.nodes ++ [n], pc := pc } : St) j).children = [] := by
      intro j hj
      rw [key, if_neg (by omega)]
      split
      · exact hc
      · rfl
    have par0 : ∀ j, s.nodes.length ≤ j → (nd ({ r := r, nodes := s.nodes ++ [n], pc := pc } : St) j).parent = none := by
      intro j hj
      rw [key, if_neg (by omega)]
      split
      · exact hn
      · rfl
    refine ⟨fun i p hp => ?_, fun p i hi => ?_, fun p => ?_⟩
    · rcases Nat.lt_or_ge i s.nodes.length with hi | hi
      · rw [old i hi] at hp
        have hm := h.pc i p hp
        rw [old p (lt_of_mem_children s p i hm)]; exact hm
      · rw [par0 i hi] at hp; cases hp
    · rcases Nat.lt_or_ge p s.nodes.length with hp | hp
      · rw [old p hp] at hi
        have hq := h.cp p i hi
        rw [old i (fr_lt_of_parent s i p hq)]; exact hq
      · rw [kids0 p hp] at hi; cases hi
    · rcases Nat.lt_or_ge p s.nodes.length with hp | hp
      · rw [old p hp]; exact h.nodup p
      · rw [kids0 p hp]; exact List.nodup_nil
  rm := fun {s} p c _ hpar h => by
    have hcl : c < s.nodes.length := fr_lt_of_parent s c p hpar
    have hpl : p < s.nodes.length := lt_of_mem_children s p c (h.pc c p hpar)
    refine ⟨fun i p' hp => ?_, fun p' i hi => ?_, fun p' => ?_⟩
    · rw [upd2_parent s p c (fun l => l.erase c) none] at hp
      rw [upd2_children s p c (fun l => l.erase c) none]
      by_cases e : i = c
      · rw [if_pos ⟨e, hcl⟩] at hp; cases hp
      · rw [if_neg (fun hh => e hh.1)] at hp
        have hm := h.pc i p' hp
        split
        · rename_i hh; rw [hh.1] at hm; exact (List.mem_erase_of_ne e).2 hm
        · exact hm
    · rw [upd2_children s p c (fun l => l.erase c) none] at hi
      rw [upd2_parent s p c (fun l => l.erase c) none]
      split at hi
      · rename_i hh
        have hm := (List.Nodup.mem_erase_iff (h.nodup p)).1 hi
        rw [if_neg (fun h2 => hm.1 h2.1), hh.1]
        exact h.cp p i hm.2
      · rename_i hh
        have hq := h.cp p' i hi
        have : i ≠ c := by
          intro e; rw [e, hpar] at hq; cases hq; exact hh ⟨rfl, hpl⟩
        rw [if_neg (fun h2 => this h2.1)]; exact hq
    · rw [upd2_children s p c (fun l => l.erase c) none]
      split
      · exact List.Nodup.erase _ (h.nodup p)
      · exact h.nodup p'
  link := fun {s} g p c _ _ hpl hcl hg hgn hpar h => by
    have hcn : c ∉ (nd s p).children := fun hm => by have := h.cp p c hm; rw [hpar] at this; cases this
    refine ⟨fun i p' hp => ?_, fun p' i hi => ?_, fun p' => ?_⟩
    · rw [upd2_parent] at hp
      rw [upd2_children]
      by_cases e : i = c
      · rw [if_pos ⟨e, hcl⟩] at hp; cases hp
        rw [if_pos ⟨rfl, hpl⟩, e]; exact (hg _ _).2 (.inr rfl)
      · rw [if_neg (fun hh => e hh.1)] at hp
        have hm := h.pc i p' hp
        split
        · rename_i hh; rw [hh.1] at hm; exact (hg _ _).2 (.inl hm)
        · exact hm
    · rw [upd2_children] at hi
      rw [upd2_parent]
      split at hi
      · rename_i hh
        rcases (hg _ _).1 hi with hm | hm
        · have hq := h.cp p i hm
          have : i ≠ c := fun e => by rw [e, hpar] at hq; cases hq
          rw [if_neg (fun h2 => this h2.1), hh.1]; exact hq
        · rw [if_pos ⟨hm, hcl⟩, hh.1]
      · have hq := h.cp p' i hi
        have : i ≠ c := fun e => by rw [e, hpar] at hq; cases hq
        rw [if_neg (fun h2 => this h2.1)]; exact hq
    · rw [upd2_children]
      split
      · exact hgn _ (h.nodup p) hcn
      · exact h.nodup p'
  kids := fun _ _ _ _ _ => trivial
  fresh := fun _ => trivial

/-! ### instance 2: `x` is the last child of `q` and nowhere else -/

structure LK (s : St) (x q : Nat) : Prop where
  par : (nd s x).parent = some q
  last : (nd s q).children.getLast? = some x
  only : ∀ p, x ∈ (nd s p).children → p = q

theorem LK.xlt {s : St} {x q : Nat} (h : LK s x q) : x < s.nodes.length := fr_lt_of_parent s x q h.par

theorem LK.qlt {s : St} {x q : Nat} (h : LK s x q) : q < s.nodes.length :=
  lt_of_mem_children s q x (List.mem_of_getLast? h.last)

theorem lk_tinv (x q : Nat) : TInv (fun s => LK s x q) (fun c => c ≠ x) (fun p => p ≠ q) where
  ts := fun {s s'} t h =>
    ⟨by rw [(t.same x).2.1]; exact h.par, by rw [(t.same q).2.2.1]; exact h.last,
      fun p hp => by rw [(t.same p).2.2.1] at hp; exact h.only p hp⟩
  app := fun {s} n r pc _ hc h => by
    have key := fr_nd_append s n r pc
    refine ⟨by rw [key, if_pos h.xlt]; exact h.par, by rw [key, if_pos h.qlt]; exact h.last, fun p hp => ?_⟩
    rw [key] at hp
    split at hp
    · exact h.only p hp
    · split at hp
      · rw [hc] at hp; cases hp
      · cases hp
  rm := fun {s} p c hc _ h => by
    refine ⟨?_, ?_, fun p' hp => ?_⟩
    · rw [upd2_parent s p c (fun l => l.erase c) none, if_neg (fun hh => hc hh.1.symm)]; exact h.par
    · rw [upd2_children s p c (fun l => l.erase c) none]
      split
      · rename_i hh; rw [← hh.1]; exact getLast?_erase_of_ne x c _ h.last hc
      · exact h.last
    · rw [upd2_children s p c (fun l => l.erase c) none] at hp
      split at hp
      · rename_i hh; rw [hh.1]; exact h.only p (List.mem_of_mem_erase hp)
      · exact h.only p' hp
  link := fun {s} g p c hc hp _ _ hg _ _ h => by
    refine ⟨?_, ?_, fun p' hm => ?_⟩
    · rw [upd2_parent, if_neg (fun hh => hc hh.1.symm)]; exact h.par
    · rw [upd2_children, if_neg (fun hh => hp hh.1.symm)]; exact h.last
    · rw [upd2_children] at hm
      split at hm
      · rename_i hh
        rcases (hg _ _).1 hm with h1 | h1
        · rw [hh.1]; exact h.only p h1
        · exact absurd h1.symm hc
      · exact h.only p' hm
  kids := fun {s} p h hp y hy e => hp (h.only p (e ▸ hy))
  fresh := fun {s} h e => by have := h.xlt; omega

/-! ### the transformer call and `AppendChild` of a fresh node -/

theorem getLast?_replace (x v c : Nat) (hvc : c ≠ v) : ∀ (l : List Nat), l.getLast? = some x → x ≠ v → v ∈ l →
    ((insertBeforeIn v c l).erase v).getLast? = some x
  | [], h, _, _ => by cases h
  | a :: rest, h, hx, hv => by
    unfold insertBeforeIn
    by_cases e : (a == v) = true
    · rw [if_pos e]
      have ea : a = v := by simpa using e
      subst ea
      have h1 : (c :: a :: rest).erase a = c :: rest := by
        rw [List.erase_cons_tail (by simpa using hvc), List.erase_cons_head]
      rw [h1]
      cases rest with
      | nil => simp at h; exact absurd h.symm hx
      | cons b r => rw [List.getLast?_cons_cons] at h ⊢; exact h
    · rw [if_neg e]
      have ea : a ≠ v := by simpa using e
      have hv' : v ∈ rest := by
        rcases List.mem_cons.1 hv with h1 | h1
        · exact absurd h1.symm ea
        · exact h1
      have h' : rest.getLast? = some x := by
        cases rest with
        | nil => cases hv'
        | cons b r => rw [List.getLast?_cons_cons] at h; exact h
      have ih := getLast?_replace x v c hvc rest h' hx hv'
      rw [List.erase_cons_tail (by simpa using ea)]
      cases hr : (insertBeforeIn v c rest).erase v with
      | nil => rw [hr] at ih; cases ih
      | cons d ds => rw [hr] at ih; rw [List.getLast?_cons_cons]; exact ih

/-- one transformer call on a Paragraph keeps `TreeOK` -/
theorem treeOK_post {node : Nat} {s s' : St} (hlt : node < s.nodes.length) (h : TreeOK s) (hp : PTPost node s s') :
    TreeOK s' := by
  rcases hp.res with ⟨refs, k, _, e⟩ | ⟨refs, p, hpar, e⟩
  · have ts : TreeSame s s' := by
      rw [e]; exact fr_treeSame_set s node _ _ _ ⟨rfl, rfl, rfl, rfl⟩
    exact treeOK_tinv.ts ts h
  · have tsE : TreeSame s (ptEmptied s node refs) := fr_treeSame_set s node _ _ _ ⟨rfl, rfl, rfl, rfl⟩
    have hE := treeOK_tinv.ts tsE h
    unfold ptReplace at e
    obtain ⟨t, sA, e1, e2⟩ := fr_bind_ok e
    have hsA : t = (ptEmptied s node refs).nodes.length ∧ sA = { (ptEmptied s node refs) with nodes :=
        (ptEmptied s node refs).nodes ++ [{ kind := .textBlock, blankPrev := (nd s node).blankPrev }] } := by
      cases e1; exact ⟨rfl, rfl⟩
    have hA : TreeOK sA := by rw [hsA.2]; exact treeOK_tinv.app _ _ _ rfl rfl hE
    have hlen : sA.nodes.length = s.nodes.length + 1 := by rw [hsA.2]; simp [tsE.len]
    have hpl : p < s.nodes.length := lt_of_mem_children s p node (h.pc node p hpar)
    exact (inv_replaceChild treeOK_tinv p node t sA s' trivial trivial trivial (by omega)
      (by rw [hsA.1, tsE.len]; omega) hA e2).1

/-- one transformer call on the Paragraph `node` keeps "`x` is the last child of `q`" for every other node `x` -/
theorem lk_post {node x q : Nat} {s s' : St} (hx : x ≠ node) (ht : TreeOK s) (h : LK s x q) (hp : PTPost node s s') :
    LK s' x q := by
  rcases hp.res with ⟨refs, k, _, e⟩ | ⟨refs, p, hpar, e⟩
  · have ts : TreeSame s s' := by
      rw [e]; exact fr_treeSame_set s node _ _ _ ⟨rfl, rfl, rfl, rfl⟩
    exact (lk_tinv x q).ts ts h
  · have tsE : TreeSame s (ptEmptied s node refs) := fr_treeSame_set s node _ _ _ ⟨rfl, rfl, rfl, rfl⟩
    have hlt : node < s.nodes.length := fr_lt_of_parent s node p hpar
    generalize hsE : ptEmptied s node refs = sE at tsE e
    have hElen : sE.nodes.length = s.nodes.length := tsE.len
    generalize hsA : ({ sE with nodes := sE.nodes ++ [{ kind := .textBlock, blankPrev := (nd s node).blankPrev }] } : St) = sA
    have hA : LK sA x q := by rw [← hsA]; exact (lk_tinv x q).app _ _ _ rfl rfl ((lk_tinv x q).ts tsE h)
    have hnA : sA.nodes = sE.nodes ++ [{ kind := .textBlock, blankPrev := (nd s node).blankPrev }] := by rw [← hsA]
    have hAlen : sA.nodes.length = s.nodes.length + 1 := by rw [hnA]; simp [hElen]
    have oldA : ∀ j, j < s.nodes.length → nd sA j = nd sE j := fun j hj => nd_of_append_lt hnA (by rw [hElen]; exact hj)
    have hA1 : (nd sA node).parent = some p := by rw [oldA node hlt, (tsE.same node).2.1]; exact hpar
    have hA2 : (nd sA sE.nodes.length).parent = none := by
      simp only [nd, hnA]; rw [getD_length_append]
    have hmem : node ∈ (nd sA p).children := by
      have hm := ht.pc node p hpar
      have hpl := lt_of_mem_children s p node hm
      rw [oldA p hpl, (tsE.same p).2.2.1]; exact hm
    have e1 := insertBefore_eq p node sE.nodes.length sA hA1 hA2
    generalize hsB : (upd (upd sA p fun n => { n with children := insertBeforeIn node sE.nodes.length n.children })
        sE.nodes.length fun n => { n with parent := some p }) = sB at e1
    have hBlen : sB.nodes.length = sA.nodes.length := by rw [← hsB]; simp [upd]
    have parB : ∀ j, (nd sB j).parent = if j = sE.nodes.length ∧ sE.nodes.length < sA.nodes.length then some p
        else (nd sA j).parent := fun j => by
      rw [← hsB]; exact upd2_parent sA p sE.nodes.length (fun l => insertBeforeIn node sE.nodes.length l) (some p) j
    have kidsB : ∀ j, (nd sB j).children = if j = p ∧ p < sA.nodes.length then
        insertBeforeIn node sE.nodes.length (nd sA p).children else (nd sA j).children := fun j => by
      rw [← hsB]; exact upd2_children sA p sE.nodes.length (fun l => insertBeforeIn node sE.nodes.length l) (some p) j
    have hB1 : (nd sB node).parent = some p := by
      rw [parB, if_neg (fun hh => by omega)]; exact hA1
    have e2 := removeChild_eq p node sB hB1
    unfold ptReplace newNode replaceChild at e
    simp only [bind, StateT.bind, pure, Except.pure, Except.bind] at e
    rw [hsA, e1] at e
    simp only [Except.bind] at e
    rw [e2] at e
    cases e
    have hxl := h.xlt
    refine ⟨?_, ?_, fun p' hm => ?_⟩
    · rw [upd2_parent sB p node (fun l => l.erase node) none, if_neg (fun hh => hx hh.1), parB,
        if_neg (fun hh => by omega)]
      exact hA.par
    · rw [upd2_children sB p node (fun l => l.erase node) none]
      split
      · rename_i hh
        rw [kidsB, if_pos ⟨rfl, by omega⟩]
        rw [hh.1] at hA
        exact getLast?_replace x node sE.nodes.length (by omega) _ (hh.1 ▸ hA.last) hx hmem
      · rw [kidsB]
        split
        · rename_i h1 h2; exact absurd ⟨h2.1, by omega⟩ h1
        · exact hA.last
    · rw [upd2_children sB p node (fun l => l.erase node) none] at hm
      have hm' : x ∈ (nd sB p').children := by
        split at hm
        · rename_i hh; rw [hh.1]; exact List.mem_of_mem_erase hm
        · exact hm
      rw [kidsB] at hm'
      split at hm'
      · rename_i hh
        rcases (mem_insertBeforeIn _ _ _ _).1 hm' with h1 | h1
        · rw [hh.1]; exact hA.only p h1
        · omega
      · exact hA.only p' hm'

/-- `AppendChild(parent, id)` of a fresh node: `id` is the last child of `parent` -/
theorem lk_appendChild_new (parent id : Nat) (s s' : St) (ht : TreeOK s) (hpar : (nd s id).parent = none)
    (hid : id < s.nodes.length) (hpl : parent < s.nodes.length) (h : appendChild parent id s = .ok ((), s')) :
    LK s' id parent ∧ TreeOK s' := by
  refine ⟨?_, (inv_appendChild treeOK_tinv parent id s s' trivial trivial hpl hid ht h).1⟩
  rw [L.appendChild_fresh parent id s hpar] at h
  cases h
  refine ⟨?_, ?_, fun p' hm => ?_⟩
  · rw [upd2_parent s parent id (fun l => l ++ [id]) (some parent), if_pos ⟨rfl, hid⟩]
  · rw [upd2_children s parent id (fun l => l ++ [id]) (some parent), if_pos ⟨rfl, hpl⟩]; simp
  · rw [upd2_children s parent id (fun l => l ++ [id]) (some parent)] at hm
    split at hm
    · rename_i hh; exact hh.1
    · have := ht.cp p' id hm; rw [hpar] at this; cases this

end GM.Blocks.TRV
