/-
  GM.Proof.BlocksTNP9 — towards the general `runT_total` (BLOCKER 2 of the report: after `.retryTransformed` the
  temporaryParagraphKey points to a paragraph without lines, `KeysOK.tmp` is false, and every parser contract of
  GM.Proof.BlocksInv takes `KeysOK`). Here: the contracts of every `Continue` and of every `Close` except the setext
  heading parser's are re-established from the FENCE half of `KeysOK` alone (`KeysOKF`): `ContSpecW`, `CloseSpecW`,
  `contW_all`, `closeW_all`, and the tree-link / `PLT` frames `bpClose_tfW`, `bpClose_pltW`. The proofs are those of
  GM.Proof.BlocksSpec* / BlocksFrames / BlocksPlt (none of them uses `KeysOK.tmp`); `setextClose` keeps needing the key
  (`setextClose_specW`: from `KeysOKF` plus the `tmp` clause). Nothing imports this file.
-/
import GM.Proof.BlocksNoPanicAll

namespace GM.Blocks.W
open GM GM.Text GM.Spec GM.Proof.Reader GM.Blocks.SpecHtml

/-- the fence half of `KeysOK` -/
structure KeysOKF (s : St) : Prop where
  fence : ∀ f, s.pc.fence = some f → 3 ≤ f.length ∧ 0 ≤ f.indent ∧ f.node < s.nodes.length

theorem KeysOKF.of {s : St} (h : KeysOK s) : KeysOKF s := ⟨h.fence⟩

def ContSpecW (src : Bytes) (bp : BP) : Prop :=
  ∀ (node : Nat) (s : St) (c : RCur), RI src s.r c → PadOK c → c.p < src.length → NodesOK src s → KeysOKF s →
    BlockOK s ⟨node, bp⟩ → OKL (fun st s' => ContPost src bp s c st s') (bpContinue bp node s)

def CloseSpecW (src : Bytes) (bp : BP) : Prop :=
  ∀ (node : Nat) (s : St), s.r.source = src → NodesOK src s → KeysOKF s →
    BlockOK s ⟨node, bp⟩ → OKL (fun _ s' => ClosePost src bp node s s') (bpClose bp node s)

theorem thematicContinue_spec (src : Bytes) : ContSpecW src .thematic :=
  fun _ s c h hpad _ hn _ _ => OKL.ok (contPost_close src _ s c h hpad hn)

theorem thematicClose_spec (src : Bytes) : CloseSpecW src .thematic :=
  fun node s _ hn _ _ => OKL.ok (closePost_refl src _ node s hn)

theorem atxContinue_spec (src : Bytes) : ContSpecW src .atx :=
  fun _ s c h hpad _ hn _ _ => OKL.ok (contPost_close src _ s c h hpad hn)

theorem atxClose_spec (src : Bytes) : CloseSpecW src .atx :=
  fun node s _ hn _ _ => OKL.ok (closePost_refl src _ node s hn)

theorem blockquoteClose_spec (src : Bytes) : CloseSpecW src .blockquote :=
  fun node s _ hn _ _ => OKL.ok (closePost_refl src _ node s hn)

theorem paragraphClose_spec (src : Bytes) : CloseSpecW src .paragraph := by
  intro node s hsrc hn _ hb
  have hlt : node < s.nodes.length := hb.lt
  have hne : (nd s node).lines ≠ [] := hb.para rfl
  have hok := hn.nd hlt
  show OKL _ (paragraphClose node s)
  refine (paragraphClose_okl node hsrc hok.lines hne).mono (fun _ s' hp => ?_)
  obtain ⟨hr, hpc, ls, hls, hlen, hnodes⟩ := hp
  have hnil : (nd s node).linesNil = false := by
    cases h : (nd s node).linesNil with
    | false => rfl
    | true => exact absurd (hok.nil h) hne
  have hls_ne : ls ≠ [] := by
    intro e; subst e
    exact hne (List.eq_nil_of_length_eq_zero hlen.symm)
  exact { r := hr, opened := by rw [hpc], ext := Ext.of_set hnodes rfl (fun _ => hls_ne),
          nodes := hn.of_set hnodes ⟨hls, fun h => by
            have h' : (nd s node).linesNil = true := h
            rw [hnil] at h'; cases h'⟩,
          tmp := .inl (by rw [hpc]), fence := .inl (by rw [hpc]),
          para := fun _ => by rw [nd_of_set_self hnodes hlt] }

theorem paragraphContinue_spec' (src : Bytes) (node : Nat) (s : St) (c : RCur) (h : RI src s.r c) (hpad : PadOK c)
    (hn : NodesOK src s) (hk : KeysOKF s) (hb : BlockOK s ⟨node, .paragraph⟩) :
    OKL (fun st s' => ContPost src .paragraph s c st s') (paragraphContinue node s) := by
  have _ := hk
  refine (paragraphContinue_okl' h node).mono (fun st s' hp => ?_)
  obtain ⟨c', hri, ⟨n, hc'⟩, hpc, hcase⟩ := hp
  have hria : ∃ c', RIa src s'.r c' ∧ PadOK c' ∧ c.p ≤ c'.p ∧ c'.p ≤ src.length ∧
      ((st.cont = true ∧ st.hasChildren = false) ∨ RI src s'.r c') :=
    ⟨c', hri.toRIa, by rw [hc']; exact hpad.advN h.inRange n,
      by rw [hc']; exact (advN_mono src n c h.inRange).1, hri.inRange, .inr hri⟩
  rcases hcase with ⟨hst, hnodes⟩ | ⟨hst, _, hnodes⟩
  · exact { ria := hria, pc := hpc, ext := Ext.of_nodes_eq hnodes, nodes := hn.of_nodes_eq hnodes,
            leaf := fun _ => (by rw [hst]; rfl), cont := fun hc => (by cases hc) }
  · have hok := hn.nd hb.lt
    refine { ria := hria, pc := hpc, ext := Ext.of_set hnodes rfl (fun _ => by simp),
             nodes := hn.of_set hnodes ⟨?_, fun hh => by cases hh⟩,
             leaf := fun _ => (by rw [hst]; rfl), cont := fun hc => (by cases hc) }
    intro t ht
    simp only [List.mem_append, List.mem_singleton] at ht
    rcases ht with ht | ht
    · exact hok.lines t ht
    · rw [ht]; exact seg_ok src c h.inRange

theorem paragraphContinue_spec (src : Bytes) : ContSpecW src .paragraph :=
  fun node s c h hpad _ hn hk hb => paragraphContinue_spec' src node s c h hpad hn hk hb

theorem blockquoteContinue_spec (src : Bytes) : ContSpecW src .blockquote := by
  intro node s c h hpad _ hn _ _
  show OKL _ (blockquoteContinue node s)
  unfold blockquoteContinue
  refine OKL.bind (blockquoteProcess_okl' h hpad) (fun b s1 hb => ?_)
  obtain ⟨r', c', hs1, hri, hpad', hle, ht, hf⟩ := hb
  subst hs1
  cases b with
  | true =>
    simp only [if_true, pure, StateT.pure, Except.pure]
    exact OKL.ok { ria := ⟨c', hri.toRIa, hpad', hle, hri.inRange, .inr hri⟩, pc := rfl,
                   ext := Ext.of_nodes_eq rfl, nodes := hn.of_nodes_eq rfl,
                   leaf := fun hh => (by cases hh), cont := fun _ _ => rfl }
  | false =>
    simp only [Bool.false_eq_true, if_false, pure, StateT.pure, Except.pure]
    exact OKL.ok { ria := ⟨c', hri.toRIa, hpad', hle, hri.inRange, .inr hri⟩, pc := rfl,
                   ext := Ext.of_nodes_eq rfl, nodes := hn.of_nodes_eq rfl,
                   leaf := fun hh => (by cases hh), cont := fun _ hh => by cases hh }

theorem codeContinue_spec (src : Bytes) : ContSpecW src .code := by
  intro node s c h hpad hp hnodes _ hblock
  show OKL _ (codeContinue node s)
  have hnlt : node < s.nodes.length := hblock.lt
  unfold codeContinue
  refine OKL.bind (peekLine_okl h) (fun x s1 hx => ?_)
  obtain ⟨hx, r1, hs1, h1⟩ := hx
  subst hx hs1
  simp only
  have hvl := view_getD_length_nat src c hp
  generalize hline : (RCur.view src c).getD [] = line at hvl ⊢
  by_cases hbl : isBlank line = true
  · rw [if_pos hbl]
    obtain ⟨t', ht, hok⟩ := trimLeftSpaceWidth_ok (seg_ok src c h.inRange) 4
    refine OKL.bind (m := source) (P := fun v s' => v = src ∧ s' = { s with r := r1 })
      (OKL.ok ⟨h1.source, rfl⟩) (fun v s2 hv => ?_)
    obtain ⟨hv, hs2⟩ := hv
    subst hs2
    rw [hv]
    refine OKL.bind (liftE_okl (P := fun a s' => a = t' ∧ s' = { s with r := r1 }) ht ⟨rfl, rfl⟩)
      (fun a s3 ha => ?_)
    obtain ⟨ha, hs3⟩ := ha
    subst ha hs3
    simp only [bind, StateT.bind, appendLine, modNode, pure, StateT.pure, Except.bind, Except.pure]
    refine OKL.ok ?_
    exact { ria := ⟨c, h1.toRIa, hpad, Nat.le_refl _, Nat.le_of_lt hp, .inr h1⟩,
            pc := rfl, ext := ext_appendLine s node a r1 s.pc hnlt,
            nodes := nodesOK_appendLine hnodes node hok r1 s.pc,
            leaf := fun _ => rfl, cont := fun hh => (by cases hh) }
  · rw [if_neg hbl]
    have hnb : isBlank line = false := by
      cases hh : isBlank line with
      | true => exact absurd hh hbl
      | false => rfl
    refine OKL.bind (lineOffset_okl (s := { s with r := r1 }) h1) (fun lo s2 hlo => ?_)
    obtain ⟨_, r2, hs2, h2⟩ := hlo
    subst hs2
    simp only
    have hb := indentPosition_bounds line lo
    generalize indentPosition line lo 4 = pp at hb ⊢
    obtain ⟨pos, padding⟩ := pp
    simp only at hb ⊢
    by_cases hc : pos < 0
    · rw [if_pos hc]
      refine OKL.ok ?_
      exact { ria := ⟨c, h2.toRIa, hpad, Nat.le_refl _, Nat.le_of_lt hp, .inr h2⟩,
              pc := rfl, ext := Ext.of_nodes_eq rfl, nodes := hnodes,
              leaf := fun _ => rfl, cont := fun hh => (by cases hh) }
    · rw [if_neg hc]
      obtain ⟨hb1, hb2, hb3, hb4⟩ := hb (by omega)
      have hlt := hb3 hnb
      refine OKL.bind (codeTakeLine_okl (src := src) (c := c) (s := { s with r := r2 }) h2 hp hpad
        node (by omega) (by omega) hb4) (fun _ s4 hs4 => ?_)
      obtain ⟨r4, c4, seg, hs4, h4, hpad4, hmono, hseg⟩ := hs4
      subst hs4
      refine OKL.ok ?_
      exact { ria := ⟨c4, h4.toRIa, hpad4, hmono, h4.inRange, .inr h4⟩,
              pc := rfl, ext := ext_appendLine s node seg r4 s.pc hnlt,
              nodes := nodesOK_appendLine hnodes node hseg r4 s.pc,
              leaf := fun _ => rfl, cont := fun hh => (by cases hh) }

theorem codeClose_spec (src : Bytes) : CloseSpecW src .code := by
  intro node s hsrc hnodes _ hblock
  show OKL _ (codeClose node s)
  have hnlt : node < s.nodes.length := hblock.lt
  have hkind : (nd s node).kind = .codeBlock := hblock.kind
  have hnd := nodeOK_nd hnodes node
  obtain ⟨len, hlen, hl1, hl2⟩ := codeTrimLoop_ok hnd.lines (nd s node).lines.length (Nat.le_refl _)
  have hcond : ((nd s node).linesNil && (len + 1 != 0)) = false := by
    cases hn : (nd s node).linesNil with
    | false => rfl
    | true =>
      have := hnd.nil hn
      rw [this] at hl2
      have : len = -1 := by simp at hl2; omega
      subst this; rfl
  unfold codeClose
  simp only [nd] at hlen hcond
  simp only [bind, StateT.bind, getNode, source, pure, Except.bind, Except.pure, liftE, Except.map,
    hsrc, hlen, hcond, modNode, Bool.false_eq_true, if_false]
  refine OKL.ok ?_
  exact {
    r := rfl
    opened := rfl
    ext := {
      len := by simp
      kind := fun i _ => by
        simp only [nd, nd_set _ _ _ _ hnlt]
        split
        · rename_i e; subst e; rfl
        · rfl
      linesNE := fun i _ hk hl => by
        simp only [nd, nd_set _ _ _ _ hnlt] at hl hk ⊢
        split
        · rename_i e; subst e; exact absurd hkind hk
        · exact hl }
    nodes := by
      intro n hn
      rcases List.mem_or_eq_of_mem_set hn with h1 | h1
      · exact hnodes n h1
      · subst h1
        refine ⟨fun t ht => hnd.lines t (List.mem_of_mem_take ht), fun hh => ?_⟩
        have : (nd s node).lines = [] := hnd.nil hh
        simp only [nd] at this
        show List.take _ (s.nodes.getD node default).lines = []
        rw [this, List.take_nil]
    tmp := .inl rfl
    fence := .inl rfl
    para := fun hh => (by cases hh) }

theorem fencedContinue_spec (src : Bytes) : ContSpecW src .fenced := by
  intro node s c h hpad hp hn hk hb
  show OKL _ (fencedContinue node s)
  rw [fencedContinue_eq]
  unfold fencedContinue'
  refine OKL.bind (peekLine_okl h) (fun x s1 hx => ?_)
  obtain ⟨hx, r1, hs1, h1⟩ := hx
  subst hx hs1
  simp only
  refine OKL.bind (m := getPc) (P := fun v s' => v = s.pc ∧ s' = { s with r := r1 }) (OKL.ok ⟨rfl, rfl⟩) (fun pc s2 hv => ?_)
  obtain ⟨hv, hs2⟩ := hv
  subst hv hs2
  have hfs := hb.fenced rfl
  cases hfe : s.pc.fence with
  | none => rw [hfe] at hfs; cases hfs
  | some f =>
    obtain ⟨hf3, hf0, _⟩ := hk.fence f hfe
    simp only
    refine OKL.bind (m := Pure.pure f) (P := fun v s' => v = f ∧ s' = { s with r := r1 }) (OKL.ok ⟨rfl, rfl⟩) (fun fd s3 hv => ?_)
    obtain ⟨hv, hs3⟩ := hv
    subst hv hs3
    refine OKL.bind (lineOffset_okl (s := { s with r := r1 }) h1) (fun lo s4 hlo => ?_)
    obtain ⟨_, r2, hs4, h2⟩ := hlo
    subst hs4
    -- the content branch
    have tail : OKL (fun st s' => ContPost src .fenced s c st s')
        (fencedTail node ((RCur.view src c).getD []) (RCur.seg src c) lo fd { s with r := r2 }) :=
      (fencedTail_okl (s := { s with r := r2 }) h2 hpad hp hn node hb.lt lo fd hf0).mono
        (fun st s' hh => ContPost.of_state (s2 := { s with r := r2 }) rfl rfl hh)
    have hlen := view_getD_length_nat src c hp
    have hlt' := lt_lineEnd src hp
    have hle := lineEnd_le src c.p
    generalize hline : (RCur.view src c).getD [] = line at tail hlen ⊢
    have hb' := indentWidthI_bounds line lo
    generalize hpos : (indentWidthI line lo).2 = pos at hb' ⊢
    generalize hw : (indentWidthI line lo).1 = w
    by_cases hc1 : w < 4
    · rw [if_pos hc1]
      obtain ⟨hsb1, hsb2⟩ := scanWhileEq_bounds line fd.char pos hb'.1
      generalize hi : scanWhileEq line fd.char pos = i at hsb1 hsb2 ⊢
      by_cases hc2 : i - pos ≥ fd.length
      · rw [if_pos hc2]
        have hile : i ≤ line.length := by
          by_cases e : i = pos
          · omega
          · exact (hsb2 e).2
        have hsf := sliceFrom_ok line i (by omega) hile
        refine OKL.bind (liftE_okl (P := fun a s' => a = line.drop i.toNat ∧ s' = { s with r := r2 }) hsf ⟨rfl, rfl⟩)
          (fun a s5 ha => ?_)
        obtain ⟨ha, hs5⟩ := ha
        subst ha hs5
        by_cases hc3 : isBlank (line.drop i.toNat) = true
        · rw [if_pos hc3]
          obtain ⟨b, hb1, _⟩ := idx_ok line ((line.length : Int) - 1) (by omega) (by omega)
          refine OKL.bind (liftE_okl (P := fun a s' => a = b ∧ s' = { s with r := r2 }) hb1 ⟨rfl, rfl⟩) (fun a s6 ha => ?_)
          obtain ⟨ha, hs6⟩ := ha
          subst ha hs6
          have hadv : 0 ≤ (RCur.seg src c).stop - (RCur.seg src c).start - (if (a != 10) = true then (0 : Int) else 1) +
              (RCur.seg src c).padding := by
            simp only [RCur.seg]
            split <;> omega
          refine OKL.bind (advance_okl (s := { s with r := r2 }) h2 hadv) (fun _ s7 h7 => ?_)
          obtain ⟨r7, hs7, h7⟩ := h7
          subst hs7
          exact OKL.ok
            { ria := ⟨_, h7.toRIa, hpad.advN h.inRange _, (advN_mono src _ c h.inRange).1, h7.inRange, .inr h7⟩
              pc := rfl
              ext := Ext.of_nodes_eq rfl
              nodes := hn
              leaf := fun _ => rfl
              cont := (by intro hh; cases hh) }
        · rw [if_neg hc3]; exact tail
      · rw [if_neg hc2]; exact tail
    · rw [if_neg hc1]; exact tail

theorem fencedClose_spec (src : Bytes) : CloseSpecW src .fenced := by
  intro node s hsrc hn hk hb
  show OKL _ (fencedClose node s)
  have hf := hb.fenced rfl
  unfold fencedClose
  simp only [bind, StateT.bind, getPc, pure, StateT.pure, Except.bind, Except.pure]
  cases hfe : s.pc.fence with
  | none => rw [hfe] at hf; cases hf
  | some f =>
    simp only
    by_cases hc : (f.node == node) = true
    · rw [if_pos hc]
      simp only [modPc]
      have hnode : f.node = node := by simpa using hc
      exact OKL.ok
        { r := rfl, opened := rfl, ext := Ext.of_nodes_eq rfl, nodes := hn, tmp := .inl rfl,
          fence := .inr ⟨rfl, rfl, f, hfe, hnode⟩, para := by intro h; cases h }
    · rw [if_neg hc]
      exact OKL.ok
        { r := rfl, opened := rfl, ext := Ext.refl s, nodes := hn, tmp := .inl rfl,
          fence := .inl rfl, para := by intro h; cases h }

theorem htmlClose_spec (src : Bytes) : CloseSpecW src .html := by
  intro node s hsrc hn hk hb
  show OKL _ (Except.ok ((), s))
  exact OKL.ok ⟨rfl, rfl, Ext.refl s, hn, .inl rfl, .inl rfl, fun h => by cases h⟩

theorem setextContinue_spec (src : Bytes) : ContSpecW src .setext := by
  intro node s c h hpad hp hn hk hb
  show OKL _ (Except.ok (stClose, s))
  exact OKL.ok ⟨⟨c, h.toRIa, hpad, Nat.le_refl _, Nat.le_of_lt hp, .inr h⟩, rfl, Ext.refl s, hn,
    fun _ => rfl, fun hc => by cases hc⟩

theorem htmlContinue_spec (src : Bytes) : ContSpecW src .html := by
  intro node s c h hpad hp hn hk hb
  show OKL _ (htmlContinue node s)
  unfold htmlContinue
  refine OKL.bind (m := getNode node) (s := s) (P := fun v s' => v = nd s node ∧ s' = s) (OKL.ok ⟨rfl, rfl⟩)
    (fun n s0 hv => ?_)
  obtain ⟨hv, hs0⟩ := hv
  rw [hs0, hv]; clear hs0 hv s0 n
  refine OKL.bind (peekLine_okl h) (fun x s1 hx => ?_)
  obtain ⟨hx, r1, hs1, h1⟩ := hx
  subst hx hs1
  simp only
  have hnode : NodeOK src (nd s node) := hn _ (nd_mem hb.lt)
  have hClose : OKL (fun st s' => ContPost src .html s c st s') ((pure stClose : M PState) { s with r := r1 }) :=
    OKL.ok ⟨⟨c, h1.toRIa, hpad, Nat.le_refl _, Nat.le_of_lt hp, .inr h1⟩, rfl, Ext.of_nodes_eq rfl, hn,
      fun _ => rfl, fun hc => (by cases hc)⟩
  have hCloseAdv := html_tail_okl (s := s) h1 hpad hp hn node
    (fun n => { n with closure := RCur.seg src c }) stClose rfl rfl (fun hl => hl) ⟨hnode.lines, hnode.nil⟩
  have hCont := html_tail_okl (s := s) h1 hpad hp hn node
    (fun n => { n with lines := n.lines ++ [RCur.seg src c], linesNil := false }) stContinueNoChildren rfl rfl
    (fun _ => by simp)
    ⟨fun t ht => by
        simp only [List.mem_append, List.mem_singleton] at ht
        rcases ht with ht | ht
        · exact hnode.lines t ht
        · rw [ht]; exact seg_ok src c h.inRange,
      fun hc => (by cases hc)⟩
  refine okl_ite (fun hc1 => ?_) (fun hc1 => ?_)
  · refine okl_ite (fun hc2 => ?_) (fun hc2 => ?_)
    · obtain ⟨x, hx, hxm⟩ := lineAt_one hc2
      have hxok : SegOK src x := hnode.lines x hxm
      have hval := value_spec src x hxok
      refine OKL.bind (liftE_okl (P := fun a s' => a = x ∧ s' = { s with r := r1 }) hx ⟨rfl, rfl⟩) (fun a s4 ha => ?_)
      obtain ⟨ha, hs4⟩ := ha
      subst ha hs4
      refine OKL.bind (m := source) (s := { s with r := r1 }) (P := fun v s' => v = src ∧ s' = { s with r := r1 })
        (OKL.ok ⟨h1.source, rfl⟩) (fun v s5 hv => ?_)
      obtain ⟨hv, hs5⟩ := hv
      subst hs5
      rw [hv]
      refine OKL.bind (liftE_okl (P := fun a s' => s' = { s with r := r1 }) hval rfl) (fun a s4 ha => ?_)
      subst ha
      exact okl_ite (fun _ => hClose) (fun _ => okl_ite (fun _ => hCloseAdv) (fun _ => hCont))
    · exact okl_ite (fun _ => hCloseAdv) (fun _ => hCont)
  · exact okl_ite (fun _ => okl_ite (fun _ => hClose) (fun _ => hCont)) (fun _ => hCont)

theorem listClose_spec (src : Bytes) : CloseSpecW src .list := by
  intro node s _ hnodes _ _
  show OKL _ (listClose node s)
  refine (listClose_fr src node s).mono (fun _ s' h => ?_)
  exact { r := h.r, opened := by rw [h.pc], ext := h.ext, nodes := h.ok hnodes,
          tmp := .inl (by rw [h.pc]), fence := .inl (by rw [h.pc]), para := fun hh => (by cases hh) }

/-- setextHeadingParser.Close still needs the key -/
theorem setextClose_specW (src : Bytes) (node : Nat) (s : St) (hsrc : s.r.source = src) (hn : NodesOK src s)
    (hk : KeysOKF s)
    (ht : ∀ t, s.pc.tmpPara = some t → t < s.nodes.length ∧ (nd s t).kind = .paragraph ∧ (nd s t).lines ≠ [])
    (hb : BlockOK s ⟨node, .setext⟩) : OKL (fun _ s' => ClosePost src .setext node s s') (bpClose .setext node s) :=
  setextClose_spec src node s hsrc hn ⟨ht, hk.fence⟩ hb

/-- every `Continue` but the list parsers' (those have their own lemmas `listContinue_okl2` / `listItemContinue_okl2`,
    which do not mention `KeysOK`) from the fence half alone -/
theorem contW_all (src : Bytes) (bp : BP) (hl : bp ≠ .list) (hi : bp ≠ .listItem) : ContSpecW src bp := by
  cases bp
  · exact setextContinue_spec src
  · exact thematicContinue_spec src
  · exact absurd rfl hl
  · exact absurd rfl hi
  · exact codeContinue_spec src
  · exact atxContinue_spec src
  · exact fencedContinue_spec src
  · exact blockquoteContinue_spec src
  · exact htmlContinue_spec src
  · exact paragraphContinue_spec src

/-- every `Close` but the setext heading parser's from the fence half alone -/
theorem closeW_all (src : Bytes) (bp : BP) (hs : bp ≠ .setext) : CloseSpecW src bp := by
  cases bp
  · exact absurd rfl hs
  · exact thematicClose_spec src
  · exact listClose_spec src
  · intro node s _ hn _ _
    exact OKL.ok ⟨rfl, rfl, Ext.refl s, hn, .inl rfl, .inl rfl, fun _ => rfl⟩
  · exact codeClose_spec src
  · exact atxClose_spec src
  · exact fencedClose_spec src
  · exact blockquoteClose_spec src
  · exact htmlClose_spec src
  · exact paragraphClose_spec src

/-- the tree-link frame of every `Close` but setext's, without `KeysOK` -/
theorem bpClose_tfW (src : Bytes) (bp : BP) (hs : bp ≠ .setext) (node : Nat) (s s' : St) (hn : NodesOK src s)
    (hb : BlockOK s ⟨node, bp⟩) (hkids : KidsOK s) (h : bpClose bp node s = .ok ((), s')) : TF s s' := by
  cases bp <;> unfold bpClose at h
  · exact absurd rfl hs
  · cases h; exact (TreeSame.refl s).tf
  · exact listClose_tf node s s' hkids hb.kind h
  · cases h; exact (TreeSame.refl s).tf
  · exact ((codeClose_tsame node).h s () s' h).tf
  · cases h; exact (TreeSame.refl s).tf
  · exact ((fencedClose_tsame node).h s () s' h).tf
  · cases h; exact (TreeSame.refl s).tf
  · cases h; exact (TreeSame.refl s).tf
  · exact (paragraphClose_tf node s s' hb hn h).tf

/-- parent pointers stay in range over every `Close` but setext's, without `KeysOK` -/
theorem bpClose_pltW (src : Bytes) (bp : BP) (hs : bp ≠ .setext) (node : Nat) (s s' : St) (hn : NodesOK src s)
    (hb : BlockOK s ⟨node, bp⟩) (hkids : KidsOK s) (hp : PLT s) (h : bpClose bp node s = .ok ((), s')) :
    PLT s' ∧ s.nodes.length ≤ s'.nodes.length := by
  cases bp <;> unfold bpClose at h
  · exact absurd rfl hs
  · cases h; exact ⟨hp, Nat.le_refl _⟩
  · exact listClose_plt node s s' hkids hb.kind hp h
  · cases h; exact ⟨hp, Nat.le_refl _⟩
  · have t := (codeClose_tsame node).h s () s' h
    exact ⟨hp.treeSame t, Nat.le_of_eq t.len.symm⟩
  · cases h; exact ⟨hp, Nat.le_refl _⟩
  · have t := (fencedClose_tsame node).h s () s' h
    exact ⟨hp.treeSame t, Nat.le_of_eq t.len.symm⟩
  · cases h; exact ⟨hp, Nat.le_refl _⟩
  · cases h; exact ⟨hp, Nat.le_refl _⟩
  · have t := paragraphClose_tf node s s' hb hn h
    exact ⟨hp.treeSame t, Nat.le_of_eq t.len.symm⟩

end GM.Blocks.W
