/-
  GM.Proof.BlocksTNO20 — what `GM.Table.transform` (tableParagraphTransformer.Transform as a function of the paragraph's
  lines) guarantees, as far as the block driver's line invariants need it:

  * `transform_spec`: when a table is made the lines split as `pre ++ hdr :: dl :: tl`, `dl` is a delimiter row, the
    paragraph keeps `trimLastNewline pre` (`pre` with the last line one byte shorter) and the table's rows are
    `parseRow` of `hdr` and of the lines of `tl`;
  * `parseRow_in`: every cell's line lies inside the row's line, has `start ≤ stop` and no padding, and every recorded
    escaped-pipe position lies inside the row's line;
  * `transform_dash`: a table is only made from a source with a `-` (the witness `dashAt src` of GM.TableX is real).
-/
import GM.Proof.Table
import GM.Proof.BlocksAtx
import GM.Proof.QuoteSimOps

namespace GM.Blocks.TO.Tab
open GM GM.Table

/-! ### trimLastNewline -/

theorem trimLastNewline_snoc : ∀ (init : List Seg) (last : Seg),
    trimLastNewline (init ++ [last]) = init ++ [{ last with stop := last.stop - 1 }]
  | [], _ => rfl
  | [a], last => by simp [trimLastNewline]
  | a :: b :: rest, last => by
    have := trimLastNewline_snoc (b :: rest) last
    simp only [List.cons_append] at this ⊢
    simp only [trimLastNewline, this]

theorem trimLastNewline_nil : trimLastNewline [] = [] := rfl

theorem trimLastNewline_length : ∀ l : List Seg, (trimLastNewline l).length = l.length
  | [] => rfl
  | [_] => rfl
  | _ :: b :: rest => by simp [trimLastNewline, trimLastNewline_length (b :: rest)]

/-! ### Transform: the split of the lines -/

theorem findTable_spec (src : Bytes) (all : List Seg) : ∀ (rest before : List Seg) (prev : Seg) (t : GM.Table.Table),
    all = before ++ prev :: rest → (findTable src all before prev rest).table = some t →
    ∃ pre hdr dl tl al, all = pre ++ hdr :: dl :: tl ∧ parseDelimiter (dl.value src) = some al ∧
      (findTable src all before prev rest).para = trimLastNewline pre ∧
      t = { aligns := al, header := parseRow src hdr al true, rows := tl.map fun l => parseRow src l al false }
  | [], before, prev, t, _, h => by simp [findTable] at h
  | cur :: rest, before, prev, t, hall, h => by
    cases hd : parseDelimiter (cur.value src) with
    | none =>
      simp only [findTable, hd] at h ⊢
      exact findTable_spec src all rest (before ++ [prev]) cur t (by rw [hall]; simp) h
    | some aligns =>
      simp only [findTable, hd] at h ⊢
      split at h
      · simp at h
      · next hlen =>
        simp only [hlen]
        simp only [Bool.false_eq_true, if_false, Option.some.injEq] at h ⊢
        exact ⟨before, prev, cur, rest, aligns, hall, hd, rfl, h.symm⟩

/-- **what Transform does with the lines when it makes a table** -/
theorem transform_spec (src : Bytes) (lines : List Seg) (t : GM.Table.Table) (h : (transform src lines).table = some t) :
    ∃ pre hdr dl tl al, lines = pre ++ hdr :: dl :: tl ∧ parseDelimiter (dl.value src) = some al ∧
      (transform src lines).para = trimLastNewline pre ∧
      t = { aligns := al, header := parseRow src hdr al true, rows := tl.map fun l => parseRow src l al false } := by
  unfold transform at h ⊢
  cases lines with
  | nil => simp at h
  | cons first rest => exact findTable_spec src (first :: rest) rest [] first t rfl h

/-! ### cells -/

/-- the cell's line lies in `[lo, hi]`, is not inverted, has no padding; the recorded positions lie in `[lo, hi)` -/
def CellIn (lo hi : Nat) (c : Cell) : Prop :=
  (∀ sg, c.seg = some sg → lo ≤ sg.start ∧ sg.start ≤ sg.stop ∧ sg.stop ≤ hi ∧ sg.padding = 0) ∧
    ∀ p ∈ c.esc, lo ≤ p ∧ p < hi

theorem CellIn.mono {lo hi lo' hi' : Nat} {c : Cell} (h : CellIn lo hi c) (h1 : lo' ≤ lo) (h2 : hi ≤ hi') : CellIn lo' hi' c :=
  ⟨fun sg hs => by have := h.1 sg hs; omega, fun p hp => by have := h.2 p hp; omega⟩

theorem slice_length_le (src : Bytes) (a b : Nat) : (GM.Table.slice src a b).length ≤ b - a := by
  unfold GM.Table.slice; simp only [List.length_take, List.length_drop]; omega

theorem slice_mem {src : Bytes} {a b : Nat} {x : UInt8} (h : x ∈ GM.Table.slice src a b) : x ∈ src :=
  List.mem_of_mem_drop (List.mem_of_mem_take h)

theorem trimLeft_in (src : Bytes) (s : Seg) (h : s.start ≤ s.stop) :
    s.start ≤ (s.trimLeft src).start ∧ (s.trimLeft src).start ≤ (s.trimLeft src).stop ∧ (s.trimLeft src).stop = s.stop ∧
      (s.trimLeft src).padding = 0 := by
  have h1 := GM.Blocks.trimLeftSpaceLength_le (GM.Table.slice src s.start s.stop)
  have h2 := slice_length_le src s.start s.stop
  refine ⟨Nat.le_add_right _ _, ?_, rfl, rfl⟩
  show s.start + trimLeftSpaceLength (GM.Table.slice src s.start s.stop) ≤ s.stop
  omega

theorem trimRight_in (src : Bytes) (s : Seg) (h : s.start ≤ s.stop) :
    (s.trimRight src).start = s.start ∧ (s.trimRight src).start ≤ (s.trimRight src).stop ∧ (s.trimRight src).stop ≤ s.stop ∧
      (s.padding = 0 → (s.trimRight src).padding = 0) := by
  have h1 := GM.Blocks.trimRightSpaceLength_le (GM.Table.slice src s.start s.stop)
  have h2 := slice_length_le src s.start s.stop
  simp only [Seg.trimRight]
  split
  · exact ⟨rfl, Nat.le_refl _, h, fun _ => rfl⟩
  · next hne =>
    simp only [beq_iff_eq] at hne
    refine ⟨rfl, ?_, Nat.sub_le _ _, fun hp => hp⟩
    show s.start ≤ s.stop - _
    omega

theorem cellSeg_in (src : Bytes) (segStart pos closure : Nat) (h : pos ≤ closure) :
    segStart + pos ≤ (cellSeg src segStart pos closure).start ∧
      (cellSeg src segStart pos closure).start ≤ (cellSeg src segStart pos closure).stop ∧
      (cellSeg src segStart pos closure).stop ≤ segStart + closure ∧ (cellSeg src segStart pos closure).padding = 0 := by
  unfold cellSeg
  obtain ⟨a1, a2, a3, a4⟩ := trimLeft_in src { start := segStart + pos, stop := segStart + closure } (by simp only; omega)
  obtain ⟨b1, b2, b3, b4⟩ := trimRight_in src _ a2
  simp only at a1 a3
  refine ⟨by rw [b1]; exact a1, b2, by omega, b4 a4⟩

theorem scanCell_spec (line : Bytes) (limit segStart closure : Nat) (hb : Bool) (esc : List Nat) (hle : closure ≤ limit) :
    (scanCell line limit segStart closure hb esc).1 ≤ limit ∧
      ∀ p ∈ (scanCell line limit segStart closure hb esc).2, p ∈ esc ∨ (segStart ≤ p ∧ p < segStart + limit) := by
  fun_induction scanCell line limit segStart closure hb esc with
  | case1 closure hb esc h c hb' hq => exact ⟨hle, fun p hp => .inl hp⟩
  | case2 closure hb esc h c hb' hc hq ih =>
    obtain ⟨i1, i2⟩ := ih (by omega)
    refine ⟨i1, fun p hp => ?_⟩
    rcases i2 p hp with h1 | h1
    · split at h1
      · simp only [List.mem_append, List.mem_singleton] at h1
        rcases h1 with h1 | h1
        · exact .inl h1
        · right
          simp only [Bool.or_eq_true, beq_iff_eq, bne_iff_ne, ne_eq, Decidable.not_not, not_or] at hq
          have : closure ≠ 0 := hq.1
          omega
      · exact .inl h1
    · exact .inr h1
  | case3 closure hb esc h c hb' hc ih =>
    exact ih (by omega)
  | case4 closure hb esc h => exact ⟨hle, fun p hp => .inl hp⟩

theorem rowLoop_in (src line : Bytes) (limit segStart : Nat) (aligns : List Align) (isHeader : Bool) (pos i : Nat) :
    ∀ c ∈ rowLoop src line limit segStart aligns isHeader pos i, CellIn segStart (segStart + limit) c := by
  fun_induction rowLoop src line limit segStart aligns isHeader pos i with
  | case1 pos i h hret => intro c hc; cases hc
  | case2 pos i h hret alignment r ih =>
    intro c hc
    simp only [List.mem_cons] at hc
    rcases hc with hc | hc
    · subst hc
      have hge := scanCell_ge line limit segStart pos false []
      obtain ⟨s1, s2⟩ := scanCell_spec line limit segStart pos false [] (Nat.le_of_lt h)
      refine ⟨fun sg hs => ?_, fun p hp => ?_⟩
      · simp only [Option.some.injEq] at hs
        subst hs
        obtain ⟨c1, c2, c3, c4⟩ := cellSeg_in src segStart pos r.1 hge
        have : r.1 ≤ limit := s1
        exact ⟨by omega, c2, by omega, c4⟩
      · rcases s2 p hp with h1 | h1
        · cases h1
        · exact h1
    · exact ih c hc
  | case3 pos i h hh => intro c hc; cases hc
  | case4 pos i h hh =>
    intro c hc
    have := List.eq_of_mem_replicate hc
    subst this
    exact ⟨fun sg hs => by simp [padCell] at hs, fun p hp => by simp [padCell] at hp⟩

/-- **every cell of a row lies inside the row's line** -/
theorem parseRow_in (src : Bytes) (seg : Seg) (aligns : List Align) (isHeader : Bool) (hv : seg.start ≤ seg.stop) :
    ∀ c ∈ parseRow src seg aligns isHeader, CellIn seg.start seg.stop c := by
  intro c hc
  unfold parseRow at hc
  obtain ⟨a1, a2, a3, a4⟩ := trimLeft_in src seg hv
  obtain ⟨b1, b2, b3, b4⟩ := trimRight_in src _ a2
  have hpad := b4 a4
  generalize hS : (seg.trimLeft src).trimRight src = S at hc b1 b2 b3 hpad
  have hlen : (S.value src).length ≤ S.stop - S.start := by
    simp only [Seg.value, hpad, List.replicate_zero, List.nil_append]
    exact slice_length_le src _ _
  have := rowLoop_in src _ _ _ _ _ _ _ c hc
  refine this.mono (by omega) ?_
  split <;> omega

/-! ### the witness -/

theorem value_mem {src : Bytes} {s : Seg} {x : UInt8} (hx : x ≠ 32) (h : x ∈ s.value src) : x ∈ src := by
  simp only [Seg.value, List.mem_append] at h
  rcases h with h | h
  · exact absurd (List.eq_of_mem_replicate h) hx
  · exact slice_mem h

/-- **a table is only made from a source that has a `-`** -/
theorem transform_dash (src : Bytes) (lines : List Seg) (t : GM.Table.Table) (h : (transform src lines).table = some t) :
    (45 : UInt8) ∈ src := by
  obtain ⟨pre, hdr, dl, tl, al, _, hd, _, _⟩ := transform_spec src lines t h
  exact value_mem (by decide) (GM.Proof.Table.parseDelimiter_some hd).2.1

end GM.Blocks.TO.Tab
