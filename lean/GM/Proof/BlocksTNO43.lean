/-
  GM.Proof.BlocksTNO43 — X-port of the finals of GM.Proof.BlocksTNO16/17: the close discipline at the end of the block
  phase WITH the table transformer, and the line facts in the shape of `GM.Props.ConvertXE2E.BlockPhaseXGood`:
  every line segment of the store lies in the source; every entry of a child list that is neither raw nor a
  `thematicBreak` node and has lines has `WF0` lines; a `thematicBreak` entry (the table records) has lines without
  padding, inside the source; the Document has no lines; the tree links are consistent; the stack is empty.
-/
import GM.Proof.BlocksTNO42
import GM.Proof.ConvertXE2EKeeps

namespace GM.Blocks.TX
open GM GM.Text GM.Spec GM.Proof.Reader GM.LinkRef GM.Blocks.TO GM.TableX GM.ConvertX
open GM.Proof.BlocksWF0 (isRaw)

theorem blockPhaseX_runT (c : XCfg) (src : Bytes) (ht : c.table = true) (s : St)
    (h : blockPhaseX c true src = .ok s) : runT [transform, transformPT src] src = .ok s := by
  rw [blockPhaseX_guard_irrelevant c src, blockPhaseX_table src _ c ht] at h
  exact h

/-- the close discipline of the final store -/
theorem blockPhaseX_cinv (c : XCfg) (src : Bytes) (ht : c.table = true) (s : St)
    (h : blockPhaseX c true src = .ok s) : CInvG False src s [] ∧ s.pc.opened = [] :=
  runT_tableX_cinv src s (blockPhaseX_runT c src ht s h)

/-- the tree links of the final store are consistent -/
theorem blockPhaseX_tree (c : XCfg) (src : Bytes) (ht : c.table = true) (s : St)
    (h : blockPhaseX c true src = .ok s) : TreeOK s := (blockPhaseX_cinv c src ht s h).1.tree

/-- **padding 0 at the end**: every non-raw node of the final store (the table records included) has padding 0 on all
    its lines, or is a parentless Heading -/
theorem blockPhaseX_closed (c : XCfg) (src : Bytes) (ht : c.table = true) (s : St)
    (h : blockPhaseX c true src = .ok s) :
    ∀ i, isRaw (nd s i).kind = false → Closed (nd s i) ∨ ((nd s i).kind = .heading ∧ (nd s i).parent = none) := by
  obtain ⟨hc, _⟩ := blockPhaseX_cinv c src ht s h
  intro i hr
  rcases hc.pad i hr with hcl | ⟨b, hb, _⟩ | hab
  · exact .inl hcl
  · cases hb
  · exact .inr hab

/-- the tree-walk form: every entry of a child list has that parent, and (when not raw) padding 0 on all its lines -/
theorem blockPhaseX_child_closed (c : XCfg) (src : Bytes) (ht : c.table = true) (s : St)
    (h : blockPhaseX c true src = .ok s) (p ch : Nat) (hc : ch ∈ (nd s p).children) :
    (nd s ch).parent = some p ∧ (isRaw (nd s ch).kind = false → ∀ t ∈ (nd s ch).lines, t.padding = 0) := by
  have hk := (blockPhaseX_tree c src ht s h).kid p ch hc
  refine ⟨hk, fun hr => ?_⟩
  rcases blockPhaseX_closed c src ht s h ch hr with hcl | hab
  · exact hcl
  · rw [hab.2] at hk; cases hk

/-- Document, Blockquote, List and ListItem nodes carry no lines -/
theorem blockPhaseX_no_lines (c : XCfg) (src : Bytes) (ht : c.table = true) (s : St)
    (h : blockPhaseX c true src = .ok s) : ∀ i, noLinesKind (nd s i).kind = true → (nd s i).lines = [] :=
  (blockPhaseX_cinv c src ht s h).1.nl

/-- the Document (node 0) has no lines -/
theorem blockPhaseX_root_no_lines (c : XCfg) (src : Bytes) (ht : c.table = true) (s : St)
    (h : blockPhaseX c true src = .ok s) : (nd s 0).lines = [] := by
  obtain ⟨d, rest, e, hd⟩ := GM.E2E.blockPhaseX_rootDoc c true src s h
  refine blockPhaseX_no_lines c src ht s h 0 ?_
  have : nd s 0 = d := by simp [nd, e]
  rw [this, hd]; rfl

/-- **the line facts of the block phase with tables**, in the shape of `BlockPhaseXGood`:
    (1) every line segment of every node lies in the source;
    (2) an entry of a child list that is not raw and not a `thematicBreak` node and has lines has `WF0` lines;
    (3) a `thematicBreak` entry of a child list (a table record, or a thematic break, which has no lines) has lines
        without padding;
    (4) the Document has no lines. -/
theorem blockPhaseX_line_facts (c : XCfg) (src : Bytes) (ht : c.table = true) (s : St)
    (h : blockPhaseX c true src = .ok s) :
    (∀ n ∈ s.nodes, ∀ t ∈ n.lines, segInRange src t) ∧
    (∀ p ch, ch ∈ (s.nodes.getD p default).children → GM.Convert.isRawKind (s.nodes.getD ch default).kind = false →
      (s.nodes.getD ch default).kind ≠ .thematicBreak → (s.nodes.getD ch default).lines ≠ [] →
      GM.Proof.InlinesReader.WF0 src (s.nodes.getD ch default).lines) ∧
    (∀ p ch, ch ∈ (s.nodes.getD p default).children → (s.nodes.getD ch default).kind = .thematicBreak →
      ∀ t ∈ (s.nodes.getD ch default).lines, t.padding = 0) ∧
    (s.nodes.getD 0 default).lines = [] := by
  obtain ⟨hW, _, _, _, hR⟩ := blockPhaseX_wfsegs c src ht s h
  refine ⟨fun n hn t htl => hR n hn t htl, fun p ch hc hr hk hne => ?_, fun p ch hc hk => ?_,
    blockPhaseX_root_no_lines c src ht s h⟩
  · have hr' : isRaw (nd s ch).kind = false := by
      have : isRaw (nd s ch).kind = GM.Convert.isRawKind (nd s ch).kind := by cases (nd s ch).kind <;> rfl
      rw [this]; exact hr
    have hlt : ch < s.nodes.length := by
      rcases Nat.lt_or_ge ch s.nodes.length with hh | hh
      · exact hh
      · exfalso; apply hne; show (nd s ch).lines = []; rw [nd_default_of_ge s hh]; rfl
    have hm : nd s ch ∈ s.nodes := by
      have e : nd s ch = s.nodes[ch] := by simp [nd, List.getD, hlt]
      rw [e]; exact List.getElem_mem hlt
    exact ⟨(hW _ hm hr' hk).2.2 hne, (blockPhaseX_child_closed c src ht s h p ch hc).2 hr'⟩
  · exact (blockPhaseX_child_closed c src ht s h p ch hc).2 (by
      show isRaw (nd s ch).kind = false
      have : (nd s ch).kind = .thematicBreak := hk
      rw [this]; rfl)

end GM.Blocks.TX
