/-
  GM.Proof.CMFragLoop — the loops of parseBlocks over a whole fragment document: `linesLoopT` over the lines of one
  paragraph (induction over the lines), `skipBlankLines`, `blocksLoopT` over the paragraphs (induction over the
  document), `runT`.
-/
import GM.Proof.CMFragDriver

namespace GM.Proof.CMFrag
open GM GM.Text GM.Blocks GM.Spec

theorem paraBytes_snoc_len (ls : List Bytes) (l : Bytes) :
    (paraBytes (ls ++ [l])).length = (paraBytes ls).length + l.length + 1 := by
  simp [paraBytes]; omega

/-- what follows a paragraph that ends at byte `q`: the end of the source, or a blank line -/
def After (src : Bytes) (q : Nat) : Prop := q = src.length ∨ Ln src q (q + 1) [10]

section loops
variable {src : Bytes}

/-- the per-line loop over the remaining lines `more` of a paragraph whose lines `done` have been read -/
theorem linesLoop_para (d : Blocks.Node) (rest : List Blocks.Node) (b : Bool) (p : Nat) :
    ∀ (more done : List Bytes) (k : Int) (fuel : Nat) (bl : List LineStat) (pc : Ctx),
      done ≠ [] → ParaAt src p done → ParaAt src (p + (paraBytes done).length) more →
      (∀ l ∈ done ++ more, BlkLine l) → After src (p + (paraBytes (done ++ more)).length) →
      more.length + 2 ≤ fuel → pc.opened = [{ node := rest.length + 1, bp := .paragraph }] →
      ∃ ret bl' s',
        linesLoopT pts 0 fuel bl
            ⟨rdr src k (p + (paraBytes done).length) (p + (paraBytes done).length)
              (lineEnd src (p + (paraBytes done).length)) none (-1),
              d :: (rest ++ [paraN (openSegs p done) b]), pc⟩ = .ok ((ret, bl'), s') ∧
          s'.nodes = d :: (rest ++ [paraN (paraSegs p (done ++ more)) b]) ∧ s'.pc.opened = [] ∧ s'.pc.refs = pc.refs ∧
          ((ret = true ∧ p + (paraBytes (done ++ more)).length = src.length) ∨
           (ret = false ∧ Ln src (p + (paraBytes (done ++ more)).length) (p + (paraBytes (done ++ more)).length + 1) [10] ∧
              ∃ k', s'.r = rdr src k' (p + (paraBytes (done ++ more)).length + 1)
              (p + (paraBytes (done ++ more)).length + 1)
              (lineEnd src (p + (paraBytes (done ++ more)).length + 1)) none (-1))) := by
  intro more
  induction more with
  | nil =>
    intro done k fuel bl pc hne hd _ hb haft hf hop
    simp only [List.append_nil] at hb haft ⊢
    obtain ⟨f, rfl⟩ : ∃ f, fuel = f + 1 := ⟨fuel - 1, by simp at hf; omega⟩
    have e1 : (((1 : Nat) : Int) - 1) = 0 := by decide
    have e0 : ((1 : Nat) == 0) = false := rfl
    rcases haft with hq | hl
    · refine ⟨true, bl, ⟨rdr src (k + 1) (lineEnd src src.length) (lineEnd src src.length)
          (lineEnd src (lineEnd src src.length)) none (-1), d :: (rest ++ [paraN (paraSegs p done) b]),
          { pc with opened := [] }⟩, ?_, rfl, rfl, rfl, Or.inl ⟨rfl, hq⟩⟩
      rw [linesLoopT]
      simp only [bind_apply, getPc_run, hop, List.length_singleton, e1, e0, Bool.false_eq_true, if_false]
      rw [hq]
      simp only [lineLoop_eof hne hd hb k _ d rest b pc hop bl, pure_apply]
    · obtain ⟨f', rfl⟩ : ∃ f', f = f' + 1 := ⟨f - 1, by simp at hf; omega⟩
      refine ⟨false, bl ++ [{ lineNum := k, level := 0, isBlank := true }],
        ⟨rdr src (k + 1) (p + (paraBytes done).length + 1) (p + (paraBytes done).length + 1)
          (lineEnd src (p + (paraBytes done).length + 1)) none (-1), d :: (rest ++ [paraN (paraSegs p done) b]),
          { pc with blockOffset := 0, blockIndent := 0, opened := [] }⟩, ?_, rfl, rfl, rfl, Or.inr ⟨rfl, hl, k + 1, rfl⟩⟩
      rw [linesLoopT]
      simp only [bind_apply, getPc_run, hop, List.length_singleton, e1, e0, Bool.false_eq_true, if_false]
      rw [hl.lineEnd]
      simp only [lineLoop_blank hne hd hb hl k d rest b pc hop bl, pure_apply, bind_apply, advanceLine_run]
      rw [linesLoopT]
      simp [bind_apply, getPc_run, pure_apply]
  | cons l more ih =>
    intro done k fuel bl pc hne hd hm hb haft hf hop
    obtain ⟨f, rfl⟩ : ∃ f, fuel = f + 1 := ⟨fuel - 1, by simp at hf; omega⟩
    have e1 : (((1 : Nat) : Int) - 1) = 0 := by decide
    obtain ⟨hl, hm'⟩ := hm
    obtain ⟨c, t, hlc, hc⟩ := (hb l (by simp)).first
    have hd' : ParaAt src p (done ++ [l]) := paraAt_append hd hl
    have eq1 : p + (paraBytes (done ++ [l])).length = p + (paraBytes done).length + l.length + 1 := by
      rw [paraBytes_snoc_len]; omega
    have eapp : done ++ l :: more = (done ++ [l]) ++ more := by simp
    have hb' : ∀ x ∈ (done ++ [l]) ++ more, BlkLine x := by rw [← eapp]; exact hb
    have haft' : After src (p + (paraBytes ((done ++ [l]) ++ more)).length) := by rw [← eapp]; exact haft
    have hm'' : ParaAt src (p + (paraBytes (done ++ [l])).length) more := by rw [eq1]; exact hm'
    obtain ⟨ret, bl', s', h1, h2, h3, h4, h5⟩ :=
      ih (done ++ [l]) (k + 1) f (bl ++ [{ lineNum := k, level := 0, isBlank := isBlank (l ++ [10]) }])
        { pc with blockOffset := 0, blockIndent := 0 } (by simp) hd' hm'' hb' haft'
        (by simp at hf ⊢; omega) hop
    refine ⟨ret, bl', s', ?_, by rw [eapp]; exact h2, h3, h4, by rw [eapp]; exact h5⟩
    have e0 : ((1 : Nat) == 0) = false := rfl
    rw [linesLoopT]
    simp only [bind_apply, getPc_run, hop, List.length_singleton, e1, e0, Bool.false_eq_true, if_false]
    rw [hl.lineEnd]
    rw [lineLoop_cont hl (c := c) (t := t ++ [10]) (by rw [hlc]; rfl) hc k d rest (openSegs p done) b pc hop bl]
    simp only [advanceLine_run, bind_apply]
    rw [openSegs_append, eq1] at h1
    simp only [← h1]

/-! ### blank lines -/

/-- `g` blank lines from byte `q` on -/
def BlanksAt (src : Bytes) : Nat → Nat → Prop
  | _, 0 => True
  | q, g + 1 => Ln src q (q + 1) [10] ∧ BlanksAt src (q + 1) g

theorem rpeek_fresh {p e : Nat} {v : Bytes} (hsub : sub src p e = v) (hp : p < src.length) (hpe : p ≤ e)
    (he : e ≤ src.length) (k h lo) :
    Reader.peekLine (rdr src k h p e none lo) = .ok ((some v, sg p e), rdr src k h p e (some v) lo) := by
  have c1 : ((p : Int) ≥ 0 ∧ (p : Int) < (src.length : Int)) := by omega
  have c2 : (0 ≤ (p : Int) ∧ (p : Int) ≤ (e : Int) ∧ (e : Int) ≤ (src.length : Int)) := by omega
  simp [Reader.peekLine, rdr, Reader.sourceLength, c1, Segment.value, sliceB, c2, needsNewline, hsub, sg,
    bind, Except.bind, pure, Except.pure]

theorem rpeek_eof {p : Nat} (hp : src.length ≤ p) (k h e pk lo) :
    Reader.peekLine (rdr src k h p e pk lo) = .ok ((none, sg p e), rdr src k h p e pk lo) := by
  have c1 : ¬ (p < src.length) := by omega
  simp [Reader.peekLine, rdr, Reader.sourceLength, c1, sg, bind, Except.bind, pure, Except.pure]

theorem radvanceLine (k h p e pk lo) :
    (rdr src k h p e pk lo).advanceLine = rdr src (k + 1) e e (lineEnd src e) none (-1) := by
  have c : ¬ ((e : Int) < 0) := by omega
  simp [Reader.advanceLine, rdr, c]

theorem ops_peek : (readerOps).peekLine = Reader.peekLine := rfl
theorem ops_advLine (r : Reader) : (readerOps).advanceLine r = .ok r.advanceLine := rfl

/-- SkipBlankLines over `g` blank lines in front of a text line -/
theorem skipBlank_text : ∀ (g q : Nat) (k lines : Int) (fuel : Nat) {e : Nat} {v : Bytes}, BlanksAt src q g →
    Ln src (q + g) e v → isBlank v = false → g + 1 ≤ fuel →
    skipBlankLines readerOps fuel lines (rdr src k q q (lineEnd src q) none (-1)) =
      .ok ((sg (q + g) e, lines + g, true), rdr src (k + g) (q + g) (q + g) e (some v) (-1))
  | 0, q, k, lines, fuel, e, v, _, hl, hv, hf => by
    obtain ⟨f, rfl⟩ : ∃ f, fuel = f + 1 := ⟨fuel - 1, by omega⟩
    have hp : q < src.length := by have := hl.le; have := hl.lt; omega
    simp only [Nat.add_zero] at hl
    rw [skipBlankLines]
    simp only [ops_peek, ops_advLine, hl.lineEnd, rpeek_fresh hl.sub hp (Nat.le_of_lt hl.lt) hl.le, bind, Except.bind, hv]
    simp [pure, Except.pure]
  | g + 1, q, k, lines, fuel, e, v, hb, hl, hv, hf => by
    obtain ⟨f, rfl⟩ : ∃ f, fuel = f + 1 := ⟨fuel - 1, by omega⟩
    obtain ⟨h1, h2⟩ := hb
    have hp : q < src.length := by have := h1.le; omega
    have e1 : q + (g + 1) = q + 1 + g := by omega
    have ih := skipBlank_text g (q + 1) (k + 1) (lines + 1) f h2 (by rw [← e1]; exact hl) hv (by omega)
    rw [skipBlankLines]
    have hib : isBlank [10] = true := by decide
    simp only [ops_peek, ops_advLine, h1.lineEnd, rpeek_fresh h1.sub hp (Nat.le_succ _) h1.le, bind, Except.bind, hib, if_true,
      pure, Except.pure, radvanceLine]
    rw [ih]
    simp only [e1]
    have a1 : k + 1 + (g : Int) = k + ((g + 1 : Nat) : Int) := by omega
    have a2 : lines + 1 + (g : Int) = lines + ((g + 1 : Nat) : Int) := by omega
    rw [a1, a2]

/-- SkipBlankLines over `g` blank lines in front of the end of the source -/
theorem skipBlank_eof : ∀ (g q : Nat) (k lines : Int) (fuel : Nat), BlanksAt src q g →
    q + g = src.length → g + 1 ≤ fuel →
    ∃ r', skipBlankLines readerOps fuel lines (rdr src k q q (lineEnd src q) none (-1)) =
      .ok ((sg (q + g) (lineEnd src (q + g)), lines + g, false), r')
  | 0, q, k, lines, fuel, _, hq, hf => by
    obtain ⟨f, rfl⟩ : ∃ f, fuel = f + 1 := ⟨fuel - 1, by omega⟩
    refine ⟨rdr src k q q (lineEnd src q) none (-1), ?_⟩
    rw [skipBlankLines]
    simp only [ops_peek, ops_advLine, rpeek_eof (show src.length ≤ q by omega), bind, Except.bind]
    simp [pure, Except.pure]
  | g + 1, q, k, lines, fuel, hb, hq, hf => by
    obtain ⟨f, rfl⟩ : ∃ f, fuel = f + 1 := ⟨fuel - 1, by omega⟩
    obtain ⟨h1, h2⟩ := hb
    have hp : q < src.length := by have := h1.le; omega
    have e1 : q + (g + 1) = q + 1 + g := by omega
    obtain ⟨r', ih⟩ := skipBlank_eof g (q + 1) (k + 1) (lines + 1) f h2 (by omega) (by omega)
    refine ⟨r', ?_⟩
    rw [skipBlankLines]
    have hib : isBlank [10] = true := by decide
    simp only [ops_peek, ops_advLine, h1.lineEnd, rpeek_fresh h1.sub hp (Nat.le_succ _) h1.le, bind, Except.bind, hib, if_true,
      pure, Except.pure, radvanceLine]
    rw [ih]
    simp only [e1]
    have a2 : lines + 1 + (g : Int) = lines + ((g + 1 : Nat) : Int) := by omega
    rw [a2]
end loops

end GM.Proof.CMFrag
