/-
  GM.Proof.ConvertLFlushMerge — why the consultation flush (parser.go:1203-1211) is invisible INSIDE a line: flushing the pending
  text `[a, b)` and later the text `[b, c)` behind it leaves `parent`'s children exactly as one flush of `[a, c)` does
  (`ast.MergeOrAppendTextSegment` merges into a last Text child that ends where the segment starts). So the run with an extra
  consultation and the run without it agree again at the next common flush. What the consultation leaves visible is only the
  cut in front of the END-OF-LINE Text, which parseBlock appends without merging (parser.go:1252-1269).
-/
import GM.Model.Inlines

namespace GM.Proof.ConvertLFlushMerge
open GM GM.Text GM.Inl

theorem getLast?_append_singleton {α} (l : List α) (x : α) : (l ++ [x]).getLast? = some x := by simp

theorem dropLast_append_singleton {α} (l : List α) (x : α) : (l ++ [x]).dropLast = l := by simp

/-- **two flushes in a row are one flush**: for segments `s1 = [a, b)`, `s2 = [b, c)` of the same line (same padding and
    `ForceNewline`), whatever the children are -/
theorem mergeOrAppend_twice (kids : List Inl.Node) (s1 s2 : Segment) (h : s1.stop = s2.start) :
    mergeOrAppend (mergeOrAppend kids s1) s2 = mergeOrAppend kids (s1.withStop s2.stop) := by
  unfold mergeOrAppend
  cases hl : kids.getLast? with
  | none =>
    simp only [textOf, getLast?_append_singleton, dropLast_append_singleton, h, beq_self_eq_true, Bool.not_false,
      Bool.and_self, if_true]
    try rfl
  | some last =>
    cases last with
    | text seg soft hard raw =>
      simp only
      by_cases hm : (seg.stop == s1.start && !soft) = true
      · have hm' : (seg.stop == (s1.withStop s2.stop).start && !soft) = true := hm
        rw [if_pos hm, if_pos hm']
        simp only [getLast?_append_singleton, dropLast_append_singleton]
        have hs : soft = false := by cases soft <;> simp_all
        have : ((seg.withStop s1.stop).stop == s2.start && !soft) = true := by
          simp [Segment.withStop, h, hs]
        rw [if_pos this]
        try rfl
      · have hm' : ¬ (seg.stop == (s1.withStop s2.stop).start && !soft) = true := hm
        rw [if_neg hm, if_neg hm']
        simp only [textOf, getLast?_append_singleton, dropLast_append_singleton, h, beq_self_eq_true, Bool.not_false,
          Bool.and_self, if_true]
        try rfl
    | _ =>
      simp only [textOf, getLast?_append_singleton, dropLast_append_singleton, h, beq_self_eq_true, Bool.not_false,
        Bool.and_self, if_true]
      try rfl

end GM.Proof.ConvertLFlushMerge
