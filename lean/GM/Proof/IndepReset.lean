/-
  GM.Proof.IndepReset — C09, first half, mechanism (ii) "reset": one pass of parseBlocks' line loop
  (parser.go:1081-1123) over a NON-INDENTED ATX HEADING LINE, from ANY state (reachable or not) in which the first
  open block does not continue on that line, ends with exactly one open block — the new heading — whatever was
  open before (`headingLine_unwinds`); and the pass over the following BLANK line closes the heading too
  (`blankLine_closes_heading`): the open-block stack is empty again, the list parser's flags are what they were.

  Backward symbolic execution (`bind_ok` & co. of GM.Proof.IndepFrame) from the hypothesis that the pass ended
  normally; a Go panic on the way makes the statements vacuous (absence of panics is C01's subject).
-/
import GM.Proof.IndepFrame
import GM.Proof.BlocksLeaf

namespace GM.Blocks
open GM GM.Text

/-! ### the reader stands on a given line -/

/-- the reader stands at the beginning of (the rest of) a line whose bytes are `line`: `PeekLine` answers `line` -/
structure AtLine (line : Bytes) (r : Reader) : Prop where
  start0 : 0 ≤ r.pos.start
  startLt : r.pos.start < r.sourceLength
  value : r.pos.value r.source = .ok line
  cache : r.peekedLine = none ∨ r.peekedLine = some line

theorem AtLine.peekLine {line : Bytes} {r : Reader} (h : AtLine line r) :
    ∃ r', r.peekLine = .ok ((some line, r.pos), r') ∧ AtLine line r' ∧ r'.pos = r.pos ∧ r'.source = r.source := by
  unfold Reader.peekLine
  rw [if_pos ⟨h.start0, h.startLt⟩]
  rcases h.cache with hc | hc
  · rw [hc]
    simp only [h.value, bind, Except.bind, pure, Except.pure]
    exact ⟨_, rfl, ⟨h.start0, h.startLt, h.value, .inr rfl⟩, rfl, rfl⟩
  · rw [hc]
    exact ⟨_, rfl, h, rfl, rfl⟩

theorem AtLine.lineOffsetOp {line : Bytes} {r r' : Reader} {lo : Int} (h : AtLine line r)
    (hl : r.lineOffsetOp = .ok (lo, r')) : AtLine line r' ∧ r'.pos = r.pos ∧ r'.source = r.source := by
  unfold Reader.lineOffsetOp at hl
  split at hl
  · cases hc : colLoop r.source r.head r.pos.start with
    | error e => simp [hc, bind, Except.bind] at hl
    | ok v =>
      simp only [hc, bind, Except.bind, pure, Except.pure] at hl
      cases hl
      exact ⟨⟨h.start0, h.startLt, h.value, h.cache⟩, rfl, rfl⟩
  · cases hl; exact ⟨h, rfl, rfl⟩

/-- the reader's cursor (position and source) is the same; its caches may differ -/
def Cur (s s' : St) : Prop := s'.r.pos = s.r.pos ∧ s'.r.source = s.r.source

theorem Cur.rfl' (s : St) : Cur s s := ⟨rfl, rfl⟩
theorem Cur.trans {a b c : St} (h1 : Cur a b) (h2 : Cur b c) : Cur a c := ⟨h2.1.trans h1.1, h2.2.trans h1.2⟩
theorem Cur.of_sameReader {a b : St} (h : SameReader a b) : Cur a b := by unfold SameReader at h; exact ⟨by rw [h], by rw [h]⟩

/-- `peekLine` at the level of `M`, on a reader that stands on `line` -/
theorem peekLine_atLine {line : Bytes} {s : St} {x : Option Bytes × Segment} {s' : St} (h : AtLine line s.r)
    (hp : peekLine s = .ok (x, s')) :
    x = (some line, s.r.pos) ∧ AtLine line s'.r ∧ s'.nodes = s.nodes ∧ s'.pc = s.pc ∧ Cur s s' := by
  obtain ⟨r', h1, h2, h3⟩ := h.peekLine
  unfold GM.Blocks.peekLine at hp
  simp only [h1, bind, Except.bind, pure, Except.pure] at hp
  cases hp
  exact ⟨rfl, h2, rfl, rfl, h3⟩

theorem lineOffset_atLine {line : Bytes} {s : St} {lo : Int} {s' : St} (h : AtLine line s.r)
    (hp : lineOffset s = .ok (lo, s')) :
    AtLine line s'.r ∧ s'.nodes = s.nodes ∧ s'.pc = s.pc ∧ Cur s s' := by
  unfold GM.Blocks.lineOffset at hp
  cases hl : s.r.lineOffsetOp with
  | error e => simp [hl, bind, Except.bind] at hp
  | ok p =>
    simp only [hl, bind, Except.bind, pure, Except.pure] at hp
    cases hp
    obtain ⟨h1, h2⟩ := h.lineOffsetOp (lo := p.1) (r' := p.2) hl
    exact ⟨h1, rfl, rfl, h2⟩

/-! ### lines that start with `#` -/

theorem indentWidthI_hash (rest : Bytes) (cur : Int) : indentWidthI (35 :: rest) cur = (0, 0) := by
  simp [indentWidthI, indentWidthGo]

theorem indentPosition_hash (rest : Bytes) (cur w : Int) (hw : 0 < w) :
    indentPosition (35 :: rest) cur w = (-1, -1) := by
  have hw0 : (w == 0) = false := by simp; omega
  have : ¬ (0 : Int) ≥ w := by omega
  simp [indentPosition, indentPositionPadding, hw0, ippLoop, this]

/-! ### the first open block does not continue on a heading line -/

/-- on the line the reader stands on, `Continue` of the open block `be` answers `Close` and changes nothing but
    the reader's caches — in every state with the node store and context of `s` -/
def ClosesAt (line : Bytes) (be : Block) (s : St) : Prop :=
  ∀ s1 st s2, AtLine line s1.r → s1.nodes = s.nodes → s1.pc = s.pc → bpContinue be.bp be.node s1 = .ok (st, s2) →
    st.cont = false ∧ AtLine line s2.r ∧ s2.nodes = s.nodes ∧ s2.pc = s.pc ∧ Cur s1 s2

/-- ATX headings, thematic breaks and setext headings never continue -/
theorem closesAt_oneLine (line : Bytes) (be : Block) (s : St)
    (hbp : be.bp = .atx ∨ be.bp = .thematic ∨ be.bp = .setext) : ClosesAt line be s := by
  intro s1 st s2 hl hn hp h
  rcases hbp with hb | hb | hb <;> rw [hb] at h <;> simp only [bpContinue] at h <;>
    obtain ⟨rfl, rfl⟩ := pure_ok h <;> exact ⟨rfl, hl, hn, hp, Cur.rfl' _⟩

/-- a block quote does not continue on a line that starts with `#` (blockquote.go:20-40, :53-58) -/
theorem closesAt_blockquote (rest : Bytes) (be : Block) (s : St) (hbp : be.bp = .blockquote) :
    ClosesAt (35 :: rest) be s := by
  intro s1 st s2 hl hn hp h
  rw [hbp] at h
  simp only [bpContinue] at h
  unfold blockquoteContinue at h
  obtain ⟨b, s3, hb, h⟩ := bind_ok h
  unfold blockquoteProcess at hb
  obtain ⟨x, s4, h4, hb⟩ := bind_ok hb
  obtain ⟨rfl, hl4, hn4, hp4, c4⟩ := peekLine_atLine hl h4
  dsimp only at hb
  obtain ⟨lo, s5, h5, hb⟩ := bind_ok hb
  obtain ⟨hl5, hn5, hp5, c5⟩ := lineOffset_atLine hl4 h5
  simp only [Option.getD, indentWidthI_hash] at hb
  have c1 : (decide ((0:Int) > 3) || decide ((0:Int) ≥ ((35 :: rest : Bytes).length : Int))) = false := by
    simp
  rw [c1] at hb
  simp only [Bool.false_eq_true, if_false] at hb
  obtain ⟨c, s6, h6, hb⟩ := bind_ok hb
  obtain ⟨hc, rfl⟩ := liftE_ok h6
  have hc' : idx (35 :: rest) 0 = .ok 35 := rfl
  rw [hc'] at hc
  cases hc
  simp only [show ((35 : UInt8) != 62) = true from rfl, if_true] at hb
  obtain ⟨rfl, rfl⟩ := pure_ok hb
  simp only [Bool.false_eq_true, if_false] at h
  obtain ⟨rfl, rfl⟩ := pure_ok h
  exact ⟨rfl, hl5, hn5.trans (hn4.trans hn), hp5.trans (hp4.trans hp), c4.trans c5⟩
theorem isBlank_hash (rest : Bytes) : isBlank (35 :: rest) = false := by
  simp [isBlank, isSpace]

/-- an indented code block does not continue on a line that starts with `#` (code_block.go:46-71) -/
theorem closesAt_code (rest : Bytes) (be : Block) (s : St) (hbp : be.bp = .code) :
    ClosesAt (35 :: rest) be s := by
  intro s1 st s2 hl hn hp h
  rw [hbp] at h
  simp only [bpContinue] at h
  unfold codeContinue at h
  obtain ⟨x, s4, h4, h⟩ := bind_ok h
  obtain ⟨rfl, hl4, hn4, hp4, c4⟩ := peekLine_atLine hl h4
  dsimp only at h
  simp only [Option.getD, isBlank_hash, Bool.false_eq_true, if_false] at h
  obtain ⟨lo, s5, h5, h⟩ := bind_ok h
  obtain ⟨hl5, hn5, hp5, c5⟩ := lineOffset_atLine hl4 h5
  simp only [indentPosition_hash rest lo 4 (by omega)] at h
  rw [if_pos (by omega)] at h
  obtain ⟨rfl, rfl⟩ := pure_ok h
  exact ⟨rfl, hl5, hn5.trans (hn4.trans hn), hp5.trans (hp4.trans hp), c4.trans c5⟩

theorem parseListItem_hash (rest : Bytes) : (parseListItem (35 :: rest)).2 = .notList := by
  simp [parseListItem, countLeading, isNumeric]

theorem matchesListItem_hash (rest : Bytes) (strict : Bool) : (matchesListItem (35 :: rest) strict).2 = .notList := by
  unfold matchesListItem
  have := parseListItem_hash rest
  dsimp only
  split <;> simp_all

/-- the last item of the list `id` is a list item with a positive content offset (true of every list the parser
    builds: list_item.go:41-44 makes the offset at least 2) -/
def LastItemIndented (nodes : List Node) (id : Nat) : Prop :=
  ∃ lc, (nodes.getD id default).children.getLast? = some lc ∧ (nodes.getD lc default).kind = .listItem ∧
    0 < (nodes.getD lc default).offset

theorem lastOffset_invI {id lc : Nat} {s : St} {v : Int} {s' : St}
    (hlc : (s.nodes.getD id default).children.getLast? = some lc) (hk : (s.nodes.getD lc default).kind = .listItem)
    (h : lastOffset id s = .ok (v, s')) : v = (s.nodes.getD lc default).offset ∧ s' = s := by
  unfold lastOffset at h
  obtain ⟨n, s1, h1, h⟩ := bind_ok h
  obtain ⟨rfl, rfl⟩ := getNode_ok h1
  rw [hlc] at h
  dsimp only at h
  obtain ⟨c, s2, h2, h⟩ := bind_ok h
  obtain ⟨rfl, rfl⟩ := getNode_ok h2
  simp only [hk, bne_self_eq_false, Bool.false_eq_true, if_false] at h
  obtain ⟨rfl, rfl⟩ := pure_ok h
  exact ⟨rfl, rfl⟩

theorem lastChildCount_invI {id : Nat} {s : St} {v : Int} {s' : St} (h : lastChildCount id s = .ok (v, s')) :
    s' = s := by
  unfold lastChildCount at h
  obtain ⟨n, s1, h1, h⟩ := bind_ok h
  obtain ⟨rfl, rfl⟩ := getNode_ok h1
  cases hc : (s1.nodes.getD id default).children.getLast? with
  | none => rw [hc] at h; exact (throw_ok h).elim
  | some lc =>
    rw [hc] at h
    obtain ⟨c, s2, h2, h⟩ := bind_ok h
    obtain ⟨rfl, rfl⟩ := getNode_ok h2
    obtain ⟨_, rfl⟩ := pure_ok h
    rfl

/-- a list does not continue on a line that starts with `#` in column 0 (list.go:165-245: the line is not
    indented to the content offset of the last item and is not a list item) -/
theorem closesAt_list (rest : Bytes) (be : Block) (s : St) (hbp : be.bp = .list)
    (hli : LastItemIndented s.nodes be.node) : ClosesAt (35 :: rest) be s := by
  intro s1 st s2 hl hn hp h
  obtain ⟨lc, hlc, hk, hoff⟩ := hli
  rw [hbp] at h
  simp only [bpContinue] at h
  unfold listContinue at h
  obtain ⟨list, s3, h3, h⟩ := bind_ok h
  obtain ⟨rfl, rfl⟩ := getNode_ok h3
  obtain ⟨x, s4, h4, h⟩ := bind_ok h
  obtain ⟨rfl, hl4, hn4, hp4, c4⟩ := peekLine_atLine hl h4
  dsimp only at h
  simp only [Option.getD, isBlank_hash, Bool.false_eq_true, if_false] at h
  have hn3 : s4.nodes = s.nodes := hn4.trans hn
  obtain ⟨offset, s5, h5, h⟩ := bind_ok h
  obtain ⟨hoffv, hs5⟩ := lastOffset_invI (by rw [hn3]; exact hlc) (by rw [hn3]; exact hk) h5
  rw [hn3] at hoffv
  obtain ⟨cnt, s6, h6, h⟩ := bind_ok h
  have hs6 := lastChildCount_invI h6
  obtain ⟨lo, s7, h7, h⟩ := bind_ok h
  rw [hs6, hs5] at h7
  obtain ⟨hl7, hn7, hp7, c7⟩ := lineOffset_atLine hl4 h7
  have hfin : ∀ (x : PState), (pure x : M PState) s7 = .ok (st, s2) → x.cont = false →
      st.cont = false ∧ AtLine (35 :: rest) s2.r ∧ s2.nodes = s.nodes ∧ s2.pc = s.pc ∧ Cur s3 s2 := by
    intro x hx hc
    obtain ⟨rfl, rfl⟩ := pure_ok hx
    exact ⟨hc, hl7, hn7.trans hn3, hp7.trans (hp4.trans hp), c4.trans c7⟩
  have hoff' : 0 < offset := by rw [hoffv]; exact hoff
  simp only [indentWidthI_hash, matchesListItem_hash, bne_self_eq_false, Bool.false_and, Bool.false_eq_true,
    if_false, hoff', decide_true, Bool.true_or, if_true, Bool.and_true, show ((0:Int) < 4) from by omega] at h
  by_cases hc : (cnt == 0) = true
  · simp only [hc, Bool.not_true, Bool.false_eq_true, if_false, if_true] at h
    exact hfin _ h rfl
  · simp only [hc, Bool.not_false, if_true] at h
    exact hfin _ h rfl
/-- the node store did not shrink and the parse context is the same -/
def GrowSamePc (s s' : St) : Prop := s.nodes.length ≤ s'.nodes.length ∧ s'.pc = s.pc

theorem growSamePc_prims : FrPrims GrowSamePc where
  refl := fun _ => ⟨Nat.le_refl _, rfl⟩
  trans := fun h1 h2 => ⟨Nat.le_trans h1.1 h2.1, h2.2.trans h1.2⟩
  modNode := fun s id f => ⟨by simp, rfl⟩
  newNode := fun s n => ⟨by simp, rfl⟩

theorem Ret.apply {α} {m : M α} {Q : α → Prop} {s : St} {a : α} {s' : St} (h : m s = .ok (a, s')) (hm : Ret m Q) :
    Q a := hm.h s a s' h

/-- atxHeadingParser.Open on the line `# …` with BlockOffset 0 opens a heading: the value is the fresh node -/
theorem atxOpen_heading (rest : Bytes) (s : St) (parent : Nat) (hl : AtLine (35 :: 32 :: rest) s.r)
    (hbo : s.pc.blockOffset = 0) (x : Option Nat × PState) (s' : St) (h : atxOpen parent s = .ok (x, s')) :
    x = (some s.nodes.length, stNoChildren) ∧ s'.pc = s.pc ∧ s.nodes.length < s'.nodes.length ∧ Cur s s' := by
  unfold atxOpen at h
  obtain ⟨y, s1, h1, h⟩ := bind_ok h
  obtain ⟨rfl, hl1, hn1, hp1, cu1⟩ := peekLine_atLine hl h1
  dsimp only at h
  obtain ⟨pc, s2, h2, h⟩ := bind_ok h
  obtain ⟨hpc, rfl⟩ := getPc_ok h2
  have hbo1 : pc.blockOffset = 0 := by rw [hpc, hp1]; exact hbo
  subst hpc
  simp only [hbo1, Option.getD] at h
  have hscan : scanWhileEq (35 :: 32 :: rest) 35 0 = 1 := by simp [scanWhileEq, countLeading]
  simp only [hscan] at h
  rw [if_neg (by omega)] at h
  have c1 : ((1:Int) == 0 || decide ((1:Int) - 0 > 6)) = false := by decide
  rw [c1] at h
  simp only [Bool.false_eq_true, if_false] at h
  have c2 : ((1:Int) == ((35 :: 32 :: rest : Bytes).length : Int)) = false := by
    simp only [List.length_cons, beq_eq_false_iff_ne, ne_eq]; omega
  rw [c2] at h
  simp only [Bool.false_eq_true, if_false] at h
  obtain ⟨sl, s3, h3, h⟩ := bind_ok h
  obtain ⟨hsl, rfl⟩ := liftE_ok h3
  have hsl' : sliceFrom (35 :: 32 :: rest) 1 = .ok (32 :: rest) := by
    simp [sliceFrom]; omega
  rw [hsl'] at hsl
  cases hsl
  have c3 : (((trimLeftSpaceLength (32 :: rest) : Nat) : Int) == 0) = false := by
    simp [trimLeftSpaceLength, isSpace]; omega
  rw [c3] at h
  simp only [Bool.false_eq_true, if_false] at h
  obtain ⟨node, s4, h4, h⟩ := bind_ok h
  obtain ⟨hnode, hs4⟩ := newNode_ok h4
  have hR := growSamePc_prims
  have hfr : GrowSamePc s4 s' := by
    refine IFr.apply h ?_
    frame
  have hret : x = (some node, stNoChildren) := by
    refine Ret.apply (Q := fun x => x = (some node, stNoChildren)) h ?_
    ret
  have hR2 := sameReader_prims
  have hsr : SameReader s4 s' := by
    refine IFr.apply h ?_
    frame
  have hcur : Cur s s' := by
    refine cu1.trans (Cur.of_sameReader ?_)
    unfold SameReader at hsr ⊢
    rw [hsr, hs4]
  refine ⟨by rw [hret, hnode, hn1], by rw [hfr.2, hs4, hp1], ?_, hcur⟩
  have := hfr.1
  rw [hs4] at this
  simp only [List.length_append, List.length_cons, List.length_nil] at this
  rw [hn1] at this
  omega
/-- what the open-block stack looks like after the heading was opened: the heading is pushed, possibly after the
    last open block was popped (parser.go:996-1001: a paragraph that removed itself from the tree) -/
def HeadingPushed (s s' : St) : Prop :=
  s'.pc.opened = s.pc.opened ++ [⟨s.nodes.length, .atx⟩] ∨
  (s.pc.opened ≠ [] ∧ s'.pc.opened = s.pc.opened.take (s.pc.opened.length - 1) ++ [⟨s.nodes.length, .atx⟩])

theorem lastOpenedBlock_ok {s : St} {a : Option Block} {s' : St} (h : lastOpenedBlock s = .ok (a, s')) :
    a = s.pc.opened.getLast? ∧ s' = s := by
  unfold lastOpenedBlock at h
  obtain ⟨pc, s1, h1, h⟩ := bind_ok h
  obtain ⟨rfl, rfl⟩ := getPc_ok h1
  obtain ⟨rfl, rfl⟩ := pure_ok h
  exact ⟨rfl, rfl⟩

theorem push_tail {α} (hd : Nat) (v : α) (s3 : St) (x : α) (s' : St)
    (h : (appendChild 0 hd >>= fun _ => modPc (fun pc => { pc with opened := pc.opened ++ [{ node := hd, bp := BP.atx }] })
      >>= fun _ => (pure v : M α)) s3 = .ok (x, s')) :
    x = v ∧ s'.pc.opened = s3.pc.opened ++ [⟨hd, .atx⟩] ∧ s3.nodes.length ≤ s'.nodes.length ∧
      s'.pc.skipList = s3.pc.skipList ∧ s'.pc.emptyItemBlank = s3.pc.emptyItemBlank ∧ s'.r = s3.r := by
  obtain ⟨u, s4, h4, h⟩ := bind_ok h
  have hg : GrowSamePc s3 s4 := IFr.apply h4 (appendChild_frI growSamePc_prims 0 hd)
  have hsr : SameReader s3 s4 := IFr.apply h4 (appendChild_frI sameReader_prims 0 hd)
  obtain ⟨u2, s5, h5, h⟩ := bind_ok h
  have hs5 := modPc_ok h5
  obtain ⟨rfl, rfl⟩ := pure_ok h
  subst hs5
  refine ⟨rfl, ?_, hg.1, ?_, ?_, hsr⟩
  · show s4.pc.opened ++ _ = _; rw [hg.2]
  · show s4.pc.skipList = _; rw [hg.2]
  · show s4.pc.emptyItemBlank = _; rw [hg.2]

theorem tryParsers_heading (rest : Bytes) (blank cont : Bool) (lb : Option Block) (s : St)
    (hl : AtLine (35 :: 32 :: rest) s.r) (hbo : s.pc.blockOffset = 0)
    (x : TryOutcome × OpenResult × Option Block) (s' : St)
    (h : tryParsers 0 blank cont 0 [.atx, .code, .paragraph] .noBlocksOpened lb s = .ok (x, s')) :
    (match x.1 with | .done => True | .retry _ => False) ∧ x.2.1 = .newBlocksOpened ∧ HeadingPushed s s' ∧
      s.nodes.length < s'.nodes.length ∧ s'.pc.skipList = s.pc.skipList ∧
      s'.pc.emptyItemBlank = s.pc.emptyItemBlank ∧ Cur s s' := by
  unfold tryParsers at h
  simp only [BP.canInterruptParagraph, Bool.not_true, Bool.and_false, Bool.false_eq_true, if_false,
    show ¬ ((0:Int) > 3) from by omega, decide_false, Bool.false_and] at h
  obtain ⟨lb', s1, h1, h⟩ := bind_ok h
  obtain ⟨rfl, rfl⟩ := lastOpenedBlock_ok h1
  obtain ⟨y, s2, h2, h⟩ := bind_ok h
  simp only [bpOpen] at h2
  obtain ⟨rfl, hp2, hn2, cu2⟩ := atxOpen_heading rest s1 0 hl hbo y s2 h2
  simp only [stNoChildren, Bool.false_eq_true, if_false] at h
  obtain ⟨u, s3, h3, h⟩ := bind_ok h
  have hs3 := modNode_ok h3
  have hp3 : s3.pc = s1.pc := by rw [hs3]; exact hp2
  have hn3 : s1.nodes.length < s3.nodes.length := by rw [hs3]; simpa using hn2
  have cu3 : Cur s1 s3 := by rw [hs3]; exact cu2
  cases hlast : s1.pc.opened.getLast? with
  | none =>
    rw [hlast] at h
    simp only [Option.map] at h
    obtain ⟨rfl, ho, hn, hk1, hk2, hr⟩ := push_tail _ _ s3 x s' h
    refine ⟨trivial, rfl, .inl (by rw [ho, hp3]), by omega, by rw [hk1, hp3], by rw [hk2, hp3],
      cu3.trans (Cur.of_sameReader hr)⟩
  | some lb =>
    rw [hlast] at h
    simp only [Option.map] at h
    obtain ⟨ln, s4, h4, k1⟩ := bind_ok h
    obtain ⟨_, e4⟩ := getNode_ok h4
    rw [e4] at k1
    split at k1
    · obtain ⟨pc, s5, h5, k2⟩ := bind_ok k1
      obtain ⟨epc, e5⟩ := getPc_ok h5
      rw [e5, epc] at k2
      obtain ⟨u, s6, h6, k3⟩ := bind_ok k2
      obtain ⟨_, ho6⟩ := closeBlocks_opened _ _ _ _ h6
      have hg6 : NodesGrow s3 s6 := IFr.apply h6 (closeBlocks_nodesGrow _ _)
      have hk6 : SameListKeys s3 s6 := IFr.apply h6 (closeBlocks_sameListKeys _ _)
      have hr6 : SameReader s3 s6 := IFr.apply h6 (closeBlocks_sameReader _ _)
      obtain ⟨rfl, ho, hn, hk1, hk2, hr⟩ := push_tail _ _ s6 x s' k3
      have hne : s1.pc.opened ≠ [] := by intro e; rw [e] at hlast; cases hlast
      have hlen : 0 < s1.pc.opened.length := List.length_pos_iff.mpr hne
      refine ⟨trivial, rfl, .inr ⟨hne, ?_⟩, ?_, by rw [hk1, hk6.1, hp3], by rw [hk2, hk6.2, hp3],
        cu3.trans ((Cur.of_sameReader hr6).trans (Cur.of_sameReader hr))⟩
      · rw [ho, ho6, hp3]
        congr 1
        have e1 : ((s1.pc.opened.length : Int) - 1).toNat = s1.pc.opened.length - 1 := by omega
        have e2 : ((s1.pc.opened.length : Int) - 1 + 1).toNat = s1.pc.opened.length := by omega
        rw [e1, e2, List.drop_length, List.append_nil]
      · have := hg6; unfold NodesGrow at this; omega
    · obtain ⟨rfl, ho, hn, hk1, hk2, hr⟩ := push_tail _ _ s3 x s' k1
      refine ⟨trivial, rfl, .inl (by rw [ho, hp3]), by omega, by rw [hk1, hp3], by rw [hk2, hp3],
        cu3.trans (Cur.of_sameReader hr)⟩
theorem openBlocksLoop_heading (rest : Bytes) (blank cont : Bool) (fuel : Nat) (lb : Option Block) (s : St)
    (hl : AtLine (35 :: 32 :: rest) s.r) (res : OpenResult) (s' : St)
    (h : openBlocksLoop blank cont (fuel + 1) 0 .noBlocksOpened lb s = .ok (res, s')) :
    res = .newBlocksOpened ∧ HeadingPushed s s' ∧ s.nodes.length < s'.nodes.length ∧
      s'.pc.skipList = s.pc.skipList ∧ s'.pc.emptyItemBlank = s.pc.emptyItemBlank ∧ Cur s s' := by
  unfold openBlocksLoop at h
  obtain ⟨y, s1, h1, k1⟩ := bind_ok h
  obtain ⟨rfl, hl1, hn1, hp1, cu1⟩ := peekLine_atLine hl h1
  dsimp only at k1
  obtain ⟨lo, s2, h2, k2⟩ := bind_ok k1
  obtain ⟨hl2, hn2, hp2, cu2⟩ := lineOffset_atLine hl1 h2
  simp only [Option.getD, indentWidthI_hash] at k2
  obtain ⟨u, s3, h3, k3⟩ := bind_ok k2
  have e3 := modPc_ok h3
  have hlen : ¬ ((0:Int) ≥ ((35 :: 32 :: rest : Bytes).length : Int)) := by
    simp only [List.length_cons]; omega
  rw [if_neg hlen] at e3
  have hidx : idx (35 :: 32 :: rest) 0 = .ok 35 := rfl
  have htrig : triggered 35 = some [.atx, .code, .paragraph] := by decide
  simp only [Option.isNone, Bool.false_eq_true, if_false, hidx] at k3
  obtain ⟨c, s4, h4, k4⟩ := bind_ok k3
  obtain ⟨ec, e4⟩ := liftE_ok h4
  cases ec
  simp only [show ((35:UInt8) == 10) = false from rfl, Bool.false_eq_true, if_false,
    if_pos (show (0:Int) < ((35 :: 32 :: rest : Bytes).length : Int) from by simp only [List.length_cons]; omega)] at k4
  obtain ⟨c', s5, h5, k5⟩ := bind_ok k4
  obtain ⟨ec', e5⟩ := liftE_ok h5
  cases ec'
  obtain ⟨bps, s6, h6, k6⟩ := bind_ok k5
  obtain ⟨ebps, e6⟩ := pure_ok h6
  rw [htrig] at ebps
  obtain ⟨s0, s7, h7, k7⟩ := bind_ok k6
  have e7 : s7 = s6 := by cases h7; rfl
  obtain ⟨x, s8, h8, k8⟩ := bind_ok k7
  rw [ebps, e7, e6, e5, e4] at h8
  have hl3 : AtLine (35 :: 32 :: rest) s3.r := by rw [e3]; exact hl2
  have hbo3 : s3.pc.blockOffset = 0 := by rw [e3]
  obtain ⟨hdone, hres, hpush, hnl, hk1, hk2, cu8⟩ := tryParsers_heading rest blank cont lb s3 hl3 hbo3 x s8 h8
  have cu3 : Cur s s3 := by
    have : Cur s2 s3 := by rw [e3]; exact ⟨rfl, rfl⟩
    exact (cu1.trans cu2).trans this
  have ho3 : s3.pc.opened = s.pc.opened := by rw [e3]; show s2.pc.opened = _; rw [hp2, hp1]
  have hn3 : s3.nodes = s.nodes := by rw [e3]; show s2.nodes = _; rw [hn2, hn1]
  have hs3 : s3.pc.skipList = s.pc.skipList := by rw [e3]; show s2.pc.skipList = _; rw [hp2, hp1]
  have he3 : s3.pc.emptyItemBlank = s.pc.emptyItemBlank := by rw [e3]; show s2.pc.emptyItemBlank = _; rw [hp2, hp1]
  cases hx : x.1 with
  | retry p => rw [hx] at hdone; exact hdone.elim
  | done =>
    rw [hx] at k8
    dsimp only at k8
    unfold toContinuable at k8
    rw [hres] at k8
    simp only [show (OpenResult.newBlocksOpened == OpenResult.noBlocksOpened) = false from rfl, Bool.false_and,
      Bool.false_eq_true, if_false] at k8
    obtain ⟨rfl, rfl⟩ := pure_ok k8
    refine ⟨rfl, ?_, by rw [← hn3]; exact hnl, by rw [hk1, hs3], by rw [hk2, he3], cu3.trans cu8⟩
    unfold HeadingPushed at hpush ⊢
    rw [ho3, hn3] at hpush
    exact hpush
/-- parser.openBlocks (parser.go:928-1024) under the Document on the line `# …`: the heading is opened -/
theorem openBlocks_heading (rest : Bytes) (blank : Bool) (s : St)
    (hl : AtLine (35 :: 32 :: rest) s.r) (res : OpenResult) (s' : St)
    (h : openBlocks 0 blank s = .ok (res, s')) :
    res = .newBlocksOpened ∧ HeadingPushed s s' ∧ s.nodes.length < s'.nodes.length ∧
      s'.pc.skipList = s.pc.skipList ∧ s'.pc.emptyItemBlank = s.pc.emptyItemBlank ∧ Cur s s' := by
  unfold openBlocks at h
  obtain ⟨lb, s1, h1, k1⟩ := bind_ok h
  obtain ⟨_, e1⟩ := lastOpenedBlock_ok h1
  rw [e1] at k1
  have fin : ∀ cont, (do let v ← source; openBlocksLoop blank cont (retryFuel v) 0 OpenResult.noBlocksOpened lb : M OpenResult) s
      = .ok (res, s') → res = .newBlocksOpened ∧ HeadingPushed s s' ∧ s.nodes.length < s'.nodes.length ∧
      s'.pc.skipList = s.pc.skipList ∧ s'.pc.emptyItemBlank = s.pc.emptyItemBlank ∧ Cur s s' := by
    intro cont k2
    obtain ⟨v, s3, h3, k3⟩ := bind_ok k2
    have e3 : s3 = s := by cases h3; rfl
    rw [e3] at k3
    exact openBlocksLoop_heading rest blank cont (2 * v.length + 7) lb s hl res s' k3
  dsimp only at k1
  cases lb with
  | none =>
    dsimp only at k1
    obtain ⟨cont, s2, h2, k2⟩ := bind_ok k1
    obtain ⟨_, e2⟩ := pure_ok h2
    rw [e2] at k2
    exact fin cont k2
  | some b =>
    dsimp only at k1
    obtain ⟨n, s2, h2, k2⟩ := bind_ok k1
    obtain ⟨_, e2⟩ := getNode_ok h2
    rw [e2] at k2
    obtain ⟨cont, s3, h3, k3⟩ := bind_ok k2
    obtain ⟨_, e3⟩ := pure_ok h3
    rw [e3] at k3
    exact fin cont k3
theorem blockAt_okI {l : List Block} {i : Int} {b : Block} (h : blockAt l i = .ok b) :
    0 ≤ i ∧ l[i.toNat]? = some b := by
  unfold blockAt at h
  split at h
  · cases h
  · rename_i hi
    cases hg : l[i.toNat]? with
    | none => rw [hg] at h; cases h
    | some x => rw [hg] at h; cases h; exact ⟨by omega, rfl⟩

/-- the end of the pass (parser.go:1106-1122): after `openBlocks` pushed the heading, `closeBlocks` removes every
    block that was open before -/
theorem unwind_tail (rest : Bytes) (s sA sB sC : St) (be : Block) (obs : List Block) (blank : Bool)
    (hl : AtLine (35 :: 32 :: rest) sA.r) (hnA : sA.nodes = s.nodes) (hpA : sA.pc = s.pc)
    (hop : s.pc.opened = be :: obs) (hids : ∀ b ∈ be :: obs, b.node < s.nodes.length)
    (lastNode : Block) (hln : blockAt (be :: obs) (obs.length : Int) = .ok lastNode)
    (res : OpenResult) (hopen : openBlocks 0 blank sA = .ok (res, sB))
    (hclose : closeBlocks
      (if (Option.map (fun x => x.node) (slotAfter (be :: obs) sB.pc.opened ((obs.length : Int)).toNat) !=
          some lastNode.node) = true then (obs.length : Int) - 1 else (obs.length : Int)) 0 sB = .ok ((), sC)) :
    res = .newBlocksOpened ∧ sC.pc.opened = [⟨s.nodes.length, .atx⟩] ∧ s.nodes.length < sC.nodes.length ∧
      sC.pc.skipList = s.pc.skipList ∧ sC.pc.emptyItemBlank = s.pc.emptyItemBlank ∧ Cur sA sC := by
  obtain ⟨hres, hpush, hgrow, hk1, hk2, cuB⟩ := openBlocks_heading rest blank sA hl res sB hopen
  obtain ⟨_, hlast⟩ := blockAt_okI hln
  simp only [Int.toNat_natCast] at hlast hclose
  have hmem : lastNode ∈ be :: obs := List.mem_of_getElem? hlast
  have hlt : lastNode.node < s.nodes.length := hids _ hmem
  have hgC : NodesGrow sB sC := IFr.apply hclose (closeBlocks_nodesGrow _ _)
  have hkC : SameListKeys sB sC := IFr.apply hclose (closeBlocks_sameListKeys _ _)
  have hrC : SameReader sB sC := IFr.apply hclose (closeBlocks_sameReader _ _)
  obtain ⟨_, hoC⟩ := closeBlocks_opened _ _ _ _ hclose
  rw [hpA] at hk1 hk2
  rw [hnA] at hgrow
  refine ⟨hres, ?_, by have := hgC; unfold NodesGrow at this; omega, by rw [hkC.1, hk1], by rw [hkC.2, hk2],
    cuB.trans (Cur.of_sameReader hrC)⟩
  unfold HeadingPushed at hpush
  rw [hpA, hop, hnA] at hpush
  rcases hpush with hA | ⟨_, hB⟩
  · -- the heading was pushed on top of the old stack
    have hslot : slotAfter (be :: obs) sB.pc.opened obs.length = some lastNode := by
      unfold slotAfter
      rw [hA, List.getElem?_append_left (by simp), hlast]
    have hidx : (if (Option.map (fun x => x.node) (slotAfter (be :: obs) sB.pc.opened obs.length) !=
        some lastNode.node) = true then (obs.length : Int) - 1 else (obs.length : Int)) = obs.length := by
      rw [hslot]; simp
    rw [hidx] at hoC
    rw [hoC, hA]
    have : ((obs.length : Int) + 1).toNat = (be :: obs).length := by simp only [List.length_cons]; omega
    rw [this, List.drop_left]
    simp
  · -- the last open block was popped first
    have hB' : sB.pc.opened = (be :: obs).take obs.length ++ [⟨s.nodes.length, .atx⟩] := by
      rw [hB]; simp
    have hlenT : ((be :: obs).take obs.length).length = obs.length := by simp
    have hslot : slotAfter (be :: obs) sB.pc.opened obs.length = some ⟨s.nodes.length, .atx⟩ := by
      unfold slotAfter
      rw [hB', List.getElem?_append_right (by omega), hlenT]
      simp
    have hidx : (if (Option.map (fun x => x.node) (slotAfter (be :: obs) sB.pc.opened obs.length) !=
        some lastNode.node) = true then (obs.length : Int) - 1 else (obs.length : Int)) = (obs.length : Int) - 1 := by
      rw [hslot]
      have hne : ((some s.nodes.length : Option Nat) != some lastNode.node) = true := by
        simp only [bne_iff_ne, ne_eq, Option.some.injEq]; omega
      simp only [Option.map, hne, if_true]
    rw [hidx] at hoC
    rw [hoC, hB']
    have : ((obs.length : Int) - 1 + 1).toNat = ((be :: obs).take obs.length).length := by rw [hlenT]; omega
    rw [this, List.drop_left]
    simp
/-- **Reset, first step** (parser.go:1081-1123, one pass of the line loop): the reader stands on a non-indented
    ATX heading line `# …`; at least one block is open; the first open block is a paragraph or does not continue on
    this line (`ClosesAt`: block quotes, lists whose last item is indented, indented code blocks, headings and
    thematic breaks — see `closesAt_*`); the open blocks are valid node ids. Then, if the pass ends normally, it
    ends with EXACTLY ONE open block, the new heading (a fresh node), whatever and however many blocks were open
    before — and the list parser's two cross-line flags are untouched. From any state, reachable or not. -/
theorem headingLine_unwinds (rest : Bytes) (s : St) (be : Block) (obs : List Block) (stats : List LineStat)
    (hl : AtLine (35 :: 32 :: rest) s.r)
    (hop : s.pc.opened = be :: obs)
    (hids : ∀ b ∈ be :: obs, b.node < s.nodes.length)
    (hfirst : (s.nodes.getD be.node default).kind = .paragraph ∨ ClosesAt (35 :: 32 :: rest) be s)
    (out : LineOutcome) (stats' : List LineStat) (s' : St)
    (h : lineLoop 0 (be :: obs) (obs.length : Int) (be :: obs) 0 stats s = .ok ((out, stats'), s')) :
    out = .next ∧ s'.pc.opened = [⟨s.nodes.length, .atx⟩] ∧ s.nodes.length < s'.nodes.length ∧
      s'.pc.skipList = s.pc.skipList ∧ s'.pc.emptyItemBlank = s.pc.emptyItemBlank ∧ Cur s s' := by
  unfold lineLoop at h
  obtain ⟨y, s1, h1, k1⟩ := bind_ok h
  obtain ⟨rfl, hl1, hn1, hp1, cu1⟩ := peekLine_atLine hl h1
  dsimp only at k1
  obtain ⟨pos, s2, h2, k2⟩ := bind_ok k1
  have e2 : s2 = s1 := by cases h2; rfl
  rw [e2] at k2
  obtain ⟨beNode, s3, h3, k3⟩ := bind_ok k2
  obtain ⟨eb, e3⟩ := getNode_ok h3
  rw [e3] at k3
  have hn1' : s1.nodes = s.nodes := hn1
  -- the fall-through part of the pass, from a state that still has the store and the context of `s`
  have tail : ∀ (sA : St) (blank : Bool) (stv : List LineStat), AtLine (35 :: 32 :: rest) sA.r → sA.nodes = s.nodes →
      sA.pc = s.pc → Cur s sA →
      (do let thisParent ← (pure 0 : M Nat)
          let lastNode ← liftE (blockAt (be :: obs) (obs.length : Int))
          let result ← openBlocks thisParent blank
          if (result != OpenResult.paragraphContinuation) = true then do
              let __do_lift ← getPc
              closeBlocks
                  (if (Option.map (fun x => x.node) (slotAfter (be :: obs) __do_lift.opened ((obs.length : Int)).toNat) !=
                        some lastNode.node) = true then (obs.length : Int) - 1 else (obs.length : Int)) 0
              pure (LineOutcome.next, stv)
            else pure (LineOutcome.next, stv) : M (LineOutcome × List LineStat)) sA = .ok ((out, stats'), s') →
      out = .next ∧ s'.pc.opened = [⟨s.nodes.length, .atx⟩] ∧ s.nodes.length < s'.nodes.length ∧
        s'.pc.skipList = s.pc.skipList ∧ s'.pc.emptyItemBlank = s.pc.emptyItemBlank ∧ Cur s s' := by
    intro sA blank stv hlA hnA hpA cuA k
    obtain ⟨tp, sB, hB, kB⟩ := bind_ok k
    obtain ⟨rfl, eB⟩ := pure_ok hB
    rw [eB] at kB
    obtain ⟨lastNode, sC, hC, kC⟩ := bind_ok kB
    obtain ⟨hln, eC⟩ := liftE_ok hC
    rw [eC] at kC
    obtain ⟨res, sD, hD, kD⟩ := bind_ok kC
    obtain ⟨hres, _⟩ := openBlocks_heading rest blank sA hlA res sD hD
    rw [hres] at kD
    simp only [show (OpenResult.newBlocksOpened != OpenResult.paragraphContinuation) = true from rfl, if_true] at kD
    obtain ⟨pc, sE, hE, kE⟩ := bind_ok kD
    obtain ⟨epc, eE⟩ := getPc_ok hE
    rw [eE, epc] at kE
    obtain ⟨u, sF, hF, kF⟩ := bind_ok kE
    obtain ⟨eo, eF⟩ := pure_ok kF
    obtain ⟨_, h2, h3, h4, h5, h6⟩ := unwind_tail rest s sA sD sF be obs blank hlA hnA hpA hop hids lastNode hln res hD hF
    cases eo
    rw [eF]
    exact ⟨rfl, h2, h3, h4, h5, cuA.trans h6⟩
  by_cases hkind : (s.nodes.getD be.node default).kind = .paragraph
  · have hk : (beNode.kind != Kind.paragraph) = false := by rw [eb, hn1, hkind]; rfl
    rw [hk] at k3
    simp only [Bool.false_eq_true, if_false, Bool.not_true, bne_self_eq_false] at k3
    exact tail s1 _ _ hl1 hn1 hp1 cu1 k3
  · have hcl : ClosesAt (35 :: 32 :: rest) be s := by
      rcases hfirst with h | h
      · exact absurd h hkind
      · exact h
    have hk : (beNode.kind != Kind.paragraph) = true := by
      rw [eb, hn1]; simp only [bne_iff_ne, ne_eq]; exact hkind
    rw [hk] at k3
    simp only [if_true] at k3
    obtain ⟨st, s4, h4, k4⟩ := bind_ok k3
    obtain ⟨hcont, hl4, hn4, hp4, cu4⟩ := hcl s1 st s4 hl1 hn1 hp1 h4
    rw [hcont] at k4
    simp only [Bool.false_eq_true, if_false, Bool.not_true, bne_self_eq_false] at k4
    exact tail s4 _ _ hl4 hn4 hp4 (cu1.trans cu4) k4
/-! ### the blank line after the heading -/

theorem indentWidthI_nl (cur : Int) : indentWidthI [10] cur = (0, 0) := by
  simp [indentWidthI, indentWidthGo]

/-- parser.openBlocks on the blank line `\n` when the last open block is an ATX heading: nothing is opened,
    nothing is continued -/
theorem openBlocks_blank (parent : Nat) (blank : Bool) (s : St) (hd : Nat) (pre : List Block)
    (hl : AtLine [10] s.r) (hop : s.pc.opened = pre ++ [⟨hd, .atx⟩]) (res : OpenResult) (s' : St)
    (h : openBlocks parent blank s = .ok (res, s')) :
    res = .noBlocksOpened ∧ s'.pc.opened = s.pc.opened ∧ s'.nodes = s.nodes ∧
      s'.pc.skipList = s.pc.skipList ∧ s'.pc.emptyItemBlank = s.pc.emptyItemBlank ∧ Cur s s' := by
  unfold openBlocks at h
  obtain ⟨lb, s1, h1, k1⟩ := bind_ok h
  obtain ⟨elb, e1⟩ := lastOpenedBlock_ok h1
  rw [e1] at k1
  have hlb : lb = some ⟨hd, .atx⟩ := by rw [elb, hop]; simp
  have fin : ∀ cont, (do let v ← source; openBlocksLoop blank cont (retryFuel v) parent OpenResult.noBlocksOpened lb : M OpenResult) s
      = .ok (res, s') → res = .noBlocksOpened ∧ s'.pc.opened = s.pc.opened ∧ s'.nodes = s.nodes ∧
      s'.pc.skipList = s.pc.skipList ∧ s'.pc.emptyItemBlank = s.pc.emptyItemBlank ∧ Cur s s' := by
    intro cont k2
    obtain ⟨v, s3, h3, k3⟩ := bind_ok k2
    have e3 : s3 = s := by cases h3; rfl
    rw [e3] at k3
    have hf : retryFuel v = (2 * v.length + 7) + 1 := rfl
    rw [hf] at k3
    unfold openBlocksLoop at k3
    obtain ⟨y, s4, h4, k4⟩ := bind_ok k3
    obtain ⟨rfl, hl4, hn4, hp4, cu4⟩ := peekLine_atLine hl h4
    dsimp only at k4
    obtain ⟨lo, s5, h5, k5⟩ := bind_ok k4
    obtain ⟨hl5, hn5, hp5, cu5⟩ := lineOffset_atLine hl4 h5
    simp only [Option.getD, indentWidthI_nl] at k5
    obtain ⟨u, s6, h6, k6⟩ := bind_ok k5
    have e6 := modPc_ok h6
    have hidx : idx [10] 0 = .ok 10 := rfl
    simp only [Option.isNone, Bool.false_eq_true, if_false, hidx] at k6
    obtain ⟨c, s7, h7, k7⟩ := bind_ok k6
    obtain ⟨ec, e7⟩ := liftE_ok h7
    cases ec
    simp only [beq_self_eq_true, if_true] at k7
    rw [e7] at k7
    unfold toContinuable at k7
    rw [hlb] at k7
    have hres : res = .noBlocksOpened ∧ s' = s6 := by
      cases cont
      · simp only [Bool.and_false, Bool.false_eq_true, if_false] at k7
        exact pure_ok k7
      · simp only [beq_self_eq_true, Bool.and_true, if_true, bpContinue] at k7
        obtain ⟨st, s8, h8, k8⟩ := bind_ok k7
        obtain ⟨est, e8⟩ := pure_ok h8
        rw [est, e8] at k8
        simp only [stClose, Bool.false_eq_true] at k8
        exact pure_ok k8
    obtain ⟨hr, hs'⟩ := hres
    have hp6 : s6.pc.opened = s.pc.opened ∧ s6.pc.skipList = s.pc.skipList ∧
        s6.pc.emptyItemBlank = s.pc.emptyItemBlank := by
      rw [e6]
      have : s5.pc = s.pc := hp5.trans hp4
      refine ⟨?_, ?_, ?_⟩ <;> (dsimp only; split <;> rw [← this])
    have cu6 : Cur s s6 := by
      have : Cur s5 s6 := by rw [e6]; exact ⟨rfl, rfl⟩
      exact (cu4.trans cu5).trans this
    refine ⟨hr, by rw [hs']; exact hp6.1, by rw [hs', e6]; exact hn5.trans hn4, by rw [hs']; exact hp6.2.1,
      by rw [hs']; exact hp6.2.2, by rw [hs']; exact cu6⟩
  dsimp only at k1
  cases lb with
  | none =>
    dsimp only at k1
    obtain ⟨cont, s2, h2, k2⟩ := bind_ok k1
    obtain ⟨_, e2⟩ := pure_ok h2
    rw [e2] at k2
    exact fin cont k2
  | some b =>
    dsimp only at k1
    obtain ⟨n, s2, h2, k2⟩ := bind_ok k1
    obtain ⟨_, e2⟩ := getNode_ok h2
    rw [e2] at k2
    obtain ⟨cont, s3, h3, k3⟩ := bind_ok k2
    obtain ⟨_, e3⟩ := pure_ok h3
    rw [e3] at k3
    exact fin cont k3
/-- **Reset, second step**: the pass of the line loop over the blank line `\n` that follows the heading, when the
    heading is the only open block, closes it: no block is open afterwards, the node store has not shrunk and the
    list parser's flags are untouched. From any state. -/
theorem blankLine_closes_heading (s : St) (hd : Nat) (stats : List LineStat)
    (hl : AtLine [10] s.r) (hop : s.pc.opened = [⟨hd, .atx⟩])
    (out : LineOutcome) (stats' : List LineStat) (s' : St)
    (h : lineLoop 0 [⟨hd, .atx⟩] 0 [⟨hd, .atx⟩] 0 stats s = .ok ((out, stats'), s')) :
    out = .next ∧ s'.pc.opened = [] ∧ s.nodes.length ≤ s'.nodes.length ∧
      s'.pc.skipList = s.pc.skipList ∧ s'.pc.emptyItemBlank = s.pc.emptyItemBlank ∧ Cur s s' := by
  unfold lineLoop at h
  obtain ⟨y, s1, h1, k1⟩ := bind_ok h
  obtain ⟨rfl, hl1, hn1, hp1, cu1⟩ := peekLine_atLine hl h1
  dsimp only at k1
  obtain ⟨pos, s2, h2, k2⟩ := bind_ok k1
  have e2 : s2 = s1 := by cases h2; rfl
  rw [e2] at k2
  obtain ⟨beNode, s3, h3, k3⟩ := bind_ok k2
  obtain ⟨eb, e3⟩ := getNode_ok h3
  rw [e3] at k3
  have tail : ∀ (sA : St) (blank : Bool) (stv : List LineStat), AtLine [10] sA.r → sA.nodes = s.nodes →
      sA.pc = s.pc → Cur s sA →
      (do let thisParent ← (pure 0 : M Nat)
          let lastNode ← liftE (blockAt [⟨hd, .atx⟩] 0)
          let result ← openBlocks thisParent blank
          if (result != OpenResult.paragraphContinuation) = true then do
              let __do_lift ← getPc
              closeBlocks
                  (if (Option.map (fun x => x.node) (slotAfter [⟨hd, .atx⟩] __do_lift.opened (0 : Int).toNat) !=
                        some lastNode.node) = true then (0 : Int) - 1 else (0 : Int)) 0
              pure (LineOutcome.next, stv)
            else pure (LineOutcome.next, stv) : M (LineOutcome × List LineStat)) sA = .ok ((out, stats'), s') →
      out = .next ∧ s'.pc.opened = [] ∧ s.nodes.length ≤ s'.nodes.length ∧
        s'.pc.skipList = s.pc.skipList ∧ s'.pc.emptyItemBlank = s.pc.emptyItemBlank ∧ Cur s s' := by
    intro sA blank stv hlA hnA hpA cuA k
    obtain ⟨tp, sB, hB, kB⟩ := bind_ok k
    obtain ⟨rfl, eB⟩ := pure_ok hB
    rw [eB] at kB
    obtain ⟨lastNode, sC, hC, kC⟩ := bind_ok kB
    obtain ⟨hln, eC⟩ := liftE_ok hC
    have hln' : lastNode = ⟨hd, .atx⟩ := by cases hln; rfl
    rw [eC] at kC
    obtain ⟨res, sD, hD, kD⟩ := bind_ok kC
    have hopA : sA.pc.opened = [] ++ [⟨hd, .atx⟩] := by rw [hpA, hop]; rfl
    obtain ⟨hres, hoD, hnD, hk1, hk2, cuD⟩ := openBlocks_blank 0 blank sA hd [] hlA hopA res sD hD
    rw [hres] at kD
    simp only [show (OpenResult.noBlocksOpened != OpenResult.paragraphContinuation) = true from rfl, if_true] at kD
    obtain ⟨pc, sE, hE, kE⟩ := bind_ok kD
    obtain ⟨epc, eE⟩ := getPc_ok hE
    rw [eE, epc] at kE
    obtain ⟨u, sF, hF, kF⟩ := bind_ok kE
    obtain ⟨eo, eF⟩ := pure_ok kF
    have hoD' : sD.pc.opened = [⟨hd, .atx⟩] := by rw [hoD, hopA]; rfl
    rw [hoD', hln'] at hF
    have hidx : (if (Option.map (fun x => x.node) (slotAfter [(⟨hd, .atx⟩ : Block)] [⟨hd, .atx⟩] (0 : Int).toNat) !=
        some (⟨hd, .atx⟩ : Block).node) = true then (0 : Int) - 1 else (0 : Int)) = 0 := by
      simp [slotAfter]
    rw [hidx] at hF
    obtain ⟨_, hoF⟩ := closeBlocks_opened _ _ _ _ hF
    have hgF : NodesGrow sD sF := IFr.apply hF (closeBlocks_nodesGrow _ _)
    have hkF : SameListKeys sD sF := IFr.apply hF (closeBlocks_sameListKeys _ _)
    have hrF : SameReader sD sF := IFr.apply hF (closeBlocks_sameReader _ _)
    cases eo
    rw [eF]
    refine ⟨rfl, ?_, ?_, by rw [hkF.1, hk1, hpA], by rw [hkF.2, hk2, hpA],
      (cuA.trans cuD).trans (Cur.of_sameReader hrF)⟩
    · rw [hoF, hoD']; rfl
    · have := hgF; unfold NodesGrow at this; rw [hnD, hnA] at this; exact this
  by_cases hk : (beNode.kind != Kind.paragraph) = true
  · rw [hk] at k3
    simp only [if_true, bpContinue] at k3
    obtain ⟨st, s4, h4, k4⟩ := bind_ok k3
    obtain ⟨est, e4⟩ := pure_ok h4
    rw [est, e4] at k4
    simp only [stClose, Bool.false_eq_true, if_false, Bool.not_true, bne_self_eq_false] at k4
    exact tail s1 _ _ hl1 hn1 hp1 cu1 k4
  · have hk' : (beNode.kind != Kind.paragraph) = false := by simpa using hk
    rw [hk'] at k3
    simp only [Bool.false_eq_true, if_false, Bool.not_true, bne_self_eq_false] at k3
    exact tail s1 _ _ hl1 hn1 hp1 cu1 k3
/-- with no block open the line loop of parseBlocks stops at once (parser.go:1076-1079) and hands control back to
    the outer loop, which treats what follows like the beginning of a document -/
theorem linesLoop_empty (parent fuel : Nat) (stats : List LineStat) (s : St) (h : s.pc.opened = []) :
    linesLoop parent (fuel + 1) stats s = .ok ((false, stats), s) := by
  unfold linesLoop
  simp [bind, StateT.bind, getPc, pure, StateT.pure, Except.bind, Except.pure, h]

/-! ### the two passes together -/

theorem advanceLine_source (r : Reader) : r.advanceLine.source = r.source := by
  unfold Reader.advanceLine; dsimp only; split <;> rfl

theorem advanceLine_peeked (r : Reader) : r.advanceLine.peekedLine = none := by
  unfold Reader.advanceLine; dsimp only; split <;> rfl

theorem advanceLine_pos_congr {r1 r2 : Reader} (hp : r1.pos = r2.pos) (hs : r1.source = r2.source) :
    r1.advanceLine.pos = r2.advanceLine.pos := by
  unfold Reader.advanceLine
  simp only [hp, hs]
  split <;> rfl

/-- `AdvanceLine` looks at the cursor only -/
theorem atLine_advanceLine_of_cur {line : Bytes} {a b : St} (h : Cur a b) (ha : AtLine line a.r.advanceLine) :
    AtLine line b.r.advanceLine := by
  obtain ⟨hp, hs⟩ := h
  have e1 : b.r.advanceLine.pos = a.r.advanceLine.pos := advanceLine_pos_congr hp hs
  have e2 : b.r.advanceLine.source = a.r.advanceLine.source := by
    rw [advanceLine_source, advanceLine_source, hs]
  have e3 : b.r.advanceLine.peekedLine = none := advanceLine_peeked _
  refine ⟨by rw [e1]; exact ha.start0, ?_, by rw [e1, e2]; exact ha.value, .inl e3⟩
  have := ha.startLt
  unfold Reader.sourceLength at this ⊢
  rw [e1, e2]; exact this

theorem advanceLine_ok {s : St} {u : Unit} {s' : St} (h : advanceLine s = .ok (u, s')) :
    s' = { s with r := s.r.advanceLine } := by cases h; rfl

/-- **Reset** (mechanism (ii) of C09's first half, at the level of parseBlocks' line loop, parser.go:1074-1126).
    The reader stands on a non-indented ATX heading line `# …` that is followed by the blank line `\n`; some blocks
    are open, all of them valid node ids, and the first one is a paragraph or does not continue on the heading line.
    Then the line loop — if it ends normally — hands control back to the outer loop of parseBlocks after exactly
    these two lines with NO BLOCK OPEN (every block that was open, and the heading, have been closed), with the
    list parser's cross-line flags `skipListParser` / `emptyListItemWithBlankLines` as they were, the node store
    grown by at least the heading, and the reader at the line after the blank line. From any state, reachable or
    not; any number and kind of open blocks after the first. -/
theorem heading_blank_resets (rest : Bytes) (s : St) (be : Block) (obs : List Block) (stats : List LineStat) (fuel : Nat)
    (hl : AtLine (35 :: 32 :: rest) s.r) (hnext : AtLine [10] s.r.advanceLine)
    (hop : s.pc.opened = be :: obs)
    (hids : ∀ b ∈ be :: obs, b.node < s.nodes.length)
    (hfirst : (s.nodes.getD be.node default).kind = .paragraph ∨ ClosesAt (35 :: 32 :: rest) be s)
    (ret : Bool) (stats' : List LineStat) (s' : St)
    (h : linesLoop 0 (fuel + 3) stats s = .ok ((ret, stats'), s')) :
    ret = false ∧ s'.pc.opened = [] ∧ s.nodes.length < s'.nodes.length ∧
      s'.pc.skipList = s.pc.skipList ∧ s'.pc.emptyItemBlank = s.pc.emptyItemBlank ∧
      s'.r.pos = s.r.advanceLine.advanceLine.pos ∧ s'.r.source = s.r.source := by
  unfold linesLoop at h
  obtain ⟨pc, s1, h1, k1⟩ := bind_ok h
  obtain ⟨epc, e1⟩ := getPc_ok h1
  rw [e1, epc, hop] at k1
  dsimp only at k1
  have hl0 : ((be :: obs).length == 0) = false := by simp
  rw [hl0] at k1
  simp only [Bool.false_eq_true, if_false] at k1
  have hlen : (((be :: obs).length : Nat) : Int) - 1 = (obs.length : Int) := by
    simp only [List.length_cons]; omega
  rw [hlen] at k1
  obtain ⟨x, s2, h2, k2⟩ := bind_ok k1
  obtain ⟨out, st1⟩ := x
  obtain ⟨ho, hop2, hn2, hk21, hk22, cu2⟩ := headingLine_unwinds rest s be obs stats hl hop hids hfirst out st1 s2 h2
  subst ho
  dsimp only at k2
  obtain ⟨u, s3, h3, k3⟩ := bind_ok k2
  have e3 := advanceLine_ok h3
  have hl3 : AtLine [10] s3.r := by rw [e3]; exact atLine_advanceLine_of_cur cu2 hnext
  have hop3 : s3.pc.opened = [⟨s.nodes.length, .atx⟩] := by rw [e3]; exact hop2
  -- second line
  unfold linesLoop at k3
  obtain ⟨pc3, s4, h4, k4⟩ := bind_ok k3
  obtain ⟨epc3, e4⟩ := getPc_ok h4
  rw [e4, epc3, hop3] at k4
  dsimp only at k4
  have hl1 : (([⟨s.nodes.length, .atx⟩] : List Block).length == 0) = false := by simp
  rw [hl1] at k4
  simp only [Bool.false_eq_true, if_false] at k4
  have hlen1 : ((([⟨s.nodes.length, .atx⟩] : List Block).length : Nat) : Int) - 1 = 0 := by simp
  rw [hlen1] at k4
  obtain ⟨x5, s5, h5, k5⟩ := bind_ok k4
  obtain ⟨out5, st5⟩ := x5
  obtain ⟨ho5, hop5, hn5, hk51, hk52, cu5⟩ := blankLine_closes_heading s3 s.nodes.length st1 hl3 hop3 out5 st5 s5 h5
  subst ho5
  dsimp only at k5
  obtain ⟨u6, s6, h6, k6⟩ := bind_ok k5
  have e6 := advanceLine_ok h6
  have hop6 : s6.pc.opened = [] := by rw [e6]; exact hop5
  rw [linesLoop_empty 0 fuel st5 s6 hop6] at k6
  cases k6
  have hs3n : s3.nodes = s2.nodes := by rw [e3]
  have hs3p : s3.pc = s2.pc := by rw [e3]
  refine ⟨rfl, hop6, ?_, ?_, ?_, ?_, ?_⟩
  · rw [e6]; show s.nodes.length < s5.nodes.length; rw [hs3n] at hn5; omega
  · rw [e6]; show s5.pc.skipList = _; rw [hk51, hs3p, hk21]
  · rw [e6]; show s5.pc.emptyItemBlank = _; rw [hk52, hs3p, hk22]
  · rw [e6]
    show s5.r.advanceLine.pos = _
    rw [advanceLine_pos_congr cu5.1 cu5.2, e3]
    show s2.r.advanceLine.advanceLine.pos = _
    exact advanceLine_pos_congr (advanceLine_pos_congr cu2.1 cu2.2)
      (by rw [advanceLine_source, advanceLine_source, cu2.2])
  · rw [e6]
    show s5.r.advanceLine.source = _
    rw [advanceLine_source, cu5.2, e3]
    show s2.r.advanceLine.source = _
    rw [advanceLine_source, cu2.2]
/-! ### the same when no block is open: the outer loop of parseBlocks -/

theorem isBlank_hash2 (rest : Bytes) : isBlank (35 :: 32 :: rest) = false := isBlank_hash _

/-- `reader.SkipBlankLines` on a reader that stands on the non-blank line `# …` skips nothing -/
theorem skipBlankLinesR_heading (rest : Bytes) (s : St) (hl : AtLine (35 :: 32 :: rest) s.r)
    (x : Segment × Int × Bool) (s' : St) (h : skipBlankLinesR s = .ok (x, s')) :
    x.2.1 = 0 ∧ x.2.2 = true ∧ AtLine (35 :: 32 :: rest) s'.r ∧ s'.nodes = s.nodes ∧ s'.pc = s.pc ∧ Cur s s' := by
  unfold skipBlankLinesR at h
  have hf : loopFuel s.r.source = (4 * s.r.source.length + 63) + 1 := rfl
  rw [hf] at h
  unfold skipBlankLines at h
  obtain ⟨r', h1, h2, h3, h4⟩ := hl.peekLine
  simp only [readerOps, h1, bind, Except.bind, isBlank_hash2, Bool.false_eq_true, if_false, pure, Except.pure] at h
  cases h
  exact ⟨rfl, rfl, h2, rfl, rfl, h3, h4⟩
/-- **Reset when nothing is open** (the other path through parseBlocks, parser.go:1055-1127): the outer loop stands
    on a non-indented ATX heading line `# …` followed by the blank line `\n`, no block is open. Then — if the run
    ends normally — the rest of the run is the outer loop started again, after exactly these two lines, in a state
    with no block open, the list parser's flags as they were, the node store grown by the heading, the reader at
    the line after the blank line. From any state. -/
theorem heading_blank_resets_top (rest : Bytes) (s : St) (stats : List LineStat) (fuel : Nat)
    (hl : AtLine (35 :: 32 :: rest) s.r) (hnext : AtLine [10] s.r.advanceLine)
    (hop : s.pc.opened = []) (s' : St)
    (h : blocksLoop 0 (fuel + 3) stats s = .ok ((), s')) :
    ∃ stats'' s'', s''.pc.opened = [] ∧ s.nodes.length < s''.nodes.length ∧
      s''.pc.skipList = s.pc.skipList ∧ s''.pc.emptyItemBlank = s.pc.emptyItemBlank ∧
      s''.r.pos = s.r.advanceLine.advanceLine.pos ∧ s''.r.source = s.r.source ∧
      blocksLoop 0 (fuel + 2) stats'' s'' = .ok ((), s') := by
  unfold blocksLoop at h
  obtain ⟨x, s1, h1, k1⟩ := bind_ok h
  obtain ⟨hx1, hx2, hl1, hn1, hp1, cu1⟩ := skipBlankLinesR_heading rest s hl x s1 h1
  obtain ⟨seg, lines, ok⟩ := x
  simp only at hx1 hx2
  subst hx1 hx2
  simp only [Bool.not_true, Bool.false_eq_true, if_false] at k1
  obtain ⟨pos, s2, h2, k2⟩ := bind_ok k1
  have e2 : s2 = s1 := by cases h2; rfl
  rw [e2] at k2
  obtain ⟨pc, s3, h3, k3⟩ := bind_ok k2
  obtain ⟨epc, e3⟩ := getPc_ok h3
  rw [e3] at k3
  simp only [bne_self_eq_false, Bool.false_eq_true, if_false] at k3
  obtain ⟨res, s4, h4, k4⟩ := bind_ok k3
  obtain ⟨hres, hpush, hn4, hk41, hk42, cu4⟩ := openBlocks_heading rest _ s1 hl1 res s4 h4
  rw [hres] at k4
  simp only [bne_self_eq_false, Bool.false_eq_true, if_false] at k4
  have hop1 : s1.pc.opened = [] := by rw [hp1]; exact hop
  have hop4 : s4.pc.opened = [⟨s.nodes.length, .atx⟩] := by
    unfold HeadingPushed at hpush
    rw [hop1, hn1] at hpush
    rcases hpush with hA | ⟨hne, _⟩
    · simpa using hA
    · exact absurd rfl hne
  obtain ⟨u, s5, h5, k5⟩ := bind_ok k4
  have e5 := advanceLine_ok h5
  have cu14 : Cur s s4 := cu1.trans cu4
  have hl5 : AtLine [10] s5.r := by rw [e5]; exact atLine_advanceLine_of_cur cu14 hnext
  have hop5 : s5.pc.opened = [⟨s.nodes.length, .atx⟩] := by rw [e5]; exact hop4
  obtain ⟨y, s6, h6, k6⟩ := bind_ok k5
  -- the line loop: one pass over the blank line, then it stops
  unfold linesLoop at h6
  obtain ⟨pc6, s7, h7, k7⟩ := bind_ok h6
  obtain ⟨epc6, e7⟩ := getPc_ok h7
  rw [e7, epc6, hop5] at k7
  dsimp only at k7
  have hl1' : (([⟨s.nodes.length, .atx⟩] : List Block).length == 0) = false := by simp
  rw [hl1'] at k7
  simp only [Bool.false_eq_true, if_false] at k7
  have hlen1 : ((([⟨s.nodes.length, .atx⟩] : List Block).length : Nat) : Int) - 1 = 0 := by simp
  rw [hlen1] at k7
  obtain ⟨x8, s8, h8, k8⟩ := bind_ok k7
  obtain ⟨out8, st8⟩ := x8
  obtain ⟨ho8, hop8, hn8, hk81, hk82, cu8⟩ := blankLine_closes_heading s5 s.nodes.length _ hl5 hop5 out8 st8 s8 h8
  subst ho8
  dsimp only at k8
  obtain ⟨u9, s9, h9, k9⟩ := bind_ok k8
  have e9 := advanceLine_ok h9
  have hop9 : s9.pc.opened = [] := by rw [e9]; exact hop8
  rw [linesLoop_empty 0 fuel st8 s9 hop9] at k9
  obtain ⟨ey, es6⟩ : (false, st8) = y ∧ s9 = s6 := by simpa using k9
  subst ey
  rw [← es6] at k6
  dsimp only at k6
  simp only [Bool.false_eq_true, if_false] at k6
  have hs5n : s5.nodes = s4.nodes := by rw [e5]
  have hs5p : s5.pc = s4.pc := by rw [e5]
  refine ⟨st8, s9, hop9, ?_, ?_, ?_, ?_, ?_, k6⟩
  · rw [e9]; show s.nodes.length < s8.nodes.length; rw [hs5n] at hn8; rw [hn1] at hn4; omega
  · rw [e9]; show s8.pc.skipList = _; rw [hk81, hs5p, hk41, hp1]
  · rw [e9]; show s8.pc.emptyItemBlank = _; rw [hk82, hs5p, hk42, hp1]
  · rw [e9]
    show s8.r.advanceLine.pos = _
    rw [advanceLine_pos_congr cu8.1 cu8.2, e5]
    show s4.r.advanceLine.advanceLine.pos = _
    exact advanceLine_pos_congr (advanceLine_pos_congr cu14.1 cu14.2)
      (by rw [advanceLine_source, advanceLine_source, cu14.2])
  · rw [e9]
    show s8.r.advanceLine.source = _
    rw [advanceLine_source, cu8.2, e5]
    show s4.r.advanceLine.source = _
    rw [advanceLine_source, cu14.2]
end GM.Blocks
