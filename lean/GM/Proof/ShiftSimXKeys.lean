/-
  The six block parsers thematic, code, atx, blockquote, html, paragraph never write the parse context: every
  invariant that does not look at the reader or the node store is kept (calculus `Keeps` of GM.Proof.QuoteSimFrame,
  here without any closure under context writes). Instance: the four context keys `tmpPara`, `fence`, `skipList`,
  `emptyItemBlank`. Trigger fact: a source without `- * + 0-9 = ` ~` triggers only these six parsers.
-/
import GM.Proof.ShiftSimMainL

namespace GM.Blocks.Xs
open GM GM.Text GM.Spec GM.Proof.Reader GM.Blocks

/-- the six block parsers that never touch the context keys -/
def Cov6 (bp : BP) : Prop := bp ≠ .list ∧ bp ≠ .listItem ∧ bp ≠ .setext ∧ bp ≠ .fenced

/-- the four context keys are unset -/
def KeysOff (s : St) : Prop :=
  s.pc.tmpPara = none ∧ s.pc.fence = none ∧ s.pc.skipList = false ∧ s.pc.emptyItemBlank = false

theorem KeysOff.congr_pc {s s' : St} (h : KeysOff s) (e1 : s'.pc.tmpPara = s.pc.tmpPara)
    (e2 : s'.pc.fence = s.pc.fence) (e3 : s'.pc.skipList = s.pc.skipList)
    (e4 : s'.pc.emptyItemBlank = s.pc.emptyItemBlank) : KeysOff s' :=
  ⟨e1.trans h.1, e2.trans h.2.1, e3.trans h.2.2.1, e4.trans h.2.2.2⟩

/-! ### the six parsers keep every invariant that ignores reader and node store -/

section parsers
variable {I : St → Prop} (hR : NoR I) (hN : NoNodes I)
include hR hN

theorem xk_removeChild_keeps (p c : Nat) : Keeps I (removeChild p c) := by
  unfold removeChild; keeps

theorem xk_preserveLeadingTab_keeps (seg : Segment) (ind : Int) : Keeps I (preserveLeadingTab seg ind) := by
  unfold preserveLeadingTab; keeps

theorem xk_paragraphOpen_keeps (p : Nat) : Keeps I (paragraphOpen p) := by
  unfold paragraphOpen; keeps

theorem xk_paragraphContinue_keeps (n : Nat) : Keeps I (paragraphContinue n) := by
  unfold paragraphContinue; keeps

theorem xk_paragraphClose_keeps (n : Nat) : Keeps I (paragraphClose n) := by
  have := xk_removeChild_keeps hR hN
  unfold paragraphClose; keeps

theorem xk_thematicOpen_keeps (p : Nat) : Keeps I (thematicOpen p) := by
  unfold thematicOpen; keeps

theorem xk_atxOpen_keeps (p : Nat) : Keeps I (atxOpen p) := by
  unfold atxOpen; keeps

theorem xk_codeTakeLine_keeps (n : Nat) (pos padding : Int) : Keeps I (codeTakeLine n pos padding) := by
  have := xk_preserveLeadingTab_keeps hR hN
  unfold codeTakeLine; keeps

theorem xk_codeOpen_keeps (p : Nat) : Keeps I (codeOpen p) := by
  have := xk_codeTakeLine_keeps hR hN
  unfold codeOpen; keeps

theorem xk_codeContinue_keeps (n : Nat) : Keeps I (codeContinue n) := by
  have := xk_codeTakeLine_keeps hR hN
  unfold codeContinue; keeps

theorem xk_codeClose_keeps (n : Nat) : Keeps I (codeClose n) := by
  unfold codeClose; keeps

theorem xk_blockquoteProcess_keeps : Keeps I blockquoteProcess := by
  unfold blockquoteProcess; keeps

theorem xk_blockquoteOpen_keeps (p : Nat) : Keeps I (blockquoteOpen p) := by
  have := xk_blockquoteProcess_keeps hR hN
  unfold blockquoteOpen; keeps

theorem xk_blockquoteContinue_keeps (n : Nat) : Keeps I (blockquoteContinue n) := by
  have := xk_blockquoteProcess_keeps hR hN
  unfold blockquoteContinue; keeps

theorem xk_htmlOpen_keeps (p : Nat) : Keeps I (htmlOpen p) := by
  unfold htmlOpen; keeps

theorem xk_htmlContinue_keeps (n : Nat) : Keeps I (htmlContinue n) := by
  unfold htmlContinue; keeps

theorem xk_bpOpen_keeps (bp : BP) (h : Cov6 bp) (p : Nat) : Keeps I (bpOpen bp p) := by
  cases bp <;> unfold bpOpen
  · exact absurd rfl h.2.2.1
  · exact xk_thematicOpen_keeps hR hN p
  · exact absurd rfl h.1
  · exact absurd rfl h.2.1
  · exact xk_codeOpen_keeps hR hN p
  · exact xk_atxOpen_keeps hR hN p
  · exact absurd rfl h.2.2.2
  · exact xk_blockquoteOpen_keeps hR hN p
  · exact xk_htmlOpen_keeps hR hN p
  · exact xk_paragraphOpen_keeps hR hN p

theorem xk_bpContinue_keeps (bp : BP) (h : Cov6 bp) (n : Nat) : Keeps I (bpContinue bp n) := by
  cases bp <;> unfold bpContinue
  · exact Keeps.pure _
  · exact Keeps.pure _
  · exact absurd rfl h.1
  · exact absurd rfl h.2.1
  · exact xk_codeContinue_keeps hR hN n
  · exact Keeps.pure _
  · exact absurd rfl h.2.2.2
  · exact xk_blockquoteContinue_keeps hR hN n
  · exact xk_htmlContinue_keeps hR hN n
  · exact xk_paragraphContinue_keeps hR hN n

theorem xk_bpClose_keeps (bp : BP) (h : Cov6 bp) (n : Nat) : Keeps I (bpClose bp n) := by
  cases bp <;> unfold bpClose
  · exact absurd rfl h.2.2.1
  · exact Keeps.pure _
  · exact absurd rfl h.1
  · exact Keeps.pure _
  · exact xk_codeClose_keeps hR hN n
  · exact Keeps.pure _
  · exact absurd rfl h.2.2.2
  · exact Keeps.pure _
  · exact Keeps.pure _
  · exact xk_paragraphClose_keeps hR hN n

end parsers

/-! ### the instance: the four context keys -/

/-- the four context keys have the given values -/
def xk_KeysAre (t : Option Nat) (f : Option FenceData) (k e : Bool) : St → Prop := fun s =>
  s.pc.tmpPara = t ∧ s.pc.fence = f ∧ s.pc.skipList = k ∧ s.pc.emptyItemBlank = e

theorem xk_keysAre_noR (t f k e) : NoR (xk_KeysAre t f k e) := ⟨fun _ _ h => h⟩
theorem xk_keysAre_noNodes (t f k e) : NoNodes (xk_KeysAre t f k e) := ⟨fun _ _ h => h⟩

theorem bpOpen_keys (bp : BP) (h : Cov6 bp) (parent : Nat) (s s' : St) (a)
    (e : bpOpen bp parent s = .ok (a, s')) :
    s'.pc.tmpPara = s.pc.tmpPara ∧ s'.pc.fence = s.pc.fence ∧ s'.pc.skipList = s.pc.skipList ∧
      s'.pc.emptyItemBlank = s.pc.emptyItemBlank :=
  xk_bpOpen_keeps (xk_keysAre_noR _ _ _ _) (xk_keysAre_noNodes _ _ _ _) bp h parent s a s'
    (⟨rfl, rfl, rfl, rfl⟩ : xk_KeysAre s.pc.tmpPara s.pc.fence s.pc.skipList s.pc.emptyItemBlank s) e

theorem bpContinue_keys (bp : BP) (h : Cov6 bp) (node : Nat) (s s' : St) (a)
    (e : bpContinue bp node s = .ok (a, s')) :
    s'.pc.tmpPara = s.pc.tmpPara ∧ s'.pc.fence = s.pc.fence ∧ s'.pc.skipList = s.pc.skipList ∧
      s'.pc.emptyItemBlank = s.pc.emptyItemBlank :=
  xk_bpContinue_keeps (xk_keysAre_noR _ _ _ _) (xk_keysAre_noNodes _ _ _ _) bp h node s a s'
    (⟨rfl, rfl, rfl, rfl⟩ : xk_KeysAre s.pc.tmpPara s.pc.fence s.pc.skipList s.pc.emptyItemBlank s) e

theorem bpClose_keys (bp : BP) (h : Cov6 bp) (node : Nat) (s s' : St) (a)
    (e : bpClose bp node s = .ok (a, s')) :
    s'.pc.tmpPara = s.pc.tmpPara ∧ s'.pc.fence = s.pc.fence ∧ s'.pc.skipList = s.pc.skipList ∧
      s'.pc.emptyItemBlank = s.pc.emptyItemBlank :=
  xk_bpClose_keeps (xk_keysAre_noR _ _ _ _) (xk_keysAre_noNodes _ _ _ _) bp h node s a s'
    (⟨rfl, rfl, rfl, rfl⟩ : xk_KeysAre s.pc.tmpPara s.pc.fence s.pc.skipList s.pc.emptyItemBlank s) e

theorem bpOpen_keysOff (bp : BP) (h : Cov6 bp) (parent : Nat) (s s' : St) (a)
    (e : bpOpen bp parent s = .ok (a, s')) (hk : KeysOff s) : KeysOff s' := by
  obtain ⟨e1, e2, e3, e4⟩ := bpOpen_keys bp h parent s s' a e
  exact hk.congr_pc e1 e2 e3 e4

theorem bpContinue_keysOff (bp : BP) (h : Cov6 bp) (node : Nat) (s s' : St) (a)
    (e : bpContinue bp node s = .ok (a, s')) (hk : KeysOff s) : KeysOff s' := by
  obtain ⟨e1, e2, e3, e4⟩ := bpContinue_keys bp h node s s' a e
  exact hk.congr_pc e1 e2 e3 e4

theorem bpClose_keysOff (bp : BP) (h : Cov6 bp) (node : Nat) (s s' : St) (a)
    (e : bpClose bp node s = .ok (a, s')) (hk : KeysOff s) : KeysOff s' := by
  obtain ⟨e1, e2, e3, e4⟩ := bpClose_keys bp h node s s' a e
  exact hk.congr_pc e1 e2 e3 e4

/-! ### triggers -/

/-- no byte of the source triggers a list parser, the setext parser or the fenced code parser -/
def Plain6 (src : Bytes) : Prop :=
  ∀ c ∈ src, c ≠ 45 ∧ c ≠ 42 ∧ c ≠ 43 ∧ isNumeric c = false ∧ c ≠ 61 ∧ c ≠ 96 ∧ c ≠ 126

instance (src : Bytes) : Decidable (Plain6 src) := by unfold Plain6; infer_instance

theorem xk_free_cov6 : ∀ bp ∈ freeParsers, Cov6 bp := by
  intro bp hbp
  simp [freeParsers] at hbp
  rcases hbp with h | h <;> subst h <;> unfold Cov6 <;> decide

theorem xk_triggered_cov6 (src : Bytes) (hsrc : Plain6 src) :
    ∀ ch ∈ src, ∀ bps, triggered ch = some bps → ∀ bp ∈ bps, Cov6 bp := by
  intro ch hch bps htr bp hbp
  obtain ⟨h1, h2, h3, h4, h5, h6, h7⟩ := hsrc ch hch
  unfold triggered at htr
  have e1 : (ch == 45) = false := by simpa using h1
  have e2 : (ch == 42) = false := by simpa using h2
  have e3 : (ch == 43) = false := by simpa using h3
  have e5 : (ch == 61) = false := by simpa using h5
  have e6 : (ch == 96) = false := by simpa using h6
  have e7 : (ch == 126) = false := by simpa using h7
  simp only [e1, e2, e3, h4, e5, e6, e7, Bool.false_eq_true, if_false, Bool.or_self] at htr
  unfold Cov6
  repeat' split at htr
  all_goals first
    | (cases htr; simp [freeParsers] at hbp; rcases hbp with h | h | h <;> subst h <;> decide)
    | (cases htr; simp [freeParsers] at hbp; rcases hbp with h | h <;> subst h <;> decide)
    | cases htr

theorem triggers_cov6 (src : Bytes) (h : Plain6 src) :
    (∀ bp ∈ freeParsers, Cov6 bp) ∧
      ∀ c : UInt8, (c ∈ src ∨ c = 32) → ∀ bp ∈ (triggered c).getD freeParsers, Cov6 bp := by
  refine ⟨xk_free_cov6, ?_⟩
  intro c hc bp hbp
  rcases hc with hc | hc
  · cases ht : triggered c with
    | none => rw [ht] at hbp; exact xk_free_cov6 bp hbp
    | some bps => rw [ht] at hbp; exact xk_triggered_cov6 src h c hc bps ht bp hbp
  · subst hc
    have : triggered 32 = none := by decide
    rw [this] at hbp; exact xk_free_cov6 bp hbp

end GM.Blocks.Xs
