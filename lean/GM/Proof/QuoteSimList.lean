/-
  GM.Proof.QuoteSimList — one-line-step simulation of the list parsers (parser/list.go, parser/list_item.go):
  `listOpen_sim`, `listContinue_sim`, `listItemOpen_sim` (all three for ALL related states) and
  `listItemContinue_sim'` (with two named hypotheses: a line is there, and `ListItemContPre` when the rest of the line is not blank; without them the
  statement is false: goldmark then calls `Advance(-1)` / `AdvanceAndSetPadding(-1, -1)` and the reader moves back).
  `listClose` is not covered (it reads `HasBlankPreviousLines`, which the relation does not relate).
-/
import GM.Proof.QuoteSimTree
import GM.Proof.QuoteSimLeafA
import GM.Proof.QuoteSimCode

namespace GM.Blocks
open GM GM.Text GM.Spec GM.Proof.Reader

theorem opt_succ_beq_ls (o : Option Nat) (p : Nat) : (o.map (· + 1) == some (p + 1)) = (o == some p) := by
  cases o with
  | none => rfl
  | some q =>
    simp only [Option.map_some, Option.some_beq_some]
    exact decide_eq_decide.mpr (by constructor <;> intro _ <;> omega)

theorem lastOffset_s2 {src k ls p} {sA sB : St} (h : SR src k ls p sA sB) (node : Nat) :
    S2 (fun a b sA' sB' => b = a ∧ SR src k ls p sA' sB') (lastOffset node sA) (lastOffset (node + 1) sB) := by
  unfold lastOffset
  refine S2.bind (getNode_s2 h node) (fun a b sA1 sB1 hq => ?_)
  obtain ⟨hab, h1⟩ := hq
  rw [hab.children, List.getLast?_map]
  cases a.children.getLast? with
  | none => exact S2.pure ⟨rfl, h1⟩
  | some lc =>
    simp only [Option.map_some]
    refine S2.bind (getNode_s2 h1 lc) (fun c d sA2 sB2 hq => ?_)
    obtain ⟨hcd, h2⟩ := hq
    have hk : (d.kind != Kind.listItem) = (c.kind != Kind.listItem) := by
      have hkk := hcd.kind
      by_cases h0 : lc = 0
      · subst h0
        simp only [beq_self_eq_true, if_true] at hkk
        rw [hkk.1, hkk.2]; rfl
      · rw [beq_eq_false_iff_ne.mpr h0] at hkk
        simp only [Bool.false_eq_true, if_false] at hkk
        rw [hkk]
    rw [hk, hcd.offset]
    by_cases hc : (c.kind != Kind.listItem) = true
    · rw [if_pos hc]
      exact S2.bind (P := fun _ _ _ _ => False) S2.throwL (fun _ _ _ _ hf => hf.elim)
    · rw [if_neg hc]
      exact S2.pure ⟨rfl, h2⟩

theorem lastChildCount_s2 {src k ls p} {sA sB : St} (h : SR src k ls p sA sB) (node : Nat) :
    S2 (fun a b sA' sB' => b = a ∧ SR src k ls p sA' sB') (lastChildCount node sA) (lastChildCount (node + 1) sB) := by
  unfold lastChildCount
  refine S2.bind (getNode_s2 h node) (fun a b sA1 sB1 hq => ?_)
  obtain ⟨hab, h1⟩ := hq
  rw [hab.children, List.getLast?_map]
  cases a.children.getLast? with
  | none => exact S2.throwL
  | some lc =>
    simp only [Option.map_some]
    refine S2.bind (getNode_s2 h1 lc) (fun c d sA2 sB2 hq => ?_)
    obtain ⟨hcd, h2⟩ := hq
    rw [hcd.children, List.length_map]
    exact S2.pure ⟨rfl, h2⟩

/-! ### listParser.Open -/

/-- the part of `listOpen` behind the lookup of the last opened block's node (a copy of the text of the model) -/
def listOpenRest_qs (parent : Nat) (lastNode : Option Node) : M (Option Nat × PState) := do
  let lok := match lastNode with | some n => n.kind == .list | none => false
  if lok || (← getPc).skipList then
    modPc fun pc => { pc with skipList := false }
    return (none, stNoChildren)
  let (line, _) ← peekLine
  let line := line.getD []
  let (m, typ) := matchesListItem line true
  if typ == .notList then return (none, stNoChildren)
  let mut start : Int := -1
  if typ == .ordered then
    let number ← liftE (slice line m.r2 (m.r3 - 1))
    start := atoiDigits number
  let lastIsParaOfParent := match lastNode with
    | some n => n.kind == Kind.paragraph && n.parent == some parent
    | none => false
  if lastIsParaOfParent then
    if typ == ListTyp.ordered && start != 1 then return (none, stNoChildren)
    if m.r4 < 0 then return (none, stNoChildren)
    if isBlank (← liftE (slice line m.r4 m.r5)) then return (none, stNoChildren)
  let marker ← liftE (idx line (m.r3 - 1))
  let node ← newNode { kind := .list, marker := marker, start := if start > -1 then start else 0 }
  modPc fun pc => { pc with emptyItemBlank := false }
  return (some node, stHasChildren)

/-- the end of `listOpen`: the node is built -/
def listOpenFin (line : Bytes) (m : M6) (start : Int) : M (Option Nat × PState) := do
  let marker ← liftE (idx line (m.r3 - 1))
  let node ← newNode { kind := .list, marker := marker, start := if start > -1 then start else 0 }
  modPc fun pc => { pc with emptyItemBlank := false }
  return (some node, stHasChildren)

/-- the tests of `listOpen` when the last opened block is a paragraph of the parent, then `listOpenFin` -/
def listOpenMid (line : Bytes) (m : M6) (typ : ListTyp) (lip : Bool) (start : Int) : M (Option Nat × PState) := do
  if lip then
    if typ == ListTyp.ordered && start != 1 then return (none, stNoChildren)
    if m.r4 < 0 then return (none, stNoChildren)
    if isBlank (← liftE (slice line m.r4 m.r5)) then return (none, stNoChildren)
  listOpenFin line m start

theorem listOpenFin_s2 {src k ls p} {sA sB : St} (h : SR src k ls p sA sB) (line : Bytes) (m : M6) (start : Int) :
    S2 (fun a b sA' sB' => OpenRel a b ∧ ∃ p', p ≤ p' ∧ SR src k ls p' sA' sB')
      (listOpenFin line m start sA) (listOpenFin line m start sB) := by
  unfold listOpenFin
  refine S2.bind (P := fun a b sA' sB' => b = a ∧ SR src k ls p sA' sB')
    (S2.liftE (fun a ha => ⟨a, ha, rfl, h⟩)) (fun c0 c sA1 sB1 hq => ?_)
  obtain ⟨hcc, h1⟩ := hq
  subst hcc
  refine S2.bind (newNode_s2 h1 _ _ (nodeRel_new src _ rfl rfl rfl rfl (by show (-1 : Int) < 0; decide))) (fun n n' sA2 sB2 hq => ?_)
  obtain ⟨_, hm, hn0, h2⟩ := hq
  subst hm
  refine S2.bind (modPc_s2 h2 _ _ (fun a b hab => ?_)) (fun _ _ sA3 sB3 h3 => ?_)
  · exact { hab with emptyItemBlank := rfl }
  · exact S2.pure ⟨⟨rfl, .inr ⟨n, hn0, rfl, rfl⟩⟩, p, Nat.le_refl _, h3⟩

theorem listOpenMid_s2 {src k ls p} {sA sB : St} (h : SR src k ls p sA sB) (line : Bytes) (m : M6) (typ : ListTyp)
    (lip : Bool) (start : Int) :
    S2 (fun a b sA' sB' => OpenRel a b ∧ ∃ p', p ≤ p' ∧ SR src k ls p' sA' sB')
      (listOpenMid line m typ lip start sA) (listOpenMid line m typ lip start sB) := by
  unfold listOpenMid
  by_cases hc1 : lip = true
  · simp only [if_pos hc1]
    by_cases hc2 : (typ == ListTyp.ordered && start != 1) = true
    · simp only [if_pos hc2]
      exact S2.pure ⟨⟨rfl, .inl ⟨rfl, rfl⟩⟩, p, Nat.le_refl _, h⟩
    simp only [if_neg hc2]
    by_cases hc3 : m.r4 < 0
    · simp only [if_pos hc3]
      exact S2.pure ⟨⟨rfl, .inl ⟨rfl, rfl⟩⟩, p, Nat.le_refl _, h⟩
    simp only [if_neg hc3]
    refine S2.bind (P := fun a b sA' sB' => b = a ∧ SR src k ls p sA' sB')
      (S2.liftE (fun a ha => ⟨a, ha, rfl, h⟩)) (fun v0 v sA1 sB1 hq => ?_)
    obtain ⟨hvv, h1⟩ := hq
    subst hvv
    by_cases hc4 : isBlank v = true
    · simp only [if_pos hc4]
      exact S2.pure ⟨⟨rfl, .inl ⟨rfl, rfl⟩⟩, p, Nat.le_refl _, h1⟩
    simp only [if_neg hc4]
    exact listOpenFin_s2 h1 line m start
  · simp only [if_neg hc1]
    exact listOpenFin_s2 h line m start

/-- what `listOpen` reads of the last opened block's node is the same in both runs -/
def LastNodeRel (parent : Nat) (x y : Option Node) : Prop :=
  (match y with | some n => n.kind == Kind.list | none => false) =
    (match x with | some n => n.kind == Kind.list | none => false) ∧
  (match y with | some n => n.kind == Kind.paragraph && n.parent == some (parent + 1) | none => false) =
    (match x with | some n => n.kind == Kind.paragraph && n.parent == some parent | none => false)

theorem listOpenRest_s2 {src k ls p} {sA sB : St} (h : SR src k ls p sA sB) (parent : Nat) (x y : Option Node)
    (hxy : LastNodeRel parent x y) :
    S2 (fun a b sA' sB' => OpenRel a b ∧ ∃ p', p ≤ p' ∧ SR src k ls p' sA' sB')
      (listOpenRest_qs parent x sA) (listOpenRest_qs (parent + 1) y sB) := by
  obtain ⟨hlok, hlip⟩ := hxy
  unfold listOpenRest_qs
  rw [hlok, hlip]
  generalize (match x with | some n => n.kind == Kind.list | none => false) = lok
  generalize (match x with | some n => n.kind == Kind.paragraph && n.parent == some parent | none => false) = lip
  refine S2.bind (getPc_s2 h) (fun ca cb sA1 sB1 hq => ?_)
  obtain ⟨_, _, hcr, hsa, hsb⟩ := hq
  subst hsa hsb
  rw [hcr.skipList]
  by_cases hc1 : (lok || ca.skipList) = true
  · simp only [if_pos hc1]
    refine S2.bind (modPc_s2 h _ _ (fun a b hab => ?_)) (fun _ _ sA2 sB2 h2 => ?_)
    · exact { hab with skipList := rfl }
    · exact S2.pure ⟨⟨rfl, .inl ⟨rfl, rfl⟩⟩, p, Nat.le_refl _, h2⟩
  simp only [if_neg hc1]
  refine S2.bind (peekLine_s2 h) (fun a b sA2 sB2 hq => ?_)
  obtain ⟨ha, hb, h2⟩ := hq
  subst ha hb
  simp only
  generalize hr : matchesListItem ((viewA src ls p).getD []) true = r
  obtain ⟨m, typ⟩ := r
  simp only
  by_cases hc2 : (typ == ListTyp.notList) = true
  · simp only [if_pos hc2]
    exact S2.pure ⟨⟨rfl, .inl ⟨rfl, rfl⟩⟩, p, Nat.le_refl _, h2⟩
  simp only [if_neg hc2]
  by_cases hc3 : (typ == ListTyp.ordered) = true
  · simp only [if_pos hc3]
    refine S2.bind (P := fun a b sA' sB' => b = a ∧ SR src k ls p sA' sB')
      (S2.liftE (fun a ha => ⟨a, ha, rfl, h2⟩)) (fun v0 v sA3 sB3 hq => ?_)
    obtain ⟨hvv, h3⟩ := hq
    subst hvv
    exact listOpenMid_s2 h3 _ m typ lip (atoiDigits v)
  · simp only [if_neg hc3]
    exact listOpenMid_s2 h2 _ m typ lip (-1)

theorem listOpen_sim (src : Bytes) : OpenSim src .list := by
  intro k ls p parent sA sB h
  show S2 _ (listOpen parent sA) (listOpen (parent + 1) sB)
  unfold listOpen
  refine S2.bind (lastOpenedBlock_s2 h) (fun la lb sA1 sB1 hq => ?_)
  obtain ⟨hlr, _, hsA, hsB⟩ := hq
  subst hsA hsB
  rcases hlr with ⟨ha, hb⟩ | ⟨blk, ha, hb⟩
  · subst ha hb
    have hk := (h.n.node 0).kind
    simp only [beq_self_eq_true, if_true] at hk
    have e : getNode bqBlock.node sB1 = .ok (sB1.nodes.getD 1 default, sB1) := rfl
    refine S2.bindR e ?_
    refine listOpenRest_s2 h parent none (some (sB1.nodes.getD 1 default)) ⟨?_, ?_⟩
    · show ((sB1.nodes.getD 1 default).kind == Kind.list) = false
      rw [hk.1]; rfl
    · show ((sB1.nodes.getD 1 default).kind == Kind.paragraph && _) = false
      rw [hk.1]; rfl
  · subst ha hb
    refine S2.bind (getNode_s2 h blk.node) (fun a b sA2 sB2 hq => ?_)
    obtain ⟨hab, h2⟩ := hq
    have hkp : (b.kind == Kind.list) = (a.kind == Kind.list) ∧
        (b.kind == Kind.paragraph && b.parent == some (parent + 1)) =
          (a.kind == Kind.paragraph && a.parent == some parent) := by
      have hkk := hab.kind
      have hpp := hab.parent
      by_cases h0 : blk.node = 0
      · rw [h0] at hkk hpp
        simp only [beq_self_eq_true, if_true] at hkk hpp
        rw [hkk.1, hkk.2]; exact ⟨rfl, rfl⟩
      · rw [beq_eq_false_iff_ne.mpr h0] at hkk hpp
        simp only [Bool.false_eq_true, if_false] at hkk hpp
        rw [hkk, hpp, opt_succ_beq_ls]; exact ⟨rfl, rfl⟩
    exact listOpenRest_s2 h2 parent (some a) (some b) ⟨hkp.1, hkp.2⟩

/-! ### listParser.Continue -/

/-- the last two tests of `listContinue` -/
def listContFin (lastIsEmpty : Bool) (indent offset : Int) : M PState := do
  if lastIsEmpty && indent < offset then return stClose
  if (← getPc).emptyItemBlank then return stClose
  return stContinueHasChildren

/-- `if !lastIsEmpty { return Close }`, then the last two tests -/
def listContMid (lastIsEmpty : Bool) (indent offset : Int) : M PState := do
  if !lastIsEmpty then return stClose
  listContFin lastIsEmpty indent offset

/-- list.go:196-206 behind the lookup of the last opened block -/
def listContTb2 (tail : Bytes) (lastIsPara : Bool) : M PState := do
  let mut isHeading := false
  if lastIsPara then
    let (c, ok) ← liftE (matchesSetextHeadingBar tail)
    if ok && c == 45 then isHeading := true
  if !isHeading then return stClose
  return stContinueHasChildren

/-- list.go:193-208: a thematic break ends the list unless it is a setext heading bar -/
def listContTb (tail : Bytes) : M PState := do
  if isThematicBreak tail 0 then
    let lastIsPara ← match ← lastOpenedBlock with
      | some lb => do pure ((← getNode lb.node).kind == .paragraph)
      | none => pure false
    listContTb2 tail lastIsPara
  else return stContinueHasChildren

theorem listContFin_s2 {src k ls p} {sA sB : St} (h : SR src k ls p sA sB) (lastIsEmpty : Bool) (indent offset : Int) :
    S2 (fun a b sA' sB' => b = a ∧ ∃ p', p ≤ p' ∧ SR src k ls p' sA' sB')
      (listContFin lastIsEmpty indent offset sA) (listContFin lastIsEmpty indent offset sB) := by
  unfold listContFin
  by_cases hc1 : (lastIsEmpty && decide (indent < offset)) = true
  · simp only [if_pos hc1]
    exact S2.pure ⟨rfl, p, Nat.le_refl _, h⟩
  simp only [if_neg hc1]
  refine S2.bind (getPc_s2 h) (fun ca cb sA1 sB1 hq => ?_)
  obtain ⟨_, _, hcr, hsa, hsb⟩ := hq
  subst hsa hsb
  rw [hcr.emptyItemBlank]
  by_cases hc2 : ca.emptyItemBlank = true
  · simp only [if_pos hc2]
    exact S2.pure ⟨rfl, p, Nat.le_refl _, h⟩
  · simp only [if_neg hc2]
    exact S2.pure ⟨rfl, p, Nat.le_refl _, h⟩

theorem listContMid_s2 {src k ls p} {sA sB : St} (h : SR src k ls p sA sB) (lastIsEmpty : Bool) (indent offset : Int) :
    S2 (fun a b sA' sB' => b = a ∧ ∃ p', p ≤ p' ∧ SR src k ls p' sA' sB')
      (listContMid lastIsEmpty indent offset sA) (listContMid lastIsEmpty indent offset sB) := by
  unfold listContMid
  by_cases hc1 : (!lastIsEmpty) = true
  · simp only [if_pos hc1]
    exact S2.pure ⟨rfl, p, Nat.le_refl _, h⟩
  · simp only [if_neg hc1]
    exact listContFin_s2 h lastIsEmpty indent offset

theorem listContTb2_s2 {src k ls p} {sA sB : St} (h : SR src k ls p sA sB) (tail : Bytes) (lastIsPara : Bool) :
    S2 (fun a b sA' sB' => b = a ∧ ∃ p', p ≤ p' ∧ SR src k ls p' sA' sB')
      (listContTb2 tail lastIsPara sA) (listContTb2 tail lastIsPara sB) := by
  unfold listContTb2
  by_cases hc1 : lastIsPara = true
  · simp only [if_pos hc1]
    refine S2.bind (P := fun a b sA' sB' => b = a ∧ SR src k ls p sA' sB')
      (S2.liftE (fun a ha => ⟨a, ha, rfl, h⟩)) (fun v0 v sA1 sB1 hq => ?_)
    obtain ⟨hvv, h1⟩ := hq
    subst hvv
    obtain ⟨c, ok⟩ := v
    simp only
    by_cases hc2 : (ok && c == 45) = true
    · simp only [if_pos hc2]
      exact S2.pure ⟨rfl, p, Nat.le_refl _, h1⟩
    · simp only [if_neg hc2]
      exact S2.pure ⟨rfl, p, Nat.le_refl _, h1⟩
  · simp only [if_neg hc1]
    exact S2.pure ⟨rfl, p, Nat.le_refl _, h⟩

theorem listContTb_s2 {src k ls p} {sA sB : St} (h : SR src k ls p sA sB) (tail : Bytes) :
    S2 (fun a b sA' sB' => b = a ∧ ∃ p', p ≤ p' ∧ SR src k ls p' sA' sB')
      (listContTb tail sA) (listContTb tail sB) := by
  unfold listContTb
  by_cases hc1 : isThematicBreak tail 0 = true
  · simp only [if_pos hc1]
    refine S2.bind (lastOpenedBlock_s2 h) (fun la lb sA1 sB1 hq => ?_)
    obtain ⟨hlr, _, hsA, hsB⟩ := hq
    subst hsA hsB
    rcases hlr with ⟨ha, hb⟩ | ⟨blk, ha, hb⟩
    · subst ha hb
      have hk := (h.n.node 0).kind
      simp only [beq_self_eq_true, if_true] at hk
      have e : getNode bqBlock.node sB1 = .ok (sB1.nodes.getD 1 default, sB1) := rfl
      refine S2.bindR e ?_
      have e2 : ((sB1.nodes.getD 1 default).kind == Kind.paragraph) = false := by rw [hk.1]; rfl
      rw [e2]
      exact listContTb2_s2 h tail false
    · subst ha hb
      refine S2.bind (getNode_s2 h blk.node) (fun a b sA2 sB2 hq => ?_)
      obtain ⟨hab, h2⟩ := hq
      have hkp : (b.kind == Kind.paragraph) = (a.kind == Kind.paragraph) := by
        have hkk := hab.kind
        by_cases h0 : blk.node = 0
        · rw [h0] at hkk
          simp only [beq_self_eq_true, if_true] at hkk
          rw [hkk.1, hkk.2]; rfl
        · rw [beq_eq_false_iff_ne.mpr h0] at hkk
          simp only [Bool.false_eq_true, if_false] at hkk
          rw [hkk]
      rw [hkp]
      exact listContTb2_s2 h2 tail _
  · simp only [if_neg hc1]
    exact S2.pure ⟨rfl, p, Nat.le_refl _, h⟩

theorem listContinue_sim (src : Bytes) : ContinueSim src .list := by
  intro k ls p node sA sB h
  show S2 _ (listContinue node sA) (listContinue (node + 1) sB)
  unfold listContinue
  refine S2.bind (getNode_s2 h node) (fun la lb sA1 sB1 hq => ?_)
  obtain ⟨hlist, h1⟩ := hq
  refine S2.bind (peekLine_s2 h1) (fun a b sA2 sB2 hq => ?_)
  obtain ⟨ha, hb, h2⟩ := hq
  subst ha hb
  simp only
  have htf := viewA_tf h.r.tf ls p
  by_cases hc1 : isBlank ((viewA src ls p).getD []) = true
  · simp only [if_pos hc1]
    refine S2.bind (lastChildCount_s2 h2 node) (fun ca0 ca sA3 sB3 hq => ?_)
    obtain ⟨hcc, h3⟩ := hq
    subst hcc
    by_cases hc2 : (ca == 0) = true
    · simp only [if_pos hc2]
      refine S2.bind (modPc_s2 h3 _ _ (fun a b hab => ?_)) (fun _ _ sA4 sB4 h4 => ?_)
      · exact { hab with emptyItemBlank := rfl }
      · exact S2.pure ⟨rfl, p, Nat.le_refl _, h4⟩
    · simp only [if_neg hc2]
      exact S2.pure ⟨rfl, p, Nat.le_refl _, h3⟩
  simp only [if_neg hc1]
  refine S2.bind (lastOffset_s2 h2 node) (fun offset0 offset sA3 sB3 hq => ?_)
  obtain ⟨hoo, h3⟩ := hq
  subst hoo
  refine S2.bind (lastChildCount_s2 h3 node) (fun ca0 ca sA4 sB4 hq => ?_)
  obtain ⟨hcc, h4⟩ := hq
  subst hcc
  refine S2.bind (lineOffset_s2 h4) (fun oa ob sA5 sB5 hq => ?_)
  obtain ⟨_, h5⟩ := hq
  rw [indentWidthI_tf _ htf ob oa]
  generalize indentWidthI ((viewA src ls p).getD []) oa = r
  obtain ⟨indent, _⟩ := r
  simp only
  generalize (ca == 0) = lastIsEmpty
  by_cases hc2 : (decide (indent < offset) || lastIsEmpty) = true
  · simp only [if_pos hc2]
    by_cases hc3 : indent < 4
    · simp only [if_pos hc3]
      generalize matchesListItem ((viewA src ls p).getD []) false = r
      obtain ⟨m, typ⟩ := r
      simp only
      by_cases hc4 : (typ != ListTyp.notList && decide (m.r1 - offset < 4)) = true
      · simp only [if_pos hc4]
        refine S2.bind (P := fun a b sA' sB' => b = a ∧ SR src k ls p sA' sB')
          (S2.liftE (fun a ha => ⟨a, ha, rfl, h5⟩)) (fun mk0 mk sA6 sB6 hq => ?_)
        obtain ⟨hmm, h6⟩ := hq
        subst hmm
        rw [hlist.marker]
        by_cases hc5 : (!(mk == la.marker && (typ == ListTyp.ordered) == markerOrdered la.marker)) = true
        · simp only [if_pos hc5]
          exact S2.pure ⟨rfl, p, Nat.le_refl _, h6⟩
        simp only [if_neg hc5]
        refine S2.bind (P := fun a b sA' sB' => b = a ∧ SR src k ls p sA' sB')
          (S2.liftE (fun a ha => ⟨a, ha, rfl, h6⟩)) (fun tl0 tl sA7 sB7 hq => ?_)
        obtain ⟨htt, h7⟩ := hq
        subst htt
        exact listContTb_s2 h7 tl
      · simp only [if_neg hc4]
        exact listContMid_s2 h5 lastIsEmpty indent offset
    · simp only [if_neg hc3]
      exact listContMid_s2 h5 lastIsEmpty indent offset
  · simp only [if_neg hc2]
    exact listContFin_s2 h5 lastIsEmpty indent offset

/-! ### listItemParser.Open -/

theorem indentWidthGo_tf_ge_ls (cur : Int) : ∀ (bs : Bytes) (w p : Int), (∀ c ∈ bs, c ≠ 9) →
    w ≤ (indentWidthGo cur bs w p).1 := by
  intro bs
  induction bs with
  | nil => intro w p _; simp [indentWidthGo]
  | cons b bs ih =>
    intro w p h
    have hb : (b == 9) = false := by
      have := h b (by simp); simpa using this
    unfold indentWidthGo
    simp only [hb, Bool.false_eq_true, if_false]
    split
    · have := ih (w + 1) (p + 1) (fun c hc => h c (by simp [hc])); omega
    · simp

theorem drop_tf_ls {l : Bytes} (h : ∀ c ∈ l, c ≠ 9) (n : Nat) : ∀ c ∈ l.drop n, c ≠ 9 :=
  fun c hc => h c (List.mem_of_mem_drop hc)

theorem calcListOffset_tf (line : Bytes) (h : ∀ c ∈ line, c ≠ 9) (m : M6) (lo lo' : Int) :
    calcListOffset line m lo = calcListOffset line m lo' := by
  unfold calcListOffset
  by_cases h4 : m.r4 < 0
  · simp only [if_pos h4]
  · simp only [if_neg h4]
    unfold sliceFrom
    split
    · simp only [bind, Except.bind]
      rw [indentWidthI_tf _ (drop_tf_ls h _) (lo + m.r4) (lo' + m.r4)]
    · rfl

theorem calcListOffset_tf_nonneg_ls (line : Bytes) (h : ∀ c ∈ line, c ≠ 9) (m : M6) (lo v : Int)
    (hv : calcListOffset line m lo = .ok v) : 0 ≤ v := by
  unfold calcListOffset at hv
  by_cases h4 : m.r4 < 0
  · simp only [if_pos h4] at hv; cases hv; decide
  · simp only [if_neg h4] at hv
    unfold sliceFrom at hv
    split at hv
    · simp only [bind, Except.bind] at hv
      split at hv
      · cases hv; decide
      · simp only [pure, Except.pure] at hv
        cases hv
        have := indentWidthGo_tf_ge_ls (lo + m.r4) (line.drop m.r4.toNat) 0 0 (drop_tf_ls h _)
        unfold indentWidthI
        split
        · decide
        · exact this
    · cases hv

theorem pliFinish_spec (line : Bytes) (k i : Nat) (typ : ListTyp) (hi : 1 ≤ i)
    (h : (pliFinish line k i typ).2 ≠ .notList) :
    1 ≤ (pliFinish line k i typ).1.r3 ∧ ((pliFinish line k i typ).1.r4 < 0 ∨
      ((pliFinish line k i typ).1.r4 = (pliFinish line k i typ).1.r3 ∧
        (pliFinish line k i typ).1.r3 < line.length)) := by
  unfold pliFinish at h ⊢
  cases hd : line.drop i with
  | nil =>
    simp only
    exact ⟨by omega, .inl (by decide)⟩
  | cons c cs =>
    rw [hd] at h
    simp only at h ⊢
    have hlt : i < line.length := by
      rcases Nat.lt_or_ge i line.length with h' | h'
      · exact h'
      · rw [List.drop_eq_nil_of_le h'] at hd; cases hd
    split
    · next hc => rw [if_pos hc] at h; exact absurd rfl h
    · simp only
      exact ⟨by omega, .inr ⟨trivial, by omega⟩⟩

theorem parseListItem_spec (line : Bytes) (h : (parseListItem line).2 ≠ .notList) :
    1 ≤ (parseListItem line).1.r3 ∧ ((parseListItem line).1.r4 < 0 ∨
      ((parseListItem line).1.r4 = (parseListItem line).1.r3 ∧ (parseListItem line).1.r3 < line.length)) := by
  unfold parseListItem at h ⊢
  simp only at h ⊢
  split
  · next hc => rw [if_pos hc] at h; exact absurd rfl h
  · next hc =>
    rw [if_neg hc] at h
    split
    · next hd => rw [hd] at h; exact absurd rfl h
    · next c cs hd =>
      rw [hd] at h
      simp only at h ⊢
      split
      · next hb => rw [if_pos hb] at h; exact pliFinish_spec line _ _ _ (by omega) h
      · next hb =>
        rw [if_neg hb] at h
        split
        · next hn => rw [if_pos hn] at h; exact absurd rfl h
        · next hn =>
          rw [if_neg hn] at h
          split
          · next d ds hdd =>
            rw [hdd] at h
            simp only at h ⊢
            split
            · next hd2 => rw [if_pos hd2] at h; exact pliFinish_spec line _ _ _ (by omega) h
            · next hd2 => rw [if_neg hd2] at h; exact absurd rfl h
          · next hdd => rw [hdd] at h; exact absurd rfl h

theorem matchesListItem_spec (line : Bytes) (strict : Bool) (h : (matchesListItem line strict).2 ≠ .notList) :
    1 ≤ (matchesListItem line strict).1.r3 ∧ ((matchesListItem line strict).1.r4 < 0 ∨
      ((matchesListItem line strict).1.r4 = (matchesListItem line strict).1.r3 ∧
        (matchesListItem line strict).1.r3 < line.length)) := by
  unfold matchesListItem at h ⊢
  simp only at h ⊢
  split
  · next hc =>
    rw [if_pos hc] at h
    exact parseListItem_spec line h
  · next hc => rw [if_neg hc] at h; exact absurd rfl h

theorem indentPosition_tf_ge_ls (bs : Bytes) (h : ∀ c ∈ bs, c ≠ 9) (cur width : Int) (hw : 0 ≤ width) :
    -1 ≤ (indentPosition bs cur width).1 := by
  unfold indentPosition indentPositionPadding
  split
  · simp
  · have := ippLoop_tf_le cur width bs 0 0 h hw
    simp only
    split
    · simp only; omega
    · simp

theorem sliceFrom_ok_inv_ls {l : Bytes} {a : Int} {v : Bytes} (h : sliceFrom l a = .ok v) :
    0 ≤ a ∧ a ≤ l.length ∧ v = l.drop a.toNat := by
  unfold sliceFrom at h
  split at h
  · next hc => cases h; exact ⟨hc.1, hc.2, rfl⟩
  · cases h

theorem listItemOpen_sim (src : Bytes) : OpenSim src .listItem := by
  intro k ls p parent sA sB h
  show S2 _ (listItemOpen parent sA) (listItemOpen (parent + 1) sB)
  unfold listItemOpen
  refine S2.bind (getNode_s2 h parent) (fun pa pb sA1 sB1 hq => ?_)
  obtain ⟨hpar, h1⟩ := hq
  have hkp : (pb.kind != Kind.list) = (pa.kind != Kind.list) := by
    have hkk := hpar.kind
    by_cases h0 : parent = 0
    · rw [h0] at hkk
      simp only [beq_self_eq_true, if_true] at hkk
      rw [hkk.1, hkk.2]; rfl
    · rw [beq_eq_false_iff_ne.mpr h0] at hkk
      simp only [Bool.false_eq_true, if_false] at hkk
      rw [hkk]
  rw [hkp]
  by_cases hc1 : (pa.kind != Kind.list) = true
  · simp only [if_pos hc1]
    exact S2.pure ⟨⟨rfl, .inl ⟨rfl, rfl⟩⟩, p, Nat.le_refl _, h1⟩
  simp only [if_neg hc1]
  refine S2.bind (lastOffset_s2 h1 parent) (fun offset0 offset sA2 sB2 hq => ?_)
  obtain ⟨hoo, h2⟩ := hq
  subst hoo
  refine S2.bind (peekLine_s2 h2) (fun a b sA3 sB3 hq => ?_)
  obtain ⟨ha, hb, h3⟩ := hq
  subst ha hb
  simp only
  have htf := viewA_tf h.r.tf ls p
  have hlen := viewA_length (src := src) ls p
  have hms := matchesListItem_spec ((viewA src ls p).getD []) false
  generalize matchesListItem ((viewA src ls p).getD []) false = r at hms
  obtain ⟨m, typ⟩ := r
  simp only at hms ⊢
  by_cases hc2 : (typ == ListTyp.notList) = true
  · simp only [if_pos hc2]
    exact S2.pure ⟨⟨rfl, .inl ⟨rfl, rfl⟩⟩, p, Nat.le_refl _, h3⟩
  simp only [if_neg hc2]
  have hms := hms (by simpa using hc2)
  by_cases hc3 : m.r1 - offset > 3
  · simp only [if_pos hc3]
    exact S2.pure ⟨⟨rfl, .inl ⟨rfl, rfl⟩⟩, p, Nat.le_refl _, h3⟩
  simp only [if_neg hc3]
  refine S2.bind (modPc_s2 h3 _ _ (fun a b hab => ?_)) (fun _ _ sA4 sB4 h4 => ?_)
  · exact { hab with emptyItemBlank := rfl }
  refine S2.bind (lineOffset_s2 h4) (fun oa ob sA5 sB5 hq => ?_)
  obtain ⟨_, h5⟩ := hq
  rw [calcListOffset_tf _ htf m ob oa]
  refine S2.bind (P := fun a b sA' sB' => b = a ∧ calcListOffset ((viewA src ls p).getD []) m oa = .ok a ∧
      SR src k ls p sA' sB') (S2.liftE (fun a ha => ⟨a, ha, rfl, ha, h5⟩)) (fun io0 io sA6 sB6 hq => ?_)
  obtain ⟨hii, hio, h6⟩ := hq
  subst hii
  have hio0 : 0 ≤ io := calcListOffset_tf_nonneg_ls _ htf m oa io hio
  refine S2.bind (newNode_s2 h6 _ _ (nodeRel_new src _ rfl rfl rfl rfl (by show (-1 : Int) < 0; decide)))
    (fun n n' sA7 sB7 hq => ?_)
  obtain ⟨_, hm, hn0, h7⟩ := hq
  subst hm
  by_cases hc4 : m.r4 < 0
  · simp only [if_pos hc4]
    exact S2.pure ⟨⟨rfl, .inr ⟨n, hn0, rfl, rfl⟩⟩, p, Nat.le_refl _, h7⟩
  simp only [if_neg hc4]
  refine S2.bind (P := fun a b sA' sB' => b = a ∧ slice ((viewA src ls p).getD []) m.r4 m.r5 = .ok a ∧
      SR src k ls p sA' sB') (S2.liftE (fun a ha => ⟨a, ha, rfl, ha, h7⟩)) (fun v0 v sA8 sB8 hq => ?_)
  obtain ⟨hvv, hv, h8⟩ := hq
  subst hvv
  by_cases hc5 : isBlank v = true
  · simp only [if_pos hc5]
    exact S2.pure ⟨⟨rfl, .inr ⟨n, hn0, rfl, rfl⟩⟩, p, Nat.le_refl _, h8⟩
  simp only [if_neg hc5]
  refine S2.bind (P := fun a b sA' sB' => b = a ∧ sliceFrom ((viewA src ls p).getD []) m.r4 = .ok a ∧
      SR src k ls p sA' sB') (S2.liftE (fun a ha => ⟨a, ha, rfl, ha, h8⟩)) (fun tl0 tl sA9 sB9 hq => ?_)
  obtain ⟨htt, htl, h9⟩ := hq
  subst htt
  obtain ⟨ht0, ht1, htv⟩ := sliceFrom_ok_inv_ls htl
  have httf : ∀ c ∈ tl, c ≠ 9 := by rw [htv]; exact drop_tf_ls htf _
  rw [indentPosition_tf _ httf (ob + m.r4) (oa + m.r4) io]
  have hpad := indentPosition_tf_pad tl httf (oa + m.r4) io hio0
  have hge := indentPosition_tf_ge_ls tl httf (oa + m.r4) io hio0
  have hsp := indentPosition_tf_spaces tl httf (oa + m.r4) io
  generalize indentPosition tl (oa + m.r4) io = r at hpad hge hsp
  obtain ⟨pos, padding⟩ := r
  simp only at hpad hge hsp ⊢
  obtain ⟨hr3, hr4⟩ := hms
  have hr4 := hr4.resolve_left hc4
  have htlen : tl.length = ((viewA src ls p).getD []).length - m.r4.toNat := by rw [htv]; simp
  have hchild : 0 ≤ m.r3 + pos ∧ m.r3 + pos < ((viewA src ls p).getD []).length := by
    by_cases hneg : pos < 0
    · omega
    · obtain ⟨nn, e1, e2, e3⟩ := hsp (by omega)
      rcases Nat.lt_or_ge nn tl.length with h' | h'
      · omega
      · exfalso; apply hc5
        rw [List.take_of_length_le h'] at e3
        obtain ⟨_, _, _, hvs⟩ := sliceB_ok_inv_la hv
        apply isBlank_of_spaces
        intro c hc
        rw [hvs] at hc
        apply e3
        rw [htv]
        exact List.mem_of_mem_take hc
  have hi := h.r.inl
  clear hsp
  refine S2.bind (advanceAndSetPadding_s2 h9 rfl rfl hchild.1 hpad.1 ?_) (fun _ _ sA10 sB10 h10 => ?_)
  · exact ⟨hi.line, by have := hi.ge; omega, by omega, fun e => by omega⟩
  · exact S2.pure ⟨⟨rfl, .inr ⟨n, hn0, rfl, rfl⟩⟩, _, Nat.le_add_right _ _, h10⟩

/-! ### listItemParser.Continue -/

/-- add a fact about run A alone to a simulation step -/
theorem S2.withL_ls {α β} {Q : α → β → St → St → Prop} {x : Except Panic (α × St)} {y : Except Panic (β × St)}
    (h : S2 Q x y) (P : α → St → Prop) (hp : ∀ a sA, x = .ok (a, sA) → P a sA) :
    S2 (fun a b sA sB => Q a b sA sB ∧ P a sA) x y := by
  intro a sA e
  obtain ⟨b, sB, h1, h2⟩ := h a sA e
  exact ⟨b, sB, h1, h2, hp a sA e⟩

theorem peekLine_keeps_ls {s s' : St} {a} (e : peekLine s = .ok (a, s')) : s'.nodes = s.nodes ∧ s'.pc = s.pc := by
  unfold GM.Blocks.peekLine at e
  cases hr : s.r.peekLine with
  | error x => rw [hr] at e; cases e
  | ok v => rw [hr] at e; obtain ⟨x, r⟩ := v; cases e; exact ⟨rfl, rfl⟩

theorem lineOffset_keeps_ls {s s' : St} {a} (e : lineOffset s = .ok (a, s')) : s'.nodes = s.nodes ∧ s'.pc = s.pc := by
  unfold GM.Blocks.lineOffset at e
  cases hr : s.r.lineOffsetOp with
  | error x => rw [hr] at e; cases e
  | ok v => rw [hr] at e; obtain ⟨x, r⟩ := v; cases e; exact ⟨rfl, rfl⟩

theorem getNode_keeps_ls {s s' : St} {id a} (e : getNode id s = .ok (a, s')) : a = s.nodes.getD id default ∧ s' = s := by
  cases e; exact ⟨rfl, rfl⟩

/-- the value `lastOffset q` returns when it does not panic -/
def lastOffsetVal (nodes : List Node) (q : Nat) : Int :=
  match (nodes.getD q default).children.getLast? with
  | none => 0
  | some lc => (nodes.getD lc default).offset

theorem lastOffset_keeps_ls {s s' : St} {q a} (e : lastOffset q s = .ok (a, s')) :
    a = lastOffsetVal s.nodes q ∧ s' = s := by
  unfold lastOffset at e
  rw [bind_run (rfl : getNode q s = .ok (s.nodes.getD q default, s))] at e
  unfold lastOffsetVal
  cases hl : (s.nodes.getD q default).children.getLast? with
  | none => rw [hl] at e; cases e; exact ⟨rfl, rfl⟩
  | some lc =>
    rw [hl] at e
    simp only at e ⊢
    rw [bind_run (rfl : getNode lc s = .ok (s.nodes.getD lc default, s))] at e
    by_cases hc : ((s.nodes.getD lc default).kind != Kind.listItem) = true
    · rw [if_pos hc] at e; cases e
    · rw [if_neg hc] at e; cases e; exact ⟨rfl, rfl⟩

/-- on a tab-free line `IndentPositionPadding` reaches `width` when the line is indented that far -/
theorem ippLoop_tf_reach_ls (cur cur' width : Int) : ∀ (bs : Bytes) (i w p : Int), (∀ c ∈ bs, c ≠ 9) →
    width ≤ (indentWidthGo cur' bs w p).1 → width ≤ (ippLoop cur width bs i 0 w).2 := by
  intro bs
  induction bs with
  | nil => intro i w p _ hw; simpa [ippLoop, indentWidthGo] using hw
  | cons b bs ih =>
    intro i w p h hw
    have hb : (b == 9) = false := by
      have := h b (by simp); simpa using this
    unfold indentWidthGo at hw
    unfold ippLoop
    simp only [hb, Bool.false_and, Bool.false_eq_true, if_false, Int.lt_irrefl] at hw ⊢
    by_cases h32 : (b == 32) = true
    · rw [if_pos h32] at hw
      by_cases hlt : w < width
      · rw [if_pos (by simp [h32, hlt])]
        exact ih (i + 1) (w + 1) (p + 1) (fun c hc => h c (by simp [hc])) hw
      · rw [if_neg (by simp [hlt])]
        simp only; omega
    · rw [if_neg h32] at hw
      rw [if_neg (by simp [h32])]
      simpa using hw

theorem indentPosition_tf_nonneg_ls (bs : Bytes) (h : ∀ c ∈ bs, c ≠ 9) (cur cur' width : Int) (hw : 0 ≤ width)
    (hge : width ≤ (indentWidthI bs cur').1) : 0 ≤ (indentPosition bs cur width).1 := by
  unfold indentPosition indentPositionPadding
  split
  · simp
  · have h1 := ippLoop_tf_le cur width bs 0 0 h hw
    have h2 := ippLoop_tf_reach_ls cur cur' width bs 0 0 0 h hge
    simp only
    rw [if_pos h2]
    simp only; omega

/-- the end of `listItemContinue`: the item's indentation is skipped -/
def listItemContFin (line : Bytes) (lo offset : Int) : M PState := do
  advanceAndSetPadding (indentPosition line lo offset).1 (indentPosition line lo offset).2
  return stContinueHasChildren

theorem listItemContFin_s2 {src k ls p} {sA sB : St} (h : SR src k ls p sA sB) (oa ob offset : Int)
    (h0 : 0 ≤ offset) (hge : offset ≤ (indentWidthI ((viewA src ls p).getD []) 0).1)
    (hnb : ¬ isBlank ((viewA src ls p).getD []) = true) :
    S2 (fun a b sA' sB' => b = a ∧ ∃ p', p ≤ p' ∧ SR src k ls p' sA' sB')
      (listItemContFin ((viewA src ls p).getD []) oa offset sA)
      (listItemContFin ((viewA src ls p).getD []) ob offset sB) := by
  unfold listItemContFin
  have htf := viewA_tf h.r.tf ls p
  rw [indentPosition_tf _ htf ob oa offset]
  have hpos := indentPosition_tf_nonneg_ls _ htf oa 0 offset h0 hge
  have hlt := indentPosition_tf_lt _ htf oa offset hpos hnb
  rw [viewA_length] at hlt
  have hpad := (indentPosition_tf_pad _ htf oa offset h0).1
  have hi := h.r.inl
  refine S2.bind (advanceAndSetPadding_s2 h rfl rfl hpos hpad ?_) (fun _ _ sA1 sB1 h1 => ?_)
  · exact ⟨hi.line, by have := hi.ge; omega, by omega, fun e => by omega⟩
  · exact S2.pure ⟨rfl, _, Nat.le_add_right _ _, h1⟩

/-- What `listItemContinue_sim'` needs of A's state (`node` is the list item, `q` its parent list): the offset of
    the list's last item is not negative, and a line that is indented less than that offset makes
    `listItemContinue` answer `Close` (so that `IndentPosition` is only asked for an indentation that is there;
    otherwise goldmark calls `AdvanceAndSetPadding(-1, -1)`, which moves the reader BACK). -/
def ListItemContPre (src : Bytes) (ls p node : Nat) (sA : St) : Prop :=
  ∀ q, (sA.nodes.getD node default).parent = some q →
    0 ≤ lastOffsetVal sA.nodes q ∧
    ((indentWidthI ((viewA src ls p).getD []) 0).1 < lastOffsetVal sA.nodes q →
      (indentWidthI ((viewA src ls p).getD []) 0).1 < 4 ∧
      ((matchesListItem ((viewA src ls p).getD []) true).2 ≠ ListTyp.notList ∨
        ((sA.nodes.getD node default).children.length == 0 && sA.pc.emptyItemBlank) = false))

/-- the simplest way to get `ListItemContPre`: the line is indented at least as far as the last item's offset -/
theorem ListItemContPre.of_ge {src : Bytes} {ls p node : Nat} {sA : St}
    (h : ∀ q, (sA.nodes.getD node default).parent = some q →
      0 ≤ lastOffsetVal sA.nodes q ∧
        lastOffsetVal sA.nodes q ≤ (indentWidthI ((viewA src ls p).getD []) 0).1) :
    ListItemContPre src ls p node sA := by
  intro q hq
  obtain ⟨h1, h2⟩ := h q hq
  exact ⟨h1, fun hlt => by omega⟩

/-- `listItemContinue` is simulated when a line is there (`hline`; at the end of the source the peeked line is
    empty and goldmark calls `Advance(-1)`) and `ListItemContPre` holds. -/
theorem listItemContinue_sim' (src : Bytes) : ∀ k ls p node sA sB, SR src k ls p sA sB → p < src.length →
    (isBlank ((viewA src ls p).getD []) = false → ListItemContPre src ls p node sA) →
    S2 (fun a b sA' sB' => b = a ∧ ∃ p', p ≤ p' ∧ SR src k ls p' sA' sB')
      (bpContinue .listItem node sA) (bpContinue .listItem (node + 1) sB) := by
  intro k ls p node sA sB h hline hpre0
  show S2 _ (listItemContinue node sA) (listItemContinue (node + 1) sB)
  unfold listItemContinue
  refine S2.bind ((peekLine_s2 h).withL_ls (fun _ s' => s'.nodes = sA.nodes ∧ s'.pc = sA.pc)
    (fun _ _ e => peekLine_keeps_ls e)) (fun a b sA1 sB1 hq => ?_)
  obtain ⟨⟨ha, hb, h1⟩, hk1⟩ := hq
  subst ha hb
  simp only
  have htf := viewA_tf h.r.tf ls p
  have hi := h.r.inl
  have hplt := hi.lt_iff.mp hline
  have hlen := viewA_length (src := src) ls p
  by_cases hc1 : isBlank ((viewA src ls p).getD []) = true
  · simp only [if_pos hc1]
    refine S2.bind (advance_s2 h1 rfl (by omega) ?_) (fun _ _ sA2 sB2 h2 => ?_)
    · exact ⟨hi.line, by have := hi.ge; omega, by omega, fun e => by omega⟩
    · exact S2.pure ⟨rfl, _, Nat.le_add_right _ _, h2⟩
  simp only [if_neg hc1]
  have hpre := hpre0 (by simpa using hc1)
  refine S2.bind ((getNode_s2 h1 node).withL_ls (fun a s' => a = sA1.nodes.getD node default ∧ s' = sA1)
    (fun _ _ e => getNode_keeps_ls e)) (fun na nb sA2 sB2 hq => ?_)
  obtain ⟨⟨hab, h2⟩, hna, hk2⟩ := hq
  subst hk2
  rw [hk1.1] at hna
  by_cases hn0 : node = 0
  · have hp := hab.parent
    rw [hn0] at hp
    simp only [beq_self_eq_true, if_true] at hp
    rw [hp.2]
    simp only
    exact S2.bindL (sB := sB2) (P := fun _ _ _ => False) (fun a sA' e => by cases e) (fun _ _ hf => hf.elim)
  have hp := hab.parent
  rw [beq_eq_false_iff_ne.mpr hn0] at hp
  simp only [Bool.false_eq_true, if_false] at hp
  rw [hp]
  cases hpa : na.parent with
  | none =>
    simp only
    exact S2.bind (P := fun _ _ _ _ => False) S2.throwL (fun _ _ _ _ hf => hf.elim)
  | some q =>
    simp only [Option.map_some]
    refine S2.bind ((lastOffset_s2 h2 q).withL_ls (fun a s' => a = lastOffsetVal sA2.nodes q ∧ s' = sA2)
      (fun _ _ e => lastOffset_keeps_ls e)) (fun offset0 offset sA3 sB3 hq => ?_)
    obtain ⟨⟨hoo, h3⟩, hov, hk3⟩ := hq
    subst hk3
    rw [hk1.1] at hov
    refine S2.bind (getPc_s2 h3) (fun ca cb sA4 sB4 hq => ?_)
    obtain ⟨hca, _, hcr, hsa, hsb⟩ := hq
    subst hsa hsb
    rw [hk1.2] at hca
    refine S2.bind (lineOffset_s2 h3) (fun oa ob sA5 sB5 hq => ?_)
    obtain ⟨_, h5⟩ := hq
    rw [hab.children, List.length_map, hcr.emptyItemBlank, hoo,
      indentWidthI_tf _ htf ob 0, indentWidthI_tf _ htf oa 0]
    obtain ⟨hpre0, hpre1⟩ := hpre q (by rw [← hna]; exact hpa)
    rw [← hov] at hpre0 hpre1
    rw [← hna, ← hca] at hpre1
    by_cases hc2 : ((na.children.length == 0 && ca.emptyItemBlank ||
        decide ((indentWidthI ((viewA src ls p).getD []) 0).fst < offset0)) &&
        decide ((indentWidthI ((viewA src ls p).getD []) 0).fst < 4)) = true
    · simp only [if_pos hc2]
      by_cases hc3 : ((matchesListItem ((viewA src ls p).getD []) true).snd != ListTyp.notList) = true
      · simp only [if_pos hc3]
        refine S2.bind (modPc_s2 h5 _ _ (fun a b hab => ?_)) (fun _ _ sA6 sB6 h6 => ?_)
        · exact { hab with skipList := rfl }
        · exact S2.pure ⟨rfl, p, Nat.le_refl _, h6⟩
      simp only [if_neg hc3]
      by_cases hc4 : (!(na.children.length == 0 && ca.emptyItemBlank)) = true
      · simp only [if_pos hc4]
        exact S2.pure ⟨rfl, p, Nat.le_refl _, h5⟩
      simp only [if_neg hc4]
      refine listItemContFin_s2 h5 oa ob offset0 hpre0 ?_ hc1
      by_cases hlt : (indentWidthI ((viewA src ls p).getD []) 0).fst < offset0
      · exfalso
        rcases (hpre1 hlt).2 with h' | h'
        · exact hc3 (by simpa using h')
        · rw [h'] at hc4; exact hc4 rfl
      · exact Int.not_lt.mp hlt
    · simp only [if_neg hc2]
      refine listItemContFin_s2 h5 oa ob offset0 hpre0 ?_ hc1
      by_cases hlt : (indentWidthI ((viewA src ls p).getD []) 0).fst < offset0
      · exfalso
        apply hc2
        have := (hpre1 hlt).1
        simp [hlt, this]
      · exact Int.not_lt.mp hlt

end GM.Blocks
