/-
  GM.Proof.BlocksNoPanicAll — the block phase of goldmark ends normally for EVERY source: the per-parser lemmas of
  GM.Proof.BlocksFrames / BlocksDet / BlocksPlt plugged into the list-aware driver proof GM.Proof.BlocksDriverL.
-/
import GM.Proof.BlocksDriverL
import GM.Proof.BlocksFrames
import GM.Proof.BlocksPlt

namespace GM.Blocks
open GM GM.Text GM.Spec GM.Proof.Reader

theorem lsp_all (src : Bytes) : L.LSp src where
  closeTF := fun bp node s s' hn hk hb hkids h => bpClose_tf src bp node s s' hn hk hb hkids h
  contTS := fun bp node s st s' h => bpContinue_treeSame bp node s st s' h
  thematicDet := fun parent s c h hlt => thematicOpen_det src parent s c h hlt
  setextNone := fun parent s c h hlt => setextOpen_none src parent s c h hlt
  paraCloseTS := fun node s s' hb hn h => paragraphClose_tf (src := src) node s s' hb hn h
  closePLT := fun bp node s s' hn hk hb hkids hp h => bpClose_plt src bp node s s' hn hk hb hkids hp h

/-- **No Go panic, no contract-monitor failure, and all line segments inside the source — for every byte string.** -/
theorem run_ok_all (src : Bytes) : ∃ s, run src = .ok s ∧ NodesOK src s := by
  rcases L.runL (lsp_all src) with h | h
  · exact h
  · exact absurd h (run_noLoop src)

end GM.Blocks
