/-
  GM.Proof.QuoteSimFE4 — unary facts about the block driver's own store steps (groundwork for C08 with lists in sources
  with blank lines): `SetBlankPreviousLines` (`mf_modNode`), `AppendChild` (`bps_appendChild`, `cha_appendChild`),
  `closeBlocks` (`bpn_closeBlocks`, `chn_closeBlocks`).
-/
import GM.Proof.QuoteSimFE1
import GM.Proof.QuoteSimFE2
import GM.Proof.QuoteSimFE3

namespace GM.Blocks
open GM GM.Text

theorem fe4_bind_inv {α β} {m : M α} {f : α → M β} {s s' : St} {b : β} (h : (m >>= f) s = .ok (b, s')) :
    ∃ a s1, m s = .ok (a, s1) ∧ f a s1 = .ok (b, s') := by
  simp only [Bind.bind, StateT.bind] at h
  cases hms : m s with
  | error e => rw [hms] at h; simp [Except.bind] at h
  | ok p =>
    rw [hms] at h
    simp only [Except.bind] at h
    exact ⟨p.1, p.2, rfl, h⟩

/-! ### 1. `SetBlankPreviousLines` -/

theorem mf_modNode (id : Nat) (b : Bool) {s s' : St} {u : Unit} (hlt : id < s.nodes.length)
    (e : modNode id (fun n => { n with blankPrev := b }) s = .ok (u, s')) : MF id b s.nodes s'.nodes := by
  refine ⟨fun i => modNode_proj (·.children) e (fun _ => rfl) i, fun i hi => ?_, ?_⟩
  · rw [modNode_getD e, if_neg (fun h => hi h.1.symm)]
  · rw [modNode_getD e, if_pos ⟨rfl, hlt⟩]

/-! ### 2. `AppendChild` changes no flag -/

/-- flags as in `n0`, and as many nodes -/
def BSI (n0 : List Node) : St → Prop := fun s => BPs n0 s.nodes ∧ s.nodes.length = n0.length

theorem bsi_modNode (n0 : List Node) (id : Nat) (f : Node → Node) (hf : ∀ n, (f n).blankPrev = n.blankPrev) :
    Keeps (BSI n0) (modNode id f) := by
  intro s a s' hs e
  refine ⟨fun i => ?_, ?_⟩
  · rw [modNode_proj (·.blankPrev) e hf i]; exact hs.1 i
  · rw [modNode_len e]; exact hs.2

theorem bsi_removeChild (n0 : List Node) (p c : Nat) : Keeps (BSI n0) (removeChild p c) := by
  unfold removeChild
  refine Keeps.bind (getNode_keeps _) (fun cn => Keeps.ite (fun _ => Keeps.pure _) (fun _ => ?_))
  exact Keeps.bind (bsi_modNode n0 p _ (fun _ => rfl)) (fun _ => bsi_modNode n0 c _ (fun _ => rfl))

theorem bsi_ensureIsolated (n0 : List Node) (c : Nat) : Keeps (BSI n0) (ensureIsolated c) := by
  unfold ensureIsolated
  refine Keeps.bind (getNode_keeps _) (fun cn => ?_)
  split
  · exact bsi_removeChild n0 _ c
  · exact Keeps.pure _

theorem bsi_appendChild (n0 : List Node) (p c : Nat) : Keeps (BSI n0) (appendChild p c) := by
  unfold appendChild
  refine Keeps.bind (bsi_ensureIsolated n0 c) (fun _ => ?_)
  exact Keeps.bind (bsi_modNode n0 p _ (fun _ => rfl)) (fun _ => bsi_modNode n0 c _ (fun _ => rfl))

theorem bps_appendChild (p c : Nat) {s s' : St} {u : Unit} (e : appendChild p c s = .ok (u, s')) :
    BPs s.nodes s'.nodes ∧ s'.nodes.length = s.nodes.length :=
  bsi_appendChild s.nodes p c s u s' ⟨fun _ => rfl, rfl⟩ e

/-! ### 3. `AppendChild` and the children but the first -/

/-- a children list `l'` got from `l` by removing -/
def LSub (l' l : List Nat) : Prop := (∀ x ∈ l'.drop 1, x ∈ l.drop 1) ∧ (l = [] → l' = [])

theorem LSub.refl (l : List Nat) : LSub l l := ⟨fun _ h => h, fun h => h⟩

theorem LSub.trans {a b c : List Nat} (h1 : LSub a b) (h2 : LSub b c) : LSub a c :=
  ⟨fun x hx => h2.1 x (h1.1 x hx), fun h => h1.2 (h2.2 h)⟩

theorem lsub_erase (l : List Nat) (c : Nat) : LSub (l.erase c) l :=
  ⟨fun _ hx => mem_drop_erase hx, fun h => by rw [h]; rfl⟩

/-- every children list was got from that of `n0` by removing -/
def SubI (n0 : List Node) : St → Prop :=
  fun s => ∀ q, LSub (s.nodes.getD q default).children (n0.getD q default).children

theorem subi_modNode (n0 : List Node) (id : Nat) (f : Node → Node) (hf : ∀ n, LSub (f n).children n.children) :
    Keeps (SubI n0) (modNode id f) := by
  intro s a s' hs e q
  rw [modNode_getD e]
  split
  · next h => rw [h.1]; exact (hf _).trans (hs q)
  · exact hs q

theorem subi_removeChild (n0 : List Node) (p c : Nat) : Keeps (SubI n0) (removeChild p c) := by
  unfold removeChild
  refine Keeps.bind (getNode_keeps _) (fun cn => Keeps.ite (fun _ => Keeps.pure _) (fun _ => ?_))
  exact Keeps.bind (subi_modNode n0 p _ (fun n => lsub_erase n.children c))
    (fun _ => subi_modNode n0 c _ (fun n => LSub.refl n.children))

theorem subi_ensureIsolated (n0 : List Node) (c : Nat) : Keeps (SubI n0) (ensureIsolated c) := by
  unfold ensureIsolated
  refine Keeps.bind (getNode_keeps _) (fun cn => ?_)
  split
  · exact subi_removeChild n0 _ c
  · exact Keeps.pure _

theorem cha_appendChild (p c : Nat) {s s' : St} {u : Unit} (e : appendChild p c s = .ok (u, s')) :
    CHA p c s.nodes s'.nodes := by
  unfold appendChild at e
  obtain ⟨_, s1, e1, e⟩ := fe4_bind_inv e
  obtain ⟨_, s2, e2, e3⟩ := fe4_bind_inv e
  have h1 : SubI s.nodes s1 := subi_ensureIsolated s.nodes c s _ s1 (fun _ => LSub.refl _) e1
  intro q' _ x hxm
  rw [modNode_proj (·.children) e3 (fun _ => rfl) q', modNode_getD e2] at hxm
  split at hxm
  · next h =>
    obtain ⟨rfl, _⟩ := h
    have hx' : x ∈ ((s1.nodes.getD p default).children ++ [c]).drop 1 := hxm
    rcases mem_drop_append hx' with hx | hx
    · exact Or.inl ((h1 p).1 x hx)
    · refine Or.inr ⟨hx, rfl, fun hnil => ?_⟩
      rw [(h1 p).2 hnil] at hx'
      simp at hx'
  · exact Or.inl ((h1 q').1 x hxm)

/-! ### 5. `closeBlocks` -/

theorem blockAt_mem {blocks : List Block} {i : Int} {b : Block} (h : blockAt blocks i = .ok b) : b ∈ blocks := by
  unfold blockAt at h
  split at h
  · cases h
  · split at h
    · next hb => cases h; exact List.mem_of_getElem? hb
    · cases h

theorem keeps_liftE_bind {I : St → Prop} {α β} (x : Except Panic α) (f : α → M β)
    (hf : ∀ a, x = .ok a → Keeps I (f a)) : Keeps I (liftE x >>= f) := by
  intro s b s' hs h
  obtain ⟨a, s1, h1, h2⟩ := fe4_bind_inv h
  cases x with
  | error e => cases h1
  | ok v => cases h1; exact hf _ rfl s b s' hs h2

/-- `closeLoop` only calls `Close` on blocks of the list it was given -/
theorem keeps_closeLoop_of {I : St → Prop} (blocks : List Block) (to : Int)
    (hb : ∀ b ∈ blocks, ∀ n, Keeps I (bpClose b.bp n)) : ∀ k, Keeps I (closeLoop blocks to k)
  | 0 => by unfold closeLoop; exact Keeps.pure _
  | k + 1 => by
    have ih := keeps_closeLoop_of blocks to hb k
    unfold closeLoop
    refine keeps_liftE_bind _ _ (fun b hb' => ?_)
    have hm := hb b (blockAt_mem hb')
    repeat' first
      | with_reducible apply Keeps.pure
      | with_reducible apply Keeps.bind
      | with_reducible apply Keeps.ite
      | with_reducible apply getNode_keeps
      | exact ih
      | exact hm _
      | intro_pi
      | split

theorem keeps_closeBlocks_of {I : St → Prop} (hpc : ∀ f, Keeps I (modPc f)) (frm to : Int) {s s' : St} {u : Unit}
    (hb : ∀ b ∈ s.pc.opened, ∀ n, Keeps I (bpClose b.bp n)) (hs : I s) (e : closeBlocks frm to s = .ok (u, s')) :
    I s' := by
  unfold closeBlocks at e
  obtain ⟨pc, s1, e1, e⟩ := fe4_bind_inv e
  cases e1
  refine Keeps.ok (I := I) ?_ hs e
  have hl := keeps_closeLoop_of (I := I) s.pc.opened to hb
  repeat' first
    | with_reducible apply Keeps.pure
    | with_reducible apply Keeps.bind
    | with_reducible apply Keeps.ite
    | with_reducible apply liftE_keeps
    | exact hl _
    | exact hpc _
    | intro_pi
    | split

theorem bpn_closeBlocks (frm to : Int) {s s' : St} {u : Unit} (h : ∀ b ∈ s.pc.opened, b.bp ≠ .setext)
    (e : closeBlocks frm to s = .ok (u, s')) : BPn s.nodes s'.nodes :=
  keeps_closeBlocks_of (I := BPI s.nodes) (bpi_modPc s.nodes) frm to
    (fun b hb n => bpn_bpClose b.bp (h b hb) n s.nodes) (BPn.refl _) e

theorem chn_closeBlocks (frm to : Int) {s s' : St} {u : Unit} (h : ∀ b ∈ s.pc.opened, b.bp ≠ .setext)
    (e : closeBlocks frm to s = .ok (u, s')) : CHn s.nodes s'.nodes :=
  keeps_closeBlocks_of (I := CHI s.nodes) (gi_modPc _ s.nodes) frm to
    (fun b hb n => chn_bpClose b.bp (h b hb) n s.nodes) (CHn.refl _) e

/-! ### 4. a node without children stays without children across `Close` / `closeBlocks` -/

theorem qe_insertBefore_ne (q p : Nat) (v1 : Option Nat) (ins : Nat) (hne : p ≠ q) :
    Keeps (QE q) (insertBefore p v1 ins) := by
  unfold insertBefore
  split
  · exact qe_appendChild q p ins hne
  · refine Keeps.bind (getNode_keeps _) (fun vn => Keeps.ite (fun _ => qe_appendChild q p ins hne) (fun _ => ?_))
    refine Keeps.bind (qe_ensureIsolated q ins) (fun _ => ?_)
    exact Keeps.bind (qe_modNode q p _ (fun e => absurd e hne)) (fun _ => qe_modNode q ins _ (fun _ n h => h))

theorem qe_replaceChild_ne (q p v1 ins : Nat) (hne : p ≠ q) : Keeps (QE q) (replaceChild p v1 ins) := by
  unfold replaceChild
  exact Keeps.bind (qe_insertBefore_ne q p (some v1) ins hne) (fun _ => qe_removeChild q p v1)

/-- `tightenItem child gcs` only changes the children list of `child` -/
theorem qe_tightenItem_ne (q child : Nat) (hne : child ≠ q) : ∀ gcs, Keeps (QE q) (tightenItem child gcs) := by
  intro gcs
  induction gcs with
  | nil => unfold tightenItem; exact Keeps.pure _
  | cons gc gcs ih =>
    have hb := qe_benign q
    have hr := fun v i => qe_replaceChild_ne q child v i hne
    unfold tightenItem
    bn

/-- `tightenItems` reads the children of every item: nothing to do below an item without children -/
theorem qe_tightenItems (q : Nat) : ∀ cs, Keeps (QE q) (tightenItems cs) := by
  intro cs
  induction cs with
  | nil => unfold tightenItems; exact Keeps.pure _
  | cons c cs ih =>
    unfold tightenItems
    intro s a s' hs e
    obtain ⟨n, s1, e1, e⟩ := fe4_bind_inv e
    cases e1
    obtain ⟨_, s2, e2, e3⟩ := fe4_bind_inv e
    refine ih s2 a s' ?_ e3
    by_cases hc : c = q
    · subst hc
      have hs' : (s.nodes.getD c default).children = [] := hs
      rw [hs'] at e2
      unfold tightenItem at e2
      cases e2
      exact hs
    · exact qe_tightenItem_ne q c hc _ s _ s2 hs e2

theorem qe_listClose (q n : Nat) : Keeps (QE q) (listClose n) := by
  have hb := qe_benign q
  have ht := qe_tightenItems q
  unfold listClose; bn

theorem qe_paragraphClose (q n : Nat) : Keeps (QE q) (paragraphClose n) := by
  have hb := qe_benign q
  have hr := qe_removeChild q
  unfold paragraphClose; bn

theorem qe_bpClose (q : Nat) (bp : BP) (h : bp ≠ .setext) (n : Nat) : Keeps (QE q) (bpClose bp n) := by
  cases bp <;> unfold bpClose
  · exact absurd rfl h
  · exact Keeps.pure _
  · exact qe_listClose q n
  · exact Keeps.pure _
  · exact bn_codeClose (qe_benign q) n
  · exact Keeps.pure _
  · exact bn_fencedClose (qe_benign q) n
  · exact Keeps.pure _
  · exact Keeps.pure _
  · exact qe_paragraphClose q n

theorem qe_closeBlocks (q : Nat) (frm to : Int) {s s' : St} {u : Unit} (h : ∀ b ∈ s.pc.opened, b.bp ≠ .setext)
    (hq : QE q s) (e : closeBlocks frm to s = .ok (u, s')) : QE q s' :=
  keeps_closeBlocks_of (I := QE q) (bn_modPc (qe_benign q)) frm to
    (fun b hb n => qe_bpClose q b.bp (h b hb) n) hq e

end GM.Blocks
