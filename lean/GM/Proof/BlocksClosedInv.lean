/-
  GM.Proof.BlocksClosedInv — THE CLOSE DISCIPLINE, node by node.

  `Closed n`: every line segment of `n` has padding 0 (what `paragraphParser.Close` establishes, and what the inline phase
  needs on top of `WFSegs`). `CInv src s U`: relative to a set `U` of blocks that are still open —
    * `pad`  every non-raw node is `Closed`, or is the node of a Paragraph / setext-heading block of `U`;
    * `att`  every block of `U` is attached (`Parent() != nil`), so `closeBlocks` will hand it to its parser's `Close`
             (parser.go:904-909 skips detached nodes);
    * `tree` the tree links are consistent (`TreeOK`); the nodes of `U` are distinct; `U ⊆ pc.openedBlocks`.
  `closeList_cl`: closing the blocks `l` (top first; only the top may be a leaf) from `CInv src s (l ++ K)` ends in
  `CInv src s' K`, provided the open Paragraph / setext blocks that stay (`K`) are GUARDED: their parent is not a
  Paragraph and is not an item of a list that is being closed — so neither `tmp.Parent().RemoveChild(tmp)` of setext
  `Close` nor the Paragraph → TextBlock replacement of list `Close` can reach them.
-/
import GM.Proof.BlocksClosedList

namespace GM.Blocks
open GM GM.Text GM.Spec GM.Proof.Reader
open GM.Proof.BlocksWF0 (isRaw)

/-- every line has padding 0 -/
def Closed (n : Node) : Prop := ∀ t ∈ n.lines, t.padding = 0

/-- a block whose node may hold lines that are not trimmed yet: an open Paragraph, an open setext heading -/
def PSb (b : Block) : Prop := b.bp = .paragraph ∨ b.bp = .setext

/-- setextHeadingParser.Close, copying branch: the tree links — only the paragraph `t` may lose its parent -/
theorem setextClose_tree {s s' : St} {node t : Nat} (htr : TreeOK s) (ht : s.pc.tmpPara = some t)
    (hne : (nd s t).lines ≠ []) (hnt : node ≠ t) (hlt : node < s.nodes.length)
    (e : setextClose node s = .ok ((), s')) :
    TreeOK s' ∧ ∀ i, i ≠ t → (nd s' i).parent = (nd s i).parent := by
  unfold setextClose at e
  obtain ⟨hn, s1, h1, k1⟩ := obind_ok e
  obtain ⟨rfl, hs1⟩ := ogetNode_ok h1
  subst s1
  obtain ⟨seg, s2, h2, k2⟩ := obind_ok k1
  obtain ⟨_, hs2⟩ := oliftE_ok h2
  subst s2
  obtain ⟨_, s3, h3, k3⟩ := obind_ok k2
  have e3 := omodNode_ok h3
  have ht3 : TreeOK s3 := htr.modNode h3 (fun _ => ⟨rfl, rfl⟩)
  have hl3 := modNode_links h3 (fun _ => ⟨rfl, rfl⟩)
  obtain ⟨pc4, s4, h4, k4⟩ := obind_ok k3
  obtain ⟨rfl, hs4⟩ := ogetPc_ok h4
  subst s4
  have hpc3 : s3.pc = s.pc := by rw [e3]
  rw [hpc3, ht] at k4
  dsimp only at k4
  obtain ⟨tmp, s4, h4', k4'⟩ := obind_ok k4
  obtain ⟨htm, hs4⟩ := opure_ok h4'
  subst tmp
  subst s4
  obtain ⟨_, s5, h5, k5⟩ := obind_ok k4'
  have e5 := omodPc_ok h5
  have hnd53 : ∀ i, nd s5 i = nd s3 i := fun i => by rw [e5]
  have ht5 : TreeOK s5 := ht3.of_links (fun i => by rw [hnd53]; exact ⟨rfl, rfl⟩)
  obtain ⟨tn, s6, h6, k6⟩ := obind_ok k5
  obtain ⟨rfl, hs6⟩ := ogetNode_ok h6
  subst s6
  have hnd5 : ∀ i, nd s5 i = if i = node then { (nd s node) with lines := [], linesNil := true } else nd s i := by
    intro i
    have : nd s5 i = nd (upd s node fun n => { n with lines := [], linesNil := true }) i := by
      rw [e5, e3]; rfl
    rw [this, nd_upd]
    by_cases hi : i = node
    · subst hi; simp [hlt]
    · have : ¬ (node = i ∧ node < s.nodes.length) := fun hh => hi hh.1.symm
      rw [if_neg this, if_neg hi]
  have ht5' : s5.nodes.getD t default = nd s t := by
    have := hnd5 t
    rw [if_neg (Ne.symm hnt)] at this
    exact this
  rw [ht5'] at k6
  have hlen0 : ((nd s t).lines.length == 0) = false := by
    cases hh : (nd s t).lines with
    | nil => exact absurd hh hne
    | cons a b => simp
  rw [if_neg (by rw [hlen0]; decide)] at k6
  obtain ⟨_, s7, h7, k7⟩ := obind_ok k6
  have ht7 : TreeOK s7 := ht5.modNode h7 (fun _ => ⟨rfl, rfl⟩)
  have hl7 := modNode_links h7 (fun _ => ⟨rfl, rfl⟩)
  have hpar7 : ∀ i, (nd s7 i).parent = (nd s i).parent := fun i => by
    rw [(hl7 i).1, hnd53, (hl3 i).1]
  cases hp : (nd s t).parent with
  | some tp =>
    rw [hp] at k7
    obtain ⟨a1, _, a3, _⟩ := removeChild_tree' ht7 k7
    exact ⟨a1, fun i hi => (a3 i hi).trans (hpar7 i)⟩
  | none =>
    rw [hp] at k7
    obtain ⟨_, hs⟩ := opure_ok k7
    subst s'
    exact ⟨ht7, fun i _ => hpar7 i⟩

/-! ### the invariant -/

theorem nodup_map_node_inj : ∀ {l : List Block}, (l.map (·.node)).Nodup → ∀ {a b : Block}, a ∈ l → b ∈ l →
    a.node = b.node → a = b
  | [], _, _, _, ha, _, _ => by cases ha
  | x :: rest, h, a, b, ha, hb, e => by
    simp only [List.map_cons, List.nodup_cons, List.mem_map, not_exists, not_and] at h
    rcases List.mem_cons.1 ha with ha | ha <;> rcases List.mem_cons.1 hb with hb | hb
    · rw [ha, hb]
    · exact absurd (by rw [← ha]; exact e.symm : b.node = x.node) (h.1 b hb)
    · exact absurd (by rw [← hb]; exact e : a.node = x.node) (h.1 a ha)
    · exact nodup_map_node_inj h.2 ha hb e

structure CInv (src : Bytes) (s : St) (U : List Block) : Prop where
  inv : ∃ B, Inv src B s
  tree : TreeOK s
  pad : ∀ i, isRaw (nd s i).kind = false → Closed (nd s i) ∨ ∃ b ∈ U, b.node = i ∧ PSb b
  att : ∀ b ∈ U, (nd s b.node).parent.isSome = true
  inj : ∀ a ∈ U, ∀ b ∈ U, a.node = b.node → a = b
  sub : ∀ b ∈ U, b ∈ s.pc.opened

theorem CInv.kinds {src : Bytes} {s : St} {U : List Block} (h : CInv src s U) {b : Block} (hb : b ∈ U) :
    (nd s b.node).kind = b.bp.kind ∧ b.node < s.nodes.length := by
  obtain ⟨B, hB⟩ := h.inv
  exact hB.kinds b (h.sub b hb)

/-- a block of `U` that is not a Paragraph / setext block has a `Closed` node (or a raw one) -/
theorem CInv.closed_of_notPS {src : Bytes} {s : St} {U : List Block} (h : CInv src s U) {b : Block} (hb : b ∈ U)
    (hps : ¬ PSb b) (hr : isRaw (nd s b.node).kind = false) : Closed (nd s b.node) := by
  rcases h.pad b.node hr with hc | ⟨b', hb', hn, hps'⟩
  · exact hc
  · exfalso
    have : b' = b := h.inj b' hb' b hb hn
    exact hps (this ▸ hps')

/-- the open set may lose a block whose node is `Closed` (or raw) -/
theorem CInv.drop {src : Bytes} {s : St} {b : Block} {U : List Block} (h : CInv src s (b :: U))
    (hc : isRaw (nd s b.node).kind = false → Closed (nd s b.node)) : CInv src s U := by
  refine ⟨h.inv, h.tree, fun i hr => ?_, fun g hg => h.att g (List.mem_cons_of_mem _ hg),
    fun a ha b' hb' e => h.inj a (List.mem_cons_of_mem _ ha) b' (List.mem_cons_of_mem _ hb') e,
    fun g hg => h.sub g (List.mem_cons_of_mem _ hg)⟩
  rcases h.pad i hr with hcl | ⟨b', hb', hn, hps'⟩
  · exact .inl hcl
  · rcases List.mem_cons.1 hb' with e | hm
    · subst e; subst hn; exact .inl (hc hr)
    · exact .inr ⟨b', hm, hn, hps'⟩

/-- only membership in the open set matters -/
theorem CInv.congr {src : Bytes} {s : St} {U U' : List Block} (h : CInv src s U) (hm : ∀ b, b ∈ U' ↔ b ∈ U) :
    CInv src s U' :=
  ⟨h.inv, h.tree, fun i hr => by
      rcases h.pad i hr with hc | ⟨b, hb, hn, hp⟩
      · exact .inl hc
      · exact .inr ⟨b, (hm b).2 hb, hn, hp⟩,
    fun b hb => h.att b ((hm b).1 hb),
    fun a ha b hb e => h.inj a ((hm a).1 ha) b ((hm b).1 hb) e, fun b hb => h.sub b ((hm b).1 hb)⟩

/-- a Paragraph / setext block that stays open is guarded against the closes of `l`: its parent is a node that is not
    a Paragraph and whose own parent is not the node of a list block of `l` -/
def Guard (s : St) (l : List Block) (g : Block) : Prop :=
  ∃ q, (nd s g.node).parent = some q ∧ (nd s q).kind ≠ .paragraph ∧ q < s.nodes.length ∧
    ∀ L ∈ l, L.bp = .list → (nd s q).parent ≠ some L.node

end GM.Blocks
