/-
  GM.Proof.CMFragNSim — the nested-block-quote composition (CMFragNIter) stated over the SIMULATION itself instead of a
  particular class of quotesim2: `SimOK X` = the run on `quotePrefix X` simulates the run on `X`. Instances: quotesim2's
  classes `C08ClassL` (no list items) and `C08ClassG` (lists and blank lines allowed, no setext underline).
-/
import GM.Proof.CMFragNIter
import GM.Proof.QuoteSimLists

namespace GM.Proof.CMFrag
open GM GM.Text GM.Blocks GM.Spec

/-- the run on the prefixed source simulates the run on `X` -/
def SimOK (X : Bytes) : Prop :=
  ∀ sA : St, GM.Blocks.run X = .ok sA →
    ∃ sB : St, GM.Blocks.run (quotePrefix X) = .ok sB ∧ StoreRel X sA.nodes sB.nodes

theorem simOK_L {X : Bytes} (h : C08ClassL X) : SimOK X := fun _ hA => by
  obtain ⟨sB, hB, hrel, _⟩ := run_sim h hA
  exact ⟨sB, hB, hrel⟩

theorem simOK_G {X : Bytes} (h : C08ClassG X) : SimOK X := fun _ hA => by
  obtain ⟨sB, hB, hrel, _⟩ := run_sim_listsG h hA
  exact ⟨sB, hB, hrel⟩

/-- the run on the document inside `k` nested block quotes, every level simulating the one below -/
theorem nest_runS (H : BPFree) (items : List (Nat × Raw5)) (trail : Nat)
    (hgood : ∀ it ∈ items, Good5 it.2) (hseps : SepsOK6 none items) (hnoic : ∀ it ∈ items, isIcB it.2 = false)
    (hno : ∀ it ∈ items, ∀ l ∈ lines5 it.2, ∀ c ∈ l, c ≠ 10)
    (hsim : ∀ k, SimOK (qpN k (rawDoc6 items trail))) (hnb : ∀ b ∈ rawDoc6 items trail, b ≠ 91) :
    ∀ k, ∃ (s : St) (leaves : List Blocks.Node),
      GM.Blocks.run (qpN k (rawDoc6 items trail)) = .ok s ∧ QShapeN k items.length s.nodes leaves ∧
      RelL (Rep (qpN k (rawDoc6 items trail))) (items.map (·.2)) leaves ∧
      (∀ b ∈ qpN k (rawDoc6 items trail), b ≠ 91)
  | 0 => by
    obtain ⟨s', bs, h1, h2, h3, h4⟩ := runT_doc6 items trail hgood hseps (icOK6_of_none _ false hnoic) hno
    have hrunT : GM.Convert.blockPhase true (rawDoc6 items trail) = .ok s' := h1
    have hA : GM.Blocks.run (rawDoc6 items trail) = .ok s' := by rw [← H _ hnb]; exact hrunT
    have hd := docAt6_raw items trail [] hno
    simp only [List.nil_append, List.length_nil] at hd
    have hlen : (closedOf6 0 items).length = items.length := closedOf6_length items 0
    have hml := mkNodes5_length (closedOf6 0 items) (items.map (·.2)) bs (by simp [hlen]) (by rw [hlen]; exact h2)
    have hq := qshape_baseN (addKids { kind := .document } 0 items.length)
      (mkNodes5 (closedOf6 0 items) (items.map (·.2)) bs) rfl rfl (by rw [hml, hlen]; simp [addKids])
      (mkNodes5_children _ _ _)
    rw [hml, hlen, ← h3] at hq
    exact ⟨s', _, hA, hq, repL_base items trail 0 bs hd hgood hnoic hno h2, hnb⟩
  | k + 1 => by
    obtain ⟨s, leaves, hA, hq, hrep, hb⟩ := nest_runS H items trail hgood hseps hnoic hno hsim hnb k
    obtain ⟨sB, hB, hrel⟩ := hsim k s hA
    obtain ⟨leavesB, hqB, hrl⟩ := qshape_stepN hq hrel
    refine ⟨sB, leavesB, hB, hqB, ?_, noBracket_prefixN hb⟩
    exact repL_step _ leaves leavesB (fun b hb' => by
      obtain ⟨it, hit, rfl⟩ := List.mem_map.mp hb'
      exact linesNE_of_good it.2 (hgood it hit)) hrep hrl

/-- `convert_nest_gen` over `SimOK` -/
theorem convert_nest_genS (H : BPFree) (uc : List (Nat × (Bool × Bool))) (items : List (Nat × Raw5)) (trail : Nat)
    (hgood : ∀ it ∈ items, Good5 it.2) (hseps : SepsOK6 none items) (hnoic : ∀ it ∈ items, isIcB it.2 = false)
    (hno : ∀ it ∈ items, ∀ l ∈ lines5 it.2, ∀ c ∈ l, c ≠ 10)
    (hsim : ∀ k, SimOK (qpN k (rawDoc6 items trail))) (hnb : ∀ b ∈ rawDoc6 items trail, b ≠ 91)
    (k : Nat) (ns : List GM.Node) (html : Bytes)
    (hblk : ∀ env : GM.Inl.Env, env.escapedSpace = false → RelL (RepDT env) (items.map (·.2)) ns)
    (hr : GM.Convert.renderDoc cmOpts (nestNodeN k ns) = .ok html) :
    GM.Convert.convertCore uc cmOpts (qpN k (rawDoc6 items trail)) = .ok html := by
  obtain ⟨s, leaves, hA, hq, hrep, hb⟩ := nest_runS H items trail hgood hseps hnoic hno hsim hnb k
  have hBP : GM.Convert.blockPhase true (qpN k (rawDoc6 items trail)) = .ok s := by rw [H _ hb]; exact hA
  have hdt := docTrees_rep { refs := s.pc.refs, uc := uc } (qpN k (rawDoc6 items trail)) (items.map (·.2)) ns leaves hrep
    hq.leaf (hblk _ rfl)
  have htree := docTree_nestN hq { refs := s.pc.refs, uc := uc } (qpN k (rawDoc6 items trail)) ns hdt
  unfold GM.Convert.convertCore GM.Convert.convertWith GM.Convert.parseDoc
  simp only [hBP, GM.Convert.liftErr, bind, Except.bind, htree]
  exact hr

/-- every level of a source of class `C08ClassG` that ends with a line feed simulates: from a prefix lemma for the class -/
theorem simOK_levelsG (S : Bytes)
    (hpre : ∀ X : Bytes, C08ClassG X → X.getLast? = some 10 →
      C08ClassG (quotePrefix X) ∧ (quotePrefix X).getLast? = some 10)
    (h : C08ClassG S) (hnl : S.getLast? = some 10) : ∀ k, SimOK (qpN k S) := by
  have key : ∀ k, C08ClassG (qpN k S) ∧ (qpN k S).getLast? = some 10 := by
    intro k
    induction k with
    | zero => exact ⟨h, hnl⟩
    | succ k ih => exact hpre _ ih.1 ih.2
  exact fun k => simOK_G (key k).1

end GM.Proof.CMFrag
