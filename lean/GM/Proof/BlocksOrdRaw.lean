/-
  GM.Proof.BlocksOrdRaw — the ORDER clause for the three RAW kinds (CodeBlock, FencedCodeBlock, HTMLBlock): which
  segment their parsers append, relative to the start `L` of the current source line.

  * `PadL L c` — the sharp form of `PadOK`: virtual padding exists only behind a tab OF THIS LINE (`c.pad ≠ 0 → L < c.p`).
    It is what makes `preserveLeadingTabInCodeBlock` (code_block.go:93-102), which moves a segment start one byte back,
    stay on the line. `advPadCur_padl`: `AdvanceAndSetPadding(n, p)` keeps it when a padding can only be set after a
    real byte was consumed; `ipp_pos`: `util.IndentPosition` consumes at least one byte when it succeeds.
  * `codeTakeLine_app`, `codeContinue_app`, `fencedContinue_app`, `htmlContinue_app`, `codeOpen_new`, `htmlOpen_new`:
    the node's lines afterwards are the old ones, or the old ones plus ONE segment `t` with `L ≤ t.start` and
    `t.stop ≤` the reader's line end.
-/
import GM.Proof.BlocksOrdCont

namespace GM.Blocks
open GM GM.Text GM.Spec GM.Proof.Reader
open GM.Proof.BlocksWF0 (isRaw)

/-- virtual padding only exists behind a tab of the current source line (which starts at `L`) -/
def PadL (L : Int) (c : RCur) : Prop := c.pad ≠ 0 → L < c.p

/-! ### the cursor -/

theorem advN_prog (src : Bytes) : ∀ (n : Nat) (c : RCur), c.pad = 0 → c.p < src.length → 1 ≤ n →
    c.p < (RCur.advN src n c).p := by
  intro n c hz hlt hn
  cases n with
  | zero => omega
  | succ k =>
    simp only [RCur.advN]
    rcases adv1_cases src c with ⟨_, h⟩ | ⟨_, h, _⟩ | ⟨_, _, ln', e⟩
    · exact absurd hlt h
    · exact absurd hz h
    · rw [e]
      have := (advN_mono src k { c with p := c.p + 1, ln := ln' } (by show c.p + 1 ≤ src.length; omega)).1
      have e2 : ({ c with p := c.p + 1, ln := ln' } : RCur).p = c.p + 1 := rfl
      omega

/-- `AdvanceAndSetPadding(n, p)` keeps `PadL`, if a padding is only set after a real byte was consumed -/
theorem advPadCur_padl {src : Bytes} {L : Int} {c : RCur} {n p : Int} (hL : L ≤ c.p) (hpl : PadL L c)
    (hin : c.p ≤ src.length) (hprog : c.pad = 0 → 0 < p → 1 ≤ n ∧ c.p < src.length) :
    PadL L (advPadCur src n p c) ∧ L ≤ (advPadCur src n p c).p := by
  unfold advPadCur
  obtain ⟨m1, _⟩ := advN_mono src n.toNat c hin
  have hpadle := advN_pad_le src n.toNat c
  simp only
  split
  · next hset =>
    refine ⟨fun _ => ?_, by show L ≤ ((RCur.advN src n.toNat c).p : Int); omega⟩
    show L < ((RCur.advN src n.toNat c).p : Int)
    by_cases hz : c.pad = 0
    · obtain ⟨h1, h2⟩ := hprog hz (by omega)
      have := advN_prog src n.toNat c hz h2 (by omega)
      omega
    · have := hpl hz; omega
  · refine ⟨fun hne => ?_, by omega⟩
    have hz : c.pad ≠ 0 := by omega
    have := hpl hz; omega

/-! ### `Advance(n)` at the reader level: a padding is never created -/

/-- the reader-level form of `PadL` (with the line end not negative, which `AdvanceLine` needs) -/
def PadR (L : Int) (r : Reader) : Prop := 0 ≤ r.pos.stop ∧ (r.pos.padding ≠ 0 → L < r.pos.start)

theorem advanceLoop_padr {L : Int} : ∀ (k : Nat) (r r' : Reader), PadR L r → r.advanceLoop k = .ok r' → PadR L r' := by
  intro k
  induction k with
  | zero => intro r r' hp h; unfold Reader.advanceLoop at h; cases h; exact hp
  | succ k ih =>
    intro r r' hp h
    unfold Reader.advanceLoop at h
    split at h
    · split at h
      · next hpad =>
        refine ih _ r' ?_ h
        refine ⟨hp.1, fun _ => ?_⟩
        apply hp.2
        intro h0; rw [h0] at hpad; exact absurd hpad (by decide)
      · next hpad =>
        have hz : r.pos.padding = 0 := by
          cases hh : (r.pos.padding != 0) with
          | true => exact absurd hh hpad
          | false => simpa using hh
        cases hb : getByte r.source r.pos.start with
        | error e => rw [hb] at h; simp [bind, Except.bind] at h
        | ok c =>
          rw [hb] at h
          simp only [bind, Except.bind] at h
          split at h
          · refine ih _ r' ?_ h
            unfold Reader.advanceLine
            simp only
            rw [if_neg (by have := hp.1; omega)]
            exact ⟨by show (0 : Int) ≤ ((lineEnd r.source r.pos.stop.toNat : Nat) : Int); omega,
              fun hne => absurd rfl hne⟩
          · refine ih _ r' ?_ h
            exact ⟨hp.1, fun hne => absurd hz hne⟩
    · cases h; exact hp

theorem advance_padr {L : Int} {n : Int} {r r' : Reader} (hp : PadR L r) (h : r.advance n = .ok r') : PadR L r' := by
  unfold Reader.advance at h
  simp only at h
  have fast : ∀ (pl : Int), n < pl ∧ (r.pos.padding == 0) = true →
      (pure { r with lineOffset := -1, pos := { r.pos with start := r.pos.start + n }, peekedLine := none } :
        Except Panic Reader) = .ok r' → PadR L r' := by
    intro pl hc h
    cases h
    refine ⟨hp.1, fun hne => ?_⟩
    exfalso
    have := hc.2
    simp only [beq_iff_eq] at this
    exact hne this
  have slow : Reader.advanceLoop { r with lineOffset := -1, peekedLine := none } n.toNat = .ok r' → PadR L r' :=
    fun h => advanceLoop_padr _ { r with lineOffset := -1, peekedLine := none } r' hp h
  split at h <;> split at h
  · next hc => exact fast _ hc h
  · exact slow h
  · next hc => exact fast _ hc h
  · exact slow h

theorem padr_of_ri {src : Bytes} {L : Int} {r : Reader} {c : RCur} (h : RI src r c) (hpl : PadL L c) : PadR L r := by
  rw [PadR, h.pos]
  refine ⟨by show (0 : Int) ≤ (lineEnd src c.p : Int); omega, fun hne => ?_⟩
  have : c.pad ≠ 0 := by
    intro h0; apply hne; show ((c.pad : Nat) : Int) = 0; omega
  exact hpl this

theorem padl_of_padr {src : Bytes} {L : Int} {r : Reader} {c : RCur} (h : RI src r c) (hp : PadR L r) : PadL L c := by
  intro hne
  have e := h.pos
  have h1 : r.pos.padding = (c.pad : Int) := by rw [e]
  have h2 : r.pos.start = (c.p : Int) := by rw [e]
  have := hp.2 (by rw [h1]; omega)
  omega

/-- two cursors of the same reader agree on position and padding -/
theorem padl_of_ri_ri {src : Bytes} {L : Int} {r : Reader} {c c' : RCur} (h : RI src r c) (h' : RI src r c') (hpl : PadL L c) :
    PadL L c' := by
  have e := h.pos
  rw [h'.pos] at e
  simp only [Segment.mk.injEq] at e
  obtain ⟨e1, _, e3, _⟩ := e
  intro hne
  have : c.pad ≠ 0 := by omega
  have := hpl this
  omega

/-! ### util.IndentPosition consumes a byte -/

theorem ippLoop_pos (cur width : Int) : ∀ (bs : Bytes) (i w : Int),
    ippLoop cur width bs i 0 w = (i, w) ∨ i < (ippLoop cur width bs i 0 w).1 := by
  intro bs
  induction bs with
  | nil => intro i w; left; rfl
  | cons b bs ih =>
    intro i w
    unfold ippLoop
    rw [if_neg (by decide)]
    split
    · right
      rcases ih (i + 1) (w + tabWidthI (cur + w)) with e | e
      · rw [e]; show i < i + 1; omega
      · omega
    · split
      · right
        rcases ih (i + 1) (w + 1) with e | e
        · rw [e]; show i < i + 1; omega
        · omega
      · left; rfl

/-- without a virtual padding, `IndentPositionPadding` for a positive width consumes at least one byte when it
    succeeds -/
theorem ipp_pos {bs : Bytes} {cur width pos padding : Int} (h : indentPositionPadding bs cur 0 width = (pos, padding))
    (hw : 0 < width) (hp : 0 ≤ pos) : 1 ≤ pos := by
  unfold indentPositionPadding at h
  rw [if_neg (by simp; omega)] at h
  simp only at h
  split at h
  · next hge =>
    cases h
    rcases ippLoop_pos cur width bs 0 0 with e | e
    · rw [e] at hge; simp only at hge; omega
    · omega
  · cases h; omega

/-- with a virtual padding `pv ≥ 0` and a width `≥ 0`: a non-zero result padding means a consumed byte or `pv ≠ 0` -/
theorem ipp_pos_pad {bs : Bytes} {cur pv width pos padding : Int}
    (h : indentPositionPadding bs cur pv width = (pos, padding)) (hw : 0 ≤ width) (hp : 0 ≤ pos) (hne : padding ≠ 0) :
    1 ≤ pos ∨ pv ≠ 0 := by
  by_cases hpv : pv = 0
  · subst hpv
    by_cases hw0 : width = 0
    · subst hw0
      unfold indentPositionPadding at h
      rw [if_pos (by rfl)] at h
      cases h
      exact absurd rfl hne
    · exact .inl (ipp_pos h (by omega) hp)
  · exact .inr hpv

/-! ### reader calls, inverted -/

theorem olineOffset_ok {s : St} {a : Int} {s' : St} (h : GM.Blocks.lineOffset s = .ok (a, s')) :
    ∃ r', s' = { s with r := r' } := by
  unfold GM.Blocks.lineOffset at h
  cases hf : s.r.lineOffsetOp with
  | error e => simp [hf, bind, Except.bind] at h
  | ok p => simp only [hf, bind, Except.bind, pure, Except.pure] at h; cases h; exact ⟨_, rfl⟩

theorem oadvance_ok {n : Int} {s : St} {a : Unit} {s' : St} (h : GM.Blocks.advance n s = .ok (a, s')) :
    ∃ r', s' = { s with r := r' } := by
  unfold GM.Blocks.advance at h
  cases hf : s.r.advance n with
  | error e => simp [hf, bind, Except.bind] at h
  | ok p => simp only [hf, bind, Except.bind, pure, Except.pure] at h; cases h; exact ⟨_, rfl⟩

theorem oadvance_ok' {n : Int} {s : St} {a : Unit} {s' : St} (h : GM.Blocks.advance n s = .ok (a, s')) :
    ∃ r', s' = { s with r := r' } ∧ s.r.advance n = .ok r' := by
  unfold GM.Blocks.advance at h
  cases hf : s.r.advance n with
  | error e => simp [hf, bind, Except.bind] at h
  | ok p => simp only [hf, bind, Except.bind, pure, Except.pure] at h; cases h; exact ⟨_, rfl, rfl⟩

theorem oadvanceAndSetPadding_ok {n p : Int} {s : St} {a : Unit} {s' : St}
    (h : GM.Blocks.advanceAndSetPadding n p s = .ok (a, s')) : ∃ r', s' = { s with r := r' } := by
  unfold GM.Blocks.advanceAndSetPadding at h
  cases hf : s.r.advanceAndSetPadding n p with
  | error e => simp [hf, bind, Except.bind] at h
  | ok q => simp only [hf, bind, Except.bind, pure, Except.pure] at h; cases h; exact ⟨_, rfl⟩

theorem oposition_ok {s : St} {a : Int × Segment} {s' : St} (h : position s = .ok (a, s')) :
    a = s.r.position ∧ s' = s := by cases h; exact ⟨rfl, rfl⟩

theorem osetPosition_ok {l : Int} {p : Segment} {s : St} {a : Unit} {s' : St} (h : setPosition l p s = .ok (a, s')) :
    s' = { s with r := s.r.setPosition l p } := by cases h; rfl

theorem osource_ok {s : St} {a : Bytes} {s' : St} (h : source s = .ok (a, s')) : a = s.r.source ∧ s' = s := by
  cases h; exact ⟨rfl, rfl⟩

/-- preserveLeadingTabInCodeBlock: the segment stays, or moves its start one byte back (padding 0); the store and the
    context are untouched -/
theorem preserveLeadingTab_inv {seg : Segment} {ind : Int} {s : St} {seg' : Segment} {s' : St}
    (h : preserveLeadingTab seg ind s = .ok (seg', s')) :
    (seg' = seg ∨ seg' = { seg with padding := 0, start := seg.start - 1 }) ∧ s'.nodes = s.nodes ∧ s'.pc = s.pc := by
  unfold preserveLeadingTab at h
  obtain ⟨lo1, s1, h1, k1⟩ := obind_ok h
  obtain ⟨r1, hs1⟩ := olineOffset_ok h1
  subst s1
  obtain ⟨ps, s2, h2, k2⟩ := obind_ok k1
  obtain ⟨hps, hs2⟩ := oposition_ok h2
  subst s2
  obtain ⟨sl, ss⟩ := ps
  dsimp only at k2
  obtain ⟨_, s3, h3, k3⟩ := obind_ok k2
  have hs3 := osetPosition_ok h3
  subst s3
  obtain ⟨lo2, s4, h4, k4⟩ := obind_ok k3
  obtain ⟨r4, hs4⟩ := olineOffset_ok h4
  subst s4
  obtain ⟨_, s5, h5, k5⟩ := obind_ok k4
  have hs5 := osetPosition_ok h5
  subst s5
  obtain ⟨hseg, hs'⟩ := opure_ok k5
  subst s'
  refine ⟨?_, rfl, rfl⟩
  rw [hseg]
  split
  · right; rfl
  · left; rfl

/-- `node.Lines().Append(seg)`: the lines of the node afterwards -/
theorem appendLine_lines {X : Nat} {seg : Segment} {s : St} {a : Unit} {s' : St} (h : appendLine X seg s = .ok (a, s')) :
    ((nd s' X).lines = (nd s X).lines ∨ (nd s' X).lines = (nd s X).lines ++ [seg]) ∧ s'.r = s.r ∧ s'.pc = s.pc := by
  have e := omodNode_ok h
  have hnd : nd s' X = nd (upd s X fun n => { n with lines := n.lines ++ [seg], linesNil := false }) X := by
    rw [e]; rfl
  refine ⟨?_, by rw [e], by rw [e]⟩
  rw [hnd, nd_upd]
  split
  · right; rfl
  · left; rfl

/-- the lines of `X` afterwards: the old ones, or one more segment that starts at or behind `L` and ends at or before
    the reader's line end -/
def RawApp (L E : Int) (X : Nat) (s s' : St) : Prop :=
  (nd s' X).lines = (nd s X).lines ∨
    ∃ t, (nd s' X).lines = (nd s X).lines ++ [t] ∧ L ≤ t.start ∧ t.stop ≤ E

/-- `RawApp`, and no line at all when `Continue` answered `Close` -/
def RawC (src : Bytes) (L E : Int) (X : Nat) (s s' : St) (st : PState) : Prop :=
  RawApp L E X s s' ∧
    (st.cont = false → (nd s' X).lines = (nd s X).lines ∧ ∀ c', RI src s'.r c' → PadL L c')

/-! ### fencedCodeBlockParser.Open builds a node without lines -/

/-- existing nodes keep their lines, new nodes have none -/
def LinesKept (s s' : St) : Prop :=
  s.nodes.length ≤ s'.nodes.length ∧ (∀ i, i < s.nodes.length → (nd s' i).lines = (nd s i).lines) ∧
    (∀ i, s.nodes.length ≤ i → (nd s' i).lines = [])

theorem LinesKept.refl (s : St) : LinesKept s s :=
  ⟨Nat.le_refl _, fun _ _ => rfl, fun i hi => by rw [nd_default_of_ge s hi]; rfl⟩

theorem LinesKept.trans {a b c : St} (h1 : LinesKept a b) (h2 : LinesKept b c) : LinesKept a c := by
  refine ⟨Nat.le_trans h1.1 h2.1, fun i hi => ?_, fun i hi => ?_⟩
  · exact (h2.2.1 i (Nat.lt_of_lt_of_le hi h1.1)).trans (h1.2.1 i hi)
  · rcases Nat.lt_or_ge i b.nodes.length with hb | hb
    · exact (h2.2.1 i hb).trans (h1.2.2 i hi)
    · exact h2.2.2 i hb

theorem LinesKept.of_nodes {s s' : St} (h : s'.nodes = s.nodes) : LinesKept s s' := by
  have : ∀ i, nd s' i = nd s i := fun i => by simp only [nd, h]
  exact ⟨by rw [h]; exact Nat.le_refl _, fun i _ => by rw [this], fun i hi => by rw [this, nd_default_of_ge s hi]; rfl⟩

structure FrK {α : Type} (m : M α) : Prop where
  h : ∀ s a s', m s = .ok (a, s') → LinesKept s s'

theorem FrK.pure {α} (a : α) : FrK (pure a : M α) := ⟨fun s _ _ h => by cases h; exact LinesKept.refl s⟩
theorem FrK.bind {α β} {m : M α} {f : α → M β} (hm : FrK m) (hf : ∀ a, FrK (f a)) : FrK (m >>= f) := by
  constructor
  intro s b s' h
  obtain ⟨a, s1, h1, k1⟩ := obind_ok h
  exact (hm.h s a s1 h1).trans ((hf a).h s1 b s' k1)
theorem FrK.ite {α} {c : Prop} [Decidable c] {a b : M α} (ha : FrK a) (hb : FrK b) : FrK (if c then a else b) := by
  split <;> assumption
theorem FrK.throw {α} (e : Panic) : FrK (throw e : M α) := ⟨fun _ _ _ h => by cases h⟩
theorem getPc_frk : FrK getPc := ⟨fun s _ _ h => by cases h; exact LinesKept.refl s⟩
theorem modPc_frk (f : Ctx → Ctx) : FrK (modPc f) := ⟨fun s _ _ h => by cases h; exact LinesKept.of_nodes rfl⟩
theorem liftE_frk {α} (e : Except Panic α) : FrK (liftE e) :=
  ⟨fun s _ _ h => by obtain ⟨_, hs⟩ := oliftE_ok h; rw [hs]; exact LinesKept.refl s⟩
theorem peekLine_frk : FrK peekLine := by
  constructor
  intro s a s' h
  unfold GM.Blocks.peekLine at h
  cases hf : s.r.peekLine with
  | error e => simp [hf, bind, Except.bind] at h
  | ok p => simp only [hf, bind, Except.bind, Pure.pure, Except.pure] at h; cases h; exact LinesKept.of_nodes rfl
theorem newNode_frk (n : Node) (hn : n.lines = []) : FrK (newNode n) := by
  constructor
  intro s a s' h
  obtain ⟨_, hs⟩ := onewNode_ok h
  have hsn : s'.nodes = s.nodes ++ [n] := by rw [hs]
  refine ⟨by rw [hsn]; simp, fun i hi => ?_, fun i hi => ?_⟩
  · simp only [nd, hsn, List.getD_eq_getElem?_getD, List.getElem?_append_left hi]
  · simp only [nd, hsn, List.getD_eq_getElem?_getD, List.getElem?_append_right hi]
    rcases Nat.eq_or_lt_of_le hi with e | e
    · rw [← e]; simp [hn]
    · have : i - s.nodes.length ≠ 0 := by omega
      cases hk : i - s.nodes.length with
      | zero => exact absurd hk this
      | succ k => simp; rfl

macro "frk_step" : tactic =>
  `(tactic| first
    | with_reducible apply FrK.pure
    | with_reducible apply FrK.bind
    | with_reducible apply FrK.ite
    | with_reducible apply FrK.throw
    | with_reducible apply getPc_frk
    | with_reducible apply modPc_frk
    | with_reducible apply liftE_frk
    | with_reducible apply peekLine_frk
    | (with_reducible apply newNode_frk; rfl)
    | intro _
    | split)

theorem fencedOpen_frk (p : Nat) : FrK (fencedOpen p) := by
  unfold fencedOpen
  repeat' frk_step

/-- the node fencedCodeBlockParser.Open builds has no lines -/
theorem fencedOpen_new {parent : Nat} {s s' : St} {a : Option Nat × PState} {n : Node}
    (h : fencedOpen parent s = .ok (a, s')) (hn : s'.nodes = s.nodes ++ [n]) : n.lines = [] := by
  have hk := (fencedOpen_frk parent).h s a s' h
  have := hk.2.2 s.nodes.length (Nat.le_refl _)
  simpa [nd, hn] using this


section leaf
variable {src : Bytes}

theorem ri_stopS {s : St} {c : RCur} (h : RI src s.r c) : Stop src (lineEnd src c.p : Int) s := by
  have hp := h.pos
  have h1 := lineEnd_le src c.p
  refine ⟨h.source, ?_, ?_, ?_⟩ <;> rw [hp] <;> simp only <;> omega

/-- the reader's line end does not move back over a reader call that keeps `Stop` -/
theorem stop_le_of_pres {α} {m : M α} {b : Int} (hm : Pres (Stop src b) m) {s : St} (hs : Stop src b s) {a : α} {s' : St}
    (h : m s = .ok (a, s')) : b ≤ s'.r.pos.stop := (hm.ok hs h).lb

/-- the common tail of codeBlockParser.Open / Continue: one segment, on this line -/
theorem codeTakeLine_app {L : Int} {X : Nat} {pos padding : Int} {s s' : St} {c : RCur} (hri : RI src s.r c)
    (hlt : c.p < src.length) (hL : L ≤ c.p) (hpl : PadL L c) (hpos : 1 ≤ pos)
    (hwithin : pos.toNat + 1 ≤ c.pad + (lineEnd src c.p - c.p))
    (h : codeTakeLine X pos padding s = .ok ((), s')) : RawApp L (lineEnd src c.p : Int) X s s' := by
  unfold codeTakeLine at h
  obtain ⟨_, s1, h1, k1⟩ := obind_ok h
  obtain ⟨r1, hs1, hri1⟩ := (advanceAndSetPadding_okl hri (by omega : (0 : Int) ≤ pos) padding).of_ok h1
  subst s1
  obtain ⟨hpl1, hL1⟩ := advPadCur_padl (src := src) (n := pos) (p := padding) hL hpl (Nat.le_of_lt hlt)
    (fun _ _ => ⟨hpos, hlt⟩)
  have hline : lineEnd src (advPadCur src pos padding c).p = lineEnd src c.p := by
    obtain ⟨_, _, _, i4, _, _⟩ := advN_within src pos.toNat c hlt hwithin
    unfold advPadCur
    simp only
    split
    · exact i4
    · exact i4
  generalize advPadCur src pos padding c = c1 at hri1 hpl1 hL1 hline
  obtain ⟨y, s2, h2, k2⟩ := obind_ok k1
  obtain ⟨rfl, r2, hs2, hri2⟩ := peekLine_inv hri1 h2
  subst s2
  dsimp only at k2
  have hst2 : Stop src (lineEnd src c1.p : Int) ({ s with r := r2 } : St) := ri_stopS (s := { s with r := r2 }) hri2
  -- the append, for the segment `seg` that was chosen
  have tail : ∀ (seg : Segment) (s3 : St), (seg.start = c1.p ∨ (seg.start = (c1.p : Int) - 1 ∧ c1.pad ≠ 0)) →
      seg.stop = (lineEnd src c1.p : Int) → s3.nodes = s.nodes → Stop src (lineEnd src c1.p : Int) s3 →
      (do appendLine X { start := seg.start, stop := seg.stop, padding := seg.padding, forceNewline := true }
          advance (({ start := seg.start, stop := seg.stop, padding := seg.padding, forceNewline := true } : Segment).len - 1)
        : M Unit) s3 = .ok ((), s') → RawApp L (lineEnd src c.p : Int) X s s' := by
    intro seg s3 hstart hstop hn3 hst3 k3
    obtain ⟨_, s4, h4, k4⟩ := obind_ok k3
    obtain ⟨hl4, hr4, hpc4⟩ := appendLine_lines h4
    have hst4 : Stop src (lineEnd src c1.p : Int) s4 := (appendLine_pres (Stop.ronly src _) X _).ok hst3 h4
    have hle := stop_le_of_pres ((stop_prims src (lineEnd src c1.p : Int)).advance _) hst4 k4
    obtain ⟨r5, hs5⟩ := oadvance_ok k4
    have hnd3 : nd s3 X = nd s X := by simp only [nd, hn3]
    have hnd5 : nd s' X = nd s4 X := by rw [hs5]
    rw [hnd3] at hl4
    rcases hl4 with e | e
    · left; rw [hnd5]; exact e
    · right
      refine ⟨_, by rw [hnd5]; exact e, ?_, ?_⟩
      · show L ≤ seg.start
        rcases hstart with e1 | ⟨e1, hne⟩
        · rw [e1]; exact hL1
        · rw [e1]; have := hpl1 hne; omega
      · show seg.stop ≤ (lineEnd src c.p : Int)
        rw [hstop, hline]; exact Int.le_refl _
  split at k2
  · next hp =>
    have hne : c1.pad ≠ 0 := by
      intro h0
      have : (RCur.seg src c1).padding = 0 := by show ((c1.pad : Nat) : Int) = 0; omega
      rw [this] at hp; exact absurd hp (by decide)
    obtain ⟨seg, s3, h3, k3⟩ := obind_ok k2
    obtain ⟨hd, hn, hpc⟩ := preserveLeadingTab_inv h3
    have hst3 := ((stop_prims src (lineEnd src c1.p : Int)).preserveLeadingTab _ _).ok hst2 h3
    rcases hd with e | e
    · exact tail seg s3 (.inl (by rw [e]; rfl)) (by rw [e]; rfl) hn hst3 k3
    · exact tail seg s3 (.inr ⟨by rw [e]; rfl, hne⟩) (by rw [e]; rfl) hn hst3 k3
  · obtain ⟨seg, s3, h3, k3⟩ := obind_ok k2
    obtain ⟨e, hs3⟩ := opure_ok h3
    subst s3
    exact tail seg { s with r := r2 } (.inl (by rw [e]; rfl)) (by rw [e]; rfl) rfl hst2 k3

/-- the tail of htmlBlockParser.Open / Continue: the peeked segment is appended, the reader advances -/
theorem html_tail {L : Int} {X : Nat} {n : Int} {s0 s s' : St} {c : RCur} {α : Type} {a a' : α} (hri : RI src s.r c)
    (hL : L ≤ c.p) (hn : nd s X = nd s0 X)
    (h : (do appendLine X (RCur.seg src c); advance n; pure a : M α) s = .ok (a', s')) :
    RawApp L (lineEnd src c.p : Int) X s0 s' ∧ a' = a := by
  obtain ⟨_, s1, h1, k1⟩ := obind_ok h
  obtain ⟨hl1, hr1, hpc1⟩ := appendLine_lines h1
  have hst : Stop src (lineEnd src c.p : Int) s := ri_stopS hri
  have hst1 : Stop src (lineEnd src c.p : Int) s1 := (appendLine_pres (Stop.ronly src _) X _).ok hst h1
  obtain ⟨_, s2, h2, k2⟩ := obind_ok k1
  have hle := stop_le_of_pres ((stop_prims src (lineEnd src c.p : Int)).advance _) hst1 h2
  obtain ⟨r2, hs2⟩ := oadvance_ok h2
  obtain ⟨ha, hs'⟩ := opure_ok k2
  subst s'
  have hnd2 : nd s2 X = nd s1 X := by rw [hs2]
  rw [hn] at hl1
  refine ⟨?_, ha⟩
  rcases hl1 with e | e
  · left; rw [hnd2]; exact e
  · right; exact ⟨_, by rw [hnd2]; exact e, hL, Int.le_refl _⟩

/-- htmlBlockParser.Open: the new node has no line or the one peeked segment -/
theorem htmlOpen_new {L : Int} {parent : Nat} {s s' : St} {c : RCur} {a : Option Nat × PState} (hri : RI src s.r c)
    (hL : L ≤ c.p) (h : htmlOpen parent s = .ok (a, s')) :
    ∀ id, a.1 = some id → id = s.nodes.length ∧ ((nd s' id).lines = [] ∨
      ∃ t, (nd s' id).lines = [t] ∧ L ≤ t.start ∧ t.stop ≤ (lineEnd src c.p : Int)) := by
  unfold htmlOpen at h
  obtain ⟨y, s1, h1, k1⟩ := obind_ok h
  obtain ⟨rfl, r1, hs1, hri1⟩ := peekLine_inv hri h1
  subst s1
  dsimp only at k1
  obtain ⟨lp, s2, h2, k2⟩ := obind_ok k1
  obtain ⟨_, hs2⟩ := olastOpenedBlock_ok h2
  subst s2
  have rest : ∀ (lip : Bool),
      (do let __do_lift ← getPc
          if __do_lift.blockOffset < 0 then pure (none, stNoChildren)
            else do
              let __do_lift ← liftE (idx ((RCur.view src c).getD []) __do_lift.blockOffset)
              if (__do_lift != 60) = true then pure (none, stNoChildren)
                else
                  match htmlOpenType ((RCur.view src c).getD []) lip with
                  | some t => do
                    let node ← newNode { kind := Kind.htmlBlock, htmlType := t }
                    advance ((RCur.seg src c).len - ↑(trimRightSpaceLength ((RCur.view src c).getD [])))
                    appendLine node (RCur.seg src c)
                    pure (some node, stNoChildren)
                  | none => pure (none, stNoChildren) : M (Option Nat × PState)) { s with r := r1 } = .ok (a, s') →
      ∀ id, a.1 = some id → id = s.nodes.length ∧ ((nd s' id).lines = [] ∨
        ∃ t, (nd s' id).lines = [t] ∧ L ≤ t.start ∧ t.stop ≤ (lineEnd src c.p : Int)) := by
    intro lip k2
    obtain ⟨pc, s3, h3, k3⟩ := obind_ok k2
    obtain ⟨_, hs3⟩ := ogetPc_ok h3
    subst s3
    split at k3
    · obtain ⟨ha, _⟩ := opure_ok k3
      intro id hid; rw [ha] at hid; cases hid
    · obtain ⟨ch, s4, h4, k4⟩ := obind_ok k3
      obtain ⟨_, hs4⟩ := oliftE_ok h4
      subst s4
      split at k4
      · obtain ⟨ha, _⟩ := opure_ok k4
        intro id hid; rw [ha] at hid; cases hid
      · cases ht : htmlOpenType ((RCur.view src c).getD []) lip with
        | some t =>
          rw [ht] at k4
          dsimp only at k4
          obtain ⟨node, s5, h5, k5⟩ := obind_ok k4
          obtain ⟨hnode, hs5⟩ := onewNode_ok h5
          subst s5
          have hnd5 : (nd ({ s with r := r1, nodes := s.nodes ++ [{ kind := .htmlBlock, htmlType := t }] } : St) node).lines = [] := by
            rw [hnode]; simp [nd]
          have hst5 : Stop src (lineEnd src c.p : Int)
              ({ s with r := r1, nodes := s.nodes ++ [{ kind := .htmlBlock, htmlType := t }] } : St) :=
            ri_stopS (s := { s with r := r1, nodes := s.nodes ++ [{ kind := .htmlBlock, htmlType := t }] }) hri1
          obtain ⟨_, s6, h6, k6⟩ := obind_ok k5
          have hle := stop_le_of_pres ((stop_prims src (lineEnd src c.p : Int)).advance _) hst5 h6
          obtain ⟨r6, hs6⟩ := oadvance_ok h6
          obtain ⟨_, s7, h7, k7⟩ := obind_ok k6
          obtain ⟨hl7, hr7, _⟩ := appendLine_lines h7
          obtain ⟨ha, hs'⟩ := opure_ok k7
          subst s'
          intro id hid
          rw [ha] at hid
          cases hid
          have hnd6 : nd s6 node = nd ({ s with r := r1, nodes := s.nodes ++ [{ kind := .htmlBlock, htmlType := t }] } : St) node := by
            rw [hs6]
          rw [hnd6, hnd5] at hl7
          refine ⟨hnode, ?_⟩
          rcases hl7 with e | e
          · left; exact e
          · right
            exact ⟨_, by rw [e]; rfl, hL, Int.le_refl _⟩
        | none =>
          rw [ht] at k4
          dsimp only at k4
          obtain ⟨ha, _⟩ := opure_ok k4
          intro id hid; rw [ha] at hid; cases hid
  cases lp with
  | some lb =>
    dsimp only at k2
    obtain ⟨nn, s4, h4, k4⟩ := obind_ok k2
    obtain ⟨_, hs4⟩ := ogetNode_ok h4
    subst s4
    obtain ⟨lip, s5, h5, k5⟩ := obind_ok k4
    obtain ⟨_, hs5⟩ := opure_ok h5
    subst s5
    exact rest lip k5
  | none =>
    dsimp only at k2
    obtain ⟨lip, s5, h5, k5⟩ := obind_ok k2
    obtain ⟨_, hs5⟩ := opure_ok h5
    subst s5
    exact rest lip k5

theorem modNode_lines_same {X : Nat} {f : Node → Node} {s : St} {a : Unit} {s' : St} (hf : ∀ n, (f n).lines = n.lines)
    (h : modNode X f s = .ok (a, s')) : (nd s' X).lines = (nd s X).lines ∧ s'.r = s.r := by
  have e := omodNode_ok h
  have hnd : nd s' X = nd (upd s X f) X := by rw [e]; rfl
  refine ⟨?_, by rw [e]⟩
  rw [hnd, nd_upd]
  split
  · exact hf _
  · rfl

/-- htmlBlockParser.Continue: no line, or the peeked segment -/
theorem htmlContinue_app {L : Int} {X : Nat} {s s' : St} {c : RCur} {st : PState} (hri : RI src s.r c) (hL : L ≤ c.p)
    (hpl : PadL L c) (h : htmlContinue X s = .ok (st, s')) : RawC src L (lineEnd src c.p : Int) X s s' st := by
  unfold htmlContinue at h
  obtain ⟨n, s0, h0, k0⟩ := obind_ok h
  obtain ⟨_, hs0⟩ := ogetNode_ok h0
  subst s0
  obtain ⟨y, s1, h1, k1⟩ := obind_ok k0
  obtain ⟨rfl, r1, hs1, hri1⟩ := peekLine_inv hri h1
  subst s1
  dsimp (config := { zeta := false }) only at k1
  extract_lets line closes jpA jpB at k1
  dsimp only [jpA, jpB] at k1
  have same : ∀ (sA : St), (nd sA X).lines = (nd s X).lines → sA.r = r1 → (pure stClose : M PState) sA = .ok (st, s') →
      RawC src L (lineEnd src c.p : Int) X s s' st := by
    intro sA hn hr k
    obtain ⟨_, hs⟩ := opure_ok k
    subst s'
    exact ⟨.inl hn, fun _ => ⟨hn, fun c' hc' => padl_of_ri_ri hri1 (by rw [← hr]; exact hc') hpl⟩⟩
  have tail : ∀ (sA : St) (n' : Int), sA = { s with r := r1 } →
      (do appendLine X (RCur.seg src c); advance n'; pure stContinueNoChildren : M PState) sA = .ok (st, s') →
      RawC src L (lineEnd src c.p : Int) X s s' st := by
    intro sA n' hsA k
    subst hsA
    obtain ⟨q1, q2⟩ := html_tail (s0 := s) (s := { s with r := r1 }) hri1 hL rfl k
    exact ⟨q1, fun hc => by rw [q2] at hc; cases hc⟩
  have close2 : ∀ (sA : St) (f : Node → Node) (n' : Int) (a : PState), (nd sA X).lines = (nd s X).lines → sA.r = r1 →
      (do modNode X f; advance n'; pure a : M PState) sA = .ok (st, s') →
      (∀ m, (f m).lines = m.lines) → RawC src L (lineEnd src c.p : Int) X s s' st := by
    intro sA f n' a hn hrA k hf
    obtain ⟨_, s2, h2, k2⟩ := obind_ok k
    obtain ⟨hl2, hr2⟩ := modNode_lines_same hf h2
    obtain ⟨_, s3, h3, k3⟩ := obind_ok k2
    obtain ⟨r3, hs3, hadv⟩ := oadvance_ok' h3
    obtain ⟨_, hs'⟩ := opure_ok k3
    subst s'
    have : nd s3 X = nd s2 X := by rw [hs3]
    have hsame : (nd s3 X).lines = (nd s X).lines := by rw [this, hl2, hn]
    have hpr : PadR L r3 := advance_padr (padr_of_ri (r := s2.r) (by rw [hr2, hrA]; exact hri1) hpl) hadv
    exact ⟨.inl hsame, fun _ => ⟨hsame, fun c' hc' => padl_of_padr (r := r3) (by rw [hs3] at hc'; exact hc') hpr⟩⟩
  split at k1
  · split at k1
    · obtain ⟨fl, s2, h2, k2⟩ := obind_ok k1
      obtain ⟨_, hs2⟩ := oliftE_ok h2
      subst s2
      obtain ⟨sr, s3, h3, k3⟩ := obind_ok k2
      obtain ⟨_, hs3⟩ := osource_ok h3
      subst s3
      obtain ⟨v, s4, h4, k4⟩ := obind_ok k3
      obtain ⟨_, hs4⟩ := oliftE_ok h4
      subst s4
      split at k4
      · exact same { s with r := r1 } rfl rfl k4
      · split at k4
        · exact close2 { s with r := r1 } _ _ _ rfl rfl k4 (fun _ => rfl)
        · exact tail _ _ rfl k4
    · split at k1
      · exact close2 { s with r := r1 } _ _ _ rfl rfl k1 (fun _ => rfl)
      · exact tail _ _ rfl k1
  · split at k1
    · split at k1
      · exact same { s with r := r1 } rfl rfl k1
      · exact tail _ _ rfl k1
    · exact tail _ _ rfl k1

/-- `TrimLeftSpaceWidth` moves the start forward only and keeps the stop -/
theorem trimLeftSpaceWidth_start {t t' : Segment} {w : Int} {buf : Bytes} (h1 : t.start ≤ t.stop)
    (h : t.trimLeftSpaceWidth w buf = .ok t') : t.start ≤ t'.start ∧ t'.stop = t.stop := by
  unfold Segment.trimLeftSpaceWidth at h
  generalize tlswPad w t.padding = wp at h
  obtain ⟨w1, p1⟩ := wp
  simp only at h
  split at h
  · cases h; exact ⟨Int.le_refl _, rfl⟩
  · cases hs : sliceB buf t.start t.stop with
    | error e => rw [hs] at h; simp [bind, Except.bind] at h
    | ok text =>
      rw [hs] at h
      simp only [bind, Except.bind, pure, Except.pure] at h
      have hb := tlswLoop_bounds t.stop text t.start w1 h1
      generalize tlswLoop t.stop text t.start w1 = sw at hb h
      obtain ⟨st, w'⟩ := sw
      simp only at hb h
      cases h
      exact ⟨hb.1, rfl⟩

/-- codeBlockParser.Continue: no line, or one segment on this line -/
theorem codeContinue_app {L : Int} {X : Nat} {s s' : St} {c : RCur} {st : PState} (hri : RI src s.r c)
    (hlt : c.p < src.length) (hL : L ≤ c.p) (hpl : PadL L c) (h : codeContinue X s = .ok (st, s')) :
    RawC src L (lineEnd src c.p : Int) X s s' st := by
  unfold codeContinue at h
  obtain ⟨y, s1, h1, k1⟩ := obind_ok h
  obtain ⟨rfl, r1, hs1, hri1⟩ := peekLine_inv hri h1
  subst s1
  dsimp only at k1
  split at k1
  · -- a blank line: the peeked segment, trimmed on the left
    obtain ⟨sr, s2, h2, k2⟩ := obind_ok k1
    obtain ⟨_, hs2⟩ := osource_ok h2
    subst s2
    obtain ⟨seg, s3, h3, k3⟩ := obind_ok k2
    obtain ⟨htr, hs3⟩ := oliftE_ok h3
    subst s3
    have hge := lineEnd_ge src hri.inRange
    obtain ⟨b1, b2⟩ := trimLeftSpaceWidth_start (t := RCur.seg src c) (by show (c.p : Int) ≤ (lineEnd src c.p : Int); omega) htr
    obtain ⟨_, s4, h4, k4⟩ := obind_ok k3
    obtain ⟨hl4, hr4, _⟩ := appendLine_lines h4
    obtain ⟨hst, hs'⟩ := opure_ok k4
    subst s'
    refine ⟨?_, fun hc => by rw [hst] at hc; cases hc⟩
    rcases hl4 with e | e
    · left; exact e
    · right
      refine ⟨_, e, ?_, ?_⟩
      · have : (RCur.seg src c).start = (c.p : Int) := rfl
        omega
      · rw [b2]
        exact Int.le_refl _
  · obtain ⟨lo, s2, h2, k2⟩ := obind_ok k1
    obtain ⟨_, r2, hs2, hri2⟩ := (lineOffset_okl (s := { s with r := r1 }) hri1).of_ok h2
    subst s2
    generalize hip : indentPosition ((RCur.view src c).getD []) lo 4 = pp at k2
    obtain ⟨pos, padding⟩ := pp
    dsimp only at k2
    split at k2
    · obtain ⟨_, hs'⟩ := opure_ok k2
      subst s'
      exact ⟨.inl rfl, fun _ => ⟨rfl, fun c' hc' => padl_of_ri_ri hri2 hc' hpl⟩⟩
    · next hneg =>
      obtain ⟨_, s3, h3, k3⟩ := obind_ok k2
      obtain ⟨hst, hs'⟩ := opure_ok k3
      subst s'
      have hpos : 1 ≤ pos := ipp_pos (show indentPositionPadding _ lo 0 4 = (pos, padding) from hip) (by decide) (by omega)
      have hvl := view_getD_length_nat src c hlt
      have hb := indentPosition_bounds ((RCur.view src c).getD []) lo
      rw [hip] at hb
      have hnb : isBlank ((RCur.view src c).getD []) = false := by
        cases hbb : isBlank ((RCur.view src c).getD []) with
        | false => rfl
        | true => exact absurd hbb (by assumption)
      have hwithin : pos.toNat + 1 ≤ c.pad + (lineEnd src c.p - c.p) := by
        have := (hb (by simp only; omega)).2.2.1 hnb
        simp only at this
        omega
      exact ⟨codeTakeLine_app (s := { s with r := r2 }) hri2 hlt hL hpl hpos hwithin h3,
        fun hc => by rw [hst] at hc; cases hc⟩

/-- codeBlockParser.Open: the new node has one segment on this line -/
theorem codeOpen_new {L : Int} {parent : Nat} {s s' : St} {c : RCur} {a : Option Nat × PState} (hri : RI src s.r c)
    (hlt : c.p < src.length) (hL : L ≤ c.p) (hpl : PadL L c) (h : codeOpen parent s = .ok (a, s')) :
    ∀ id, a.1 = some id → id = s.nodes.length ∧ ((nd s' id).lines = [] ∨
      ∃ t, (nd s' id).lines = [t] ∧ L ≤ t.start ∧ t.stop ≤ (lineEnd src c.p : Int)) := by
  unfold codeOpen at h
  obtain ⟨y, s1, h1, k1⟩ := obind_ok h
  obtain ⟨rfl, r1, hs1, hri1⟩ := peekLine_inv hri h1
  subst s1
  dsimp only at k1
  obtain ⟨lo, s2, h2, k2⟩ := obind_ok k1
  obtain ⟨_, r2, hs2, hri2⟩ := (lineOffset_okl (s := { s with r := r1 }) hri1).of_ok h2
  subst s2
  generalize hip : indentPosition ((RCur.view src c).getD []) lo 4 = pp at k2
  obtain ⟨pos, padding⟩ := pp
  dsimp only at k2
  split at k2
  · obtain ⟨ha, _⟩ := opure_ok k2
    intro id hid; rw [ha] at hid; cases hid
  · next hneg =>
    obtain ⟨node, s3, h3, k3⟩ := obind_ok k2
    obtain ⟨hnode, hs3⟩ := onewNode_ok h3
    subst s3
    obtain ⟨_, s4, h4, k4⟩ := obind_ok k3
    obtain ⟨ha, hs'⟩ := opure_ok k4
    subst s'
    have hpos : 1 ≤ pos := by
      have : ¬ pos < 0 := by
        intro hlt0; apply hneg; simp [hlt0]
      exact ipp_pos (show indentPositionPadding _ lo 0 4 = (pos, padding) from hip) (by decide) (by omega)
    have hvl := view_getD_length_nat src c hlt
    have hb := indentPosition_bounds ((RCur.view src c).getD []) lo
    rw [hip] at hb
    have hnb : isBlank ((RCur.view src c).getD []) = false := by
      cases hbb : isBlank ((RCur.view src c).getD []) with
      | false => rfl
      | true => exfalso; apply hneg; simp [hbb]
    have hwithin : pos.toNat + 1 ≤ c.pad + (lineEnd src c.p - c.p) := by
      have := (hb (by simp only; omega)).2.2.1 hnb
      simp only at this
      omega
    have happ := codeTakeLine_app (L := L) (X := node)
      (s := ({ s with r := r2, nodes := s.nodes ++ [{ kind := .codeBlock }] } : St)) hri2 hlt hL hpl hpos hwithin h4
    have hnd3 : (nd ({ s with r := r2, nodes := s.nodes ++ [{ kind := .codeBlock }] } : St) node).lines = [] := by
      rw [hnode]; simp [nd]
    intro id hid
    rw [ha] at hid
    cases hid
    refine ⟨hnode, ?_⟩
    rcases happ with e | ⟨t, e, b1, b2⟩
    · left; rw [e, hnd3]
    · right; exact ⟨t, by rw [e, hnd3]; rfl, b1, b2⟩

/-- fencedCodeBlockParser.Continue: no line (the closing fence), or one segment on this line -/
theorem fencedContinue_app {L : Int} {X : Nat} {s s' : St} {c : RCur} {st : PState} (hri : RI src s.r c)
    (hlt : c.p < src.length) (hL : L ≤ c.p) (hpl : PadL L c) (hind : ∀ f, s.pc.fence = some f → 0 ≤ f.indent)
    (h : fencedContinue X s = .ok (st, s')) : RawC src L (lineEnd src c.p : Int) X s s' st := by
  unfold fencedContinue at h
  obtain ⟨y, s1, h1, k1⟩ := obind_ok h
  obtain ⟨rfl, r1, hs1, hri1⟩ := peekLine_inv hri h1
  subst s1
  dsimp only at k1
  obtain ⟨pc, s2, h2, k2⟩ := obind_ok k1
  obtain ⟨hpc, hs2⟩ := ogetPc_ok h2
  subst s2
  subst pc
  cases hf : s.pc.fence with
  | none =>
    have hf' : ({ s with r := r1 } : St).pc.fence = none := hf
    rw [hf'] at k2
    obtain ⟨_, _, h3, _⟩ := obind_ok k2
    cases h3
  | some f =>
    have hf' : ({ s with r := r1 } : St).pc.fence = some f := hf
    rw [hf'] at k2
    dsimp only at k2
    obtain ⟨fdata, s3, h3, k3⟩ := obind_ok k2
    obtain ⟨hfd, hs3⟩ := opure_ok h3
    subst s3
    subst fdata
    obtain ⟨lo, s4, h4, k4⟩ := obind_ok k3
    obtain ⟨_, r2, hs4, hri2⟩ := (lineOffset_okl (s := { s with r := r1 }) hri1).of_ok h4
    subst s4
    have hst2 : Stop src (lineEnd src c.p : Int) ({ s with r := r2 } : St) := ri_stopS (s := { s with r := r2 }) hri2
    -- the append, for the offset `pos` and the padding `padding` that were computed
    have tailF : ∀ (pos padding n' : Int), 0 ≤ pos → (padding ≠ 0 → 1 ≤ pos ∨ c.pad ≠ 0) →
        (if (padding != 0) = true then do
            let seg ← preserveLeadingTab
              { start := (RCur.seg src c).start + pos, stop := (RCur.seg src c).stop, padding := padding } f.indent
            appendLine X { start := seg.start, stop := seg.stop, padding := seg.padding, forceNewline := true }
            advanceAndSetPadding n' padding
            pure stContinueNoChildren
          else do
            let seg ← pure
              ({ start := (RCur.seg src c).start + pos, stop := (RCur.seg src c).stop, padding := padding } : Segment)
            appendLine X { start := seg.start, stop := seg.stop, padding := seg.padding, forceNewline := true }
            advanceAndSetPadding n' padding
            pure stContinueNoChildren : M PState) { s with r := r2 } = .ok (st, s') → RawC src L (lineEnd src c.p : Int) X s s' st := by
      intro pos padding n' hpos hpadc k
      have fin : ∀ (seg : Segment) (sA : St), L ≤ seg.start → seg.stop = (lineEnd src c.p : Int) → sA.nodes = s.nodes →
          Stop src (lineEnd src c.p : Int) sA →
          (do appendLine X { start := seg.start, stop := seg.stop, padding := seg.padding, forceNewline := true }
              advanceAndSetPadding n' padding
              pure stContinueNoChildren : M PState) sA = .ok (st, s') → RawC src L (lineEnd src c.p : Int) X s s' st := by
        intro seg sA hst hsp hn hstA k3
        obtain ⟨_, s5, h5, k5⟩ := obind_ok k3
        obtain ⟨hl5, _, _⟩ := appendLine_lines h5
        have hst5 : Stop src (lineEnd src c.p : Int) s5 := (appendLine_pres (Stop.ronly src _) X _).ok hstA h5
        obtain ⟨_, s6, h6, k6⟩ := obind_ok k5
        have hle := stop_le_of_pres ((stop_prims src (lineEnd src c.p : Int)).advanceAndSetPadding _ _) hst5 h6
        obtain ⟨r6, hs6⟩ := oadvanceAndSetPadding_ok h6
        obtain ⟨hst', hs'⟩ := opure_ok k6
        subst s'
        have hndA : nd sA X = nd s X := by simp only [nd, hn]
        have hnd6 : nd s6 X = nd s5 X := by rw [hs6]
        rw [hndA] at hl5
        refine ⟨?_, fun hc => by rw [hst'] at hc; cases hc⟩
        rcases hl5 with e | e
        · left; rw [hnd6]; exact e
        · right
          exact ⟨{ start := seg.start, stop := seg.stop, padding := seg.padding, forceNewline := true }, by rw [hnd6]; exact e,
            hst, by show seg.stop ≤ (lineEnd src c.p : Int); rw [hsp]; exact Int.le_refl _⟩
      have hs0 : (RCur.seg src c).start = (c.p : Int) := rfl
      have hs1 : (RCur.seg src c).stop = (lineEnd src c.p : Int) := rfl
      split at k
      · next hp =>
        have hne : padding ≠ 0 := by
          intro h0; rw [h0] at hp; exact absurd hp (by decide)
        obtain ⟨seg, s5, h5, k5⟩ := obind_ok k
        obtain ⟨hd, hn, _⟩ := preserveLeadingTab_inv h5
        have hst5 := ((stop_prims src (lineEnd src c.p : Int)).preserveLeadingTab _ _).ok hst2 h5
        have hb : L ≤ (c.p : Int) + pos - 1 := by
          rcases hpadc hne with h1 | h1
          · omega
          · have := hpl h1; omega
        rcases hd with e | e
        · exact fin seg s5 (by rw [e]; show L ≤ (RCur.seg src c).start + pos; omega) (by rw [e]; rfl) hn hst5 k5
        · exact fin seg s5 (by rw [e]; show L ≤ (RCur.seg src c).start + pos - 1; omega) (by rw [e]; rfl) hn hst5 k5
      · obtain ⟨seg, s5, h5, k5⟩ := obind_ok k
        obtain ⟨e, hs5⟩ := opure_ok h5
        subst s5
        exact fin seg { s with r := r2 } (by rw [e]; show L ≤ (RCur.seg src c).start + pos; omega) (by rw [e]; rfl) rfl hst2 k5
    generalize hq : indentPositionPadding ((RCur.view src c).getD []) lo (RCur.seg src c).padding f.indent = q at k4
    obtain ⟨q1, q2⟩ := q
    dsimp only at k4
    generalize hpp : (if q1 < 0
        then ((if firstNonSpacePos ((RCur.view src c).getD []) - (RCur.seg src c).padding < 0 then 0
                else firstNonSpacePos ((RCur.view src c).getD []) - (RCur.seg src c).padding), (0 : Int))
        else (q1, q2)) = pp at k4
    have hpos : 0 ≤ pp.1 := by
      rw [← hpp]
      split
      · simp only; split <;> omega
      · simp only; omega
    have hpadc : pp.2 ≠ 0 → 1 ≤ pp.1 ∨ c.pad ≠ 0 := by
      rw [← hpp]
      split
      · intro h0; exact absurd rfl h0
      · next hge =>
        intro hne
        have hpv : (RCur.seg src c).padding = (c.pad : Int) := rfl
        have hne' : q2 ≠ 0 := hne
        rcases ipp_pos_pad hq (hind f hf) (by omega) hne' with h1 | h1
        · exact .inl h1
        · right; rw [hpv] at h1; omega
    have closeB : ∀ (n' : Int) (sA : St), sA.nodes = s.nodes → sA.r = r2 →
        (do advance n'; pure stClose : M PState) sA = .ok (st, s') → RawC src L (lineEnd src c.p : Int) X s s' st := by
      intro n' sA hn hrA k
      obtain ⟨_, s5, h5, k5⟩ := obind_ok k
      obtain ⟨r5, hs5, hadv⟩ := oadvance_ok' h5
      obtain ⟨_, hs'⟩ := opure_ok k5
      subst s'
      have hsame : (nd s5 X).lines = (nd s X).lines := by
        rw [hs5]
        simp only [nd, hn]
      have hpr : PadR L r5 := advance_padr (padr_of_ri (r := sA.r) (by rw [hrA]; exact hri2) hpl) hadv
      exact ⟨.inl hsame, fun _ => ⟨hsame, fun c' hc' => padl_of_padr (r := r5) (by rw [hs5] at hc'; exact hc') hpr⟩⟩
    split at k4
    · split at k4
      · obtain ⟨v, s5, h5, k5⟩ := obind_ok k4
        obtain ⟨_, hs5⟩ := oliftE_ok h5
        subst s5
        split at k5
        · obtain ⟨last, s6, h6, k6⟩ := obind_ok k5
          obtain ⟨_, hs6⟩ := oliftE_ok h6
          subst s6
          exact closeB _ { s with r := r2 } rfl rfl k6
        · exact tailF pp.1 pp.2 _ hpos hpadc k5
      · exact tailF pp.1 pp.2 _ hpos hpadc k4
    · exact tailF pp.1 pp.2 _ hpos hpadc k4

/-! ### what the steps do to the order clause of a raw node -/

/-- a raw node whose lines increase and end at or before the line start `L` keeps increasing lines, which end at or
    before the line end `E` -/
theorem RawApp.nodeR {L E : Int} {X : Nat} {s s' : St} (h : RawApp L E X s s')
    (hold : OrdFrom 0 (nd s X).lines ∧ Below L (nd s X).lines) (hLE : L ≤ E)
    (h0 : ∀ t ∈ (nd s' X).lines, 0 ≤ t.start) : OrdFrom 0 (nd s' X).lines ∧ Below E (nd s' X).lines := by
  rcases h with e | ⟨t, e, b1, b2⟩
  · rw [e]; exact ⟨hold.1, hold.2.mono hLE⟩
  · have ht0 := h0 t (by rw [e]; simp)
    rw [e]; exact ⟨OrdFrom.append_fresh b1 hold.1 hold.2 ht0, Below.append hold.2 hLE b2⟩

/-- `Continue` of the three raw leaf parsers -/
theorem bpContinue_rawC {L : Int} {s s' : St} {c : RCur} {st : PState} (bp : BP) (node : Nat)
    (hraw : isRaw bp.kind = true) (hri : RI src s.r c) (hlt : c.p < src.length) (hL : L ≤ c.p) (hpl : PadL L c)
    (hind : ∀ f, s.pc.fence = some f → 0 ≤ f.indent) (e : bpContinue bp node s = .ok (st, s')) :
    RawC src L (lineEnd src c.p : Int) node s s' st := by
  cases bp
  case code => exact codeContinue_app hri hlt hL hpl e
  case fenced => exact fencedContinue_app hri hlt hL hpl hind e
  case html => exact htmlContinue_app hri hL hpl e
  all_goals exact absurd hraw (by decide)

/-- `Open` of the three raw leaf parsers: the new node has no line, or one on this line -/
theorem bpOpen_raw_new {L : Int} {s s' : St} {c : RCur} {a : Option Nat × PState} (bp : BP) (parent : Nat)
    (hraw : isRaw bp.kind = true) (hri : RI src s.r c) (hlt : c.p < src.length) (hL : L ≤ c.p) (hpl : PadL L c)
    (e : bpOpen bp parent s = .ok (a, s')) {n : Node} (hn : s'.nodes = s.nodes ++ [n]) (hid : a.1.isSome = true)
    (h0 : ∀ t ∈ n.lines, 0 ≤ t.start) :
    OrdFrom 0 n.lines ∧ Below (lineEnd src c.p : Int) n.lines := by
  have hndn : nd s' s.nodes.length = n := by simp [nd, hn]
  have fin : (∀ id, a.1 = some id → id = s.nodes.length ∧ ((nd s' id).lines = [] ∨
      ∃ t, (nd s' id).lines = [t] ∧ L ≤ t.start ∧ t.stop ≤ (lineEnd src c.p : Int))) →
      OrdFrom 0 n.lines ∧ Below (lineEnd src c.p : Int) n.lines := by
    intro hall
    cases ha : a.1 with
    | none => rw [ha] at hid; cases hid
    | some id =>
      obtain ⟨e1, e2⟩ := hall id ha
      rw [e1, hndn] at e2
      rcases e2 with e2 | ⟨t, e2, _, b2⟩
      · rw [e2]; exact ⟨trivial, Below.nil _⟩
      · have := h0 t (by rw [e2]; simp)
        rw [e2]
        exact ⟨⟨this, trivial⟩, fun u hu => by simp only [List.mem_singleton] at hu; rw [hu]; exact b2⟩
  cases bp
  case code => exact fin (codeOpen_new (parent := parent) hri hlt hL hpl e)
  case fenced =>
    have := fencedOpen_new (parent := parent) e hn
    rw [this]; exact ⟨trivial, Below.nil _⟩
  case html => exact fin (htmlOpen_new (parent := parent) hri hL e)
  all_goals exact absurd hraw (by decide)

/-! ### listItemParser.Continue keeps `PadL` -/

theorem advN_padl {L : Int} {c : RCur} (n : Nat) (hL : L ≤ c.p) (hpl : PadL L c) (hin : c.p ≤ src.length) :
    PadL L (RCur.advN src n c) ∧ L ≤ (RCur.advN src n c).p := by
  obtain ⟨m1, _⟩ := advN_mono src n c hin
  have hpadle := advN_pad_le src n c
  refine ⟨fun hne => ?_, by omega⟩
  have hz : c.pad ≠ 0 := by omega
  have := hpl hz; omega

/-- `Advance(n)` for a negative `n` (what `AdvanceAndSetPadding(-1,-1)` does): the padding stays, and so does the
    position when there is a padding -/
theorem advance_neg {n : Int} {r r' : Reader} (hn : n < 0) (h : r.advance n = .ok r') :
    r'.pos.padding = r.pos.padding ∧ (r.pos.padding ≠ 0 → r'.pos.start = r.pos.start) := by
  unfold Reader.advance at h
  simp only at h
  have fast : ∀ (pl : Int), n < pl ∧ (r.pos.padding == 0) = true →
      (pure { r with lineOffset := -1, pos := { r.pos with start := r.pos.start + n }, peekedLine := none } :
        Except Panic Reader) = .ok r' →
      r'.pos.padding = r.pos.padding ∧ (r.pos.padding ≠ 0 → r'.pos.start = r.pos.start) := by
    intro pl hc h
    cases h
    refine ⟨rfl, fun hne => ?_⟩
    exfalso
    have := hc.2
    simp only [beq_iff_eq] at this
    exact hne this
  have slow : Reader.advanceLoop { r with lineOffset := -1, peekedLine := none } n.toNat = .ok r' →
      r'.pos.padding = r.pos.padding ∧ (r.pos.padding ≠ 0 → r'.pos.start = r.pos.start) := by
    intro h
    have : n.toNat = 0 := by omega
    rw [this] at h
    unfold Reader.advanceLoop at h
    cases h
    exact ⟨rfl, fun _ => rfl⟩
  split at h <;> split at h
  · next hc => exact fast _ hc h
  · exact slow h
  · next hc => exact fast _ hc h
  · exact slow h

theorem listItemContinue_padl {L : Int} {node : Nat} {s s' : St} {c : RCur} {st : PState} (hri : RI src s.r c)
    (hlt : c.p < src.length) (hL : L ≤ c.p) (hpl : PadL L c) (p : Nat) (hp : (nd s node).parent = some p)
    (hk : li_ListKidsOK s p) (hoff : 0 ≤ li_lastOff s p) (h : listItemContinue node s = .ok (st, s')) :
    ∀ c', RI src s'.r c' → PadL L c' := by
  unfold listItemContinue at h
  obtain ⟨y, s1, h1, k1⟩ := obind_ok h
  obtain ⟨rfl, r1, hs1, hri1⟩ := peekLine_inv hri h1
  subst s1
  dsimp only at k1
  split at k1
  · -- a blank line
    obtain ⟨_, s2, h2, k2⟩ := obind_ok k1
    have hvl := view_getD_length_nat src c hlt
    have hle := lt_lineEnd src hlt
    obtain ⟨r2, hs2, hri2⟩ := (advance_okl (s := { s with r := r1 }) hri1
      (by omega : (0 : Int) ≤ (((RCur.view src c).getD []).length : Int) - 1)).of_ok h2
    subst s2
    obtain ⟨_, hs'⟩ := opure_ok k2
    subst s'
    intro c' hc'
    exact padl_of_ri_ri hri2 hc' (advN_padl _ hL hpl (Nat.le_of_lt hlt)).1
  · obtain ⟨n, s2, h2, k2⟩ := obind_ok k1
    obtain ⟨hn, hs2⟩ := ogetNode_ok h2
    subst s2
    subst n
    have hp' : (({ s with r := r1 } : St).nodes.getD node default).parent = some p := hp
    rw [hp'] at k2
    dsimp only at k2
    obtain ⟨offset, s3, h3, k3⟩ := obind_ok k2
    obtain ⟨hov, hs3⟩ := (li_lastOffset_okl { s with r := r1 } p hk).of_ok h3
    subst s3
    have hoff' : 0 ≤ offset := by rw [hov]; exact hoff
    obtain ⟨pc, s4, h4, k4⟩ := obind_ok k3
    obtain ⟨_, hs4⟩ := ogetPc_ok h4
    subst s4
    obtain ⟨lo, s5, h5, k5⟩ := obind_ok k4
    obtain ⟨_, r2, hs5, hri2⟩ := (lineOffset_okl (s := { s with r := r1 }) hri1).of_ok h5
    subst s5
    -- the states the function can end in: the reader `r2` (any context), or one `AdvanceAndSetPadding` later
    have same : ∀ (sA : St), sA.r = r2 → ∀ c', RI src sA.r c' → PadL L c' := by
      intro sA hr c' hc'
      rw [hr] at hc'
      exact padl_of_ri_ri hri2 hc' hpl
    have rest : ∀ (pos padding : Int), indentPosition ((RCur.view src c).getD []) lo offset = (pos, padding) →
        (do advanceAndSetPadding pos padding; pure stContinueHasChildren : M PState) { s with r := r2 } = .ok (st, s') →
        ∀ c', RI src s'.r c' → PadL L c' := by
      intro pos padding hip k
      obtain ⟨_, s6, h6, k6⟩ := obind_ok k
      obtain ⟨_, hs'⟩ := opure_ok k6
      subst s'
      by_cases hpos : 0 ≤ pos
      · obtain ⟨r6, hs6, hri6⟩ := (advanceAndSetPadding_okl (s := { s with r := r2 }) hri2 hpos padding).of_ok h6
        subst s6
        intro c' hc'
        refine padl_of_ri_ri hri6 hc' (advPadCur_padl hL hpl (Nat.le_of_lt hlt) (fun _ hpp => ?_)).1
        refine ⟨?_, hlt⟩
        by_cases ho0 : offset = 0
        · exfalso
          subst ho0
          unfold indentPosition indentPositionPadding at hip
          rw [if_pos (by rfl)] at hip
          cases hip
          omega
        · exact ipp_pos hip (by omega) hpos
      · -- `AdvanceAndSetPadding(-1, -1)`
        have hneg : pos < 0 := by omega
        have hpp : padding = -1 ∧ pos = -1 := by
          unfold indentPosition indentPositionPadding at hip
          split at hip
          · cases hip; omega
          · simp only at hip
            split at hip
            · cases hip
              have := ippLoop_pos lo offset ((RCur.view src c).getD []) 0 0
              rcases this with e | e
              · rw [e] at hneg; simp at hneg
              · omega
            · cases hip; exact ⟨rfl, rfl⟩
        obtain ⟨r6, hs6⟩ := oadvanceAndSetPadding_ok h6
        subst s6
        unfold GM.Blocks.advanceAndSetPadding Reader.advanceAndSetPadding at h6
        cases ha : r2.advance pos with
        | error e => rw [ha] at h6; simp [bind, Except.bind] at h6
        | ok ra =>
          rw [ha] at h6
          simp only [bind, Except.bind, pure, Except.pure] at h6
          obtain ⟨q1, q2⟩ := advance_neg hneg ha
          have hpad2 : r2.pos.padding = (c.pad : Int) := by rw [hri2.pos]
          have hnset : ¬ padding > ra.pos.padding := by rw [q1, hpad2, hpp.1]; omega
          rw [if_neg hnset] at h6
          have hr6 : r6 = ra := by
            have := congrArg (fun x => x.map (fun y => y.2.r)) h6
            simpa [Except.map] using this.symm
          intro c' hc'
          have hc'' : RI src ra c' := by rw [← hr6]; exact hc'
          have e := hc''.pos
          intro hne
          have hcp : (c'.pad : Int) = ra.pos.padding := by rw [e]
          have hcs : (c'.p : Int) = ra.pos.start := by rw [e]
          have hz : c.pad ≠ 0 := by omega
          have hs2 : r2.pos.start = (c.p : Int) := by rw [hri2.pos]
          have := q2 (by rw [hpad2]; omega)
          have := hpl hz
          omega
    split at k5
    · split at k5
      · obtain ⟨_, s6, h6, k6⟩ := obind_ok k5
        have e6 := omodPc_ok h6
        obtain ⟨_, hs'⟩ := opure_ok k6
        subst s'
        exact same s6 (by rw [e6])
      · split at k5
        · obtain ⟨_, hs'⟩ := opure_ok k5
          subst s'
          exact same _ rfl
        · exact rest _ _ rfl k5
    · exact rest _ _ rfl k5

end leaf

end GM.Blocks
