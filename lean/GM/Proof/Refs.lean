import GM.Model.Refs

namespace GM.Refs
open GM

def normList {α : Type} (ds : List (Bytes × α)) : List (Bytes × α) := ds.map fun d => (toLinkReference d.1, d.2)

theorem lookup_append' {α : Type} (a b : List (Bytes × α)) (k : Bytes) :
    (a ++ b).lookup k = (a.lookup k).or (b.lookup k) := by
  induction a with
  | nil => simp
  | cons x xs ih =>
    obtain ⟨xk, xv⟩ := x
    simp only [List.cons_append, List.lookup_cons]
    split <;> simp [ih]

theorem foldl_addRef_lookup {α : Type} (acc ds : List (Bytes × α)) (k : Bytes) :
    (ds.foldl addRef acc).lookup k = (acc ++ normList ds).lookup k := by
  induction ds generalizing acc with
  | nil => simp [normList]
  | cons d rest ih =>
    simp only [List.foldl_cons]
    rw [ih]
    unfold addRef
    simp only [normList, List.map_cons]
    split
    · rename_i hsome
      -- the key is already present: the new definition is shadowed
      rw [lookup_append', lookup_append']
      cases hacc : acc.lookup k with
      | some v => simp
      | none =>
        simp only [Option.or_none, Option.none_or, List.lookup_cons]
        by_cases hk : k == toLinkReference d.1
        · have : k = toLinkReference d.1 := by simpa using hk
          subst this
          rw [hacc] at hsome; simp at hsome
        · simp [hk]
    · rw [List.append_assoc]; rfl

theorem build_lookup {α : Type} (ds : List (Bytes × α)) (k : Bytes) :
    (build ds).lookup k = (normList ds).lookup k := by
  unfold build; rw [foldl_addRef_lookup]; simp

theorem lookup_none_of_not_mem {α : Type} (l : List (Bytes × α)) (k : Bytes)
    (h : ∀ x ∈ l, x.1 ≠ k) : l.lookup k = none := by
  induction l with
  | nil => rfl
  | cons x xs ih =>
    obtain ⟨xk, xv⟩ := x
    simp only [List.lookup_cons]
    have hx : (k == xk) = false := by
      have := h (xk, xv) (by simp)
      simp only [ne_eq] at this
      simp [beq_eq_false_iff_ne, Ne.symm this]
    rw [hx]
    exact ih (fun y hy => h y (by simp [hy]))

theorem lookup_comm_of_disjoint {α : Type} (a b : List (Bytes × α)) (k : Bytes)
    (h : ∀ x ∈ a, ∀ y ∈ b, x.1 ≠ y.1) : (a ++ b).lookup k = (b ++ a).lookup k := by
  rw [lookup_append', lookup_append']
  cases ha : a.lookup k with
  | none => simp
  | some v =>
    -- k is a key of a, so it is not a key of b
    have hb : b.lookup k = none := by
      apply lookup_none_of_not_mem
      intro y hy hyk
      -- find the element of a with key k
      have : ∃ x ∈ a, x.1 = k := by
        clear h hy hyk
        induction a with
        | nil => simp at ha
        | cons x xs ih =>
          obtain ⟨xk, xv⟩ := x
          simp only [List.lookup_cons] at ha
          by_cases hk : k == xk
          · exact ⟨(xk, xv), by simp, by simpa using (beq_iff_eq.mp hk).symm⟩
          · simp [hk] at ha
            obtain ⟨x, hx, hxk⟩ := ih ha
            exact ⟨x, by simp [hx], hxk⟩
      obtain ⟨x, hx, hxk⟩ := this
      exact h x hx y hy (by rw [hxk, hyk])
    simp [hb]

end GM.Refs
