/-
  GM.Proof.BlocksTNO21 — one call of the table paragraph transformer `GM.TableX.transformPT src node`, step by step:
  the records it allocates (`Built`: the old store is untouched while Table / TableHeader / TableRow / TableCell records
  are allocated and linked among themselves) and then the three steps on the old store (`SetSliced` of the paragraph,
  `InsertAfter`, `RemoveChild`).  Result: `transformPT_post` — either nothing happened, or `TablePost`.
-/
import GM.Proof.BlocksTNO17
import GM.Proof.BlocksTNO20
import GM.Model.ExtTableX

namespace GM.Blocks.TO
open GM GM.Text GM.Spec GM.Proof.Reader GM.TableX

/-- a node without its tree links -/
def dataOf (n : Node) : Node := { n with parent := none, children := [] }

/-! ### the tree primitives on a node without parent, as store functions -/

theorem ensureIsolated_none {c : Nat} {s s' : St} {a : Unit} (hc : (nd s c).parent = none)
    (e : ensureIsolated c s = .ok (a, s')) : s' = s := by
  unfold ensureIsolated at e
  obtain ⟨cn, s1, h1, k1⟩ := obind_ok e
  obtain ⟨rfl, rfl⟩ := ogetNode_ok h1
  have : (s1.nodes.getD c default).parent = none := hc
  rw [this] at k1
  exact (opure_ok k1).2

/-- `AppendChild` of a node without parent -/
theorem appendChild_none {p c : Nat} {s s' : St} {a : Unit} (hc : (nd s c).parent = none)
    (e : appendChild p c s = .ok (a, s')) :
    s' = upd (upd s p fun n => { n with children := n.children ++ [c] }) c fun n => { n with parent := some p } := by
  unfold appendChild at e
  obtain ⟨_, s1, h1, k1⟩ := obind_ok e
  have := ensureIsolated_none hc h1
  subst this
  obtain ⟨_, s2, h2, k2⟩ := obind_ok k1
  rw [modNode_eq] at h2 k2
  cases h2; cases k2; rfl

/-- `InsertBefore` of a node without parent: the new child list of `p` -/
theorem insertBefore_none {p : Nat} {v1 : Option Nat} {ins : Nat} {s s' : St} {a : Unit} (hc : (nd s ins).parent = none)
    (e : insertBefore p v1 ins s = .ok (a, s')) :
    ∃ kids, (kids = (nd s p).children ++ [ins] ∨ ∃ v, v1 = some v ∧ kids = insertBeforeIn v ins (nd s p).children) ∧
      s' = upd (upd s p fun n => { n with children := kids }) ins fun n => { n with parent := some p } := by
  unfold insertBefore at e
  cases v1 with
  | none => exact ⟨_, .inl rfl, appendChild_none hc e⟩
  | some v =>
    dsimp only at e
    obtain ⟨vn, s0, h0, k0⟩ := obind_ok e
    obtain ⟨rfl, rfl⟩ := ogetNode_ok h0
    split at k0
    · exact ⟨_, .inl rfl, appendChild_none hc k0⟩
    · obtain ⟨_, s1, h1, k1⟩ := obind_ok k0
      have := ensureIsolated_none hc h1
      subst this
      obtain ⟨_, s2, h2, k2⟩ := obind_ok k1
      rw [modNode_eq] at h2 k2
      cases h2; cases k2
      exact ⟨_, .inr ⟨v, rfl, rfl⟩, rfl⟩

/-- `RemoveChild` of a child of `p` -/
theorem removeChild_some {p c : Nat} {s s' : St} {a : Unit} (hc : (nd s c).parent = some p)
    (e : removeChild p c s = .ok (a, s')) :
    s' = upd (upd s p fun n => { n with children := n.children.erase c }) c fun n => { n with parent := none } := by
  unfold removeChild at e
  obtain ⟨cn, s1, h1, k1⟩ := obind_ok e
  obtain ⟨rfl, rfl⟩ := ogetNode_ok h1
  have hc' : (s1.nodes.getD c default).parent = some p := hc
  rw [hc'] at k1
  simp only [bne_self_eq_false, Bool.false_eq_true, if_false] at k1
  obtain ⟨_, s2, h2, k2⟩ := obind_ok k1
  rw [modNode_eq] at h2 k2
  cases h2; cases k2; rfl

theorem upd_len (s : St) (i : Nat) (f : Node → Node) : (upd s i f).nodes.length = s.nodes.length := by
  simp [upd]

theorem upd_r (s : St) (i : Nat) (f : Node → Node) : (upd s i f).r = s.r := rfl
theorem upd_pc (s : St) (i : Nat) (f : Node → Node) : (upd s i f).pc = s.pc := rfl

/-! ### the allocation phase -/

/-- the store while the records are allocated: nothing of `s0` has changed; the fresh nodes satisfy `P` (a property of
    the node without its links) and point to fresh nodes -/
structure Built (P : Node → Prop) (s0 s : St) : Prop where
  r : s.r = s0.r
  pc : s.pc = s0.pc
  len : s0.nodes.length ≤ s.nodes.length
  old : ∀ i, i < s0.nodes.length → nd s i = nd s0 i
  fresh : ∀ i, s0.nodes.length ≤ i → i < s.nodes.length → P (dataOf (nd s i))
  fpar : ∀ i q, s0.nodes.length ≤ i → (nd s i).parent = some q → s0.nodes.length ≤ q
  tree : TreeOK s0 → TreeOK s

variable {P : Node → Prop} {s0 : St}

theorem Built.refl (P : Node → Prop) (s0 : St) : Built P s0 s0 :=
  ⟨rfl, rfl, Nat.le_refl _, fun _ _ => rfl, fun i h1 h2 => absurd h2 (by omega), fun i q h1 h2 => (by
    rw [nd_default_of_ge s0 h1] at h2; cases h2), id⟩

/-- allocate a record -/
theorem Built.newNode {s s' : St} {n : Node} {id : Nat} (hb : Built P s0 s) (hp : n.parent = none) (hc : n.children = [])
    (hP : P (dataOf n)) (e : newNode n s = .ok (id, s')) :
    Built P s0 s' ∧ id = s.nodes.length ∧ s'.nodes.length = s.nodes.length + 1 ∧ (nd s' id).parent = none ∧
      ∀ i, i < s.nodes.length → nd s' i = nd s i := by
  obtain ⟨rfl, hs'⟩ := onewNode_ok e
  have hn : s'.nodes = s.nodes ++ [n] := by rw [hs']
  have hnd := nd_snoc hn
  have hlen : s'.nodes.length = s.nodes.length + 1 := by rw [hn]; simp
  refine ⟨⟨by rw [hs']; exact hb.r, by rw [hs']; exact hb.pc, by have := hb.len; omega, fun i hi => ?_, fun i h1 h2 => ?_,
    fun i q h1 h2 => ?_, fun h0 => (hb.tree h0).snoc hn hp hc⟩, rfl, hlen, ?_, fun i hi => by rw [hnd, if_pos hi]⟩
  · rw [hnd, if_pos (Nat.lt_of_lt_of_le hi hb.len)]; exact hb.old i hi
  · rw [hnd]
    split
    · next h3 => exact hb.fresh i h1 h3
    · rw [if_pos (by omega)]; exact hP
  · rw [hnd] at h2
    split at h2
    · exact hb.fpar i q h1 h2
    · split at h2
      · rw [hp] at h2; cases h2
      · cases h2
  · rw [hnd, if_neg (Nat.lt_irrefl _), if_pos rfl]; exact hp

/-- link a fresh record without parent below an older fresh record -/
theorem Built.appendChild {s s' : St} {p c : Nat} {a : Unit} (hb : Built P s0 s) (h0 : s0.nodes.length ≤ p) (hpc : p < c)
    (hcl : c < s.nodes.length) (hc : (nd s c).parent = none) (e : appendChild p c s = .ok (a, s')) :
    Built P s0 s' ∧ s'.nodes.length = s.nodes.length ∧ (∀ i, i ≠ c → (nd s' i).parent = (nd s i).parent) ∧
      (nd s' c).parent = some p := by
  have hs' := appendChild_none hc e
  have hnd : ∀ i, nd s' i = if c = i then { (if p = i then { (nd s p) with children := (nd s p).children ++ [c] } else nd s i) with parent := some p }
      else if p = i then { (nd s p) with children := (nd s p).children ++ [c] } else nd s i := by
    intro i
    rw [hs', nd_upd, upd_len]
    have hpl : p < s.nodes.length := by omega
    by_cases h1 : c = i
    · subst h1
      rw [if_pos ⟨rfl, hcl⟩, if_pos rfl, nd_upd]
      by_cases h2 : p = c
      · omega
      · rw [if_neg (fun h => h2 h.1), if_neg h2]
    · rw [if_neg (fun h => h1 h.1), if_neg h1, nd_upd]
      by_cases h2 : p = i
      · rw [if_pos ⟨h2, hpl⟩, if_pos h2]
      · rw [if_neg (fun h => h2 h.1), if_neg h2]
  have hlen : s'.nodes.length = s.nodes.length := by rw [hs', upd_len, upd_len]
  have hdata : ∀ i, dataOf (nd s' i) = dataOf (nd s i) := by
    intro i; rw [hnd]
    split
    · next h1 => subst h1; rw [if_neg (by omega)]; rfl
    · split
      · next h2 => subst h2; rfl
      · rfl
  have hpar : ∀ i, i ≠ c → (nd s' i).parent = (nd s i).parent := by
    intro i hi; rw [hnd, if_neg (Ne.symm hi)]
    split
    · next h2 => subst h2; rfl
    · rfl
  have hcp : (nd s' c).parent = some p := by rw [hnd, if_pos rfl]
  refine ⟨⟨by rw [hs']; exact hb.r, by rw [hs']; exact hb.pc, by rw [hlen]; exact hb.len, fun i hi => ?_, fun i h1 h2 => ?_,
    fun i q h1 h2 => ?_, fun ht => (appendChild_tree (hb.tree ht) hpc hcl e).1⟩, hlen, hpar, hcp⟩
  · rw [hnd, if_neg (by omega), if_neg (by omega)]; exact hb.old i hi
  · rw [hdata]; exact hb.fresh i h1 (by rw [← hlen]; exact h2)
  · by_cases hi : i = c
    · subst hi; rw [hcp] at h2; cases h2; exact h0
    · rw [hpar i hi] at h2; exact hb.fpar i q h1 h2

/-- `addCells`: the cells of one row -/
theorem Built.addCells (src : Bytes) (row : Nat) : ∀ (cells : List GM.Table.Cell) {s s' : St} {a : Unit}, Built P s0 s →
    s0.nodes.length ≤ row → row < s.nodes.length → (∀ c ∈ cells, P (dataOf (cellNode src c))) →
    addCells src row cells s = .ok (a, s') →
    Built P s0 s' ∧ s.nodes.length ≤ s'.nodes.length ∧ ∀ i, i < s.nodes.length → (nd s' i).parent = (nd s i).parent
  | [], s, s', a, hb, _, _, _, e => by
    unfold GM.TableX.addCells at e
    obtain ⟨_, rfl⟩ := opure_ok e
    exact ⟨hb, Nat.le_refl _, fun _ _ => rfl⟩
  | c :: rest, s, s', a, hb, h0, hr, hP, e => by
    unfold GM.TableX.addCells at e
    obtain ⟨id, s1, h1, k1⟩ := obind_ok e
    obtain ⟨b1, rfl, l1, p1, o1⟩ := hb.newNode rfl rfl (hP c (List.mem_cons_self ..)) h1
    obtain ⟨_, s2, h2, k2⟩ := obind_ok k1
    obtain ⟨b2, l2, f2, _⟩ := b1.appendChild h0 hr (by omega) p1 h2
    obtain ⟨b3, l3, f3⟩ := Built.addCells src row rest b2 h0 (by omega) (fun c' hc' => hP c' (List.mem_cons_of_mem _ hc')) k2
    refine ⟨b3, by omega, fun i hi => ?_⟩
    rw [f3 i (by omega), f2 i (by omega), o1 i hi]

/-- `addRow`: a TableHeader / TableRow record with its cells below the fresh record `table` -/
theorem Built.addRow (src : Bytes) (table tag : Nat) (cells : List GM.Table.Cell) {s s' : St} {a : Unit} (hb : Built P s0 s)
    (h0 : s0.nodes.length ≤ table) (ht : table < s.nodes.length)
    (hR : P (dataOf { kind := .thematicBreak, htmlType := tag, offset := dashAt src, lines := (cells.flatMap (·.esc)).map escSeg, linesNil := (cells.flatMap (·.esc)).isEmpty }))
    (hP : ∀ c ∈ cells, P (dataOf (cellNode src c)))
    (e : addRow src table tag cells s = .ok (a, s')) :
    Built P s0 s' ∧ s.nodes.length ≤ s'.nodes.length ∧ ∀ i, i < s.nodes.length → (nd s' i).parent = (nd s i).parent := by
  unfold GM.TableX.addRow at e
  obtain ⟨id, s1, h1, k1⟩ := obind_ok e
  obtain ⟨b1, rfl, l1, p1, o1⟩ := hb.newNode rfl rfl hR h1
  obtain ⟨_, s2, h2, k2⟩ := obind_ok k1
  obtain ⟨b2, l2, f2⟩ := Built.addCells src s.nodes.length cells b1 (by have := hb.len; omega) (by omega) hP h2
  obtain ⟨b3, l3, f3, _⟩ := b2.appendChild h0 ht (by omega) (by rw [f2 _ (by omega)]; exact p1) k2
  refine ⟨b3, by omega, fun i hi => ?_⟩
  rw [f3 i (by omega), f2 i (by omega), o1 i hi]

theorem Built.addRows (src : Bytes) (table : Nat) : ∀ (rows : List (List GM.Table.Cell)) {s s' : St} {a : Unit}, Built P s0 s →
    s0.nodes.length ≤ table → table < s.nodes.length →
    (∀ r ∈ rows, P (dataOf { kind := .thematicBreak, htmlType := tagRow, offset := dashAt src, lines := (r.flatMap (·.esc)).map escSeg, linesNil := (r.flatMap (·.esc)).isEmpty })) →
    (∀ r ∈ rows, ∀ c ∈ r, P (dataOf (cellNode src c))) →
    addRows src table rows s = .ok (a, s') →
    Built P s0 s' ∧ s.nodes.length ≤ s'.nodes.length ∧ ∀ i, i < s.nodes.length → (nd s' i).parent = (nd s i).parent
  | [], s, s', a, hb, _, _, _, _, e => by
    unfold GM.TableX.addRows at e
    obtain ⟨_, rfl⟩ := opure_ok e
    exact ⟨hb, Nat.le_refl _, fun _ _ => rfl⟩
  | r :: rest, s, s', a, hb, h0, ht, hR, hP, e => by
    unfold GM.TableX.addRows at e
    obtain ⟨_, s1, h1, k1⟩ := obind_ok e
    obtain ⟨b1, l1, f1⟩ := hb.addRow src table tagRow r h0 ht (hR r (List.mem_cons_self ..)) (hP r (List.mem_cons_self ..)) h1
    obtain ⟨b2, l2, f2⟩ := Built.addRows src table rest b1 h0 (by omega) (fun r' hr' => hR r' (List.mem_cons_of_mem _ hr'))
      (fun r' hr' => hP r' (List.mem_cons_of_mem _ hr')) k1
    exact ⟨b2, by omega, fun i hi => by rw [f2 i (by omega), f1 i hi]⟩

end GM.Blocks.TO
