/-
  GM.Proof.BlocksInv — the state invariant of the block phase and the per-parser contracts that the driver proof
  (GM.Proof.BlocksDriver) composes into "no Go panic for whole runs".

  * `NodesOK src s`   — every node of the store: all line segments inside the source (`SegOK`: C05(c) range part), and
                        `lines.values == nil` only when there are no lines.
  * `BlockOK s b`     — an entry of `pc.openedBlocks`: its node exists, has the kind its parser builds, a paragraph /
                        setext heading has a line, the context key of a setext heading / fenced code block is set.
  * `KeysOK src s`    — what the two context keys point to (temporaryParagraphKey: a paragraph with lines; fencedCodeBlockInfoKey:
                        fence length ≥ 3, indent ≥ 0).
  * `Ext s s'`        — how ANY parser call may change the store: it grows, kinds of existing nodes stay, a node
                        that is not a code block keeps having lines once it has one.
  * `OpenPost / ContPost / ClosePost` — the contract of Open / Continue / Close of one block parser.
-/
import GM.Proof.BlocksAtx

namespace GM.Blocks
open GM GM.Text GM.Spec GM.Proof.Reader

/-- the node kind a block parser builds -/
def BP.kind : BP → Kind
  | .setext => .heading | .thematic => .thematicBreak | .list => .list | .listItem => .listItem
  | .code => .codeBlock | .atx => .heading | .fenced => .fencedCodeBlock | .blockquote => .blockquote
  | .html => .htmlBlock | .paragraph => .paragraph

/-- store lookup -/
abbrev nd (s : St) (i : Nat) : Node := s.nodes.getD i default

structure NodeOK (src : Bytes) (n : Node) : Prop where
  lines : LinesOK src n.lines
  nil : n.linesNil = true → n.lines = []

def NodesOK (src : Bytes) (s : St) : Prop := ∀ n ∈ s.nodes, NodeOK src n

structure BlockOK (s : St) (b : Block) : Prop where
  lt : b.node < s.nodes.length
  kind : (nd s b.node).kind = b.bp.kind
  para : b.bp = .paragraph → (nd s b.node).lines ≠ []
  setext : b.bp = .setext → (nd s b.node).lines ≠ [] ∧ s.pc.tmpPara.isSome = true
  fenced : b.bp = .fenced → s.pc.fence.isSome = true

structure KeysOK (s : St) : Prop where
  tmp : ∀ t, s.pc.tmpPara = some t → t < s.nodes.length ∧ (nd s t).kind = .paragraph ∧ (nd s t).lines ≠ []
  fence : ∀ f, s.pc.fence = some f → 3 ≤ f.length ∧ 0 ≤ f.indent ∧ f.node < s.nodes.length

/-- how a parser call may change the node store -/
structure Ext (s s' : St) : Prop where
  len : s.nodes.length ≤ s'.nodes.length
  kind : ∀ i, i < s.nodes.length → (nd s' i).kind = (nd s i).kind
  linesNE : ∀ i, i < s.nodes.length → (nd s i).kind ≠ .codeBlock → (nd s i).lines ≠ [] → (nd s' i).lines ≠ []

theorem Ext.refl (s : St) : Ext s s := ⟨Nat.le_refl _, fun _ _ => rfl, fun _ _ _ h => h⟩

theorem Ext.trans {s1 s2 s3 : St} (h1 : Ext s1 s2) (h2 : Ext s2 s3) : Ext s1 s3 where
  len := Nat.le_trans h1.len h2.len
  kind := fun i hi => by rw [h2.kind i (Nat.lt_of_lt_of_le hi h1.len), h1.kind i hi]
  linesNE := fun i hi hk hl =>
    h2.linesNE i (Nat.lt_of_lt_of_le hi h1.len) (by rw [h1.kind i hi]; exact hk) (h1.linesNE i hi hk hl)

theorem Ext.of_nodes_eq {s s' : St} (h : s'.nodes = s.nodes) : Ext s s' :=
  ⟨by rw [h]; exact Nat.le_refl _, fun _ _ => by simp only [nd, h], fun _ _ _ hl => by simpa only [nd, h] using hl⟩

/-- the reader after a leaf parser's `Continue`: good enough for the `AdvanceLine` that follows
    (fcode_block.go:104 may call `Advance(-1)`, which leaves `pos.Start` one byte back) -/
def RIa (src : Bytes) (r : Reader) (c : RCur) : Prop :=
  ∃ r0, RI src r0 c ∧ r.advanceLine = r0.advanceLine

theorem RI.toRIa {src r c} (h : RI src r c) : RIa src r c := ⟨r, h, rfl⟩

/-- virtual padding only exists behind a tab, hence not at byte 0 (needed by `preserveLeadingTabInCodeBlock`, which
    looks one byte back) -/
def PadOK (c : RCur) : Prop := c.pad ≠ 0 → 1 ≤ c.p

theorem adv1_pad_le (src : Bytes) (c : RCur) : (RCur.adv1 src c).pad ≤ c.pad := by
  rcases adv1_cases src c with ⟨e, _⟩ | ⟨_, _, e⟩ | ⟨_, _, _, e⟩ <;> rw [e] <;> simp

theorem advN_pad_le (src : Bytes) (n : Nat) : ∀ c : RCur, (RCur.advN src n c).pad ≤ c.pad := by
  induction n with
  | zero => intro c; exact Nat.le_refl _
  | succ n ih => intro c; simp only [RCur.advN]; exact Nat.le_trans (ih _) (adv1_pad_le src c)

theorem PadOK.advN {src : Bytes} {c : RCur} (h : PadOK c) (hc : c.p ≤ src.length) (n : Nat) :
    PadOK (RCur.advN src n c) := by
  intro hne
  have h1 := advN_pad_le src n c
  have h2 := (advN_mono src n c hc).1
  have : c.pad ≠ 0 := by omega
  have := h this
  omega

/-- the leaf parsers -/
def BP.isLeaf (bp : BP) : Bool := !bp.isContainer

/-! ### the contract of `Open` -/

/-- what `bp.Open(parent)` guarantees when started in `s` with cursor `c`; `a` = (node or nil, state) -/
structure OpenPost (src : Bytes) (bp : BP) (parent : Nat) (s : St) (c : RCur) (a : Option Nat × PState) (s' : St) :
    Prop where
  ri : ∃ c', RI src s'.r c' ∧ PadOK c' ∧ c.p ≤ c'.p ∧ (a.1 = none → c' = c) ∧ (a.2.hasChildren = true → c.p < c'.p)
  opened : s'.pc.opened = s.pc.opened
  boff : s'.pc.blockOffset = s.pc.blockOffset
  noNode : a.1 = none → s'.nodes = s.nodes
  newNode : ∀ id, a.1 = some id → id = s.nodes.length ∧ ∃ n, s'.nodes = s.nodes ++ [n] ∧ n.kind = bp.kind ∧
      NodeOK src n ∧ n.parent = none ∧ (bp = .paragraph → n.lines ≠ []) ∧ (bp = .setext → n.lines ≠ [])
  tmp : (bp = .setext ∧ a.1.isSome = true ∧
          ∃ lb, s.pc.opened.getLast? = some lb ∧ (nd s lb.node).kind = .paragraph ∧
            (nd s lb.node).parent = some parent ∧ s'.pc.tmpPara = some lb.node) ∨
        ((bp ≠ .setext ∨ a.1 = none) ∧ s'.pc.tmpPara = s.pc.tmpPara)
  fence : (bp = .fenced ∧ ∃ id f, a.1 = some id ∧ s'.pc.fence = some f ∧ f.node = id ∧ 3 ≤ f.length ∧ 0 ≤ f.indent) ∨
        ((bp ≠ .fenced ∨ a.1 = none) ∧ s'.pc.fence = s.pc.fence)
  req : a.2.requirePara = true → bp = .setext ∧ a.1.isSome = true
  kids : a.2.hasChildren = true → bp.isContainer = true ∧ a.1.isSome = true

/-- the states in which `openBlocks` tries the parsers: a line is there, and `BlockOffset` (when set) is an index
    of the line -/
structure LineCtx (src : Bytes) (s : St) (c : RCur) : Prop where
  ri : RI src s.r c
  lt : c.p < src.length
  pad : PadOK c
  off : s.pc.blockOffset < (((RCur.view src c).getD []).length : Int)
  nodes : NodesOK src s

def OpenSpec (src : Bytes) (bp : BP) : Prop :=
  ∀ (parent : Nat) (s : St) (c : RCur), LineCtx src s c → OKL (fun a s' => OpenPost src bp parent s c a s') (bpOpen bp parent s)

/-! ### the contract of `Continue` -/

structure ContPost (src : Bytes) (bp : BP) (s : St) (c : RCur) (st : PState) (s' : St) : Prop where
  ria : ∃ c', RIa src s'.r c' ∧ PadOK c' ∧ c.p ≤ c'.p ∧ c'.p ≤ src.length ∧
      ((st.cont = true ∧ st.hasChildren = false) ∨ RI src s'.r c')
  pc : s'.pc = s.pc
  ext : Ext s s'
  nodes : NodesOK src s'
  leaf : bp.isContainer = false → st.hasChildren = false
  cont : bp.isContainer = true → st.cont = true → st.hasChildren = true

def ContSpec (src : Bytes) (bp : BP) : Prop :=
  ∀ (node : Nat) (s : St) (c : RCur), RI src s.r c → PadOK c → c.p < src.length → NodesOK src s → KeysOK s →
    BlockOK s ⟨node, bp⟩ → OKL (fun st s' => ContPost src bp s c st s') (bpContinue bp node s)

/-! ### the contract of `Close` -/

structure ClosePost (src : Bytes) (bp : BP) (node : Nat) (s : St) (s' : St) : Prop where
  r : s'.r = s.r
  opened : s'.pc.opened = s.pc.opened
  ext : Ext s s'
  nodes : NodesOK src s'
  tmp : s'.pc.tmpPara = s.pc.tmpPara ∨ (bp = .setext ∧ s'.pc.tmpPara = none)
  fence : s'.pc.fence = s.pc.fence ∨
    (bp = .fenced ∧ s'.pc.fence = none ∧ ∃ f, s.pc.fence = some f ∧ f.node = node)
  /-- closing a paragraph (that has lines) leaves it where it is in the tree -/
  para : bp = .paragraph → (nd s' node).parent = (nd s node).parent

def CloseSpec (src : Bytes) (bp : BP) : Prop :=
  ∀ (node : Nat) (s : St), s.r.source = src → NodesOK src s → KeysOK s →
    BlockOK s ⟨node, bp⟩ → OKL (fun _ s' => ClosePost src bp node s s') (bpClose bp node s)

/-! ### cursor facts shared by the parser proofs -/

/-- `Advance(n)` that stays inside the current line (`n` < length of the view): first the padding is used up, then
    bytes of the line; the line (its end, its start) stays the same and the cursor stays inside the source -/
theorem advN_within (src : Bytes) (n : Nat) : ∀ (c : RCur), c.p < src.length →
    n + 1 ≤ c.pad + (lineEnd src c.p - c.p) →
    (RCur.advN src n c).p = c.p + (n - c.pad) ∧ (RCur.advN src n c).pad = c.pad - n ∧
    (RCur.advN src n c).ln = c.ln ∧
    lineEnd src (RCur.advN src n c).p = lineEnd src c.p ∧ lineStart src (RCur.advN src n c).p = lineStart src c.p ∧
    (RCur.advN src n c).p < src.length := by
  induction n with
  | zero => intro c hp _; simp [RCur.advN, hp]
  | succ n ih =>
    intro c hp hn
    simp only [RCur.advN]
    by_cases hz : c.pad = 0
    · have hlt : c.p + (n + 1) < lineEnd src c.p := by omega
      have hle := lineEnd_le src c.p
      have hb' : src[c.p]? ≠ some 10 := by
        intro hb; rw [lineEnd_nl src hb] at hlt; omega
      have hb : ¬ src[c.p] = 10 := by simpa [List.getElem?_eq_getElem hp] using hb'
      have e : RCur.adv1 src c = { c with p := c.p + 1 } := by simp [RCur.adv1, hp, hz, hb]
      have hs := lineEnd_succ src hp hb'
      have hp1 : c.p + 1 < src.length := by omega
      obtain ⟨i1, i2, i3, i4, i5, i6⟩ := ih { c with p := c.p + 1 } hp1 (by simp only; omega)
      rw [e]
      simp only at i1 i2 i3 i4 i5 i6
      refine ⟨by rw [i1]; omega, by rw [i2]; omega, i3, by rw [i4, hs], ?_, i6⟩
      rw [i5]; simp only [lineStart]; simp [hb']
    · have e : RCur.adv1 src c = { c with pad := c.pad - 1 } := by simp [RCur.adv1, hp, hz]
      obtain ⟨i1, i2, i3, i4, i5, i6⟩ := ih { c with pad := c.pad - 1 } hp (by simp only; omega)
      rw [e]
      simp only at i1 i2 i3 i4 i5 i6
      exact ⟨by rw [i1]; omega, by rw [i2]; omega, i3, i4, i5, i6⟩

/-- the view after such an `Advance(n)` is the old view without its first `n` bytes -/
theorem view_advN_within (src : Bytes) (n : Nat) (c : RCur) (hp : c.p < src.length)
    (hn : n + 1 ≤ c.pad + (lineEnd src c.p - c.p)) :
    RCur.view src (RCur.advN src n c) = some (((RCur.view src c).getD []).drop n) := by
  obtain ⟨i1, i2, _, i4, _, i6⟩ := advN_within src n c hp hn
  have hle := lineEnd_le src c.p
  rw [i1] at i4
  rw [view_eq src _ i6, view_eq src c hp, i1, i2, i4]
  simp only [Option.getD_some, Option.some.injEq]
  unfold spaces sub
  by_cases h : n ≤ c.pad
  · have e : n - c.pad = 0 := by omega
    rw [e, Nat.add_zero, List.drop_append]
    simp only [List.drop_replicate, List.length_replicate]
    have : n - c.pad = 0 := e
    simp [this]
  · have hgt : c.pad < n := by omega
    rw [List.drop_append]
    simp only [List.drop_replicate, List.length_replicate]
    have e1 : c.pad - n = 0 := by omega
    rw [e1]
    simp only [List.replicate_zero, List.nil_append]
    rw [List.drop_take, List.drop_drop]
    congr 1
    · omega

theorem view_getD_length (src : Bytes) (c : RCur) (hp : c.p < src.length) :
    (((RCur.view src c).getD []).length : Int) = c.pad + (lineEnd src c.p - c.p : Nat) := by
  rw [view_eq src c hp]
  have h1 := lineEnd_le src c.p
  simp [spaces, length_sub src h1]

theorem view_getD_length_nat (src : Bytes) (c : RCur) (hp : c.p < src.length) :
    ((RCur.view src c).getD []).length = c.pad + (lineEnd src c.p - c.p) := by
  rw [view_eq src c hp]
  have h1 := lineEnd_le src c.p
  simp [spaces, length_sub src h1]

end GM.Blocks
