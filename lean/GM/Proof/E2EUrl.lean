/-
  GM.Proof.E2EUrl — where URL values stand in the output, for EVERY tree: in the option-independent piece list of C10
  (`ir e a esc t`, whose `emit`-concatenation IS the rendered output) every URL piece `.url d` stands directly between a
  literal piece that consists of `<a href="` (+ `mailto:` for e-mail autolinks) or `<img src="` and a literal piece
  that starts with the closing quote; and what safe mode writes from the opening quote to the closing quote —
  `pre ++ urlOut false d` — contains no quote and is harmless under `Spec.hrefDangerous` (C04 `safe_href`,
  `safe_autolink`). No other piece kind carries a destination.
-/
import GM.Model.RenderIR
import GM.Proof.UrlSafe
import GM.Proof.Util

namespace GM.E2E
open GM GM.Spec

/-- the literal in front of a URL piece opens an `href` / `src` attribute (`pre` = what the renderer itself puts in
    front of the destination: nothing, or `mailto:`), and the attribute value safe mode writes is quote-free and harmless -/
def UrlSite (a d : Bytes) : Prop :=
  ∃ pre : Bytes, (a = strBytes "<a href=\"" ++ pre ∨ a = strBytes "<img src=\"" ++ pre) ∧
    (∀ c ∈ pre ++ urlOut false d, c ≠ 34) ∧
    hrefDangerous lookupEntity (pre ++ urlOut false d) = false

/-- every URL piece of the list stands between its opening literal and a literal that starts with `"` -/
def UrlPiecesOK (ps : List Piece) : Prop :=
  ∀ pre d post, ps = pre ++ Piece.url d :: post →
    ∃ pre' a c post', pre = pre' ++ [Piece.lit a] ∧ post = Piece.lit (34 :: c) :: post' ∧ UrlSite a d

theorem urlPiecesOK_of_noUrl {ps : List Piece} (h : ∀ d, Piece.url d ∉ ps) : UrlPiecesOK ps := by
  intro pre d post e
  exact absurd (by rw [e]; simp) (h d)

theorem urlPiecesOK_nil : UrlPiecesOK [] := urlPiecesOK_of_noUrl (by simp)

theorem urlPiecesOK_append {x y : List Piece} (hx : UrlPiecesOK x) (hy : UrlPiecesOK y) : UrlPiecesOK (x ++ y) := by
  intro pre d post e
  rcases List.append_eq_append_iff.mp e with ⟨m, e1, e2⟩ | ⟨m, e1, e2⟩
  · -- pre = x ++ m, y = m ++ url :: post
    obtain ⟨pre', a, c, post', h1, h2, h3⟩ := hy m d post e2
    exact ⟨x ++ pre', a, c, post', by rw [e1, h1, List.append_assoc], h2, h3⟩
  · -- x = pre ++ m, url :: post = m ++ y
    cases m with
    | nil =>
      simp only [List.nil_append] at e2
      simp only [List.append_nil] at e1
      obtain ⟨pre', a, c, post', h1, h2, h3⟩ := hy [] d post (by simpa using e2.symm)
      simp at h1
    | cons p m =>
      simp only [List.cons_append, List.cons.injEq] at e2
      obtain ⟨rfl, rfl⟩ := e2
      obtain ⟨pre', a, c, post', h1, h2, h3⟩ := hx pre d m e1
      exact ⟨pre', a, c, post' ++ y, h1, by rw [h2]; rfl, h3⟩

theorem no34_escapeHTML (v : Bytes) : ∀ c ∈ escapeHTML v, c ≠ 34 := by
  have h := GM.Proof.escapeHTML_noRaw v
  unfold noRawSpecial at h
  rw [List.all_eq_true] at h
  intro c hc
  have := h c hc
  simp only [Bool.and_eq_true, bne_iff_ne, ne_eq] at this
  exact this.2

theorem no34_urlOut (d : Bytes) : ∀ c ∈ urlOut false d, c ≠ 34 := by
  unfold urlOut
  split
  · exact no34_escapeHTML d
  · simp

theorem urlSite_link (dest : Bytes) : UrlSite (strBytes "<a href=\"") (urlEscape dest true) :=
  ⟨[], .inl (by simp), by simpa using no34_urlOut _, by simpa using GM.Proof.safe_href dest⟩

theorem urlSite_image (dest : Bytes) : UrlSite (strBytes "<img src=\"") (urlEscape dest true) :=
  ⟨[], .inr (by simp), by simpa using no34_urlOut _, by simpa using GM.Proof.safe_href dest⟩

theorem urlSite_autoLink (email : Bool) (url : Bytes) :
    UrlSite (strBytes "<a href=\"" ++ (if email && !mailtoPrefixed url (strBytes "mailto:") then strBytes "mailto:" else []))
      (urlEscape url false) := by
  refine ⟨_, .inl rfl, ?_, GM.Proof.safe_autolink email url⟩
  intro c hc
  rw [List.mem_append] at hc
  rcases hc with hc | hc
  · split at hc
    · have hm : ∀ c ∈ strBytes "mailto:", c ≠ 34 := by decide +kernel
      exact hm c hc
    · simp at hc
  · exact no34_urlOut _ c hc

/-- a three-piece site -/
theorem urlPiecesOK_site {a d c : Bytes} (rest : List Piece) (h : UrlSite a d) (hr : ∀ d', Piece.url d' ∉ rest) :
    UrlPiecesOK (Piece.lit a :: Piece.url d :: Piece.lit (34 :: c) :: rest) := by
  intro pre d' post e
  cases pre with
  | nil => simp at e
  | cons p pre =>
    simp only [List.cons_append, List.cons.injEq] at e
    obtain ⟨rfl, e⟩ := e
    cases pre with
    | nil =>
      simp only [List.nil_append, List.cons.injEq, Piece.url.injEq] at e
      obtain ⟨rfl, rfl⟩ := e
      exact ⟨[], a, c, rest, rfl, rfl, h⟩
    | cons q pre =>
      simp only [List.cons_append, List.cons.injEq] at e
      obtain ⟨rfl, e⟩ := e
      cases pre with
      | nil => simp at e
      | cons r pre =>
        simp only [List.cons_append, List.cons.injEq] at e
        exact absurd (by rw [e.2]; simp) (hr d')

theorem enterIR_urlOK (e : Exts) (a : Nat) (esc ph : Bool) (next : Option Node) (k : Kind)
    (attrs : Option (List Attr)) (cs : List Node) : UrlPiecesOK (enterIR e a esc ph next k attrs cs) := by
  unfold enterIR
  split
  · exact urlPiecesOK_nil
  · cases k
    case autoLink email url label _ =>
      cases attrs with
      | none => exact urlPiecesOK_site [] (urlSite_autoLink email url) (by simp)
      | some as => exact urlPiecesOK_site [] (urlSite_autoLink email url) (by simp)
    case link dest title _ => exact urlPiecesOK_site [] (urlSite_link dest) (by simp)
    case image dest title _ =>
      have : strBytes "\" alt=\"" = 34 :: strBytes " alt=\"" := by decide +kernel
      simp only [this, List.cons_append]
      exact urlPiecesOK_site [.voidEnd] (urlSite_image dest) (by simp)
    case text v soft hard raw cjk _ =>
      apply urlPiecesOK_of_noUrl
      intro d
      simp only
      split
      · simp
      · split
        · simp
        · split <;> simp
    all_goals (apply urlPiecesOK_of_noUrl; intro d; simp)

theorem leaveIR_urlOK (e : Exts) (a : Nat) (esc ph : Bool) (next : Option Node) (k : Kind) (cs : List Node) :
    UrlPiecesOK (leaveIR e a esc ph next k cs) := by
  apply urlPiecesOK_of_noUrl
  intro d
  unfold leaveIR
  split
  · simp
  · cases k
    case htmlBlock lines closure _ => cases closure <;> simp
    all_goals simp

mutual
theorem irNode_urlOK (e : Exts) (a : Nat) (esc ph : Bool) (next : Option Node) :
    (t : Node) → UrlPiecesOK (irNode e a esc ph next t)
  | .mk k attrs cs => by
    unfold irNode
    refine urlPiecesOK_append (urlPiecesOK_append (enterIR_urlOK e a esc ph next k attrs cs) ?_)
      (leaveIR_urlOK e a esc ph next k cs)
    split
    · exact urlPiecesOK_nil
    · exact irNodes_urlOK e a esc k.isTableHeader cs
theorem irNodes_urlOK (e : Exts) (a : Nat) (esc ph : Bool) : (cs : List Node) → UrlPiecesOK (irNodes e a esc ph cs)
  | [] => by unfold irNodes; exact urlPiecesOK_nil
  | c :: rest => by
    unfold irNodes
    exact urlPiecesOK_append (irNode_urlOK e a esc ph rest.head? c) (irNodes_urlOK e a esc ph rest)
end

/-- every URL piece of the piece list of ANY tree sits in an `href` / `src` site and is harmless in safe mode -/
theorem ir_urlOK (e : Exts) (a : Nat) (esc : Bool) (t : Node) : UrlPiecesOK (ir e a esc t) :=
  irNode_urlOK e a esc false none t

/-- the bytes of the three pieces of a site under any XHTML / HardWraps setting in safe mode -/
theorem emit_lit (x h u : Bool) (b : Bytes) : emit x h u (.lit b) = b := by simp [emit, hardWrap, emitBase]
theorem emit_url (x h u : Bool) (d : Bytes) : emit x h u (.url d) = urlOut u d := by simp [emit, hardWrap, emitBase]

end GM.E2E
