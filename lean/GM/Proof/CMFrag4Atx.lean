/-
  GM.Proof.CMFrag4Atx — the block phase on one ATX heading line `#…# text⏎` with nothing open, as an equation on
  explicit states: atxHeadingParser.Open opens a Heading of that level whose single line segment is the text; the reader
  is not advanced (the peeked line and LineOffset stay cached).
-/
import GM.Proof.CMFrag4Defs
namespace GM.Proof.CMFrag
open GM GM.Text GM.Blocks

theorem countLeading_atx (level : Nat) (t : Bytes) :
    countLeading 35 (List.replicate level 35 ++ 32 :: t) = level := by
  induction level with
  | zero => simp [countLeading]
  | succ n ih =>
    simp only [countLeading] at ih ⊢
    simp [List.replicate_succ, List.takeWhile]

theorem scan_atx (level : Nat) (t : Bytes) :
    scanWhileEq (List.replicate level 35 ++ 32 :: t) 35 0 = (level : Int) := by
  simp [scanWhileEq, countLeading_atx]

theorem sliceFrom_atx (level : Nat) (t : Bytes) :
    sliceFrom (List.replicate level 35 ++ 32 :: t) (level : Int) = .ok (32 :: t) := by
  have c : (0 : Int) ≤ (level : Int) ∧ (level : Int) ≤ ((List.replicate level 35 ++ 32 :: t).length : Int) := by
    simp; omega
  unfold sliceFrom
  rw [if_pos c]
  simp

theorem idx_atx (pre : Bytes) (c : UInt8) (post : Bytes) (n : Nat) (hn : n = pre.length) :
    idx (pre ++ c :: post) (n : Int) = .ok c := by
  subst hn
  simp [idx, getByte]

section atx
variable {src : Bytes} {p e : Nat} {v : Bytes}

/-- atxHeadingParser.Open at the start of `#…# text⏎` (already peeked, BlockOffset 0) -/
theorem atxOpen_atx (hl : Ln src p e v) (level : Nat) (l : Bytes)
    (hv : v = List.replicate level 35 ++ 32 :: (l ++ [10])) (h1 : 1 ≤ level) (h6 : level ≤ 6)
    (hb : BlkLine l) (hlast : ∀ c, l.getLast? = some c → c ≠ 35) (k : Int) (nodes : List Blocks.Node) (pc : Ctx)
    (hoff : pc.blockOffset = 0) (parent : Nat) :
    atxOpen parent ⟨rdr src k p p e (some v) 0, nodes, pc⟩ =
      .ok ((some nodes.length, stNoChildren),
        ⟨rdr src k p p e (some v) 0,
          nodes ++ [{ kind := .heading, level := (level : Int), lines := [sg (p + level + 1) (e - 1)], linesNil := false }],
          pc⟩) := by
  obtain ⟨c, t, hlc, hc⟩ := hb.first
  obtain ⟨h32, h9, h10, hsp, htr, hbr⟩ := letter_facts c hc
  have hp : p < src.length := by have := hl.le; have := hl.lt; omega
  have hscan := scan_atx level (l ++ [10])
  have hsl := sliceFrom_atx level (l ++ [10])
  rw [← hv] at hscan hsl
  have hvl : v.length = level + 1 + l.length + 1 := by rw [hv]; simp; omega
  unfold atxOpen
  simp only [bind_apply, peekLine_cached hp, getPc_run, hoff, Option.getD_some, hscan]
  have c0 : ¬ ((0 : Int) < 0) := by omega
  have c1 : (((level : Int) == 0) || decide ((level : Int) - 0 > 6)) = false := by
    simp; omega
  have c2 : ((level : Int) == (v.length : Int)) = false := by
    simp; omega
  have hs32 : isSpace 32 = true := by decide
  have hs10 : isSpace 10 = true := by decide
  have htl : trimLeftSpaceLength (32 :: (l ++ [10])) = 1 := by
    subst hlc
    simp [trimLeftSpaceLength, List.takeWhile, hsp, hs32]
  have hne : l ≠ [] := by rw [hlc]; simp
  have hlastsp : isSpace (l.getLast hne) = false := hb.lastNoSpace _ (List.getLast?_eq_some_getLast hne)
  have hlast35 : l.getLast hne ≠ 35 := hlast _ (List.getLast?_eq_some_getLast hne)
  have hrev : l.reverse = l.getLast hne :: l.dropLast.reverse := by
    conv => lhs; rw [← List.dropLast_concat_getLast hne]
    simp
  have htrr : trimRightSpaceLength v = 1 := by
    rw [hv]
    unfold trimRightSpaceLength
    simp [List.takeWhile, hs10, hrev, hlastsp]
  have e1 : ((1 : Nat) : Int) = 1 := rfl
  have hll : 1 ≤ l.length := by rw [hlc]; simp
  have cs : ¬ ((level : Int) + 1 ≥ (v.length : Int)) := by omega
  have cs2 : ¬ ((v.length : Int) - 1 ≤ (level : Int) + 1) := by omega
  have etn : ((v.length : Int) - 1).toNat = (level + l.length) + 1 := by omega
  have c3 : (((1 : Int) == 0) = true) = False := by simp
  simp only [c0, if_false, c1, Bool.false_eq_true, c2, bind_apply, hsl, liftE_ok, htl]
  simp only [e1, htrr, cs, if_false, cs2, etn, c3, bind_apply, newNode_run]
  have hidx : idx v ((level + l.length : Nat) : Int) = .ok (l.getLast hne) := by
    have ev : v = (List.replicate level 35 ++ 32 :: l.dropLast) ++ l.getLast hne :: [10] := by
      rw [hv]
      conv => lhs; rw [← List.dropLast_concat_getLast hne]
      simp
    rw [ev]
    apply idx_atx
    simp; omega
  have h35 : (l.getLast hne == 35) = false := by simp [hlast35]
  have hback : atxBackLoop v ((level : Int) + 1) (level + l.length + 1) = .ok ((level + l.length : Nat) : Int) := by
    rw [atxBackLoop]
    simp only [hidx, bind, Except.bind, h35, Bool.false_and, Bool.false_eq_true, if_false, pure, Except.pure]
  have cne : ((((level + l.length : Nat) : Int) != (v.length : Int) - 1 - 1) && !isSpace (l.getLast hne)) = false := by
    have : ((level + l.length : Nat) : Int) = (v.length : Int) - 1 - 1 := by omega
    simp [this]
  have hslice : slice v ((level : Int) + 1) (((level + l.length : Nat) : Int) + 1) = .ok l := by
    have c : (0 ≤ (level : Int) + 1 ∧ (level : Int) + 1 ≤ ((level + l.length : Nat) : Int) + 1 ∧
        ((level + l.length : Nat) : Int) + 1 ≤ (v.length : Int)) := by omega
    unfold slice sliceB
    rw [if_pos c]
    have ev : v = (List.replicate level 35 ++ [32]) ++ (l ++ [10]) := by rw [hv]; simp
    have t1 : ((level : Int) + 1).toNat = (List.replicate level (35 : UInt8) ++ [32]).length := by simp
    have t2 : (((level + l.length : Nat) : Int) + 1).toNat = (List.replicate level (35 : UInt8) ++ [32]).length + l.length := by
      simp; omega
    rw [t1, t2, ev, sub_body]
  have hdw : ((List.dropWhile (fun x => x == 35) l.reverse).length != 0) = true := by
    rw [hrev]; simp [List.dropWhile, h35]
  simp only [hback, liftE_ok, hidx, pure_apply, cne, Bool.false_eq_true, if_false, hslice, hdw, if_true, bind_apply,
    appendLine, modNode_run]
  have hseg : Segment.mk ((sg p e).start + ((level : Int) + 1) - (sg p e).padding)
        ((sg p e).start + (((level + l.length : Nat) : Int) + 1) - (sg p e).padding) 0 false =
      sg (p + level + 1) (e - 1) := by
    have := hl.len; have := hl.lt
    simp only [sg, Segment.mk.injEq, and_true]
    omega
  rw [hseg]
  simp [List.getD, List.set_append_right]

/-- the parser loop of openBlocks on an ATX heading line with nothing open: a Heading is opened below the Document -/
theorem tryParsers_atx (hl : Ln src p e v) (level : Nat) (l : Bytes)
    (hv : v = List.replicate level 35 ++ 32 :: (l ++ [10])) (h1 : 1 ≤ level) (h6 : level ≤ 6)
    (hb : BlkLine l) (hlast : ∀ c, l.getLast? = some c → c ≠ 35) (pts : List PT) (k : Int)
    (d : Blocks.Node) (rest : List Blocks.Node) (pc : Ctx) (hop : pc.opened = []) (hoff : pc.blockOffset = 0)
    (blank : Bool) :
    tryParsersT pts 0 blank false 0 [.atx, .code, .paragraph] .noBlocksOpened none
        ⟨rdr src k p p e (some v) 0, d :: rest, pc⟩ =
      .ok ((.done, .newBlocksOpened, none),
        ⟨rdr src k p p e (some v) 0,
          { d with children := d.children ++ [rest.length + 1] } ::
            (rest ++ [headN level [sg (p + level + 1) (e - 1)] blank]),
          { pc with opened := [{ node := rest.length + 1, bp := .atx }] }⟩) := by
  rw [tryParsersT]
  simp [bind_apply, lastOpenedBlock_run, hop, bpOpen, atxOpen_atx hl level l hv h1 h6 hb hlast k (d :: rest) pc hoff,
    BP.canAcceptIndentedLine, pure_apply, stNoChildren, modNode_run, appendChild, ensureIsolated, getNode_run, headN]
  simp [map_apply, modPc_run, hop]

/-- openBlocks at the start of an ATX heading line with nothing open -/
theorem openBlocks_atx (hl : Ln src p e v) (level : Nat) (l : Bytes)
    (hv : v = List.replicate level 35 ++ 32 :: (l ++ [10])) (h1 : 1 ≤ level) (h6 : level ≤ 6)
    (hb : BlkLine l) (hlast : ∀ c, l.getLast? = some c → c ≠ 35)
    (pts : List PT) (k : Int) (d : Blocks.Node) (rest : List Blocks.Node) (pc : Ctx) (hop : pc.opened = []) (blank : Bool)
    (pk : Option Bytes) (hpk : pk = none ∨ pk = some v) :
    openBlocksT pts 0 blank ⟨rdr src k p p e pk (-1), d :: rest, pc⟩ =
      .ok (.newBlocksOpened,
        ⟨rdr src k p p e (some v) 0,
          { d with children := d.children ++ [rest.length + 1] } ::
            (rest ++ [headN level [sg (p + level + 1) (e - 1)] blank]),
          { pc with blockOffset := 0, blockIndent := 0, opened := [{ node := rest.length + 1, bp := .atx }] }⟩) := by
  have hp : p < src.length := by have := hl.le; have := hl.lt; omega
  obtain ⟨n, hn⟩ : ∃ n, level = n + 1 := ⟨level - 1, by omega⟩
  have hv0 : v = 35 :: (List.replicate n 35 ++ 32 :: (l ++ [10])) := by
    rw [hv, hn, List.replicate_succ]; rfl
  have hiw : indentWidthI v 0 = (0, 0) := by
    rw [hv0]; unfold GM.Blocks.indentWidthI GM.Blocks.indentWidthGo; simp
  have hpeek : ∀ nodes pc', peekLine ⟨rdr src k p p e pk (-1), nodes, pc'⟩ =
      .ok ((some v, sg p e), ⟨rdr src k p p e (some v) (-1), nodes, pc'⟩) := by
    intro nodes pc'
    rcases hpk with h | h
    · subst h; exact peekLine_fresh hl.sub hp (Nat.le_of_lt hl.lt) hl.le ..
    · subst h; exact peekLine_cached hp ..
  unfold openBlocksT
  simp only [bind_apply, lastOpenedBlock_run, hop, List.getLast?_nil, pure_apply, source_run, retryFuel]
  rw [openBlocksLoopT]
  simp only [bind_apply, hpeek, Option.getD_some, lineOffset_fresh, hiw]
  have hlen : ¬ ((0 : Int) ≥ (v.length : Int)) := by have := hl.len; have := hl.lt; omega
  have hlen' : (0 : Int) < (v.length : Int) := by omega
  have hidx : idx v 0 = .ok 35 := by rw [hv0]; rfl
  have h10 : ((35 : UInt8) == 10) = false := by decide
  have htr : triggered 35 = some [.atx, .code, .paragraph] := by decide
  simp only [modPc_run, hlen, if_false, Option.isNone_some, Bool.false_eq_true, bind_apply, hidx, liftE_ok, h10, hlen',
    if_true, pure_apply, htr, Option.getD_some]
  unfold retryStepT
  simp only [bind_apply, get_run,
    tryParsers_atx hl level l hv h1 h6 hb hlast pts k d rest { pc with blockOffset := 0, blockIndent := 0 } hop rfl blank]
  simp [toContinuable, pure_apply]
end atx
end GM.Proof.CMFrag
