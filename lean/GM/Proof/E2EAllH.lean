/-
  GM.Proof.E2EAllH — everything BEHIND the block phase of `GM.ConvertH.convertH true` (goldmark with `WithAutoHeadingID()`) is total:
  when the block phase with the option returns a state, the tree phases answer a tree (`docTreeH_total`), that tree satisfies
  `Spec.Inv` (`docTreeH_inv`: the only attributes are `id = v` on nodes whose Close generated one — a legal, clash-free attribute
  list), so no node renderer panics and `convertH true` answers HTML (`convertH_total_of_blockPhaseH`). The block-phase facts come
  from `convertCore`'s block phase, whose final `St` the option does not change (`converth_block_phase_projects`).
-/
import GM.Props.C15E2E
import GM.Props.ConvertE2ENP

namespace GM.E2E.H
open GM GM.Text GM.Convert GM.Spec GM.ConvertH GM.E2E

mutual
def treeAllH (P : GM.Blocks.Node → Prop) : TreeH → Prop
  | .node _ n cs => P n ∧ treesAllH P cs
def treesAllH (P : GM.Blocks.Node → Prop) : List TreeH → Prop
  | [] => True
  | t :: rest => treeAllH P t ∧ treesAllH P rest
end

theorem treesAllH_map_mem {P : GM.Blocks.Node → Prop} (f : Nat → TreeH) :
    ∀ (l : List Nat), (∀ i ∈ l, treeAllH P (f i)) → treesAllH P (l.map f)
  | [], _ => by simp [treesAllH]
  | i :: rest, h => by
    simp only [List.map, treesAllH]
    exact ⟨h i (List.mem_cons_self ..), treesAllH_map_mem f rest (fun j hj => h j (List.mem_cons_of_mem _ hj))⟩

/-- the tree with identities read out of a store: the root satisfies `P`, and so does every node that is somebody's child -/
theorem treeOfH_all_reach {P : GM.Blocks.Node → Prop} (nodes : List GM.Blocks.Node)
    (hk : ∀ p c, c ∈ (nodes.getD p default).children → P (nodes.getD c default)) :
    ∀ fuel id, P (nodes.getD id default) → treeAllH P (treeOfH nodes fuel id)
  | 0, id, h => by simp only [treeOfH, treeAllH, treesAllH]; exact ⟨h, trivial⟩
  | fuel + 1, id, h => by
    simp only [treeOfH, treeAllH]
    exact ⟨h, treesAllH_map_mem _ _ (fun c hc => treeOfH_all_reach nodes hk fuel c (hk id c hc))⟩

theorem treeOfH_all {P : GM.Blocks.Node → Prop} (nodes : List GM.Blocks.Node) (h : ∀ i, P (nodes.getD i default)) :
    ∀ fuel id, treeAllH P (treeOfH nodes fuel id) :=
  fun fuel id => treeOfH_all_reach nodes (fun _ c _ => h c) fuel id (h id)

/-! ### the tree phases are total -/

mutual
theorem docTreeH_total (hs : HS) (env : GM.Inl.Env) (src : Bytes) : ∀ (t : TreeH), treeAllH (NodeTot src) t →
    ∃ x, docTreeH hs true env src t = .ok x
  | .node id n cs, ha => by
    simp only [treeAllH] at ha
    obtain ⟨bs, hbs⟩ := docTreesH_total hs env src cs ha.2
    obtain ⟨kids, hk⟩ := inlinePhase_total (env := env) ha.1
    obtain ⟨is, his⟩ := inlinePhase_values_total hk
    obtain ⟨k, hkk⟩ := blockKind_total ha.1.raw
    refine ⟨.mk k (treeAttrs hs id) (bs ++ is), ?_⟩
    unfold docTreeH
    simp only [bind, Except.bind, hbs, hk, his, hkk, liftErr, pure, Except.pure]
theorem docTreesH_total (hs : HS) (env : GM.Inl.Env) (src : Bytes) : ∀ (ts : List TreeH), treesAllH (NodeTot src) ts →
    ∃ xs, docTreesH hs true env src ts = .ok xs
  | [], _ => ⟨[], by unfold docTreesH; rfl⟩
  | t :: rest, ha => by
    simp only [treesAllH] at ha
    obtain ⟨x, hx⟩ := docTreeH_total hs env src t ha.1
    obtain ⟨xs, hxs⟩ := docTreesH_total hs env src rest ha.2
    refine ⟨x :: xs, ?_⟩
    unfold docTreesH
    simp only [bind, Except.bind, hx, hxs, pure, Except.pure]
end

/-! ### `Spec.Inv` of the tree with the generated ids -/

/-- the attribute lists the option attaches: none, or exactly `id = v` -/
def AttrOK (a : Option (List GM.Attr)) : Prop := a = none ∨ ∃ v, a = idAttr v

theorem attrOK_inv {a : Option (List GM.Attr)} (h : AttrOK a) : attrsInv a = true := by
  rcases h with rfl | ⟨v, rfl⟩
  · rfl
  · have : attrNameOK Attr.nameId = true := by decide
    have h2 : (List.eraseDups [Attr.nameId]).length = 1 := by decide +kernel
    simp only [attrsInv, idAttr, List.all_cons, List.all_nil, this, List.map, h2]
    rfl

theorem attrOK_noClash {a : Option (List GM.Attr)} (h : AttrOK a) (k : GM.Kind) (hk : blockKindOK k = true) :
    noClash k a = true := by
  rcases h with rfl | ⟨v, rfl⟩
  · rfl
  · have hne : ¬ ([105, 100] : Bytes) = strBytes "start" := by decide +kernel
    cases k <;> simp [blockKindOK] at hk <;> simp [noClash, idAttr, fixedAttrNames, Attr.nameId]
    exact .inr hne

theorem nodeInv_blockA (rc : RCfg) (k : GM.Kind) (a : Option (List GM.Attr)) (cs : List GM.Node) (hk : blockKindOK k = true)
    (ha : AttrOK a) (hc : nodesInv rc .any cs = true) : nodeInv rc .any (.mk k a cs) = true := by
  rw [GM.Proof.RenderWF.nodeInv_mk, attrOK_inv ha, attrOK_noClash ha k hk]
  cases k <;> simp [blockKindOK] at hk <;> simp [GM.Proof.RenderWF.kindInv, GM.Proof.RenderWF.childCtx, hc]
  exact hk

mutual
theorem docTreeH_inv (rc : RCfg) (hs : HS) (hA : ∀ id, AttrOK (treeAttrs hs id)) (guard : Bool) (env : GM.Inl.Env) (src : Bytes) :
    ∀ (t : TreeH), treeAllH HeadP t → ∀ x, docTreeH hs guard env src t = .ok x → nodeInv rc .any x = true
  | .node id n cs, ha, x, h => by
    simp only [treeAllH] at ha
    unfold docTreeH at h
    obtain ⟨bs, hbs, h⟩ := exc_bind_ok h
    obtain ⟨kids, hkids, h⟩ := exc_bind_ok h
    obtain ⟨is, his, h⟩ := exc_bind_ok h
    obtain ⟨k, hk, h⟩ := exc_bind_ok h
    cases h
    have h1 := docTreesH_inv rc hs hA guard env src cs ha.2 bs hbs
    have h2 := inlineTrees_inv rc src kids (inlinePhase_wf hkids) is (liftErr_ok his)
    exact nodeInv_blockA rc k _ _ (blockKind_ok ha.1 (liftErr_ok hk)) (hA id) (by rw [nodesInv_append, h1, h2]; rfl)
theorem docTreesH_inv (rc : RCfg) (hs : HS) (hA : ∀ id, AttrOK (treeAttrs hs id)) (guard : Bool) (env : GM.Inl.Env) (src : Bytes) :
    ∀ (ts : List TreeH), treesAllH HeadP ts → ∀ xs, docTreesH hs guard env src ts = .ok xs → nodesInv rc .any xs = true
  | [], _, xs, h => by unfold docTreesH at h; cases h; rfl
  | t :: rest, ha, xs, h => by
    simp only [treesAllH] at ha
    unfold docTreesH at h
    obtain ⟨x, hx, h⟩ := exc_bind_ok h
    obtain ⟨ys, hys, h⟩ := exc_bind_ok h
    cases h
    rw [GM.Proof.RenderWF.nodesInv_cons, docTreeH_inv rc hs hA guard env src t ha.1 x hx,
      docTreesH_inv rc hs hA guard env src rest ha.2 ys hys]
    rfl
end

/-! ### from the block phase with the option to HTML -/

/-- the tree nodes of the store `convertCore`'s block phase returns are good for the tree phases (tnopanic round 3: lines in range,
    non-raw lines `WFSegs`, child nodes' non-raw lines of padding 0, the Document without lines; e2e: info / closure segments) -/
theorem blockPhase_nodeTot (src : Bytes) (st : GM.Blocks.St) (hst : blockPhase true src = .ok st) :
    NodeTot src (st.nodes.getD 0 default) ∧
      ∀ p c, c ∈ (st.nodes.getD p default).children → NodeTot src (st.nodes.getD c default) := by
  obtain ⟨s', hs', hN, _⟩ := GM.Props.ConvertNP.block_phase_total src
  rw [hst] at hs'; cases hs'
  have hW := (GM.Props.ConvertNP.block_phase_lines_wellformed src st hst).1
  obtain ⟨hP, h0⟩ := GM.Props.ConvertNP.block_phase_lines_padding_zero src st hst
  have hx := runT_xsegs src (paragraphTransformers_keep true) st hst
  have raw : ∀ i, RawSegsP src (st.nodes.getD i default) := by
    intro i
    by_cases hlt : i < st.nodes.length
    · have e : st.nodes.getD i default = st.nodes[i] := by simp [List.getD, hlt]
      have hm : st.nodes[i] ∈ st.nodes := List.getElem_mem hlt
      rw [e]
      exact ⟨fun _ t ht => (hN _ hm).lines t ht, (hx _ hm).info, (hx _ hm).closure⟩
    · have e : st.nodes.getD i default = default := by
        simp [List.getD, List.getElem?_eq_none (Nat.le_of_not_lt hlt)]
      rw [e]; exact rawSegsP_default src
  have wfs : ∀ i, isRawKind (st.nodes.getD i default).kind = false → (st.nodes.getD i default).lines ≠ [] →
      WFSegs src (st.nodes.getD i default).lines := by
    intro i hr hne
    by_cases hlt : i < st.nodes.length
    · have e : st.nodes.getD i default = st.nodes[i] := by simp [List.getD, hlt]
      have hm : st.nodes[i] ∈ st.nodes := List.getElem_mem hlt
      rw [e] at hr hne ⊢
      exact (hW _ hm (by rw [isRaw_eq_isRawKind]; exact hr)).2.2 hne
    · have e : st.nodes.getD i default = default := by
        simp [List.getD, List.getElem?_eq_none (Nat.le_of_not_lt hlt)]
      rw [e] at hne; exact absurd rfl hne
  exact ⟨⟨raw 0, fun _ hne => absurd h0 hne⟩,
    fun p c hc => ⟨raw c, fun hr hne => ⟨wfs c hr hne, hP p c hc (by rw [isRaw_eq_isRawKind]; exact hr)⟩⟩⟩

/-- the attribute lists of the second state layer are `id = v` -/
theorem treeAttrs_ok (src : Bytes) (hs : HS) (st : GM.Blocks.St) (h : blockPhaseH true true src = .ok (hs, st)) (id : Nat) :
    AttrOK (treeAttrs hs id) := by
  unfold treeAttrs
  cases ha : nodeAttrs hs id with
  | none => exact .inl rfl
  | some as =>
    obtain ⟨g, _, _, he⟩ := GM.Props.C15E2E.attributes_are_generated_ids true src hs st h id as ha
    subst he
    exact .inr ⟨g.id, rfl⟩

/-- **behind the block phase `convertH true` is total**: when the block phase with AutoHeadingID returns, `convertH true` answers
    HTML — for every Unicode-class assignment and option set -/
theorem convertH_total_of_blockPhaseH (uc : List (Nat × (Bool × Bool))) (o : ROpts) (src : Bytes) (hs : HS) (st : GM.Blocks.St)
    (h : blockPhaseH true true src = .ok (hs, st)) : ∃ html, convertH true uc o src = .ok html := by
  have hproj := GM.Props.C15E2E.converth_block_phase_projects true src
  rw [h] at hproj
  have hst : blockPhase true src = .ok st := hproj
  obtain ⟨h0, hk⟩ := blockPhase_nodeTot src st hst
  obtain ⟨t, ht⟩ := docTreeH_total hs { refs := st.pc.refs, uc := uc } src (finalTree st)
    (treeOfH_all_reach st.nodes hk st.nodes.length 0 h0)
  have hpd : parseDocH true true uc src = .ok t := by
    unfold parseDocH
    simp only [bind, Except.bind, h, liftErr]
    exact ht
  have hhead := blockPhase_headOK true src st hst
  have hinv : Spec.Inv (mkRCfg (ROpts.opts o) {}) t = true := by
    simp only [Spec.Inv, Bool.and_eq_true]
    exact ⟨docTreeH_inv _ hs (treeAttrs_ok src hs st h) true _ src (finalTree st)
      (treeOfH_all st.nodes (headOK_getD hhead) _ _) t ht, footCfgInv_mkRCfg _ _⟩
  have hr : renderPanics o.rcfg t = none := GM.Proof.RenderWF.inv_noPanic o.rcfg t hinv
  refine ⟨render o.rcfg t, ?_⟩
  unfold convertH convertHWith
  simp only [bind, Except.bind, hpd, renderDoc, hr]

/-- **`convertH true` answers HTML, or the block phase with the option ended in the one panic that is not excluded yet** — a
    `Segment.Value` panic inside `generateAutoHeadingID` (atx_heading.go:203): never fuel exhaustion, never a panic of
    `convertCore`'s block phase (which is total), never an error of a later phase -/
theorem convertH_total_or_value_panic (uc : List (Nat × (Bool × Bool))) (o : ROpts) (src : Bytes) :
    (∃ html, convertH true uc o src = .ok html) ∨
      ∃ p, p ≠ Panic.loop ∧ blockPhaseH true true src = .error p ∧ convertH true uc o src = .error (.blocks p) := by
  cases h : blockPhaseH true true src with
  | ok x =>
    obtain ⟨hs, st⟩ := x
    exact .inl (convertH_total_of_blockPhaseH uc o src hs st h)
  | error p =>
    right
    have hproj := GM.Props.C15E2E.converth_block_phase_projects true src
    rw [h] at hproj
    refine ⟨p, ?_, rfl, ?_⟩
    · rcases hproj with h1 | h1
      · obtain ⟨s, hs, _⟩ := GM.Props.ConvertNP.block_phase_total src
        rw [hs] at h1; cases h1
      · exact h1
    · unfold convertH convertHWith parseDocH
      simp only [bind, Except.bind, h, liftErr]

end GM.E2E.H
