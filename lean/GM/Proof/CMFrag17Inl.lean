/-
  GM.Proof.CMFrag17Inl — stage 17: the inline phase on a paragraph of rich lines with images `![t](d)`.
  The link parser at `![` (label opener of an image) and at `](d)` (the Image around the text behind the opener);
  text + image = two passes through `retry:`; lines, paragraphs, `parseBlock_rich17`, `inlineTrees_rich17`.
-/
import GM.Proof.CMFrag17Defs
import GM.Proof.CMFrag16Inl

namespace GM.Proof.CMFrag
open GM GM.Text GM.Inl

theorem processLinkLabel17 (rd : BlockReader) (pre : List Inl.Node) (lid : Nat) (lseg tseg : Segment) (nid : Nat)
    (im : Bool)
    (b : Bottom) (bts : List Bottom) (h : NoDL16 pre) :
    processLinkLabel { rd := rd, kids := pre ++ [.label lid lseg im, .text tseg false false false], nextId := nid,
                       bottoms := b :: bts } =
      .ok ([.text tseg false false false],
        { rd := rd, kids := pre ++ [.label lid lseg im], nextId := nid, bottoms := bts }) := by
  have hnd : ∀ n ∈ pre ++ [Inl.Node.label lid lseg im, .text tseg false false false], n.isDelim = false := by
    intro n hn
    simp only [List.mem_append, List.mem_cons, List.not_mem_nil, or_false] at hn
    rcases hn with hn | rfl | rfl
    · exact (h n hn).1
    · rfl
    · rfl
  unfold processLinkLabel
  simp only [popBottom, splitLastLabel_tail16 pre lid lseg im (.text tseg false false false) rfl]
  have hpd : processDelimiters b (pre ++ [Inl.Node.label lid lseg im, .text tseg false false false]) =
      .ok (pre ++ [Inl.Node.label lid lseg im, .text tseg false false false]) := by
    unfold processDelimiters
    rw [splitLastDelim_noDelim11 _ hnd]
  simp [hasLabelL, hasLabel, hpd, splitLastLabel_tail16 pre lid lseg im (.text tseg false false false) rfl,
    Node.isDelim]



/-- the inline part `(d)` of a link, the opener and the link text being the last two children -/
theorem parseLinkInline17 (src : Bytes) (segs : List Segment) (L j hd : Int) (a : Nat) (d rest : Bytes) (e : Int)
    (pre : List Inl.Node) (lid : Nat) (lseg tseg : Segment) (nid : Nat) (im : Bool) (b : Bottom) (bts : List Bottom)
    (h : At16 src L a e (40 :: (d ++ 41 :: rest))) (hj : j < segs.length)
    (hd0 : d ≠ []) (hdc : ∀ c ∈ d, isDestC16 c = true) (hrest : rest ≠ []) (hpre : NoDL16 pre) :
    parseLinkInline { rd := rdAt src segs L j { start := a, stop := e } hd,
                      kids := pre ++ [.label lid lseg im, .text tseg false false false], nextId := nid,
                      bottoms := b :: bts } =
      .ok (some { dest := d, title := none, kids := [.text tseg false false false] },
        { rd := rdAt src segs L j { start := ((a + 1 + d.length + 1 : Nat) : Int), stop := e } hd,
          kids := pre ++ [.label lid lseg im], nextId := nid, bottoms := bts }) := by
  have hrl : 0 < rest.length := List.length_pos_iff.mpr hrest
  obtain ⟨c0, d', hdd⟩ : ∃ c0 d', d = c0 :: d' := by
    cases d with
    | nil => exact absurd rfl hd0
    | cons x xs => exact ⟨x, xs, rfl⟩
  have h1 : At16 src L (a + 1) e (d ++ 41 :: rest) := h.drop [40] _
  have h2 : At16 src L (a + 1 + d.length) e (41 :: rest) := h1.drop d _
  have h1' : At16 src L (a + 1) e (c0 :: (d' ++ 41 :: rest)) := by rw [hdd] at h1; exact h1
  obtain ⟨_, _, h41, _, hs0⟩ := dest_facts16 c0 (hdc c0 (by simp [hdd]))
  obtain ⟨r1, hsk1⟩ := skipSpaces_at16 src segs L j hd (a + 1) e c0 _ h1' hj hs0 0
  obtain ⟨r2, hsk2⟩ := skipSpaces_at16 src segs L j hd (a + 1 + d.length) e 41 _ h2 hj (by decide) 0
  unfold parseLinkInline
  simp only [bind, Except.bind, advance1_at16 src segs L j hd a e _ h (by simp; omega), hsk1,
    peekByte_at16 src segs L j hd (a + 1) e c0 _ h1' hj, h41, Bool.false_eq_true, if_false,
    parseLinkDestination_at16 src segs L j hd (a + 1) d rest e h1 hj hd0 hdc, hsk2,
    peekByte_at16 src segs L j hd (a + 1 + d.length) e 41 _ h2 hj, beq_self_eq_true, if_true,
    advance1_at16 src segs L j hd (a + 1 + d.length) e _ h2 (by simp; omega),
    processLinkLabel17 _ pre lid lseg tseg nid im b bts hpre, pure, Except.pure]



/-- the link parser at `]` in front of `(d)`, the opener being `![`: the image around the text behind the opener -/
theorem parseLink_close17 (env : Env) (src : Bytes) (segs : List Segment) (L j hd : Int) (a : Nat) (d rest : Bytes)
    (e : Int) (pre : List Inl.Node) (lid : Nat) (lseg tseg : Segment) (nid : Nat) (b : Bottom) (bts : List Bottom)
    (h : At16 src L a e (93 :: 40 :: (d ++ 41 :: rest))) (hj : j < segs.length)
    (hd0 : d ≠ []) (hdc : ∀ c ∈ d, isDestC16 c = true) (hrest : rest ≠ []) (hpre : NoDL16 pre) :
    parseLink env { rd := rdAt src segs L j { start := a, stop := e } hd,
                    kids := pre ++ [.label lid lseg true, .text tseg false false false], nextId := nid,
                    bottoms := b :: bts } =
      .ok (some (.link true d none [.text tseg false false false]),
        { rd := rdAt src segs L j { start := ((a + 1 + 1 + d.length + 1 : Nat) : Int), stop := e } hd,
          kids := pre, nextId := nid, bottoms := bts }) := by
  have h1 : At16 src L (a + 1) e (40 :: (d ++ 41 :: rest)) := h.drop [93] _
  unfold parseLink
  simp only [bind, Except.bind, peekLine_at16 src segs L j hd a e 93 _ h hj, Option.getD_some,
    show ((93 : UInt8) == 33) = false by decide, show ((93 : UInt8) == 91) = false by decide, Bool.false_eq_true,
    if_false]
  unfold parseLinkClose
  simp only [splitLastLabel_tail16 pre lid lseg true (.text tseg false false false) rfl, bind, Except.bind,
    advance1_at16 src segs L j hd a e _ h (by simp), labelLen_none16 pre hpre,
    peekByte_at16 src segs L j hd (a + 1) e 40 _ h1 hj, linkTry, beq_self_eq_true, if_true,
    parseLinkInline17 src segs L j hd (a + 1) d rest e pre lid lseg tseg nid true b bts h1 hj hd0 hdc hrest hpre, linkDone]
  simp [containsLinkL, containsLink]



theorem scan_bang17 (env : Env) (henv : env.escapedSpace = false) (src : Bytes) (segs : List Segment) (L j hd : Int)
    (q : Nat) (bs : Bytes) (c : UInt8) (tail : Bytes) (e : Int) (ks : List Inl.Node) (nid : Nat) (bts : List Bottom)
    (h : At16 src L q e (bs ++ c :: tail)) (_hj : j < segs.length)
    (hbs : bs ≠ []) (hq : quiet bs 0 false = true) (hesc : escAfter bs false = false)
    (hc : c = 33) (hnm : NoMerge8 ks) (nd : Inl.Node) (st' : St)
    (hparse : parseLink env
      { rd := rdAt src segs L j { start := ((q + bs.length : Nat) : Int), stop := e } hd,
        kids := ks ++ [.text { start := q, stop := ((q + bs.length : Nat) : Int) } false false false], nextId := nid,
        bottoms := bts } = .ok (some nd, st')) :
    scan env (bs ++ c :: tail) 0
      { st := { rd := rdAt src segs L j { start := q, stop := e } hd, kids := ks, nextId := nid, bottoms := bts },
        n := 0, sp := { start := q, stop := e }, escaped := false } =
    .ok (.hit { st' with kids := st'.kids ++ [nd] } false) := by
  have hbl : 0 < bs.length := List.length_pos_iff.mpr hbs
  rw [scan_pre8 env henv bs _ 0 _ hq]
  simp only [hesc, Nat.zero_add, Int.zero_add]
  subst hc
  have hT : isTrigger env 33 bs.length false = true := by
    simp [isTrigger]; left; left; decide
  have hP : parserChar 33 bs.length = 33 := by
    have h1 : isSpace 33 = false := by decide
    have h2 : isPunct 33 = true := by decide
    simp [parserChar, h1, h2]
  have hF : parsersFor 33 = [.link] := by decide
  have h10 : ((33 : UInt8) == 10) = false := by decide
  rw [scan]
  simp only [h10, Bool.false_eq_true, if_false, hT, hP, hF]
  simp only [List.isEmpty_cons, Bool.not_false, Bool.and_self, if_true]
  unfold trigger
  simp only [bind, Except.bind]
  rw [advance_at16 src segs L j hd q e _ h bs.length (by simp)]
  have hne0 : (bs.length != 0) = true := by simp; omega
  simp only [hne0, if_true, BlockReader.position, Segment.between,
    Except.map, mergeOrAppend_nomerge8 ks _ hnm, tryParsers, Ip.parse, bind, Except.bind]
  simp only [show (rdAt src segs L j { start := ((q + bs.length : Nat) : Int), stop := e } hd).pos =
    { start := ((q + bs.length : Nat) : Int), stop := e } from rfl, bne_self_eq_false, Bool.false_eq_true, if_false]
  simp only [textOf, Int.sub_self] at hparse ⊢
  simp only [hparse, pure, Except.pure]

theorem pass17 (env : Env) (henv : env.escapedSpace = false) (src : Bytes) (segs : List Segment) (L j hd : Int)
    (q : Nat) (bs : Bytes) (c : UInt8) (tail : Bytes) (e : Int) (ks : List Inl.Node) (nid : Nat) (bts : List Bottom)
    (fuel : Nat)
    (h : At16 src L q e (bs ++ c :: tail)) (hj : j < segs.length) (hend : EndOK11 tail)
    (hbs : bs ≠ []) (hq : quiet bs 0 false = true) (hesc : escAfter bs false = false)
    (hc : c = 33) (hnm : NoMerge8 ks) (nd : Inl.Node) (st' : St)
    (hparse : parseLink env
      { rd := rdAt src segs L j { start := ((q + bs.length : Nat) : Int), stop := e } hd,
        kids := ks ++ [.text { start := q, stop := ((q + bs.length : Nat) : Int) } false false false], nextId := nid,
        bottoms := bts } = .ok (some nd, st')) :
    lineLoop env (fuel + 1) false
      { rd := rdAt src segs L j { start := q, stop := e } hd, kids := ks, nextId := nid, bottoms := bts } =
    lineLoop env fuel false { st' with kids := st'.kids ++ [nd] } := by
  obtain ⟨b0, bs', hbb⟩ : ∃ b0 bs', bs = b0 :: bs' := by
    cases bs with
    | nil => exact absurd rfl hbs
    | cons x xs => exact ⟨x, xs, rfl⟩
  have hp := peekLine_at16 src segs L j hd q e b0 (bs' ++ c :: tail) (by rw [← List.cons_append, ← hbb]; exact h) hj
  rw [← List.cons_append, ← hbb] at hp
  refine lineLoop_hit8 env fuel false false _ _ _ _ hp ?_ ?_
  · rw [hbb]; rfl
  · have hcl := hend (bs ++ [c])
    rw [List.append_assoc, List.singleton_append] at hcl
    rw [hcl, List.take_length]
    exact scan_bang17 env henv src segs L j hd q bs c tail e ks nid bts h hj hbs hq hesc hc hnm nd st' hparse



/-- the link parser at `![`: a label opener for an image -/
theorem parseLink_openImg17 (env : Env) (src : Bytes) (segs : List Segment) (L j hd : Int) (a : Nat) (tail : Bytes)
    (e : Int) (ks : List Inl.Node) (nid : Nat) (bts : List Bottom)
    (h : At16 src L a e (33 :: 91 :: tail)) (hj : j < segs.length) (htail : tail ≠ [])
    (hks : ∀ n ∈ ks, n.isDelim = false) :
    ∃ lseg, parseLink env
        { rd := rdAt src segs L j { start := a, stop := e } hd, kids := ks, nextId := nid, bottoms := bts } =
      .ok (some (.label nid lseg true),
        { rd := rdAt src segs L j { start := ((a + 1 + 1 : Nat) : Int), stop := e } hd, kids := ks, nextId := nid + 1,
          bottoms := .tnil :: bts }) := by
  have htl : 0 < tail.length := List.length_pos_iff.mpr htail
  have h1 : At16 src L (a + 1) e (91 :: tail) := h.drop [33] _
  refine ⟨{ start := (a : Int) + 1 - 1, stop := (a : Int) + 1 + 1 }, ?_⟩
  unfold parseLink
  simp only [bind, Except.bind, peekLine_at16 src segs L j hd a e 33 _ h hj, Option.getD_some,
    show ((33 : UInt8) == 33) = true by decide, if_true,
    advance1_at16 src segs L j hd a e _ h (by simp), pushBottom, splitLastDelim_noDelim11 ks hks, labelOpen,
    advance1_at16 src segs L j hd (a + 1) e _ h1 (by simp; omega), pure, Except.pure]

/-! ### one text atom and the image behind it: two passes -/

theorem img_step17 (env : Env) (henv : env.escapedSpace = false) (src : Bytes) (segs : List Segment) (L j hd : Int)
    (q : Nat) (bs t d rest : Bytes) (e : Int) (ks : List Inl.Node) (nid : Nat) (bts : List Bottom) (fuel : Nat)
    (h : At16 src L q e (bs ++ 33 :: 91 :: (t ++ 93 :: 40 :: (d ++ 41 :: rest)))) (hj : j < segs.length)
    (hend : EndOK11 rest)
    (hbs : bs ≠ []) (hq : quiet bs 0 false = true) (hesc : escAfter bs false = false)
    (ht0 : t ≠ []) (htc : ∀ c ∈ t, GM.Spec.CM.isAlnumC c = true)
    (hd0 : d ≠ []) (hdc : ∀ c ∈ d, isDestC16 c = true) (hrest : rest ≠ [])
    (hnm : NoMerge8 ks) (hks : NoDL16 ks) :
    lineLoop env (fuel + 1 + 1) false
      { rd := rdAt src segs L j { start := q, stop := e } hd, kids := ks, nextId := nid, bottoms := bts } =
    lineLoop env fuel false
      { rd := rdAt src segs L j { start := ((q + bs.length + 1 + 1 + t.length + 1 + 1 + d.length + 1 : Nat) : Int), stop := e } hd,
        kids := ks ++ [.text { start := q, stop := ((q + bs.length : Nat) : Int) } false false false,
          .link true d none [.text { start := ((q + bs.length + 1 + 1 : Nat) : Int),
                                     stop := ((q + bs.length + 1 + 1 + t.length : Nat) : Int) } false false false]],
        nextId := nid + 1, bottoms := bts } := by
  have h1 : At16 src L (q + bs.length) e (33 :: 91 :: (t ++ 93 :: 40 :: (d ++ 41 :: rest))) := h.drop bs _
  have h2 : At16 src L (q + bs.length + 1 + 1) e (t ++ 93 :: 40 :: (d ++ 41 :: rest)) := (h1.drop [33] _).drop [91] _
  have h3 : At16 src L (q + bs.length + 1 + 1 + t.length) e (93 :: 40 :: (d ++ 41 :: rest)) := h2.drop t _
  have hks1 : NoDL16 (ks ++ [.text { start := q, stop := ((q + bs.length : Nat) : Int) } false false false]) := by
    intro n hn
    simp only [List.mem_append, List.mem_cons, List.not_mem_nil, or_false] at hn
    rcases hn with hn | rfl
    · exact hks n hn
    · exact ⟨rfl, rfl⟩
  have hend1 : EndOK11 (91 :: (t ++ 93 :: 40 :: (d ++ 41 :: rest))) := by
    have := endOK_app11 (91 :: (t ++ 93 :: 40 :: (d ++ [41]))) rest hend
    simpa using this
  have hend2 : EndOK11 (40 :: (d ++ 41 :: rest)) := by
    have := endOK_app11 (40 :: (d ++ [41])) rest hend
    simpa using this
  obtain ⟨hqt, hesct⟩ := alnum_quiet11 t 0 htc
  obtain ⟨lseg, hopen⟩ := parseLink_openImg17 env src segs L j hd (q + bs.length) _ e
    (ks ++ [.text { start := q, stop := ((q + bs.length : Nat) : Int) } false false false]) nid bts h1 hj (by simp)
    (fun n hn => (hks1 n hn).1)
  have p1 := pass17 env henv src segs L j hd q bs 33 _ e ks nid bts (fuel + 1) h hj hend1 hbs hq hesc rfl hnm _ _ hopen
  rw [p1]
  have p2 := pass16 env henv src segs L j hd (q + bs.length + 1 + 1) t 93 _ e
    (ks ++ [.text { start := q, stop := ((q + bs.length : Nat) : Int) } false false false] ++ [.label nid lseg true])
    (nid + 1) (.tnil :: bts) fuel h2 hj hend2 ht0 hqt hesct (Or.inr rfl) (noMerge_label16 _ _ _ _) _ _
    (by
      rw [List.append_assoc, List.singleton_append]
      exact parseLink_close17 env src segs L j hd (q + bs.length + 1 + 1 + t.length) d rest e _ nid _ _ (nid + 1) .tnil bts
        h3 hj hd0 hdc hrest hks1)
  rw [p2]
  simp

/-! ### the children of a paragraph of rich lines -/

/-- the children one line gives, the line's atoms from byte `q` on; `soft`: the line is not the last one -/
def atomKids17 (soft : Bool) : Nat → List ImAtom → List Inl.Node
  | _, [] => []
  | q, [.txt bs] => [.text { start := q, stop := ((q + bs.length : Nat) : Int) } soft false false]
  | q, .txt bs :: rest =>
    .text { start := q, stop := ((q + bs.length : Nat) : Int) } false false false :: atomKids17 soft (q + bs.length) rest
  | q, .img t d :: rest =>
    .link true d none [.text { start := ((q + 1 + 1 : Nat) : Int), stop := ((q + 1 + 1 + t.length : Nat) : Int) } false false false] ::
      atomKids17 soft (q + 1 + 1 + t.length + 1 + 1 + d.length + 1) rest

/-- the inline children `parseBlock` gives a paragraph of rich lines that starts at byte `p` -/
def richKids17 : Nat → List (List ImAtom) → List Inl.Node
  | _, [] => []
  | p, [l] => atomKids17 false p l
  | p, l :: l' :: rest => atomKids17 true p l ++ richKids17 (p + (imlineSrc l).length + 1) (l' :: rest)

/-- label openers a line pushes: one per link -/
def links17 : List ImAtom → Nat
  | [] => 0
  | .txt _ :: rest => links17 rest
  | .img _ _ :: rest => links17 rest + 1

/-- the shape of (the rest of) a rich line as the byte loop sees it -/
inductive IT17 : List ImAtom → Prop
  | last (bs l0 : Bytes) (c : UInt8) : bs = l0 ++ [c] → isSpace c = false → c ≠ 92 → quiet bs 0 false = true →
      IT17 [.txt bs]
  | cons (bs t d : Bytes) (rest : List ImAtom) : bs ≠ [] → quiet bs 0 false = true → escAfter bs false = false →
      t ≠ [] → (∀ c ∈ t, GM.Spec.CM.isAlnumC c = true) → d ≠ [] → (∀ c ∈ d, isDestC16 c = true) → IT17 rest →
      IT17 (.txt bs :: .img t d :: rest)

theorem imlineSrc_single17 (bs : Bytes) : imlineSrc [.txt bs] = bs := by simp [imlineSrc, imatomSrc]

theorem imlineSrc_cons17 (bs t d : Bytes) (rest : List ImAtom) :
    imlineSrc (.txt bs :: .img t d :: rest) = bs ++ 33 :: 91 :: (t ++ 93 :: 40 :: (d ++ 41 :: imlineSrc rest)) := by
  simp [imlineSrc, imatomSrc]

theorem lt_ne17 {as : List ImAtom} (h : IT17 as) : imlineSrc as ≠ [] := by
  cases h with
  | last bs l0 c hl _ _ _ => rw [imlineSrc_single17, hl]; simp
  | cons bs t d rest hbs _ _ _ _ _ _ _ =>
    rw [imlineSrc_cons17]
    cases bs with
    | nil => exact absurd rfl hbs
    | cons x xs => simp

theorem lt_concat17 {as : List ImAtom} (h : IT17 as) :
    ∃ l0 c, imlineSrc as = l0 ++ [c] ∧ isSpace c = false ∧ c ≠ 92 := by
  induction h with
  | last bs l0 c hl hs hb hq => exact ⟨l0, c, by rw [imlineSrc_single17, hl], hs, hb⟩
  | cons bs t d rest _ _ _ _ _ _ _ _ ih =>
    obtain ⟨l0, c, hl, hs, hb⟩ := ih
    exact ⟨bs ++ 33 :: 91 :: (t ++ 93 :: 40 :: (d ++ 41 :: l0)), c, by rw [imlineSrc_cons17, hl]; simp, hs, hb⟩

theorem atomKids_cons17 (soft : Bool) (q : Nat) (bs t d : Bytes) (rest : List ImAtom) :
    atomKids17 soft q (.txt bs :: .img t d :: rest) =
      [.text { start := q, stop := ((q + bs.length : Nat) : Int) } false false false,
        .link true d none [.text { start := ((q + bs.length + 1 + 1 : Nat) : Int),
                                    stop := ((q + bs.length + 1 + 1 + t.length : Nat) : Int) } false false false]] ++
      atomKids17 soft (q + bs.length + 1 + 1 + t.length + 1 + 1 + d.length + 1) rest := by
  simp [atomKids17]

theorem noDL_atoms17 (soft : Bool) : ∀ (as : List ImAtom) (q : Nat), NoDL16 (atomKids17 soft q as)
  | [], _ => by intro n hn; simp [atomKids17] at hn
  | [.txt bs], q => by intro n hn; simp [atomKids17] at hn; subst hn; exact ⟨rfl, rfl⟩
  | .txt bs :: b :: rest, q => by
    intro n hn
    simp only [atomKids17, List.mem_cons] at hn
    rcases hn with rfl | hn
    · exact ⟨rfl, rfl⟩
    · exact noDL_atoms17 soft (b :: rest) _ n hn
  | .img t d :: rest, q => by
    intro n hn
    simp only [atomKids17, List.mem_cons] at hn
    rcases hn with rfl | hn
    · exact ⟨rfl, rfl⟩
    · exact noDL_atoms17 soft rest _ n hn

theorem noDL_append17 {a b : List Inl.Node} (ha : NoDL16 a) (hb : NoDL16 b) : NoDL16 (a ++ b) := by
  intro n hn
  rcases List.mem_append.mp hn with h | h
  · exact ha n h
  · exact hb n h

theorem noMerge_atoms17 {as : List ImAtom} (h : IT17 as) : ∀ (ks : List Inl.Node) (q : Nat),
    NoMerge8 (ks ++ atomKids17 true q as) := by
  induction h with
  | last bs l0 c hl hs hb hq => intro ks q; exact noMerge_soft8 ks _ _ _
  | cons bs t d rest _ _ _ _ _ _ _ _ ih =>
    intro ks q
    rw [atomKids_cons17, ← List.append_assoc]
    exact ih _ _

/-! ### one line -/

theorem at_tail17 {src : Bytes} {L : Int} {q : Nat} {e : Int} (bs t d tail : Bytes)
    (h : At16 src L q e (bs ++ 33 :: 91 :: (t ++ 93 :: 40 :: (d ++ 41 :: tail)))) :
    At16 src L (q + bs.length + 1 + 1 + t.length + 1 + 1 + d.length + 1) e tail :=
  (((((((h.drop bs _).drop [33] _).drop [91] _).drop t _).drop [93] _).drop [40] _).drop d _).drop [41] _

theorem atoms_mid17 (env : Env) (henv : env.escapedSpace = false) (src : Bytes) (segs : List Segment) (L hd : Int)
    (j : Nat) (seg' : Segment) (bts : List Bottom) (hnext : segs[j + 1]? = some seg') :
    ∀ (as : List ImAtom), IT17 as → ∀ (q : Nat) (e : Int) (ks : List Inl.Node) (fuel nid : Nat),
      At16 src L q e (imlineSrc as ++ [10]) → NoMerge8 ks → NoDL16 ks →
      lineLoop env (fuel + as.length) false
        { rd := rdAt src segs L j { start := q, stop := e } hd, kids := ks, nextId := nid, bottoms := bts } =
      lineLoop env fuel false
        { rd := rdAt src segs L (j + 1) seg' seg'.start, kids := ks ++ atomKids17 true q as,
          nextId := nid + links17 as, bottoms := bts } := by
  intro as h
  induction h with
  | last bs l0 c hl hs hb hq =>
    intro q e ks fuel nid hat hnm hks
    rw [imlineSrc_single17] at hat
    obtain ⟨h1, h2, h3, h4⟩ := hat
    simp only [List.length_append, List.length_cons, List.length_nil, Nat.zero_add] at h1 h2 h3
    have he : e = (q : Int) + bs.length + 1 := by omega
    subst he
    have := line_step8 env henv src segs L hd j q bs l0 c seg' ks nid bts fuel hl hs hb hq
      (by rw [← h1]; congr 1) (by omega) (by omega) hnext
    simp only [List.length_cons, List.length_nil, Nat.zero_add, links17, Nat.add_zero, atomKids17, Int.natCast_add]
    exact this
  | cons bs t d rest hbs hq hesc ht0 htc hd0 hdc hrt ih =>
    intro q e ks fuel nid hat hnm hks
    have hj : ((j : Nat) : Int) < segs.length := by
      have := (List.getElem?_eq_some_iff.mp hnext).1; omega
    obtain ⟨l0, c, hl0, hs, hb⟩ := lt_concat17 hrt
    have hat' : At16 src L q e (bs ++ 33 :: 91 :: (t ++ 93 :: 40 :: (d ++ 41 :: (imlineSrc rest ++ [10])))) := by
      rw [imlineSrc_cons17] at hat
      simpa using hat
    have hend : EndOK11 (imlineSrc rest ++ [10]) := by rw [hl0]; exact endOK_lf11 l0 c hs hb
    have hstep := img_step17 env henv src segs L j hd q bs t d (imlineSrc rest ++ [10]) e ks nid bts
      (fuel + rest.length) hat' hj hend hbs hq hesc ht0 htc hd0 hdc (by simp) hnm hks
    have hks2 : NoDL16 (ks ++ atomKids17 true q [.txt bs, .img t d]) := noDL_append17 hks (noDL_atoms17 _ _ _)
    rw [atomKids_cons17] at hks2
    simp only [atomKids17, List.append_nil] at hks2
    have hih := ih (q + bs.length + 1 + 1 + t.length + 1 + 1 + d.length + 1) e _ fuel (nid + 1) (at_tail17 bs t d _ hat')
      (by rw [show ∀ (a b : Inl.Node), ks ++ [a, b] = (ks ++ [a]) ++ [b] by simp]; exact noMerge_link16 _ _ _ _ _) hks2
    rw [show fuel + (ImAtom.txt bs :: .img t d :: rest).length = fuel + rest.length + 1 + 1 by
      simp only [List.length_cons]; omega, hstep, hih, atomKids_cons17]
    have hn : nid + 1 + links17 rest = nid + links17 (.txt bs :: .img t d :: rest) := by
      simp only [links17]; omega
    rw [hn]
    simp


theorem atoms_last17 (env : Env) (henv : env.escapedSpace = false) (src : Bytes) (segs : List Segment) (hd : Int)
    (j : Nat) (bts : List Bottom) (hjl : j + 1 = segs.length) :
    ∀ (as : List ImAtom), IT17 as → ∀ (q : Nat) (L : Int) (ks : List Inl.Node) (fuel nid : Nat),
      At16 src L q L (imlineSrc as) → NoMerge8 ks → NoDL16 ks →
      ∃ rd', lineLoop env (fuel + as.length + 1) false
        { rd := rdAt src segs L j { start := q, stop := L } hd, kids := ks, nextId := nid, bottoms := bts } =
      .ok { rd := rd', kids := ks ++ atomKids17 false q as, nextId := nid + links17 as, bottoms := bts } := by
  intro as h
  induction h with
  | last bs l0 c hl hs hb hq =>
    intro q L ks fuel nid hat hnm hks
    rw [imlineSrc_single17] at hat
    obtain ⟨h1, h2, h3, h4⟩ := hat
    have he : L = (q : Int) + bs.length := by omega
    subst he
    have := last_step8 env henv src segs hd j q bs l0 c ks nid bts fuel hl hs hb hq h1 h2 hjl
    simp only [List.length_cons, List.length_nil, Nat.zero_add, links17, Nat.add_zero, atomKids17, Int.natCast_add]
    exact ⟨_, this⟩
  | cons bs t d rest hbs hq hesc ht0 htc hd0 hdc hrt ih =>
    intro q L ks fuel nid hat hnm hks
    have hj : ((j : Nat) : Int) < segs.length := by omega
    obtain ⟨l0, c, hl0, hs, hb⟩ := lt_concat17 hrt
    have hat' : At16 src L q L (bs ++ 33 :: 91 :: (t ++ 93 :: 40 :: (d ++ 41 :: imlineSrc rest))) := by
      rw [imlineSrc_cons17] at hat
      exact hat
    have hend : EndOK11 (imlineSrc rest) := by rw [hl0]; exact endOK_nolf11 l0 c hs
    have hstep := img_step17 env henv src segs L j hd q bs t d (imlineSrc rest) L ks nid bts
      (fuel + rest.length + 1) hat' hj hend hbs hq hesc ht0 htc hd0 hdc (lt_ne17 hrt) hnm hks
    have hks2 : NoDL16 (ks ++ atomKids17 true q [.txt bs, .img t d]) := noDL_append17 hks (noDL_atoms17 _ _ _)
    rw [atomKids_cons17] at hks2
    simp only [atomKids17, List.append_nil] at hks2
    obtain ⟨rd', hih⟩ := ih (q + bs.length + 1 + 1 + t.length + 1 + 1 + d.length + 1) L _ fuel (nid + 1)
      (at_tail17 bs t d _ hat')
      (by rw [show ∀ (a b : Inl.Node), ks ++ [a, b] = (ks ++ [a]) ++ [b] by simp]; exact noMerge_link16 _ _ _ _ _) hks2
    refine ⟨rd', ?_⟩
    rw [show fuel + (ImAtom.txt bs :: .img t d :: rest).length + 1 = fuel + rest.length + 1 + 1 + 1 by
      simp only [List.length_cons]; omega, hstep, hih, atomKids_cons17]
    have hn : nid + 1 + links17 rest = nid + links17 (.txt bs :: .img t d :: rest) := by
      simp only [links17]; omega
    rw [hn]
    simp

/-! ### the whole paragraph -/

def need17 : List (List ImAtom) → Nat
  | [] => 1
  | l :: rest => l.length + need17 rest

theorem loop_rich17 (env : Env) (henv : env.escapedSpace = false) (src : Bytes) (segs : List Segment) (L : Int)
    (bts : List Bottom) :
    ∀ (ls : List (List ImAtom)) (p : Nat) (done : List Segment) (ks : List Inl.Node) (f nid : Nat), ls ≠ [] →
      (∀ l ∈ ls, IT17 l) → LinesAtE src p (ls.map imlineSrc) → segs = done ++ paraSegs p (ls.map imlineSrc) →
      L = (paraEnd p (ls.map imlineSrc) : Nat) → NoMerge8 ks → NoDL16 ks →
      ∃ rd' nid', lineLoop env (f + need17 ls) false
        { rd := rdAt src segs L done.length ((paraSegs p (ls.map imlineSrc)).headD default) p, kids := ks,
          nextId := nid, bottoms := bts } =
        .ok { rd := rd', kids := ks ++ richKids17 p ls, nextId := nid', bottoms := bts }
  | [], _, _, _, _, _, h, _, _, _, _, _, _ => absurd rfl h
  | [l], p, done, ks, f, nid, _, hg, hla, hsegs, hL, hnm, hks => by
    obtain ⟨hsub, hlen⟩ := hla
    have hL' : L = (p : Int) + (imlineSrc l).length := by simp [hL, paraEnd]
    have hat : At16 src L p L (imlineSrc l) := ⟨hsub, hlen, by rw [hL']; push_cast; rfl, Int.le_refl _⟩
    obtain ⟨rd', h⟩ := atoms_last17 env henv src segs p done.length bts (by simp [hsegs, paraSegs]) l (hg l (by simp))
      p L ks f nid hat hnm hks
    refine ⟨rd', nid + links17 l, ?_⟩
    have e1 : (paraSegs p ([l].map imlineSrc)).headD default = { start := (p : Int), stop := L } := by
      rw [hL']; rfl
    rw [e1]
    have e2 : f + need17 [l] = f + l.length + 1 := by simp [need17]; omega
    rw [e2, h]
    rfl
  | l :: l' :: rest, p, done, ks, f, nid, _, hg, hla, hsegs, hL, hnm, hks => by
    obtain ⟨hsub, hlen, hla'⟩ := hla
    have hrt := hg l (by simp)
    have hpL : (p : Int) + (imlineSrc l).length + 1 ≤ L := by
      have := paraEnd_ge ((l' :: rest).map imlineSrc) (p + (imlineSrc l).length + 1)
      simp only [List.map_cons, paraEnd] at hL this
      omega
    have hsegs' : segs = (done ++ [{ start := (p : Int), stop := (p : Int) + (imlineSrc l).length + 1 }]) ++
        paraSegs (p + (imlineSrc l).length + 1) ((l' :: rest).map imlineSrc) := by
      rw [hsegs]; simp [paraSegs]
    have hnext : segs[done.length + 1]? =
        some ((paraSegs (p + (imlineSrc l).length + 1) ((l' :: rest).map imlineSrc)).headD default) := by
      rw [hsegs']
      rw [List.getElem?_append_right (by simp)]
      simp only [List.length_append, List.length_cons, List.length_nil, Nat.zero_add, Nat.sub_self]
      cases rest <;> rfl
    have hat : At16 src L p ((p : Int) + (imlineSrc l).length + 1) (imlineSrc l ++ [10]) :=
      ⟨by simpa [Nat.add_assoc] using hsub, by simpa [Nat.add_assoc] using hlen, by simp; omega, hpL⟩
    have hstep := atoms_mid17 env henv src segs L p done.length _ bts hnext l hrt p
      ((p : Int) + (imlineSrc l).length + 1) ks (f + need17 (l' :: rest)) nid hat hnm hks
    obtain ⟨rd', nid', ih⟩ := loop_rich17 env henv src segs L bts (l' :: rest) (p + (imlineSrc l).length + 1)
      (done ++ [{ start := (p : Int), stop := (p : Int) + (imlineSrc l).length + 1 }])
      (ks ++ atomKids17 true p l) f (nid + links17 l) (by simp)
      (fun x hx => hg x (by simp at hx ⊢; right; exact hx)) hla' hsegs' (by rw [hL]; rfl) (noMerge_atoms17 hrt ks p)
      (noDL_append17 hks (noDL_atoms17 _ _ _))
    refine ⟨rd', nid', ?_⟩
    have e1 : (paraSegs p ((l :: l' :: rest).map imlineSrc)).headD default =
        { start := (p : Int), stop := (p : Int) + (imlineSrc l).length + 1 } := rfl
    have e0 : f + need17 (l :: l' :: rest) = f + need17 (l' :: rest) + l.length := by
      simp only [need17]; omega
    rw [e1, e0, hstep]
    have e2 : ((done ++ [({ start := (p : Int), stop := (p : Int) + (imlineSrc l).length + 1 } : Segment)]).length : Int) =
        (done.length : Int) + 1 := by
      simp
    rw [e2] at ih
    have e3 : ((paraSegs (p + (imlineSrc l).length + 1) ((l' :: rest).map imlineSrc)).headD default).start =
        ((p + (imlineSrc l).length + 1 : Nat) : Int) := by
      cases rest <;> rfl
    rw [e3]
    rw [ih]
    simp [richKids17]


/-! ### rich lines have the shape `IT17` -/

theorem lt_of_rich_aux17 : ∀ (as : List ImAtom), imalternating as = true → (∃ bs rest, as = .txt bs :: rest) →
    (∃ bs, as.getLast? = some (.txt bs) ∧ ∀ c, bs.getLast? = some c → isSpace c = false ∧ c ≠ 92) →
    (∀ a ∈ as, ImAtomOK a) → IT17 as
  | [], _, hf, _, _ => by obtain ⟨_, _, h⟩ := hf; simp at h
  | .img _ _ :: _, _, hf, _, _ => by obtain ⟨_, _, h⟩ := hf; simp at h
  | [.txt bs], _, _, hl, hok => by
    obtain ⟨bs', hb', hc⟩ := hl
    simp at hb'; subst hb'
    obtain ⟨hne, hq, _⟩ := hok (.txt bs) (by simp)
    rcases List.eq_nil_or_concat bs with h0 | ⟨l0, c, hl⟩
    · exact absurd h0 hne
    · have hl' : bs = l0 ++ [c] := by simpa using hl
      have := hc c (by simp [hl'])
      exact .last bs l0 c hl' this.1 this.2 (hq 0)
  | .txt _ :: .txt _ :: _, ha, _, _, _ => by simp [imalternating, ImAtom.isTxt] at ha
  | [.txt _, .img _ _], _, _, hl, _ => by obtain ⟨_, h, _⟩ := hl; simp at h
  | .txt _ :: .img _ _ :: .img _ _ :: _, ha, _, _, _ => by simp [imalternating, ImAtom.isTxt] at ha
  | .txt bs :: .img t d :: .txt b' :: rest, ha, _, hl, hok => by
    obtain ⟨hne, hq, he⟩ := hok (.txt bs) (by simp)
    obtain ⟨⟨htne, hta⟩, hdne, hda⟩ := hok (.img t d) (by simp)
    refine .cons bs t d _ hne (hq 0) he htne hta hdne hda
      (lt_of_rich_aux17 (.txt b' :: rest) ?_ ⟨b', rest, rfl⟩ ?_ (fun a h => hok a (by simp at h ⊢; right; right; exact h)))
    · simp [imalternating, ImAtom.isTxt] at ha ⊢; exact ha
    · obtain ⟨x, hx, hc⟩ := hl
      exact ⟨x, by simpa [List.getLast?_cons_cons] using hx, hc⟩

theorem lt_of_rich17 {as : List ImAtom} (h : ImRichLine as) : IT17 as := by
  refine lt_of_rich_aux17 as h.alt (by obtain ⟨bs, rest, he, _⟩ := h.first; exact ⟨bs, rest, he⟩) ?_ h.ok
  obtain ⟨init, bs, he, hc⟩ := h.last
  exact ⟨bs, by rw [he]; simp, hc⟩

/-! ### after the loop -/

def plain17 : Inl.Node → Bool
  | .text .. => true
  | .link true _ _ [.text ..] => true
  | _ => false

theorem noDL_plain17 (ks : List Inl.Node) (h : ∀ n ∈ ks, plain17 n = true) : NoDL16 ks := by
  intro n hn
  have := h n hn
  cases n <;> simp [plain17] at this <;> exact ⟨rfl, rfl⟩

theorem processDelimiters_plain17 (ks : List Inl.Node) (h : ∀ n ∈ ks, plain17 n = true) :
    processDelimiters .nil ks = .ok ks := by
  unfold processDelimiters
  rw [splitLastDelim_noDelim11 ks (fun n hn => (noDL_plain17 ks h n hn).1)]

theorem closeLabelsL_plain17 : ∀ (ks : List Inl.Node), (∀ n ∈ ks, plain17 n = true) → closeLabelsL ks = ks
  | [], _ => by simp [closeLabelsL]
  | n :: rest, h => by
    have ih := closeLabelsL_plain17 rest (fun x hx => h x (by simp [hx]))
    have hn := h n (by simp)
    match n, hn with
    | .text .., _ => simp [closeLabelsL, closeLabels, ih]
    | .link true _ _ [.text ..], _ => simp [closeLabelsL, closeLabels, ih]

theorem atomKids_plain17 (soft : Bool) : ∀ (as : List ImAtom) (q : Nat), ∀ n ∈ atomKids17 soft q as, plain17 n = true
  | [], _ => by simp [atomKids17]
  | [.txt bs], q => by simp [atomKids17, plain17]
  | .txt bs :: b :: rest, q => by
    have ih := atomKids_plain17 soft (b :: rest) (q + bs.length)
    simp only [atomKids17, List.mem_cons]
    rintro n (rfl | hn)
    · rfl
    · exact ih n hn
  | .img t d :: rest, q => by
    have ih := atomKids_plain17 soft rest (q + 1 + 1 + t.length + 1 + 1 + d.length + 1)
    simp only [atomKids17, List.mem_cons]
    rintro n (rfl | hn)
    · rfl
    · exact ih n hn

theorem richKids_plain17 : ∀ (ls : List (List ImAtom)) (p : Nat), ∀ n ∈ richKids17 p ls, plain17 n = true
  | [], _ => by simp [richKids17]
  | [l], p => atomKids_plain17 false l p
  | l :: l' :: rest, p => by
    intro n hn
    simp only [richKids17, List.mem_append] at hn
    rcases hn with hn | hn
    · exact atomKids_plain17 true l p n hn
    · exact richKids_plain17 (l' :: rest) _ n hn

/-! ### fuel -/

theorem atoms_le17 {as : List ImAtom} (h : IT17 as) : as.length ≤ (imlineSrc as).length := by
  induction h with
  | last bs l0 c hl _ _ _ => rw [imlineSrc_single17, hl]; simp
  | cons bs t d rest _ _ _ _ _ _ _ _ ih => rw [imlineSrc_cons17]; simp; omega

theorem need_le17 (src : Bytes) : ∀ (ls : List (List ImAtom)) (p : Nat), ls ≠ [] → (∀ l ∈ ls, IT17 l) →
    LinesAtE src p (ls.map imlineSrc) → p + need17 ls ≤ src.length + 1
  | [], _, h, _, _ => absurd rfl h
  | [l], p, _, hg, hla => by
    have := atoms_le17 (hg l (by simp))
    obtain ⟨_, hlen⟩ := hla
    simp only [need17]; omega
  | l :: l' :: rest, p, _, hg, hla => by
    have := atoms_le17 (hg l (by simp))
    obtain ⟨_, _, hla'⟩ := hla
    have ih := need_le17 src (l' :: rest) _ (by simp) (fun x hx => hg x (by simp at hx ⊢; right; exact hx)) hla'
    simp only [need17] at ih ⊢; omega

/-- the inline phase on a paragraph of rich lines with images -/
theorem parseBlock_rich17 (env : GM.Inl.Env) (henv : env.escapedSpace = false) (src : Bytes) (p : Nat)
    (ls : List (List ImAtom)) (hne : ls ≠ []) (hg : ∀ l ∈ ls, ImRichLine l) (h : LinesAtE src p (ls.map imlineSrc)) :
    GM.Inl.parseBlock env src (paraSegs p (ls.map imlineSrc)) = .ok (richKids17 p ls) := by
  have hrt : ∀ l ∈ ls, IT17 l := fun l hl => lt_of_rich17 (hg l hl)
  have hne' : ls.map imlineSrc ≠ [] := by simpa using hne
  have hfuel : need17 ls ≤ blockFuel src (paraSegs p (ls.map imlineSrc)) := by
    have := need_le17 src ls p hne hrt h
    unfold blockFuel
    omega
  obtain ⟨f, hf⟩ : ∃ f, blockFuel src (paraSegs p (ls.map imlineSrc)) = f + need17 ls :=
    ⟨_, (Nat.sub_add_cancel hfuel).symm⟩
  obtain ⟨rd', nid', h⟩ := loop_rich17 env henv src (paraSegs p (ls.map imlineSrc))
    (paraEnd p (ls.map imlineSrc) : Nat) [] ls p [] [] f 0 hne hrt h rfl rfl noMerge_nil8 (by intro n hn; simp at hn)
  unfold parseBlock
  simp only [bind, Except.bind, new_para _ (ls.map imlineSrc) p hne']
  have h' : lineLoop env (blockFuel src (paraSegs p (ls.map imlineSrc))) false
      { rd := rdAt src (paraSegs p (ls.map imlineSrc)) (paraEnd p (ls.map imlineSrc) : Nat) 0
          ((paraSegs p (ls.map imlineSrc)).headD default) p } =
      .ok { rd := rd', kids := richKids17 p ls, nextId := nid', bottoms := [] } := by
    rw [hf]
    simpa using h
  rw [h']
  simp only [processDelimiters_plain17 _ (richKids_plain17 ls p), closeLabelsL_plain17 _ (richKids_plain17 ls p),
    pure, Except.pure]


/-! ### the renderer's nodes -/

theorem atomTrees17 (src : Bytes) (soft : Bool) : ∀ (as : List ImAtom) (q : Nat),
    sub src q (q + (imlineSrc as).length) = imlineSrc as → q + (imlineSrc as).length ≤ src.length →
    GM.Convert.inlineTrees src (atomKids17 soft q as) = .ok (imatomNodes soft as)
  | [], _, _, _ => by simp [atomKids17, imatomNodes, GM.Convert.inlineTrees, pure, Except.pure]
  | [.txt bs], q, h, hlen => by
    rw [imlineSrc_single17] at h hlen
    simp [atomKids17, imatomNodes, GM.Convert.inlineTrees, GM.Convert.inlineTree, bind, Except.bind, pure, Except.pure,
      value_at8 src q bs h hlen _ _ rfl rfl]
  | .txt bs :: b :: rest, q, h, hlen => by
    have hs : imlineSrc (.txt bs :: b :: rest) = [] ++ bs ++ imlineSrc (b :: rest) := by simp [imlineSrc, imatomSrc]
    have hs' : imlineSrc (.txt bs :: b :: rest) = bs ++ imlineSrc (b :: rest) ++ [] := by simp [imlineSrc, imatomSrc]
    have h1 := sub_mid8 src q [] bs (imlineSrc (b :: rest)) (by rw [← hs]; exact h)
    have h2 := sub_mid8 src q bs (imlineSrc (b :: rest)) [] (by rw [← hs']; exact h)
    have hl : (imlineSrc (.txt bs :: b :: rest)).length = bs.length + (imlineSrc (b :: rest)).length := by
      rw [hs]; simp
    have ih := atomTrees17 src soft (b :: rest) (q + bs.length) h2 (by omega)
    simp only [List.length_nil, Nat.add_zero] at h1
    have hv : Segment.value { start := (q : Int), stop := ((q + bs.length : Nat) : Int) } src = .ok bs :=
      value_at8 src q bs h1 (by omega) _ _ rfl (by push_cast; rfl)
    simp only [atomKids17, imatomNodes, GM.Convert.inlineTrees, GM.Convert.inlineTree, bind, Except.bind, pure,
      Except.pure, hv, ih]
  | .img t d :: rest, q, h, hlen => by
    have hs : imlineSrc (.img t d :: rest) = [33, 91] ++ t ++ (93 :: 40 :: (d ++ 41 :: imlineSrc rest)) := by
      simp [imlineSrc, imatomSrc]
    have hs' : imlineSrc (.img t d :: rest) = (33 :: 91 :: (t ++ 93 :: 40 :: (d ++ [41]))) ++ imlineSrc rest ++ [] := by
      simp [imlineSrc, imatomSrc]
    have h1 := sub_mid8 src q [33, 91] t (93 :: 40 :: (d ++ 41 :: imlineSrc rest)) (by rw [← hs]; exact h)
    have h2 := sub_mid8 src q (33 :: 91 :: (t ++ 93 :: 40 :: (d ++ [41]))) (imlineSrc rest) [] (by rw [← hs']; exact h)
    have hl : (imlineSrc (.img t d :: rest)).length = 1 + 1 + t.length + 1 + 1 + d.length + 1 + (imlineSrc rest).length := by
      rw [hs]; simp; omega
    have e1 : q + (33 :: 91 :: (t ++ 93 :: 40 :: (d ++ [41]))).length = q + 1 + 1 + t.length + 1 + 1 + d.length + 1 := by
      simp; omega
    rw [e1] at h2
    have ih := atomTrees17 src soft rest (q + 1 + 1 + t.length + 1 + 1 + d.length + 1) h2 (by omega)
    simp only [List.length_cons, List.length_nil, Nat.zero_add] at h1
    have hv : Segment.value { start := ((q + 1 + 1 : Nat) : Int), stop := ((q + 1 + 1 + t.length : Nat) : Int) } src = .ok t :=
      value_at8 src (q + 1 + 1) t h1 (by omega) _ _ rfl (by push_cast; rfl)
    simp only [atomKids17, imatomNodes, GM.Convert.inlineTrees, GM.Convert.inlineTree, bind, Except.bind, pure,
      Except.pure, hv, ih]
    simp

theorem inlineTrees_richAux17 (src : Bytes) : ∀ (p : Nat) (ls : List (List ImAtom)),
    LinesAtE src p (ls.map imlineSrc) → GM.Convert.inlineTrees src (richKids17 p ls) = .ok (imrichNodes ls)
  | _, [], _ => by simp [richKids17, imrichNodes, GM.Convert.inlineTrees, pure, Except.pure]
  | p, [l], h => by
    obtain ⟨hsub, hlen⟩ := h
    exact atomTrees17 src false l p hsub hlen
  | p, l :: l' :: rest, h => by
    obtain ⟨hsub, hlen, h'⟩ := h
    have hsub' := sub_prefix src p (imlineSrc l).length (imlineSrc l) 10 rfl hsub
    exact inlineTrees_append8 src _ _ _ _ (atomTrees17 src true l p hsub' (by omega))
      (inlineTrees_richAux17 src _ (l' :: rest) h')

/-- the renderer's nodes of the children of a paragraph of rich lines with links (`hg` is not needed) -/
theorem inlineTrees_rich17 (src : Bytes) (p : Nat) (ls : List (List ImAtom)) (_hg : ∀ l ∈ ls, ImRichLine l)
    (h : LinesAtE src p (ls.map imlineSrc)) :
    GM.Convert.inlineTrees src (richKids17 p ls) = .ok (imrichNodes ls) :=
  inlineTrees_richAux17 src p ls h

end GM.Proof.CMFrag
