/-
  GM.Proof.CaseFold — util.DoFullUnicodeCaseFolding (model GM.caseFold): structure lemmas and idempotence.
-/
import GM.Model.Util
import GM.Proof.FoldTable

namespace GM.Proof
open GM

/-! ### unfolding caseFold -/

theorem cf_lt {c : UInt8} (cs : Bytes) (h : c < 181) :
    caseFold (c :: cs) = (if upperByte c then c + 32 else c) :: caseFold cs := by
  rw [caseFold]; simp only [h, if_true, upperByte]; rfl

theorem cf_cont {c : UInt8} (cs : Bytes) (hc : isCont c = true) : caseFold (c :: cs) = c :: caseFold cs := by
  by_cases h : c < 181
  · rw [cf_lt cs h]
    have : upperByte c = false := by
      rw [isCont_iff] at hc
      simp only [upperByte, Bool.and_eq_false_iff, decide_eq_false_iff_not, UInt8.le_iff_toNat_le]
      right; simp; omega
    simp [this]
  · rw [caseFold]; simp [h, runeStart, hc]

theorem cf_conts (conts rest : Bytes) (h : conts.all isCont = true) :
    caseFold (conts ++ rest) = conts ++ caseFold rest := by
  induction conts with
  | nil => rfl
  | cons c cs ih =>
    simp only [List.all_cons, Bool.and_eq_true] at h
    rw [List.cons_append, cf_cont _ h.1, ih h.2]; rfl

theorem cf_keep {c : UInt8} (cs : Bytes) (h : ¬ c < 181) (hc : isCont c = false)
    (hd : (decodeRune (c :: cs)).1 = runeError ∨ lookupFold (decodeRune (c :: cs)).1 = none) :
    caseFold (c :: cs) = c :: caseFold cs := by
  rw [caseFold]
  simp only [h, if_false, runeStart, hc, Bool.not_false, Bool.not_true]
  rcases hd with hd | hd
  · simp [hd]
  · split
    · rfl
    · simp [hd]

theorem cf_fold {c : UInt8} (cs : Bytes) (h : ¬ c < 181) (hc : isCont c = false)
    (hd : (decodeRune (c :: cs)).1 ≠ runeError) {f : List Nat} (hf : lookupFold (decodeRune (c :: cs)).1 = some f) :
    caseFold (c :: cs) = f.flatMap encodeRune ++ caseFold (cs.drop ((decodeRune (c :: cs)).2 - 1)) := by
  rw [caseFold]
  simp only [h, if_false, runeStart, hc, Bool.not_false, Bool.not_true]
  simp [hd, hf]

/-! ### folding results are fixed by caseFold -/

theorem okOut_parts {r : Nat} (h : okOut r = true) :
    okEnc r = true ∧ (encodeRune r).all (fun b => !upperByte b && !isTrimSpace b) = true := by
  simpa [okOut] using h

theorem caseFold_enc {r : Nat} (h : okOut r = true) (hn : lookupFold r = none) (tail : Bytes) :
    caseFold (encodeRune r ++ tail) = encodeRune r ++ caseFold tail := by
  obtain ⟨henc, hall⟩ := okOut_parts h
  obtain ⟨b0, conts, heq, hb0, hconts, hre, hdec, hcase⟩ := okEnc_shape henc
  rw [heq] at hall ⊢
  rcases hcase with hge | ⟨hnil, hlt⟩
  · have hnlt : ¬ b0 < 181 := by
      rw [UInt8.lt_iff_toNat_lt]; rw [ge_iff_le, UInt8.le_iff_toNat_le] at hge; omega
    have hd : decodeRune (b0 :: (conts ++ tail)) = (r, conts.length + 1) := by
      have := decodeRune_append (b0 :: conts) tail r (by simpa using hdec) hre
      simpa using this
    rw [List.cons_append, cf_keep _ hnlt hb0 (Or.inr (by rw [hd]; exact hn)), cf_conts _ _ hconts]; rfl
  · subst hnil
    have hlt' : b0 < 181 := by
      rw [UInt8.lt_iff_toNat_lt] at hlt ⊢; simp at hlt ⊢; omega
    simp only [List.all_cons, List.all_nil, Bool.and_true, Bool.and_eq_true, Bool.not_eq_true'] at hall
    rw [List.cons_append, List.nil_append, cf_lt _ hlt', hall.1]; rfl

theorem caseFold_encs (f : List Nat) (h : ∀ r ∈ f, okOut r = true ∧ lookupFold r = none) (tail : Bytes) :
    caseFold (f.flatMap encodeRune ++ tail) = f.flatMap encodeRune ++ caseFold tail := by
  induction f with
  | nil => rfl
  | cons r f ih =>
    have hr := h r List.mem_cons_self
    simp only [List.flatMap_cons, List.append_assoc]
    rw [caseFold_enc hr.1 hr.2, ih (fun r' hr' => h r' (List.mem_cons_of_mem _ hr'))]

theorem caseFold_folded {k : Nat} {f : List Nat} (hf : lookupFold k = some f) (tail : Bytes) :
    caseFold (f.flatMap encodeRune ++ tail) = f.flatMap encodeRune ++ caseFold tail :=
  caseFold_encs f (fun _ hr => ⟨fold_out_ok hf hr, fold_closed hf hr⟩) tail

/-! ### the first byte of a folded string -/

theorem lower_class : ∀ c : UInt8, c < 181 →
    isCont (if upperByte c then c + 32 else c) = isCont c ∧
    isTrimSpace (if upperByte c then c + 32 else c) = isTrimSpace c ∧
    isSpace (if upperByte c then c + 32 else c) = isSpace c := by
  apply forall_uint8; decide +kernel

theorem high_class : ∀ c : UInt8, ¬ c < 181 → isTrimSpace c = false ∧ isSpace c = false := by
  apply forall_uint8; decide +kernel

theorem trim_space : ∀ c : UInt8, isTrimSpace c = false → isSpace c = false := by
  apply forall_uint8; decide +kernel

theorem cont_class : ∀ c : UInt8, isCont c = true → isTrimSpace c = false ∧ isSpace c = false ∧ upperByte c = false := by
  apply forall_uint8; decide +kernel

/-- the bytes of a folding result: first byte not a continuation byte, no trim-space byte -/
theorem encs_head {k : Nat} {f : List Nat} (hf : lookupFold k = some f) :
    ∃ h t, f.flatMap encodeRune = h :: t ∧ isCont h = false ∧
      (f.flatMap encodeRune).all (fun b => !isTrimSpace b) = true := by
  have hall : (f.flatMap encodeRune).all (fun b => !isTrimSpace b) = true := by
    rw [List.all_flatMap]
    apply List.all_eq_true.mpr
    intro r hr
    have := (okOut_parts (fold_out_ok hf hr)).2
    rw [List.all_eq_true] at this ⊢
    intro b hb
    have := this b hb
    simp only [Bool.and_eq_true] at this
    exact this.2
  cases f with
  | nil => exact absurd rfl (fold_nonempty hf)
  | cons r f =>
    obtain ⟨b0, conts, heq, hb0, _⟩ := okEnc_shape (okOut_parts (fold_out_ok hf List.mem_cons_self)).1
    refine ⟨b0, conts ++ f.flatMap encodeRune, ?_, hb0, hall⟩
    simp [List.flatMap_cons, heq]

theorem caseFold_head (c : UInt8) (cs : Bytes) :
    ∃ h t, caseFold (c :: cs) = h :: t ∧ isCont h = isCont c ∧ isTrimSpace h = isTrimSpace c ∧
      isSpace h = isSpace c := by
  by_cases hlt : c < 181
  · obtain ⟨h1, h2, h3⟩ := lower_class c hlt
    exact ⟨_, _, cf_lt cs hlt, h1, h2, h3⟩
  · by_cases hc : isCont c = true
    · exact ⟨c, _, cf_cont cs hc, rfl, rfl, rfl⟩
    · have hc' : isCont c = false := by simpa using hc
      by_cases hd : (decodeRune (c :: cs)).1 = runeError
      · exact ⟨c, _, cf_keep cs hlt hc' (Or.inl hd), rfl, rfl, rfl⟩
      · cases hf : lookupFold (decodeRune (c :: cs)).1 with
        | none => exact ⟨c, _, cf_keep cs hlt hc' (Or.inr hf), rfl, rfl, rfl⟩
        | some f =>
          obtain ⟨h, t, heq, hh, hall⟩ := encs_head hf
          obtain ⟨k1, k2⟩ := high_class c hlt
          rw [heq] at hall
          simp only [List.all_cons, Bool.and_eq_true, Bool.not_eq_true'] at hall
          refine ⟨h, t ++ caseFold (cs.drop ((decodeRune (c :: cs)).2 - 1)), ?_, by rw [hh, hc'], by rw [hall.1, k1],
            by rw [trim_space h hall.1, k2]⟩
          rw [cf_fold cs hlt hc' hd hf, heq]; rfl

theorem tw_caseFold (l : Bytes) : (caseFold l).takeWhile isCont = l.takeWhile isCont := by
  induction l with
  | nil => simp [caseFold]
  | cons c cs ih =>
    by_cases hc : isCont c = true
    · rw [cf_cont cs hc]; simp [List.takeWhile, hc, ih]
    · obtain ⟨h, t, heq, hh, _⟩ := caseFold_head c cs
      have hc' : isCont c = false := by simpa using hc
      rw [heq]; simp [List.takeWhile, hc', hh]

/-! ### idempotence -/

theorem upper_lower : ∀ c : UInt8, c < 181 →
    (if upperByte c then c + 32 else c) < 181 ∧ upperByte (if upperByte c then c + 32 else c) = false := by
  apply forall_uint8; decide +kernel

theorem caseFold_idem (l : Bytes) : caseFold (caseFold l) = caseFold l := by
  fun_induction caseFold l with
  | case1 => simp [caseFold]
  | case2 c cs hlt ih =>
    obtain ⟨h1, h2⟩ := upper_lower c hlt
    have : (if (65 ≤ c && c ≤ 90) = true then c + 32 else c) = (if upperByte c then c + 32 else c) := rfl
    rw [this, cf_lt _ h1, h2, ih]; rfl
  | case3 c cs hlt hrs ih =>
    have hc : isCont c = true := by simpa [runeStart] using hrs
    rw [cf_cont _ hc, ih]
  | case4 c cs hlt hrs d hd ih =>
    have hc : isCont c = false := by simpa [runeStart] using hrs
    have hdec : decodeRune (c :: caseFold cs) = decodeRune (c :: cs) := decodeRune_congr c (tw_caseFold cs)
    rw [cf_keep _ hlt hc (Or.inl (by rw [hdec]; simpa using hd)), ih]
  | case5 c cs hlt hrs d hd hf ih =>
    have hc : isCont c = false := by simpa [runeStart] using hrs
    have hdec : decodeRune (c :: caseFold cs) = decodeRune (c :: cs) := decodeRune_congr c (tw_caseFold cs)
    rw [cf_keep _ hlt hc (Or.inr (by rw [hdec]; exact hf)), ih]
  | case6 c cs hlt hrs d hd f hf ih =>
    rw [caseFold_folded hf, ih]

end GM.Proof
