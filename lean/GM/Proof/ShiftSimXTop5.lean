/-
  GM.Proof.ShiftSimXTop5 — the store invariant `tl_GP` of `ShiftSimXTop3` through the driver:
  `setextClose` keeps it (`gp_setextClose`), hence every `Close`, `closeBlocks`, the candidate loop, `openBlocks`
  (`gp_openBlocks`) and one pass of `lineLoop` (`gp_lineLoop`).
-/
import GM.Proof.ShiftSimXTop3
import GM.Proof.ConvertHWFOpen

namespace GM.Blocks.Xs
open GM GM.Text GM.Spec GM.Proof.Reader GM.Blocks GM.Blocks.L
open GM.Blocks.Sh (K KS bind_ok_inv liftE_ok_inv a2_getNode_inv a2_getPc_inv a2_modPc_inv a2_lastOpenedBlock_inv
  ac_getD_set ac_getD_push ac_pure_bind ac_throw_bind tpJp1 tpJp2 tpJp3 tpSome tryParsers_cons oblTry
  openBlocksLoop_succ llOpen llFall llBody ll_lineLoop_cons blockAt_mem)

theorem tl_GP.congr_r {s : St} (h : tl_GP s) (r' : Reader) : tl_GP { s with r := r' } := h

variable {ps : List Nat}

/-! ### `setextClose` -/

theorem gp_setextClose (n : Nat) : Keeps (tl_GPc ps) (setextClose n) := by
  intro s a s' hs h
  unfold setextClose at h
  obtain ⟨hn, s1, h1, hA1⟩ := bind_ok_inv h
  obtain ⟨_, e1⟩ := a2_getNode_inv h1
  subst e1
  obtain ⟨seg, s2, h2, hA2⟩ := bind_ok_inv hA1
  obtain ⟨_, e2⟩ := liftE_ok_inv h2
  subst e2
  obtain ⟨_, s3, h3, hA3⟩ := bind_ok_inv hA2
  have hs3 : tl_GPc ps s3 := (by tl_gw : Keeps (tl_GPc ps) _) _ _ _ hs h3
  obtain ⟨pc, s4, h4, hA4⟩ := bind_ok_inv hA3
  obtain ⟨_, e4⟩ := a2_getPc_inv h4
  subst e4
  have step : ∀ (tmp : Nat) (t0 : St), tl_GPc ps t0 → (do
      modPc fun pc => { pc with tmpPara := none }
      let tn ← getNode tmp
      if tn.lines.length == 0 then
        let next ← nextSibling n
        let segment ← liftE (seg.trimLeftSpace (← source))
        let hp ← match (← getNode n).parent with
          | some p => pure p
          | none => throw .nil
        let nextIsPara ← match next with
          | none => pure false
          | some nx => do pure ((← getNode nx).kind == .paragraph)
        if !nextIsPara then
          let para ← newNode { kind := .paragraph }
          appendLine para segment
          insertAfter hp (some n) para
        else
          match next with
          | none => pure ()
          | some nx =>
            let nn ← getNode nx
            if nn.linesNil then throw .slice
            modNode nx fun n => { n with lines := segment :: n.lines }
        removeChild hp n
      else
        modNode n fun n => { n with lines := tn.lines, linesNil := tn.linesNil, blankPrev := tn.blankPrev }
        match tn.parent with
        | some tp => removeChild tp tmp
        | none => pure () : M Unit) t0 = .ok (a, s') → tl_GPc ps s' := by
    intro tmp t0 hs3 hA5
    obtain ⟨_, s6, h6, hA6⟩ := bind_ok_inv hA5
    have hs6 : tl_GPc ps s6 := tl_g_modPc _ _ _ _ hs3 h6
    obtain ⟨tn, s7, h7, hA7⟩ := bind_ok_inv hA6
    obtain ⟨_, e7⟩ := a2_getNode_inv h7
    subst e7
    split at hA7
    · obtain ⟨next, s8, h8, hA8⟩ := bind_ok_inv hA7
      have hs8 : tl_GPc ps s8 := tl_g_nextSibling n _ _ _ hs6 h8
      obtain ⟨src, s9, h9, hA9⟩ := bind_ok_inv hA8
      cases h9
      obtain ⟨seg', s10, h10, hA10⟩ := bind_ok_inv hA9
      obtain ⟨_, e10⟩ := liftE_ok_inv h10
      subst e10
      obtain ⟨x, s11, h11, hA11⟩ := bind_ok_inv hA10
      obtain ⟨ex, e11⟩ := a2_getNode_inv h11
      subst e11
      have key : ∀ (hp : Nat) {m : M Unit}, x.parent = some hp → m s11 = .ok (a, s') →
          Keeps (tl_GPc (hp :: ps)) m → tl_GPc ps s' :=
        fun hp _ hpar h k => (k _ _ _ (hs8.add (hs8.1.2 n hp (by rw [ex] at hpar; exact hpar))) h).weaken
      cases hpar : x.parent with
      | none =>
        rw [hpar] at hA11
        obtain ⟨_, _, h12, _⟩ := bind_ok_inv hA11
        cases h12
      | some p =>
        rw [hpar] at hA11
        obtain ⟨hp, s12, h12, hA12⟩ := bind_ok_inv hA11
        cases h12
        refine key p hpar hA12 ?_
        have := fun v k => @tl_g_insertAfter (p :: ps) p List.mem_cons_self v k
        have := @tl_g_removeChild (p :: ps)
        tl_gw
    · exact (by have := @tl_g_removeChild ps; tl_gw : Keeps (tl_GPc ps) _) _ _ _ hs6 hA7
  split at hA4
  · next t _ =>
    obtain ⟨tmp, s5, h5, hA13⟩ := bind_ok_inv hA4
    cases h5
    exact step t _ hs3 hA13
  · obtain ⟨_, _, h5, _⟩ := bind_ok_inv hA4
    cases h5

/-- every `Close` keeps the invariant -/
theorem gp_bpClose (bp : BP) (n : Nat) : Keeps (tl_GPc ps) (bpClose bp n) := by
  by_cases h : bp = .setext
  · subst h
    exact gp_setextClose n
  · exact tl_g_bpClose bp h n

theorem gp_closeLoop (blocks : List Block) (to : Int) : ∀ k, Keeps (tl_GPc ps) (closeLoop blocks to k)
  | 0 => by unfold closeLoop; exact Keeps.pure _
  | k + 1 => by
    have ih := gp_closeLoop blocks to k
    have := @gp_bpClose ps
    unfold closeLoop; tl_gw

theorem gp_closeBlocks (frm to : Int) : Keeps (tl_GPc ps) (closeBlocks frm to) := by
  have := @gp_closeLoop ps
  unfold closeBlocks; tl_gw

/-! ### the candidate loop -/

theorem gp_tpJp2 (parent node : Nat) (bp : BP) (state : PState) (lastBlock : Option Block) (hp : parent ∈ ps) :
    Keeps (tl_GPc ps) (tpJp2 parent node bp state lastBlock) := by
  have := tl_g_appendChild (ps := ps) parent node hp
  unfold tpJp2; tl_gw

theorem gp_tpJp1 (parent node : Nat) (bp : BP) (state : PState) (lastBlock : Option Block) (blankLine : Bool)
    (last : Option Nat) (hp : parent ∈ ps) :
    Keeps (tl_GPc ps) (tpJp1 parent node bp state lastBlock blankLine last) := by
  have := gp_tpJp2 parent node bp state lastBlock hp
  have := @gp_closeBlocks ps
  unfold tpJp1; tl_gw

theorem gp_tpJp3 (parent node : Nat) (bp : BP) (state : PState) (lastBlock : Option Block) (blankLine : Bool)
    (last : Option Nat) (lb : Block) (blocks : List Block) (hp : parent ∈ ps) :
    Keeps (tl_GPc ps) (tpJp3 parent node bp state lastBlock blankLine last lb blocks) := by
  have := gp_tpJp1 parent node bp state lastBlock blankLine last hp
  unfold tpJp3; tl_gw

theorem gp_tpSome (parent node : Nat) (bp : BP) (state : PState) (lastBlock : Option Block) (blankLine : Bool)
    (last : Option Nat) (hp : parent ∈ ps) :
    Keeps (tl_GPc ps) (tpSome parent node bp state lastBlock blankLine last) := by
  have := gp_tpJp1 parent node bp state lastBlock blankLine last hp
  have := fun lb blocks => gp_tpJp3 parent node bp state lastBlock blankLine last lb blocks hp
  have := @gp_bpClose ps
  unfold tpSome; tl_gw

/-- the candidate loop asks for a retry only below the node just opened, and only when `Open` answered `HasChildren` -/
def gp_RQ (node : Nat) (state : PState) (x : TryOutcome × OpenResult × Option Block) : Prop :=
  ∀ p, x.1 = .retry p → p = node ∧ state.hasChildren = true

macro "gp_ret" : tactic =>
  `(tactic| repeat' first
    | assumption
    | with_reducible apply Ret.bind
    | with_reducible apply Ret.ite
    | with_reducible apply Ret.throw
    | intro_pi
    | split)

theorem gp_tpJp2_ret (parent node : Nat) (bp : BP) (state : PState) (lastBlock : Option Block) :
    Ret (tpJp2 parent node bp state lastBlock) (gp_RQ node state) := by
  unfold tpJp2
  refine Ret.bind fun _ => Ret.bind fun _ => ?_
  split
  · next hc =>
    refine Ret.pure fun p e => ?_
    have e' : TryOutcome.retry node = .retry p := e
    cases e'
    exact ⟨rfl, hc⟩
  · refine Ret.pure fun p e => ?_
    have e' : TryOutcome.done = .retry p := e
    cases e'

theorem gp_tpJp1_ret (parent node : Nat) (bp : BP) (state : PState) (lastBlock : Option Block) (blankLine : Bool)
    (last : Option Nat) : Ret (tpJp1 parent node bp state lastBlock blankLine last) (gp_RQ node state) := by
  have := gp_tpJp2_ret parent node bp state lastBlock
  unfold tpJp1; gp_ret

theorem gp_tpJp3_ret (parent node : Nat) (bp : BP) (state : PState) (lastBlock : Option Block) (blankLine : Bool)
    (last : Option Nat) (lb : Block) (blocks : List Block) :
    Ret (tpJp3 parent node bp state lastBlock blankLine last lb blocks) (gp_RQ node state) := by
  have := gp_tpJp1_ret parent node bp state lastBlock blankLine last
  unfold tpJp3; gp_ret

theorem gp_tpSome_ret (parent node : Nat) (bp : BP) (state : PState) (lastBlock : Option Block) (blankLine : Bool)
    (last : Option Nat) : Ret (tpSome parent node bp state lastBlock blankLine last) (gp_RQ node state) := by
  have := gp_tpJp1_ret parent node bp state lastBlock blankLine last
  have := fun lb blocks => gp_tpJp3_ret parent node bp state lastBlock blankLine last lb blocks
  unfold tpSome
  repeat' first
    | assumption
    | apply_hyp
    | with_reducible apply Ret.bind
    | with_reducible apply Ret.ite
    | with_reducible apply Ret.throw
    | intro_pi
    | split

/-- a container node of the store -/
def gp_CN (s : St) (p : Nat) : Prop := p < s.nodes.length ∧ tl_cont (nd s p).kind = true

theorem gp_tryParsers (parent : Nat) (hp : parent ∈ ps) (blankLine continuable : Bool) (w : Int) :
    ∀ (bps : List BP) (result : OpenResult) (lastBlock : Option Block) (s s' : St)
      (x : TryOutcome × OpenResult × Option Block), tl_GPc ps s →
      tryParsers parent blankLine continuable w bps result lastBlock s = .ok (x, s') →
      tl_GPc ps s' ∧ ∀ p, x.1 = .retry p → gp_CN s' p := by
  intro bps
  induction bps with
  | nil =>
    intro result lastBlock s s' x hs h
    unfold tryParsers at h
    cases h
    refine ⟨hs, fun p e => ?_⟩
    have e' : TryOutcome.done = .retry p := e
    cases e'
  | cons bp bps ih =>
    intro result lastBlock s s' x hs h
    rw [tryParsers_cons] at h
    by_cases c1 : (continuable && result == OpenResult.noBlocksOpened && !bp.canInterruptParagraph) = true
    · rw [if_pos c1] at h; exact ih result lastBlock s s' x hs h
    rw [if_neg c1] at h
    by_cases c2 : (decide (w > 3) && !bp.canAcceptIndentedLine) = true
    · rw [if_pos c2] at h; exact ih result lastBlock s s' x hs h
    rw [if_neg c2] at h
    obtain ⟨x0, s1, h1, hA⟩ := bind_ok_inv h
    obtain ⟨ex0, e1⟩ := a2_lastOpenedBlock_inv h1
    subst e1
    obtain ⟨y, s2, h2, hB⟩ := bind_ok_inv hA
    have hs2 : tl_GPc ps s2 := tl_g_bpOpen bp parent _ _ _ hs h2
    cases hy : y.1 with
    | none =>
      rw [hy] at hB
      exact ih result x0 s2 s' x hs2 hB
    | some node =>
      rw [hy] at hB
      have hr := (gp_tpSome_ret parent node bp y.2 x0 blankLine (x0.map (·.node))).h _ _ _ hB
      by_cases hc : y.2.hasChildren = true
      · have hcont := hasChildren_only_containers bp parent _ _ y h2 hc
        obtain ⟨_, hoj⟩ := (GM.ConvertH.bpOpen_oj bp parent).h _ _ _ h2
        obtain ⟨_, o2, o3⟩ := hoj node hy
        have o3' : (nd s2 node).kind = GM.ConvertH.BP.kindOf bp := o3
        have hcn : gp_CN s2 node := by
          refine ⟨o2, ?_⟩
          rw [o3']
          cases bp <;> first | rfl | cases hcont
        have := gp_tpSome (ps := node :: ps) parent node bp y.2 x0 blankLine (x0.map (·.node))
          (List.mem_cons_of_mem _ hp) _ _ _ (hs2.add hcn) hB
        refine ⟨this.weaken, fun p e => ?_⟩
        rw [(hr p e).1]
        exact this.2 node List.mem_cons_self
      · have := gp_tpSome (ps := ps) parent node bp y.2 x0 blankLine (x0.map (·.node)) hp _ _ _ hs2 hB
        exact ⟨this, fun p e => absurd (hr p e).2 hc⟩

/-! ### openBlocks -/

theorem gp_toContinuable (continuable : Bool) (result : OpenResult) (lastBlock : Option Block) :
    Keeps (tl_GPc ps) (toContinuable continuable result lastBlock) := by
  have := fun bp n => @tl_g_bpContinue ps n bp
  unfold toContinuable; tl_gw

theorem gp_oblTry (blankLine continuable : Bool) (fuel : Nat)
    (ih : ∀ (parent : Nat) (result : OpenResult) (lastBlock : Option Block) (s s' : St) (x : OpenResult),
      tl_GPc (parent :: ps) s →
      openBlocksLoop blankLine continuable fuel parent result lastBlock s = .ok (x, s') → tl_GPc ps s')
    (parent : Nat) (w : Int) (result : OpenResult) (lastBlock : Option Block) (bps : List BP) (s s' : St)
    (x : OpenResult) (hs : tl_GPc (parent :: ps) s)
    (h : oblTry blankLine continuable fuel parent w result lastBlock bps s = .ok (x, s')) : tl_GPc ps s' := by
  unfold oblTry at h
  obtain ⟨s0, s1, h1, hA⟩ := bind_ok_inv h
  cases h1
  obtain ⟨y, s2, h2, hB⟩ := bind_ok_inv hA
  obtain ⟨hs2, hr⟩ := gp_tryParsers parent List.mem_cons_self blankLine continuable w bps result lastBlock _ _ _ hs h2
  cases hy : y.1 with
  | done =>
    rw [hy] at hB
    exact (gp_toContinuable continuable y.2.1 y.2.2 _ _ _ hs2 hB).weaken
  | retry p' =>
    rw [hy] at hB
    obtain ⟨s3, s4, h3, hC⟩ := bind_ok_inv hB
    cases h3
    split at hC
    · obtain ⟨_, _, h4, _⟩ := bind_ok_inv hC
      cases h4
    · exact ih p' y.2.1 y.2.2 _ _ _ (hs2.weaken.add (hr p' hy)) hC

theorem gp_openBlocksLoop (blankLine continuable : Bool) :
    ∀ (fuel parent : Nat) (result : OpenResult) (lastBlock : Option Block) (s s' : St) (x : OpenResult),
      tl_GPc (parent :: ps) s →
      openBlocksLoop blankLine continuable fuel parent result lastBlock s = .ok (x, s') → tl_GPc ps s' := by
  intro fuel
  induction fuel with
  | zero =>
    intro parent result lastBlock s s' x _ h
    unfold openBlocksLoop at h
    cases h
  | succ fuel ih =>
    intro parent result lastBlock s s' x hs h
    rw [openBlocksLoop_succ] at h
    obtain ⟨lp, s1, h1, hA⟩ := bind_ok_inv h
    have m1 := peekLine_keeps tl_g_noR s _ s1 hs h1
    obtain ⟨lo, s2, h2, hB⟩ := bind_ok_inv hA
    have m2 := lineOffset_keeps tl_g_noR s1 _ s2 m1 h2
    obtain ⟨_, s3, h3, hC⟩ := bind_ok_inv hB
    have m3 := tl_g_modPc _ _ _ _ m2 h3
    by_cases c1 : lp.1.isNone = true
    · rw [if_pos c1] at hC
      exact (gp_toContinuable _ _ _ _ _ _ m3 hC).weaken
    rw [if_neg c1] at hC
    obtain ⟨c0, s4, h4, hD⟩ := bind_ok_inv hC
    obtain ⟨_, e4⟩ := liftE_ok_inv h4
    subst e4
    by_cases c2 : (c0 == 10) = true
    · rw [if_pos c2] at hD
      exact (gp_toContinuable _ _ _ _ _ _ m3 hD).weaken
    rw [if_neg c2] at hD
    split at hD
    · obtain ⟨c, s5, h5, hE⟩ := bind_ok_inv hD
      obtain ⟨_, e5⟩ := liftE_ok_inv h5
      subst e5
      exact gp_oblTry blankLine continuable fuel ih parent _ result lastBlock _ _ _ _ m3 hE
    · exact gp_oblTry blankLine continuable fuel ih parent _ result lastBlock _ _ _ _ m3 hD

/-- `openBlocks` below a container node of `ps` keeps the invariant -/
theorem gp_openBlocks_c (parent : Nat) (hp : parent ∈ ps) (blank : Bool) :
    Keeps (tl_GPc ps) (openBlocks parent blank) := by
  have : ∀ c fuel x0, Keeps (tl_GPc ps) (openBlocksLoop blank c fuel parent OpenResult.noBlocksOpened x0) :=
    fun c fuel x0 s x s' hs h => gp_openBlocksLoop blank c fuel parent _ x0 s s' x (hs.add (hs.2 parent hp)) h
  unfold openBlocks; tl_gw

/-- (G1) `openBlocks` below a container node keeps `tl_GP` -/
theorem gp_openBlocks (parent : Nat) (blank : Bool) (s s' : St) (x : OpenResult) (hg : tl_GP s)
    (hp : parent < s.nodes.length) (hc : tl_cont (nd s parent).kind = true)
    (h : openBlocks parent blank s = .ok (x, s')) : tl_GP s' :=
  (gp_openBlocks_c (ps := [parent]) parent List.mem_cons_self blank s x s'
    ⟨hg, fun p hp' => by rw [List.mem_singleton.1 hp']; exact ⟨hp, hc⟩⟩ h).1

/-! ### lineLoop -/

/-- only the container parsers' `Continue` answers `HasChildren` -/
theorem gp_bpContinue_leaf (bp : BP) (hl : bp.isContainer = false) (n : Nat) :
    Ret (bpContinue bp n) (fun st => st.hasChildren = false) := by
  cases bp <;> first | (cases hl; done) | skip
  · unfold bpContinue; exact Ret.pure rfl
  · unfold bpContinue; exact Ret.pure rfl
  · unfold bpContinue codeContinue; ret
  · unfold bpContinue; exact Ret.pure rfl
  · unfold bpContinue fencedContinue; ret
  · unfold bpContinue htmlContinue; ret
  · unfold bpContinue paragraphContinue; ret

theorem gp_llOpen (openedBlocks : List Block) (lastIndex i : Int) (blank : Bool) (blankLines : List LineStat)
    (thisParent : Nat) (hp : thisParent ∈ ps) :
    Keeps (tl_GPc ps) (llOpen openedBlocks lastIndex i blank blankLines thisParent) := by
  have := gp_openBlocks_c (ps := ps) thisParent hp
  have := @gp_closeBlocks ps
  unfold llOpen; tl_gw

theorem gp_llFall (parent : Nat) (openedBlocks : List Block) (lastIndex i lineNum : Int)
    (blankLines : List LineStat) (hp : parent ∈ ps)
    (hb : ∀ b, blockAt openedBlocks (i - 1) = .ok b → b.node ∈ ps) :
    Keeps (tl_GPc ps) (llFall parent openedBlocks lastIndex i lineNum blankLines) := by
  intro s x s' hs h
  unfold llFall at h
  split at h
  · obtain ⟨b, s1, h1, hA⟩ := bind_ok_inv h
    obtain ⟨eb, e1⟩ := liftE_ok_inv h1
    subst e1
    exact gp_llOpen _ _ _ _ _ _ (hb b eb) _ _ _ hs hA
  · exact gp_llOpen _ _ _ _ _ _ hp _ _ _ hs h

theorem gp_blockAt_pre (pre rest : List Block) (b : Block)
    (h : blockAt (pre ++ rest) ((pre.length : Int) - 1) = .ok b) : b ∈ pre := by
  unfold blockAt at h
  split at h
  · cases h
  · next hlt =>
    split at h
    · next b' hb' =>
      cases h
      have e : ((pre.length : Int) - 1).toNat = pre.length - 1 := by omega
      have hpos : 0 < pre.length := by omega
      rw [e, List.getElem?_append_left (by omega)] at hb'
      exact List.mem_of_getElem? hb'
    · cases h

theorem gp_lineLoop_c (parent : Nat) (ob : List Block) (lastIndex : Int) (hpar : parent ∈ ps) (hleafy : Leafy ob)
    (hps : ∀ z ∈ ob, z.bp.isContainer = true → z.node ∈ ps) :
    ∀ (rest pre : List Block) (i : Int) (bl : List LineStat) (s s' : St) (x : LineOutcome × List LineStat),
      ob = pre ++ rest → i = (pre.length : Int) → tl_GPc ps s →
      lineLoop parent ob lastIndex rest i bl s = .ok (x, s') → tl_GPc ps s' := by
  intro rest
  induction rest with
  | nil =>
    intro pre i bl s s' x _ _ hs h
    unfold lineLoop at h
    cases h
    exact hs
  | cons be rest ih =>
    intro pre i bl s s' x hob hi hs h
    rw [ll_lineLoop_cons] at h
    obtain ⟨lp, s1, h1, hA⟩ := bind_ok_inv h
    have m1 := peekLine_keeps tl_g_noR s _ s1 hs h1
    cases hl : lp.1 with
    | none =>
      rw [hl] at hA
      obtain ⟨_, s2, h2, hB⟩ := bind_ok_inv hA
      have m2 := gp_closeBlocks _ _ _ _ _ m1 h2
      obtain ⟨_, s3, h3, hC⟩ := bind_ok_inv hB
      have m3 := advanceLine_keeps tl_g_noR s2 _ s3 m2 h3
      cases hC
      exact m3
    | some line =>
      rw [hl] at hA
      obtain ⟨y, s2, h2, hB⟩ := bind_ok_inv hA
      cases h2
      have hbe : be ∈ ob := by rw [hob]; exact List.mem_append_right _ List.mem_cons_self
      have hfall : ∀ b, blockAt ob (i - 1) = .ok b → b.node ∈ ps := by
        intro b eb
        rw [hob, hi] at eb
        have hb := gp_blockAt_pre pre (be :: rest) b eb
        have hd : b ∈ ob.dropLast := by
          rw [hob, List.dropLast_append_of_ne_nil (List.cons_ne_nil _ _)]
          exact List.mem_append_left _ hb
        exact hps b (List.dropLast_subset _ hd) (hleafy b hd)
      have fall : ∀ t, tl_GPc ps t → llFall parent ob lastIndex i s1.r.position.1
          (bl ++ [{ lineNum := s1.r.position.1, level := i, isBlank := isBlank line }]) t = .ok (x, s') →
          tl_GPc ps s' := fun t ht e => gp_llFall _ _ _ _ _ _ hpar hfall _ _ _ ht e
      unfold llBody at hB
      obtain ⟨bn, s3, h3, hC⟩ := bind_ok_inv hB
      obtain ⟨_, e3⟩ := a2_getNode_inv h3
      subst e3
      split at hC
      · obtain ⟨st, s4, h4, hD⟩ := bind_ok_inv hC
        have m4 := tl_g_bpContinue be.node be.bp _ _ _ m1 h4
        split at hD
        · split at hD
          · next hch =>
            obtain ⟨_, s5, h5, hE⟩ := bind_ok_inv hD
            cases hE
            have hch' : st.hasChildren = true := by
              cases hh : st.hasChildren with
              | true => rfl
              | false => rw [hh] at hch; cases hch
            have hcon : be.bp.isContainer = true := by
              cases hh : be.bp.isContainer with
              | true => rfl
              | false =>
                have := (gp_bpContinue_leaf be.bp hh be.node).h _ _ _ h4
                rw [this] at hch'
                cases hch'
            exact gp_openBlocks_c be.node (hps be hbe hcon) _ _ _ _ m4 h5
          · exact ih (pre ++ [be]) (i + 1) _ _ _ _ (by rw [hob, List.append_assoc]; rfl)
              (by rw [hi, List.length_append]; rfl) m4 hD
        · exact fall _ m4 hD
      · exact fall _ m1 hC

/-- (G2) one pass of `lineLoop` over the open blocks keeps `tl_GP` -/
theorem gp_lineLoop {src : Bytes} (ob : List Block) (s s' : St) (bl : List LineStat)
    (x : LineOutcome × List LineStat) (hg : tl_GP s) (hk : K s) (hst : StableL src 0 s) (hob : s.pc.opened = ob)
    (h : lineLoop 0 ob ((ob.length : Int) - 1) ob 0 bl s = .ok (x, s')) : tl_GP s' := by
  have hcn : ∀ z ∈ ob, z.bp.isContainer = true → gp_CN s z.node := by
    intro z hz hc
    have hb := hst.blocks z (hob ▸ hz)
    refine ⟨hb.lt, ?_⟩
    rw [hb.kind]
    cases hbp : z.bp <;> rw [hbp] at hc <;> first | rfl | cases hc
  have hs : tl_GPc (0 :: (ob.filter (fun z => z.bp.isContainer)).map (·.node)) s := by
    refine ⟨hg, fun p hp => ?_⟩
    rcases List.mem_cons.1 hp with e | e
    · rw [e]
      refine ⟨hk.doc.1, ?_⟩
      have hd : (s.nodes.getD 0 default).kind = .document := hk.doc.2.1.2
      show tl_cont (s.nodes.getD 0 default).kind = true
      rw [hd]; rfl
    · obtain ⟨z, hz, rfl⟩ := List.mem_map.1 e
      obtain ⟨hz1, hz2⟩ := List.mem_filter.1 hz
      exact hcn z hz1 hz2
  have hps : ∀ z ∈ ob, z.bp.isContainer = true →
      z.node ∈ 0 :: (ob.filter (fun z => z.bp.isContainer)).map (·.node) :=
    fun z hz hc => List.mem_cons_of_mem _ (List.mem_map.2 ⟨z, List.mem_filter.2 ⟨hz, hc⟩, rfl⟩)
  exact (gp_lineLoop_c 0 ob _ List.mem_cons_self (hob ▸ hst.leafy) hps ob [] 0 bl s s' x rfl rfl hs h).1

end GM.Blocks.Xs
