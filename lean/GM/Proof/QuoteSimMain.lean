/-
  GM.Proof.QuoteSimMain — the line-by-line induction: run A (`parseBlocks` on `src`) against run B (on
  `quotePrefix src`).
-/
import GM.Proof.QuoteSimBlank
import GM.Proof.QuoteSimRInd
import GM.Proof.QuoteSimInvNE
import GM.Proof.QuoteSimMid

namespace GM.Blocks
open GM GM.Text GM.Spec GM.Proof.Reader

/-! ### run A: the outer loop of parseBlocks with its SkipBlankLines generalised over fuel and line counter -/

def skipFrom (sf : Nat) (lines : Int) : M (Segment × Int × Bool) := fun s => do
  let (x, r) ← skipBlankLines readerOps sf lines s.r
  pure (x, { s with r := r })

/-- parser.go:1059-1127 after SkipBlankLines -/
def blocksBody (fo : Nat) (stA : List LineStat) (x : Segment × Int × Bool) : M Unit :=
  match x with
  | (_, lines, ok) =>
    if (!ok) = true then pure ()
    else do
      let y ← position
      match y with
      | (lineNum, _) => do
        let pc ← getPc
        let d ← openBlocks 0 (isBlankLine (lineNum - 1) 0
          (if (lines != 0) = true then blankStats lineNum lines pc.opened.length else stA))
        if (d != OpenResult.newBlocksOpened) = true then pure ()
        else do
          advanceLine
          let z ← linesLoop 0 fo (if (lines != 0) = true then blankStats lineNum lines pc.opened.length else stA)
          match z with
          | (ret, bl) => if ret = true then pure () else blocksLoop 0 fo bl

theorem blocksLoop_eq (fo : Nat) (stA : List LineStat) (s : St) :
    blocksLoop 0 (fo + 1) stA s = (skipFrom (loopFuel s.r.source) 0 >>= blocksBody fo stA) s := by
  conv => lhs; unfold blocksLoop
  have e : skipBlankLinesR s = skipFrom (loopFuel s.r.source) 0 s := by
    unfold skipBlankLinesR skipFrom; rfl
  show StateT.bind _ _ s = StateT.bind _ _ s
  unfold StateT.bind
  rw [e]
  rfl

/-- the per-line loop of A and what parseBlocks does when it returns -/
def resume (fo fi : Nat) (stA : List LineStat) : M Unit := do
  let z ← linesLoop 0 fi stA
  match z with
  | (ret, bl) => if ret = true then pure () else blocksLoop 0 fo bl

/-! ### run A alone: SkipBlankLines, one line at a time -/

theorem view_lineA {src k ls} (h : LineAt src k ls) :
    RCur.view src ⟨k, ls, 0⟩ = some (sub src ls (lineEnd src ls)) := by
  simp only [RCur.view, spaces, List.replicate_zero, List.nil_append]
  rw [if_pos h.lt]

theorem skipFrom_zero (lines : Int) (s : St) : skipFrom 0 lines s = .error .loop := rfl

/-- a blank line is skipped -/
theorem skipFrom_blank {src k ls} (hl : LineAt src k ls) {sA : St} (ra : RI src sA.r ⟨k, ls, 0⟩)
    (hb : isBlank (sub src ls (lineEnd src ls)) = true) (sf : Nat) (lines : Int) :
    ∃ r1, skipFrom (sf + 1) lines sA = skipFrom sf (lines + 1) { sA with r := r1 } ∧
      RI src r1 ⟨k + 1, lineEnd src ls, 0⟩ := by
  obtain ⟨r0, e0, h0⟩ := ri_peekLine ra
  rw [view_lineA hl] at e0
  refine ⟨r0.advanceLine, ?_, ?_⟩
  · unfold skipFrom
    simp only
    conv => lhs; unfold skipBlankLines
    simp only [readerOps, e0, bind, Except.bind, hb, if_true, pure, Except.pure]
  · have := ri_advanceLine h0
    simpa [RCur.advanceLine] using this

/-- a line that is not blank stops it -/
theorem skipFrom_line {src k ls} (hl : LineAt src k ls) {sA : St} (ra : RI src sA.r ⟨k, ls, 0⟩)
    (hb : isBlank (sub src ls (lineEnd src ls)) = false) (sf : Nat) (lines : Int) :
    ∃ r1, skipFrom (sf + 1) lines sA = .ok ((RCur.seg src ⟨k, ls, 0⟩, lines, true), { sA with r := r1 }) ∧
      RI src r1 ⟨k, ls, 0⟩ := by
  obtain ⟨r0, e0, h0⟩ := ri_peekLine ra
  rw [view_lineA hl] at e0
  refine ⟨r0, ?_, h0⟩
  unfold skipFrom
  simp only
  unfold skipBlankLines
  simp only [readerOps, e0, bind, Except.bind, hb, Bool.false_eq_true, if_false, pure, Except.pure]

/-- the end of the source stops it with `ok = false` -/
theorem skipFrom_eof {src : Bytes} {k : Nat} {sA : St} (ra : RI src sA.r ⟨k, src.length, 0⟩) (sf : Nat) (lines : Int) :
    ∃ r1, skipFrom (sf + 1) lines sA = .ok ((RCur.seg src ⟨k, src.length, 0⟩, lines, false), { sA with r := r1 }) := by
  obtain ⟨r0, e0, h0⟩ := ri_peekLine ra
  have hv : RCur.view src ⟨k, src.length, 0⟩ = none := by simp [RCur.view]
  rw [hv] at e0
  refine ⟨r0, ?_⟩
  unfold skipFrom
  simp only
  unfold skipBlankLines
  simp only [readerOps, e0, bind, Except.bind, pure, Except.pure]

/-! ### from the end of line `k` to the start of line `k+1` -/

/-- line `k` exists, or both readers are at the end of their sources -/
def Pos (src : Bytes) (k ls : Nat) : Prop :=
  LineAt src k ls ∨ (ls = src.length ∧ (quotePrefix src).length = ls + 2 * k)

theorem pos_next {src k ls} (h : LineAt src k ls) : Pos src (k + 1) (lineEnd src ls) := by
  rcases Nat.lt_or_ge (lineEnd src ls) src.length with h1 | h1
  · exact .inl (lineAt_next h h1)
  · have e : lineEnd src ls = src.length := by have := lineEnd_le src ls; omega
    refine .inr ⟨e, ?_⟩
    rw [qp_length_end h e, e]

/-- AdvanceLine in both runs, from anywhere inside line `k` (also from behind a last line without `\n`) -/
theorem advanceLine_LS {src al} {k ls p} {sA sB : St} (h : DR src al k ls p sA sB) :
    S2 (fun _ _ sA' sB' => LS src al (k + 1) (lineEnd src ls) sA' sB') (advanceLine sA) (advanceLine sB) := by
  have hi := h.s.r.inl
  have ha := ri_advanceLine h.s.r.a
  have hb := ri_advanceLine h.s.r.b
  simp only [RCur.advanceLine] at ha hb
  rw [hi.lineEnd_eq] at ha
  have hBend : lineEnd (quotePrefix src) (p + 2 * (k + 1)) = lineEnd src ls + 2 * (k + 1) := by
    rcases Nat.lt_or_ge p (lineEnd src ls) with hplt | hge
    · exact (qp_lineEnd hi.line hi.ge hplt).1
    · have hpe : p = lineEnd src ls := by have := hi.le; omega
      obtain ⟨he, _⟩ := hi.eof hpe
      have hlen := qp_length_end hi.line he
      have h1 := lineEnd_le (quotePrefix src) (p + 2 * (k + 1))
      have h2 := lineEnd_ge (quotePrefix src) (p := p + 2 * (k + 1)) (by omega)
      omega
  rw [hBend] at hb
  refine S2.ok ⟨h.s.r.tf, ?_, ?_, h.s.n, h.s.c.loose, h.a, fun _ => ⟨h.s.c.blockOffset, h.s.c.blockIndent⟩, h.f⟩
  · simpa using ha
  · have e : lineEnd src ls + 2 * (k + 1) = lineEnd src ls + 2 * (k + 1) := rfl
    simpa using hb

/-! ### run B alone at the end of the source -/

theorem closeBq_only {sB : St} (ho : sB.pc.opened = [bqBlock]) (hp : (sB.nodes.getD 1 default).parent = some 0) :
    closeBlocks 0 0 sB = .ok ((), { sB with pc := { sB.pc with opened := [] } }) := by
  unfold closeBlocks
  have e0 : getPc sB = .ok (sB.pc, sB) := rfl
  rw [bind_run e0]
  simp only [ho]
  have e : closeLoop [bqBlock] 0 ((0 : Int) - 0 + 1).toNat sB = .ok ((), sB) := by
    show closeLoop [bqBlock] 0 1 sB = _
    unfold closeLoop
    have e1 : liftE (blockAt [bqBlock] (0 + ((0 : Nat) : Int))) sB = .ok (bqBlock, sB) := rfl
    rw [bind_run e1]
    have e2 : getNode bqBlock.node sB = .ok (sB.nodes.getD 1 default, sB) := rfl
    rw [bind_run e2, hp]
    simp only [Option.isSome_some, if_true]
    have e3 : bpClose bqBlock.bp bqBlock.node sB = .ok ((), sB) := rfl
    rw [bind_run e3]
    unfold closeLoop
    rfl
  rw [bind_run e]
  rfl

/-! ### unfolding the per-line loop of parseBlocks once -/

def linesCont (f : Nat) (x : LineOutcome × List LineStat) : M (Bool × List LineStat) :=
  match x with
  | (outcome, bl) =>
    match outcome with
    | LineOutcome.eof => pure (true, bl)
    | LineOutcome.next => do
      advanceLine
      linesLoop 0 f bl

theorem linesLoop_ne (f : Nat) (st : List LineStat) (s : St) (hne : s.pc.opened ≠ []) :
    linesLoop 0 (f + 1) st s =
      (lineLoop 0 s.pc.opened ((s.pc.opened.length : Int) - 1) s.pc.opened 0 st >>= linesCont f) s := by
  conv => lhs; unfold linesLoop
  have e0 : getPc s = .ok (s.pc, s) := rfl
  rw [bind_run e0]
  have hl : (s.pc.opened.length == 0) = false := by
    cases ho : s.pc.opened with
    | nil => exact absurd ho hne
    | cons a l => rfl
  simp only [hl, Bool.false_eq_true, if_false]
  rfl

theorem linesLoop_nil (f : Nat) (st : List LineStat) (s : St) (he : s.pc.opened = []) :
    linesLoop 0 (f + 1) st s = .ok ((false, st), s) := by
  conv => lhs; unfold linesLoop
  have e0 : getPc s = .ok (s.pc, s) := rfl
  rw [bind_run e0]
  simp only [he, List.length_nil, beq_self_eq_true, if_true]
  rfl

/-- the blank-line statistics of the two runs at the start of line `k` (only claimed for sources without a blank line,
    `FL`): related as `LSt` says, and not empty when nothing is open in A (`oA`) — line `k - 1` was visited by A's
    per-line loop then. On line 0 both runs are in the outer loop with empty statistics. -/
def SInv (src : Bytes) (k : Nat) (oA : List Block) (stA stB : List LineStat) : Prop :=
  FL src → LSt (k : Int) stA stB ∧ (oA = [] → stA ≠ [])

theorem bqStat_eq (src : Bytes) (k ls : Nat) : bqStat src k ls = bqE (k : Int) := rfl

/-- the whole-run goal: B's per-line loop ends the parse, in a store related to A's final store -/
def Goal (src : Bytes) (al : BP → Bool) (fB : Nat) (k : Nat) (oA : List Block) (stA eff : List LineStat) (sB : St) (sA' : St) : Prop :=
  ∀ stB, SInv src k oA stA stB → LStG (k : Int) eff stB →
    ∃ x sB', linesLoop 0 fB stB sB = .ok ((true, x), sB') ∧ FRel src al sA'.nodes sB'.nodes

/-- A's reader ended behind the last line -/
def ReadToEnd (src : Bytes) (s : St) : Prop := ∀ ls, ¬ LineAt src s.r.line.toNat ls

theorem bind_inv {α β} {m : M α} {f : α → M β} {s : St} {b : β} {s' : St} (h : (m >>= f) s = .ok (b, s')) :
    ∃ a s1, m s = .ok (a, s1) ∧ f a s1 = .ok (b, s') := by
  change StateT.bind m f s = _ at h
  unfold StateT.bind at h
  cases hm : m s with
  | error e => rw [hm] at h; cases h
  | ok x => obtain ⟨a, s1⟩ := x; rw [hm] at h; exact ⟨a, s1, rfl, h⟩

/-- the induction predicate of the line-by-line argument, for B's remaining line fuel `fB` -/
def MainP (src : Bytes) (al : BP → Bool) (fB : Nat) : Prop :=
  ∀ (k ls : Nat) (sA sB : St), LS src al k ls sA sB → L.StableL src 0 sA → Pos src k ls → nlCount src + 2 ≤ fB + k →
    ∀ sA',
      (sA.pc.opened = [] → ∀ sf lines fo stA, (FL src → lines = 0) → 0 ≤ lines →
        (skipFrom sf lines >>= blocksBody fo stA) sA = .ok ((), sA') →
        Goal src al fB k sA.pc.opened stA (if (lines != 0) = true then [] else stA) sB sA') ∧
      (sA.pc.opened ≠ [] → ∀ fi fo stA, resume fo fi stA sA = .ok ((), sA') → Goal src al fB k sA.pc.opened stA stA sB sA')

theorem advanceLine_run' (s : St) : advanceLine s = .ok ((), { s with r := s.r.advanceLine }) := rfl

/-- after a line: both runs call AdvanceLine and go on -/
theorem afterLine {src al} (ns : NS src) {f : Nat} (ih : MainP src al f) {k ls p : Nat} {sA1 sB1 : St}
    (hd : DR src al k ls p sA1 sB1) (hfuel : nlCount src + 2 ≤ f + (k + 1)) {sA' : St}
    (fo fi : Nat) (stA : List LineStat)
    (hA : (advanceLine >>= fun _ => resume fo fi stA) sA1 = .ok ((), sA')) (stB : List LineStat)
    (hsi : SInv src (k + 1) sA1.pc.opened stA stB) (hst1 : L.StableL src 0 sA1)
    (hg : LStG (((k + 1 : Nat)) : Int) stA stB) :
    ∃ x sB', (advanceLine >>= fun _ => linesLoop 0 f stB) sB1 = .ok ((true, x), sB') ∧
      FRel src al sA'.nodes sB'.nodes := by
  obtain ⟨u, sA2, eA, hA2⟩ := bind_inv hA
  obtain ⟨_, sB2, eB, hls⟩ := advanceLine_LS hd u sA2 eA
  have hpc2 : sA2.pc = sA1.pc := by rw [advanceLine_run'] at eA; cases eA; rfl
  have hst2 : L.StableL src 0 sA2 := by rw [advanceLine_run'] at eA; cases eA; exact hst1.congr_r _
  rw [← hpc2] at hsi
  rw [bind_run eB]
  have hpos := pos_next hd.s.r.inl.line
  obtain ⟨h1, h2⟩ := ih (k + 1) (lineEnd src ls) sA2 sB2 hls hst2 hpos hfuel sA'
  by_cases ho : sA2.pc.opened = []
  · -- nothing open in A: its per-line loop breaks and the outer loop goes on
    unfold resume at hA2
    cases fi with
    | zero => cases hA2
    | succ fi =>
      rw [bind_run (linesLoop_nil fi stA sA2 ho)] at hA2
      simp only [Bool.false_eq_true, if_false] at hA2
      cases fo with
      | zero => cases hA2
      | succ fo =>
        rw [blocksLoop_eq] at hA2
        exact h1 ho _ 0 _ _ (fun _ => rfl) (Int.le_refl _) hA2 stB hsi hg
  · exact h2 ho _ _ _ hA2 stB hsi hg

/-! ### the end of the source -/

theorem lineLoop_eof {src' : Bytes} {k p : Nat} {s : St} (hr : RI src' s.r ⟨k, p, 0⟩) (hp : src'.length ≤ p)
    (ob : List Block) (L : Int) (be : Block) (rest : List Block) (i : Int) (st : List LineStat) :
    ∃ r1, RI src' r1 ⟨k, p, 0⟩ ∧ lineLoop 0 ob L (be :: rest) i st s =
      (do closeBlocks L 0; advanceLine; pure (LineOutcome.eof, st) : M (LineOutcome × List LineStat)) { s with r := r1 } := by
  obtain ⟨r1, e1, hr1⟩ := ri_peekLine hr
  have hv : RCur.view src' ⟨k, p, 0⟩ = none := by
    simp only [RCur.view]; rw [if_neg (by omega)]
  have p1 : peekLine s = .ok ((none, RCur.seg src' ⟨k, p, 0⟩), { s with r := r1 }) := by
    unfold GM.Blocks.peekLine; rw [e1, hv]; rfl
  refine ⟨r1, hr1, ?_⟩
  conv => lhs; unfold lineLoop
  rw [bind_run p1]

theorem blocksBody_false (fo : Nat) (stA : List LineStat) (sg : Segment) (lines : Int) (s : St) :
    blocksBody fo stA (sg, lines, false) s = .ok ((), s) := rfl

theorem advanceLine_run (s : St) : advanceLine s = .ok ((), { s with r := s.r.advanceLine }) := rfl

theorem eofNil {src al k ls} {sA sB : St} (h : LS src al k ls sA sB)
    (he : ls = src.length ∧ (quotePrefix src).length = ls + 2 * k) (ho : sA.pc.opened = []) (f : Nat) {sA' : St}
    (sf : Nat) (lines : Int) (fo : Nat) (stA : List LineStat)
    (hA : (skipFrom (sf + 1) lines >>= blocksBody fo stA) sA = .ok ((), sA')) (eff : List LineStat) :
    Goal src al (f + 1) k sA.pc.opened stA eff sB sA' := by
  intro stB _ _
  obtain ⟨r1, e1⟩ := skipFrom_eof (he.1 ▸ h.ra) sf lines
  rw [bind_run e1, blocksBody_false] at hA
  cases hA
  have hob : sB.pc.opened = [bqBlock] := by rw [h.c.opened, ho]; rfl
  have hne : sB.pc.opened ≠ [] := by rw [hob]; exact List.cons_ne_nil _ _
  rw [linesLoop_ne f stB sB hne, hob]
  obtain ⟨rB, _, eB⟩ := lineLoop_eof h.rb (by omega) [bqBlock] (((([bqBlock] : List Block).length : Nat) : Int) - 1) bqBlock [] 0 stB
  have hroot := h.n.node 0
  have hp := hroot.parent
  simp only [beq_self_eq_true, if_true] at hp
  have hp1 : (sB.nodes.getD 1 default).parent = some 0 := by
    have : (sB.nodes.getD (0 + 1) default).parent = some 0 := hp.1
    simpa using this
  have ec := closeBq_only (sB := { sB with r := rB }) hob hp1
  have hL : ((([bqBlock] : List Block).length : Nat) : Int) - 1 = 0 := rfl
  rw [hL] at eB
  refine ⟨stB, { r := rB.advanceLine, nodes := sB.nodes, pc := { sB.pc with opened := [] } }, ?_, h.n, h.a.u, h.a.nk, h.f⟩
  show StateT.bind _ _ sB = _
  unfold StateT.bind
  rw [hL, eB, bind_run ec, bind_run (advanceLine_run _)]
  rfl

/-- closeBlocks(lastIndex, 0) in both runs for ANY readers over the two sources: the Close functions never look at
    the reader, so it may be replaced by one that stands inside line 0, where the in-line relation applies -/
theorem closeAll_anyReader {src al} (ps : PS src al) (fr : Frames al) (h0 : LineAt src 0 0) (tf : ∀ c ∈ src, c ≠ 9)
    {sA sB : St} (hsA : sA.r.source = src) (hsB : sB.r.source = quotePrefix src)
    (hn : StoreRel src sA.nodes sB.nodes) (hc : CtxRel sA.pc sB.pc) (ha : AInv al sA.pc sA.nodes)
    (hfe : FEc al sA.nodes sB.nodes) (L : Int) (hL : L = (sA.pc.opened.length : Int) - 1) {sA2 : St} (hA : closeBlocks L 0 sA = .ok ((), sA2)) :
    ∃ sB2, closeBlocks (L + 1) 0 sB = .ok ((), sB2) ∧ FRel src al sA2.nodes sB2.nodes := by
  -- readers inside line 0
  have hiA : RI src (Reader.new src) ⟨0, 0, 0⟩ := ri_init src
  have hiB0 : RI (quotePrefix src) (initSt (quotePrefix src)).r ⟨((0 : Nat) : Int), 0 + 2 * 0, 0⟩ := ri_init (quotePrefix src)
  obtain ⟨rB, _, hiB⟩ := bqProcess_marker h0 hiB0
  have hd : DR src al 0 0 0 { sA with r := Reader.new src } { sB with r := rB } :=
    ⟨⟨⟨tf, InL.start h0, hiA, hiB⟩, hn, hc⟩, ha, hfe⟩
  have eA := closeBlocks_rind L 0 sA (Reader.new src) (by rw [hsA]; rfl)
  rw [hA] at eA
  simp only [Except.map] at eA
  obtain ⟨_, sB2, eB, hrel⟩ := closeBlocksAll_sim ps fr hd L hL () _ eA
  have eB' := closeBlocks_rind (L + 1) 0 { sB with r := rB } sB.r (by
    show sB.r.source = rB.source
    rw [hsB, hiB.source])
  rw [eB] at eB'
  simp only [Except.map] at eB'
  exact ⟨_, eB', hrel⟩

/-- what the argument assumes about the source -/
structure Cls (src : Bytes) (al : BP → Bool) : Prop where
  ps : PS src al
  fr : Frames al
  ot : OT src
  ns : NS src
  tr : TrigOK src al
  tf : ∀ c ∈ src, c ≠ 9
  h0 : LineAt src 0 0
  shape : ∀ k ls, LineAt src k ls → isBlank (sub src ls (lineEnd src ls)) = true →
    ∃ n, sub src ls (lineEnd src ls) = List.replicate n 32 ++ [10]

theorem eofOpen {src al} (cl : Cls src al) {k ls} {sA sB : St} (h : LS src al k ls sA sB)
    (he : ls = src.length ∧ (quotePrefix src).length = ls + 2 * k) (ho : sA.pc.opened ≠ []) (f : Nat) {sA' : St}
    (fi fo : Nat) (stA : List LineStat) (hA : resume fo (fi + 1) stA sA = .ok ((), sA')) :
    Goal src al (f + 1) k sA.pc.opened stA stA sB sA' := by
  intro stB _ _
  unfold resume at hA
  obtain ⟨z, sA1, hz, hA1⟩ := bind_inv hA
  rw [linesLoop_ne fi stA sA ho] at hz
  obtain ⟨be, rest, hob⟩ : ∃ be rest, sA.pc.opened = be :: rest := by
    cases hh : sA.pc.opened with
    | nil => exact absurd hh ho
    | cons a l => exact ⟨a, l, rfl⟩
  obtain ⟨rA, hrA, eA⟩ := lineLoop_eof (he.1 ▸ h.ra) (Nat.le_refl _) sA.pc.opened ((sA.pc.opened.length : Int) - 1) be rest 0 stA
  rw [← hob] at eA
  obtain ⟨y, sA2, hy, hz2⟩ := bind_inv hz
  rw [eA] at hy
  obtain ⟨u, sA3, hcl, hrest⟩ := bind_inv hy
  rw [bind_run (advanceLine_run _)] at hrest
  cases hrest
  -- y = (eof, stA): the per-line loop returns true, parseBlocks returns
  cases hz2
  cases hA1
  have hobB : sB.pc.opened = bqBlock :: sA.pc.opened.map shB := h.c.opened
  have hneB : sB.pc.opened ≠ [] := by rw [hobB]; exact List.cons_ne_nil _ _
  rw [linesLoop_ne f stB sB hneB]
  obtain ⟨rB, hrB, eB⟩ := lineLoop_eof h.rb (by omega) sB.pc.opened ((sB.pc.opened.length : Int) - 1) bqBlock
    (sA.pc.opened.map shB) 0 stB
  rw [← hobB] at eB
  have hstrict := h.strict ho
  have hcr : CtxRel sA.pc sB.pc :=
    ⟨hstrict.1, hstrict.2, h.c.opened, h.c.tmpPara, h.c.fence, h.c.skipList, h.c.emptyItemBlank⟩
  have hLB : (sB.pc.opened.length : Int) - 1 = ((sA.pc.opened.length : Int) - 1) + 1 := by
    rw [hobB]; simp only [List.length_cons, List.length_map]; omega
  obtain ⟨sB2, ecl, hrel⟩ := closeAll_anyReader cl.ps cl.fr cl.h0 cl.tf (sA := { sA with r := rA })
    (sB := { sB with r := rB }) hrA.source hrB.source h.n hcr h.a h.f _ rfl hcl
  refine ⟨stB, { sB2 with r := sB2.r.advanceLine }, ?_, hrel⟩
  show StateT.bind _ _ sB = _
  unfold StateT.bind
  rw [eB, hLB, bind_run ecl, bind_run (advanceLine_run _)]
  rfl

theorem rebind {α β} {m m' : M α} {f : α → M β} {s s1 : St} (e : m s = m' s1) : (m >>= f) s = (m' >>= f) s1 := by
  show StateT.bind m f s = StateT.bind m' f s1
  unfold StateT.bind
  rw [e]

/-- a blank line while nothing is open in A: A skips it, B's Blockquote consumes its marker and opens nothing -/
theorem lineBlankNil {src al} (cl : Cls src al) {f : Nat} (ih : MainP src al f) {k ls} {sA sB : St}
    (h : LS src al k ls sA sB) (hsl : L.StableL src 0 sA) (hl : LineAt src k ls) (ho : sA.pc.opened = [])
    (hb : isBlank (sub src ls (lineEnd src ls)) = true) (hfuel : nlCount src + 2 ≤ f + 1 + k) {sA' : St}
    (sf : Nat) (lines : Int) (fo : Nat) (stA : List LineStat)
    (hlines0 : 0 ≤ lines)
    (hA : (skipFrom (sf + 1) lines >>= blocksBody fo stA) sA = .ok ((), sA')) :
    Goal src al (f + 1) k sA.pc.opened stA (if (lines != 0) = true then [] else stA) sB sA' := by
  intro stB _ hg
  have hnfl : ¬ FL src := fun hfl => by rw [hfl k ls hl] at hb; cases hb
  obtain ⟨r1, e1, hr1⟩ := skipFrom_blank hl h.ra hb sf lines
  rw [rebind e1] at hA
  have hobB : sB.pc.opened = [bqBlock] := by rw [h.c.opened, ho]; rfl
  have hneB : sB.pc.opened ≠ [] := by rw [hobB]; exact List.cons_ne_nil _ _
  rw [linesLoop_ne f stB sB hneB, hobB]
  obtain ⟨r', hR, eH⟩ := bHead h hl (((([bqBlock] : List Block).length : Nat) : Int) - 1) [bqBlock] [] stB
  have hL : ((([bqBlock] : List Block).length : Nat) : Int) - 1 = 0 := rfl
  rw [hL] at eH
  simp only [beq_self_eq_true, if_true] at eH
  -- B: openBlocks below the Blockquote on a blank rest of the line
  have hlt := lt_lineEnd src hl.lt
  have hge := qp_length_ge hl
  obtain ⟨n, hn⟩ := cl.shape k ls hl hb
  have hroot := h.n.node 0
  have hk := hroot.kind
  simp only [beq_self_eq_true, if_true] at hk
  have hk1 : (sB.nodes.getD 1 default).kind = .blockquote := by
    have : (sB.nodes.getD (0 + 1) default).kind = .blockquote := hk.1
    simpa using this
  obtain ⟨r'', bo, bi, eO, hR''⟩ := openBlocks_blank_qs (src := quotePrefix src) (s := { sB with r := r' })
    (c := ⟨k, ls + 2 * (k + 1), 0⟩) hR.b (by simp only; omega) rfl
    (by
      refine ⟨n, ?_⟩
      simp only
      rw [(qp_lineEnd hl (Nat.le_refl _) hlt).1, qp_sub hl (Nat.le_refl _) (Nat.le_of_lt hlt) (Nat.le_refl _)]
      exact hn)
    ⟨bqBlock, by simp only [hobB]; rfl, by simp only [bqBlock]; rw [hk1]; decide⟩
    1 (isBlankLine ((k : Int) - 1) 0 (stB ++ [bqStat src k ls]))
  have hadv := ri_advanceLine hR''
  simp only [RCur.advanceLine] at hadv
  rw [(qp_lineEnd hl (Nat.le_refl _) hlt).1] at hadv
  -- the states at the start of line `k+1`
  have hls : LS src al (k + 1) (lineEnd src ls) { sA with r := r1 }
      { r := r''.advanceLine, nodes := sB.nodes, pc := { sB.pc with blockOffset := bo, blockIndent := bi } } :=
    ⟨h.tf, hr1, by simpa using hadv, h.n, ⟨h.c.opened, h.c.tmpPara, h.c.fence, h.c.skipList, h.c.emptyItemBlank⟩, h.a,
      (fun hne => absurd ho hne), h.f⟩
  obtain ⟨h1, _⟩ := ih (k + 1) (lineEnd src ls) _ _ hls (hsl.congr_r r1) (pos_next hl) (by omega) sA'
  obtain ⟨x, sB', eL, hrel⟩ := h1 ho sf (lines + 1) fo stA (fun hfl => absurd hfl hnfl) (by omega) hA (stB ++ [bqStat src k ls])
    (fun hfl => absurd hfl hnfl)
    (by
      have hne : ((lines + 1) != 0) = true := by
        have : lines + 1 ≠ 0 := by omega
        simpa using this
      rw [if_pos hne, bqStat_eq, show ((k + 1 : Nat) : Int) = (k : Int) + 1 by omega]
      exact lstG_reset hg.bB)
  refine ⟨x, sB', ?_, hrel⟩
  show StateT.bind _ _ sB = _
  unfold StateT.bind
  rw [hL, eH, bind_run eO]
  change linesCont f (LineOutcome.next, stB ++ [bqStat src k ls]) _ = _
  unfold linesCont
  simp only
  rw [bind_run (advanceLine_run _)]
  exact eL

/-- a line that is not blank while nothing is open in A: both runs call openBlocks (A below its Document, B below
    its Blockquote) -/
theorem lineOpenNil {src al} (cl : Cls src al) {f : Nat} (ih : MainP src al f) {k ls} {sA sB : St}
    (h : LS src al k ls sA sB) (hsl : L.StableL src 0 sA) (hl : LineAt src k ls) (ho : sA.pc.opened = [])
    (hb : isBlank (sub src ls (lineEnd src ls)) = false) (hfuel : nlCount src + 2 ≤ f + 1 + k) {sA' : St}
    (sf : Nat) (lines : Int) (fo : Nat) (stA : List LineStat) (hlines : FL src → lines = 0)
    (hA : (skipFrom (sf + 1) lines >>= blocksBody fo stA) sA = .ok ((), sA')) :
    Goal src al (f + 1) k sA.pc.opened stA (if (lines != 0) = true then [] else stA) sB sA' := by
  intro stB hsi hg
  obtain ⟨r1, e1, hr1⟩ := skipFrom_line hl h.ra hb sf lines
  rw [bind_run e1] at hA
  unfold blocksBody at hA
  simp only [Bool.not_true, Bool.false_eq_true, if_false] at hA
  have ep : position { sA with r := r1 } = .ok ((r1.line, r1.pos), { sA with r := r1 }) := rfl
  have eg : getPc { sA with r := r1 } = .ok (sA.pc, { sA with r := r1 }) := rfl
  rw [bind_run ep] at hA
  simp only at hA
  rw [bind_run eg] at hA
  obtain ⟨d, sA2, hd, hA2⟩ := bind_inv hA
  have hobB : sB.pc.opened = [bqBlock] := by rw [h.c.opened, ho]; rfl
  have hneB : sB.pc.opened ≠ [] := by rw [hobB]; exact List.cons_ne_nil _ _
  rw [linesLoop_ne f stB sB hneB, hobB]
  obtain ⟨r', hR, eH⟩ := bHead h hl (((([bqBlock] : List Block).length : Nat) : Int) - 1) [bqBlock] [] stB
  have hL : ((([bqBlock] : List Block).length : Nat) : Int) - 1 = 0 := rfl
  rw [hL] at eH
  simp only [beq_self_eq_true, if_true] at eH
  have hdrl : DRL src al k ls ls { sA with r := r1 } { sB with r := r' } :=
    ⟨⟨h.tf, InL.start hl, hr1, hR.b⟩, h.n, h.c, h.a, h.f⟩
  have hline1 : r1.line = (k : Int) := by
    have := hr1.abs.line; simpa [clearLo] using this
  have hstats : FL src → (if (lines != 0) = true then blankStats r1.line lines sA.pc.opened.length else stA) = stA := by
    intro hfl; rw [hlines hfl]; rfl
  have hbf : ∀ (x : Int) (l : List LineStat), (FL src → x = (k : Int) ∧ l = stA) → FL src →
      isBlankLine ((k : Int) - 1) 0 (stB ++ [bqStat src k ls]) = isBlankLine (x - 1) 0 l := by
    intro x l hxl hfl
    obtain ⟨hx, hl'⟩ := hxl hfl
    obtain ⟨hlst, hne⟩ := hsi hfl
    rw [hx, hl', isBlankLine_nb0 _ stA (hne ho) hlst.nA, bqStat_eq,
      isBlankLine_nb0 _ _ (by simp) (nb0_bq hlst.nB)]
  obtain ⟨db, sB2, eOB, _, ⟨p', hDR⟩, hopens⟩ := openBlocks_sim cl.ps cl.fr cl.ot cl.ns cl.tr _
    (isBlankLine ((k : Int) - 1) 0 (stB ++ [bqStat src k ls])) (hbf _ _ (fun hfl => ⟨hline1, hstats hfl⟩)) 0 hdrl h.n.pos (fun _ => .inr rfl) d sA2 hd
  have hdn : d = OpenResult.newBlocksOpened := by
    refine hopens ho ?_
    unfold NBV viewA
    rw [if_pos (lt_lineEnd src hl.lt)]
    exact hb
  by_cases hnew : (d != OpenResult.newBlocksOpened) = true
  · -- a line that is not blank always opens a block
    rw [hdn] at hnew; cases hnew
  · rw [if_neg hnew] at hA2
    obtain ⟨x, sB', eL, hrel⟩ := afterLine cl.ns ih hDR (by omega) fo fo _ hA2 (stB ++ [bqStat src k ls])
      (fun hfl => by
        rw [hstats hfl, bqStat_eq]
        refine ⟨?_, fun e => absurd e (openBlocks_new_ne _ _ _ _ _ hd hdn)⟩
        have := lst_next (cur_start (hsi hfl).1)
        rw [show ((k + 1 : Nat) : Int) = (k : Int) + 1 by omega]
        exact this)
      (stable_openBlocks0 (s := { sA with r := r1 }) (hsl.congr_r r1) ho hr1 (padOK_zero _ _) hd)
      (by
        have hlen0 : sA.pc.opened.length = 0 := by rw [ho]; rfl
        have heff : (if (lines != 0) = true then blankStats r1.line lines sA.pc.opened.length else stA) =
            (if (lines != 0) = true then [] else stA) := by rw [hlen0]; rfl
        rw [heff, bqStat_eq, show ((k + 1 : Nat) : Int) = (k : Int) + 1 by omega]
        exact lstG_next (curG_start hg))
    refine ⟨x, sB', ?_, hrel⟩
    show StateT.bind _ _ sB = _
    unfold StateT.bind
    rw [hL, eH, bind_run eOB]
    change linesCont f (LineOutcome.next, stB ++ [bqStat src k ls]) _ = _
    unfold linesCont
    exact eL

/-- a line while blocks are open in A: the per-line loops run in lock step, B one level deeper -/
theorem lineOpenSome {src al} (cl : Cls src al) {f : Nat} (ih : MainP src al f) {k ls} {sA sB : St}
    (h : LS src al k ls sA sB) (hsl : L.StableL src 0 sA) (hl : LineAt src k ls) (ho : sA.pc.opened ≠ [])
    (hfuel : nlCount src + 2 ≤ f + 1 + k) {sA' : St}
    (fi fo : Nat) (stA : List LineStat)
    (hA : resume fo (fi + 1) stA sA = .ok ((), sA')) : Goal src al (f + 1) k sA.pc.opened stA stA sB sA' := by
  intro stB hsi hg
  unfold resume at hA
  obtain ⟨z, sA1, hz, hA1⟩ := bind_inv hA
  rw [linesLoop_ne fi stA sA ho] at hz
  obtain ⟨y, sA2, hy, hz2⟩ := bind_inv hz
  have hobB : sB.pc.opened = bqBlock :: sA.pc.opened.map shB := h.c.opened
  have hneB : sB.pc.opened ≠ [] := by rw [hobB]; exact List.cons_ne_nil _ _
  rw [linesLoop_ne f stB sB hneB, hobB]
  obtain ⟨r', hR, eH⟩ := bHead h hl ((((bqBlock :: sA.pc.opened.map shB).length : Nat) : Int) - 1)
    (bqBlock :: sA.pc.opened.map shB) (sA.pc.opened.map shB) stB
  have hLB : (((bqBlock :: sA.pc.opened.map shB).length : Nat) : Int) - 1 = ((sA.pc.opened.length : Int) - 1) + 1 := by
    simp only [List.length_cons, List.length_map]; omega
  have hlen : 0 < sA.pc.opened.length := List.length_pos_iff.mpr ho
  have hz0 : ((0 : Int) == ((sA.pc.opened.length : Int) - 1) + 1) = false := by
    apply beq_eq_false_iff_ne.mpr; omega
  rw [hLB] at eH
  rw [hz0] at eH
  simp only [Bool.false_eq_true, if_false] at eH
  have hstrict := h.strict ho
  have hDR : DR src al k ls ls sA { sB with r := r' } :=
    ⟨⟨hR, h.n, ⟨hstrict.1, hstrict.2, h.c.opened, h.c.tmpPara, h.c.fence, h.c.skipList, h.c.emptyItemBlank⟩⟩, h.a, h.f⟩
  obtain ⟨yb, sB2, eLB, hyb, hrel⟩ := lineLoop_sim cl.ps cl.fr cl.ot cl.ns cl.tr sA.pc.opened ((sA.pc.opened.length : Int) - 1)
    sA.pc.opened (fun _ hb => hb) 0 (Int.le_refl _) stA (stB ++ [bqStat src k ls]) hDR rfl rfl
    (fun hfl => by rw [bqStat_eq]; exact cur_start (hsi hfl).1) (fun _ => rfl) [] (mid_start hsl rfl h.ra (padOK_zero _ _))
    (by rw [bqStat_eq]; exact curG_start hg) y sA2 hy
  obtain ⟨oA, blA⟩ := y
  obtain ⟨oB, blB⟩ := yb
  simp only at hyb hrel
  subst hyb
  have eB : (lineLoop 0 (bqBlock :: sA.pc.opened.map shB) (((sA.pc.opened.length : Int) - 1) + 1)
      (bqBlock :: sA.pc.opened.map shB) 0 stB >>= linesCont f) sB = linesCont f (oB, blB) sB2 := by
    show StateT.bind _ _ sB = _
    unfold StateT.bind
    rw [eH, eLB]
    rfl
  rw [hLB, eB]
  cases oB with
  | eof =>
    -- both per-line loops return true
    unfold linesCont at hz2 ⊢
    simp only at hz2 ⊢
    cases hz2
    simp only [if_true] at hA1
    cases hA1
    exact ⟨blB, sB2, rfl, hrel⟩
  | next =>
    obtain ⟨⟨p', hd2⟩, hst, hstg⟩ := hrel
    unfold linesCont at hz2
    simp only at hz2
    obtain ⟨u, sA3, hadv, hll⟩ := bind_inv hz2
    have hA3 : (advanceLine >>= fun _ => resume fo fi blA) sA2 = .ok ((), sA') := by
      rw [bind_run hadv]
      unfold resume
      rw [bind_run hll]
      exact hA1
    obtain ⟨x, sB', eL, hrel'⟩ := afterLine cl.ns ih hd2 (by omega) fo fi blA hA3 blB
      (fun hfl => by
        obtain ⟨j, hj, hcur⟩ := hst hfl
        have hj1 : 1 ≤ j := by
          cases hop : sA.pc.opened with
          | nil => exact absurd hop ho
          | cons a l => rw [hop] at hj; simpa [loOf] using hj
        refine ⟨?_, fun _ => cur_ne hcur hj1⟩
        have := lst_next hcur
        rw [show ((k + 1 : Nat) : Int) = (k : Int) + 1 by omega]
        exact this)
      (stable_lineLoop hsl rfl h.ra (padOK_zero _ _) hy)
      (by
        obtain ⟨j, _, hcg⟩ := hstg
        rw [show ((k + 1 : Nat) : Int) = (k : Int) + 1 by omega]
        exact lstG_next hcg)
    refine ⟨x, sB', ?_, hrel'⟩
    unfold linesCont
    exact eL

/-! ### the induction -/

theorem pos_bound {src : Bytes} {k ls : Nat} (h : Pos src k ls) : k ≤ nlCount src + 1 := by
  rcases h with h | ⟨e1, e2⟩
  · have := lineAt_le_nl h; omega
  · have := qpg_length src true
    unfold quotePrefix at e2
    rw [e2, e1] at this
    split at this <;> simp only [if_true] at this <;> omega

theorem resume_zero (fo : Nat) (stA : List LineStat) (s : St) : resume fo 0 stA s = .error .loop := rfl

theorem mainP_all {src al} (cl : Cls src al) : ∀ fB, MainP src al fB := by
  intro fB
  induction fB with
  | zero =>
    intro k ls sA sB _ _ hpos hfuel
    have := pos_bound hpos
    omega
  | succ f ih =>
    intro k ls sA sB h hsl hpos hfuel sA'
    constructor
    · intro ho sf lines fo stA hlines hlines0 hA
      cases sf with
      | zero =>
        obtain ⟨_, _, hm, _⟩ := bind_inv hA
        rw [skipFrom_zero] at hm; cases hm
      | succ sf =>
        rcases hpos with hl | he
        · by_cases hb : isBlank (sub src ls (lineEnd src ls)) = true
          · exact lineBlankNil cl ih h hsl hl ho hb hfuel sf lines fo stA hlines0 hA
          · exact lineOpenNil cl ih h hsl hl ho (by simpa using hb) hfuel sf lines fo stA hlines hA
        · exact eofNil h he ho f sf lines fo stA hA _
    · intro ho fi fo stA hA
      cases fi with
      | zero => rw [resume_zero] at hA; cases hA
      | succ fi =>
        rcases hpos with hl | he
        · exact lineOpenSome cl ih h hsl hl ho hfuel fi fo stA hA
        · exact eofOpen cl h he ho f fi fo stA hA

end GM.Blocks
