/-
  GM.Proof.ShiftSimXLines — one pass of the per-line loop of parseBlocks (`lineLoop`, parser.go:1081-1123) under the
  shift relation.
-/
import GM.Proof.ShiftSimXDriver

namespace GM.Blocks.Xs
open GM GM.Text GM.Spec GM.Proof.Reader GM.Blocks

/-! ### `lineLoop` restated with named join points -/

/-- parser.go:1107-1121: `thisParent` is known -/
def llOpen (openedBlocks : List Block) (lastIndex i : Int) (blank : Bool) (blankLines : List LineStat)
    (thisParent : Nat) : M (LineOutcome × List LineStat) := do
  let lastNode ← liftE (blockAt openedBlocks lastIndex)
  let result ← openBlocks thisParent blank
  if (result != OpenResult.paragraphContinuation) = true then do
    let pc ← getPc
    let _ ← closeBlocks
      (if ((slotAfter openedBlocks pc.opened lastIndex.toNat).map (fun x => x.node) != some lastNode.node) = true
        then lastIndex - 1 else lastIndex) i
    pure (LineOutcome.next, blankLines)
  else pure (LineOutcome.next, blankLines)

/-- parser.go:1100-1121: the block did not continue (or is a paragraph) -/
def llFall (parent : Nat) (openedBlocks : List Block) (lastIndex i lineNum : Int) (blankLines : List LineStat) :
    M (LineOutcome × List LineStat) :=
  if (i != 0) = true then do
    let b ← liftE (blockAt openedBlocks (i - 1))
    llOpen openedBlocks lastIndex i (isBlankLine (lineNum - 1) i blankLines) blankLines b.node
  else llOpen openedBlocks lastIndex i (isBlankLine (lineNum - 1) i blankLines) blankLines parent

/-- parser.go:1090-1121: a line is there, its statistics entry is recorded -/
def llBody (parent : Nat) (openedBlocks : List Block) (lastIndex : Int) (bp : BP) (node : Nat) (rest : List Block)
    (i lineNum : Int) (blankLines : List LineStat) : M (LineOutcome × List LineStat) := do
  let beNode ← getNode node
  if (beNode.kind != Kind.paragraph) = true then do
    let state ← bpContinue bp node
    if state.cont = true then
      if (state.hasChildren && i == lastIndex) = true then do
        let _ ← openBlocks node (isBlankLine (lineNum - 1) i blankLines)
        pure (LineOutcome.next, blankLines)
      else lineLoop parent openedBlocks lastIndex rest (i + 1) blankLines
    else llFall parent openedBlocks lastIndex i lineNum blankLines
  else llFall parent openedBlocks lastIndex i lineNum blankLines

theorem ll_lineLoop_cons (parent : Nat) (openedBlocks : List Block) (lastIndex : Int) (be : Block) (rest : List Block)
    (i : Int) (bl : List LineStat) :
    lineLoop parent openedBlocks lastIndex (be :: rest) i bl = (do
      let x ← peekLine
      match x.1 with
      | none => do
        closeBlocks lastIndex 0
        advanceLine
        pure (LineOutcome.eof, bl)
      | some line => do
        let y ← position
        llBody parent openedBlocks lastIndex be.bp be.node rest i y.1
          (bl ++ [{ lineNum := y.1, level := i, isBlank := isBlank line }])) := by
  rw [lineLoop]
  rfl

/-! ### the pieces under the relation -/

variable {F : Frame} {b : Bytes} {Cov : BP → Prop}

theorem ll_slotAfter_map (F : Frame) (old new : List Block) (k : Nat) :
    slotAfter (old.map (shB F)) (new.map (shB F)) k = (slotAfter old new k).map (shB F) := by
  unfold slotAfter
  rw [List.getElem?_map, List.getElem?_map]
  cases new[k]? <;> rfl

theorem ll_map_node (F : Frame) (o : Option Block) :
    (o.map (shB F)).map (fun x => x.node) = (o.map (fun x => x.node)).map F.ι := by
  cases o <;> rfl

/-- the working postcondition: `line0` a lower bound of run A's line counter, `n` a lower bound of the number of
    statistics entries when the pass ends with `next` -/
def LQ (F : Frame) (b : Bytes) (Cov : BP → Prop) (line0 : Int) (n : Nat)
    (x y : LineOutcome × List LineStat) (sA' sB' : St) : Prop :=
  y.1 = x.1 ∧ StatsRel F x.2 y.2 ∧ SRLim F b sA' sB' ∧ AI Cov sA' ∧ line0 ≤ sA'.r.line ∧
    (x.1 = LineOutcome.next → n ≤ x.2.length)

theorem ll_LQ_mono {line0 : Int} {n n' : Nat} (hn : n' ≤ n) {x y : LineOutcome × List LineStat} {sA' sB' : St}
    (h : LQ F b Cov line0 n x y sA' sB') : LQ F b Cov line0 n' x y sA' sB' :=
  ⟨h.1, h.2.1, h.2.2.1, h.2.2.2.1, h.2.2.2.2.1, fun e => Nat.le_trans hn (h.2.2.2.2.2 e)⟩

theorem ll_open_p2 (hP : PSim F b Cov) (hO : OpenBlocksSim F b Cov) (openedBlocks : List Block) (lastIndex i : Int)
    (blank : Bool) (bla blb : List LineStat) (thisParent : Nat) (line0 : Int) {sA sB : St}
    (h : SR F b sA sB) (hai : AI Cov sA) (hline : HL b sA) (hst : StatsRel F bla blb) (hl0 : line0 ≤ sA.r.line) :
    P2 (LQ F b Cov line0 bla.length) (llOpen openedBlocks lastIndex i blank bla thisParent sA)
      (llOpen (openedBlocks.map (shB F)) lastIndex i blank blb (F.ι thisParent) sB) := by
  unfold llOpen
  refine P2.bind (P := fun x y sA' sB' => y = shB F x ∧ sA = sA' ∧ sB = sB')
    (P2.liftE (fun x y e1 e2 => ?_)) (fun ln ln' sA1 sB1 ⟨hy, e1, e2⟩ => ?_)
  · rw [blockAt_map, e1] at e2; cases e2; exact ⟨rfl, rfl, rfl⟩
  subst hy e1 e2
  refine P2.bind (hO thisParent blank sA sB h.w hai hline) (fun res res' sA2 sB2 ⟨hres, hlim, hai2, hline2, _⟩ => ?_)
  subst hres
  by_cases hr : (res' != OpenResult.paragraphContinuation) = true
  · rw [if_pos hr, if_pos hr]
    refine P2.bind (getPc_l hlim.1) (fun x y sA3 sB3 ⟨hx, hy, hxy, e1, e2⟩ => ?_)
    subst e1 e2
    have ho : y.opened = x.opened.map (shB F) := hxy.opened
    rw [ho, ll_slotAfter_map, ll_map_node, show (shB F ln).node = F.ι ln.node from rfl, map_ι_ne]
    refine P2.bind (closeBlocks_l2 hP _ _ hai2 hlim.1) (fun _ _ sA4 sB4 ⟨h4, hai4⟩ => ?_)
    refine P2.pure ⟨rfl, hst, SRLim.of_l hlim h4, hai4, ?_, fun _ => Nat.le_refl _⟩
    rw [h4.ra]; exact Int.le_trans hl0 hline2
  · rw [if_neg hr, if_neg hr]
    exact P2.pure ⟨rfl, hst, hlim, hai2, Int.le_trans hl0 hline2, fun _ => Nat.le_refl _⟩

theorem ll_fall_p2 (hP : PSim F b Cov) (hO : OpenBlocksSim F b Cov) (parent : Nat) (openedBlocks : List Block)
    (lastIndex i lnA lnB : Int) (bla blb : List LineStat) (line0 : Int) {sA sB : St}
    (h : SR F b sA sB) (hai : AI Cov sA) (hline : HL b sA) (hst : StatsRel F bla blb) (hl0 : line0 ≤ sA.r.line)
    (hbl : isBlankLine (lnB - 1) i blb = isBlankLine (lnA - 1) i bla) :
    P2 (LQ F b Cov line0 bla.length) (llFall parent openedBlocks lastIndex i lnA bla sA)
      (llFall (F.ι parent) (openedBlocks.map (shB F)) lastIndex i lnB blb sB) := by
  unfold llFall
  rw [hbl]
  by_cases hi : (i != 0) = true
  · rw [if_pos hi, if_pos hi]
    refine P2.bind (P := fun x y sA' sB' => y = shB F x ∧ sA = sA' ∧ sB = sB')
      (P2.liftE (fun x y e1 e2 => ?_)) (fun x y sA1 sB1 ⟨hy, e1, e2⟩ => ?_)
    · rw [blockAt_map, e1] at e2; cases e2; exact ⟨rfl, rfl, rfl⟩
    subst hy e1 e2
    exact ll_open_p2 hP hO openedBlocks lastIndex i _ bla blb x.node line0 h hai hline hst hl0
  · rw [if_neg hi, if_neg hi]
    exact ll_open_p2 hP hO openedBlocks lastIndex i _ bla blb parent line0 h hai hline hst hl0

theorem ll_body_p2 (hP : PSim F b Cov) (hNL : NL b) (hO : OpenBlocksSim F b Cov)
    (hcl : ∀ bp, Cov bp → ∀ node s s' st, HL b s → bpContinue bp node s = .ok (st, s') → st.cont = false →
      HL b s')
 (parent : Nat)
    (openedBlocks : List Block) (lastIndex : Int) (bp : BP) (node : Nat) (rest : List Block)
    (i lnA lnB : Int) (bla blb : List LineStat) (line0 : Int) {sA sB : St}
    (h : SR F b sA sB) (hai : AI Cov sA) (hst : StatsRel F bla blb) (hl0 : line0 ≤ sA.r.line)
    (hbl : isBlankLine (lnB - 1) i blb = isBlankLine (lnA - 1) i bla) (hbp : Cov bp) (hline : HL b sA)
    (hlf : rest ≠ [] → bp.isContainer = true)
    (hcont : bp.isContainer = true → ∀ node s s' (st : PState),
      bpContinue bp node s = .ok (st, s') → st.cont = true → st.hasChildren = true)
    (hrec : ∀ sA' sB', SR F b sA' sB' → AI Cov sA' → HL b sA' → line0 ≤ sA'.r.line → sA.r.line ≤ sA'.r.line →
      P2 (LQ F b Cov line0 bla.length) (lineLoop parent openedBlocks lastIndex rest (i + 1) bla sA')
        (lineLoop (F.ι parent) (openedBlocks.map (shB F)) lastIndex (rest.map (shB F)) (i + 1) blb sB')) :
    P2 (LQ F b Cov line0 bla.length) (llBody parent openedBlocks lastIndex bp node rest i lnA bla sA)
      (llBody (F.ι parent) (openedBlocks.map (shB F)) lastIndex bp (F.ι node) (rest.map (shB F)) i lnB blb sB) := by
  unfold llBody
  refine P2.bind (getNode_p2 h node) (fun n m sA1 sB1 ⟨_, hm, e1, e2⟩ => ?_)
  subst e1 e2 hm
  rw [shN_kind]
  by_cases hk : (n.kind != Kind.paragraph) = true
  · rw [if_pos hk, if_pos hk]
    have hq : QNL F b := by
      obtain ⟨c, _, hlt⟩ := hline.1
      rcases hNL with h0 | h0
      · subst h0; simp at hlt
      · exact .inr h0
    refine P2.bind ((hP.co bp hbp node sA1 sB1 h hline.1 hNL).withL
      (R := fun a sA' => (sA'.pc.opened = sA1.pc.opened ∧ sA1.r.line ≤ sA'.r.line) ∧ KeysEq sA1 sA' ∧
        bpContinue bp node sA1 = .ok (a, sA'))
      (fun a sA' e => ⟨⟨bpContinue_opened _ _ _ _ _ e, bpContinue_line _ _ _ _ _ e⟩, hP.keysC bp hbp _ _ _ _ e, e⟩))
      (fun st st' sA2 sB2 ⟨⟨hst', h2⟩, ⟨ho2, hl2⟩, hk2, heq⟩ => ?_)
    subst hst'
    have hai2 : AI Cov sA2 := ⟨fun x hx => hai.1 x (ho2 ▸ hx), hk2.off hai.2⟩
    have hl02 : line0 ≤ sA2.r.line := Int.le_trans hl0 hl2
    by_cases hc : st'.cont = true
    · rw [if_pos hc, if_pos hc]
      by_cases hch : st'.hasChildren = true
      · have hline2 : HL b sA2 := hP.strictC bp hbp _ _ _ _ hline heq hc hch
        by_cases hh : (st'.hasChildren && i == lastIndex) = true
        · rw [if_pos hh, if_pos hh, hbl]
          refine P2.bind (hO node _ sA2 sB2 h2.w hai2 hline2) (fun res res' sA3 sB3 ⟨hres, hlim, hai3, hline3, _⟩ => ?_)
          exact P2.pure ⟨rfl, hst, hlim, hai3, Int.le_trans hl02 hline3, fun _ => Nat.le_refl _⟩
        · rw [if_neg hh, if_neg hh]
          exact hrec sA2 sB2 h2 hai2 hline2 hl02 hl2
      · have hh : ¬ (st'.hasChildren && i == lastIndex) = true := by
          intro hh; simp only [Bool.and_eq_true] at hh; exact hch hh.1
        rw [if_neg hh, if_neg hh]
        have hnc : ¬ bp.isContainer = true := fun hcn => hch (hcont hcn node sA1 sA2 st' heq hc)
        have hnil : rest = [] := by
          apply Classical.byContradiction
          intro hne
          exact hnc (hlf hne)
        subst hnil
        simp only [List.map_nil]
        unfold lineLoop
        exact P2.pure ⟨rfl, hst, h2.limbo hq, hai2, hl02, fun _ => Nat.le_refl _⟩
    · rw [if_neg hc, if_neg hc]
      have hcf : st'.cont = false := by cases hx : st'.cont with
        | true => exact absurd hx hc
        | false => rfl
      have hline2 : HL b sA2 := hcl bp hbp _ _ _ _ hline heq hcf
      exact ll_fall_p2 hP hO parent openedBlocks lastIndex i lnA lnB bla blb line0 h2 hai2 hline2 hst hl02 hbl
  · rw [if_neg hk, if_neg hk]
    exact ll_fall_p2 hP hO parent openedBlocks lastIndex i lnA lnB bla blb line0 h hai hline hst hl0 hbl

theorem ll_advanceLine_line (s s' : St) (a : Unit) (e : advanceLine s = .ok (a, s')) :
    s.r.line ≤ s'.r.line ∧ s'.pc = s.pc := by
  unfold GM.Blocks.advanceLine at e
  cases e
  refine ⟨?_, rfl⟩
  show s.r.line ≤ s.r.advanceLine.line
  unfold Reader.advanceLine
  simp only
  split
  · exact Int.le_refl _
  · show s.r.line ≤ s.r.line + 1
    omega

/-! ### the loop -/

/-- the reader determines the byte position of its cursor -/
theorem ll_ri_p {r : Reader} {c c' : RCur} (h : RI b r c) (h' : RI b r c') : c.p = c'.p := by
  have e1 := h.pos
  have e2 := h'.pos
  rw [e1] at e2
  have : (c.p : Int) = c'.p := by
    have := congrArg Segment.start e2; simpa using this
  omega

theorem ll_lineLoop_p2 (hP : PSim F b Cov) (hq : QNL F b) (hNL : NL b) (hO : OpenBlocksSim F b Cov)
    (hcl : ∀ bp, Cov bp → ∀ node s s' st, HL b s → bpContinue bp node s = .ok (st, s') → st.cont = false →
      HL b s')
    (parent : Nat) (openedBlocks : List Block) (lastIndex : Int) (hob : ∀ x ∈ openedBlocks, Cov x.bp)
    (hleaf : ∀ pre be rest, openedBlocks = pre ++ be :: rest → rest ≠ [] → be.bp.isContainer = true)
    (hcont : ∀ bp, Cov bp → bp.isContainer = true → ∀ node s s' (st : PState),
      bpContinue bp node s = .ok (st, s') → st.cont = true → st.hasChildren = true) :
    ∀ (rest : List Block) (i : Int) (sa sb : List LineStat) (sA sB : St) (line0 : Int),
      (∃ pre, openedBlocks = pre ++ rest) → SR F b sA sB → AI Cov sA → HL b sA → StatsRel F sa sb →
      line0 ≤ sA.r.line → 1 ≤ sA.r.line → i ≤ (sa.length : Int) →
      P2 (LQ F b Cov line0 (sa.length + min 1 rest.length))
        (lineLoop parent openedBlocks lastIndex rest i sa sA)
        (lineLoop (F.ι parent) (openedBlocks.map (shB F)) lastIndex (rest.map (shB F)) i sb sB) := by
  intro rest
  induction rest with
  | nil =>
    intro i sa sb sA sB line0 _ h hai _ hst hl0 _ _
    simp only [List.map_nil]
    unfold lineLoop
    exact P2.pure ⟨rfl, hst, h.limbo hq, hai, hl0, fun _ => by simp⟩
  | cons be rest ih =>
    intro i sa sb sA sB line0 hrest h hai hl hst hl0 h1 hi
    obtain ⟨pre, hpre⟩ := hrest
    have hmem : be ∈ openedBlocks := by rw [hpre]; simp
    simp only [List.map_cons]
    rw [ll_lineLoop_cons, ll_lineLoop_cons]
    have hts0 : TS b sA := hl.2
    obtain ⟨c0, hc0, hp0⟩ := hl.1
    refine P2.bind ((peekLine_core h.rd (.inr ⟨c0, hc0, hp0⟩)).withL
      (R := fun _ sA' => sA.r.line ≤ sA'.r.line ∧ RI b sA'.r c0)
      (fun a sA' e => ⟨peekLine_lg (k := sA.r.line) sA a sA' (Int.le_refl _) e, ?_⟩))
      (fun x y sA1 sB1 ⟨⟨⟨c, hc, hx⟩, hy, hstep⟩, hl1, hc01⟩ => ?_)
    · obtain ⟨r', e1, e2⟩ := ri_peekLine hc0
      unfold GM.Blocks.peekLine at e
      rw [e1] at e
      cases e
      exact e2
    have hp : c.p < b.length := by rw [ll_ri_p hc hc01]; exact hp0
    have hs1 : SR F b sA1 sB1 := hstep.sr h
    have hai1 : AI Cov sA1 := by
      obtain ⟨rA, _, _, e1, _⟩ := hstep
      rw [e1]; exact hai
    subst hx hy
    simp only
    cases hv : RCur.view b c with
    | none =>
      rw [view_eq b c hp] at hv
      cases hv
    | some l =>
      simp only
      have hline : HL b sA1 := ⟨⟨c, hc, hp⟩, c0, hc01, hts0.tsafe hc0 rfl⟩
      refine P2.bind (position_p2 hs1) (fun p q sA2 sB2 ⟨hp', hq, e1, e2⟩ => ?_)
      subst e1 e2 hq hp'
      have hst' : StatsRel F (sa ++ [{ lineNum := sA2.r.line, level := i, isBlank := isBlank l }])
          (sb ++ [{ lineNum := sA2.r.line + F.dl, level := i, isBlank := isBlank l }]) :=
        hst.append { lineNum := sA2.r.line, level := i, isBlank := isBlank l }
      have hbl : isBlankLine (sA2.r.line + F.dl - 1) i
            (sb ++ [{ lineNum := sA2.r.line + F.dl, level := i, isBlank := isBlank l }]) =
          isBlankLine (sA2.r.line - 1) i (sa ++ [{ lineNum := sA2.r.line, level := i, isBlank := isBlank l }]) := by
        rw [show sA2.r.line + F.dl - 1 = (sA2.r.line - 1) + F.dl by omega]
        exact isBlankLine_shift hst' (sA2.r.line - 1) i (by omega) (by simp; omega)
      have hrest' : ∃ pre', openedBlocks = pre' ++ rest := ⟨pre ++ [be], by rw [hpre]; simp⟩
      refine (ll_body_p2 hP hNL hO hcl parent openedBlocks lastIndex be.bp be.node rest i sA2.r.line
        (sA2.r.line + F.dl) _ _ line0 hs1 hai1 hst' (by omega) hbl (hob be hmem) hline
        (hleaf pre be rest hpre) (hcont be.bp (hob be hmem))
        (fun sA' sB' h' hai' hline' hl0' hl' => ?_)).mono (fun x y sA' sB' hq => ll_LQ_mono (by simp) hq)
      exact (ih (i + 1) _ _ sA' sB' line0 hrest' h' hai' hline' hst' hl0' (by omega) (by simp; omega)).mono
        (fun x y sA' sB' hq => ll_LQ_mono (by omega) hq)

/-- what one pass of the `for i` loop over the opened blocks establishes -/
def LineQ (F : Frame) (b : Bytes) (Cov : BP → Prop) (sA : St) (rest : List Block)
    (x y : LineOutcome × List LineStat) (sA' sB' : St) : Prop :=
  y.1 = x.1 ∧ StatsRel F x.2 y.2 ∧ SRLim F b sA' sB' ∧ AI Cov sA' ∧ sA.r.line ≤ sA'.r.line ∧
    (x.1 = LineOutcome.next → rest ≠ [] → x.2 ≠ [])

theorem lineLoop_p2 (hP : PSim F b Cov) (_hF : F.OK) (hq : QNL F b) (hNL : NL b) (hO : OpenBlocksSim F b Cov)
    (hcl : ∀ bp, Cov bp → ∀ node s s' st, HL b s → bpContinue bp node s = .ok (st, s') → st.cont = false →
      HL b s')
    (parent : Nat) (openedBlocks : List Block) (lastIndex : Int) (hob : ∀ x ∈ openedBlocks, Cov x.bp)
    (hleaf : ∀ pre be rest, openedBlocks = pre ++ be :: rest → rest ≠ [] → be.bp.isContainer = true)
    (hcont : ∀ bp, Cov bp → bp.isContainer = true → ∀ node s s' (st : PState),
      bpContinue bp node s = .ok (st, s') → st.cont = true → st.hasChildren = true) :
    ∀ (rest : List Block) (i : Int) (sa sb : List LineStat) (sA sB : St),
      (∃ pre, openedBlocks = pre ++ rest) → SR F b sA sB → AI Cov sA → HL b sA → StatsRel F sa sb →
      1 ≤ sA.r.line → i ≤ (sa.length : Int) →
      P2 (LineQ F b Cov sA rest)
        (lineLoop parent openedBlocks lastIndex rest i sa sA)
        (lineLoop (F.ι parent) (openedBlocks.map (shB F)) lastIndex (rest.map (shB F)) i sb sB) := by
  intro rest i sa sb sA sB hrest h hai hl hst h1 hi
  refine (ll_lineLoop_p2 hP hq hNL hO hcl parent openedBlocks lastIndex hob hleaf hcont rest i sa sb sA sB sA.r.line hrest h hai hl
    hst
    (Int.le_refl _) h1 hi).mono (fun x y sA' sB' ⟨q1, q2, q3, q4, q5, q6⟩ => ⟨q1, q2, q3, q4, q5, fun e hne => ?_⟩)
  have hlen := q6 e
  have : 0 < rest.length := List.length_pos_iff.mpr hne
  intro hx
  have h0 : x.2.length = 0 := by rw [hx]; rfl
  omega

end GM.Blocks.Xs
