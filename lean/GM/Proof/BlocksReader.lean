/-
  GM.Proof.BlocksReader — the reader as the block phase uses it: total under the invariant `RI`.

  `RI src r c`: the reader `r` stands for the cursor `c` of GM.Spec.Cursor (C18's abstraction `RAbs`, taken
  modulo the cached `lineOffset`), its `head` is not negative, and the cached `lineOffset`, when there is one
  and the cursor is not at the end of the source, is the right one. (C18 leaves `LineOffset()` at the end of
  the source unspecified; `openBlocks` calls it there, so the cache may hold a stale value that nobody reads.)
  Every reader call of the block parsers is defined on an `RI` reader and ends in one — `Advance(n)` for
  `n ≥ 0`. Built on GM.Proof.Reader / GM.Proof.ReaderFuel (C18).
-/
import GM.Proof.BlocksLeaf
import GM.Proof.Reader
import GM.Proof.ReaderFuel

namespace GM.Blocks
open GM GM.Text GM.Spec GM.Proof.Reader

def clearLo (r : Reader) : Reader := { r with lineOffset := -1 }

/-- the value `LineOffset()` has at the cursor -/
def loVal (src : Bytes) (c : RCur) : Int := (colFrom (sub src (lineStart src c.p) c.p) 0 : Int) - c.pad

structure RI (src : Bytes) (r : Reader) (c : RCur) : Prop where
  abs : RAbs src (clearLo r) c
  head : 0 ≤ r.head
  lo : r.lineOffset < 0 ∨ src.length ≤ c.p ∨ r.lineOffset = loVal src c

theorem RAbs.toClearLo {src r c} (h : RAbs src r c) : RAbs src (clearLo r) c :=
  { source := h.source, line := h.line, pos := h.pos, inRange := h.inRange, head := h.head,
    peeked := h.peeked, lo := Or.inl (by simp [clearLo]) }

theorem RI.of_abs {src r c} (h : RAbs src r c) (hh : 0 ≤ r.head) : RI src r c :=
  ⟨RAbs.toClearLo h, hh, by
    rcases h.lo with h1 | ⟨h1, h2⟩
    · exact .inl h1
    · exact .inr (.inr h2)⟩

theorem RI.pos {src r c} (h : RI src r c) :
    r.pos = { start := c.p, stop := lineEnd src c.p, padding := c.pad, forceNewline := false } := h.abs.pos
theorem RI.source {src r c} (h : RI src r c) : r.source = src := h.abs.source
theorem RI.inRange {src r c} (h : RI src r c) : c.p ≤ src.length := h.abs.inRange

/-! ### PeekLine -/

theorem peekLine_clearLo (r : Reader) :
    (clearLo r).peekLine = r.peekLine.map (fun x => (x.1, clearLo x.2)) := by
  unfold Reader.peekLine clearLo Reader.sourceLength
  simp only
  split
  · rcases hp : r.peekedLine with _ | l
    · simp only
      cases r.pos.value r.source with
      | error e => rfl
      | ok v => rfl
    · simp [Except.map, pure, Except.pure, hp]
  · rfl

theorem peekLine_lineOffset (r : Reader) {x r'} (h : r.peekLine = .ok (x, r')) :
    r'.lineOffset = r.lineOffset ∧ r'.head = r.head := by
  unfold Reader.peekLine at h
  split at h
  · cases hp : r.peekedLine with
    | some l => rw [hp] at h; cases h; exact ⟨rfl, rfl⟩
    | none =>
      rw [hp] at h
      simp only [bind, Except.bind] at h
      cases hv : r.pos.value r.source with
      | error e => rw [hv] at h; cases h
      | ok v => rw [hv] at h; cases h; exact ⟨rfl, rfl⟩
  · cases h; exact ⟨rfl, rfl⟩

theorem ri_peekLine {src r c} (h : RI src r c) :
    ∃ r', r.peekLine = .ok ((RCur.view src c, RCur.seg src c), r') ∧ RI src r' c := by
  obtain ⟨r0, h1, h2⟩ := peekLine_ref h.abs
  rw [peekLine_clearLo] at h1
  cases hp : r.peekLine with
  | error e => rw [hp] at h1; cases h1
  | ok y =>
    rw [hp] at h1
    simp only [Except.map, Except.ok.injEq, Prod.mk.injEq] at h1
    obtain ⟨hx, hr⟩ := h1
    obtain ⟨hlo, hhd⟩ := peekLine_lineOffset r hp
    refine ⟨y.2, ?_, ?_⟩
    · have : y = (y.1, y.2) := rfl
      rw [this, hx]; rfl
    · refine ⟨by rw [hr]; exact h2, by rw [hhd]; exact h.head, by rw [hlo]; exact h.lo⟩

/-! ### LineOffset -/

theorem ri_lineOffset {src r c} (h : RI src r c) :
    ∃ v r', r.lineOffsetOp = .ok (v, r') ∧ RI src r' c ∧ (c.p < src.length → v = loVal src c) := by
  unfold Reader.lineOffsetOp
  by_cases hneg : r.lineOffset < 0
  · rw [if_pos hneg]
    have hpos : r.pos = _ := h.pos
    have hstart : r.pos.start = (c.p : Int) := by rw [hpos]
    have hpad : r.pos.padding = (c.pad : Int) := by rw [hpos]
    have hsrc := h.source
    by_cases hp : c.p < src.length
    · have hhead : r.head = (lineStart src c.p : Int) := h.abs.head hp
      have hcol := colLoop_ok src (lineStart_le src c.p) (Nat.le_of_lt hp)
      have hcol' : colLoop r.source r.head r.pos.start = .ok (colFrom (sub src (lineStart src c.p) c.p) 0) := by
        rw [hsrc, hhead, hstart]; exact hcol
      rw [hcol']
      simp only [bind, Except.bind, pure, Except.pure]
      refine ⟨_, _, rfl, ⟨h.abs, h.head, .inr (.inr ?_)⟩, fun _ => ?_⟩
      · simp only [loVal, hpad]
      · simp only [loVal, hpad]
    · have hge : src.length ≤ c.p := Nat.le_of_not_lt hp
      have hcl : ∃ v, colLoop r.source r.head r.pos.start = .ok v := by
        unfold colLoop
        by_cases hc : r.head ≥ r.pos.start
        · exact ⟨0, by rw [if_pos hc]⟩
        · rw [if_neg hc]
          have : ¬ (r.head < 0 ∨ r.pos.start > (r.source.length : Int)) := by
            have := h.head; have := h.inRange; rw [hstart, hsrc]; omega
          rw [if_neg this]; exact ⟨_, rfl⟩
      obtain ⟨v, hv⟩ := hcl
      rw [hv]
      simp only [bind, Except.bind, pure, Except.pure]
      exact ⟨_, _, rfl, ⟨h.abs, h.head, .inr (.inl hge)⟩, fun hlt => absurd hlt hp⟩
  · rw [if_neg hneg]
    refine ⟨_, _, rfl, h, fun hlt => ?_⟩
    rcases h.lo with h1 | h1 | h1
    · exact absurd h1 hneg
    · omega
    · exact h1

/-! ### Advance -/

/-- `head` and `pos.Stop` stay non-negative -/
structure HeadR (r : Reader) : Prop where
  head : 0 ≤ r.head
  stop : 0 ≤ r.pos.stop

theorem HeadR.advanceLine {r} (h : HeadR r) : HeadR r.advanceLine := by
  unfold Reader.advanceLine
  simp only
  have hn : ¬ (r.pos.stop < 0) := by have := h.stop; omega
  rw [if_neg hn]
  exact ⟨h.stop, by simp only; omega⟩

theorem HeadR.advanceLoop (n : Nat) : ∀ {r : Reader}, HeadR r → GoodE HeadR (r.advanceLoop n) := by
  induction n with
  | zero => intro r h; unfold Reader.advanceLoop; exact GoodE.pure h
  | succ n ih =>
    intro r h
    unfold Reader.advanceLoop
    refine GoodE.ite (fun _ => ?_) (fun _ => GoodE.pure h)
    refine GoodE.ite (fun _ => ih ⟨h.head, h.stop⟩) (fun _ => ?_)
    refine GoodE.bind (GoodE.of_noLoop (getByte_noLoop _ _)) (fun c _ => ?_)
    exact GoodE.ite (fun _ => ih h.advanceLine) (fun _ => ih ⟨h.head, h.stop⟩)

theorem HeadR.advance {r} (n : Int) (h : HeadR r) : GoodE HeadR (r.advance n) := by
  unfold Reader.advance
  simp only
  exact GoodE.ite (fun _ => GoodE.pure ⟨h.head, h.stop⟩) (fun _ => HeadR.advanceLoop _ ⟨h.head, h.stop⟩)

theorem RI.headR {src r c} (h : RI src r c) : HeadR r :=
  ⟨h.head, by rw [h.pos]; simp⟩

theorem advance_clearLo (r : Reader) (n : Int) : (clearLo r).advance n = r.advance n := rfl

theorem ri_advance {src r c} (h : RI src r c) {n : Int} (hn : 0 ≤ n) :
    ∃ r', r.advance n = .ok r' ∧ RI src r' (RCur.advN src n.toNat c) := by
  have hs : RCur.advance src n c = .ok (RCur.advN src n.toNat c) := by simp [RCur.advance, hn]
  obtain ⟨r', h1, h2⟩ := advance_ref h.abs hs
  rw [advance_clearLo] at h1
  exact ⟨r', h1, RI.of_abs h2 ((h.headR.advance n).ok r' h1).head⟩

theorem ri_advanceLine {src r c} (h : RI src r c) : RI src r.advanceLine (RCur.advanceLine src c) := by
  have h2 := advanceLine_ref h.abs
  have e : (clearLo r).advanceLine = r.advanceLine := rfl
  rw [e] at h2
  exact RI.of_abs h2 h.headR.advanceLine.head

theorem ri_setPadding {src r c} (h : RI src r c) {v : Int} (hv : 0 ≤ v) :
    RI src (r.setPadding v) { c with pad := v.toNat } := by
  have hs : RCur.setPadding v c = .ok { c with pad := v.toNat } := by simp [RCur.setPadding, hv]
  have h2 := setPadding_ref h.abs hs
  have e : (clearLo r).setPadding v = r.setPadding v := rfl
  rw [e] at h2
  exact RI.of_abs h2 h.head

/-- the cursor after `AdvanceAndSetPadding(n, p)` -/
def advPadCur (src : Bytes) (n p : Int) (c : RCur) : RCur :=
  let c1 := RCur.advN src n.toNat c
  if p > c1.pad then { c1 with pad := p.toNat } else c1

theorem ri_advanceAndSetPadding {src r c} (h : RI src r c) {n : Int} (hn : 0 ≤ n) (p : Int) :
    ∃ r', r.advanceAndSetPadding n p = .ok r' ∧ RI src r' (advPadCur src n p c) := by
  obtain ⟨r1, h1, h2⟩ := ri_advance h hn
  unfold Reader.advanceAndSetPadding advPadCur
  rw [h1]
  simp only [bind, Except.bind, pure, Except.pure]
  have hpad : r1.pos.padding = ((RCur.advN src n.toNat c).pad : Int) := by rw [h2.pos]
  by_cases hc : p > r1.pos.padding
  · have hc' : p > ((RCur.advN src n.toNat c).pad : Int) := by rw [← hpad]; exact hc
    rw [if_pos hc, if_pos hc']
    exact ⟨_, rfl, ri_setPadding h2 (by omega)⟩
  · have hc' : ¬ p > ((RCur.advN src n.toNat c).pad : Int) := by rw [← hpad]; exact hc
    rw [if_neg hc, if_neg hc']
    exact ⟨_, rfl, h2⟩

theorem ri_init (src : Bytes) : RI src (Reader.new src) RCur.init :=
  RI.of_abs (reader_init src) (by
    have := (stopR_zero src)
    show 0 ≤ (Reader.new src).head
    rw [reader_new_eq]; unfold Reader.advanceLine readerZero; simp)

end GM.Blocks
