/-
  GM.Proof.CMFrag12Code — stage 12 (indented code blocks): code_block.go on the lines of a fragment document, as
  equations on explicit states: `codeOpen` on a line indented by four spaces (nothing open, or a leaf block open that
  closes on this line), `codeContinue` on a further indented line / on a blank line (appended) / on an unindented text
  line (declines: the block will be closed), `codeClose` (the trailing blank lines are removed again).
-/
import GM.Proof.CMFrag6Abut

namespace GM.Proof.CMFrag
open GM GM.Text GM.Blocks GM.Spec

theorem space_facts : ∀ c : UInt8, isSpace c = false → (c == 32) = false ∧ (c == 9) = false ∧ (c == 10) = false :=
  GM.forall_uint8 _ (by decide +kernel)

/-- behind four columns of indentation only the code block parser is asked -/
def skipInd (bps : List BP) : List BP := bps.dropWhile fun bp => !bp.canAcceptIndentedLine

theorem skipInd_triggered : ∀ c : UInt8, skipInd ((triggered c).getD freeParsers) = [.code, .paragraph] :=
  GM.forall_uint8 _ (by decide +kernel)

theorem try_skipInd (parent : Nat) (blank cont : Bool) (result : OpenResult) (lastBlock : Option Block) (s : St) :
    ∀ bps : List BP, tryParsersT pts parent blank cont 4 bps result lastBlock s =
      tryParsersT pts parent blank cont 4 (skipInd bps) result lastBlock s := by
  intro bps
  induction bps with
  | nil => rfl
  | cons bp bps ih =>
    cases h : bp.canAcceptIndentedLine with
    | true => simp [skipInd, List.dropWhile, h]
    | false =>
      have e : skipInd (bp :: bps) = skipInd bps := by simp [skipInd, List.dropWhile, h]
      rw [e, ← ih, tryParsersT]
      by_cases hc : (cont && result == .noBlocksOpened && !bp.canInterruptParagraph) = true
      · simp [hc]
      · simp [hc, h]

theorem sub_shift {src : Bytes} {p e : Nat} {a w : Bytes} (h : sub src p e = a ++ w) :
    sub src (p + a.length) e = w := by
  unfold sub at *
  have e1 : List.drop (p + a.length) src = List.drop a.length (List.drop p src) := by
    rw [List.drop_drop]
  have e2 : e - (p + a.length) = (e - p) - a.length := by omega
  rw [e1, e2, ← List.drop_take, h]
  simp

section code
variable {src : Bytes} {p e : Nat} {v : Bytes} {c : UInt8} {t : Bytes}

theorem ic_indent (hc : isSpace c = false) : indentPosition (ind4 ++ c :: t) 0 4 = (4, 0) := by
  obtain ⟨h32, h9, _⟩ := space_facts c hc
  simp [indentPosition, indentPositionPadding, ippLoop, ind4, h32, h9]

theorem ic_width (hc : isSpace c = false) : indentWidthI (ind4 ++ c :: t) 0 = (4, 4) := by
  obtain ⟨h32, h9, _⟩ := space_facts c hc
  unfold GM.Blocks.indentWidthI
  simp [GM.Blocks.indentWidthGo, ind4, h32, h9]

theorem ic_notBlank (hc : isSpace c = false) : isBlank (ind4 ++ c :: t) = false := by
  simp [isBlank, ind4, hc]

/-- the common tail of Open / Continue on a line indented by four spaces: the rest of the line is appended -/
theorem codeTake_ic (hl : Ln src p e v) (hv : v = ind4 ++ c :: t) (k : Int) (lo : Int) (d : Blocks.Node)
    (rest : List Blocks.Node) (x : Blocks.Node) (pc : Ctx) :
    codeTakeLine (rest.length + 1) 4 0 ⟨rdr src k p p e (some v) lo, d :: (rest ++ [x]), pc⟩ =
      .ok ((), ⟨rdr src k p (e - 1) e none (-1),
        d :: (rest ++ [{ x with lines := x.lines ++ [csg (p + 4) e], linesNil := false }]), pc⟩) := by
  have hlen := hl.len
  have hlt := hl.lt
  have hle := hl.le
  have hvl : v.length = t.length + 5 := by rw [hv]; simp [ind4]
  have hsub : sub src (p + 4) e = c :: t := by
    have := sub_shift (src := src) (p := p) (e := e) (a := ind4) (w := c :: t) (by rw [hl.sub, hv])
    simpa [ind4] using this
  unfold codeTakeLine
  simp only [bind_apply]
  rw [stAdvancePad_fast (m := 4) (by rfl) (by omega)]
  simp only [peekLine_fresh hsub (by omega) (by omega) hle]
  have hpad : ((sg (p + 4) e).padding != 0) = false := rfl
  simp only [hpad, Bool.false_eq_true, if_false, pure_apply, bind_apply, appendLine, modNode_run, getD_last, set_last]
  rw [stAdvance_fast (m := e - p - 5) (by simp [Segment.len, sg]; omega) (by simp; omega)]
  have e3 : p + 4 + (e - p - 5) = e - 1 := by omega
  simp [sg, csg, e3]

/-- codeBlockParser.Open on a line indented by four spaces (already peeked) -/
theorem codeOpen_ic (hl : Ln src p e v) (hv : v = ind4 ++ c :: t) (hc : isSpace c = false) (k : Int) (d : Blocks.Node)
    (rest' : List Blocks.Node) (pc : Ctx) (parent : Nat) :
    codeOpen parent ⟨rdr src k p p e (some v) 0, d :: rest', pc⟩ =
      .ok ((some (rest'.length + 1), stNoChildren),
        ⟨rdr src k p (e - 1) e none (-1),
          d :: (rest' ++ [{ kind := .codeBlock, lines := [csg (p + 4) e], linesNil := false }]), pc⟩) := by
  have hp : p < src.length := by have := hl.le; have := hl.lt; omega
  have hi : indentPosition v 0 4 = (4, 0) := by rw [hv]; exact ic_indent hc
  have hb : isBlank v = false := by rw [hv]; exact ic_notBlank hc
  unfold codeOpen
  simp only [bind_apply, peekLine_cached hp, lineOffset_cached, Option.getD_some, hi, hb, newNode_run]
  simp only [show ¬ ((4 : Int) < 0) from by decide, decide_false, Bool.or_self, Bool.false_eq_true, if_false, bind_apply,
    newNode_run, List.cons_append, List.length_cons]
  rw [codeTake_ic hl hv k 0 d rest' { kind := .codeBlock } pc]
  simp [pure_apply]

/-- `LineOffset()` at the start of a line, whatever the cache -/
theorem lineOffset_start (src k p e pk nodes pc) (lo : Int) (hlo : lo = -1 ∨ lo = 0) :
    lineOffset ⟨rdr src k p p e pk lo, nodes, pc⟩ = .ok (0, ⟨rdr src k p p e pk 0, nodes, pc⟩) := by
  rcases hlo with h | h <;> subst h
  · exact lineOffset_fresh ..
  · exact lineOffset_cached ..

/-- from the parser loop to `openBlocks`, with one block (node `x` at index `pi`) open; the line is indented by
    `w` columns / `pos` bytes -/
theorem openBlocks12_of_try (hl : Ln src p e v) (w : Int) (posN : Nat) (hposlt : posN < v.length)
    (c00 c0 : UInt8) (hidx0 : idx v 0 = .ok c00) (h10 : (c00 == 10) = false) (hidx : idx v (posN : Int) = .ok c0)
    (hiw : indentWidthI v 0 = (w, (posN : Int))) (k : Int) (nodes : List Blocks.Node) (pi : Nat) (x : Blocks.Node)
    (hx : nodes.getD pi default = x) (pbp : BP) (pc : Ctx) (hop : pc.opened = [{ node := pi, bp := pbp }]) (blank : Bool)
    (pk : Option Bytes) (hpk : pk = none ∨ pk = some v) (lo : Int) (hlo : lo = -1 ∨ lo = 0) (S' : St)
    (htry : tryParsersT pts 0 blank (x.kind == .paragraph) w ((triggered c0).getD freeParsers) .noBlocksOpened
        (some { node := pi, bp := pbp })
        ⟨rdr src k p p e (some v) 0, nodes, { pc with blockOffset := (posN : Int), blockIndent := w }⟩ =
      .ok ((.done, .newBlocksOpened, some { node := pi, bp := pbp }), S')) :
    openBlocksT pts 0 blank ⟨rdr src k p p e pk lo, nodes, pc⟩ = .ok (.newBlocksOpened, S') := by
  have hp : p < src.length := by have := hl.le; have := hl.lt; omega
  have hpeek : ∀ nodes pc', peekLine ⟨rdr src k p p e pk lo, nodes, pc'⟩ =
      .ok ((some v, sg p e), ⟨rdr src k p p e (some v) lo, nodes, pc'⟩) := by
    intro nodes pc'
    rcases hpk with h | h
    · subst h; exact peekLine_fresh hl.sub hp (Nat.le_of_lt hl.lt) hl.le ..
    · subst h; exact peekLine_cached hp ..
  have hlen : ¬ (((posN : Nat) : Int) ≥ (v.length : Int)) := by omega
  have hlen' : ((posN : Nat) : Int) < (v.length : Int) := by omega
  unfold openBlocksT
  simp only [bind_apply, lastOpenedBlock_run, hop, List.getLast?_singleton, pure_apply, source_run, retryFuel, getNode_run, hx]
  rw [openBlocksLoopT]
  simp only [bind_apply, hpeek, Option.getD_some, lineOffset_start _ _ _ _ _ _ _ lo hlo, hiw]
  simp only [modPc_run, hlen, if_false, Option.isNone_some, Bool.false_eq_true, bind_apply, hidx0, hidx, liftE_ok, h10, hlen',
    if_true, pure_apply]
  unfold retryStepT
  simp only [bind_apply, get_run, htry]
  simp [toContinuable, pure_apply]

/-- a line indented by four spaces behind a leaf block that closes on this line: a CodeBlock is opened -/
theorem try6_ic (hl : Ln src p e v) (hv : v = ind4 ++ c :: t) (hc : isSpace c = false)
    (k : Int) (d : Blocks.Node) (rest' : List Blocks.Node) (pi : Nat) (x : Blocks.Node)
    (hx : ∀ d' tail, (d' :: (rest' ++ tail)).getD pi default = x) (hxp : x.parent = some 0)
    (pbp : BP) (pc' : Ctx) (hop : pc'.opened = [{ node := pi, bp := pbp }]) (blank : Bool) :
    tryParsersT pts 0 blank false 4 ((triggered c).getD freeParsers) .noBlocksOpened (some { node := pi, bp := pbp })
        ⟨rdr src k p p e (some v) 0, d :: rest', pc'⟩ =
      .ok ((.done, .newBlocksOpened, some { node := pi, bp := pbp }),
        ⟨rdr src k p (e - 1) e none (-1),
          { d with children := d.children ++ [rest'.length + 1] } :: (rest' ++ [codeN [csg (p + 4) e] blank]),
          { pc' with opened := [{ node := pi, bp := pbp }, { node := rest'.length + 1, bp := .code }] }⟩) := by
  have hx' : ∀ d' tail, ((d' :: (rest' ++ tail))[pi]?.getD default) = x := by
    intro d' tail; rw [← List.getD_eq_getElem?_getD]; exact hx d' tail
  rw [try_skipInd, skipInd_triggered, tryParsersT]
  simp [bind_apply, lastOpenedBlock_run, hop, bpOpen, codeOpen_ic hl hv hc, BP.canAcceptIndentedLine,
    pure_apply, stNoChildren, modNode_run, appendChild, ensureIsolated, getNode_run, codeN]
  simp [hx', hxp, bind_apply, getNode_run, modNode_run, map_apply, modPc_run, pure_apply, hop]

/-- the parser loop on a line indented by four spaces with nothing open -/
theorem try_ic (hl : Ln src p e v) (hv : v = ind4 ++ c :: t) (hc : isSpace c = false)
    (k : Int) (d : Blocks.Node) (rest : List Blocks.Node) (pc : Ctx) (hop : pc.opened = []) (blank : Bool) :
    tryParsersT pts 0 blank false 4 ((triggered c).getD freeParsers) .noBlocksOpened none
        ⟨rdr src k p p e (some v) 0, d :: rest, pc⟩ =
      .ok ((.done, .newBlocksOpened, none),
        ⟨rdr src k p (e - 1) e none (-1),
          { d with children := d.children ++ [rest.length + 1] } :: (rest ++ [codeN [csg (p + 4) e] blank]),
          { pc with opened := [{ node := rest.length + 1, bp := .code }] }⟩) := by
  rw [try_skipInd, skipInd_triggered, tryParsersT]
  simp [bind_apply, lastOpenedBlock_run, hop, bpOpen, codeOpen_ic hl hv hc, BP.canAcceptIndentedLine,
    pure_apply, stNoChildren, modNode_run, appendChild, ensureIsolated, getNode_run, modPc_run, codeN]
  simp [map_apply, modPc_run, hop]

/-- openBlocks on a line indented by four spaces with nothing open -/
theorem openBlocks_ic (hl : Ln src p e v) (hv : v = ind4 ++ c :: t) (hc : isSpace c = false) (k : Int)
    (d : Blocks.Node) (rest : List Blocks.Node) (pc : Ctx) (hop : pc.opened = []) (blank : Bool) (pk : Option Bytes)
    (hpk : pk = none ∨ pk = some v) :
    openBlocksT pts 0 blank ⟨rdr src k p p e pk (-1), d :: rest, pc⟩ =
      .ok (.newBlocksOpened,
        ⟨rdr src k p (e - 1) e none (-1),
          { d with children := d.children ++ [rest.length + 1] } :: (rest ++ [codeN [csg (p + 4) e] blank]),
          { pc with blockOffset := 4, blockIndent := 4, opened := [{ node := rest.length + 1, bp := .code }] }⟩) := by
  have hp : p < src.length := by have := hl.le; have := hl.lt; omega
  have hiw : indentWidthI v 0 = (4, 4) := by rw [hv]; exact ic_width hc
  have hpeek : ∀ nodes pc', peekLine ⟨rdr src k p p e pk (-1), nodes, pc'⟩ =
      .ok ((some v, sg p e), ⟨rdr src k p p e (some v) (-1), nodes, pc'⟩) := by
    intro nodes pc'
    rcases hpk with h | h
    · subst h; exact peekLine_fresh hl.sub hp (Nat.le_of_lt hl.lt) hl.le ..
    · subst h; exact peekLine_cached hp ..
  have hvl : v.length = t.length + 5 := by rw [hv]; simp [ind4]
  have hlen : ¬ ((4 : Int) ≥ (v.length : Int)) := by omega
  have hlen' : (4 : Int) < (v.length : Int) := by omega
  have hidx0 : idx v 0 = .ok 32 := by rw [hv]; rfl
  have hidx : idx v 4 = .ok c := by rw [hv]; rfl
  unfold openBlocksT
  simp only [bind_apply, lastOpenedBlock_run, hop, List.getLast?_nil, pure_apply, source_run, retryFuel]
  rw [openBlocksLoopT]
  simp only [bind_apply, hpeek, Option.getD_some, lineOffset_fresh, hiw]
  simp only [modPc_run, hlen, if_false, Option.isNone_some, Bool.false_eq_true, bind_apply, hidx0, hidx, liftE_ok, hlen',
    if_true, pure_apply, show ((32 : UInt8) == 10) = false from by decide]
  unfold retryStepT
  simp only [bind_apply, get_run, try_ic hl hv hc k d rest { pc with blockOffset := 4, blockIndent := 4 } hop blank]
  simp [toContinuable, pure_apply]

/-- codeBlockParser.Continue on a further line indented by four spaces (already peeked) -/
theorem codeContinue_ic (hl : Ln src p e v) (hv : v = ind4 ++ c :: t) (hc : isSpace c = false) (k : Int) (d : Blocks.Node)
    (rest : List Blocks.Node) (lines : List Segment) (b : Bool) (pc : Ctx) :
    codeContinue (rest.length + 1) ⟨rdr src k p p e (some v) (-1), d :: (rest ++ [codeN lines b]), pc⟩ =
      .ok (stContinueNoChildren,
        ⟨rdr src k p (e - 1) e none (-1), d :: (rest ++ [codeN (lines ++ [csg (p + 4) e]) b]), pc⟩) := by
  have hp : p < src.length := by have := hl.le; have := hl.lt; omega
  have hi : indentPosition v 0 4 = (4, 0) := by rw [hv]; exact ic_indent hc
  have hb : isBlank v = false := by rw [hv]; exact ic_notBlank hc
  unfold codeContinue
  simp only [bind_apply, peekLine_cached hp, Option.getD_some, hb, Bool.false_eq_true, if_false, lineOffset_fresh, hi]
  simp only [show ¬ ((4 : Int) < 0) from by decide, if_false, bind_apply]
  rw [codeTake_ic hl hv k 0 d rest (codeN lines b) pc]
  simp [pure_apply, codeN]

/-- codeBlockParser.Continue on a text line that is not indented: the block ends -/
theorem codeContinue_other (hl : Ln src p e v) (hv : v = c :: t) (hc : isSpace c = false) (k : Int)
    (nodes : List Blocks.Node) (pc : Ctx) (node : Nat) :
    codeContinue node ⟨rdr src k p p e (some v) (-1), nodes, pc⟩ =
      .ok (stClose, ⟨rdr src k p p e (some v) 0, nodes, pc⟩) := by
  obtain ⟨h32, h9, _⟩ := space_facts c hc
  have hp : p < src.length := by have := hl.le; have := hl.lt; omega
  have hi : indentPosition v 0 4 = (-1, -1) := by
    subst hv
    simp [indentPosition, indentPositionPadding, ippLoop, h9, h32]
  have hb : isBlank v = false := by subst hv; simp [isBlank, hc]
  unfold codeContinue
  simp only [bind_apply, peekLine_cached hp, Option.getD_some, hb, Bool.false_eq_true, if_false, lineOffset_fresh, hi]
  simp [pure_apply]

/-- codeBlockParser.Continue on a blank line: the line is appended -/
theorem codeContinue_blank {q : Nat} (hl : Ln src q (q + 1) [10]) (k : Int) (d : Blocks.Node)
    (rest : List Blocks.Node) (lines : List Segment) (b : Bool) (pc : Ctx) :
    codeContinue (rest.length + 1) ⟨rdr src k q q (q + 1) (some [10]) (-1), d :: (rest ++ [codeN lines b]), pc⟩ =
      .ok (stContinueNoChildren,
        ⟨rdr src k q q (q + 1) (some [10]) (-1), d :: (rest ++ [codeN (lines ++ [sg q (q + 1)]) b]), pc⟩) := by
  have hp : q < src.length := by have := hl.le; omega
  have hle := hl.le
  have hb : isBlank [10] = true := by decide
  have c2 : (0 ≤ (q : Int) ∧ (q : Int) ≤ ((q : Int) + 1) ∧ ((q : Int) + 1) ≤ (src.length : Int)) := by omega
  have hsub : sub src q (q + 1) = [10] := hl.sub
  have htl : (sg q (q + 1)).trimLeftSpaceWidth 4 src = .ok (sg q (q + 1)) := by
    simp [Segment.trimLeftSpaceWidth, tlswPad, sg, sliceB, c2, hsub, tlswLoop, bind, Except.bind, pure, Except.pure]
  unfold codeContinue
  simp only [bind_apply, peekLine_cached hp, Option.getD_some, hb, if_true, source_run, rdr_source, htl, liftE_ok,
    appendLine, modNode_run, getD_last, set_last]
  simp [pure_apply, codeN]

end code

/-! ### Close: the trailing blank lines are removed -/

/-- the value of the segment is a blank / a non-blank line -/
def BlankSeg (src : Bytes) (s : Segment) : Prop := ∃ v, s.value src = .ok v ∧ isBlank v = true
def FullSeg (src : Bytes) (s : Segment) : Prop := ∃ v, s.value src = .ok v ∧ isBlank v = false

theorem lineAt_mid (A : List Segment) (s : Segment) (B : List Segment) :
    lineAt (A ++ [s] ++ B) (A.length : Int) = .ok s := by
  have c : ¬ ((A.length : Int) < 0) := by omega
  simp [lineAt, segAt, c]

theorem codeTrim_blanks (src : Bytes) (A : List Segment) (s : Segment) (hs : FullSeg src s) :
    ∀ (n : Nat) (B : List Segment), B.length = n → (∀ t ∈ B, BlankSeg src t) →
      codeTrimLoop src (A ++ [s] ++ B) (A.length + 1 + n) = .ok (A.length : Int) := by
  intro n
  induction n with
  | zero =>
    intro B hB _
    have : B = [] := List.eq_nil_of_length_eq_zero hB
    subst this
    obtain ⟨v, hv, hb⟩ := hs
    have := lineAt_mid A s []
    simp only [List.append_nil] at this ⊢
    simp only [codeTrimLoop, Nat.add_zero, this, hv, hb, bind, Except.bind, pure, Except.pure]
    simp
  | succ n ih =>
    intro B hB hall
    obtain ⟨B', t, rfl⟩ : ∃ B' t, B = B' ++ [t] := by
      cases h : B.reverse with
      | nil => simp at h; subst h; simp at hB
      | cons t r => exact ⟨r.reverse, t, by rw [← List.reverse_reverse B, h]; simp⟩
    have hB' : B'.length = n := by simp at hB; omega
    obtain ⟨v, hv, hb⟩ := hall t (by simp)
    have e1 : A.length + 1 + (n + 1) = (A.length + 1 + n) + 1 := by omega
    have hat : lineAt (A ++ [s] ++ (B' ++ [t])) ((A.length + 1 + n : Nat) : Int) = .ok t := by
      have c : ¬ (((A.length + 1 + n : Nat) : Int) < 0) := by omega
      have e2 : A ++ [s] ++ (B' ++ [t]) = (A ++ [s] ++ B') ++ [t] := by simp
      have e3 : (A ++ [s] ++ B').length = A.length + 1 + n := by simp [hB']; omega
      simp only [lineAt, segAt, c, if_false, Int.toNat_natCast, e2]
      rw [List.getElem?_append_right (by omega), e3]
      simp
    rw [e1, codeTrimLoop]
    simp only [hat, hv, hb, bind, Except.bind, if_true]
    have e4 : A ++ [s] ++ (B' ++ [t]) = (A ++ [s] ++ B') ++ [t] := by simp
    have := ih B' hB' (fun u hu => hall u (by simp [hu]))
    -- the loop below index `A.length + 1 + n` never looks at the last segment
    have hmono : ∀ (m : Nat), m ≤ A.length + 1 + n →
        codeTrimLoop src ((A ++ [s] ++ B') ++ [t]) m = codeTrimLoop src (A ++ [s] ++ B') m := by
      intro m
      induction m with
      | zero => intro _; rfl
      | succ m ihm =>
        intro hm
        have e3 : (A ++ [s] ++ B').length = A.length + 1 + n := by simp [hB']; omega
        have c : ¬ (((m : Nat) : Int) < 0) := by omega
        have hl : lineAt ((A ++ [s] ++ B') ++ [t]) (m : Int) = lineAt (A ++ [s] ++ B') (m : Int) := by
          simp only [lineAt, segAt, c, if_false, Int.toNat_natCast]
          rw [List.getElem?_append_left (by omega)]
        simp only [codeTrimLoop, hl, ihm (by omega)]
    rw [e4, hmono _ (Nat.le_refl _)]
    exact this

/-- codeBlockParser.Close on a CodeBlock whose last lines `B` are blank -/
theorem codeClose_at {src : Bytes} (r : Reader) (hr : r.source = src) (nodes : List Blocks.Node) (pi : Nat)
    (A : List Segment) (s : Segment) (B : List Segment) (b : Bool)
    (hx : nodes.getD pi default = codeN (A ++ [s] ++ B) b) (hs : FullSeg src s) (hB : ∀ t ∈ B, BlankSeg src t) (pc : Ctx) :
    codeClose pi ⟨r, nodes, pc⟩ = .ok ((), ⟨r, nodes.set pi (codeN (A ++ [s]) b), pc⟩) := by
  have ht := codeTrim_blanks src A s hs B.length B rfl hB
  have el : (A ++ [s] ++ B).length = A.length + 1 + B.length := by simp; omega
  unfold codeClose
  simp only [bind_apply, getNode_run, hx, source_run, hr, codeN, el, ht, liftE_ok, Bool.false_and, Bool.false_eq_true,
    if_false, modNode_run, pure_apply]
  have e1 : ((A.length : Int) + 1).toNat = A.length + 1 := by omega
  have e2 : List.take (A.length + 1) (A ++ s :: B) = A ++ [s] := by
    have : A ++ s :: B = (A ++ [s]) ++ B := by simp
    rw [this, List.take_left' (by simp)]
  simp [e1, e2]

/-- closeBlocks(0, 0) with the CodeBlock the only opened block -/
theorem closeBlocks_code {src : Bytes} (r : Reader) (hr : r.source = src) (d : Blocks.Node) (rest : List Blocks.Node)
    (A : List Segment) (s : Segment) (B : List Segment) (b : Bool) (hs : FullSeg src s) (hB : ∀ t ∈ B, BlankSeg src t)
    (pc : Ctx) (hop : pc.opened = [{ node := rest.length + 1, bp := .code }]) :
    closeBlocksT pts 0 0 ⟨r, d :: (rest ++ [codeN (A ++ [s] ++ B) b]), pc⟩ =
      .ok ((), ⟨r, d :: (rest ++ [codeN (A ++ [s]) b]), { pc with opened := [] }⟩) := by
  have hc := codeClose_at r hr (d :: (rest ++ [codeN (A ++ [s] ++ B) b])) (rest.length + 1) A s B b
    (getD_last ..) hs hB pc
  unfold closeBlocksT
  simp only [bind_apply, getPc_run, hop]
  have e1 : ((0 : Int) - 0 + 1).toNat = 1 := by decide
  rw [e1, closeLoopT, closeLoopT]
  have e2 : ∀ blk : Block, blockAt [blk] (0 + ((0 : Nat) : Int)) = .ok blk := by intro blk; simp [blockAt]
  have hk' : ((codeN (A ++ [s] ++ B) b).kind == .paragraph) = false := rfl
  have hpar : (codeN (A ++ [s] ++ B) b).parent = some 0 := rfl
  simp only [bind_apply, e2, liftE_ok, getNode_run, getD_last, hk', hpar, Bool.false_and, Bool.false_eq_true, if_false,
    pure_apply, Option.isSome_some, if_true, bpClose, hc, set_last]
  simp [closeBlocks.slice', liftE_ok, bind_apply, modPc_run, pure_apply]

/-- closeBlocks(0, 0) with two opened blocks, the first the CodeBlock -/
theorem closeBlocks6_code {src : Bytes} (r : Reader) (hr : r.source = src) (nodes : List Blocks.Node) (pi : Nat)
    (A : List Segment) (s : Segment) (B : List Segment) (b : Bool)
    (hx : nodes.getD pi default = codeN (A ++ [s] ++ B) b) (hs : FullSeg src s) (hB : ∀ t ∈ B, BlankSeg src t)
    (nblk : Block) (pc : Ctx) (hop : pc.opened = [{ node := pi, bp := .code }, nblk]) :
    closeBlocksT pts 0 0 ⟨r, nodes, pc⟩ =
      .ok ((), ⟨r, nodes.set pi (codeN (A ++ [s]) b), { pc with opened := [nblk] }⟩) := by
  have hc := codeClose_at r hr nodes pi A s B b hx hs hB pc
  unfold closeBlocksT
  simp only [bind_apply, getPc_run, hop]
  have e1 : ((0 : Int) - 0 + 1).toNat = 1 := by decide
  rw [e1, closeLoopT, closeLoopT]
  have hk' : ((codeN (A ++ [s] ++ B) b).kind == .paragraph) = false := rfl
  have hpar : (codeN (A ++ [s] ++ B) b).parent = some 0 := rfl
  simp only [bind_apply, blockAt2, liftE_ok, getNode_run, hx, hk', hpar, Bool.false_and, Bool.false_eq_true, if_false,
    pure_apply, Option.isSome_some, if_true, bpClose, hc]
  have hs2 := slice2 { node := pi, bp := .code } nblk
  simp [hs2.1, closeBlocks.slice', liftE_ok, bind_apply, modPc_run, pure_apply]

theorem seg_value12 (src : Bytes) (p e : Nat) (v : Bytes) (hsub : sub src p e = v) (hpe : p ≤ e)
    (he : e ≤ src.length) (hnn : v.getLast? = some 10) : (csg p e).value src = .ok v := by
  have c2 : (0 ≤ (p : Int) ∧ (p : Int) ≤ (e : Int) ∧ (e : Int) ≤ (src.length : Int)) := by omega
  simp [csg, Segment.value, sliceB, c2, needsNewline, hsub, hnn, bind, Except.bind, pure, Except.pure]

/-! ### the segments of an indented code block and of the blank lines behind it -/

section segs
variable {src : Bytes}

theorem blankSeg_of {q : Nat} (hl : Ln src q (q + 1) [10]) : BlankSeg src (sg q (q + 1)) := by
  have hle := hl.le
  have c2 : (0 ≤ (q : Int) ∧ (q : Int) ≤ ((q : Int) + 1) ∧ ((q : Int) + 1) ≤ (src.length : Int)) := by omega
  have hsub : sub src q (q + 1) = [10] := hl.sub
  refine ⟨[10], ?_, by decide⟩
  simp [Segment.value, sg, sliceB, c2, hsub, needsNewline, bind, Except.bind, pure, Except.pure]

theorem blankSegs_blank : ∀ (j q : Nat), BlanksAt src q j → ∀ t ∈ blankSegs q j, BlankSeg src t
  | 0, _, _, t, ht => by simp [blankSegs] at ht
  | j + 1, q, h, t, ht => by
    simp only [blankSegs, List.mem_cons] at ht
    rcases ht with rfl | ht
    · exact blankSeg_of h.1
    · exact blankSegs_blank j (q + 1) h.2 t ht

theorem blankSegs_snoc : ∀ (j q : Nat), blankSegs q (j + 1) = blankSegs q j ++ [sg (q + j) (q + j + 1)]
  | 0, q => by simp [blankSegs]
  | j + 1, q => by
    have ih := blankSegs_snoc j (q + 1)
    have e : q + 1 + j = q + (j + 1) := by omega
    rw [blankSegs, ih, e]; rfl

theorem blanksAt_snoc : ∀ (j q : Nat), BlanksAt src q j → Ln src (q + j) (q + j + 1) [10] → BlanksAt src q (j + 1)
  | 0, q, _, h => ⟨by simpa using h, trivial⟩
  | j + 1, q, hb, h => by
    have e : q + 1 + j = q + (j + 1) := by omega
    exact ⟨hb.1, blanksAt_snoc j (q + 1) hb.2 (by rw [e]; exact h)⟩

theorem fullSeg_ic {p : Nat} {l : Bytes} (hl : Ln src p (p + (ind4 ++ l).length + 1) ((ind4 ++ l) ++ [10])) (hg : IcLine l) :
    FullSeg src (csg (p + 4) (p + 4 + l.length + 1)) := by
  obtain ⟨c, t, rfl, hc⟩ := hg.first
  have hle := hl.le
  have hlen : (ind4 ++ c :: t).length = t.length + 5 := by simp [ind4]
  rw [hlen] at hl hle
  have hsub : sub src (p + 4) (p + (t.length + 5) + 1) = c :: (t ++ [10]) := by
    have := sub_shift (src := src) (p := p) (e := p + (t.length + 5) + 1) (a := ind4) (w := c :: (t ++ [10]))
      (by rw [hl.sub]; simp)
    simpa [ind4] using this
  have e : p + 4 + (c :: t).length + 1 = p + (t.length + 5) + 1 := by simp; omega
  rw [e]
  refine ⟨c :: (t ++ [10]), ?_, by simp [isBlank, hc]⟩
  exact seg_value12 src (p + 4) (p + (t.length + 5) + 1) (c :: (t ++ [10])) hsub (by omega) hle
    (by
      have : c :: (t ++ [10]) = (c :: t) ++ [10] := rfl
      rw [this, List.getLast?_append]; rfl)

theorem icsegs_split : ∀ (ls : List Bytes) (P : Nat), ls ≠ [] → ParaAt src P (icLines ls) → (∀ l ∈ ls, IcLine l) →
    ∃ A s, icsegs P ls = A ++ [s] ∧ FullSeg src s
  | [], _, h, _, _ => absurd rfl h
  | [l], P, _, hpa, hg => ⟨[], _, rfl, fullSeg_ic hpa.1 (hg l (by simp))⟩
  | l :: l' :: rest, P, _, hpa, hg => by
    have e : P + (ind4 ++ l).length + 1 = P + 4 + l.length + 1 := by simp [ind4]; omega
    obtain ⟨A, s, h1, h2⟩ := icsegs_split (l' :: rest) (P + 4 + l.length + 1) (by simp)
      (by have := hpa.2; rw [e] at this; exact this) (fun x hx => hg x (by simp [hx]))
    exact ⟨csg (P + 4) (P + 4 + l.length + 1) :: A, s, by rw [icsegs, h1]; rfl, h2⟩

theorem icLines_snoc_len (ls : List Bytes) (l : Bytes) :
    (paraBytes (icLines (ls ++ [l]))).length = (paraBytes (icLines ls)).length + 4 + l.length + 1 := by
  simp [icLines, paraBytes, ind4]; omega

theorem icsegs_append (p : Nat) (ls : List Bytes) (l : Bytes) :
    icsegs p (ls ++ [l]) = icsegs p ls ++
      [csg (p + (paraBytes (icLines ls)).length + 4) (p + (paraBytes (icLines ls)).length + 4 + l.length + 1)] := by
  induction ls generalizing p with
  | nil => simp [icsegs, paraBytes, icLines]
  | cons a rest ih =>
    have e : p + 4 + a.length + 1 + (paraBytes (icLines rest)).length = p + (paraBytes (icLines (a :: rest))).length := by
      simp [icLines, paraBytes, ind4]; omega
    simp only [List.cons_append, icsegs, ih, e]
end segs

/-! ### the per-line loop with the CodeBlock open -/

section codeLoop
variable {src : Bytes} {p e : Nat} {v : Bytes} {c : UInt8} {t : Bytes}

/-- a further line indented by four spaces -/
theorem lineLoop_code_cont (hl : Ln src p e v) (hv : v = ind4 ++ c :: t) (hc : isSpace c = false) (k : Int)
    (d : Blocks.Node) (rest : List Blocks.Node) (lines : List Segment) (b : Bool) (pc : Ctx)
    (bl : List LineStat) :
    lineLoopT pts 0 [{ node := rest.length + 1, bp := .code }] 0 [{ node := rest.length + 1, bp := .code }] 0 bl
        ⟨rdr src k p p e none (-1), d :: (rest ++ [codeN lines b]), pc⟩ =
      .ok ((.next, bl ++ [{ lineNum := k, level := 0, isBlank := isBlank v }]),
        ⟨rdr src k p (e - 1) e none (-1), d :: (rest ++ [codeN (lines ++ [csg (p + 4) e]) b]), pc⟩) := by
  have hp : p < src.length := by have := hl.le; have := hl.lt; omega
  have hk : ((codeN lines b).kind != .paragraph) = true := rfl
  rw [lineLoopT]
  simp only [bind_apply, peekLine_fresh hl.sub hp (Nat.le_of_lt hl.lt) hl.le, position_run, getNode_run, getD_last, hk,
    if_true, bpContinue, codeContinue_ic hl hv hc k d rest lines b pc]
  simp [stContinueNoChildren, lineLoopT, pure_apply]

/-- a blank line: it is appended, the block stays open -/
theorem lineLoop_code_blank {q : Nat} (hl : Ln src q (q + 1) [10]) (k : Int)
    (d : Blocks.Node) (rest : List Blocks.Node) (lines : List Segment) (b : Bool) (pc : Ctx) (bl : List LineStat) :
    lineLoopT pts 0 [{ node := rest.length + 1, bp := .code }] 0 [{ node := rest.length + 1, bp := .code }] 0 bl
        ⟨rdr src k q q (q + 1) none (-1), d :: (rest ++ [codeN lines b]), pc⟩ =
      .ok ((.next, bl ++ [{ lineNum := k, level := 0, isBlank := true }]),
        ⟨rdr src k q q (q + 1) (some [10]) (-1), d :: (rest ++ [codeN (lines ++ [sg q (q + 1)]) b]), pc⟩) := by
  have hp : q < src.length := by have := hl.le; omega
  have hk : ((codeN lines b).kind != .paragraph) = true := rfl
  have hib : isBlank [10] = true := by decide
  rw [lineLoopT]
  simp only [bind_apply, peekLine_fresh hl.sub hp (Nat.le_succ _) hl.le, position_run, getNode_run, getD_last, hk,
    if_true, bpContinue, codeContinue_blank hl k d rest lines b pc]
  simp [stContinueNoChildren, lineLoopT, pure_apply, hib]

/-- the end of the source: the block is closed, the blank lines behind it are removed -/
theorem lineLoop_code_eof (k : Int) (e : Nat) (d : Blocks.Node) (rest : List Blocks.Node)
    (A : List Segment) (s : Segment) (B : List Segment) (b : Bool) (hs : FullSeg src s) (hB : ∀ t ∈ B, BlankSeg src t)
    (pc : Ctx) (hop : pc.opened = [{ node := rest.length + 1, bp := .code }]) (bl : List LineStat) :
    lineLoopT pts 0 [{ node := rest.length + 1, bp := .code }] 0 [{ node := rest.length + 1, bp := .code }] 0 bl
        ⟨rdr src k src.length src.length e none (-1), d :: (rest ++ [codeN (A ++ [s] ++ B) b]), pc⟩ =
      .ok ((.eof, bl),
        ⟨rdr src (k + 1) e e (lineEnd src e) none (-1), d :: (rest ++ [codeN (A ++ [s]) b]),
          { pc with opened := [] }⟩) := by
  rw [lineLoopT]
  simp only [bind_apply, peekLine_eof (Nat.le_refl _),
    closeBlocks_code _ (rdr_source ..) d rest A s B b hs hB pc hop, advanceLine_run, pure_apply]

/-- the first line of a block directly behind the open CodeBlock (blank lines absorbed or not): the new block is
    opened, the CodeBlock is closed -/
theorem lineLoop6_code (hl : Ln src p e v) (hv : v = c :: t) (hc : isSpace c = false)
    (hiw : indentWidthI v 0 = (0, 0)) (k : Int) (d : Blocks.Node) (rest : List Blocks.Node)
    (A : List Segment) (s : Segment) (B : List Segment) (b : Bool) (hs : FullSeg src s) (hB : ∀ t ∈ B, BlankSeg src t)
    (pc : Ctx) (hop : pc.opened = [{ node := rest.length + 1, bp := .code }]) (bl : List LineStat) (nblk : Block)
    (S' : Bool → St)
    (hS'o : ∀ bk, (S' bk).pc.opened = [{ node := rest.length + 1, bp := .code }, nblk])
    (hS'x : ∀ bk, (S' bk).nodes.getD (rest.length + 1) default = codeN (A ++ [s] ++ B) b)
    (hS'r : ∀ bk, (S' bk).r.source = src)
    (htry : ∀ bk, tryParsersT pts 0 bk false 0 ((triggered c).getD freeParsers) .noBlocksOpened
        (some { node := rest.length + 1, bp := .code })
        ⟨rdr src k p p e (some v) 0, d :: (rest ++ [codeN (A ++ [s] ++ B) b]),
          { pc with blockOffset := 0, blockIndent := 0 }⟩ =
      .ok ((.done, .newBlocksOpened, some { node := rest.length + 1, bp := .code }), S' bk)) :
    ∃ bk, lineLoopT pts 0 [{ node := rest.length + 1, bp := .code }] 0 [{ node := rest.length + 1, bp := .code }] 0 bl
        ⟨rdr src k p p e none (-1), d :: (rest ++ [codeN (A ++ [s] ++ B) b]), pc⟩ =
      .ok ((.next, bl ++ [{ lineNum := k, level := 0, isBlank := isBlank v }]),
        ⟨(S' bk).r, (S' bk).nodes.set (rest.length + 1) (codeN (A ++ [s]) b), { (S' bk).pc with opened := [nblk] }⟩) := by
  have hp : p < src.length := by have := hl.le; have := hl.lt; omega
  have hk : ((codeN (A ++ [s] ++ B) b).kind != .paragraph) = true := rfl
  have h10 : (c == 10) = false := (space_facts c hc).2.2
  have hidx : idx v 0 = .ok c := by rw [hv]; rfl
  have hvl : 0 < v.length := by rw [hv]; simp
  refine ⟨isBlankLine (k - 1) 0 (bl ++ [{ lineNum := k, level := 0, isBlank := isBlank v }]), ?_⟩
  rw [lineLoopT]
  simp only [bind_apply, peekLine_fresh hl.sub hp (Nat.le_of_lt hl.lt) hl.le, position_run, getNode_run, getD_last, hk,
    if_true, bpContinue, codeContinue_other hl hv hc k _ pc, stClose]
  simp only [liftE_ok, rdr_line, pure_apply, bind_apply, blockAt, Bool.false_eq_true, if_false, Bool.not_true,
    bne_self_eq_false]
  generalize isBlankLine (k - 1) 0 (bl ++ [{ lineNum := k, level := 0, isBlank := isBlank v }]) = bk
  have hob := openBlocks12_of_try hl 0 0 hvl c c hidx h10 hidx hiw k (d :: (rest ++ [codeN (A ++ [s] ++ B) b]))
    (rest.length + 1) (codeN (A ++ [s] ++ B) b) (getD_last d rest _) .code pc hop bk (some v) (Or.inr rfl) 0 (Or.inr rfl)
    (S' bk) (htry bk)
  have hcl := closeBlocks6_code (S' bk).r (hS'r bk) (S' bk).nodes (rest.length + 1) A s B b (hS'x bk) hs hB nblk
    (S' bk).pc (hS'o bk)
  have hcl' : closeBlocksT pts 0 0 (S' bk) =
      .ok ((), ⟨(S' bk).r, (S' bk).nodes.set (rest.length + 1) (codeN (A ++ [s]) b),
        { (S' bk).pc with opened := [nblk] }⟩) := hcl
  have hsl : slotAfter [{ node := rest.length + 1, bp := .code }] (S' bk).pc.opened 0 =
      some { node := rest.length + 1, bp := .code } := by
    rw [hS'o bk]; rfl
  have hob' : openBlocksT pts 0 bk ⟨rdr src k p p e (some v) 0, d :: (rest ++ [codeN (A ++ s :: B) b]), pc⟩ =
      .ok (.newBlocksOpened, S' bk) := by simpa using hob
  simp [liftE_ok, hob', getPc_run, bind_apply, map_apply, hsl, hcl', pure_apply]
/-- `lineLoop6_leaf` for a line indented by `w` columns / `posN` bytes: the first line of a block directly behind a
    leaf block (heading / thematic break): the new block is opened, the leaf is closed -/
theorem lineLoop6_leaf12 (hl : Ln src p e v) (w : Int) (posN : Nat) (hposlt : posN < v.length)
    (c00 c0 : UInt8) (hidx0 : idx v 0 = .ok c00) (h10 : (c00 == 10) = false) (hidx : idx v (posN : Int) = .ok c0)
    (hiw : indentWidthI v 0 = (w, (posN : Int))) (pbp : BP) (hbp : closingBP pbp) (k : Int) (d : Blocks.Node)
    (rest : List Blocks.Node) (x : Blocks.Node) (hk : x.kind ≠ .paragraph) (hpar : x.parent = some 0) (pc : Ctx)
    (hop : pc.opened = [{ node := rest.length + 1, bp := pbp }]) (bl : List LineStat) (nblk : Block) (S' : Bool → St)
    (hS'o : ∀ bk, (S' bk).pc.opened = [{ node := rest.length + 1, bp := pbp }, nblk])
    (hS'x : ∀ bk, (S' bk).nodes.getD (rest.length + 1) default = x)
    (htry : ∀ bk, tryParsersT pts 0 bk false w ((triggered c0).getD freeParsers) .noBlocksOpened
        (some { node := rest.length + 1, bp := pbp })
        ⟨rdr src k p p e (some v) 0, d :: (rest ++ [x]), { pc with blockOffset := (posN : Int), blockIndent := w }⟩ =
      .ok ((.done, .newBlocksOpened, some { node := rest.length + 1, bp := pbp }), S' bk)) :
    ∃ bk, lineLoopT pts 0 [{ node := rest.length + 1, bp := pbp }] 0 [{ node := rest.length + 1, bp := pbp }] 0 bl
        ⟨rdr src k p p e none (-1), d :: (rest ++ [x]), pc⟩ =
      .ok ((.next, bl ++ [{ lineNum := k, level := 0, isBlank := isBlank v }]),
        ⟨(S' bk).r, (S' bk).nodes, { (S' bk).pc with opened := [nblk] }⟩) := by
  have hp : p < src.length := by have := hl.le; have := hl.lt; omega
  have hk'' : (x.kind != .paragraph) = true := by simp [hk]
  have hkf : (x.kind == .paragraph) = false := by simp [hk]
  have hcont : ∀ s : St, bpContinue pbp (rest.length + 1) s = .ok (stClose, s) := by
    intro s; rcases hbp with h | h <;> subst h <;> rfl
  refine ⟨isBlankLine (k - 1) 0 (bl ++ [{ lineNum := k, level := 0, isBlank := isBlank v }]), ?_⟩
  rw [lineLoopT]
  simp only [bind_apply, peekLine_fresh hl.sub hp (Nat.le_of_lt hl.lt) hl.le, position_run, getNode_run, getD_last, hk'',
    if_true, hcont, stClose]
  simp only [liftE_ok, rdr_line, pure_apply, bind_apply, blockAt, Bool.false_eq_true, if_false, Bool.not_true,
    bne_self_eq_false]
  generalize isBlankLine (k - 1) 0 (bl ++ [{ lineNum := k, level := 0, isBlank := isBlank v }]) = bk
  have hob := openBlocks12_of_try hl w posN hposlt c00 c0 hidx0 h10 hidx hiw k (d :: (rest ++ [x])) (rest.length + 1) x
    (getD_last d rest x) pbp pc hop bk (some v) (Or.inr rfl) (-1) (Or.inl rfl) (S' bk) (by rw [hkf]; exact htry bk)
  have hcl := closeBlocks6_leaf pbp hbp (S' bk).r (S' bk).nodes (rest.length + 1) x (hS'x bk) hk hpar nblk (S' bk).pc (hS'o bk)
  have hsl : slotAfter [{ node := rest.length + 1, bp := pbp }] (S' bk).pc.opened 0 =
      some { node := rest.length + 1, bp := pbp } := by
    rw [hS'o bk]; rfl
  have hcl' : closeBlocksT pts 0 0 (S' bk) =
      .ok ((), ⟨(S' bk).r, (S' bk).nodes, { (S' bk).pc with opened := [nblk] }⟩) := hcl
  simp [liftE_ok, hob, getPc_run, bind_apply, map_apply, hsl, hcl', pure_apply]

theorem cons_of_idx0 {v : Bytes} {c0 : UInt8} (h : idx v 0 = .ok c0) : ∃ t, v = c0 :: t := by
  cases v with
  | nil => simp [idx, getByte] at h
  | cons a t =>
    have : a = c0 := by simpa [idx, getByte] using h
    exact ⟨t, by rw [this]⟩
end codeLoop

end GM.Proof.CMFrag
