/-
  GM.Proof.E2EXSegs — the two segments of a block node that are neither lines nor inline content — FencedCodeBlock.Info and
  HTMLBlock.ClosureLine — lie inside the source, in EVERY store the block phase returns (any source, any paragraph
  transformers that keep the invariant). A frame invariant in the general sense of GM.Proof.E2EKeeps (`Frame`), this time
  one that LOOKS AT THE READER:

    `XS src s` : the reader's source is `src`; its line cache is valid (`CacheOK`: a cached line IS `pos.Value(source)`);
                 every node's info segment / closure line (when set) satisfies `Spec.segInRange src`.

  Why no reader refinement is needed: both segments are computed from the segment `PeekLine` returned TOGETHER WITH a
  line (fcode_block.go:41-62 indexes the line; html_block.go:185-199 finds the closing pattern in it), and whenever the
  source reader hands out a line it is the value of the position it hands out (`peekLine_value`) — `Segment.Value` only
  succeeds on an in-range segment, and tells the line's length and padding prefix (`value_ok_facts`).
-/
import GM.Proof.E2EKeeps
import GM.Spec.Cursor

namespace GM.E2E
open GM GM.Text GM.Blocks GM.Spec

/-! ### what a successful `Segment.Value` says -/

theorem sub_length (src : Bytes) {a b : Nat} (h1 : a ≤ b) (h2 : b ≤ src.length) : (sub src a b).length = b - a := by
  unfold sub
  simp only [List.length_take, List.length_drop]
  omega

theorem value_ok_facts {t : Segment} {src l : Bytes} (h : t.value src = .ok l) :
    segInRange src t ∧ (∃ δ : Nat, δ ≤ 1 ∧ l.length = t.padding.toNat + (t.stop - t.start).toNat + δ) ∧
    (∀ k, k < t.padding.toNat → l[k]? = some 32) := by
  unfold Segment.value at h
  have hslice : ∀ r, sliceB src t.start t.stop = .ok r →
      0 ≤ t.start ∧ t.start ≤ t.stop ∧ t.stop ≤ src.length ∧ r.length = (t.stop - t.start).toNat := by
    intro r hr
    unfold sliceB at hr
    split at hr
    · rename_i hc
      cases hr
      refine ⟨hc.1, hc.2.1, hc.2.2, ?_⟩
      rw [sub_length src (by omega) (by omega)]
      omega
    · cases hr
  split at h
  · rename_i hp
    have hp0 : t.padding = 0 := by simpa using hp
    cases hs : sliceB src t.start t.stop with
    | error e => rw [hs] at h; simp [bind, Except.bind] at h
    | ok r =>
      rw [hs] at h
      obtain ⟨h0, h1, h2, hl⟩ := hslice r hs
      simp only [bind, Except.bind] at h
      refine ⟨⟨h0, h1, h2, by omega⟩, ?_, fun k hk => by rw [hp0] at hk; simp at hk⟩
      split at h
      · cases h; exact ⟨1, Nat.le_refl _, by simp [hp0, hl]⟩
      · cases h; exact ⟨0, by omega, by simp [hp0, hl]⟩
  · simp only [bind, Except.bind] at h
    split at h
    · cases h
    · split at h
      · cases h
      · rename_i hneg1 hneg2
        cases hs : sliceB src t.start t.stop with
        | error e => rw [hs] at h; simp at h
        | ok r =>
          rw [hs] at h
          obtain ⟨h0, h1, h2, hl⟩ := hslice r hs
          have hpad : 0 ≤ t.padding := by omega
          simp only at h
          have hpre : ∀ (tl : Bytes) k, k < t.padding.toNat → (spaces t.padding.toNat ++ tl)[k]? = some 32 := by
            intro tl k hk
            rw [List.getElem?_append_left (by simp only [spaces, List.length_replicate]; exact hk)]
            simp [spaces, hk]
          refine ⟨⟨h0, h1, h2, hpad⟩, ?_, ?_⟩
          · split at h
            · cases h; exact ⟨1, Nat.le_refl _, by simp [spaces, hl]; omega⟩
            · cases h; exact ⟨0, by omega, by simp [spaces, hl]⟩
          · intro k hk
            split at h
            · cases h
              rw [List.append_assoc]
              exact hpre _ k hk
            · cases h; exact hpre _ k hk

/-! ### the reader half of the invariant -/

/-- a cached line is the value of the current position -/
def CacheOK (r : Reader) : Prop := ∀ l, r.peekedLine = some l → r.pos.value r.source = .ok l

def RInv (src : Bytes) (r : Reader) : Prop := r.source = src ∧ CacheOK r

theorem rinv_nocache {src : Bytes} {r : Reader} (hs : r.source = src) (hc : r.peekedLine = none) : RInv src r :=
  ⟨hs, fun l h => by rw [hc] at h; cases h⟩

/-- `PeekLine`: the reader invariant is kept, and a line that is handed out is the value of the segment handed out -/
theorem reader_peekLine {src : Bytes} {r r' : Reader} {line : Option Bytes} {seg : Segment} (hr : RInv src r)
    (h : r.peekLine = .ok ((line, seg), r')) : RInv src r' ∧ ∀ l, line = some l → seg.value src = .ok l := by
  unfold Reader.peekLine at h
  split at h
  · split at h
    · rename_i l hl
      cases h
      exact ⟨hr, fun l' e => by cases e; rw [← hr.1]; exact hr.2 l hl⟩
    · rename_i hl
      cases hv : r.pos.value r.source with
      | error e => rw [hv] at h; simp [bind, Except.bind] at h
      | ok v =>
        rw [hv] at h
        simp only [bind, Except.bind, pure, Except.pure, Except.ok.injEq, Prod.mk.injEq] at h
        obtain ⟨⟨rfl, rfl⟩, rfl⟩ := h
        refine ⟨⟨hr.1, fun l e => by simp only [Option.some.injEq] at e; subst e; exact hv⟩, fun l e => ?_⟩
        cases e; rw [← hr.1]; exact hv
  · cases h
    exact ⟨hr, fun l e => by cases e⟩

theorem reader_advanceLine {src : Bytes} {r : Reader} (hr : RInv src r) : RInv src r.advanceLine := by
  unfold Reader.advanceLine
  simp only
  split
  · exact rinv_nocache hr.1 rfl
  · exact rinv_nocache hr.1 rfl

theorem reader_advanceLoop {src : Bytes} : ∀ (n : Nat) {r r' : Reader}, r.source = src → r.peekedLine = none →
    r.advanceLoop n = .ok r' → RInv src r'
  | 0, r, r', hs, hc, h => by unfold Reader.advanceLoop at h; cases h; exact rinv_nocache hs hc
  | n + 1, r, r', hs, hc, h => by
    unfold Reader.advanceLoop at h
    split at h
    · split at h
      · exact reader_advanceLoop n (r := { r with pos := { r.pos with padding := r.pos.padding - 1 } }) hs hc h
      · cases hb : getByte r.source r.pos.start with
        | error e => rw [hb] at h; simp [bind, Except.bind] at h
        | ok c =>
          rw [hb] at h
          simp only [bind, Except.bind] at h
          split at h
          · have := reader_advanceLine (src := src) (rinv_nocache hs hc)
            exact reader_advanceLoop n this.1 (by unfold Reader.advanceLine; simp only; split <;> rfl) h
          · exact reader_advanceLoop n (r := { r with pos := { r.pos with start := r.pos.start + 1 } }) hs hc h
    · cases h; exact rinv_nocache hs hc

theorem reader_advance {src : Bytes} {r r' : Reader} (hr : RInv src r) (n : Int) (h : r.advance n = .ok r') :
    RInv src r' := by
  unfold Reader.advance at h
  dsimp only at h
  cases hpk : r.peekedLine with
  | none =>
    rw [hpk] at h
    dsimp only at h
    split at h
    · simp only [pure, Except.pure, Except.ok.injEq] at h
      subst h
      exact rinv_nocache hr.1 rfl
    · exact reader_advanceLoop _ (r := { r with lineOffset := -1, peekedLine := none }) hr.1 rfl h
  | some l0 =>
    rw [hpk] at h
    dsimp only at h
    split at h
    · simp only [pure, Except.pure, Except.ok.injEq] at h
      subst h
      exact rinv_nocache hr.1 rfl
    · exact reader_advanceLoop _ (r := { r with lineOffset := -1, peekedLine := none }) hr.1 rfl h

theorem reader_advanceAndSetPadding {src : Bytes} {r r' : Reader} (hr : RInv src r) (n p : Int)
    (h : r.advanceAndSetPadding n p = .ok r') : RInv src r' := by
  unfold Reader.advanceAndSetPadding at h
  cases ha : r.advance n with
  | error e => rw [ha] at h; simp [bind, Except.bind] at h
  | ok r1 =>
    rw [ha] at h
    have h1 := reader_advance hr n ha
    simp only [bind, Except.bind] at h
    split at h
    · cases h; exact rinv_nocache h1.1 rfl
    · cases h; exact h1

theorem reader_setPosition {src : Bytes} {r : Reader} (hr : RInv src r) (l : Int) (p : Segment) :
    RInv src (r.setPosition l p) := rinv_nocache hr.1 rfl

theorem reader_lineOffset {src : Bytes} {r r' : Reader} {v : Int} (hr : RInv src r) (h : r.lineOffsetOp = .ok (v, r')) :
    RInv src r' := by
  unfold Reader.lineOffsetOp at h
  split at h
  · cases hc : colLoop r.source r.head r.pos.start with
    | error e => rw [hc] at h; simp [bind, Except.bind] at h
    | ok c =>
      rw [hc] at h
      simp only [bind, Except.bind, pure, Except.pure, Except.ok.injEq, Prod.mk.injEq] at h
      obtain ⟨_, rfl⟩ := h
      exact ⟨hr.1, hr.2⟩
  · cases h; exact hr

theorem reader_skipBlankLines {src : Bytes} : ∀ (fuel : Nat) (lines : Int) {r r' : Reader} {x : Segment × Int × Bool},
    RInv src r → skipBlankLines readerOps fuel lines r = .ok (x, r') → RInv src r'
  | 0, _, _, _, _, _, h => by unfold skipBlankLines at h; cases h
  | fuel + 1, lines, r, r', x, hr, h => by
    unfold skipBlankLines at h
    cases hp : readerOps.peekLine r with
    | error e => rw [hp] at h; simp [bind, Except.bind] at h
    | ok y =>
      obtain ⟨⟨line, seg⟩, r1⟩ := y
      rw [hp] at h
      have h1 := (reader_peekLine hr hp).1
      simp only [bind, Except.bind] at h
      split at h
      · simp only [pure, Except.pure, Except.ok.injEq, Prod.mk.injEq] at h
        rw [← h.2]; exact h1
      · split at h
        · have h2 : RInv src r1.advanceLine := reader_advanceLine h1
          simp only [readerOps, pure, Except.pure] at h
          exact reader_skipBlankLines fuel _ h2 h
        · simp only [pure, Except.pure, Except.ok.injEq, Prod.mk.injEq] at h
          rw [← h.2]; exact h1

/-! ### the invariant -/

/-- the info segment of a fenced block and the closure line of an HTML block are inside the source -/
structure XP (src : Bytes) (n : Node) : Prop where
  info : n.kind = .fencedCodeBlock → ∀ sg, n.info = some sg → segInRange src sg
  closure : n.kind = .htmlBlock → n.closure.start ≥ 0 → segInRange src n.closure

def XS (src : Bytes) (s : St) : Prop := RInv src s.r ∧ ∀ n ∈ s.nodes, XP src n

theorem xp_default (src : Bytes) : XP src (default : Node) := ⟨fun h => (by cases h), fun h => (by cases h)⟩

theorem xs_getD {src : Bytes} {s : St} (h : XS src s) (i : Nat) : XP src (s.nodes.getD i default) := by
  by_cases hlt : i < s.nodes.length
  · have : s.nodes.getD i default = s.nodes[i] := by simp [List.getD, hlt]
    rw [this]; exact h.2 _ (List.getElem_mem hlt)
  · have : s.nodes.getD i default = default := by
      simp [List.getD, List.getElem?_eq_none (Nat.le_of_not_lt hlt)]
    rw [this]; exact xp_default src

/-- a reader step lifted to the state -/
theorem xs_reader {src : Bytes} {s : St} (h : XS src s) {r' : Reader} (hr : RInv src r') : XS src { s with r := r' } :=
  ⟨hr, h.2⟩

theorem xs_mod {src : Bytes} (s : St) (id : Nat) (f : Node → Node)
    (hf : ∀ n, (f n).kind = n.kind ∧ (f n).level = n.level ∧ (f n).info = n.info ∧ (f n).closure = n.closure)
    (hs : XS src s) : XS src { s with nodes := s.nodes.set id (f (s.nodes.getD id default)) } := by
  refine ⟨hs.1, fun n hn => ?_⟩
  simp only at hn
  rcases List.mem_or_eq_of_mem_set hn with h1 | h1
  · exact hs.2 n h1
  · subst h1
    have hk := hf (s.nodes.getD id default)
    have hold := xs_getD hs id
    exact ⟨fun h sg hi => hold.info (hk.1 ▸ h) sg (hk.2.2.1 ▸ hi), fun h hc => by
      rw [hk.2.2.2] at hc ⊢; exact hold.closure (hk.1 ▸ h) hc⟩

theorem xs_new {src : Bytes} (s : St) (n : Node) (hn : XP src n) (hs : XS src s) :
    XS src { s with nodes := s.nodes ++ [n] } := by
  refine ⟨hs.1, fun m hm => ?_⟩
  simp only [List.mem_append, List.mem_singleton] at hm
  rcases hm with h1 | h1
  · exact hs.2 m h1
  · subst h1; exact hn

/-! ### the two exceptional parser functions -/

/-- a step with a PURE fact about its value -/
structure KeepsV (I : St → Prop) {α : Type} (m : M α) (Q : α → Prop) : Prop where
  h : ∀ s a s', I s → m s = .ok (a, s') → I s' ∧ Q a

theorem Keeps.bindV {I : St → Prop} {α β} {m : M α} {Q : α → Prop} {f : α → M β} (hm : KeepsV I m Q)
    (hf : ∀ a, Q a → Keeps I (f a)) : Keeps I (m >>= f) := by
  constructor
  intro s b s'' hs h
  simp only [Bind.bind, StateT.bind] at h
  cases hms : m s with
  | error e => rw [hms] at h; simp [Except.bind] at h
  | ok p =>
    rw [hms] at h
    simp only [Except.bind] at h
    have := hm.h s p.1 p.2 hs hms
    exact (hf p.1 this.2).h p.2 b s'' this.1 h

theorem peekLine_V (src : Bytes) : KeepsV (XS src) peekLine (fun a => ∀ l, a.1 = some l → a.2.value src = .ok l) := by
  constructor
  intro s a s' hs h
  unfold peekLine at h
  cases hr : s.r.peekLine with
  | error x => simp [hr, bind, Except.bind] at h
  | ok v =>
    obtain ⟨⟨line, seg⟩, r'⟩ := v
    simp only [hr, bind, Except.bind, pure, Except.pure, Except.ok.injEq, Prod.mk.injEq] at h
    obtain ⟨rfl, rfl⟩ := h
    have := reader_peekLine hs.1 hr
    exact ⟨xs_reader hs this.1, this.2⟩

theorem liftE_V {I : St → Prop} {α} (e : Except Panic α) : KeepsV I (liftE e) (fun a => e = .ok a) := by
  constructor
  intro s a s' hs h
  unfold liftE at h
  cases e with
  | error x => simp [Except.map] at h
  | ok v =>
    simp only [Except.map, Except.ok.injEq, Prod.mk.injEq] at h
    rw [← h.2, ← h.1]; exact ⟨hs, rfl⟩

theorem getPc_V {I : St → Prop} : KeepsV I getPc (fun _ => True) :=
  ⟨fun _ _ _ hs h => by cases h; exact ⟨hs, trivial⟩⟩

/-! ### the primitives at `XS` -/

theorem xs_pc {src : Bytes} (s : St) (pc : Ctx) (h : XS src s) : XS src { s with pc := pc } := ⟨h.1, h.2⟩

theorem xs_peekLine (src : Bytes) : Keeps (XS src) peekLine :=
  ⟨fun s a s' hs h => ((peekLine_V src).h s a s' hs h).1⟩

theorem xs_lineOffset (src : Bytes) : Keeps (XS src) lineOffset := by
  constructor
  intro s a s' hs h
  unfold lineOffset at h
  cases hr : s.r.lineOffsetOp with
  | error x => simp [hr, bind, Except.bind] at h
  | ok v =>
    obtain ⟨x, r'⟩ := v
    simp only [hr, bind, Except.bind, pure, Except.pure, Except.ok.injEq, Prod.mk.injEq] at h
    obtain ⟨_, rfl⟩ := h
    exact xs_reader hs (reader_lineOffset hs.1 hr)

theorem xs_advance (src : Bytes) (n : Int) : Keeps (XS src) (advance n) := by
  constructor
  intro s a s' hs h
  unfold advance at h
  cases hr : s.r.advance n with
  | error x => simp [hr, bind, Except.bind] at h
  | ok r' =>
    simp only [hr, bind, Except.bind, pure, Except.pure, Except.ok.injEq, Prod.mk.injEq] at h
    obtain ⟨_, rfl⟩ := h
    exact xs_reader hs (reader_advance hs.1 n hr)

theorem xs_advanceAndSetPadding (src : Bytes) (n p : Int) : Keeps (XS src) (advanceAndSetPadding n p) := by
  constructor
  intro s a s' hs h
  unfold advanceAndSetPadding at h
  cases hr : s.r.advanceAndSetPadding n p with
  | error x => simp [hr, bind, Except.bind] at h
  | ok r' =>
    simp only [hr, bind, Except.bind, pure, Except.pure, Except.ok.injEq, Prod.mk.injEq] at h
    obtain ⟨_, rfl⟩ := h
    exact xs_reader hs (reader_advanceAndSetPadding hs.1 n p hr)

theorem xs_advanceLine (src : Bytes) : Keeps (XS src) advanceLine :=
  ⟨fun s a s' hs h => by cases h; exact xs_reader hs (reader_advanceLine hs.1)⟩

theorem xs_setPosition (src : Bytes) (l : Int) (p : Segment) : Keeps (XS src) (setPosition l p) :=
  ⟨fun s a s' hs h => by cases h; exact xs_reader hs (reader_setPosition hs.1 l p)⟩

theorem xs_skipBlankLinesR (src : Bytes) : Keeps (XS src) skipBlankLinesR := by
  constructor
  intro s a s' hs h
  unfold skipBlankLinesR at h
  cases hr : skipBlankLines readerOps (loopFuel s.r.source) 0 s.r with
  | error x => simp [hr, bind, Except.bind] at h
  | ok v =>
    obtain ⟨x, r'⟩ := v
    simp only [hr, bind, Except.bind, pure, Except.pure, Except.ok.injEq, Prod.mk.injEq] at h
    obtain ⟨_, rfl⟩ := h
    exact xs_reader hs (reader_skipBlankLines _ _ hs.1 hr)

theorem xs_modPc (src : Bytes) (f) : Keeps (XS src) (modPc f) :=
  ⟨fun s _ _ hs h => by cases h; exact xs_pc s _ hs⟩

theorem xs_modNode (src : Bytes) (id : Nat) (f : Node → Node)
    (hf : ∀ n, (f n).kind = n.kind ∧ (f n).level = n.level ∧ (f n).info = n.info ∧ (f n).closure = n.closure) :
    Keeps (XS src) (modNode id f) :=
  ⟨fun s _ _ hs h => by cases h; exact xs_mod s id f hf hs⟩

theorem xs_appendLine (src : Bytes) (id : Nat) (seg : Segment) : Keeps (XS src) (appendLine id seg) :=
  xs_modNode src _ _ fun _ => ⟨rfl, rfl, rfl, rfl⟩

theorem xs_newNode (src : Bytes) (n : Node) (hn : XP src n) : Keeps (XS src) (newNode n) :=
  ⟨fun s _ _ hs h => by cases h; exact xs_new s n hn hs⟩

/-- setting the closure line to an in-range segment -/
theorem xs_setClosure (src : Bytes) (id : Nat) (seg : Segment) (h : segInRange src seg) :
    Keeps (XS src) (modNode id fun n => { n with closure := seg }) := by
  constructor
  intro s _ s' hs he
  cases he
  refine ⟨hs.1, fun n hn => ?_⟩
  simp only at hn
  rcases List.mem_or_eq_of_mem_set hn with h1 | h1
  · exact hs.2 n h1
  · subst h1
    have hold := xs_getD hs id
    exact ⟨fun hk sg hi => hold.info hk sg hi, fun _ _ => h⟩

/-- walk over an `M` do block at the invariant `XS src` (the class-free version of `keeps`, used to BUILD the instance) -/
macro "keepsx_step" : tactic =>
  `(tactic| first
    | with_reducible apply Keeps.pure
    | with_reducible apply Keeps.bind
    | with_reducible apply Keeps.ite
    | with_reducible apply Keeps.throw
    | with_reducible apply getNode_keeps
    | with_reducible apply getPc_keeps
    | with_reducible apply source_keeps
    | with_reducible apply position_keeps
    | with_reducible apply get_keeps
    | with_reducible apply liftE_keeps
    | with_reducible apply xs_modPc
    | with_reducible apply xs_advanceLine
    | with_reducible apply xs_setPosition
    | with_reducible apply xs_peekLine
    | with_reducible apply xs_lineOffset
    | with_reducible apply xs_advance
    | with_reducible apply xs_advanceAndSetPadding
    | with_reducible apply xs_skipBlankLinesR
    | with_reducible apply xs_appendLine
    | ((with_reducible apply xs_modNode); exact fun _ => ⟨rfl, rfl, rfl, rfl⟩)
    | apply_hyp
    | intro _
    | split)

macro "keepsx" : tactic => `(tactic| repeat' keepsx_step)

/-- the closing condition of an HTML block of type 1..5 never holds of the empty line -/
theorem closes_ne_nil (ht : Nat) (v : Bytes)
    (h : (if (ht == 1) = true then type1Close v
          else if (ht == 2) = true then containsSub (strBytes "-->") v
          else if (ht == 3) = true then containsSub (strBytes "?>") v
          else if (ht == 4) = true then containsSub (strBytes ">") v
          else containsSub (strBytes "]]>") v) = true) : v ≠ [] := by
  intro e
  subst e
  revert h
  split
  · simp [type1Close]
  · split
    · decide +kernel
    · split
      · decide +kernel
      · split <;> decide +kernel

/-- the segment `PeekLine` handed out together with a line that satisfies the closing condition is in range -/
theorem seg_of_closes {src : Bytes} {line : Option Bytes} {segment : Segment}
    (ha : ∀ l, (line, segment).fst = some l → (line, segment).snd.value src = .ok l) {ht : Nat}
    (h : (if (ht == 1) = true then type1Close (line.getD [])
          else if (ht == 2) = true then containsSub (strBytes "-->") (line.getD [])
          else if (ht == 3) = true then containsSub (strBytes "?>") (line.getD [])
          else if (ht == 4) = true then containsSub (strBytes ">") (line.getD [])
          else containsSub (strBytes "]]>") (line.getD [])) = true) : segInRange src segment := by
  have hne := closes_ne_nil ht _ h
  cases line with
  | none => exact absurd rfl hne
  | some l => exact (value_ok_facts (ha l rfl)).1

theorem htmlContinue_XS (src : Bytes) (node : Nat) : Keeps (XS src) (htmlContinue node) := by
  unfold htmlContinue
  refine Keeps.bind (getNode_keeps _) (fun n => ?_)
  refine Keeps.bindV (peekLine_V src) (fun a ha => ?_)
  obtain ⟨line, segment⟩ := a
  dsimp only
  have hclo : ∀ {ht : Nat}, (if (ht == 1) = true then type1Close (line.getD [])
          else if (ht == 2) = true then containsSub (strBytes "-->") (line.getD [])
          else if (ht == 3) = true then containsSub (strBytes "?>") (line.getD [])
          else if (ht == 4) = true then containsSub (strBytes ">") (line.getD [])
          else containsSub (strBytes "]]>") (line.getD [])) = true →
      Keeps (XS src) (modNode node fun n => { n with closure := segment }) :=
    fun h => xs_setClosure src node segment (seg_of_closes ha h)
  keepsx

theorem xs_newNode_plain (src : Bytes) (n : Node) (hi : n.info = none) (hc : n.closure.start = -1) :
    Keeps (XS src) (newNode n) :=
  xs_newNode src n ⟨fun _ sg h => (by rw [hi] at h; cases h), fun _ h => (by rw [hc] at h; omega)⟩

/-- fcode_block.go:41-62: the info segment computed from the opening fence line lies inside the source -/
theorem fenced_info_inRange {src line0 : Bytes} {segment : Segment} (hv : segment.value src = .ok line0) {pos : Int}
    {c : UInt8} (hidx : idx line0 pos = .ok c) (hc : c = 96 ∨ c = 126) {rest : Bytes}
    (hrest : sliceFrom line0 (scanWhileEq line0 c pos) = .ok rest)
    (hlr : (trimLeftSpaceLength rest : Int) < (rest.length : Int) - (trimRightSpaceLength rest : Int)) :
    segInRange src { start := segment.start - segment.padding + scanWhileEq line0 c pos + (trimLeftSpaceLength rest : Int),
                     stop := segment.stop - (trimRightSpaceLength rest : Int) } := by
  obtain ⟨⟨h0, h1, h2, h3⟩, ⟨δ, hδ, hL⟩, hpre⟩ := value_ok_facts hv
  -- the byte at `pos`
  have hpos : 0 ≤ pos ∧ pos.toNat < line0.length ∧ line0[pos.toNat]? = some c := by
    unfold idx getByte at hidx
    split at hidx
    · cases hidx
    · split at hidx
      · rename_i b hb
        cases hidx
        exact ⟨by omega, (List.getElem?_eq_some_iff.mp hb).1, hb⟩
      · cases hidx
  have hP : segment.padding.toNat ≤ pos.toNat := by
    refine Nat.le_of_not_lt (fun hlt => ?_)
    have := hpre pos.toNat hlt
    rw [hpos.2.2] at this
    rcases hc with rfl | rfl <;> simp at this
  have hi := scanWhileEq_ge line0 c pos hpos.1
  have hsl : 0 ≤ scanWhileEq line0 c pos ∧ scanWhileEq line0 c pos ≤ line0.length ∧
      rest.length = line0.length - (scanWhileEq line0 c pos).toNat := by
    unfold sliceFrom at hrest
    split at hrest
    · rename_i hcnd
      cases hrest
      exact ⟨hcnd.1, hcnd.2, by simp⟩
    · cases hrest
  refine ⟨?_, ?_, ?_, ?_⟩ <;> simp only
  · omega
  · omega
  · omega
  · omega

theorem fencedOpen_XS (src : Bytes) (p : Nat) : Keeps (XS src) (fencedOpen p) := by
  unfold fencedOpen
  refine Keeps.bindV (peekLine_V src) (fun a ha => ?_)
  obtain ⟨line, segment⟩ := a
  dsimp only
  refine Keeps.bind getPc_keeps (fun pc => ?_)
  refine Keeps.ite (fun _ => Keeps.pure _) (fun hpos => ?_)
  refine Keeps.bindV (liftE_V _) (fun fenceChar hfc => ?_)
  refine Keeps.ite (fun _ => Keeps.pure _) (fun hf => ?_)
  refine Keeps.ite (fun _ => Keeps.pure _) (fun h3 => ?_)
  have tailNone : ∀ {β} (k : Nat → M β), (∀ node, Keeps (XS src) (k node)) →
      Keeps (XS src) (newNode { kind := Kind.fencedCodeBlock } >>= k) :=
    fun k hk => Keeps.bind (xs_newNode_plain src _ rfl rfl) hk
  refine Keeps.ite (fun hlt => ?_) (fun _ => tailNone _ (fun node => by keepsx))
  refine Keeps.bindV (liftE_V _) (fun rest hrest => ?_)
  refine Keeps.ite (fun hlr => ?_) (fun _ => tailNone _ (fun node => by keepsx))
  refine Keeps.bind (liftE_keeps _) (fun value => ?_)
  refine Keeps.ite (fun _ => Keeps.pure _) (fun _ => ?_)
  refine Keeps.ite (fun hne => ?_) (fun _ => tailNone _ (fun node => by keepsx))
  refine Keeps.bind (xs_newNode src _ ⟨fun _ sg hsg => ?_, fun hk => by cases hk⟩) (fun node => by keepsx)
  simp only [Option.some.injEq] at hsg
  subst hsg
  have hline : ∃ l, line = some l := by
    cases line with
    | some l => exact ⟨l, rfl⟩
    | none =>
      exfalso
      simp only [Option.getD_none] at hfc
      unfold idx getByte at hfc
      split at hfc
      · cases hfc
      · simp at hfc
  obtain ⟨l, rfl⟩ := hline
  have hc : fenceChar = 96 ∨ fenceChar = 126 := by
    by_cases h96 : fenceChar = 96
    · exact .inl h96
    · by_cases h126 : fenceChar = 126
      · exact .inr h126
      · exact absurd (by simp [h96, h126]) hf
  exact fenced_info_inRange (ha l rfl) hfc hc hrest hlr

/-! ### the instance and the whole run -/

instance (src : Bytes) : Frame (XS src) where
  pcK := fun s pc hs => xs_pc s pc hs
  peekLineK := xs_peekLine src
  lineOffsetK := xs_lineOffset src
  advanceK := xs_advance src
  advanceAndSetPaddingK := xs_advanceAndSetPadding src
  advanceLineK := xs_advanceLine src
  setPositionK := xs_setPosition src
  skipBlankLinesRK := xs_skipBlankLinesR src
  mod := fun s id f hf hs => xs_mod s id f hf hs
  new := fun s n _ hi hc hs => xs_new s n ⟨fun _ sg h => (by rw [hi] at h; cases h), fun _ h => (by rw [hc] at h; omega)⟩ hs
  fencedOpenK := fencedOpen_XS src
  htmlContinueK := htmlContinue_XS src

theorem xs_init (src : Bytes) : XS src (initSt src) := by
  refine ⟨?_, ?_⟩
  · show RInv src (Reader.new src)
    unfold Reader.new
    exact reader_advanceLine (rinv_nocache rfl rfl)
  · intro n hn
    simp only [initSt, List.mem_singleton] at hn
    subst hn
    exact ⟨fun h => (by cases h), fun h => (by cases h)⟩

/-- **the info segment of every FencedCodeBlock and the closure line of every HTMLBlock of the store the block phase
    returns lie inside the source** — every source, every list of paragraph transformers that keep the invariant -/
theorem runT_xsegs {pts : List PT} (src : Bytes) (hp : PTsKeep (XS src) pts) (st : St) (h : runT pts src = .ok st) :
    ∀ n ∈ st.nodes, XP src n :=
  (runT_keeps hp src (xs_init src) st h).2

end GM.E2E
