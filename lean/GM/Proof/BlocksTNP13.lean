/-
  GM.Proof.BlocksTNP13 — a DECIDABLE sufficient condition for the source class `NoSetextBar` of `runT_total_noBar`
  (GM.Proof.BlocksTNP12): it is enough to test the views from every byte offset with the paddings 0..3 (a view with more
  than 3 leading spaces is never a setext underline: setext_headings.go:17-19).
-/
import GM.Proof.BlocksTNP12

namespace GM.Blocks.T
open GM GM.Text GM.Spec GM.Proof.Reader

/-- no view of the source from a byte offset `p`, with a virtual padding of 0..3 spaces, is a setext heading underline -/
def noBarB (src : Bytes) : Bool :=
  (List.range src.length).all fun p => (List.range 4).all fun pad =>
    match matchesSetextHeadingBar (spaces pad ++ sub src p (lineEnd src p)) with
    | .ok (_, true) => false
    | _ => true

theorem countLeading_spaces (n : Nat) (l : Bytes) : n ≤ countLeading 32 (spaces n ++ l) := by
  induction n with
  | zero => exact Nat.zero_le _
  | succ n ih =>
    have e : spaces (n + 1) ++ l = 32 :: (spaces n ++ l) := by simp [spaces, List.replicate_succ]
    rw [e]
    simp only [countLeading, List.takeWhile_cons, beq_self_eq_true, if_true, List.length_cons] at ih ⊢
    omega

theorem bar_pad_gt3 (n : Nat) (hn : 3 < n) (l : Bytes) (ch : UInt8) :
    matchesSetextHeadingBar (spaces n ++ l) ≠ .ok (ch, true) := by
  have h := countLeading_spaces n l
  have hc : ((countLeading 32 (spaces n ++ l) : Nat) : Int) > 3 := by omega
  unfold matchesSetextHeadingBar
  simp only [hc, if_true, pure, Except.pure, bind, Except.bind]
  intro he
  cases he

theorem bar_nil (ch : UInt8) : matchesSetextHeadingBar [] ≠ .ok (ch, true) := by
  have : matchesSetextHeadingBar [] = .error .index := by
    simp [matchesSetextHeadingBar, countLeading, slice, sliceB, sub, idx, getByte, bind, Except.bind, pure, Except.pure]
  rw [this]; intro he; cases he

theorem noBarB_sound {src : Bytes} (h : noBarB src = true) : L.B.NoSetextBar src := by
  intro c ch
  by_cases hp : c.p < src.length
  · rw [view_eq src c hp]
    simp only [Option.getD_some]
    by_cases h3 : 3 < c.pad
    · exact bar_pad_gt3 c.pad h3 _ ch
    · simp only [noBarB, List.all_eq_true, List.mem_range] at h
      have := h c.p hp c.pad (by omega)
      intro he
      rw [he] at this
      simp at this
  · rw [view_none src c hp]
    exact bar_nil ch

end GM.Blocks.T
