/-
  GM.Proof.ConvertTotal — the composition GM.Convert.convertCore never ends in a fuel-exhaustion outcome:
  block phase (GM.Proof.LinkRefPres.blockPhase_noLoop), inline phase of every block (parseBlock_total under the
  run-time check `wf0B`), tree conversion and renderer (structural).
-/
import GM.Proof.LinkRefPres
import GM.Model.Convert

namespace GM.Proof.ConvertTotal
open GM GM.Text GM.Convert GM.LinkRef GM.Proof.LinkRefTotal GM.Proof.InlinesReader

theorem liftErr_value_noLoop {α} {x : Except Panic α} {e : Err} (h : liftErr .value x = .error e) : e.isLoop = false := by
  cases x with
  | ok a => cases h
  | error p => simp only [liftErr, Except.error.injEq] at h; subst h; rfl

/-- the inline phase of one block behind the run-time check: a result, `linesNotWF0`, never a phase error -/
theorem inlinePhase_guarded (env : GM.Inl.Env) (src : Bytes) (n : GM.Blocks.Node) :
    (∃ kids, inlinePhase true env src n = .ok kids) ∨ inlinePhase true env src n = .error .linesNotWF0 := by
  unfold inlinePhase
  split
  · exact Or.inl ⟨_, rfl⟩
  · split
    · exact Or.inl ⟨_, rfl⟩
    · split
      · exact Or.inr rfl
      · rename_i hw
        have hw' : wf0B src n.lines = true := by simpa using hw
        obtain ⟨W, Z⟩ := wf0B_sound hw'
        obtain ⟨kids, hk⟩ := GM.Proof.InlinesLink.parseBlock_total W Z env
        rw [hk]
        exact Or.inl ⟨kids, rfl⟩

theorem inlinePhase_noLoop (env : GM.Inl.Env) (src : Bytes) (n : GM.Blocks.Node) {e : Err}
    (h : inlinePhase true env src n = .error e) : e.isLoop = false := by
  rcases inlinePhase_guarded env src n with ⟨k, hk⟩ | hk
  · rw [hk] at h; cases h
  · rw [hk] at h; cases h; rfl

mutual
theorem docTree_noLoop (env : GM.Inl.Env) (src : Bytes) : ∀ (t : GM.Blocks.Tree) (e : Err),
    docTree true env src t = .error e → e.isLoop = false
  | .node n cs, e, h => by
    unfold docTree at h
    simp only [bind, Except.bind] at h
    cases h1 : docTrees true env src cs with
    | error e1 => rw [h1] at h; cases h; exact docTrees_noLoop env src cs _ h1
    | ok bs =>
      rw [h1] at h
      simp only at h
      cases h2 : inlinePhase true env src n with
      | error e2 => rw [h2] at h; cases h; exact inlinePhase_noLoop env src n h2
      | ok kids =>
        rw [h2] at h
        simp only at h
        cases h3 : liftErr Err.value (inlineTrees src kids) with
        | error e3 => rw [h3] at h; cases h; exact liftErr_value_noLoop h3
        | ok is =>
          rw [h3] at h
          simp only at h
          cases h4 : liftErr Err.value (blockKind src n) with
          | error e4 => rw [h4] at h; cases h; exact liftErr_value_noLoop h4
          | ok k => rw [h4] at h; cases h
theorem docTrees_noLoop (env : GM.Inl.Env) (src : Bytes) : ∀ (ts : List GM.Blocks.Tree) (e : Err),
    docTrees true env src ts = .error e → e.isLoop = false
  | [], e, h => by unfold docTrees at h; cases h
  | t :: rest, e, h => by
    unfold docTrees at h
    simp only [bind, Except.bind] at h
    cases h1 : docTree true env src t with
    | error e1 => rw [h1] at h; cases h; exact docTree_noLoop env src t _ h1
    | ok x =>
      rw [h1] at h
      simp only at h
      cases h2 : docTrees true env src rest with
      | error e2 => rw [h2] at h; cases h; exact docTrees_noLoop env src rest _ h2
      | ok xs => rw [h2] at h; cases h
end

theorem parseDoc_noLoop (uc : List (Nat × (Bool × Bool))) (src : Bytes) {e : Err}
    (h : parseDoc true uc src = .error e) : e.isLoop = false := by
  unfold parseDoc at h
  simp only [bind, Except.bind] at h
  cases hb : blockPhase true src with
  | error p =>
    rw [hb] at h
    simp only [liftErr] at h
    cases h
    have := GM.Proof.LinkRefPres.blockPhase_noLoop src
    cases p <;> first | rfl | exact absurd hb this
  | ok st =>
    rw [hb] at h
    simp only [liftErr] at h
    exact docTree_noLoop _ src _ _ h

theorem renderDoc_noLoop (o : ROpts) (t : GM.Node) {e : Err} (h : renderDoc o t = .error e) : e.isLoop = false := by
  unfold renderDoc at h
  split at h
  · cases h; rfl
  · cases h

/-- **`convertCore` never ends in the fuel-exhaustion outcome** -/
theorem convertCore_noLoop (uc : List (Nat × (Bool × Bool))) (o : ROpts) (src : Bytes) {e : Err}
    (h : convertCore uc o src = .error e) : e.isLoop = false := by
  unfold convertCore convertWith at h
  simp only [bind, Except.bind] at h
  cases hp : parseDoc true uc src with
  | error e1 => rw [hp] at h; cases h; exact parseDoc_noLoop uc src hp
  | ok t => rw [hp] at h; exact renderDoc_noLoop o t h

end GM.Proof.ConvertTotal
