/-
  GM.Proof.ConvertXE2EPad — "no virtual padding" (the relation `P0` of GM.Proof.E2EPad) through the inline loop over an OPEN
  trigger table (GM.Model.InlinesLoopX) and through the members' parsers: Strikethrough, TaskCheckBox, the link parser over a
  generalised ProcessDelimiters (by the relabelling of GM.Proof.ConvertXRelv: a node's segments do not depend on emphasis
  levels), Linkify. Result: the segments of the tree `parseBlockG` answers on padding-free lines have padding 0.
-/
import GM.Proof.E2EPadLink
import GM.Proof.ConvertXTotal
import GM.Model.ConvertL

namespace GM.Proof.ConvertXE2EPad
open GM GM.Text GM.Inl GM.E2E.Pad GM.Proof.ConvertXRelv GM.Proof.ConvertXTotal GM.Proof.InlinesTotal

/-! ### relabelling keeps `P0` -/

theorem p0_relvL (g : Int → Int) (ks : List Inl.Node) : P0.p (relvL g ks) ↔ P0.p ks := by
  rw [p0_nodes_iff, p0_nodes_iff, segsOfL_relv]

theorem p0_relv (g : Int → Int) (n : Inl.Node) : P0.p (relv g n) ↔ P0.p n := by
  show (∀ s ∈ segsOf (relv g n), s.padding = 0) ↔ (∀ s ∈ segsOf n, s.padding = 0)
  rw [segsOf_relv]

theorem p0_relvSt (g : Int → Int) (st : St) : P0.p (relvSt g st) ↔ P0.p st := by
  show (P0.p (relvSt g st).rd ∧ P0.p (relvSt g st).kids) ↔ (P0.p st.rd ∧ P0.p st.kids)
  simp only [relvSt, p0_relvL]

/-- ProcessDelimiters with both processors -/
theorem processDelimitersG_p0 (sk : Bool) (b : Bottom) {kids : List Inl.Node} (hk : P0.p kids) :
    OKP (processDelimitersG sk b kids) := by
  intro r hr
  have e := processDelimitersG_relv (gN_ok sk) b kids
  rw [hr] at e
  have := processDelimiters_p0 b ((p0_relvL gN kids).mpr hk) _ e
  exact (p0_relvL gN r).mp this

theorem pdsim_G (sk : Bool) : PDSim gN (processDelimitersG sk) := fun b k => processDelimitersG_relv (gN_ok sk) b k

/-- the link parser over ProcessDelimiters with both processors -/
theorem parseLinkG_p0 (sk : Bool) (env : Env) {st : St} (hs : P0.p st) : OKP (parseLinkG (processDelimitersG sk) env st) := by
  intro r hr
  have e := parseLinkG_relv (pdsim_G sk) env st
  rw [hr] at e
  have := parseLink_p0 env ((p0_relvSt gN st).mpr hs) _ e
  obtain ⟨h1, h2⟩ := this
  refine ⟨?_, (p0_relvSt gN r.2).mp h2⟩
  intro n hn
  have : (relvPR gN r).1 = some (relv gN n) := by simp [relvPR, hn]
  exact (p0_relv gN n).mp (h1 _ this)

/-! ### the members' parsers -/

theorem parseStrike_p0 (env : Env) {st : St} (hs : P0.p st) : OKP (parseStrike env st) := by
  unfold parseStrike
  refine OKP.bind' (fun before => ?_)
  refine OKP.bind (peekLine_p0 hs.1) (fun a ha => ?_)
  obtain ⟨⟨line, segment⟩, rd1⟩ := a
  obtain ⟨⟨_, hseg⟩, hr1⟩ := ha
  try simp only
  refine OKP.bind' (fun d => ?_)
  split
  · exact OKP.pure ⟨p0_none, hr1, hs.2⟩
  · rename_i d'
    try simp only
    refine OKP.ite (OKP.pure ⟨p0_none, hr1, hs.2⟩) ?_
    refine OKP.bind (advance_p0 _ hr1) (fun rd2 hr2 => ?_)
    exact OKP.pure ⟨(p0_some _).mpr ((p0_delim _ _).mpr (p0_withStop hseg _)), hr2, hs.2⟩

theorem p0_taskNode (b : Bool) : P0.p (taskNode b) := by
  unfold taskNode
  exact (p0_emphasis _ _).mpr p0_nil

theorem parseTask_p0 (inItem : Bool) (env : Env) {st : St} (hs : P0.p st) : OKP (parseTask inItem env st) := by
  unfold parseTask
  refine OKP.ite (OKP.ok ⟨p0_none, hs⟩) (OKP.ite (OKP.ok ⟨p0_none, hs⟩) ?_)
  refine OKP.bind (peekLine_p0 hs.1) (fun a ha => ?_)
  obtain ⟨⟨line, segment⟩, rd1⟩ := a
  obtain ⟨_, hr1⟩ := ha
  have hst : P0.p ({ st with rd := rd1 } : St) := ⟨hr1, hs.2⟩
  dsimp only
  split
  · refine OKP.ite ?_ (OKP.pure ⟨p0_none, hst⟩)
    refine OKP.bind (advance_p0 _ hr1) (fun rd2 hr2 => ?_)
    exact OKP.pure ⟨(p0_some _).mpr (p0_taskNode _), hr2, hs.2⟩
  · exact OKP.pure ⟨p0_none, hst⟩

theorem linkifyFinish_p0 {st : St} (hs : P0.p st) {segment : Segment} (hseg : segment.padding = 0) (strip : Bool)
    (ln : Bytes) (proto email : Bool) (m1 : Nat) : OKP (linkifyFinish st segment strip ln proto email m1) := by
  unfold linkifyFinish
  dsimp only
  refine OKP.bind (advance_p0 _ hs.1) (fun rd hr => ?_)
  refine OKP.pure ⟨(p0_some _).mpr ((p0_autoLink _ _).mpr rfl), hr, ?_⟩
  split
  · exact mergeOrAppend_p0 hs.2 (p0_withStop hseg _)
  · exact hs.2

theorem parseLinkify_p0 (env : Env) {st : St} (hs : P0.p st) : OKP (parseLinkify env st) := by
  unfold parseLinkify
  refine OKP.ite (OKP.ok ⟨p0_none, hs⟩) ?_
  refine OKP.bind (peekLine_p0 hs.1) (fun a ha => ?_)
  obtain ⟨⟨line, segment⟩, rd1⟩ := a
  obtain ⟨⟨_, hseg⟩, hr1⟩ := ha
  have hst : P0.p ({ st with rd := rd1 } : St) := ⟨hr1, hs.2⟩
  dsimp only
  split
  · exact OKP.throw _
  · try dsimp only
    split
    · refine OKP.bind' (fun m1' => ?_)
      exact linkifyFinish_p0 hst hseg _ _ _ _ _
    · refine OKP.bind' (fun r => ?_)
      split
      · exact OKP.pure ⟨p0_none, hst⟩
      · exact linkifyFinish_p0 hst hseg _ _ _ _ _

/-! ### the loop over an open table -/

/-- every entry of the table keeps `P0` -/
def TblP0 (env : Env) (tbl : UInt8 → List XIp) : Prop := ∀ b, ∀ ip ∈ tbl b, ∀ st : St, P0.p st → OKP (ip.parse env st)

theorem tryParsersX_p0 (env : Env) (savedLine : Int) {savedPosition : Segment} (hp : savedPosition.padding = 0) :
    ∀ (ips : List XIp), (∀ ip ∈ ips, ∀ st : St, P0.p st → OKP (ip.parse env st)) → ∀ {st : St}, P0.p st →
      OKP (tryParsersX env savedLine savedPosition ips st)
  | [], _, st, hs => by unfold tryParsersX; exact OKP.pure ⟨p0_none, hs⟩
  | ip :: ips, hT, st, hs => by
    unfold tryParsersX
    refine OKP.bind (hT ip (by simp) st hs) (fun a ha => ?_)
    obtain ⟨node, st1⟩ := a
    dsimp only
    split
    · rename_i n
      exact OKP.pure ⟨(p0_some _).mpr (ha.1 n rfl), ha.2⟩
    · refine OKP.bind (setPosition_p0 _ _ (.inr hp) ha.2.1) (fun rd hr => ?_)
      exact tryParsersX_p0 env savedLine hp ips (fun ip' h' => hT ip' (by simp [h'])) (st := { st1 with rd := rd }) ⟨hr, ha.2.2⟩

theorem triggerX_p0 (env : Env) (ips : List XIp) (hT : ∀ ip ∈ ips, ∀ st : St, P0.p st → OKP (ip.parse env st)) (i : Nat)
    {s : Inl.Scan} (h : P0.p s) : OKP (triggerX env ips i s) := by
  unfold triggerX
  refine OKP.bind (advance_p0 _ h.1.1) (fun rd hr => ?_)
  dsimp only
  have hks : OKP (if i != 0 then (s.sp.between rd.position.2).map (fun seg => (mergeOrAppend s.st.kids seg, rd.position.2))
      else Pure.pure (s.st.kids, s.sp)) := by
    split
    · intro x hx
      cases hb : s.sp.between rd.position.2 with
      | error e => rw [hb] at hx; cases hx
      | ok seg =>
        rw [hb] at hx
        cases hx
        exact ⟨mergeOrAppend_p0 h.1.2 (between_p0 h.2 (position_p0 hr) seg hb), position_p0 hr⟩
    · exact OKP.pure ⟨h.1.2, h.2⟩
  refine OKP.bind hks (fun ks hk => ?_)
  refine OKP.bind (tryParsersX_p0 env _ (position_p0 hr) ips hT (st := { s.st with rd := rd, kids := ks.1 }) ⟨hr, hk.1⟩)
    (fun r hrr => ?_)
  split
  · rename_i nd hnd
    exact OKP.pure (show P0.p ({ r.2 with kids := r.2.kids ++ [nd] } : St) from
      ⟨hrr.2.1, (p0_append _ _).mpr ⟨hrr.2.2, (p0_cons _ _).mpr ⟨hrr.1 nd hnd, p0_nil⟩⟩⟩)
  · exact OKP.pure (show P0.p ({ s with st := r.2, n := 0, sp := ks.2 } : Inl.Scan) from ⟨hrr.2, hk.2⟩)

theorem scanX_p0 (env : Env) (tbl : UInt8 → List XIp) (hT : TblP0 env tbl) :
    ∀ (l : Bytes) (i : Nat) {s : Inl.Scan}, P0.p s → OKP (scanX env tbl l i s)
  | [], _, s, h => by unfold scanX; exact OKP.pure h
  | c :: cs, i, s, h => by
    unfold scanX
    refine OKP.ite (OKP.pure h) (OKP.ite ?_ (scanX_p0 env tbl hT cs (i + 1) (bump_p0 c h)))
    split
    · rename_i st he
      exact OKP.pure (show P0.p st from triggerX_p0 env _ (hT _) i h _ he)
    · rename_i s' he
      exact scanX_p0 env tbl hT cs (i + 1) (bump_p0 c (show P0.p s' from triggerX_p0 env _ (hT _) i h _ he))
    · exact OKP.error _

theorem lineLoopX_p0 (env : Env) (tbl : UInt8 → List XIp) (hT : TblP0 env tbl) :
    ∀ (fuel : Nat) (escaped : Bool) {st : St}, P0.p st → OKP (lineLoopX env tbl fuel escaped st)
  | 0, _, _, _ => by unfold lineLoopX; exact OKP.error _
  | fuel + 1, escaped, st, hs => by
    unfold lineLoopX
    refine OKP.bind (peekLine_p0 hs.1) (fun pl hpl => ?_)
    dsimp only
    have hst : P0.p ({ st with rd := pl.2 } : St) := ⟨hpl.2, hs.2⟩
    split
    · exact OKP.pure hst
    · refine OKP.ite (OKP.throw _) ?_
      refine OKP.bind (scanX_p0 env tbl hT _ 0 ?_) (fun r hr => ?_)
      · exact ⟨hst, position_p0 hpl.2⟩
      split
      · rename_i st' esc
        exact lineLoopX_p0 env tbl hT fuel esc (show P0.p st' from hr)
      · rename_i s'
        refine OKP.bind (endOfLine_p0 _ _ (show P0.p s' from hr)) (fun st2 hst2 => ?_)
        exact lineLoopX_p0 env tbl hT fuel _ hst2

/-! ### the tables of the member sets -/

open GM.ConvertX

theorem pdX_p0 (c : XCfg) (b : Bottom) {kids : List Inl.Node} (hk : P0.p kids) : OKP (pdX c b kids) := by
  unfold pdX
  split
  · exact processDelimitersG_p0 true b hk
  · exact processDelimiters_p0 b hk

theorem linkX_p0 (c : XCfg) (env : Env) (st : St) (hs : P0.p st) : OKP ((linkX c).parse env st) := by
  unfold linkX
  split
  · rename_i hc
    show OKP (parseLinkG (pdX c) env st)
    have : pdX c = processDelimitersG true := by unfold pdX; rw [if_pos hc]
    rw [this]
    exact parseLinkG_p0 true env hs
  · exact ipParse_p0 env .link hs

theorem inlineTbl_p0 (c : XCfg) (inItem : Bool) (env : Env) : TblP0 env (inlineTbl c inItem) := by
  intro b ip hip st hs
  unfold inlineTbl at hip
  split at hip
  · split at hip
    · simp only [List.mem_singleton] at hip; subst hip; exact parseStrike_p0 env hs
    · cases hip
  · split at hip
    · simp only [List.mem_append, List.mem_singleton] at hip
      rcases hip with hip | hip
      · split at hip
        · simp only [List.mem_singleton] at hip; subst hip; exact parseTask_p0 inItem env hs
        · cases hip
      · subst hip; exact linkX_p0 c env st hs
    · split at hip
      · simp only [List.mem_singleton] at hip; subst hip; exact linkX_p0 c env st hs
      · unfold baseTbl at hip
        simp only [List.mem_map] at hip
        obtain ⟨ip', _, rfl⟩ := hip
        exact ipParse_p0 env ip' hs

theorem inlineTblL_p0 (c : GCfg) (inItem : Bool) (env : Env) : TblP0 env (inlineTblL c inItem) := by
  intro b ip hip st hs
  unfold inlineTblL at hip
  simp only [List.mem_append] at hip
  rcases hip with hip | hip
  · exact inlineTbl_p0 c.base inItem env b ip hip st hs
  · split at hip
    · simp only [List.mem_singleton] at hip; subst hip; exact parseLinkify_p0 env hs
    · cases hip

/-- **the segments of the tree `parseBlockG` answers on padding-free lines are padding-free**, all 16 member sets -/
theorem parseBlockG_p0 (c : GCfg) (inItem : Bool) (env : Env) (src : Bytes) {segs : List Segment}
    (hz : ∀ s ∈ segs, s.padding = 0) : OKP (parseBlockG env (inlineTblL c inItem) (pdX c.base) src segs) := by
  unfold parseBlockG
  refine OKP.bind (new_p0 src hz) (fun rd hr => ?_)
  refine OKP.bind (lineLoopX_p0 env _ (inlineTblL_p0 c inItem env) _ false (st := { rd := rd }) ⟨hr, p0_nil⟩) (fun st hst => ?_)
  refine OKP.bind (pdX_p0 c.base _ hst.2) (fun kids hk => ?_)
  exact OKP.pure (closeLabelsL_p0 kids hk)

theorem parseBlockG_unpadded (c : GCfg) (inItem : Bool) (env : Env) (src : Bytes) (segs : List Segment)
    (hz : ∀ s ∈ segs, s.padding = 0) (kids : List Inl.Node)
    (h : parseBlockG env (inlineTblL c inItem) (pdX c.base) src segs = .ok kids) : ∀ s ∈ segsOfL kids, s.padding = 0 :=
  (p0_nodes_iff kids).mp (parseBlockG_p0 c inItem env src hz kids h)

end GM.Proof.ConvertXE2EPad
