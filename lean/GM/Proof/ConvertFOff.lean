/-
  GM.Proof.ConvertFOff — `convertF false = convertCore`: with the extension off the composed model of GM.Model.ConvertF is the
  default pipeline (block phase: GM.Proof.ConvertFSim; every tag plain; the default trigger table; no FootnoteLink decoded;
  the transformer finds no list; the node renderers' state is the core's).
-/
import GM.Proof.ConvertFSim
import GM.Proof.ConvertX

namespace GM.ConvertF
open GM GM.Text GM.Blocks GM.Convert

/-! ### the tree: every tag plain -/

mutual
def plainTree : Tree → FTree
  | .node n cs => .node .plain n (plainTrees cs)
def plainTrees : List Tree → List FTree
  | [] => []
  | t :: rest => plainTree t :: plainTrees rest
end

theorem plainTrees_map {α} (g : α → Tree) : ∀ l : List α, plainTrees (l.map g) = l.map fun a => plainTree (g a)
  | [] => rfl
  | a :: rest => by simp only [List.map, plainTrees, plainTrees_map g rest]

theorem tagIn_empty (id : Nat) : tagIn {} .body id = .plain := by
  simp [tagIn, FS.isFn]

theorem treeOfF_empty (nodes : List Blocks.Node) : ∀ (fuel id : Nat),
    treeOfF {} nodes fuel .body id = plainTree (treeOf nodes fuel id)
  | 0, id => by simp [treeOfF, treeOf, plainTree, plainTrees, tagIn_empty, FTag.isList]
  | fuel + 1, id => by
    simp only [treeOfF, treeOf, plainTree, tagIn_empty, FTag.isList, Bool.false_eq_true, if_false, plainTrees_map]
    congr 1
    apply List.map_congr_left
    intro a _
    exact treeOfF_empty nodes fuel a

mutual
theorem plainTree_listCount : ∀ t : Tree, (plainTree t).listCount = 0
  | .node n cs => by simp [plainTree, FTree.listCount, FTag.isList, plainTrees_listCount cs]
theorem plainTrees_listCount : ∀ ts : List Tree, FTree.listCountL (plainTrees ts) = 0
  | [] => by simp [plainTrees, FTree.listCountL]
  | t :: rest => by simp [plainTrees, FTree.listCountL, plainTree_listCount t, plainTrees_listCount rest]
end

theorem monitor_empty (st : St) (t : Tree) : monitorFires {} st (plainTree t) = false := by
  simp [monitorFires, plainTree_listCount]

/-! ### the inline phase over the default table -/

theorem inlineTblF_off (refs : Option (List Bytes)) : inlineTblF false refs = GM.Inl.baseTbl := by
  funext b; simp [inlineTblF]

theorem parseBlockX_base (env : GM.Inl.Env) (src : Bytes) (segs : List Segment) :
    GM.Inl.parseBlockX env GM.Inl.baseTbl src segs = GM.Inl.parseBlock env src segs := by
  unfold GM.Inl.parseBlockX GM.Inl.parseBlock
  simp only [GM.Proof.ConvertX.lineLoopX_base]

theorem inlinePhaseF_off (guard : Bool) (refs : Option (List Bytes)) (env : GM.Inl.Env) (src : Bytes) (n : Blocks.Node) :
    inlinePhaseF false guard refs env src n = inlinePhase guard env src n := by
  simp only [inlinePhaseF, inlinePhase, inlineTblF_off, parseBlockX_base]

/-! ### no FootnoteLink is decoded -/

mutual
theorem inlineTreeF_off (m : Nat) (src : Bytes) : ∀ n : GM.Inl.Node, inlineTreeF false m src n = inlineTree src n
  | .text .. => by simp [inlineTreeF, inlineTree]
  | .codeSpan kids => by simp [inlineTreeF, inlineTree, inlineTreesF_off m src kids]
  | .emphasis lv kids => by simp [inlineTreeF, inlineTree, inlineTreesF_off m src kids]
  | .link im d t kids => by simp [inlineTreeF, inlineTree, inlineTreesF_off m src kids]
  | .autoLink .. => by simp [inlineTreeF, inlineTree]
  | .rawHTML .. => by simp [inlineTreeF, inlineTree]
  | .delim .. => by simp [inlineTreeF, inlineTree]
  | .label .. => by simp [inlineTreeF, inlineTree]
theorem inlineTreesF_off (m : Nat) (src : Bytes) : ∀ ns : List GM.Inl.Node, inlineTreesF false m src ns = inlineTrees src ns
  | [] => by simp [inlineTreesF, inlineTrees]
  | n :: rest => by simp [inlineTreesF, inlineTrees, inlineTreeF_off m src n, inlineTreesF_off m src rest]
end

/-! ### the tree in front of the transformer is GM.Convert.docTree's -/

mutual
theorem docTreeF_plain (guard : Bool) (refs : Option (List Bytes)) (env : GM.Inl.Env) (src : Bytes) : ∀ t : Tree,
    docTreeF false guard refs env src (plainTree t) = docTree guard env src t
  | .node n cs => by
    unfold plainTree docTreeF docTree
    rw [docTreesF_plain guard refs env src cs, inlinePhaseF_off]
    simp only [inlineTreesF_off, blockKindF]
theorem docTreesF_plain (guard : Bool) (refs : Option (List Bytes)) (env : GM.Inl.Env) (src : Bytes) : ∀ ts : List Tree,
    docTreesF false guard refs env src (plainTrees ts) = docTrees guard env src ts
  | [] => by unfold plainTrees docTreesF docTrees; rfl
  | t :: rest => by
    unfold plainTrees docTreesF docTrees
    rw [docTreeF_plain guard refs env src t, docTreesF_plain guard refs env src rest]
end

/-! ### the composition -/

theorem parseDocF_off (guard : Bool) (uc : List (Nat × (Bool × Bool))) (src : Bytes) :
    parseDocF false guard uc src = parseDoc guard uc src := by
  unfold parseDocF parsePhases parseDoc blockPhaseF blockPhase
  rw [runF_off]
  cases runT (paragraphTransformers guard) src with
  | error e => rfl
  | ok st =>
    simp only [Except.map, liftErr, bind, Except.bind, listKids, treeOfF_empty, monitor_empty, docTreeF_plain,
      Bool.false_eq_true, if_false]
    cases docTree guard { refs := st.pc.refs, uc := uc } src (treeOf st.nodes st.nodes.length 0) with
    | error e => rfl
    | ok t => simp [finishDoc, pure, Except.pure]

theorem rcfgF_off (pre : Option Bytes) (o : ROpts) : rcfgF false pre o = o.rcfg := rfl

theorem convertFWith_off (guard : Bool) (pre : Option Bytes) (uc : List (Nat × (Bool × Bool))) (o : ROpts) (src : Bytes) :
    convertFWith false guard pre uc o src = convertWith guard uc o src := by
  unfold convertFWith convertWith
  rw [parseDocF_off]
  rfl

end GM.ConvertF
