/-
  GM.Proof.E2EMain — the composed end-to-end statements of GM.Props.ConvertE2E with their proofs (the Props file only
  restates them): C03 / C04 / C10 over `convertCore`, from `parseDoc_inv` (GM.Proof.E2ETree), `convertWith_ok`
  (GM.Proof.E2ERender), `ir_urlOK` (GM.Proof.E2EUrl) and the factorisation of GM.Proof.RenderIR.
-/
import GM.Proof.E2ERender
import GM.Proof.E2EUrl
import GM.Proof.RenderWF.Tokenize

namespace GM.E2E
open GM GM.Text GM.Convert GM.Spec

theorem safe_wellformed (uc : List (Nat × (Bool × Bool))) (o : ROpts) (src : Bytes) (html : Bytes)
    (h : convertCore uc o src = .ok html) (hsafe : o.unsafe_ = false) :
    Spec.safeHtmlOK o.xhtml html = true ∧ Spec.xmlOK html = true := by
  obtain ⟨t, ht, rfl⟩ := convertWith_ok h
  have hinv := parseDoc_inv (ROpts.opts o) {} true uc src t ht
  exact ⟨GM.Proof.RenderWF.safeHtmlOK_of_wf (GM.Proof.RenderWF.render_wf (ROpts.opts o) {} t hsafe hinv),
    GM.Proof.RenderWF.xmlOK_of_wf (GM.Proof.RenderWF.render_wf (ROpts.opts o) {} t hsafe hinv)⟩

theorem safe_urls_harmless (uc : List (Nat × (Bool × Bool))) (o : ROpts) (src : Bytes) (html : Bytes)
    (h : convertCore uc o src = .ok html) (hsafe : o.unsafe_ = false) :
    ∃ ps : List Piece, html = ps.flatMap (emit o.xhtml o.hardWraps false) ∧
      ∀ pre d post, ps = pre ++ Piece.url d :: post →
        ∃ pre' tag m c post', pre = pre' ++ [Piece.lit (tag ++ m)] ∧ post = Piece.lit (34 :: c) :: post' ∧
          (tag = strBytes "<a href=\"" ∨ tag = strBytes "<img src=\"") ∧
          html = pre'.flatMap (emit o.xhtml o.hardWraps false) ++ tag ++ (m ++ urlOut false d) ++
                  34 :: (c ++ post'.flatMap (emit o.xhtml o.hardWraps false)) ∧
          (∀ b ∈ m ++ urlOut false d, b ≠ 34) ∧
          hrefDangerous lookupEntity (m ++ urlOut false d) = false := by
  obtain ⟨t, ht, rfl⟩ := convertWith_ok h
  have hf : render o.rcfg t = (ir {} 1 false t).flatMap (emit o.xhtml o.hardWraps false) := by
    rw [render_pinned, GM.Proof.render_factor (ROpts.optsPinned o) {} 1 rfl rfl (by decide) t]
    show (ir {} 1 false t).flatMap (emit o.xhtml o.hardWraps o.unsafe_) = _
    rw [hsafe]
  refine ⟨ir {} 1 false t, hf, ?_⟩
  intro pre d post e
  obtain ⟨pre', a, c, post', h1, h2, m, htag, hq, hd⟩ := ir_urlOK {} 1 false t pre d post e
  have key : ∀ tag, a = tag ++ m →
      render o.rcfg t = pre'.flatMap (emit o.xhtml o.hardWraps false) ++ tag ++ (m ++ urlOut false d) ++
        34 :: (c ++ post'.flatMap (emit o.xhtml o.hardWraps false)) := by
    intro tag ha
    rw [hf, e, h1, h2, ha]
    simp [emit_lit, emit_url]
  rcases htag with ha | ha
  · exact ⟨pre', _, m, c, post', by rw [h1, ha], h2, .inl rfl, key _ ha, hq, hd⟩
  · exact ⟨pre', _, m, c, post', by rw [h1, ha], h2, .inr rfl, key _ ha, hq, hd⟩

theorem tree_independent_of_options (uc : List (Nat × (Bool × Bool))) (src : Bytes) :
    (∃ t, parseDoc true uc src = .ok t ∧ ∀ o : ROpts, convertCore uc o src = .ok (render o.rcfg t)) ∨
    (∃ e, parseDoc true uc src = .error e ∧ ∀ o : ROpts, convertCore uc o src = .error e) := by
  cases hp : parseDoc true uc src with
  | error e => exact .inr ⟨e, rfl, fun o => convertWith_of_err o hp⟩
  | ok t => exact .inl ⟨t, rfl, fun o => convertWith_of_tree o hp⟩

theorem options_orthogonal (uc : List (Nat × (Bool × Bool))) (src : Bytes) :
    (∃ ps : List Piece, ∀ o : ROpts, ∃ html, convertCore uc o src = .ok html ∧
        html = ps.flatMap (emit o.xhtml o.hardWraps o.unsafe_) ∧
        html = (ps.flatMap (hardWrap o.hardWraps)).flatMap
          (fun p => if p.isVoidEnd then voidEndBytes o.xhtml else emitBase false o.unsafe_ p) ∧
        html = ps.flatMap (fun p => (if p.isSoftBreak && o.hardWraps then strBytes "<br" ++ voidEndBytes o.xhtml else []) ++
                              emit o.xhtml false o.unsafe_ p) ∧
        html = ps.flatMap (fun p => if p.unsafeSensitive then emit o.xhtml o.hardWraps o.unsafe_ p
                                    else emit o.xhtml o.hardWraps false p)) ∨
    (∃ e, ∀ o : ROpts, convertCore uc o src = .error e) := by
  rcases tree_independent_of_options uc src with ⟨t, _, ht⟩ | ⟨e, _, he⟩
  · refine .inl ⟨ir {} 1 false t, fun o => ⟨_, ht o, ?_, ?_, ?_, ?_⟩⟩
    · rw [render_pinned]; exact GM.Proof.render_factor (ROpts.optsPinned o) {} 1 rfl rfl (by decide) t
    · rw [render_pinned, GM.Proof.render_factor (ROpts.optsPinned o) {} 1 rfl rfl (by decide) t, GM.Proof.flatMap_emit,
        GM.Proof.emitBase_xhtml_fun]
      rfl
    · rw [render_pinned, GM.Proof.render_factor (ROpts.optsPinned o) {} 1 rfl rfl (by decide) t]
      show (ir {} 1 false t).flatMap (emit o.xhtml o.hardWraps o.unsafe_) = _
      cases o.hardWraps with
      | false => simp
      | true => rw [GM.Proof.emit_hardWraps_fun]; simp
    · rw [render_pinned, GM.Proof.render_factor (ROpts.optsPinned o) {} 1 rfl rfl (by decide) t, ← GM.Proof.emit_unsafe_fun]
      rfl
  · exact .inr ⟨e, he⟩

theorem unsafe_only_changes_raw (uc : List (Nat × (Bool × Bool))) (o : ROpts) (src : Bytes) (html html' : Bytes)
    (h : convertCore uc { o with unsafe_ := false } src = .ok html)
    (h' : convertCore uc { o with unsafe_ := true } src = .ok html') :
    ∃ ps : List Piece, html = ps.flatMap (emit o.xhtml o.hardWraps false) ∧
      html' = ps.flatMap (emit o.xhtml o.hardWraps true) ∧
      ∀ p ∈ ps, p.unsafeSensitive = false → emit o.xhtml o.hardWraps true p = emit o.xhtml o.hardWraps false p := by
  rcases options_orthogonal uc src with ⟨ps, hps⟩ | ⟨e, he⟩
  · obtain ⟨x, hx, e1, _⟩ := hps { o with unsafe_ := false }
    obtain ⟨y, hy, e2, _⟩ := hps { o with unsafe_ := true }
    rw [hx] at h; cases h
    rw [hy] at h'; cases h'
    exact ⟨ps, e1, e2, fun p _ hp => GM.Proof.emit_unsafeOff o.xhtml o.hardWraps true p hp⟩
  · rw [he] at h; cases h

end GM.E2E
