/-
  GM.Proof.BlocksShapeJDrv — `ItemPar` ("a ListItem's parent is a List") through the driver of the block phase
  (closeBlocks, openBlocks, the line loops, `run`). Everything is the syntactic walk `jp` of GM.Proof.BlocksShapeJ but
  the one `AppendChild(parent, node)` of openBlocks (parser.go:1003), which is taken under the condition `CondA`:
  the node is inside the store and, if it is a ListItem, `parent` is a List — what `bpOpen_ret` and the first test of
  listItemParser.Open give.
-/
import GM.Proof.BlocksShapeJ

namespace GM.Blocks
open GM GM.Text GM.Spec GM.Proof.Reader

/-! ### closeBlocks -/

theorem closeLoop_jp (blocks : List Block) (to : Int) : ∀ k, JP (closeLoop blocks to k) := by
  intro k
  induction k with
  | zero => unfold closeLoop; exact JP.pure _
  | succ k ih =>
    have := bpClose_jp
    unfold closeLoop
    jp

theorem closeBlocks_jp (frm to : Int) : JP (closeBlocks frm to) := by
  have := closeLoop_jp
  unfold closeBlocks
  jp

/-! ### the attempt behind `Open` -/

/-- the condition under which `AppendChild(parent, node)` keeps `ItemPar` -/
def CondA (parent node : Nat) (s : St) : Prop :=
  node < s.nodes.length ∧ ((nd s node).kind = .listItem → (nd s parent).kind = .list)

theorem CondA.kk {parent node : Nat} {s s' : St} (h : CondA parent node s) (q : KK s s') : CondA parent node s' := by
  refine ⟨Nat.lt_of_lt_of_le h.1 q.1, fun hk => ?_⟩
  rw [q.2 node h.1] at hk
  have hp := h.2 hk
  rw [q.2 parent (lt_of_kind_list hp)]; exact hp

structure JPc (parent node : Nat) {α : Type} (m : M α) : Prop where
  h : ∀ s a s', ItemPar s → CondA parent node s → m s = .ok (a, s') → ItemPar s' ∧ KK s s'

theorem JPc.of_jp {parent node : Nat} {α} {m : M α} (h : JP m) : JPc parent node m :=
  ⟨fun s a s' hJ _ e => h.h s a s' hJ e⟩

theorem JPc.bind {parent node : Nat} {α β} {m : M α} {f : α → M β} (hm : JPc parent node m)
    (hf : ∀ a, JPc parent node (f a)) : JPc parent node (m >>= f) := by
  constructor
  intro s b s' hJ hC h
  obtain ⟨a, s1, h1, k1⟩ := obind_ok h
  obtain ⟨j1, q1⟩ := hm.h s a s1 hJ hC h1
  obtain ⟨j2, q2⟩ := (hf a).h s1 b s' j1 (hC.kk q1) k1
  exact ⟨j2, q1.trans q2⟩

theorem JPc.ite {parent node : Nat} {α} {c : Prop} [Decidable c] {a b : M α} (ha : JPc parent node a)
    (hb : JPc parent node b) : JPc parent node (if c then a else b) := by
  split <;> assumption

theorem appendChild_jpc (parent node : Nat) : JPc parent node (appendChild parent node) :=
  ⟨fun _ _ _ hJ hC e => appendChild_ip hJ hC.2 e⟩

macro "jpc_step" : tactic =>
  `(tactic| first
    | with_reducible apply appendChild_jpc
    | with_reducible apply JPc.bind
    | with_reducible apply JPc.ite
    | intro _
    | split
    | with_reducible apply JPc.of_jp
    | jp_step)

macro "jpc" : tactic => `(tactic| repeat' jpc_step)

/-- `Open`, then a continuation that attaches the node answered -/
theorem open_bind_jp {β : Type} (bp : BP) (parent : Nat) (f : Option Nat × PState → M β)
    (hnone : ∀ st, JP (f (none, st))) (hsome : ∀ id st, JPc parent id (f (some id, st))) :
    JP (bpOpen bp parent >>= f) := by
  constructor
  intro s b s' hJ h
  obtain ⟨a, s2, h2, k2⟩ := obind_ok h
  obtain ⟨j2, q2⟩ := (bpOpen_jp bp parent).h s a s2 hJ h2
  obtain ⟨_, hret⟩ := bpOpen_ret h2
  obtain ⟨nd?, st⟩ := a
  cases nd? with
  | none =>
    obtain ⟨j3, q3⟩ := (hnone st).h s2 b s' j2 k2
    exact ⟨j3, q2.trans q3⟩
  | some id =>
    obtain ⟨r1, r2, r3⟩ := hret id rfl
    have hC : CondA parent id s2 := by
      refine ⟨r2, fun hk => ?_⟩
      rw [r3] at hk
      have hbp : bp = .listItem := by cases bp <;> first | rfl | exact absurd hk (by decide)
      subst hbp
      by_cases hkl : (nd s parent).kind = .list
      · rw [q2.2 parent (lt_of_kind_list hkl)]; exact hkl
      · exfalso
        have e' : listItemOpen parent s = .ok ((some id, st), s2) := h2
        rw [GM.Blocks.L.listItemOpen_notList parent s hkl] at e'
        cases e'
    obtain ⟨j3, q3⟩ := (hsome id st).h s2 b s' j2 hC k2
    exact ⟨j3, q2.trans q3⟩

theorem tryParsers_jp (parent : Nat) (blank cont : Bool) (w : Int) :
    ∀ (bps : List BP) (result : OpenResult) (lb : Option Block), JP (tryParsers parent blank cont w bps result lb) := by
  intro bps
  induction bps with
  | nil => intro result lb; unfold tryParsers; exact JP.pure _
  | cons bp bps ih =>
    intro result lb
    have hcb := closeBlocks_jp
    have hcl := bpClose_jp
    unfold tryParsers
    apply JP.ite
    · jp
    apply JP.ite
    · jp
    apply JP.bind lastOpenedBlock_jp
    intro lastBlock
    refine open_bind_jp bp parent _ (fun st => ?_) (fun id st => ?_)
    · dsimp only
      exact ih _ _
    · dsimp only
      jpc

theorem toContinuable_jp (cont : Bool) (result : OpenResult) (lb : Option Block) : JP (toContinuable cont result lb) := by
  have := bpContinue_jp
  unfold toContinuable
  jp

theorem openBlocksLoop_jp (blank cont : Bool) :
    ∀ (fuel parent : Nat) (result : OpenResult) (lb : Option Block), JP (openBlocksLoop blank cont fuel parent result lb) := by
  intro fuel
  induction fuel with
  | zero => intro parent result lb; unfold openBlocksLoop; exact JP.throw _
  | succ fuel ih =>
    intro parent result lb
    have := toContinuable_jp
    have := tryParsers_jp
    unfold openBlocksLoop
    jp

theorem openBlocks_jp (parent : Nat) (blank : Bool) : JP (openBlocks parent blank) := by
  have := openBlocksLoop_jp
  unfold openBlocks
  jp

/-! ### the line loops -/

theorem lineLoop_jp (parent : Nat) (ob : List Block) (li : Int) :
    ∀ (rest : List Block) (i : Int) (bl : List LineStat), JP (lineLoop parent ob li rest i bl) := by
  intro rest
  induction rest with
  | nil => intro i bl; unfold lineLoop; exact JP.pure _
  | cons be rest ih =>
    intro i bl
    have := closeBlocks_jp
    have := bpContinue_jp
    have := openBlocks_jp
    unfold lineLoop
    jp

theorem linesLoop_jp (parent : Nat) : ∀ (fuel : Nat) (bl : List LineStat), JP (linesLoop parent fuel bl) := by
  intro fuel
  induction fuel with
  | zero => intro bl; unfold linesLoop; exact JP.throw _
  | succ fuel ih =>
    intro bl
    have := lineLoop_jp
    unfold linesLoop
    jp

theorem blocksLoop_jp (parent : Nat) : ∀ (fuel : Nat) (bl : List LineStat), JP (blocksLoop parent fuel bl) := by
  intro fuel
  induction fuel with
  | zero => intro bl; unfold blocksLoop; exact JP.throw _
  | succ fuel ih =>
    intro bl
    have := linesLoop_jp
    have := openBlocks_jp
    unfold blocksLoop
    jp

theorem parseBlocks_jp (parent : Nat) : JP (parseBlocks parent) := by
  have := blocksLoop_jp
  unfold parseBlocks
  jp

/-- **a ListItem's parent is a List, for every byte string**: in the final store of the block phase every node of
    kind ListItem whose parent pointer is set points to a node of kind List -/
theorem run_itemPar (src : Bytes) (s : St) (h : run src = .ok s) : ItemPar s := by
  unfold run at h
  cases hp : parseBlocks 0 (initSt src) with
  | error e => rw [hp] at h; cases h
  | ok p =>
    rw [hp] at h
    obtain ⟨u, s1⟩ := p
    have hs : s1 = s := by simpa [Except.map] using h
    subst hs
    have h0 : ItemPar (initSt src) := by
      intro i p hk _
      cases i with
      | zero => cases hk
      | succ n => cases hk
    exact ((parseBlocks_jp 0).h (initSt src) u s1 h0 hp).1

end GM.Blocks
