/-
  GM.Proof.ConvertHVMain — the hook fact of GM.Proof.ConvertHVSim (`vhook`), whole runs (`runH_of_runV`), and the
  composition: if the monitored block driver `runV` with the default paragraph transformer is total, `convertH true` is total
  (`convertH_total_of_runV`, with builder e2e's `converth_total_of_block_phase`).
-/
import GM.Proof.ConvertHVSim
import GM.Proof.ConvertHWFDrv

namespace GM.ConvertH
open GM GM.Text GM.Blocks GM.Convert

/-- with the last line's `Value` in hand, generateAutoHeadingID returns -/
theorem genTail_ok (node : Nat) (line : Bytes) (h : HS) (s : St) :
    ∃ h', (do
      let h ← getH
      match Ids.generate h.ids line true with
      | none => throw Panic.loop
      | some (id, tbl) =>
        setH { ids := tbl, attrs := setNodeAttr h.attrs node (Attr.nameId, .bytes id),
               ops := h.ops ++ [.gen line true], gens := h.gens ++ [{ node := node, text := line, id := id }] } : MH Unit) h s
        = .ok (((), h'), s) := by
  obtain ⟨id, hg⟩ := GM.Proof.Ids.generate_isSome h.ids line true
  simp only [mh_bind_apply, getH_apply, hg, setH_apply]
  exact ⟨_, rfl⟩

theorem generateAutoHeadingID_ok (node : Nat) (h : HS) (s : St) (s' : St) (e : valueCheck node s = .ok ((), s')) :
    s' = s ∧ ∃ h', generateAutoHeadingID node h s = .ok (((), h'), s) := by
  unfold valueCheck at e
  have e0 : getNode node s = .ok (s.nodes.getD node default, s) := rfl
  rw [m_bind_apply, e0] at e
  dsimp only at e
  unfold generateAutoHeadingID
  rw [mh_bind_apply, up_apply, e0]
  dsimp only
  cases hl : (s.nodes.getD node default).lines.getLast? with
  | none =>
    simp only [hl] at e ⊢
    cases e
    refine ⟨rfl, ?_⟩
    simp only [mh_bind_apply, mh_pure_apply]
    exact genTail_ok node [] h s
  | some seg =>
    simp only [hl] at e ⊢
    have e1 : source s = .ok (s.r.source, s) := rfl
    rw [m_bind_apply, e1] at e
    dsimp only at e
    rw [m_bind_apply] at e
    cases hv : seg.value s.r.source with
    | error x => simp only [liftE, hv, Except.map] at e; cases e
    | ok line =>
      simp only [liftE, hv, Except.map] at e
      cases e
      refine ⟨rfl, ?_⟩
      simp only [mh_bind_apply, up_apply, e1, liftE, hv, Except.map]
      exact genTail_ok node line h s

theorem autoIdClose_ok (node : Nat) (h : HS) (s : St) (s' : St) (e : valueCheck node s = .ok ((), s')) :
    s' = s ∧ ∃ h', autoIdClose node h s = .ok (((), h'), s) := by
  obtain ⟨es, h1, e1⟩ := generateAutoHeadingID_ok node h s s' e
  refine ⟨es, ?_⟩
  unfold autoIdClose
  rw [mh_bind_apply, getH_apply]
  dsimp only
  cases hl : attrLookup ((nodeAttrs h node).getD []) Attr.nameId with
  | none => exact ⟨h1, e1⟩
  | some v => cases v <;> exact ⟨_, rfl⟩

theorem vhook : VHook := by
  intro bp node
  constructor
  intro h s a s' e
  unfold bpCloseV at e
  obtain ⟨u, s1, e1, k1⟩ := bind_ok e
  unfold bpCloseH
  rw [mh_bind_apply, up_apply, e1]
  dsimp only
  cases hp : BP.isHeadingParser bp with
  | false =>
    simp only [hp, Bool.false_eq_true, if_false, Bool.and_false] at k1 ⊢
    cases k1
    exact ⟨h, rfl⟩
  | true =>
    simp only [hp, if_true, Bool.and_self] at k1 ⊢
    obtain ⟨es, h', e'⟩ := autoIdClose_ok node h s1 s' k1
    rw [es]
    exact ⟨h', e'⟩

/-- **when the monitored driver ends normally, so does the driver with AutoHeadingID, in the same store** -/
theorem runH_of_runV (pts : List PT) (src : Bytes) (st : St) (e : runV pts src = .ok st) :
    ∃ hs, runH true pts src = .ok (hs, st) := by
  unfold runV at e
  cases hx : parseBlocksV pts 0 (initSt src) with
  | error x => rw [hx] at e; cases e
  | ok r =>
    obtain ⟨u, s'⟩ := r
    rw [hx] at e
    simp only [Except.map] at e
    cases e
    obtain ⟨h', eh⟩ := (parseBlocksH_vsim vhook pts 0).h {} (initSt src) u _ hx
    exact ⟨h', by unfold runH; rw [eh]; rfl⟩

end GM.ConvertH
