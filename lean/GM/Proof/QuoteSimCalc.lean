/-
  GM.Proof.QuoteSimCalc — the calculus of the C08 simulation argument.

  Two runs of the block-phase model are compared: run A on a source `src`, run B on `quotePrefix src`.
  `S2 Q x y`: if the A-side result `x` ended normally, so did the B-side result `y`, and values and states
  are related by `Q` ("forward simulation"; nothing is claimed when A panics). `S2.bind` executes two `do`
  blocks in lock step.

  Reader relation. `R3 src k ls p rA rB`: reader A stands at byte `p` of line `k` of `src` (which starts at
  `ls`), reader B at the same byte of the prefixed source, i.e. at `p + 2·(k+1)`; both without padding (the
  source has no tab). `L3 src k ls rA rB`: both at the START of line `k`, B still in front of its marker
  (`ls + 2·k`), or both at the end of their sources. All reader primitives the block parsers use are related.
-/
import GM.Proof.QuoteSimBytes
import GM.Proof.BlocksTotal

namespace GM.Blocks
open GM GM.Text GM.Spec GM.Proof.Reader

/-! ### the binary forward calculus -/

def S2 {α β : Type} (Q : α → β → St → St → Prop) (x : Except Panic (α × St)) (y : Except Panic (β × St)) : Prop :=
  ∀ a sA, x = .ok (a, sA) → ∃ b sB, y = .ok (b, sB) ∧ Q a b sA sB

theorem S2.ok {α β} {Q : α → β → St → St → Prop} {a b sA sB} (h : Q a b sA sB) :
    S2 Q (.ok (a, sA)) (.ok (b, sB)) := by
  intro a' sA' e; cases e; exact ⟨b, sB, rfl, h⟩

theorem S2.err {α β} {Q : α → β → St → St → Prop} {e y} : S2 Q (.error e : Except Panic (α × St)) y (β := β) := by
  intro a' sA' h; cases h

theorem S2.pure {α β} {Q : α → β → St → St → Prop} {a : α} {b : β} {sA sB : St} (h : Q a b sA sB) :
    S2 Q ((Pure.pure a : M α) sA) ((Pure.pure b : M β) sB) := S2.ok h

theorem S2.mono {α β} {P Q : α → β → St → St → Prop} {x y} (h : S2 P x y)
    (hpq : ∀ a b sA sB, P a b sA sB → Q a b sA sB) : S2 Q x y := by
  intro a sA e
  obtain ⟨b, sB, h1, h2⟩ := h a sA e
  exact ⟨b, sB, h1, hpq _ _ _ _ h2⟩

theorem S2.bind {α β α' β'} {P : α → β → St → St → Prop} {Q : α' → β' → St → St → Prop}
    {mA : M α} {mB : M β} {fA : α → M α'} {fB : β → M β'} {sA sB : St}
    (hm : S2 P (mA sA) (mB sB)) (hf : ∀ a b sA' sB', P a b sA' sB' → S2 Q (fA a sA') (fB b sB')) :
    S2 Q ((mA >>= fA) sA) ((mB >>= fB) sB) := by
  show S2 Q (StateT.bind mA fA sA) (StateT.bind mB fB sB)
  unfold StateT.bind
  intro a' sA' e
  cases hA : mA sA with
  | error e1 => rw [hA] at e; cases e
  | ok x =>
    obtain ⟨a, sA1⟩ := x
    obtain ⟨b, sB1, h1, h2⟩ := hm a sA1 hA
    rw [hA] at e
    rw [h1]
    exact hf a b sA1 sB1 h2 a' sA' e

/-- A runs `mA`, B does nothing -/
theorem S2.bindL {α α' β'} {P : α → St → St → Prop} {Q : α' → β' → St → St → Prop}
    {mA : M α} {fA : α → M α'} {y : Except Panic (β' × St)} {sA sB : St}
    (hm : ∀ a sA', mA sA = .ok (a, sA') → P a sA' sB)
    (hf : ∀ a sA', P a sA' sB → S2 Q (fA a sA') y) :
    S2 Q ((mA >>= fA) sA) y := by
  show S2 Q (StateT.bind mA fA sA) y
  unfold StateT.bind
  intro a' sA' e
  cases hA : mA sA with
  | error e1 => rw [hA] at e; cases e
  | ok x =>
    obtain ⟨a, sA1⟩ := x
    rw [hA] at e
    exact hf a sA1 (hm a sA1 hA) a' sA' e

/-- B runs `mB` (which ends normally), A does nothing -/
theorem S2.bindR {β α' β'} {Q : α' → β' → St → St → Prop}
    {mB : M β} {fB : β → M β'} {x : Except Panic (α' × St)} {sB sB1 : St} {b : β}
    (hm : mB sB = .ok (b, sB1)) (hf : S2 Q x (fB b sB1)) :
    S2 Q x ((mB >>= fB) sB) := by
  show S2 Q x (StateT.bind mB fB sB)
  unfold StateT.bind
  rw [hm]; exact hf

theorem S2.liftE {α β} {Q : α → β → St → St → Prop} {eA : Except Panic α} {eB : Except Panic β} {sA sB : St}
    (h : ∀ a, eA = .ok a → ∃ b, eB = .ok b ∧ Q a b sA sB) : S2 Q (liftE eA sA) (liftE eB sB) := by
  intro a sA' e
  cases eA with
  | error x => cases e
  | ok a0 =>
    obtain ⟨b, hb, hq⟩ := h a0 rfl
    subst hb
    cases e
    exact ⟨b, sB, rfl, hq⟩

theorem S2.throwL {α β} {Q : α → β → St → St → Prop} {e : Panic} {sA : St} {y} :
    S2 Q ((throw e : M α) sA) y (β := β) := by
  intro a sA' h; cases h

/-- exact execution of one run -/
theorem bind_run {α β} {m : M α} {f : α → M β} {s s1 : St} {a : α} (h : m s = .ok (a, s1)) :
    (m >>= f) s = f a s1 := by
  show StateT.bind m f s = _
  unfold StateT.bind; rw [h]; rfl

/-! ### shifting segments by the markers of line `k` -/

def shK (k : Nat) (s : Segment) : Segment :=
  { s with start := s.start + 2 * ((k : Int) + 1), stop := s.stop + 2 * ((k : Int) + 1) }

/-- a position inside line `k` (which starts at `ls`): at one of its bytes, or at the end of the source
    directly behind a last line without `\n` -/
structure InL (src : Bytes) (k ls p : Nat) : Prop where
  line : LineAt src k ls
  ge : ls ≤ p
  le : p ≤ lineEnd src ls
  eof : p = lineEnd src ls → lineEnd src ls = src.length ∧ src[lineEnd src ls - 1]? ≠ some 10

theorem InL.start {src k ls} (h : LineAt src k ls) : InL src k ls ls :=
  ⟨h, Nat.le_refl _, Nat.le_of_lt (lt_lineEnd src h.lt), fun e => by have := lt_lineEnd src h.lt; omega⟩

theorem InL.lt_iff {src k ls p} (h : InL src k ls p) : p < src.length ↔ p < lineEnd src ls := by
  have := lineEnd_le src ls
  constructor
  · intro hp
    rcases Nat.lt_or_ge p (lineEnd src ls) with h1 | h1
    · exact h1
    · have := h.eof (by have := h.le; omega); omega
  · intro hp; omega

theorem InL.lineEnd_eq {src k ls p} (h : InL src k ls p) : lineEnd src p = lineEnd src ls := by
  rcases Nat.lt_or_ge p (lineEnd src ls) with h1 | h1
  · exact (qp_lineEnd h.line h.ge h1).2
  · have e : p = lineEnd src ls := by have := h.le; omega
    have := (h.eof e).1
    rw [e, this]; exact GM.Proof.Reader.lineEnd_of_ge src (Nat.le_refl _)

/-- the bytes from `p` to `p+n` are not `\n` -/
theorem InL.no_nl {src k ls p} (h : InL src k ls p) {q : Nat} (h1 : ls ≤ q) (h2 : q < p) : src[q]? ≠ some 10 := by
  rcases Nat.lt_or_ge (q + 1) (lineEnd src ls) with h3 | h3
  · exact line_no_nl h1 h3
  · have e : p = lineEnd src ls := by have := h.le; omega
    have := (h.eof e).2
    have e2 : q = lineEnd src ls - 1 := by omega
    rw [e2]; exact this

/-- `n` bytes that are no `\n`, no padding: `n` steps are `n` bytes on the same line -/
theorem advN_bytes (src : Bytes) (n : Nat) : ∀ (c : RCur), c.pad = 0 →
    (∀ j, j < n → c.p + j < src.length ∧ src[c.p + j]? ≠ some 10) →
    RCur.advN src n c = { c with p := c.p + n } := by
  induction n with
  | zero => intro c _ _; rfl
  | succ n ih =>
    intro c hz hb
    obtain ⟨hp, hnl⟩ := hb 0 (by omega)
    simp only [Nat.add_zero] at hp hnl
    have hb' : ¬ src[c.p] = 10 := by simpa [List.getElem?_eq_getElem hp] using hnl
    have e : RCur.adv1 src c = { c with p := c.p + 1 } := by simp [RCur.adv1, hp, hz, hb']
    simp only [RCur.advN]
    rw [e, ih { c with p := c.p + 1 } hz (fun j hj => by
      have := hb (j + 1) (by omega)
      simp only
      rw [show c.p + 1 + j = c.p + (j + 1) by omega]; exact this)]
    simp; omega

theorem advN_inl {src k ls p} (h : InL src k ls p) (n : Nat) (h' : InL src k ls (p + n)) :
    RCur.advN src n ⟨k, p, 0⟩ = ⟨k, p + n, 0⟩ := by
  rw [advN_bytes src n ⟨k, p, 0⟩ rfl]
  intro j hj
  have hle := lineEnd_le src ls
  have := h'.le
  exact ⟨by simp only; omega, h'.no_nl (by have := h.ge; simp only; omega) (by simp only; omega)⟩

theorem advN_inl_q {src k ls p} (h : InL src k ls p) (n : Nat) (h' : InL src k ls (p + n)) :
    RCur.advN (quotePrefix src) n ⟨k, p + 2 * (k + 1), 0⟩ = ⟨k, p + n + 2 * (k + 1), 0⟩ := by
  rw [advN_bytes (quotePrefix src) n ⟨k, p + 2 * (k + 1), 0⟩ rfl]
  · simp; omega
  intro j hj
  have hle := qp_length_ge h.line
  have h1 := h'.le
  have hq : (quotePrefix src)[p + j + 2 * (k + 1)]? = src[p + j]? :=
    qp_byte h.line (by have := h.ge; omega) (by omega)
  have hnl := h'.no_nl (q := p + j) (by have := h.ge; omega) (by omega)
  simp only
  rw [show p + 2 * (k + 1) + j = p + j + 2 * (k + 1) by omega]
  exact ⟨by omega, by rw [hq]; exact hnl⟩

/-! ### the reader relations -/

structure R3 (src : Bytes) (k ls p : Nat) (rA rB : Reader) : Prop where
  tf : ∀ c ∈ src, c ≠ 9
  inl : InL src k ls p
  a : RI src rA ⟨k, p, 0⟩
  b : RI (quotePrefix src) rB ⟨k, p + 2 * (k + 1), 0⟩

structure L3 (src : Bytes) (k ls : Nat) (rA rB : Reader) : Prop where
  tf : ∀ c ∈ src, c ≠ 9
  a : RI src rA ⟨k, ls, 0⟩
  b : RI (quotePrefix src) rB ⟨k, ls + 2 * k, 0⟩
  here : LineAt src k ls ∨ (ls = src.length ∧ (quotePrefix src).length = ls + 2 * k)

/-- the view and the segment at a position of line `k` -/
def viewA (src : Bytes) (ls p : Nat) : Option Bytes :=
  if p < lineEnd src ls then some (sub src p (lineEnd src ls)) else none

def segA (src : Bytes) (ls p : Nat) : Segment := { start := p, stop := lineEnd src ls, padding := 0 }

theorem view_A {src k ls p} (h : InL src k ls p) : RCur.view src ⟨k, p, 0⟩ = viewA src ls p := by
  unfold viewA
  simp only [RCur.view, h.lineEnd_eq, spaces, List.replicate_zero, List.nil_append]
  by_cases hp : p < src.length
  · rw [if_pos hp, if_pos (h.lt_iff.mp hp)]
  · rw [if_neg hp, if_neg (fun h2 => hp (h.lt_iff.mpr h2))]

theorem view_B {src k ls p} (h : InL src k ls p) :
    RCur.view (quotePrefix src) ⟨k, p + 2 * (k + 1), 0⟩ = viewA src ls p := by
  unfold viewA
  have hge := qp_length_ge h.line
  simp only [RCur.view, spaces, List.replicate_zero, List.nil_append]
  by_cases hp : p < lineEnd src ls
  · rw [if_pos hp, if_pos (by omega), (qp_lineEnd h.line h.ge hp).1, qp_sub h.line h.ge (Nat.le_of_lt hp) (Nat.le_refl _)]
  · have e : p = lineEnd src ls := by have := h.le; omega
    have hl := qp_length_end h.line (h.eof e).1
    rw [if_neg hp, if_neg (by have := (h.eof e).1; omega)]

theorem seg_A {src k ls p} (h : InL src k ls p) : RCur.seg src ⟨k, p, 0⟩ = segA src ls p := by
  simp [RCur.seg, segA, h.lineEnd_eq]

theorem seg_B {src k ls p} (h : InL src k ls p) :
    RCur.seg (quotePrefix src) ⟨k, p + 2 * (k + 1), 0⟩ = shK k (segA src ls p) := by
  simp only [RCur.seg, segA, shK, Segment.mk.injEq, and_true, true_and]
  refine ⟨by omega, ?_⟩
  by_cases hp : p < lineEnd src ls
  · rw [(qp_lineEnd h.line h.ge hp).1]; omega
  · have e : p = lineEnd src ls := by have := h.le; omega
    have hl := qp_length_end h.line (h.eof e).1
    rw [GM.Proof.Reader.lineEnd_of_ge _ (by have := (h.eof e).1; omega), hl]
    have := (h.eof e).1; omega

theorem sub_tf {src : Bytes} (tf : ∀ c ∈ src, c ≠ 9) (a b : Nat) : ∀ c ∈ sub src a b, c ≠ 9 :=
  fun c hc => tf c (sub_mem hc)

theorem qp_tf {src : Bytes} (tf : ∀ c ∈ src, c ≠ 9) : ∀ c ∈ quotePrefix src, c ≠ 9 := by
  intro c hc
  rcases qp_mem hc with h | h | h
  · exact tf c h
  · subst h; decide
  · subst h; decide

theorem loVal_A {src k ls p} (tf : ∀ c ∈ src, c ≠ 9) (h : InL src k ls p) (hp : p < src.length) :
    loVal src ⟨k, p, 0⟩ = (p : Int) - ls := by
  have hlt := h.lt_iff.mp hp
  unfold loVal
  simp only [(qp_lineStart h.line h.ge hlt).2]
  rw [colFrom_tabfree _ (sub_tf tf _ _), GM.Proof.Reader.length_sub src (by omega)]
  have := h.ge
  omega

theorem loVal_B {src k ls p} (tf : ∀ c ∈ src, c ≠ 9) (h : InL src k ls p) (hp : p < src.length) :
    loVal (quotePrefix src) ⟨k, p + 2 * (k + 1), 0⟩ = (p : Int) - ls + 2 := by
  have hlt := h.lt_iff.mp hp
  have hge := qp_length_ge h.line
  unfold loVal
  simp only [(qp_lineStart h.line h.ge hlt).1]
  rw [colFrom_tabfree _ (sub_tf (qp_tf tf) _ _), GM.Proof.Reader.length_sub _ (by omega)]
  have := h.ge
  omega

end GM.Blocks
