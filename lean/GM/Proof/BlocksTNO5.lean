/-
  GM.Proof.BlocksTNO5 — whole runs of the block phase WITH the link-reference paragraph transformer on sources without
  a setext underline (`NoSetextBar`): the run-time check of `guardE` / `guardedTransform` never fires, so the run with the
  bare `GM.LinkRef.transform` ends normally; in the final store the lines of every non-raw block are ordered / `WFSegs`
  and every line of a Paragraph holds a non-space byte.
-/
import GM.Proof.BlocksTNO4
import GM.Proof.BlocksTNP13

namespace GM.Blocks.TO
open GM GM.Text GM.Spec GM.Proof.Reader GM.Blocks.L GM.Blocks.T GM.LinkRef
open GM.Proof.BlocksWF0 (isRaw)

/-- a one-element transformer list against the bare `transform`: enough that the transformer IS `transform` whenever the
    lines pass the check `linesOKB` -/
theorem agree_of_passes (src : Bytes) (pt : PT)
    (hpass : ∀ (node : Nat) (s : St), linesOKB s.r.source (nd s node).lines = true → pt node s = transform node s) :
    Agree src [pt] [transform] := by
  intro node s hsrc _ _ hpar _ hok
  have hok' : linesOKB s.r.source (nd s node).lines = true := by rw [hsrc]; exact hok
  obtain ⟨s1, e1, hpost⟩ := GM.Proof.LinkRefTot2.transform_total node s (GM.Proof.LinkRefTot2.linesOKB_sound hok') hpar
  unfold transformParagraph
  refine EQV.bind (P := fun _ s' => s' = s1) ⟨hpass node s hok', fun a s' e => ?_⟩ (fun _ s2 _ h2 => ?_)
  · rw [hpass node s hok', e1] at e; cases e; rfl
  · subst h2
    refine EQV.refl (fun g s' k => ?_)
    obtain ⟨n, s3, h3, k3⟩ := obind_ok k
    obtain ⟨_, hs3⟩ := ogetNode_ok h3
    subst s3
    have : s' = s2 := by
      split at k3
      · exact (opure_ok k3).2
      · unfold transformParagraph at k3; exact (opure_ok k3).2
    rw [this]; exact hpost

theorem agree_guardE (src : Bytes) (e : Panic) : Agree src [guardE e] [transform] :=
  agree_of_passes src _ (fun node s h => GM.Proof.LinkRefTot2.guardE_passes e node s h)

theorem guardedTransform_passes (node : Nat) (s : St) (h : linesOKB s.r.source (nd s node).lines = true) :
    guardedTransform node s = transform node s := by
  have h' : linesOKB s.r.source (s.nodes.getD node default).lines = true := h
  have hg : ((s.nodes.getD node default).lines.length != 0 && !wfSegsB s.r.source (s.nodes.getD node default).lines) = false := by
    simp only [linesOKB, Bool.or_eq_true, beq_iff_eq, Bool.and_eq_true] at h'
    rcases h' with h0 | ⟨h1, _⟩
    · rw [h0]; rfl
    · rw [h1]; simp
  unfold guardedTransform
  simp only [bind, StateT.bind, getNode, source, pure, Except.pure, Except.bind, hg, Bool.false_eq_true, if_false]

theorem agree_guarded (src : Bytes) : Agree src [guardedTransform] [transform] :=
  agree_of_passes src _ guardedTransform_passes

section run
variable {src : Bytes} {e : Panic} {pts1 pts2 : List PT}

/-- the two runs are the same, and a normal end satisfies the order invariant -/
theorem runT_eqv (hNB : GM.Blocks.L.B.NoSetextBar src) (hag : Agree src pts1 pts2) (hsp : PTsSpec src e pts1) :
    runT pts1 src = runT pts2 src ∧ ∀ s, runT pts1 src = .ok s → ∃ E, InvT src E s := by
  have hnd0 : ∀ i, nd ({ (initSt src) with pc := { (initSt src).pc with opened := [] } } : St) i =
      if i = 0 then { kind := .document } else default := by
    intro i
    cases i with
    | zero => rfl
    | succ n => rfl
  have hnodes0 : NodesOK src { (initSt src) with pc := { (initSt src).pc with opened := [] } } := by
    intro n hn
    simp only [initSt, List.mem_singleton] at hn
    subst hn
    exact ⟨by intro t ht; simp at ht, fun _ => rfl⟩
  have hinit : GM.Blocks.L.B.StableLT src 0 { (initSt src) with pc := { (initSt src).pc with opened := [] } } := by
    refine ⟨hnodes0, ⟨?_, ?_⟩, ?_, ?_, ⟨⟨?_, ?_, ?_⟩, ?_, ?_, ?_, ?_, ?_⟩, ?_, ?_, rfl⟩
    · intro t h; simp [initSt] at h
    · intro f h; simp [initSt] at h
    · intro b hb; simp at hb
    · intro b hb; simp at hb
    · intro i lc hk; rw [hnd0] at hk; split at hk <;> cases hk
    · intro i hk; rw [hnd0] at hk; split at hk <;> cases hk
    · intro i p hp; rw [hnd0] at hp; split at hp <;> cases hp
    · intro i p hp; rw [hnd0] at hp; split at hp <;> cases hp
    · rw [hnd0]; rfl
    · simp [initSt]
    · intro b hb; simp at hb
    · simp
    · trivial
    · show (nd _ (lastNode 0 [])).kind ≠ .list
      rw [lastNode_nil, hnd0]; decide
  have hinv0 : InvT src ((RCur.init).p : Int) { (initSt src) with pc := { (initSt src).pc with opened := [] } } := by
    refine ⟨fun i _ => ?_, fun b hb => ?_, fun i hk => ?_, fun t ht => ?_, fun b hb => ?_, hnodes0⟩
    · rw [hnd0]; split
      · exact ⟨trivial, Below.nil _, fun t ht => by cases ht⟩
      · exact ⟨trivial, Below.nil _, fun t ht => by cases ht⟩
    · simp at hb
    · rw [hnd0] at hk; split at hk <;> cases hk
    · simp [initSt] at ht
    · simp at hb
  have hb := blocksLoopT_eqv (lsp_all src) hag hNB hsp 0 rfl (linesFuel src) []
    { (initSt src) with pc := { (initSt src).pc with opened := [] } } RCur.init (ri_init src)
    (fun h => absurd rfl h) hinit rfl hinv0
  have hp : ∀ pts : List PT, parseBlocksT pts 0 (initSt src) = blocksLoopT pts 0 (linesFuel src) []
      { (initSt src) with pc := { (initSt src).pc with opened := [] } } := fun pts => rfl
  unfold runT
  rw [hp pts1, hp pts2, ← hb.1]
  refine ⟨rfl, fun s hs => ?_⟩
  cases hx : blocksLoopT pts1 0 (linesFuel src) [] { (initSt src) with pc := { (initSt src).pc with opened := [] } } with
  | error e' => rw [hx] at hs; cases hs
  | ok p =>
    obtain ⟨u, s1⟩ := p
    rw [hx] at hs
    have : s1 = s := by simpa [Except.map] using hs
    subst this
    exact hb.2 u s1 hx

end run

/-- **the run-time check never fires** on a source without a setext underline: the block phase with `guardE e` and the
    block phase with the bare transformer are the same run -/
theorem guard_never_fires_noBar (src : Bytes) (h : GM.Blocks.L.B.NoSetextBar src) (e : Panic) :
    runT [guardE e] src = runT [transform] src :=
  (runT_eqv h (agree_guardE src e) (GM.Proof.LinkRefTot2.guardE_ptsSpec src e)).1

/-- **the block phase with the bare link-reference transformer ends normally** on every source without a setext
    underline (= `GM.Convert.blockPhase false src`) -/
theorem runT_transform_total_noBar (src : Bytes) (h : GM.Blocks.L.B.NoSetextBar src) :
    ∃ s, runT [transform] src = .ok s ∧ NodesOK src s := by
  have h1 := GM.Blocks.T.runT_total_noBar src .nil [guardE .nil] (GM.Proof.LinkRefTot2.guardE_ptsSpec src .nil)
    (GM.Proof.LinkRefTot2.guardE_ptsOK .nil (by decide)) h
  have h2 := GM.Blocks.T.runT_total_noBar src .slice [guardE .slice] (GM.Proof.LinkRefTot2.guardE_ptsSpec src .slice)
    (GM.Proof.LinkRefTot2.guardE_ptsOK .slice (by decide)) h
  rw [guard_never_fires_noBar src h] at h1 h2
  rcases h1 with h1 | h1
  · exact h1
  · rcases h2 with h2 | h2
    · exact h2
    · rw [h1] at h2; cases h2

/-- the same for the default transformer list of `GM.Convert.blockPhase true` (`guardedTransform`: its check never fires) -/
theorem blockPhase_guard_irrelevant_noBar (src : Bytes) (h : GM.Blocks.L.B.NoSetextBar src) :
    GM.Convert.blockPhase true src = GM.Convert.blockPhase false src := by
  have hsp : PTsSpec src .pre [guardedTransform] := by
    have := GM.Proof.LinkRefTot2.paragraphTransformers_spec src
    simpa [GM.Convert.paragraphTransformers] using this
  have := (runT_eqv h (agree_guarded src) hsp).1
  simpa [GM.Convert.blockPhase, GM.Convert.paragraphTransformers] using this

theorem blockPhase_total_noBar (src : Bytes) (h : GM.Blocks.L.B.NoSetextBar src) :
    ∃ s, GM.Convert.blockPhase true src = .ok s ∧ NodesOK src s := by
  rw [blockPhase_guard_irrelevant_noBar src h]
  have := runT_transform_total_noBar src h
  simpa [GM.Convert.blockPhase, GM.Convert.paragraphTransformers] using this

/-- the order invariant of the final store of the block phase with the transformer -/
theorem runT_transform_inv_noBar (src : Bytes) (h : GM.Blocks.L.B.NoSetextBar src) (s : St)
    (hr : runT [transform] src = .ok s) : ∃ E, InvT src E s := by
  rw [← guard_never_fires_noBar src h .nil] at hr
  exact (runT_eqv h (agree_guardE src .nil) (GM.Proof.LinkRefTot2.guardE_ptsSpec src .nil)).2 s hr

/-- **order clause / `WFSegs` for the final store of the run WITH the transformer** (the analogue of `run_ordered`,
    `run_wfsegs`): every non-raw block's lines increase, every segment is non-empty without ForceNewline; a non-raw block
    that has lines has `WFSegs` lines; every line of a Paragraph holds a non-space byte -/
theorem runT_transform_wfsegs_noBar (src : Bytes) (h : GM.Blocks.L.B.NoSetextBar src) (s : St)
    (hr : runT [transform] src = .ok s) :
    (∀ n ∈ s.nodes, isRaw n.kind = false → OrdFrom 0 n.lines ∧ (∀ t ∈ n.lines, t.start < t.stop ∧ t.forceNewline = false) ∧
      (n.lines ≠ [] → WFSegs src n.lines)) ∧
    (∀ n ∈ s.nodes, n.kind = .paragraph → ∀ t ∈ n.lines, NonBlankSeg src t) := by
  obtain ⟨E, hE⟩ := runT_transform_inv_noBar src h s hr
  refine ⟨fun n hn hraw => ?_, fun n hn hk => ?_⟩
  · obtain ⟨i, _, rfl⟩ := mem_nodes_nd hn
    obtain ⟨a1, _, a3⟩ := hE.nrb i hraw
    have hok := (nodeOK_nd hE.nodes i).lines
    exact ⟨a1, a3, fun hne => ⟨hne, (wfSegsFrom_iff src _ 0).2 ⟨a1, fun t ht =>
      ⟨(a3 t ht).1, (hok t ht).2.2.1, (hok t ht).2.2.2, (a3 t ht).2⟩⟩⟩⟩
  · obtain ⟨i, _, rfl⟩ := mem_nodes_nd hn
    exact hE.pnb i hk

/-! ### witnesses (kernel-evaluated) -/

/-- `[a]: /u⏎` — the paragraph is transformed away (GONE) -/
def exGone : Bytes := [91, 97, 93, 58, 32, 47, 117, 10]
/-- `> [a]: /u⏎> b⏎- x⏎` — a definition in front of text inside a block quote (KEEP), then a bullet list -/
def exKeep : Bytes := [62, 32, 91, 97, 93, 58, 32, 47, 117, 10, 62, 32, 98, 10, 45, 32, 120, 10]

example : ∃ s, runT [transform] exGone = .ok s ∧ NodesOK exGone s :=
  runT_transform_total_noBar _ (GM.Blocks.T.noBarB_sound (by decide +kernel))
example : ∃ s, runT [transform] exKeep = .ok s ∧ NodesOK exKeep s :=
  runT_transform_total_noBar _ (GM.Blocks.T.noBarB_sound (by decide +kernel))

/-- why `InvT` drops wf0's clause "every Paragraph has a line": after the run on `[a]: /u⏎` node 1 is a parentless
    Paragraph without lines (and node 2 the TextBlock that took its place) -/
example : (runT [transform] exGone).toOption.map (fun s =>
    decide ((nd s 1).kind = .paragraph) && (nd s 1).lines.isEmpty && (nd s 1).parent.isNone &&
      decide ((nd s 2).kind = .textBlock)) = some true := by decide +kernel

end GM.Blocks.TO
