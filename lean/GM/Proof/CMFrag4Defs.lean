/-
  GM.Proof.CMFrag4Defs — stage 4 of the fragment (ATX headings, thematic breaks): the block-phase nodes.
-/
import GM.Proof.CMFragDriver

namespace GM.Proof.CMFrag
open GM GM.Text GM.Blocks

/-- a Heading node below the Document -/
def headN (level : Nat) (lines : List Segment) (b : Bool) : Blocks.Node :=
  { kind := .heading, parent := some 0, level := (level : Int), lines := lines, linesNil := false, blankPrev := b }

/-- a ThematicBreak node below the Document -/
def hrN (b : Bool) : Blocks.Node := { kind := .thematicBreak, parent := some 0, blankPrev := b }

end GM.Proof.CMFrag
