/-
  GM.Proof.BlocksLeaf — which block parsers can make `openBlocks` retry. `Ret m Q`: every value `m` returns
  satisfies `Q` (a walk over the `do` block that only looks at the `pure`/`return` leaves). The seven leaf
  parsers never answer `HasChildren`; hence a `goto retry` of `openBlocks` is always caused by the block
  quote, list or list item parser.
-/
import GM.Proof.BlocksRetry

namespace GM.Blocks
open GM GM.Text

/-- every value returned by `m` satisfies `Q` -/
structure Ret {α : Type} (m : M α) (Q : α → Prop) : Prop where
  h : ∀ s a s', m s = .ok (a, s') → Q a

theorem Ret.pure {α} {Q : α → Prop} {a : α} (h : Q a) : Ret (Pure.pure a : M α) Q :=
  ⟨fun _ _ _ h' => by cases h'; exact h⟩

theorem Ret.bind {α β} {Q : β → Prop} {m : M α} {f : α → M β} (hf : ∀ a, Ret (f a) Q) : Ret (m >>= f) Q := by
  constructor
  intro s b s' h
  simp only [Bind.bind, StateT.bind] at h
  cases hm : m s with
  | error e => rw [hm] at h; simp [Except.bind] at h
  | ok p => rw [hm] at h; simp only [Except.bind] at h; exact (hf p.1).h p.2 b s' h

theorem Ret.ite {α} {Q : α → Prop} {c : Prop} [Decidable c] {a b : M α} (ha : Ret a Q) (hb : Ret b Q) :
    Ret (if c then a else b) Q := by split <;> assumption

theorem Ret.throw {α} {Q : α → Prop} (e : Panic) : Ret (throw e : M α) Q :=
  ⟨fun _ _ _ h => by cases h⟩

macro "ret_step" : tactic =>
  `(tactic| first
    | ((with_reducible apply Ret.pure) <;> (first | rfl | trivial | decide))
    | with_reducible apply Ret.bind
    | with_reducible apply Ret.ite
    | with_reducible apply Ret.throw
    | intro _
    | split)

macro "ret" : tactic => `(tactic| repeat' ret_step)

/-- the parser answered "no children" (NoChildren, possibly with RequireParagraph) -/
def NoKids (a : Option Nat × PState) : Prop := a.2.hasChildren = false

theorem paragraphOpen_leaf (p : Nat) : Ret (paragraphOpen p) NoKids := by unfold paragraphOpen NoKids; ret
theorem thematicOpen_leaf (p : Nat) : Ret (thematicOpen p) NoKids := by unfold thematicOpen NoKids; ret
theorem atxOpen_leaf (p : Nat) : Ret (atxOpen p) NoKids := by unfold atxOpen NoKids; ret
theorem setextOpen_leaf (p : Nat) : Ret (setextOpen p) NoKids := by unfold setextOpen NoKids; ret
theorem codeOpen_leaf (p : Nat) : Ret (codeOpen p) NoKids := by unfold codeOpen NoKids; ret
theorem fencedOpen_leaf (p : Nat) : Ret (fencedOpen p) NoKids := by unfold fencedOpen NoKids; ret
theorem htmlOpen_leaf (p : Nat) : Ret (htmlOpen p) NoKids := by unfold htmlOpen NoKids; ret

/-- the container parsers -/
def BP.isContainer : BP → Bool
  | .blockquote => true | .list => true | .listItem => true | _ => false

/-- only the block quote, list and list item parsers ever answer `HasChildren` -/
theorem hasChildren_only_containers (bp : BP) (p : Nat) (s s' : St) (a : Option Nat × PState)
    (h : bpOpen bp p s = .ok (a, s')) (hc : a.2.hasChildren = true) : bp.isContainer = true := by
  cases bp <;> simp only [BP.isContainer] <;> unfold bpOpen at h
  · have := (setextOpen_leaf p).h s a s' h; unfold NoKids at this; rw [this] at hc; cases hc
  · have := (thematicOpen_leaf p).h s a s' h; unfold NoKids at this; rw [this] at hc; cases hc
  · have := (codeOpen_leaf p).h s a s' h; unfold NoKids at this; rw [this] at hc; cases hc
  · have := (atxOpen_leaf p).h s a s' h; unfold NoKids at this; rw [this] at hc; cases hc
  · have := (fencedOpen_leaf p).h s a s' h; unfold NoKids at this; rw [this] at hc; cases hc
  · have := (htmlOpen_leaf p).h s a s' h; unfold NoKids at this; rw [this] at hc; cases hc
  · have := (paragraphOpen_leaf p).h s a s' h; unfold NoKids at this; rw [this] at hc; cases hc

end GM.Blocks
