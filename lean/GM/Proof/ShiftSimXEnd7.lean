/-
  GM.Proof.ShiftSimXEnd7 — C09 first half for a NON-EMPTY first part, unconditional: every `a` that ends with a line
  feed and contains none of the bytes `- * + 0-9 = ` ~` (no list, no setext heading, no fenced code block: block quotes,
  paragraphs, ATX headings, thematic breaks `___`, indented code and HTML blocks are allowed) — the statement's own
  proviso "`a` does not end in a raw block" is used where run B reads the blank line behind `a`.
-/
import GM.Proof.ShiftSimXEnd5
import GM.Proof.ShiftSimXEnd6
import GM.Proof.ShiftSimXRi
import GM.Proof.ShiftSimXSafe2

namespace GM.Blocks.Xs
open GM GM.Text GM.Spec GM.Proof.Reader GM.Blocks

/-- the byte-level class of round 3 is contained in the positional class -/
theorem plainL_of_plain6 (b : Bytes) (h : Plain6 b) : PlainL b := by
  intro j ch hj _
  have hm : ch ∈ b := List.mem_of_getElem? hj
  obtain ⟨h1, h2, h3, h4, h5, h6, h7⟩ := h ch hm
  exact ⟨h1, h2, h3, h4, h5, h6, h7⟩

/-- prefix determinism + closing at the end of the source = closing by a blank line, for the positional class -/
theorem reach_plainL (a h b : Bytes) (hh : ∀ c ∈ h, c ≠ 10) (ha : a.getLast? = some 10) (hpl : PlainL a)
    (sa sh sd : St) (hsa : run a = .ok sa) (hsh : run (headingLine h) = .ok sh) (hsd : run (indepDoc a h b) = .ok sd)
    (hraw : endsInRawBlock sa = false) : Sh.Reach a h b sa sh sd :=
  reach_plainL_of a h b hh ha hpl (passKeeps a ha hpl) (openKeeps a ha hpl) sa sh sd hsa hsh hsd hraw

/-- **C09 first half for the positional class**: `a` ends with a line feed and no line of `a` starts, after its quote
    markers and indentation, with a list / setext / fence trigger -/
theorem independent_blocks_plainL (a h b : Bytes) (ha : a.getLast? = some 10) (hpl : PlainL a) :
    ∀ e g, indepPair a h b = some (e, g) → e = g :=
  independent_blocks_plainL_of a h b ha hpl (passKeeps a ha hpl) (openKeeps a ha hpl)

/-- (round 3) the byte-level class -/
theorem reach_plain (a h b : Bytes) (hh : ∀ c ∈ h, c ≠ 10) (ha : a.getLast? = some 10) (hpl : Plain6 a)
    (sa sh sd : St) (hsa : run a = .ok sa) (hsh : run (headingLine h) = .ok sh) (hsd : run (indepDoc a h b) = .ok sd)
    (hraw : endsInRawBlock sa = false) : Sh.Reach a h b sa sh sd :=
  reach_plainL a h b hh ha (plainL_of_plain6 a hpl) sa sh sd hsa hsh hsd hraw

theorem independent_blocks_plain6 (a h b : Bytes) (ha : a.getLast? = some 10) (hpl : Plain6 a) :
    ∀ e g, indepPair a h b = some (e, g) → e = g :=
  independent_blocks_plainL a h b ha (plainL_of_plain6 a hpl)

end GM.Blocks.Xs
