/-
  GM.Proof.ShiftSimXEnd7 — C09 first half for a NON-EMPTY first part, unconditional: every `a` that ends with a line
  feed and contains none of the bytes `- * + 0-9 = ` ~` (no list, no setext heading, no fenced code block: block quotes,
  paragraphs, ATX headings, thematic breaks `___`, indented code and HTML blocks are allowed) — the statement's own
  proviso "`a` does not end in a raw block" is used where run B reads the blank line behind `a`.
-/
import GM.Proof.ShiftSimXEnd5
import GM.Proof.ShiftSimXEnd6
import GM.Proof.ShiftSimXRi

namespace GM.Blocks.Xs
open GM GM.Text GM.Spec GM.Proof.Reader GM.Blocks

/-- prefix determinism + closing at the end of the source = closing by a blank line, for the class -/
theorem reach_plain (a h b : Bytes) (hh : ∀ c ∈ h, c ≠ 10) (ha : a.getLast? = some 10) (hpl : Plain6 a)
    (sa sh sd : St) (hsa : run a = .ok sa) (hsh : run (headingLine h) = .ok sh) (hsd : run (indepDoc a h b) = .ok sd)
    (hraw : endsInRawBlock sa = false) : Sh.Reach a h b sa sh sd :=
  reach_plain6 a h b hh ha hpl (passKeeps a ha hpl (ri_open6 a) (ri_continue6 a)) (openKeeps a hpl (ri_open6 a))
    sa sh sd hsa hsh hsd hraw

theorem independent_blocks_plain6 (a h b : Bytes) (ha : a.getLast? = some 10) (hpl : Plain6 a) :
    ∀ e g, indepPair a h b = some (e, g) → e = g :=
  independent_blocks_plain6_of a h b ha hpl (passKeeps a ha hpl (ri_open6 a) (ri_continue6 a))
    (openKeeps a hpl (ri_open6 a))

end GM.Blocks.Xs
